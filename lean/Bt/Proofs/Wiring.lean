import Bt.Algos.Wiring
/-!
  Helper lemmas for C19 (tree wiring).  No Mathlib needed: lists, strings, structural induction over the tree.

  Vocabulary:
    `sig ks`            names and kinds (strategy?) of realised children — what a parent knows of its children
    `All Ps Pt n t`     every realised security (strategy) of `t` satisfies `Ps` (`Pt`) at its depth, `t` itself at depth `n`
    `Good n t`          wiring invariant: parent pointer = structural parent (self at depth 0), root pointer = the node `depth`
                        levels up, sibling names pairwise distinct, `_strat_children` = the names of the strategy children
    `mapT fs ft fp`     a node-wise change of the data (all pushing-down methods of the code are of this form)
-/
namespace Bt.Wiring

/-- the error of a script (`none`: nothing raised) -/
def errOf : Except (Nat × Err) Tree → Option (Nat × Err)
  | .ok _ => none
  | .error e => some e

theorem errOf_none (r : Except (Nat × Err) Tree) : errOf r = none ↔ ∃ t, r = .ok t := by
  cases r <;> simp [errOf]

/-! ### lists of names -/

def sig (ks : List Tree) : List (String × Bool) := ks.map (fun k => (k.name, k.isStrat))

def sigNames (sg : List (String × Bool)) : List String := sg.map Prod.fst
def sigStrats (sg : List (String × Bool)) : List String := (sg.filter Prod.snd).map Prod.fst

theorem sigNames_sig (ks : List Tree) : sigNames (sig ks) = names ks := by
  simp [sigNames, sig, names, List.map_map, Function.comp_def]

theorem sig_append (a b : List Tree) : sig (a ++ b) = sig a ++ sig b := by simp [sig]

theorem names_append (a b : List Tree) : names (a ++ b) = names a ++ names b := by simp [names]

/-! ### invariants over the realised tree -/

mutual
def All (Ps : Nat → SecW → Prop) (Pt : Nat → StratW → List (String × Bool) → Prop) (n : Nat) : Tree → Prop
  | .sec s => Ps n s
  | .strat d ks _ => Pt n d (sig ks) ∧ AllL Ps Pt (n + 1) ks
def AllL (Ps : Nat → SecW → Prop) (Pt : Nat → StratW → List (String × Bool) → Prop) (n : Nat) : List Tree → Prop
  | [] => True
  | k :: ks => All Ps Pt n k ∧ AllL Ps Pt n ks
end

section AllLemmas
variable {Ps : Nat → SecW → Prop} {Pt : Nat → StratW → List (String × Bool) → Prop}

theorem AllL_append {n : Nat} (a b : List Tree) : AllL Ps Pt n (a ++ b) ↔ AllL Ps Pt n a ∧ AllL Ps Pt n b := by
  induction a with
  | nil => simp [AllL]
  | cons k ks ih => simp [AllL, ih, and_assoc]

theorem AllL_iff {n : Nat} (ks : List Tree) : AllL Ps Pt n ks ↔ ∀ k ∈ ks, All Ps Pt n k := by
  induction ks with
  | nil => simp [AllL]
  | cons k ks ih => simp [AllL, ih]

end AllLemmas

/-! ### node-wise maps -/

mutual
def mapT (fs : Nat → SecW → SecW) (ft : Nat → StratW → StratW)
    (fp : Nat → StratW → List Tree → Option Tree → Option Tree) (n : Nat) : Tree → Tree
  | .sec s => .sec (fs n s)
  | .strat d ks p => .strat (ft n d) (mapL fs ft fp (n + 1) ks) (fp n d ks p)
def mapL (fs : Nat → SecW → SecW) (ft : Nat → StratW → StratW)
    (fp : Nat → StratW → List Tree → Option Tree → Option Tree) (n : Nat) : List Tree → List Tree
  | [] => []
  | k :: ks => mapT fs ft fp n k :: mapL fs ft fp n ks
end

section MapLemmas
variable {fs : Nat → SecW → SecW} {ft : Nat → StratW → StratW}
  {fp : Nat → StratW → List Tree → Option Tree → Option Tree}

theorem mapT_name (hs : ∀ n s, (fs n s).name = s.name) (ht : ∀ n d, (ft n d).name = d.name) (n : Nat) (t : Tree) :
    (mapT fs ft fp n t).name = t.name := by
  cases t <;> simp [mapT, Tree.name, hs, ht]

theorem mapT_isStrat (n : Nat) (t : Tree) : (mapT fs ft fp n t).isStrat = t.isStrat := by
  cases t <;> simp [mapT, Tree.isStrat]

theorem sig_mapL (hs : ∀ n s, (fs n s).name = s.name) (ht : ∀ n d, (ft n d).name = d.name) (n : Nat) (ks : List Tree) :
    sig (mapL fs ft fp n ks) = sig ks := by
  induction ks with
  | nil => rfl
  | cons k ks ih =>
    simp only [mapL, sig, List.map_cons] at ih ⊢
    rw [ih, mapT_name hs ht, mapT_isStrat]

theorem mapL_append (n : Nat) (a b : List Tree) : mapL fs ft fp n (a ++ b) = mapL fs ft fp n a ++ mapL fs ft fp n b := by
  induction a with
  | nil => rfl
  | cons k ks ih => simp [mapL, ih]

variable {Ps Ps' : Nat → SecW → Prop} {Pt Pt' : Nat → StratW → List (String × Bool) → Prop}

mutual
/-- a node-wise map carries an invariant at depth `a + j` to one at depth `b + j` -/
theorem All_mapT (a b : Nat) (hs : ∀ n s, (fs n s).name = s.name) (ht : ∀ n d, (ft n d).name = d.name)
    (hS : ∀ j s, Ps (a + j) s → Ps' (b + j) (fs (b + j) s))
    (hT : ∀ j d sg, Pt (a + j) d sg → Pt' (b + j) (ft (b + j) d) sg) :
    (j : Nat) → (t : Tree) → All Ps Pt (a + j) t → All Ps' Pt' (b + j) (mapT fs ft fp (b + j) t)
  | j, .sec s, h => by
    simp only [mapT, All] at h ⊢
    exact hS j s h
  | j, .strat d ks p, h => by
    simp only [mapT, All] at h ⊢
    refine ⟨?_, ?_⟩
    · rw [sig_mapL hs ht]; exact hT j d _ h.1
    · exact AllL_mapL a b hs ht hS hT (j + 1) ks h.2
theorem AllL_mapL (a b : Nat) (hs : ∀ n s, (fs n s).name = s.name) (ht : ∀ n d, (ft n d).name = d.name)
    (hS : ∀ j s, Ps (a + j) s → Ps' (b + j) (fs (b + j) s))
    (hT : ∀ j d sg, Pt (a + j) d sg → Pt' (b + j) (ft (b + j) d) sg) :
    (j : Nat) → (ks : List Tree) → AllL Ps Pt (a + j) ks → AllL Ps' Pt' (b + j) (mapL fs ft fp (b + j) ks)
  | _, [], _ => by simp [mapL, AllL]
  | j, k :: ks, h => by
    simp only [mapL, AllL] at h ⊢
    exact ⟨All_mapT a b hs ht hS hT j k h.1, AllL_mapL a b hs ht hS hT j ks h.2⟩
end

end MapLemmas

/-! ### the code's pushing-down methods as node-wise maps -/

def keepPaper : Nat → StratW → List Tree → Option Tree → Option Tree := fun _ _ _ p => p

mutual
theorem setRoot_eq_mapT : (n : Nat) → (t : Tree) →
    setRoot n t = mapT (fun k s => { s with rootUp := k }) (fun k d => { d with rootUp := k }) keepPaper n t
  | n, .sec s => by simp [setRoot, mapT]
  | n, .strat d ks p => by simp [setRoot, mapT, keepPaper, setRootL_eq_mapL (n + 1) ks]
theorem setRootL_eq_mapL : (n : Nat) → (ks : List Tree) →
    setRootL n ks = mapL (fun k s => { s with rootUp := k }) (fun k d => { d with rootUp := k }) keepPaper n ks
  | _, [] => by simp [setRootL, mapL]
  | n, k :: ks => by simp [setRootL, mapL, setRoot_eq_mapT n k, setRootL_eq_mapL n ks]
end

mutual
theorem useInt_eq_mapT (b : Bool) : (n : Nat) → (t : Tree) →
    useInt b t = mapT (fun _ s => { s with integer := b }) (fun _ d => { d with integer := b }) (fun _ _ _ p => useIntO b p) n t
  | n, .sec s => by simp [useInt, mapT]
  | n, .strat d ks p => by simp [useInt, mapT, useIntL_eq_mapL b (n + 1) ks]
theorem useIntL_eq_mapL (b : Bool) : (n : Nat) → (ks : List Tree) →
    useIntL b ks = mapL (fun _ s => { s with integer := b }) (fun _ d => { d with integer := b }) (fun _ _ _ p => useIntO b p) n ks
  | _, [] => by simp [useIntL, mapL]
  | n, k :: ks => by simp [useIntL, mapL, useInt_eq_mapT b n k, useIntL_eq_mapL b n ks]
end

mutual
theorem setComm_eq_mapT (c : Nat) : (n : Nat) → (t : Tree) →
    setComm c t = mapT (fun _ s => s) (fun _ d => { d with comm := some c }) (fun _ _ _ p => setCommO c p) n t
  | n, .sec s => by simp [setComm, mapT]
  | n, .strat d ks p => by simp [setComm, mapT, setCommL_eq_mapL c (n + 1) ks]
theorem setCommL_eq_mapL (c : Nat) : (n : Nat) → (ks : List Tree) →
    setCommL c ks = mapL (fun _ s => s) (fun _ d => { d with comm := some c }) (fun _ _ _ p => setCommO c p) n ks
  | _, [] => by simp [setCommL, mapL]
  | n, k :: ks => by simp [setCommL, mapL, setComm_eq_mapT c n k, setCommL_eq_mapL c n ks]
end

def setupPaper (cols : List String) : Nat → StratW → List Tree → Option Tree → Option Tree :=
  fun _ d ks _ => if d.isTop then none else some (.strat (setupD cols (asTopD d)) (setRootL 1 (setupL cols ks)) none)

mutual
theorem setupNode_eq_mapT (cols : List String) : (n : Nat) → (t : Tree) →
    setupNode cols t = mapT (fun _ s => setupSec cols s) (fun _ d => setupD cols d) (setupPaper cols) n t
  | n, .sec s => by simp [setupNode, mapT]
  | n, .strat d ks p => by simp [setupNode, mapT, setupPaper, setupL_eq_mapL cols (n + 1) ks]
theorem setupL_eq_mapL (cols : List String) : (n : Nat) → (ks : List Tree) →
    setupL cols ks = mapL (fun _ s => setupSec cols s) (fun _ d => setupD cols d) (setupPaper cols) n ks
  | _, [] => by simp [setupL, mapL]
  | n, k :: ks => by simp [setupL, mapL, setupNode_eq_mapT cols n k, setupL_eq_mapL cols n ks]
end

def updSec (i : Nat) (s : SecW) : SecW := if s.needupdate then secUpdate (some i) s else s
def updD (i : Nat) (d : StratW) : StratW := { d with now := some i, univ := stratCols d }
def updPaper (i : Nat) : Nat → StratW → List Tree → Option Tree → Option Tree :=
  fun _ d _ p => if d.paperTrade && d.now != some i then updateO i p else p

mutual
theorem updateNode_eq_mapT (i : Nat) : (n : Nat) → (t : Tree) →
    updateNode i t = mapT (fun _ s => updSec i s) (fun _ d => updD i d) (updPaper i) n t
  | n, .sec s => by simp [updateNode, mapT, updSec]
  | n, .strat d ks p => by simp [updateNode, mapT, updD, updPaper, updateL_eq_mapL i (n + 1) ks]
theorem updateL_eq_mapL (i : Nat) : (n : Nat) → (ks : List Tree) →
    updateL i ks = mapL (fun _ s => updSec i s) (fun _ d => updD i d) (updPaper i) n ks
  | _, [] => by simp [updateL, mapL]
  | n, k :: ks => by simp [updateL, mapL, updateNode_eq_mapT i n k, updateL_eq_mapL i n ks]
end

theorem sig_setRootL (n : Nat) (ks : List Tree) : sig (setRootL n ks) = sig ks := by
  rw [setRootL_eq_mapL]; apply sig_mapL <;> intros <;> rfl

theorem sig_useIntL (b : Bool) (ks : List Tree) : sig (useIntL b ks) = sig ks := by
  rw [useIntL_eq_mapL b 0]; apply sig_mapL <;> intros <;> rfl

theorem sig_setCommL (c : Nat) (ks : List Tree) : sig (setCommL c ks) = sig ks := by
  rw [setCommL_eq_mapL c 0]; apply sig_mapL <;> intros <;> rfl

theorem sig_setupL (cols : List String) (ks : List Tree) : sig (setupL cols ks) = sig ks := by
  rw [setupL_eq_mapL cols 0]; apply sig_mapL <;> intros <;> rfl

/-! ### the wiring invariant -/

def GoodS (n : Nat) (s : SecW) : Prop := s.isTop = decide (n = 0) ∧ s.rootUp = n

def GoodT (n : Nat) (d : StratW) (sg : List (String × Bool)) : Prop :=
  d.isTop = decide (n = 0) ∧ d.rootUp = n ∧ (sigNames sg).Nodup ∧ d.stratKids = sigStrats sg

/-- parent pointer = structural parent (self at the top), root pointer = the top, sibling names distinct,
    `_strat_children` = names of the strategy children; everywhere in the realised tree -/
def Good (n : Nat) (t : Tree) : Prop := All GoodS GoodT n t
def GoodL (n : Nat) (ks : List Tree) : Prop := AllL GoodS GoodT n ks

theorem Good_useInt (b : Bool) (n : Nat) (t : Tree) (h : Good n t) : Good n (useInt b t) := by
  rw [useInt_eq_mapT b n t]
  have := All_mapT (fp := fun _ _ _ p => useIntO b p) (Ps := GoodS) (Ps' := GoodS) (Pt := GoodT) (Pt' := GoodT) n n
    (fs := fun _ s => { s with integer := b }) (ft := fun _ d => { d with integer := b })
    (fun _ _ => rfl) (fun _ _ => rfl) (fun _ _ h => h) (fun _ _ _ h => h) 0 t
  simpa [Good] using this (by simpa [Good] using h)

theorem Good_setComm (c : Nat) (n : Nat) (t : Tree) (h : Good n t) : Good n (setComm c t) := by
  rw [setComm_eq_mapT c n t]
  have := All_mapT (fp := fun _ _ _ p => setCommO c p) (Ps := GoodS) (Ps' := GoodS) (Pt := GoodT) (Pt' := GoodT) n n
    (fs := fun _ s => s) (ft := fun _ d => { d with comm := some c })
    (fun _ _ => rfl) (fun _ _ => rfl) (fun _ _ h => h) (fun _ _ _ h => h) 0 t
  simpa [Good] using this (by simpa [Good] using h)

theorem Good_setupNode (cols : List String) (n : Nat) (t : Tree) (h : Good n t) : Good n (setupNode cols t) := by
  rw [setupNode_eq_mapT cols n t]
  have := All_mapT (fp := setupPaper cols) (Ps := GoodS) (Ps' := GoodS) (Pt := GoodT) (Pt' := GoodT) n n
    (fs := fun _ s => setupSec cols s) (ft := fun _ d => setupD cols d)
    (fun _ _ => rfl) (fun _ _ => rfl) (fun _ _ h => h) (fun _ _ _ h => h) 0 t
  simpa [Good] using this (by simpa [Good] using h)

theorem updSec_fields (i : Nat) (s : SecW) :
    (updSec i s).name = s.name ∧ (updSec i s).isTop = s.isTop ∧ (updSec i s).rootUp = s.rootUp ∧
      (updSec i s).integer = s.integer := by
  unfold updSec secUpdate
  by_cases h1 : s.needupdate <;> by_cases h2 : some i = s.now <;> simp [h1, h2]

theorem updSec_fields2 (i : Nat) (s : SecW) :
    (updSec i s).kind = s.kind ∧ (updSec i s).lazy = s.lazy ∧ (updSec i s).pricesSet = s.pricesSet := by
  unfold updSec secUpdate
  by_cases h1 : s.needupdate <;> by_cases h2 : some i = s.now <;> simp [h1, h2]

def Tree.paper : Tree → Option Tree
  | .sec _ => none
  | .strat _ _ p => p

theorem Good_updateNode (i : Nat) (n : Nat) (t : Tree) (h : Good n t) : Good n (updateNode i t) := by
  rw [updateNode_eq_mapT i n t]
  have := All_mapT (fp := updPaper i) (Ps := GoodS) (Ps' := GoodS) (Pt := GoodT) (Pt' := GoodT) n n
    (fs := fun _ s => updSec i s) (ft := fun _ d => updD i d)
    (fun _ s => (updSec_fields i s).1) (fun _ _ => rfl)
    (fun _ s h => by
      obtain ⟨_, h2, h3, _⟩ := updSec_fields i s
      exact ⟨h2 ▸ h.1, h3 ▸ h.2⟩)
    (fun _ _ _ h => h) 0 t
  simpa [Good] using this (by simpa [Good] using h)

/-- re-rooting a subtree that hangs below depth 0 somewhere else -/
theorem GoodL_setRootL (m : Nat) (ks : List Tree) (h : GoodL 1 ks) : GoodL (m + 1) (setRootL (m + 1) ks) := by
  rw [setRootL_eq_mapL (m + 1) ks]
  have := AllL_mapL (fp := keepPaper) (Ps := GoodS) (Ps' := GoodS) (Pt := GoodT) (Pt' := GoodT) 1 (m + 1)
    (fs := fun k s => { s with rootUp := k }) (ft := fun k d => { d with rootUp := k })
    (fun _ _ => rfl) (fun _ _ => rfl)
    (fun j s h => by
      refine ⟨?_, rfl⟩
      have h1 := h.1
      simpa [Nat.add_comm] using h1)
    (fun j d sg h => by
      refine ⟨?_, rfl, h.2.2.1, h.2.2.2⟩
      have h1 := h.1
      simpa [Nat.add_comm] using h1) 0 ks
  simpa [GoodL] using this (by simpa [GoodL] using h)

theorem adopt_name (d : StratW) (c : Tree) : (adopt d c).name = c.name := by
  cases c <;> simp [adopt, setParent, setRoot, useInt, Tree.name]

theorem adopt_isStrat (d : StratW) (c : Tree) : (adopt d c).isStrat = c.isStrat := by
  cases c <;> simp [adopt, setParent, setRoot, useInt, Tree.isStrat]

/-- wiring a child that was constructed as a top node -/
theorem Good_adopt (n : Nat) (d : StratW) (c : Tree) (hd : d.rootUp = n) (h : Good 0 c) : Good (n + 1) (adopt d c) := by
  unfold adopt
  apply Good_useInt
  cases c with
  | sec s => simp [setParent, setRoot, Good, All, GoodS, hd]
  | strat cd cks cp =>
    simp only [Good, All, setParent, setRoot] at h ⊢
    refine ⟨?_, ?_⟩
    · rw [sig_setRootL]
      exact ⟨by simp, by simp [hd], h.1.2.2.1, h.1.2.2.2⟩
    · have := GoodL_setRootL (n + 1) cks (by simpa [GoodL] using h.2)
      simpa [GoodL, hd] using this

/-! ### `_add_children` keeps the invariant -/

theorem mem_names_iff (n : String) (ks : List Tree) : n ∈ names ks ↔ ∃ k ∈ ks, k.name = n := by
  simp [names]

theorem sigStrats_append (a b : List (String × Bool)) : sigStrats (a ++ b) = sigStrats a ++ sigStrats b := by
  simp [sigStrats]

theorem sigStrats_snoc (ks : List Tree) (c : Tree) :
    sigStrats (sig (ks ++ [c])) = sigStrats (sig ks) ++ (if c.isStrat then [c.name] else []) := by
  rw [sig_append, sigStrats_append]
  cases h : c.isStrat <;> simp [sig, sigStrats, h]

theorem nodup_names_snoc (ks : List Tree) (c : Tree) (h : (names ks).Nodup) (hn : c.name ∉ names ks) :
    (names (ks ++ [c])).Nodup := by
  rw [names_append]
  simp only [names, List.map_cons, List.map_nil]
  refine List.nodup_append.mpr ⟨h, by simp, ?_⟩
  intro a ha b hb
  simp only [List.mem_singleton] at hb
  subst hb
  intro e
  subst e
  exact hn ha

theorem addNode_good (n : Nat) (d : StratW) (ks : List Tree) (c : Tree) (d' : StratW) (ks' : List Tree)
    (hd : GoodT n d (sig ks)) (hk : GoodL (n + 1) ks) (hc : Good 0 c) (h : addNode d ks c = .ok (d', ks')) :
    GoodT n d' (sig ks') ∧ GoodL (n + 1) ks' := by
  obtain ⟨h1, h2, h3, h4⟩ := hd
  rw [sigNames_sig] at h3
  cases c with
  | sec s =>
    simp only [addNode] at h
    split at h
    · simp only [Except.ok.injEq, Prod.mk.injEq] at h
      obtain ⟨rfl, rfl⟩ := h
      exact ⟨⟨h1, h2, by rwa [sigNames_sig], h4⟩, hk⟩
    · split at h
      · cases h
      · rename_i hnm
        simp only [Except.ok.injEq, Prod.mk.injEq] at h
        obtain ⟨rfl, rfl⟩ := h
        refine ⟨⟨h1, h2, ?_, ?_⟩, ?_⟩
        · rw [sigNames_sig]
          exact nodup_names_snoc ks _ h3 (by rw [adopt_name]; exact hnm)
        · rw [sigStrats_snoc, adopt_isStrat]
          simp [Tree.isStrat, h4]
        · exact (AllL_append _ _).mpr ⟨hk, by
            simp only [AllL, and_true]
            exact Good_adopt n _ _ h2 hc⟩
  | strat cd cks cp =>
    simp only [addNode] at h
    split at h
    · cases h
    · rename_i hnm
      simp only [Except.ok.injEq, Prod.mk.injEq] at h
      obtain ⟨rfl, rfl⟩ := h
      refine ⟨⟨h1, h2, ?_, ?_⟩, ?_⟩
      · rw [sigNames_sig]
        exact nodup_names_snoc ks _ h3 (by rw [adopt_name]; exact hnm)
      · rw [sigStrats_snoc, adopt_isStrat, adopt_name]
        simp [Tree.isStrat, Tree.name, h4]
      · exact (AllL_append _ _).mpr ⟨hk, by
          simp only [AllL, and_true]
          exact Good_adopt n _ _ h2 hc⟩

theorem addStr_good (n : Nat) (d : StratW) (ks : List Tree) (s : String) (d' : StratW) (ks' : List Tree)
    (hd : GoodT n d (sig ks)) (hk : GoodL (n + 1) ks) (h : addStr d ks s = .ok (d', ks')) :
    GoodT n d' (sig ks') ∧ GoodL (n + 1) ks' := by
  simp only [addStr] at h
  split at h
  · cases h
  · simp only [Except.ok.injEq, Prod.mk.injEq] at h
    obtain ⟨rfl, rfl⟩ := h
    exact ⟨hd, hk⟩

/-- an element of a `children` argument whose node, if any, is a well-wired top node -/
def ItemGood : Item → Prop
  | .name _ => True
  | .node t => Good 0 t

theorem addAll_good (n : Nat) : (items : List Item) → (d : StratW) → (ks : List Tree) → (d' : StratW) → (ks' : List Tree) →
    (∀ i ∈ items, ItemGood i) → GoodT n d (sig ks) → GoodL (n + 1) ks → addAll d ks items = .ok (d', ks') →
    GoodT n d' (sig ks') ∧ GoodL (n + 1) ks'
  | [], d, ks, d', ks', _, hd, hk, h => by
    simp only [addAll, Except.ok.injEq, Prod.mk.injEq] at h
    obtain ⟨rfl, rfl⟩ := h
    exact ⟨hd, hk⟩
  | i :: rest, d, ks, d', ks', hi, hd, hk, h => by
    simp only [addAll] at h
    cases hs : addItem d ks i with
    | error e => simp [hs] at h
    | ok r =>
      obtain ⟨d1, ks1⟩ := r
      simp only [hs] at h
      have h1 : GoodT n d1 (sig ks1) ∧ GoodL (n + 1) ks1 := by
        cases i with
        | name s => exact addStr_good n d ks s d1 ks1 hd hk hs
        | node t => exact addNode_good n d ks t d1 ks1 hd hk (hi (.node t) (by simp)) hs
      exact addAll_good n rest d1 ks1 d' ks' (fun j hj => hi j (by simp [hj])) h1.1 h1.2 h

theorem mkStrat_goodT (fi : Bool) (name : String) (present : Bool) : GoodT 0 (mkStrat fi name present) (sig []) := by
  simp [GoodT, mkStrat, sig, sigNames, sigStrats]

mutual
theorem buildItem_good : (s : Spec) → (i : Item) → buildItem s = .ok i → ItemGood i
  | .str n, i, h => by
    simp only [buildItem, Except.ok.injEq] at h
    subst h; trivial
  | .sec k n l, i, h => by
    simp only [buildItem, Except.ok.injEq] at h
    subst h
    simp [ItemGood, Good, All, GoodS, mkSec]
  | .strat fi n kids, i, h => by
    simp only [buildItem] at h
    cases hb : buildItems kids with
    | error e => simp [hb] at h
    | ok items =>
      simp only [hb] at h
      cases ha : addAll (mkStrat fi n (!kids.isEmpty)) [] items with
      | error e => simp [ha] at h
      | ok r =>
        obtain ⟨d, ks⟩ := r
        simp only [ha, Except.ok.injEq] at h
        subst h
        have := addAll_good 0 items _ [] d ks (buildItems_good kids items hb) (mkStrat_goodT _ _ _) (by simp [GoodL, AllL]) ha
        exact ⟨this.1, this.2⟩
theorem buildItems_good : (ss : List Spec) → (items : List Item) → buildItems ss = .ok items → ∀ i ∈ items, ItemGood i
  | [], items, h => by
    simp only [buildItems, Except.ok.injEq] at h
    subst h; simp
  | s :: rest, items, h => by
    simp only [buildItems] at h
    cases hb : buildItem s with
    | error e => simp [hb] at h
    | ok i =>
      simp only [hb] at h
      cases hr : buildItems rest with
      | error e => simp [hr] at h
      | ok is =>
        simp only [hr, Except.ok.injEq] at h
        subst h
        intro j hj
        simp only [List.mem_cons] at hj
        rcases hj with rfl | hj
        · exact buildItem_good s _ hb
        · exact buildItems_good rest is hr j hj
end

theorem build_good (s : Spec) (t : Tree) (h : build s = .ok t) : Good 0 t := by
  unfold build at h
  cases hb : buildItem s with
  | error e => simp [hb] at h
  | ok i =>
    cases i with
    | name n => simp [hb] at h
    | node t' =>
      simp only [hb, Except.ok.injEq] at h
      subst h
      exact buildItem_good s _ hb

/-! ### operations inside the tree -/

section ModifyAll
variable {Ps : Nat → SecW → Prop} {Pt : Nat → StratW → List (String × Bool) → Prop}

/-- what an operation applied at a strategy must respect for `modifyAt` to keep an invariant -/
def KeepsAll (Ps : Nat → SecW → Prop) (Pt : Nat → StratW → List (String × Bool) → Prop)
    (f : StratW → List Tree → Option Tree → Except Err Tree) : Prop :=
  ∀ n d ks p t, All Ps Pt n (.strat d ks p) → f d ks p = .ok t → All Ps Pt n t ∧ t.name = d.name ∧ t.isStrat = true

mutual
theorem modifyAt_all (f : StratW → List Tree → Option Tree → Except Err Tree) (hf : KeepsAll Ps Pt f) :
    (path : Path) → (t : Tree) → (n : Nat) → (t' : Tree) → All Ps Pt n t → modifyAt f path t = .ok t' →
      All Ps Pt n t' ∧ t'.name = t.name ∧ t'.isStrat = t.isStrat
  | path, .sec s, n, t', _, h => by simp [modifyAt] at h
  | [], .strat d ks p, n, t', hg, h => by
    simp only [modifyAt] at h
    obtain ⟨h1, h2, h3⟩ := hf n d ks p t' hg h
    exact ⟨h1, by simpa [Tree.name] using h2, by simpa [Tree.isStrat] using h3⟩
  | nm :: rest, .strat d ks p, n, t', hg, h => by
    simp only [modifyAt] at h
    cases hm : modifyAtL f nm rest ks with
    | error e => simp [hm] at h
    | ok ks' =>
      simp only [hm, Except.ok.injEq] at h
      subst h
      simp only [All] at hg
      obtain ⟨h1, h2⟩ := modifyAtL_all f hf nm rest ks (n + 1) ks' hg.2 hm
      refine ⟨?_, rfl, rfl⟩
      simp only [All]
      exact ⟨h2 ▸ hg.1, h1⟩
theorem modifyAtL_all (f : StratW → List Tree → Option Tree → Except Err Tree) (hf : KeepsAll Ps Pt f) (nm : String) (rest : Path) :
    (ks : List Tree) → (n : Nat) → (ks' : List Tree) → AllL Ps Pt n ks → modifyAtL f nm rest ks = .ok ks' →
      AllL Ps Pt n ks' ∧ sig ks' = sig ks
  | [], n, ks', _, h => by simp [modifyAtL] at h
  | k :: ks, n, ks', hg, h => by
    simp only [modifyAtL] at h
    simp only [AllL] at hg
    split at h
    · cases hm : modifyAt f rest k with
      | error e => simp [hm] at h
      | ok k' =>
        simp only [hm, Except.ok.injEq] at h
        subst h
        obtain ⟨h1, h2, h3⟩ := modifyAt_all f hf rest k n k' hg.1 hm
        exact ⟨⟨h1, hg.2⟩, by simp [sig, h2, h3]⟩
    · cases hm : modifyAtL f nm rest ks with
      | error e => simp [hm] at h
      | ok ks2 =>
        simp only [hm, Except.ok.injEq] at h
        subst h
        obtain ⟨h1, h2⟩ := modifyAtL_all f hf nm rest ks n ks2 hg.2 hm
        refine ⟨⟨hg.1, h1⟩, ?_⟩
        simp only [sig, List.map_cons] at h2 ⊢
        rw [h2]
end

end ModifyAll

abbrev KeepsGood (f : StratW → List Tree → Option Tree → Except Err Tree) : Prop := KeepsAll GoodS GoodT f

theorem modifyAt_good (f : StratW → List Tree → Option Tree → Except Err Tree) (hf : KeepsGood f)
    (path : Path) (t : Tree) (n : Nat) (t' : Tree) (hg : Good n t) (h : modifyAt f path t = .ok t') :
    Good n t' ∧ t'.name = t.name ∧ t'.isStrat = t.isStrat := modifyAt_all f hf path t n t' hg h

theorem addItem_name (d : StratW) (ks : List Tree) (i : Item) (d' : StratW) (ks' : List Tree)
    (h : addItem d ks i = .ok (d', ks')) : d'.name = d.name := by
  cases i with
  | name s =>
    simp only [addItem, addStr] at h
    split at h
    · cases h
    · simp only [Except.ok.injEq, Prod.mk.injEq] at h
      obtain ⟨rfl, _⟩ := h; rfl
  | node t =>
    cases t with
    | sec s =>
      simp only [addItem, addNode] at h
      split at h
      · simp only [Except.ok.injEq, Prod.mk.injEq] at h
        obtain ⟨rfl, _⟩ := h; rfl
      · split at h
        · cases h
        · simp only [Except.ok.injEq, Prod.mk.injEq] at h
          obtain ⟨rfl, _⟩ := h; rfl
    | strat cd cks cp =>
      simp only [addItem, addNode] at h
      split at h
      · cases h
      · simp only [Except.ok.injEq, Prod.mk.injEq] at h
        obtain ⟨rfl, _⟩ := h; rfl

theorem addAll_name : (items : List Item) → (d : StratW) → (ks : List Tree) → (d' : StratW) → (ks' : List Tree) →
    addAll d ks items = .ok (d', ks') → d'.name = d.name
  | [], d, ks, d', ks', h => by
    simp only [addAll, Except.ok.injEq, Prod.mk.injEq] at h
    obtain ⟨rfl, _⟩ := h; rfl
  | i :: rest, d, ks, d', ks', h => by
    simp only [addAll] at h
    cases hs : addItem d ks i with
    | error e => simp [hs] at h
    | ok r =>
      obtain ⟨d1, ks1⟩ := r
      simp only [hs] at h
      rw [addAll_name rest d1 ks1 d' ks' h, addItem_name d ks i d1 ks1 hs]

theorem attachNode_keeps (name : String) (kids : List Spec) : KeepsGood (attachNode name kids) := by
  intro n d ks p t hg h
  simp only [Good, All] at hg
  obtain ⟨⟨h1, h2, h3, h4⟩, hk⟩ := hg
  rw [sigNames_sig] at h3
  unfold attachNode at h
  cases hb : buildItems kids with
  | error e => simp [hb] at h
  | ok items =>
    simp only [hb] at h
    split at h
    · cases h
    · rename_i hnm
      simp only [adopt, setParent, setRoot, setRootL, useInt, useIntL] at h
      cases ha : addAll { mkStrat false name (!kids.isEmpty) with isTop := false, rootUp := d.rootUp + 1, integer := d.integer } [] items with
      | error e => simp [mkStrat] at ha h; simp [ha] at h
      | ok r =>
        obtain ⟨cd', cks⟩ := r
        simp only [mkStrat] at ha h
        simp only [ha, Except.ok.injEq] at h
        subst h
        have hnew := addAll_good (n + 1) items _ [] cd' cks (buildItems_good kids items hb)
          (by simp [GoodT, sig, sigNames, sigStrats, h2]) (by simp [GoodL, AllL]) ha
        have hname := addAll_name items _ [] cd' cks ha
        simp only at hname
        refine ⟨?_, rfl, rfl⟩
        simp only [Good, All]
        refine ⟨⟨h1, h2, ?_, ?_⟩, ?_⟩
        · rw [sigNames_sig]
          exact nodup_names_snoc ks _ h3 (by simpa [Tree.name, hname] using hnm)
        · rw [sigStrats_snoc]
          simp [Tree.isStrat, Tree.name, h4, hname]
        · exact (AllL_append _ _).mpr ⟨hk, by
            simp only [AllL, and_true, All]
            exact ⟨hnew.1, hnew.2⟩⟩

theorem useIntAt_keeps (b : Bool) : KeepsGood (fun d ks p => .ok (useInt b (.strat d ks p))) := by
  intro n d ks p t hg h
  simp only [Except.ok.injEq] at h
  subst h
  exact ⟨Good_useInt b n _ hg, by simp [useInt, Tree.name], by simp [useInt, Tree.isStrat]⟩

theorem setCommAt_keeps (c : Nat) : KeepsGood (fun d ks p => .ok (setComm c (.strat d ks p))) := by
  intro n d ks p t hg h
  simp only [Except.ok.injEq] at h
  subst h
  exact ⟨Good_setComm c n _ hg, by simp [setComm, Tree.name], by simp [setComm, Tree.isStrat]⟩

theorem poolFind_name (n : String) : (pool : List SecW) → (s : SecW) → poolFind n pool = some s → s.name = n
  | [], s, h => by simp [poolFind] at h
  | x :: xs, s, h => by
    simp only [poolFind] at h
    split at h
    · simp only [Option.some.injEq] at h
      subst h; assumption
    · exact poolFind_name n xs s h

theorem popLazy_name (n : String) (pool : List SecW) : (popLazy n pool).name = n := by
  unfold popLazy
  cases h : poolFind n pool with
  | none => simp [mkSec]
  | some s => simpa using poolFind_name n pool s h

theorem secUpdate_fields (date : Option Nat) (s : SecW) :
    (secUpdate date s).name = s.name ∧ (secUpdate date s).isTop = s.isTop ∧ (secUpdate date s).rootUp = s.rootUp ∧
      (secUpdate date s).integer = s.integer ∧ (secUpdate date s).kind = s.kind ∧ (secUpdate date s).lazy = s.lazy ∧
      (secUpdate date s).pricesSet = s.pricesSet := by
  unfold secUpdate
  split <;> simp

/-- the child created on first use, field by field -/
theorem createdChild_eq (d : StratW) (n : String) :
    createdChild d n = .sec (secUpdate d.now (setupSec (d.univ.getD [])
      { popLazy n d.pool with isTop := false, rootUp := d.rootUp + 1, integer := d.integer })) := by
  simp [createdChild, adopt, setParent, setRoot, useInt]

theorem createdChild_name (d : StratW) (n : String) : (createdChild d n).name = n := by
  rw [createdChild_eq]
  simp [Tree.name, (secUpdate_fields _ _).1, setupSec, popLazy_name]

theorem createdChild_good (m : Nat) (d : StratW) (n : String) (hd : d.rootUp = m) : Good (m + 1) (createdChild d n) := by
  rw [createdChild_eq]
  obtain ⟨_, h2, h3, _⟩ := secUpdate_fields d.now (setupSec (d.univ.getD [])
      { popLazy n d.pool with isTop := false, rootUp := d.rootUp + 1, integer := d.integer })
  simp only [Good, All, GoodS]
  rw [h2, h3]
  simp [setupSec, hd]

theorem catchUp_good (now : Option Nat) (n : Nat) (t : Tree) (h : Good n t) : Good n (catchUp now t) := by
  cases t with
  | sec s =>
    obtain ⟨_, h2, h3, _⟩ := secUpdate_fields now s
    simp only [catchUp, Good, All, GoodS] at h ⊢
    rw [h2, h3]; exact h
  | strat d ks p => exact h

theorem catchUp_sig (now : Option Nat) (t : Tree) : (catchUp now t).name = t.name ∧ (catchUp now t).isStrat = t.isStrat := by
  cases t with
  | sec s => simp [catchUp, Tree.name, Tree.isStrat, (secUpdate_fields now s).1]
  | strat d ks p => simp [catchUp]

theorem catchUpNamed_good (now : Option Nat) (nm : String) (n : Nat) : (ks : List Tree) → GoodL n ks →
    GoodL n (catchUpNamed now nm ks) ∧ sig (catchUpNamed now nm ks) = sig ks
  | [], _ => by simp [catchUpNamed, GoodL, AllL]
  | k :: ks, h => by
    simp only [GoodL, AllL] at h
    simp only [catchUpNamed]
    split
    · exact ⟨⟨catchUp_good now n k h.1, h.2⟩, by simp [sig, catchUp_sig]⟩
    · obtain ⟨h1, h2⟩ := catchUpNamed_good now nm n ks h.2
      refine ⟨⟨h.1, h1⟩, ?_⟩
      simp only [sig, List.map_cons] at h2 ⊢
      rw [h2]

theorem touchNode_keeps (nm : String) : KeepsGood (touchNode nm) := by
  intro n d ks p t hg h
  simp only [Good, All] at hg
  obtain ⟨⟨h1, h2, h3, h4⟩, hk⟩ := hg
  unfold touchNode at h
  split at h
  · cases h
  · split at h
    · split at h
      · cases h
      · simp only [Except.ok.injEq] at h
        subst h
        obtain ⟨g1, g2⟩ := catchUpNamed_good d.now nm (n + 1) ks hk
        refine ⟨?_, rfl, rfl⟩
        simp only [Good, All]
        exact ⟨g2 ▸ ⟨h1, h2, h3, h4⟩, g1⟩
    · rename_i hnm
      simp only [Except.ok.injEq] at h
      subst h
      refine ⟨?_, rfl, rfl⟩
      simp only [Good, All]
      refine ⟨⟨h1, h2, ?_, ?_⟩, ?_⟩
      · rw [sigNames_sig] at h3 ⊢
        exact nodup_names_snoc ks _ h3 (by rw [createdChild_name]; exact hnm)
      · rw [sigStrats_snoc]
        simp [createdChild_eq, Tree.isStrat, h4]
      · exact (AllL_append _ _).mpr ⟨hk, by
          simp only [AllL, and_true]
          exact createdChild_good n d nm h2⟩

theorem setupNode_sig (cols : List String) (t : Tree) :
    (setupNode cols t).name = t.name ∧ (setupNode cols t).isStrat = t.isStrat := by
  cases t <;> simp [setupNode, Tree.name, Tree.isStrat, setupSec, setupD]

theorem setupNamed_good (cols : List String) (nm : String) (n : Nat) : (ks : List Tree) → GoodL n ks →
    GoodL n (setupNamed cols nm ks) ∧ sig (setupNamed cols nm ks) = sig ks
  | [], _ => by simp [setupNamed, GoodL, AllL]
  | k :: ks, h => by
    simp only [GoodL, AllL] at h
    simp only [setupNamed]
    split
    · exact ⟨⟨Good_setupNode cols n k h.1, h.2⟩, by simp [sig, setupNode_sig]⟩
    · obtain ⟨h1, h2⟩ := setupNamed_good cols nm n ks h.2
      refine ⟨⟨h.1, h1⟩, ?_⟩
      simp only [sig, List.map_cons] at h2 ⊢
      rw [h2]

theorem setupFromParentNode_keeps (nm : String) : KeepsGood (setupFromParentNode nm) := by
  intro n d ks p t hg h
  simp only [Good, All] at hg
  obtain ⟨hd, hk⟩ := hg
  unfold setupFromParentNode at h
  split at h
  · split at h
    · simp only [Except.ok.injEq] at h
      subst h
      obtain ⟨g1, g2⟩ := setupNamed_good _ nm (n + 1) ks hk
      refine ⟨?_, rfl, rfl⟩
      simp only [Good, All]
      exact ⟨g2 ▸ hd, g1⟩
    · cases h
  · cases h

/-- every operation of a script keeps the wiring invariant -/
theorem applyOp_good (t t' : Tree) (op : Op) (hg : Good 0 t) (h : applyOp t op = .ok t') : Good 0 t' := by
  cases op with
  | attach path name kids => exact (modifyAt_good _ (attachNode_keeps name kids) path t 0 t' hg h).1
  | useInt path b => exact (modifyAt_good _ (useIntAt_keeps b) path t 0 t' hg h).1
  | setComm path c => exact (modifyAt_good _ (setCommAt_keeps c) path t 0 t' hg h).1
  | setup cols =>
    simp only [applyOp, setupTop] at h
    split at h
    · simp only [Except.ok.injEq] at h
      subst h
      exact Good_setupNode cols 0 t hg
    · cases h
  | update i =>
    simp only [applyOp, Except.ok.injEq] at h
    subst h
    exact Good_updateNode i 0 t hg
  | touch path name => exact (modifyAt_good _ (touchNode_keeps name) path t 0 t' hg h).1
  | setupFromParent path name => exact (modifyAt_good _ (setupFromParentNode_keeps name) path t 0 t' hg h).1

theorem runOps_good : (ops : List Op) → (t t' : Tree) → (k : Nat) → Good 0 t → runOps t k ops = .ok t' → Good 0 t'
  | [], t, t', k, hg, h => by
    simp only [runOps, Except.ok.injEq] at h
    subst h; exact hg
  | op :: rest, t, t', k, hg, h => by
    simp only [runOps] at h
    cases ha : applyOp t op with
    | error e => simp [ha] at h
    | ok t1 =>
      simp only [ha] at h
      exact runOps_good rest t1 t' (k + 1) (applyOp_good t t1 op hg ha) h

theorem runScript_good (s : Spec) (ops : List Op) (t : Tree) (h : runScript s ops = .ok t) : Good 0 t := by
  unfold runScript at h
  cases hb : build s with
  | error e => simp [hb] at h
  | ok t0 =>
    simp only [hb] at h
    exact runOps_good ops t0 t 1 (build_good s t0 hb) h

/-! ### `members` and `full_name` of a well-wired tree -/

theorem joinPath_snoc (p : Path) (x : String) (h : p ≠ []) : joinPath (p ++ [x]) = joinPath p ++ ">" ++ x := by
  cases p with
  | nil => exact absurd rfl h
  | cons n ns => simp [joinPath, List.foldl_append]

mutual
/-- structural pre-order traversal: the paths of the realised nodes -/
def preorder (pfx : Path) : Tree → List Path
  | .sec s => [pfx ++ [s.name]]
  | .strat d ks _ => (pfx ++ [d.name]) :: preorderL (pfx ++ [d.name]) ks
def preorderL (pfx : Path) : List Tree → List Path
  | [] => []
  | k :: ks => preorder pfx k ++ preorderL pfx ks
end

mutual
theorem infos_paths : (t : Tree) → (pfx : Path) → (pf : String) → (pc : Option Nat) →
    (infos pfx pf pc t).map (·.path) = preorder pfx t
  | .sec s, pfx, pf, pc => by simp [infos, preorder]
  | .strat d ks p, pfx, pf, pc => by simp [infos, preorder, infosL_paths ks]
theorem infosL_paths : (ks : List Tree) → (pfx : Path) → (pf : String) → (pc : Option Nat) →
    (infosL pfx pf pc ks).map (·.path) = preorderL pfx ks
  | [], pfx, pf, pc => by simp [infosL, preorderL]
  | k :: ks, pfx, pf, pc => by simp [infosL, preorderL, infos_paths k, infosL_paths ks]
end

mutual
theorem preorder_shape : (t : Tree) → (pfx : Path) → ∀ p ∈ preorder pfx t, ∃ rest, p = pfx ++ t.name :: rest
  | .sec s, pfx, p, h => by
    simp only [preorder, List.mem_singleton] at h
    exact ⟨[], by simp [h, Tree.name]⟩
  | .strat d ks pp, pfx, p, h => by
    simp only [preorder, List.mem_cons] at h
    rcases h with h | h
    · exact ⟨[], by simp [h, Tree.name]⟩
    · obtain ⟨k, _, rest, hr⟩ := preorderL_shape ks (pfx ++ [d.name]) p h
      exact ⟨k.name :: rest, by simp [hr, Tree.name]⟩
theorem preorderL_shape : (ks : List Tree) → (pfx : Path) → ∀ p ∈ preorderL pfx ks, ∃ k ∈ ks, ∃ rest, p = pfx ++ k.name :: rest
  | [], pfx, p, h => by simp [preorderL] at h
  | k :: ks, pfx, p, h => by
    simp only [preorderL, List.mem_append] at h
    rcases h with h | h
    · obtain ⟨rest, hr⟩ := preorder_shape k pfx p h
      exact ⟨k, by simp, rest, hr⟩
    · obtain ⟨k', hk', rest, hr⟩ := preorderL_shape ks pfx p h
      exact ⟨k', by simp [hk'], rest, hr⟩
end

mutual
/-- every realised node is listed exactly once -/
theorem preorder_nodup : (t : Tree) → (n : Nat) → (pfx : Path) → Good n t → (preorder pfx t).Nodup
  | .sec s, n, pfx, _ => by simp [preorder]
  | .strat d ks pp, n, pfx, h => by
    simp only [Good, All] at h
    simp only [preorder, List.nodup_cons]
    refine ⟨?_, preorderL_nodup ks (n + 1) (pfx ++ [d.name]) h.2 (by rw [← sigNames_sig]; exact h.1.2.2.1)⟩
    intro hmem
    obtain ⟨k, _, rest, hr⟩ := preorderL_shape ks (pfx ++ [d.name]) _ hmem
    have := congrArg List.length hr
    simp at this
theorem preorderL_nodup : (ks : List Tree) → (n : Nat) → (pfx : Path) → AllL GoodS GoodT n ks → (names ks).Nodup →
    (preorderL pfx ks).Nodup
  | [], n, pfx, _, _ => by simp [preorderL]
  | k :: ks, n, pfx, h, hn => by
    simp only [AllL] at h
    simp only [names, List.map_cons, List.nodup_cons] at hn
    simp only [preorderL]
    refine List.nodup_append.mpr ⟨preorder_nodup k n pfx h.1, preorderL_nodup ks n pfx h.2 hn.2, ?_⟩
    intro a ha b hb hab
    subst hab
    obtain ⟨r1, h1⟩ := preorder_shape k pfx a ha
    obtain ⟨k', hk', r2, h2⟩ := preorderL_shape ks pfx a hb
    rw [h1] at h2
    have := List.append_cancel_left h2
    simp only [List.cons.injEq] at this
    exact hn.1 (by simp only [List.mem_map]; exact ⟨k', hk', this.1.symm⟩)
end

/-- what the wiring invariant says about one entry of `members` -/
def InfoOk (i : Info) : Prop :=
  i.fullName = joinPath i.path ∧ i.rootUp + 1 = i.path.length ∧ i.isTop = decide (i.path.length = 1)

mutual
theorem infos_ok : (t : Tree) → (pfx : Path) → (pf : String) → (pc : Option Nat) → Good pfx.length t →
    (pfx ≠ [] → pf = joinPath pfx) → ∀ i ∈ infos pfx pf pc t, InfoOk i
  | .sec s, pfx, pf, pc, hg, hp, i, hi => by
    simp only [infos, List.mem_singleton] at hi
    subst hi
    simp only [Good, All, GoodS] at hg
    refine ⟨?_, by simp [hg.2], by simp [hg.1]⟩
    simp only [fullOf, hg.1]
    by_cases h0 : pfx = []
    · subst h0; simp [joinPath]
    · have : pfx.length ≠ 0 := by simpa using h0
      simp [this, joinPath_snoc pfx s.name h0, hp h0]
  | .strat d ks pp, pfx, pf, pc, hg, hp, i, hi => by
    simp only [Good, All] at hg
    obtain ⟨⟨h1, h2, _, _⟩, hk⟩ := hg
    have hfull : fullOf d.isTop pf d.name = joinPath (pfx ++ [d.name]) := by
      simp only [fullOf, h1]
      by_cases h0 : pfx = []
      · subst h0; simp [joinPath]
      · have : pfx.length ≠ 0 := by simpa using h0
        simp [this, joinPath_snoc pfx d.name h0, hp h0]
    simp only [infos, List.mem_cons] at hi
    rcases hi with hi | hi
    · subst hi
      exact ⟨hfull, by simp [h2], by simp [h1]⟩
    · exact infosL_ok ks (pfx ++ [d.name]) _ d.comm (by simpa using hk) (fun _ => hfull) i hi
theorem infosL_ok : (ks : List Tree) → (pfx : Path) → (pf : String) → (pc : Option Nat) → AllL GoodS GoodT pfx.length ks →
    (pfx ≠ [] → pf = joinPath pfx) → ∀ i ∈ infosL pfx pf pc ks, InfoOk i
  | [], pfx, pf, pc, _, _, i, hi => by simp [infosL] at hi
  | k :: ks, pfx, pf, pc, hg, hp, i, hi => by
    simp only [AllL] at hg
    simp only [infosL, List.mem_append] at hi
    rcases hi with hi | hi
    · exact infos_ok k pfx pf pc hg.1 hp i hi
    · exact infosL_ok ks pfx pf pc hg.2 hp i hi
end

theorem members_ok (t : Tree) (h : Good 0 t) : ∀ i ∈ members t, InfoOk i :=
  infos_ok t [] "" none h (fun h => absurd rfl h)

theorem members_paths (t : Tree) : (members t).map (·.path) = preorder [] t := infos_paths t [] "" none

theorem members_head (t : Tree) : ∀ i ∈ members t, ∃ rest, i.path = t.name :: rest := by
  intro i hi
  have : i.path ∈ preorder [] t := by rw [← members_paths]; exact List.mem_map_of_mem hi
  obtain ⟨rest, hr⟩ := preorder_shape t [] _ this
  exact ⟨rest, by simpa using hr⟩

/-- the pointers of a well-wired tree designate the structural parent and the top -/
theorem InfoOk.pointers {i : Info} (h : InfoOk i) (top : String) (rest : Path) (hp : i.path = top :: rest) :
    i.parentPath = (if rest = [] then i.path else i.path.dropLast) ∧ i.rootPath = some [top] := by
  obtain ⟨_, h2, h3⟩ := h
  constructor
  · simp only [Info.parentPath, h3, hp]
    cases rest <;> simp
  · simp only [Info.rootPath]
    have : i.rootUp < i.path.length := by omega
    simp only [this, if_true]
    have : i.path.length - i.rootUp = 1 := by omega
    rw [this, hp]
    simp

/-! ### settings pushed from the top -/

/-- every realised node has `integer_positions = b` -/
def IntAll (b : Bool) (n : Nat) (t : Tree) : Prop := All (fun _ s => s.integer = b) (fun _ d _ => d.integer = b) n t
def IntAllL (b : Bool) (n : Nat) (ks : List Tree) : Prop := AllL (fun _ s => s.integer = b) (fun _ d _ => d.integer = b) n ks

mutual
theorem All_trivial : (n : Nat) → (t : Tree) → All (fun _ _ => True) (fun _ _ _ => True) n t
  | _, .sec _ => by simp [All]
  | n, .strat _ ks _ => by simp [All, AllL_trivial (n + 1) ks]
theorem AllL_trivial : (n : Nat) → (ks : List Tree) → AllL (fun _ _ => True) (fun _ _ _ => True) n ks
  | _, [] => by simp [AllL]
  | n, k :: ks => by simp [AllL, All_trivial n k, AllL_trivial n ks]
end

/-- `use_integer_positions(b)` reaches every realised descendant -/
theorem IntAll_useInt (b : Bool) (n : Nat) (t : Tree) : IntAll b n (useInt b t) := by
  rw [useInt_eq_mapT b n t]
  have := All_mapT (fp := fun _ _ _ p => useIntO b p) (Ps := fun _ _ => True) (Pt := fun _ _ _ => True)
    (Ps' := fun _ s => s.integer = b) (Pt' := fun _ d _ => d.integer = b) n n
    (fs := fun _ s => { s with integer := b }) (ft := fun _ d => { d with integer := b })
    (fun _ _ => rfl) (fun _ _ => rfl) (fun _ _ _ => rfl) (fun _ _ _ _ => rfl) 0 t
  simpa [IntAll] using this (by simpa using All_trivial n t)

theorem IntAll_adopt (d : StratW) (c : Tree) (n : Nat) : IntAll d.integer n (adopt d c) := IntAll_useInt _ _ _

/-- a data-only change that keeps the flags keeps `IntAll` -/
theorem IntAll_mapT {fs : Nat → SecW → SecW} {ft : Nat → StratW → StratW}
    {fp : Nat → StratW → List Tree → Option Tree → Option Tree}
    (hs : ∀ n s, (fs n s).name = s.name) (ht : ∀ n d, (ft n d).name = d.name)
    (hsi : ∀ n s, (fs n s).integer = s.integer) (hti : ∀ n d, (ft n d).integer = d.integer)
    (b : Bool) (n : Nat) (t : Tree) (h : IntAll b n t) : IntAll b n (mapT fs ft fp n t) := by
  have := All_mapT (fp := fp) (Ps := fun _ s => s.integer = b) (Pt := fun _ d _ => d.integer = b)
    (Ps' := fun _ s => s.integer = b) (Pt' := fun _ d _ => d.integer = b) n n (fs := fs) (ft := ft)
    hs ht (fun j s h => by rw [hsi]; exact h) (fun j d _ h => by rw [hti]; exact h) 0 t
  simpa [IntAll] using this (by simpa [IntAll] using h)

theorem IntAll_setComm (c : Nat) (b : Bool) (n : Nat) (t : Tree) (h : IntAll b n t) : IntAll b n (setComm c t) := by
  rw [setComm_eq_mapT c n t]
  apply IntAll_mapT _ _ _ _ b n t h <;> intros <;> rfl

theorem IntAll_setupNode (cols : List String) (b : Bool) (n : Nat) (t : Tree) (h : IntAll b n t) :
    IntAll b n (setupNode cols t) := by
  rw [setupNode_eq_mapT cols n t]
  apply IntAll_mapT _ _ _ _ b n t h <;> intros <;> rfl

theorem IntAll_updateNode (i : Nat) (b : Bool) (n : Nat) (t : Tree) (h : IntAll b n t) : IntAll b n (updateNode i t) := by
  rw [updateNode_eq_mapT i n t]
  apply IntAll_mapT _ _ _ _ b n t h
  · intro _ s; exact (updSec_fields i s).1
  · intros; rfl
  · intro _ s; exact (updSec_fields i s).2.2.2
  · intros; rfl

theorem addItem_int (b : Bool) (n : Nat) (d : StratW) (ks : List Tree) (i : Item) (d' : StratW) (ks' : List Tree)
    (hd : d.integer = b) (hk : IntAllL b n ks) (h : addItem d ks i = .ok (d', ks')) : d'.integer = b ∧ IntAllL b n ks' := by
  cases i with
  | name s =>
    simp only [addItem, addStr] at h
    split at h
    · cases h
    · simp only [Except.ok.injEq, Prod.mk.injEq] at h
      obtain ⟨rfl, rfl⟩ := h
      exact ⟨hd, hk⟩
  | node t =>
    cases t with
    | sec s =>
      simp only [addItem, addNode] at h
      split at h
      · simp only [Except.ok.injEq, Prod.mk.injEq] at h
        obtain ⟨rfl, rfl⟩ := h
        exact ⟨hd, hk⟩
      · split at h
        · cases h
        · simp only [Except.ok.injEq, Prod.mk.injEq] at h
          obtain ⟨rfl, rfl⟩ := h
          exact ⟨hd, (AllL_append _ _).mpr ⟨hk, by
            simp only [AllL, and_true]
            exact hd ▸ IntAll_adopt d _ n⟩⟩
    | strat cd cks cp =>
      simp only [addItem, addNode] at h
      split at h
      · cases h
      · simp only [Except.ok.injEq, Prod.mk.injEq] at h
        obtain ⟨rfl, rfl⟩ := h
        exact ⟨hd, (AllL_append _ _).mpr ⟨hk, by
          simp only [AllL, and_true]
          exact hd ▸ IntAll_adopt d _ n⟩⟩

theorem addAll_int (b : Bool) (n : Nat) : (items : List Item) → (d : StratW) → (ks : List Tree) → (d' : StratW) → (ks' : List Tree) →
    d.integer = b → IntAllL b n ks → addAll d ks items = .ok (d', ks') → d'.integer = b ∧ IntAllL b n ks'
  | [], d, ks, d', ks', hd, hk, h => by
    simp only [addAll, Except.ok.injEq, Prod.mk.injEq] at h
    obtain ⟨rfl, rfl⟩ := h
    exact ⟨hd, hk⟩
  | i :: rest, d, ks, d', ks', hd, hk, h => by
    simp only [addAll] at h
    cases hs : addItem d ks i with
    | error e => simp [hs] at h
    | ok r =>
      obtain ⟨d1, ks1⟩ := r
      simp only [hs] at h
      obtain ⟨h1, h2⟩ := addItem_int b n d ks i d1 ks1 hd hk hs
      exact addAll_int b n rest d1 ks1 d' ks' h1 h2 h

/-- a freshly constructed tree has `integer_positions = True` everywhere -/
theorem build_int (s : Spec) (t : Tree) (h : build s = .ok t) : IntAll true 0 t := by
  unfold build at h
  cases hb : buildItem s with
  | error e => simp [hb] at h
  | ok i =>
    cases i with
    | name n => simp [hb] at h
    | node t' =>
      simp only [hb, Except.ok.injEq] at h
      subst h
      cases s with
      | str n => simp [buildItem] at hb
      | sec k n l =>
        simp only [buildItem, Except.ok.injEq, Item.node.injEq] at hb
        subst hb
        simp [IntAll, All, mkSec]
      | strat fi n kids =>
        simp only [buildItem] at hb
        cases hbi : buildItems kids with
        | error e => simp [hbi] at hb
        | ok items =>
          simp only [hbi] at hb
          cases ha : addAll (mkStrat fi n (!kids.isEmpty)) [] items with
          | error e => simp [ha] at hb
          | ok r =>
            obtain ⟨d, ks⟩ := r
            simp only [ha, Except.ok.injEq, Item.node.injEq] at hb
            subst hb
            obtain ⟨h1, h2⟩ := addAll_int true 1 items _ [] d ks (by simp [mkStrat]) (by simp [IntAllL, AllL]) ha
            exact ⟨h1, h2⟩

abbrev KeepsInt (b : Bool) (f : StratW → List Tree → Option Tree → Except Err Tree) : Prop :=
  KeepsAll (fun _ s => s.integer = b) (fun _ d _ => d.integer = b) f

theorem attachNode_keepsInt (b : Bool) (name : String) (kids : List Spec) : KeepsInt b (attachNode name kids) := by
  intro n d ks p t hg h
  simp only [All] at hg
  obtain ⟨hd, hk⟩ := hg
  unfold attachNode at h
  cases hb : buildItems kids with
  | error e => simp [hb] at h
  | ok items =>
    simp only [hb] at h
    split at h
    · cases h
    · simp only [adopt, setParent, setRoot, setRootL, useInt, useIntL] at h
      cases ha : addAll { mkStrat false name (!kids.isEmpty) with isTop := false, rootUp := d.rootUp + 1, integer := d.integer } [] items with
      | error e => simp [mkStrat] at ha h; simp [ha] at h
      | ok r =>
        obtain ⟨cd', cks⟩ := r
        simp only [mkStrat] at ha h
        simp only [ha, Except.ok.injEq] at h
        subst h
        obtain ⟨h1, h2⟩ := addAll_int b (n + 2) items _ [] cd' cks (by simpa using hd) (by simp [IntAllL, AllL]) ha
        refine ⟨?_, rfl, rfl⟩
        simp only [All]
        exact ⟨hd, (AllL_append _ _).mpr ⟨hk, by
          simp only [AllL, and_true, All]
          exact ⟨h1, h2⟩⟩⟩

theorem setCommAt_keepsInt (b : Bool) (c : Nat) : KeepsInt b (fun d ks p => .ok (setComm c (.strat d ks p))) := by
  intro n d ks p t hg h
  simp only [Except.ok.injEq] at h
  subst h
  exact ⟨IntAll_setComm c b n _ hg, by simp [setComm, Tree.name], by simp [setComm, Tree.isStrat]⟩

theorem catchUpNamed_int (b : Bool) (now : Option Nat) (nm : String) (n : Nat) : (ks : List Tree) → IntAllL b n ks →
    IntAllL b n (catchUpNamed now nm ks)
  | [], _ => by simp [catchUpNamed, IntAllL, AllL]
  | k :: ks, h => by
    simp only [IntAllL, AllL] at h
    simp only [catchUpNamed]
    split
    · refine ⟨?_, h.2⟩
      cases k with
      | sec s =>
        simp only [catchUp, All] at h ⊢
        rw [(secUpdate_fields now s).2.2.2.1]; exact h.1
      | strat d ks' p => exact h.1
    · exact ⟨h.1, catchUpNamed_int b now nm n ks h.2⟩

theorem touchNode_keepsInt (b : Bool) (nm : String) : KeepsInt b (touchNode nm) := by
  intro n d ks p t hg h
  simp only [All] at hg
  obtain ⟨hd, hk⟩ := hg
  unfold touchNode at h
  split at h
  · cases h
  · split at h
    · split at h
      · cases h
      · simp only [Except.ok.injEq] at h
        subst h
        refine ⟨?_, rfl, rfl⟩
        simp only [All]
        exact ⟨hd, catchUpNamed_int b d.now nm (n + 1) ks hk⟩
    · simp only [Except.ok.injEq] at h
      subst h
      refine ⟨?_, rfl, rfl⟩
      simp only [All]
      refine ⟨hd, (AllL_append _ _).mpr ⟨hk, ?_⟩⟩
      simp only [AllL, and_true, createdChild_eq, All]
      rw [(secUpdate_fields _ _).2.2.2.1]
      simpa [setupSec] using hd

theorem setupNamed_int (b : Bool) (cols : List String) (nm : String) (n : Nat) : (ks : List Tree) → IntAllL b n ks →
    IntAllL b n (setupNamed cols nm ks)
  | [], _ => by simp [setupNamed, IntAllL, AllL]
  | k :: ks, h => by
    simp only [IntAllL, AllL] at h
    simp only [setupNamed]
    split
    · exact ⟨IntAll_setupNode cols b n k h.1, h.2⟩
    · exact ⟨h.1, setupNamed_int b cols nm n ks h.2⟩

theorem setupFromParentNode_keepsInt (b : Bool) (nm : String) : KeepsInt b (setupFromParentNode nm) := by
  intro n d ks p t hg h
  simp only [All] at hg
  obtain ⟨hd, hk⟩ := hg
  unfold setupFromParentNode at h
  split at h
  · split at h
    · simp only [Except.ok.injEq] at h
      subst h
      refine ⟨?_, rfl, rfl⟩
      simp only [All]
      exact ⟨hd, setupNamed_int b _ nm (n + 1) ks hk⟩
    · cases h
  · cases h

def Tree.intFlag : Tree → Bool
  | .sec s => s.integer
  | .strat d _ _ => d.integer

/-- `use_integer_positions` applied at the top only -/
def Op.intAtTopOnly : Op → Bool
  | .useInt path _ => path.isEmpty
  | _ => true

/-- the flag is uniform over the realised tree and stays so under every operation (children attached later and
    children created on first use inherit it) as long as it is pushed from the top -/
theorem applyOp_int (t t' : Tree) (op : Op) (hop : op.intAtTopOnly = true) (b : Bool) (hg : IntAll b 0 t) (h : applyOp t op = .ok t') :
    ∃ b', IntAll b' 0 t' := by
  cases op with
  | attach path name kids => exact ⟨b, (modifyAt_all _ (attachNode_keepsInt b name kids) path t 0 t' hg h).1⟩
  | useInt path b2 =>
    simp only [Op.intAtTopOnly, List.isEmpty_iff] at hop
    subst hop
    cases t with
    | sec s => simp [applyOp, modifyAt] at h
    | strat d ks p =>
      simp only [applyOp, modifyAt, Except.ok.injEq] at h
      subst h
      exact ⟨b2, IntAll_useInt b2 0 _⟩
  | setComm path c => exact ⟨b, (modifyAt_all _ (setCommAt_keepsInt b c) path t 0 t' hg h).1⟩
  | setup cols =>
    simp only [applyOp, setupTop] at h
    split at h
    · simp only [Except.ok.injEq] at h
      subst h
      exact ⟨b, IntAll_setupNode cols b 0 t hg⟩
    · cases h
  | update i =>
    simp only [applyOp, Except.ok.injEq] at h
    subst h
    exact ⟨b, IntAll_updateNode i b 0 t hg⟩
  | touch path name => exact ⟨b, (modifyAt_all _ (touchNode_keepsInt b name) path t 0 t' hg h).1⟩
  | setupFromParent path name => exact ⟨b, (modifyAt_all _ (setupFromParentNode_keepsInt b name) path t 0 t' hg h).1⟩

theorem runOps_int : (ops : List Op) → (t t' : Tree) → (k : Nat) → (∀ op ∈ ops, op.intAtTopOnly = true) → (b : Bool) → IntAll b 0 t →
    runOps t k ops = .ok t' → ∃ b', IntAll b' 0 t'
  | [], t, t', k, _, b, hg, h => by
    simp only [runOps, Except.ok.injEq] at h
    subst h; exact ⟨b, hg⟩
  | op :: rest, t, t', k, hops, b, hg, h => by
    simp only [runOps] at h
    cases ha : applyOp t op with
    | error e => simp [ha] at h
    | ok t1 =>
      simp only [ha] at h
      obtain ⟨b1, h1⟩ := applyOp_int t t1 op (hops op (by simp)) b hg ha
      exact runOps_int rest t1 t' (k + 1) (fun o ho => hops o (by simp [ho])) b1 h1 h

mutual
theorem infos_int (b : Bool) : (t : Tree) → (n : Nat) → (pfx : Path) → (pf : String) → (pc : Option Nat) → IntAll b n t →
    ∀ i ∈ infos pfx pf pc t, i.integer = b
  | .sec s, n, pfx, pf, pc, h, i, hi => by
    simp only [infos, List.mem_singleton] at hi
    subst hi
    exact h
  | .strat d ks p, n, pfx, pf, pc, h, i, hi => by
    simp only [IntAll, All] at h
    simp only [infos, List.mem_cons] at hi
    rcases hi with hi | hi
    · subst hi; exact h.1
    · exact infosL_int b ks (n + 1) _ _ _ h.2 i hi
theorem infosL_int (b : Bool) : (ks : List Tree) → (n : Nat) → (pfx : Path) → (pf : String) → (pc : Option Nat) →
    AllL (fun _ s => s.integer = b) (fun _ d _ => d.integer = b) n ks → ∀ i ∈ infosL pfx pf pc ks, i.integer = b
  | [], n, pfx, pf, pc, _, i, hi => by simp [infosL] at hi
  | k :: ks, n, pfx, pf, pc, h, i, hi => by
    simp only [AllL] at h
    simp only [infosL, List.mem_append] at hi
    rcases hi with hi | hi
    · exact infos_int b k n pfx pf pc h.1 i hi
    · exact infosL_int b ks n pfx pf pc h.2 i hi
end

mutual
/-- after `set_commissions(c)` every strategy below has `c`, and every security is charged by a parent that has `c` -/
theorem infos_setComm (c : Nat) : (t : Tree) → (pfx : Path) → (pf : String) →
    ∀ i ∈ infos pfx pf (some c) (setComm c t), i.comm = some c
  | .sec s, pfx, pf, i, hi => by
    simp only [setComm, infos, List.mem_singleton] at hi
    subst hi; rfl
  | .strat d ks p, pfx, pf, i, hi => by
    simp only [setComm, infos, List.mem_cons] at hi
    rcases hi with hi | hi
    · subst hi; rfl
    · exact infosL_setComm c ks _ _ i hi
theorem infosL_setComm (c : Nat) : (ks : List Tree) → (pfx : Path) → (pf : String) →
    ∀ i ∈ infosL pfx pf (some c) (setCommL c ks), i.comm = some c
  | [], pfx, pf, i, hi => by simp [setCommL, infosL] at hi
  | k :: ks, pfx, pf, i, hi => by
    simp only [setCommL, infosL, List.mem_append] at hi
    rcases hi with hi | hi
    · exact infos_setComm c k pfx pf i hi
    · exact infosL_setComm c ks pfx pf i hi
end

/-! ### universe columns -/

theorem mem_addCols (x : String) : (cs base : List String) → (x ∈ addCols base cs ↔ x ∈ base ∨ x ∈ cs)
  | [], base => by simp [addCols]
  | c :: cs, base => by
    simp only [addCols]
    rw [mem_addCols x cs]
    by_cases h : c ∈ base
    · simp only [h, if_true, List.mem_cons]
      constructor
      · rintro (h1 | h1)
        · exact Or.inl h1
        · exact Or.inr (Or.inr h1)
      · rintro (h1 | h1 | h1)
        · exact Or.inl h1
        · exact Or.inl (h1 ▸ h)
        · exact Or.inr h1
    · have e : ∀ y, y ∈ base ++ [c] ↔ y ∈ base ∨ y = c := by intro y; simp
      simp only [h, if_false, e, List.mem_cons]
      constructor
      · rintro ((h1 | h1) | h1)
        · exact Or.inl h1
        · exact Or.inr (Or.inl h1)
        · exact Or.inr (Or.inr h1)
      · rintro (h1 | h1 | h1)
        · exact Or.inl (Or.inl h1)
        · exact Or.inl (Or.inr h1)
        · exact Or.inr h1

theorem addCols_nodup : (cs base : List String) → base.Nodup → (addCols base cs).Nodup
  | [], base, h => by simpa [addCols] using h
  | c :: cs, base, h => by
    simp only [addCols]
    apply addCols_nodup cs
    by_cases hc : c ∈ base
    · simpa [hc] using h
    · simp only [hc, if_false]
      refine List.nodup_append.mpr ⟨h, by simp, ?_⟩
      intro a ha b hb
      simp only [List.mem_singleton] at hb
      subst hb
      intro e; subst e; exact hc ha

/-- names that are new and pairwise distinct are appended in order: one column each -/
theorem addCols_eq_append : (cs base : List String) → cs.Nodup → (∀ c ∈ cs, c ∉ base) → addCols base cs = base ++ cs
  | [], base, _, _ => by simp [addCols]
  | c :: cs, base, hn, hb => by
    simp only [List.nodup_cons] at hn
    have hc : c ∉ base := hb c (by simp)
    simp only [addCols, hc, if_false]
    rw [addCols_eq_append cs (base ++ [c]) hn.2]
    · simp
    · intro x hx
      simp only [List.mem_append, List.mem_singleton, not_or]
      exact ⟨hb x (by simp [hx]), by intro e; subst e; exact hn.1 hx⟩

/-- names that already have a column are overwritten in place -/
theorem addCols_present : (cs base : List String) → (∀ c ∈ cs, c ∈ base) → addCols base cs = base
  | [], base, _ => by simp [addCols]
  | c :: cs, base, hb => by
    have hc : c ∈ base := hb c (by simp)
    simp only [addCols, hc, if_true]
    exact addCols_present cs base (fun x hx => hb x (by simp [hx]))

theorem universeCols_setupD (cols cols' : List String) (d : StratW) : universeCols (setupD cols' d) cols = universeCols d cols := rfl

/-- the ticker part of the universe: declared tickers in the data, in data order; all of the data when the strategy
    was constructed without children -/
def tickerCols (d : StratW) (cols : List String) : List String :=
  if d.origPresent then cols.filter (fun c => c ∈ d.tickers) else cols

theorem mem_tickerCols (d : StratW) (cols : List String) (x : String) :
    x ∈ tickerCols d cols ↔ x ∈ cols ∧ (d.origPresent = true → x ∈ d.tickers) := by
  unfold tickerCols
  split
  · rename_i h; simp [List.mem_filter, h]
  · rename_i h; simp [h]

/-- the columns of `_universe` after `setup(data)`, in a well-formed strategy (sub-strategy names distinct from each
    other and from the data's columns): the ticker part, then one column per sub-strategy -/
theorem universeCols_explicit (d : StratW) (cols : List String) (hn : d.stratKids.Nodup)
    (hdis : ∀ c ∈ d.stratKids, c ∉ cols) :
    universeCols d cols = tickerCols d cols ++ d.stratKids := by
  unfold universeCols
  apply addCols_eq_append _ _ hn
  intro c hc hm
  exact hdis c hc ((mem_tickerCols d cols c).mp hm).1

theorem mem_universeCols (d : StratW) (cols : List String) (x : String) :
    x ∈ universeCols d cols ↔ (x ∈ cols ∧ (d.origPresent = true → x ∈ d.tickers)) ∨ x ∈ d.stratKids := by
  unfold universeCols
  rw [mem_addCols]
  exact or_congr (mem_tickerCols d cols x) Iff.rfl

theorem universeCols_nodup (d : StratW) (cols : List String) (h : cols.Nodup) : (universeCols d cols).Nodup := by
  unfold universeCols
  apply addCols_nodup
  split
  · exact h.filter _
  · exact h

/-- every sub-strategy has a column right after setup, whether or not the parent was constructed with children -/
theorem universeCols_covers (d : StratW) (cols : List String) : ∀ c ∈ d.stratKids, c ∈ universeCols d cols :=
  fun c hc => (mem_universeCols d cols c).mpr (Or.inr hc)

/-- after `setup(data)` every realised strategy has its universe and remembers the original data -/
def UnivSet (cols : List String) (n : Nat) (t : Tree) : Prop :=
  All (fun _ s => s.pricesSet = some (decide (s.name ∈ cols)))
    (fun _ d _ => d.univ = some (universeCols d cols) ∧ d.dataCols = some cols) n t

theorem setupNode_univ (cols : List String) (n : Nat) (t : Tree) : UnivSet cols n (setupNode cols t) := by
  rw [setupNode_eq_mapT cols n t]
  have := All_mapT (fp := setupPaper cols) (Ps := fun _ _ => True) (Pt := fun _ _ _ => True)
    (Ps' := fun _ s => s.pricesSet = some (decide (s.name ∈ cols)))
    (Pt' := fun _ d _ => d.univ = some (universeCols d cols) ∧ d.dataCols = some cols) n n
    (fs := fun _ s => setupSec cols s) (ft := fun _ d => setupD cols d)
    (fun _ _ => rfl) (fun _ _ => rfl) (fun _ _ _ => rfl)
    (fun _ d _ _ => ⟨by rw [universeCols_setupD]; rfl, rfl⟩) 0 t
  simpa [UnivSet] using this (by simpa using All_trivial n t)

/-- the update writes every sub-strategy's price into the universe: each has a column afterwards -/
theorem stratCols_covers (d : StratW) (u : List String) (h : d.univ = some u) :
    ∃ u', stratCols d = some u' ∧ (∀ c ∈ d.stratKids, c ∈ u') ∧ (∀ c ∈ u, c ∈ u') ∧ (u.Nodup → u'.Nodup) := by
  refine ⟨addCols u d.stratKids, by simp [stratCols, h], ?_, ?_, addCols_nodup _ _⟩
  · intro c hc; exact (mem_addCols c _ _).mpr (Or.inr hc)
  · intro c hc; exact (mem_addCols c _ _).mpr (Or.inl hc)

/-! ### lazy = eager -/

theorem sig_updateL (i : Nat) (ks : List Tree) : sig (updateL i ks) = sig ks := by
  rw [updateL_eq_mapL i 0]
  apply sig_mapL
  · intro _ s; exact (updSec_fields i s).1
  · intros; rfl

theorem names_of_sig {a b : List Tree} (h : sig a = sig b) : names a = names b := by
  rw [← sigNames_sig, ← sigNames_sig, h]

theorem setupL_append (cols : List String) (a b : List Tree) : setupL cols (a ++ b) = setupL cols a ++ setupL cols b := by
  rw [setupL_eq_mapL cols 0, setupL_eq_mapL cols 0, setupL_eq_mapL cols 0, mapL_append]

theorem updateL_append (i : Nat) (a b : List Tree) : updateL i (a ++ b) = updateL i a ++ updateL i b := by
  rw [updateL_eq_mapL i 0, updateL_eq_mapL i 0, updateL_eq_mapL i 0, mapL_append]

/-- the updates of a script between setup and first use -/
def updates (is : List Nat) (t : Tree) : Tree := is.foldl (fun t i => updateNode i t) t

/-- the two trees of the comparison: the security `s` still in the lazy pool / realised between `A` and `B` -/
def lazyT (dl : StratW) (A B : List Tree) (p : Option Tree) : Tree := .strat dl (A ++ B) p
def eagerT (nm : String) (dl : StratW) (A B : List Tree) (xs : SecW) (p : Option Tree) : Tree :=
  .strat { dl with pool := poolErase nm dl.pool } (A ++ .sec xs :: B) p

/-- what relates the strategy whose child `s` is still lazy to the one where it was declared up front -/
structure LE (s : SecW) (cols : List String) (dl : StratW) (A B : List Tree) (xs : SecW) : Prop where
  find : poolFind s.name dl.pool = some s
  fresh : s.now = none ∧ s.needupdate = true
  decl : s.name ∈ dl.tickers
  univ : ∃ u, dl.univ = some u ∧ (s.name ∈ u ↔ s.name ∈ cols)
  nstrat : s.name ∉ dl.stratKids
  nA : s.name ∉ names A
  nB : s.name ∉ names B
  xname : xs.name = s.name
  xkind : xs.kind = s.kind
  xlazy : xs.lazy = false
  xint : xs.integer = dl.integer
  xtop : xs.isTop = false
  xroot : xs.rootUp = dl.rootUp + 1
  xps : xs.pricesSet = some (decide (s.name ∈ cols))
  xnow : (xs.now = none ∧ xs.needupdate = true ∧ dl.now = none) ∨ (xs.needupdate = false ∧ xs.now ≠ none ∧ dl.now ≠ none)

theorem LE_update (s : SecW) (cols : List String) (dl : StratW) (A B : List Tree) (xs : SecW) (pL pE : Option Tree) (i : Nat)
    (h : LE s cols dl A B xs) :
    ∃ pL' pE', updateNode i (lazyT dl A B pL) = lazyT (updD i dl) (updateL i A) (updateL i B) pL' ∧
      updateNode i (eagerT s.name dl A B xs pE) = eagerT s.name (updD i dl) (updateL i A) (updateL i B) (updSec i xs) pE' ∧
      LE s cols (updD i dl) (updateL i A) (updateL i B) (updSec i xs) := by
  refine ⟨(updateNode i (lazyT dl A B pL)).paper, (updateNode i (eagerT s.name dl A B xs pE)).paper, ?_, ?_, ?_⟩
  · simp only [lazyT, updateNode, updateL_append, updD, Tree.paper]
  · simp only [eagerT, updateNode, updateL_append, updateL, updD, updSec, stratCols, Tree.paper]
  · obtain ⟨u, hu, hiff⟩ := h.univ
    obtain ⟨f1, f2, f3, f4⟩ := updSec_fields i xs
    refine { find := h.find, fresh := h.fresh, decl := h.decl, univ := ?_, nstrat := h.nstrat, nA := ?_, nB := ?_, xname := ?_,
             xkind := ?_, xlazy := ?_, xint := ?_, xtop := ?_, xroot := ?_, xps := ?_, xnow := ?_ }
    · refine ⟨addCols u dl.stratKids, by simp [updD, stratCols, hu], ?_⟩
      rw [mem_addCols]
      constructor
      · rintro (h1 | h1)
        · exact hiff.mp h1
        · exact absurd h1 h.nstrat
      · intro h1; exact Or.inl (hiff.mpr h1)
    · rw [names_of_sig (sig_updateL i A)]; exact h.nA
    · rw [names_of_sig (sig_updateL i B)]; exact h.nB
    · rw [f1]; exact h.xname
    · rw [(updSec_fields2 i xs).1]; exact h.xkind
    · rw [(updSec_fields2 i xs).2.1]; exact h.xlazy
    · rw [f4]; exact h.xint
    · rw [f2]; exact h.xtop
    · rw [f3]; exact h.xroot
    · rw [(updSec_fields2 i xs).2.2]; exact h.xps
    · right
      rcases h.xnow with ⟨h1, h2, _⟩ | ⟨h1, h2, _⟩
      · simp [updSec, secUpdate, h1, h2, updD]
      · simp [updSec, h1, h2, updD]

theorem LE_updates (s : SecW) (cols : List String) : (is : List Nat) → (dl : StratW) → (A B : List Tree) → (xs : SecW) →
    (pL pE : Option Tree) → LE s cols dl A B xs →
    ∃ dl' A' B' xs' pL' pE', updates is (lazyT dl A B pL) = lazyT dl' A' B' pL' ∧
      updates is (eagerT s.name dl A B xs pE) = eagerT s.name dl' A' B' xs' pE' ∧ LE s cols dl' A' B' xs' ∧
      dl'.integer = dl.integer ∧ dl'.rootUp = dl.rootUp
  | [], dl, A, B, xs, pL, pE, h => ⟨dl, A, B, xs, pL, pE, rfl, rfl, h, rfl, rfl⟩
  | i :: is, dl, A, B, xs, pL, pE, h => by
    obtain ⟨pL1, pE1, e1, e2, h1⟩ := LE_update s cols dl A B xs pL pE i h
    obtain ⟨dl', A', B', xs', pL', pE', g1, g2, g3, g4, g5⟩ := LE_updates s cols is _ _ _ _ pL1 pE1 h1
    refine ⟨dl', A', B', xs', pL', pE', ?_, ?_, g3, by rw [g4]; rfl, by rw [g5]; rfl⟩
    · simp only [updates, List.foldl_cons] at g1 ⊢
      rw [e1]; exact g1
    · simp only [updates, List.foldl_cons] at g2 ⊢
      rw [e2]; exact g2

theorem catchUpNamed_mid (now : Option Nat) (nm : String) (xs : SecW) (hx : xs.name = nm) : (A B : List Tree) → nm ∉ names A →
    catchUpNamed now nm (A ++ .sec xs :: B) = A ++ .sec (secUpdate now xs) :: B
  | [], B, _ => by simp [catchUpNamed, Tree.name, hx, catchUp]
  | a :: A, B, h => by
    simp only [names, List.map_cons, List.mem_cons, not_or] at h
    have : ¬ a.name = nm := fun e => h.1 e.symm
    simp only [List.cons_append, catchUpNamed, this, if_false]
    rw [catchUpNamed_mid now nm xs hx A B (by simpa [names] using h.2)]

/-- first use on both sides: the lazily created child is, field for field, the one declared up front -/
theorem LE_touch (s : SecW) (cols : List String) (dl : StratW) (A B : List Tree) (xs : SecW) (pL pE : Option Tree)
    (h : LE s cols dl A B xs) :
    ∃ d' x, touchNode s.name dl (A ++ B) pL = .ok (.strat d' (A ++ B ++ [.sec x]) pL) ∧
      touchNode s.name { dl with pool := poolErase s.name dl.pool } (A ++ .sec xs :: B) pE = .ok (.strat d' (A ++ .sec x :: B) pE) ∧
      x.name = s.name ∧ x.kind = s.kind ∧ x.lazy = false ∧ x.integer = dl.integer ∧ x.isTop = false ∧
      x.rootUp = dl.rootUp + 1 ∧ x.pricesSet = some (decide (s.name ∈ cols)) ∧ x.now = dl.now := by
  obtain ⟨u, hu, hiff⟩ := h.univ
  have hnAB : s.name ∉ names (A ++ B) := by
    rw [names_append, List.mem_append, not_or]; exact ⟨h.nA, h.nB⟩
  have hin : s.name ∈ names (A ++ .sec xs :: B) := by
    rw [names_append]; simp [names, Tree.name, h.xname]
  have hdec : decide (s.name ∈ u) = decide (s.name ∈ cols) := by
    by_cases hc : s.name ∈ cols
    · simp [hc, hiff.mpr hc]
    · have hnu : s.name ∉ u := fun hh => hc (hiff.mp hh)
      simp [hc, hnu]
  have hcreated : createdChild dl s.name = .sec (secUpdate dl.now xs) := by
    rw [createdChild_eq]
    congr 1
    have hp : popLazy s.name dl.pool = { s with lazy := false } := by simp [popLazy, h.find]
    rw [hp]
    obtain ⟨f1, f2⟩ := h.fresh
    have e1 := h.xname; have e2 := h.xkind; have e3 := h.xlazy; have e4 := h.xint; have e5 := h.xtop
    have e6 := h.xroot; have e7 := h.xps
    cases xs with
    | mk xn xk xl xi xt xr xp xnow xnu =>
      simp only at e1 e2 e3 e4 e5 e6 e7
      subst e1 e2 e3 e4 e5 e6
      rcases h.xnow with ⟨g1, g2, g3⟩ | ⟨g1, g2, g3⟩
      · simp only at g1 g2
        subst g1 g2
        simp [secUpdate, setupSec, hu, g3, f1, f2, e7, hdec]
      · simp only at g1 g2
        subst g1
        cases hn : dl.now with
        | none => exact absurd hn g3
        | some k =>
          by_cases hk : some k = xnow
          · simp [secUpdate, setupSec, hu, f1, e7, hdec, hk.symm]
          · simp [secUpdate, setupSec, hu, f1, e7, hdec, hk]
  refine ⟨{ dl with pool := poolErase s.name dl.pool }, secUpdate dl.now xs, ?_, ?_, ?_⟩
  · simp only [touchNode, hu, hnAB, if_false]
    rw [hcreated]
    simp [addTicker, h.decl]
  · simp only [touchNode, hu, hin, if_true, h.nstrat, if_false]
    rw [catchUpNamed_mid dl.now s.name xs h.xname A B h.nA]
  · obtain ⟨f1, f2, f3, f4, f5, f6, f7⟩ := secUpdate_fields dl.now xs
    refine ⟨by rw [f1]; exact h.xname, by rw [f5]; exact h.xkind, by rw [f6]; exact h.xlazy, by rw [f4]; exact h.xint,
      by rw [f2]; exact h.xtop, by rw [f3]; exact h.xroot, by rw [f7]; exact h.xps, ?_⟩
    unfold secUpdate
    split
    · rename_i e; exact e.symm
    · rfl

/-- right after setup the two strategies are related -/
theorem LE_setup (s : SecW) (cols : List String) (d : StratW) (A B : List Tree) (pL pE : Option Tree)
    (hfind : poolFind s.name d.pool = some s) (hfresh : s.now = none ∧ s.needupdate = true) (hdecl : s.name ∈ d.tickers)
    (hstrat : s.name ∉ d.stratKids) (hA : s.name ∉ names A) (hB : s.name ∉ names B) (hnow : d.now = none) :
    ∃ xs pL' pE', setupNode cols (lazyT d A B pL) = lazyT (setupD cols d) (setupL cols A) (setupL cols B) pL' ∧
      setupNode cols (.strat { d with pool := poolErase s.name d.pool } (A ++ adopt d (.sec { s with lazy := false }) :: B) pE)
        = eagerT s.name (setupD cols d) (setupL cols A) (setupL cols B) xs pE' ∧
      LE s cols (setupD cols d) (setupL cols A) (setupL cols B) xs := by
  refine ⟨setupSec cols { s with lazy := false, isTop := false, rootUp := d.rootUp + 1, integer := d.integer },
    (setupNode cols (lazyT d A B pL)).paper,
    (setupNode cols (.strat { d with pool := poolErase s.name d.pool } (A ++ adopt d (.sec { s with lazy := false }) :: B) pE)).paper,
    ?_, ?_, ?_⟩
  · simp only [lazyT, setupNode, setupL_append, Tree.paper]
  · simp only [eagerT, setupNode, setupL_append, setupL, adopt, setParent, setRoot, useInt, setupD, universeCols, Tree.paper]
  · refine { find := hfind, fresh := hfresh, decl := hdecl, univ := ?_, nstrat := hstrat, nA := ?_, nB := ?_, xname := rfl,
             xkind := rfl, xlazy := rfl, xint := rfl, xtop := rfl, xroot := rfl, xps := rfl, xnow := ?_ }
    · refine ⟨universeCols d cols, rfl, ?_⟩
      rw [mem_universeCols]
      constructor
      · rintro (h1 | h1)
        · exact h1.1
        · exact absurd h1 hstrat
      · intro h1; exact Or.inl ⟨h1, fun _ => hdecl⟩
    · rw [names_of_sig (sig_setupL cols A)]; exact hA
    · rw [names_of_sig (sig_setupL cols B)]; exact hB
    · left
      exact ⟨hfresh.1, hfresh.2, hnow⟩

/-- `_add_children` touches the pool, the ticker list and the strategy-children list of the parent only -/
theorem addItem_keeps (d : StratW) (ks : List Tree) (i : Item) (d' : StratW) (ks' : List Tree)
    (h : addItem d ks i = .ok (d', ks')) :
    d'.isTop = d.isTop ∧ d'.rootUp = d.rootUp ∧ d'.fi = d.fi ∧ d'.univ = d.univ ∧ d'.comm = d.comm := by
  cases i with
  | name s =>
    simp only [addItem, addStr] at h
    split at h
    · cases h
    · simp only [Except.ok.injEq, Prod.mk.injEq] at h
      obtain ⟨rfl, _⟩ := h; simp
  | node t =>
    cases t with
    | sec s =>
      simp only [addItem, addNode] at h
      split at h
      · simp only [Except.ok.injEq, Prod.mk.injEq] at h
        obtain ⟨rfl, _⟩ := h; simp
      · split at h
        · cases h
        · simp only [Except.ok.injEq, Prod.mk.injEq] at h
          obtain ⟨rfl, _⟩ := h; simp
    | strat cd cks cp =>
      simp only [addItem, addNode] at h
      split at h
      · cases h
      · simp only [Except.ok.injEq, Prod.mk.injEq] at h
        obtain ⟨rfl, _⟩ := h; simp

theorem addAll_keeps : (items : List Item) → (d : StratW) → (ks : List Tree) → (d' : StratW) → (ks' : List Tree) →
    addAll d ks items = .ok (d', ks') →
    d'.isTop = d.isTop ∧ d'.rootUp = d.rootUp ∧ d'.fi = d.fi ∧ d'.univ = d.univ ∧ d'.comm = d.comm
  | [], d, ks, d', ks', h => by
    simp only [addAll, Except.ok.injEq, Prod.mk.injEq] at h
    obtain ⟨rfl, _⟩ := h; simp
  | i :: rest, d, ks, d', ks', h => by
    simp only [addAll] at h
    cases hs : addItem d ks i with
    | error e => simp [hs] at h
    | ok r =>
      obtain ⟨d1, ks1⟩ := r
      simp only [hs] at h
      obtain ⟨a1, a2, a3, a4, a5⟩ := addItem_keeps d ks i d1 ks1 hs
      obtain ⟨b1, b2, b3, b4, b5⟩ := addAll_keeps rest d1 ks1 d' ks' h
      exact ⟨b1.trans a1, b2.trans a2, b3.trans a3, b4.trans a4, b5.trans a5⟩

/-! ### children attached after the parent's setup -/

theorem findNamed_snoc (nm : String) (c : Tree) (hc : c.name = nm) : (ks : List Tree) → nm ∉ names ks →
    findNamed nm (ks ++ [c]) = some c
  | [], _ => by simp [findNamed, hc]
  | k :: ks, h => by
    simp only [names, List.map_cons, List.mem_cons, not_or] at h
    have : ¬ k.name = nm := fun e => h.1 e.symm
    simp only [List.cons_append, findNamed, this, if_false]
    exact findNamed_snoc nm c hc ks (by simpa [names] using h.2)

theorem setupNamed_snoc (cols : List String) (nm : String) (c : Tree) (hc : c.name = nm) : (ks : List Tree) → nm ∉ names ks →
    setupNamed cols nm (ks ++ [c]) = ks ++ [setupNode cols c]
  | [], _ => by simp [setupNamed, hc]
  | k :: ks, h => by
    simp only [names, List.map_cons, List.mem_cons, not_or] at h
    have : ¬ k.name = nm := fun e => h.1 e.symm
    simp only [List.cons_append, setupNamed, this, if_false]
    rw [setupNamed_snoc cols nm c hc ks (by simpa [names] using h.2)]

/-- `Strategy(nm, children=kids, parent=P)` on a parent that is already set up: what is attached -/
theorem attachNode_shape (nm : String) (kids : List Spec) (d : StratW) (ks : List Tree) (p : Option Tree) (t1 : Tree)
    (h : attachNode nm kids d ks p = .ok t1) :
    nm ∉ names ks ∧ ∃ cd cks, t1 = .strat { d with stratKids := d.stratKids ++ [nm] } (ks ++ [.strat cd cks none]) p ∧
      cd.name = nm ∧ cd.integer = d.integer ∧ IntAllL d.integer 1 cks ∧ cd.isTop = false ∧ cd.rootUp = d.rootUp + 1 ∧
      cd.fi = false ∧ cd.univ = none ∧ cd.comm = none := by
  unfold attachNode at h
  cases hb : buildItems kids with
  | error e => simp [hb] at h
  | ok items =>
    simp only [hb] at h
    split at h
    · cases h
    · rename_i hnm
      refine ⟨hnm, ?_⟩
      simp only [adopt, setParent, setRoot, setRootL, useInt, useIntL] at h
      cases ha : addAll { mkStrat false nm (!kids.isEmpty) with isTop := false, rootUp := d.rootUp + 1, integer := d.integer } [] items with
      | error e => simp [mkStrat] at ha h; simp [ha] at h
      | ok r =>
        obtain ⟨cd', cks⟩ := r
        have hname := addAll_name items _ [] cd' cks ha
        obtain ⟨hi1, hi2⟩ := addAll_int d.integer 1 items _ [] cd' cks (by rfl) (by simp [IntAllL, AllL]) ha
        have hkeep := addAll_keeps items _ [] cd' cks ha
        simp only [mkStrat] at ha h
        simp only [ha, Except.ok.injEq] at h
        subst h
        exact ⟨cd', cks, rfl, by simpa [mkStrat] using hname, hi1, hi2, by simpa using hkeep.1, by simpa using hkeep.2.1,
          by simpa [mkStrat] using hkeep.2.2.1, by simpa [mkStrat] using hkeep.2.2.2.1, by simpa [mkStrat] using hkeep.2.2.2.2⟩

/-! ### the shadow copy: re-rooting and setting up commute -/

mutual
theorem setRoot_setRoot : (t : Tree) → (m n : Nat) → setRoot m (setRoot n t) = setRoot m t
  | .sec s, m, n => by simp [setRoot]
  | .strat d ks p, m, n => by simp [setRoot, setRootL_setRootL ks (m + 1) (n + 1)]
theorem setRootL_setRootL : (ks : List Tree) → (m n : Nat) → setRootL m (setRootL n ks) = setRootL m ks
  | [], m, n => by simp [setRootL]
  | k :: ks, m, n => by simp [setRootL, setRoot_setRoot k m n, setRootL_setRootL ks m n]
end

mutual
/-- the code re-roots the deep copy and then sets it up; the model sets the children up once and re-roots the result -/
theorem setupNode_setRoot (cols : List String) : (t : Tree) → (n : Nat) → setupNode cols (setRoot n t) = setRoot n (setupNode cols t)
  | .sec s, n => by simp [setRoot, setupNode, setupSec]
  | .strat d ks p, n => by
    simp only [setRoot, setupNode, setupL_setRootL cols ks (n + 1), setRootL_setRootL]
    cases h : d.isTop
    · simp only [setupD, asTopD, universeCols, h]
      rfl
    · simp [setupD, asTopD, universeCols, h]
theorem setupL_setRootL (cols : List String) : (ks : List Tree) → (n : Nat) → setupL cols (setRootL n ks) = setRootL n (setupL cols ks)
  | [], n => by simp [setRootL, setupL]
  | k :: ks, n => by simp [setRootL, setupL, setupNode_setRoot cols k n, setupL_setRootL cols ks n]
end

/-! ### settings, shadow copies included -/

mutual
/-- the `integer_positions` flags of every node of the tree: realised descendants AND, recursively, the nodes of
    every shadow copy -/
def flags : Tree → List Bool
  | .sec s => [s.integer]
  | .strat d ks p => d.integer :: (flagsL ks ++ flagsO p)
def flagsL : List Tree → List Bool
  | [] => []
  | k :: ks => flags k ++ flagsL ks
def flagsO : Option Tree → List Bool
  | none => []
  | some t => flags t
end

mutual
/-- the commission functions of every strategy of the tree, shadow copies included -/
def stratComms : Tree → List (Option Nat)
  | .sec _ => []
  | .strat d ks p => d.comm :: (stratCommsL ks ++ stratCommsO p)
def stratCommsL : List Tree → List (Option Nat)
  | [] => []
  | k :: ks => stratComms k ++ stratCommsL ks
def stratCommsO : Option Tree → List (Option Nat)
  | none => []
  | some t => stratComms t
end

/-- every node, shadow copies included, has `integer_positions = b` -/
def IntP (b : Bool) (t : Tree) : Prop := ∀ x ∈ flags t, x = b
def IntPL (b : Bool) (ks : List Tree) : Prop := ∀ x ∈ flagsL ks, x = b

theorem flagsL_append (a b : List Tree) : flagsL (a ++ b) = flagsL a ++ flagsL b := by
  induction a with
  | nil => rfl
  | cons k ks ih => simp [flagsL, ih]

mutual
theorem flags_useInt (b : Bool) : (t : Tree) → ∀ x ∈ flags (useInt b t), x = b
  | .sec s, x, h => by simpa [useInt, flags] using h
  | .strat d ks p, x, h => by
    simp only [useInt, flags, List.mem_cons, List.mem_append] at h
    rcases h with h | h | h
    · exact h
    · exact flagsL_useInt b ks x h
    · exact flagsO_useInt b p x h
theorem flagsL_useInt (b : Bool) : (ks : List Tree) → ∀ x ∈ flagsL (useIntL b ks), x = b
  | [], x, h => by simp [useIntL, flagsL] at h
  | k :: ks, x, h => by
    simp only [useIntL, flagsL, List.mem_append] at h
    rcases h with h | h
    · exact flags_useInt b k x h
    · exact flagsL_useInt b ks x h
theorem flagsO_useInt (b : Bool) : (p : Option Tree) → ∀ x ∈ flagsO (useIntO b p), x = b
  | none, x, h => by simp [useIntO, flagsO] at h
  | some t, x, h => by
    simp only [useIntO, flagsO] at h
    exact flags_useInt b t x h
end

mutual
theorem stratComms_setComm (c : Nat) : (t : Tree) → ∀ x ∈ stratComms (setComm c t), x = some c
  | .sec s, x, h => by simp [setComm, stratComms] at h
  | .strat d ks p, x, h => by
    simp only [setComm, stratComms, List.mem_cons, List.mem_append] at h
    rcases h with h | h | h
    · exact h
    · exact stratCommsL_setComm c ks x h
    · exact stratCommsO_setComm c p x h
theorem stratCommsL_setComm (c : Nat) : (ks : List Tree) → ∀ x ∈ stratCommsL (setCommL c ks), x = some c
  | [], x, h => by simp [setCommL, stratCommsL] at h
  | k :: ks, x, h => by
    simp only [setCommL, stratCommsL, List.mem_append] at h
    rcases h with h | h
    · exact stratComms_setComm c k x h
    · exact stratCommsL_setComm c ks x h
theorem stratCommsO_setComm (c : Nat) : (p : Option Tree) → ∀ x ∈ stratCommsO (setCommO c p), x = some c
  | none, x, h => by simp [setCommO, stratCommsO] at h
  | some t, x, h => by
    simp only [setCommO, stratCommsO] at h
    exact stratComms_setComm c t x h
end

mutual
theorem flags_setRoot : (t : Tree) → (n : Nat) → flags (setRoot n t) = flags t
  | .sec s, n => by simp [setRoot, flags]
  | .strat d ks p, n => by simp [setRoot, flags, flagsL_setRootL ks (n + 1)]
theorem flagsL_setRootL : (ks : List Tree) → (n : Nat) → flagsL (setRootL n ks) = flagsL ks
  | [], n => by simp [setRootL]
  | k :: ks, n => by simp [setRootL, flagsL, flags_setRoot k n, flagsL_setRootL ks n]
end

mutual
theorem flags_setComm (c : Nat) : (t : Tree) → flags (setComm c t) = flags t
  | .sec s => by simp [setComm]
  | .strat d ks p => by simp [setComm, flags, flagsL_setComm c ks, flagsO_setComm c p]
theorem flagsL_setComm (c : Nat) : (ks : List Tree) → flagsL (setCommL c ks) = flagsL ks
  | [] => by simp [setCommL]
  | k :: ks => by simp [setCommL, flagsL, flags_setComm c k, flagsL_setComm c ks]
theorem flagsO_setComm (c : Nat) : (p : Option Tree) → flagsO (setCommO c p) = flagsO p
  | none => by simp [setCommO]
  | some t => by simp [setCommO, flagsO, flags_setComm c t]
end

mutual
theorem flags_updateNode (i : Nat) : (t : Tree) → flags (updateNode i t) = flags t
  | .sec s => by
    simp only [updateNode, flags]
    have := (updSec_fields i s).2.2.2
    simp only [updSec] at this
    rw [this]
  | .strat d ks p => by
    simp only [updateNode, flags, flagsL_updateL i ks]
    split
    · rw [flagsO_updateO i p]
    · rfl
theorem flagsL_updateL (i : Nat) : (ks : List Tree) → flagsL (updateL i ks) = flagsL ks
  | [] => by simp [updateL]
  | k :: ks => by simp [updateL, flagsL, flags_updateNode i k, flagsL_updateL i ks]
theorem flagsO_updateO (i : Nat) : (p : Option Tree) → flagsO (updateO i p) = flagsO p
  | none => by simp [updateO]
  | some t => by simp [updateO, flagsO, flags_updateNode i t]
end

mutual
/-- setup makes shadow copies of nodes that exist: no new flag value appears -/
theorem flags_setupNode (cols : List String) : (t : Tree) → ∀ x ∈ flags (setupNode cols t), x ∈ flags t
  | .sec s, x, h => by simpa [setupNode, setupSec, flags] using h
  | .strat d ks p, x, h => by
    simp only [setupNode, flags, List.mem_cons, List.mem_append] at h ⊢
    rcases h with h | h | h
    · exact Or.inl (by simpa [setupD] using h)
    · exact Or.inr (Or.inl (flagsL_setupL cols ks x h))
    · split at h
      · simp [flagsO] at h
      · simp only [flagsO, flags, flagsL_setRootL, List.mem_cons, List.mem_append] at h
        rcases h with h | h | h
        · exact Or.inl (by simpa [setupD, asTopD] using h)
        · exact Or.inr (Or.inl (flagsL_setupL cols ks x h))
        · simp at h
theorem flagsL_setupL (cols : List String) : (ks : List Tree) → ∀ x ∈ flagsL (setupL cols ks), x ∈ flagsL ks
  | [], x, h => by simp [setupL, flagsL] at h
  | k :: ks, x, h => by
    simp only [setupL, flagsL, List.mem_append] at h ⊢
    rcases h with h | h
    · exact Or.inl (flags_setupNode cols k x h)
    · exact Or.inr (flagsL_setupL cols ks x h)
end

theorem IntP_adopt (d : StratW) (c : Tree) : IntP d.integer (adopt d c) := flags_useInt _ _

theorem IntP_strat {b : Bool} {d : StratW} {ks : List Tree} {p : Option Tree} :
    IntP b (.strat d ks p) ↔ d.integer = b ∧ IntPL b ks ∧ ∀ x ∈ flagsO p, x = b := by
  simp only [IntP, IntPL, flags, List.mem_cons, List.mem_append]
  constructor
  · intro h
    exact ⟨h _ (Or.inl rfl), fun x hx => h x (Or.inr (Or.inl hx)), fun x hx => h x (Or.inr (Or.inr hx))⟩
  · rintro ⟨h1, h2, h3⟩ x (hx | hx | hx)
    · rw [hx]; exact h1
    · exact h2 x hx
    · exact h3 x hx

theorem IntPL_snoc {b : Bool} {ks : List Tree} {c : Tree} (hk : IntPL b ks) (hc : IntP b c) : IntPL b (ks ++ [c]) := by
  intro x hx
  rw [flagsL_append] at hx
  simp only [flagsL, List.append_nil, List.mem_append] at hx
  rcases hx with hx | hx
  · exact hk x hx
  · exact hc x hx

theorem addItem_intP (b : Bool) (d : StratW) (ks : List Tree) (i : Item) (d' : StratW) (ks' : List Tree)
    (hd : d.integer = b) (hk : IntPL b ks) (h : addItem d ks i = .ok (d', ks')) : d'.integer = b ∧ IntPL b ks' := by
  cases i with
  | name s =>
    simp only [addItem, addStr] at h
    split at h
    · cases h
    · simp only [Except.ok.injEq, Prod.mk.injEq] at h
      obtain ⟨rfl, rfl⟩ := h
      exact ⟨hd, hk⟩
  | node t =>
    cases t with
    | sec s =>
      simp only [addItem, addNode] at h
      split at h
      · simp only [Except.ok.injEq, Prod.mk.injEq] at h
        obtain ⟨rfl, rfl⟩ := h
        exact ⟨hd, hk⟩
      · split at h
        · cases h
        · simp only [Except.ok.injEq, Prod.mk.injEq] at h
          obtain ⟨rfl, rfl⟩ := h
          exact ⟨hd, IntPL_snoc hk (hd ▸ IntP_adopt d _)⟩
    | strat cd cks cp =>
      simp only [addItem, addNode] at h
      split at h
      · cases h
      · simp only [Except.ok.injEq, Prod.mk.injEq] at h
        obtain ⟨rfl, rfl⟩ := h
        exact ⟨hd, IntPL_snoc hk (hd ▸ IntP_adopt d _)⟩

theorem addAll_intP (b : Bool) : (items : List Item) → (d : StratW) → (ks : List Tree) → (d' : StratW) → (ks' : List Tree) →
    d.integer = b → IntPL b ks → addAll d ks items = .ok (d', ks') → d'.integer = b ∧ IntPL b ks'
  | [], d, ks, d', ks', hd, hk, h => by
    simp only [addAll, Except.ok.injEq, Prod.mk.injEq] at h
    obtain ⟨rfl, rfl⟩ := h
    exact ⟨hd, hk⟩
  | i :: rest, d, ks, d', ks', hd, hk, h => by
    simp only [addAll] at h
    cases hs : addItem d ks i with
    | error e => simp [hs] at h
    | ok r =>
      obtain ⟨d1, ks1⟩ := r
      simp only [hs] at h
      obtain ⟨h1, h2⟩ := addItem_intP b d ks i d1 ks1 hd hk hs
      exact addAll_intP b rest d1 ks1 d' ks' h1 h2 h

theorem build_intP (s : Spec) (t : Tree) (h : build s = .ok t) : IntP true t := by
  unfold build at h
  cases hb : buildItem s with
  | error e => simp [hb] at h
  | ok i =>
    cases i with
    | name n => simp [hb] at h
    | node t' =>
      simp only [hb, Except.ok.injEq] at h
      subst h
      cases s with
      | str n => simp [buildItem] at hb
      | sec k n l =>
        simp only [buildItem, Except.ok.injEq, Item.node.injEq] at hb
        subst hb
        simp [IntP, flags, mkSec]
      | strat fi n kids =>
        simp only [buildItem] at hb
        cases hbi : buildItems kids with
        | error e => simp [hbi] at hb
        | ok items =>
          simp only [hbi] at hb
          cases ha : addAll (mkStrat fi n (!kids.isEmpty)) [] items with
          | error e => simp [ha] at hb
          | ok r =>
            obtain ⟨d, ks⟩ := r
            simp only [ha, Except.ok.injEq, Item.node.injEq] at hb
            subst hb
            obtain ⟨h1, h2⟩ := addAll_intP true items _ [] d ks (by simp [mkStrat]) (by simp [IntPL, flagsL]) ha
            exact IntP_strat.mpr ⟨h1, h2, by simp [flagsO]⟩

/-- what an operation applied at a strategy must respect for `modifyAt` to keep the flag uniform -/
def KeepsIntP (b : Bool) (f : StratW → List Tree → Option Tree → Except Err Tree) : Prop :=
  ∀ d ks p t, IntP b (.strat d ks p) → f d ks p = .ok t → IntP b t

mutual
theorem modifyAt_intP (b : Bool) (f : StratW → List Tree → Option Tree → Except Err Tree) (hf : KeepsIntP b f) :
    (path : Path) → (t : Tree) → (t' : Tree) → IntP b t → modifyAt f path t = .ok t' → IntP b t'
  | path, .sec s, t', _, h => by simp [modifyAt] at h
  | [], .strat d ks p, t', hg, h => by
    simp only [modifyAt] at h
    exact hf d ks p t' hg h
  | nm :: rest, .strat d ks p, t', hg, h => by
    simp only [modifyAt] at h
    cases hm : modifyAtL f nm rest ks with
    | error e => simp [hm] at h
    | ok ks' =>
      simp only [hm, Except.ok.injEq] at h
      subst h
      obtain ⟨h1, h2, h3⟩ := IntP_strat.mp hg
      exact IntP_strat.mpr ⟨h1, modifyAtL_intP b f hf nm rest ks ks' h2 hm, h3⟩
theorem modifyAtL_intP (b : Bool) (f : StratW → List Tree → Option Tree → Except Err Tree) (hf : KeepsIntP b f)
    (nm : String) (rest : Path) : (ks : List Tree) → (ks' : List Tree) → IntPL b ks → modifyAtL f nm rest ks = .ok ks' → IntPL b ks'
  | [], ks', _, h => by simp [modifyAtL] at h
  | k :: ks, ks', hg, h => by
    simp only [modifyAtL] at h
    have hk : IntP b k := fun x hx => hg x (by simp [flagsL, hx])
    have hks : IntPL b ks := fun x hx => hg x (by simp [flagsL, hx])
    split at h
    · cases hm : modifyAt f rest k with
      | error e => simp [hm] at h
      | ok k' =>
        simp only [hm, Except.ok.injEq] at h
        subst h
        have := modifyAt_intP b f hf rest k k' hk hm
        intro x hx
        simp only [flagsL, List.mem_append] at hx
        rcases hx with hx | hx
        · exact this x hx
        · exact hks x hx
    · cases hm : modifyAtL f nm rest ks with
      | error e => simp [hm] at h
      | ok ks2 =>
        simp only [hm, Except.ok.injEq] at h
        subst h
        have := modifyAtL_intP b f hf nm rest ks ks2 hks hm
        intro x hx
        simp only [flagsL, List.mem_append] at hx
        rcases hx with hx | hx
        · exact hk x hx
        · exact this x hx
end

theorem attachNode_keepsIntP (b : Bool) (name : String) (kids : List Spec) : KeepsIntP b (attachNode name kids) := by
  intro d ks p t hg h
  obtain ⟨hd, hk, hp⟩ := IntP_strat.mp hg
  unfold attachNode at h
  cases hb : buildItems kids with
  | error e => simp [hb] at h
  | ok items =>
    simp only [hb] at h
    split at h
    · cases h
    · simp only [adopt, setParent, setRoot, setRootL, useInt, useIntL, useIntO] at h
      cases ha : addAll { mkStrat false name (!kids.isEmpty) with isTop := false, rootUp := d.rootUp + 1, integer := d.integer } [] items with
      | error e => simp [mkStrat] at ha h; simp [ha] at h
      | ok r =>
        obtain ⟨cd', cks⟩ := r
        simp only [mkStrat] at ha h
        simp only [ha, Except.ok.injEq] at h
        subst h
        obtain ⟨h1, h2⟩ := addAll_intP b items _ [] cd' cks (by simpa using hd) (by simp [IntPL, flagsL]) ha
        exact IntP_strat.mpr ⟨hd, IntPL_snoc hk (IntP_strat.mpr ⟨h1, h2, by simp [flagsO]⟩), hp⟩

theorem catchUpNamed_flags (now : Option Nat) (nm : String) : (ks : List Tree) → flagsL (catchUpNamed now nm ks) = flagsL ks
  | [] => by simp [catchUpNamed]
  | k :: ks => by
    simp only [catchUpNamed]
    split
    · cases k with
      | sec s => simp [catchUp, flagsL, flags, (secUpdate_fields now s).2.2.2.1]
      | strat d ks' p => simp [catchUp]
    · simp [flagsL, catchUpNamed_flags now nm ks]

theorem touchNode_keepsIntP (b : Bool) (nm : String) : KeepsIntP b (touchNode nm) := by
  intro d ks p t hg h
  obtain ⟨hd, hk, hp⟩ := IntP_strat.mp hg
  unfold touchNode at h
  split at h
  · cases h
  · split at h
    · split at h
      · cases h
      · simp only [Except.ok.injEq] at h
        subst h
        exact IntP_strat.mpr ⟨hd, by simpa [IntPL, catchUpNamed_flags] using hk, hp⟩
    · simp only [Except.ok.injEq] at h
      subst h
      refine IntP_strat.mpr ⟨hd, IntPL_snoc hk ?_, hp⟩
      rw [createdChild_eq]
      intro x hx
      simp only [flags, List.mem_singleton] at hx
      rw [hx, (secUpdate_fields _ _).2.2.2.1]
      simpa [setupSec] using hd

theorem setupNamed_flags (cols : List String) (nm : String) : (ks : List Tree) → ∀ x ∈ flagsL (setupNamed cols nm ks), x ∈ flagsL ks
  | [], x, h => by simp [setupNamed, flagsL] at h
  | k :: ks, x, h => by
    simp only [setupNamed] at h
    split at h
    · simp only [flagsL, List.mem_append] at h ⊢
      rcases h with h | h
      · exact Or.inl (flags_setupNode cols k x h)
      · exact Or.inr h
    · simp only [flagsL, List.mem_append] at h ⊢
      rcases h with h | h
      · exact Or.inl h
      · exact Or.inr (setupNamed_flags cols nm ks x h)

theorem setupFromParentNode_keepsIntP (b : Bool) (nm : String) : KeepsIntP b (setupFromParentNode nm) := by
  intro d ks p t hg h
  obtain ⟨hd, hk, hp⟩ := IntP_strat.mp hg
  unfold setupFromParentNode at h
  split at h
  · split at h
    · simp only [Except.ok.injEq] at h
      subst h
      exact IntP_strat.mpr ⟨hd, fun x hx => hk x (setupNamed_flags _ nm ks x hx), hp⟩
    · cases h
  · cases h

/-- the flag is uniform over the whole tree, shadow copies included, and stays so under every operation as long as
    it is pushed from the top -/
theorem applyOp_intP (t t' : Tree) (op : Op) (hop : op.intAtTopOnly = true) (b : Bool) (hg : IntP b t) (h : applyOp t op = .ok t') :
    ∃ b', IntP b' t' := by
  cases op with
  | attach path name kids => exact ⟨b, modifyAt_intP b _ (attachNode_keepsIntP b name kids) path t t' hg h⟩
  | useInt path b2 =>
    simp only [Op.intAtTopOnly, List.isEmpty_iff] at hop
    subst hop
    cases t with
    | sec s => simp [applyOp, modifyAt] at h
    | strat d ks p =>
      simp only [applyOp, modifyAt, Except.ok.injEq] at h
      subst h
      exact ⟨b2, flags_useInt b2 _⟩
  | setComm path c =>
    refine ⟨b, modifyAt_intP b _ ?_ path t t' hg h⟩
    intro d ks p t1 hg1 h1
    simp only [Except.ok.injEq] at h1
    subst h1
    intro x hx
    rw [flags_setComm] at hx
    exact hg1 x hx
  | setup cols =>
    simp only [applyOp, setupTop] at h
    split at h
    · simp only [Except.ok.injEq] at h
      subst h
      exact ⟨b, fun x hx => hg x (flags_setupNode cols t x hx)⟩
    · cases h
  | update i =>
    simp only [applyOp, Except.ok.injEq] at h
    subst h
    exact ⟨b, fun x hx => hg x (by rwa [flags_updateNode] at hx)⟩
  | touch path name => exact ⟨b, modifyAt_intP b _ (touchNode_keepsIntP b name) path t t' hg h⟩
  | setupFromParent path name => exact ⟨b, modifyAt_intP b _ (setupFromParentNode_keepsIntP b name) path t t' hg h⟩

theorem runOps_intP : (ops : List Op) → (t t' : Tree) → (k : Nat) → (∀ op ∈ ops, op.intAtTopOnly = true) → (b : Bool) → IntP b t →
    runOps t k ops = .ok t' → ∃ b', IntP b' t'
  | [], t, t', k, _, b, hg, h => by
    simp only [runOps, Except.ok.injEq] at h
    subst h; exact ⟨b, hg⟩
  | op :: rest, t, t', k, hops, b, hg, h => by
    simp only [runOps] at h
    cases ha : applyOp t op with
    | error e => simp [ha] at h
    | ok t1 =>
      simp only [ha] at h
      obtain ⟨b1, h1⟩ := applyOp_intP t t1 op (hops op (by simp)) b hg ha
      exact runOps_intP rest t1 t' (k + 1) (fun o ho => hops o (by simp [ho])) b1 h1 h

mutual
/-- `members` lists nodes of the tree: their flags are among `flags` -/
theorem infos_flags : (t : Tree) → (pfx : Path) → (pf : String) → (pc : Option Nat) → ∀ i ∈ infos pfx pf pc t, i.integer ∈ flags t
  | .sec s, pfx, pf, pc, i, hi => by
    simp only [infos, List.mem_singleton] at hi
    subst hi; simp [flags]
  | .strat d ks p, pfx, pf, pc, i, hi => by
    simp only [infos, List.mem_cons] at hi
    simp only [flags, List.mem_cons, List.mem_append]
    rcases hi with hi | hi
    · subst hi; exact Or.inl rfl
    · exact Or.inr (Or.inl (infosL_flags ks _ _ _ i hi))
theorem infosL_flags : (ks : List Tree) → (pfx : Path) → (pf : String) → (pc : Option Nat) → ∀ i ∈ infosL pfx pf pc ks, i.integer ∈ flagsL ks
  | [], pfx, pf, pc, i, hi => by simp [infosL] at hi
  | k :: ks, pfx, pf, pc, i, hi => by
    simp only [infosL, List.mem_append] at hi
    simp only [flagsL, List.mem_append]
    rcases hi with hi | hi
    · exact Or.inl (infos_flags k pfx pf pc i hi)
    · exact Or.inr (infosL_flags ks pfx pf pc i hi)
end

/-! ### combining invariants -/

section Combine
variable {Ps Ps' : Nat → SecW → Prop} {Pt Pt' : Nat → StratW → List (String × Bool) → Prop}

mutual
theorem All_mono (hS : ∀ n s, Ps n s → Ps' n s) (hT : ∀ n d sg, Pt n d sg → Pt' n d sg) :
    (n : Nat) → (t : Tree) → All Ps Pt n t → All Ps' Pt' n t
  | n, .sec s, h => hS n s h
  | n, .strat d ks _, h => ⟨hT n d _ h.1, AllL_mono hS hT (n + 1) ks h.2⟩
theorem AllL_mono (hS : ∀ n s, Ps n s → Ps' n s) (hT : ∀ n d sg, Pt n d sg → Pt' n d sg) :
    (n : Nat) → (ks : List Tree) → AllL Ps Pt n ks → AllL Ps' Pt' n ks
  | _, [], _ => trivial
  | n, k :: ks, h => ⟨All_mono hS hT n k h.1, AllL_mono hS hT n ks h.2⟩
end

mutual
theorem All_and : (n : Nat) → (t : Tree) → All Ps Pt n t → All Ps' Pt' n t →
    All (fun n s => Ps n s ∧ Ps' n s) (fun n d sg => Pt n d sg ∧ Pt' n d sg) n t
  | _, .sec _, h, h' => ⟨h, h'⟩
  | n, .strat _ ks _, h, h' => ⟨⟨h.1, h'.1⟩, AllL_and (n + 1) ks h.2 h'.2⟩
theorem AllL_and : (n : Nat) → (ks : List Tree) → AllL Ps Pt n ks → AllL Ps' Pt' n ks →
    AllL (fun n s => Ps n s ∧ Ps' n s) (fun n d sg => Pt n d sg ∧ Pt' n d sg) n ks
  | _, [], _, _ => trivial
  | n, k :: ks, h, h' => ⟨All_and n k h.1 h'.1, AllL_and n ks h.2 h'.2⟩
end

end Combine

/-- every realised strategy satisfies `P` (its data, the names and kinds of its children) -/
def EveryStrategy (P : StratW → List (String × Bool) → Prop) (t : Tree) : Prop :=
  All (fun _ _ => True) (fun _ d sg => P d sg) 0 t

/-- sibling names are pairwise distinct at every strategy -/
def SibUnique (t : Tree) : Prop := EveryStrategy (fun _ sg => (sigNames sg).Nodup) t

theorem Good.sibUnique {t : Tree} (h : Good 0 t) : SibUnique t :=
  All_mono (fun _ _ _ => trivial) (fun _ _ _ h => h.2.2.1) 0 t h

end Bt.Wiring
