import Bt.Proofs.UpdInv
/-! Projection (frame) lemmas for the small steps of `StrategyBase.update`, and what `stratWrite`,
    `stratRows`, `kidsWeights` establish. -/
namespace Bt
set_option linter.unusedSectionVars false
variable {K : Type} [Field K] [LinearOrder K] [IsStrictOrderedRing K] [HasFloor K]

@[simp] theorem stratSetTotals_name (d : Nat) (sd : StratData K) (val notl bo : K) : (stratSetTotals d sd val notl bo).name = sd.name := by unfold stratSetTotals; dsimp only; split <;> rfl
@[simp] theorem stratSetTotals_fixedIncome (d : Nat) (sd : StratData K) (val notl bo : K) : (stratSetTotals d sd val notl bo).fixedIncome = sd.fixedIncome := by unfold stratSetTotals; dsimp only; split <;> rfl
@[simp] theorem stratSetTotals_bidofferSet (d : Nat) (sd : StratData K) (val notl bo : K) : (stratSetTotals d sd val notl bo).bidofferSet = sd.bidofferSet := by unfold stratSetTotals; dsimp only; split <;> rfl
@[simp] theorem stratSetTotals_paperTrade (d : Nat) (sd : StratData K) (val notl bo : K) : (stratSetTotals d sd val notl bo).paperTrade = sd.paperTrade := by unfold stratSetTotals; dsimp only; split <;> rfl
@[simp] theorem stratSetTotals_paperPx (d : Nat) (sd : StratData K) (val notl bo : K) : (stratSetTotals d sd val notl bo).paperPx = sd.paperPx := by unfold stratSetTotals; dsimp only; split <;> rfl
@[simp] theorem stratSetTotals_comm (d : Nat) (sd : StratData K) (val notl bo : K) : (stratSetTotals d sd val notl bo).comm = sd.comm := by unfold stratSetTotals; dsimp only; split <;> rfl
@[simp] theorem stratSetTotals_now (d : Nat) (sd : StratData K) (val notl bo : K) : (stratSetTotals d sd val notl bo).now = sd.now := by unfold stratSetTotals; dsimp only; split <;> rfl
@[simp] theorem stratSetTotals_capital (d : Nat) (sd : StratData K) (val notl bo : K) : (stratSetTotals d sd val notl bo).capital = sd.capital := by unfold stratSetTotals; dsimp only; split <;> rfl
@[simp] theorem stratSetTotals_price (d : Nat) (sd : StratData K) (val notl bo : K) : (stratSetTotals d sd val notl bo).price = sd.price := by unfold stratSetTotals; dsimp only; split <;> rfl
@[simp] theorem stratSetTotals_weight (d : Nat) (sd : StratData K) (val notl bo : K) : (stratSetTotals d sd val notl bo).weight = sd.weight := by unfold stratSetTotals; dsimp only; split <;> rfl
@[simp] theorem stratSetTotals_netFlows (d : Nat) (sd : StratData K) (val notl bo : K) : (stratSetTotals d sd val notl bo).netFlows = sd.netFlows := by unfold stratSetTotals; dsimp only; split <;> rfl
@[simp] theorem stratSetTotals_lastValue (d : Nat) (sd : StratData K) (val notl bo : K) : (stratSetTotals d sd val notl bo).lastValue = sd.lastValue := by unfold stratSetTotals; dsimp only; split <;> rfl
@[simp] theorem stratSetTotals_lastNotl (d : Nat) (sd : StratData K) (val notl bo : K) : (stratSetTotals d sd val notl bo).lastNotl = sd.lastNotl := by unfold stratSetTotals; dsimp only; split <;> rfl
@[simp] theorem stratSetTotals_lastPrice (d : Nat) (sd : StratData K) (val notl bo : K) : (stratSetTotals d sd val notl bo).lastPrice = sd.lastPrice := by unfold stratSetTotals; dsimp only; split <;> rfl
@[simp] theorem stratSetTotals_lastFee (d : Nat) (sd : StratData K) (val notl bo : K) : (stratSetTotals d sd val notl bo).lastFee = sd.lastFee := by unfold stratSetTotals; dsimp only; split <;> rfl
@[simp] theorem stratSetTotals_bankrupt (d : Nat) (sd : StratData K) (val notl bo : K) : (stratSetTotals d sd val notl bo).bankrupt = sd.bankrupt := by unfold stratSetTotals; dsimp only; split <;> rfl
@[simp] theorem stratSetTotals_rPrice (d : Nat) (sd : StratData K) (val notl bo : K) : (stratSetTotals d sd val notl bo).rPrice = sd.rPrice := by unfold stratSetTotals; dsimp only; split <;> rfl
@[simp] theorem stratSetTotals_rCash (d : Nat) (sd : StratData K) (val notl bo : K) : (stratSetTotals d sd val notl bo).rCash = sd.rCash := by unfold stratSetTotals; dsimp only; split <;> rfl
@[simp] theorem stratSetTotals_rFees (d : Nat) (sd : StratData K) (val notl bo : K) : (stratSetTotals d sd val notl bo).rFees = sd.rFees := by unfold stratSetTotals; dsimp only; split <;> rfl
@[simp] theorem stratSetTotals_rFlows (d : Nat) (sd : StratData K) (val notl bo : K) : (stratSetTotals d sd val notl bo).rFlows = sd.rFlows := by unfold stratSetTotals; dsimp only; split <;> rfl

@[simp] theorem stratSetPrice_name (d : Nat) (sd : StratData K) (p : K) : (stratSetPrice d sd p).name = sd.name := by rfl
@[simp] theorem stratSetPrice_fixedIncome (d : Nat) (sd : StratData K) (p : K) : (stratSetPrice d sd p).fixedIncome = sd.fixedIncome := by rfl
@[simp] theorem stratSetPrice_bidofferSet (d : Nat) (sd : StratData K) (p : K) : (stratSetPrice d sd p).bidofferSet = sd.bidofferSet := by rfl
@[simp] theorem stratSetPrice_paperTrade (d : Nat) (sd : StratData K) (p : K) : (stratSetPrice d sd p).paperTrade = sd.paperTrade := by rfl
@[simp] theorem stratSetPrice_paperPx (d : Nat) (sd : StratData K) (p : K) : (stratSetPrice d sd p).paperPx = sd.paperPx := by rfl
@[simp] theorem stratSetPrice_comm (d : Nat) (sd : StratData K) (p : K) : (stratSetPrice d sd p).comm = sd.comm := by rfl
@[simp] theorem stratSetPrice_now (d : Nat) (sd : StratData K) (p : K) : (stratSetPrice d sd p).now = sd.now := by rfl
@[simp] theorem stratSetPrice_capital (d : Nat) (sd : StratData K) (p : K) : (stratSetPrice d sd p).capital = sd.capital := by rfl
@[simp] theorem stratSetPrice_value (d : Nat) (sd : StratData K) (p : K) : (stratSetPrice d sd p).value = sd.value := by rfl
@[simp] theorem stratSetPrice_notl (d : Nat) (sd : StratData K) (p : K) : (stratSetPrice d sd p).notl = sd.notl := by rfl
@[simp] theorem stratSetPrice_weight (d : Nat) (sd : StratData K) (p : K) : (stratSetPrice d sd p).weight = sd.weight := by rfl
@[simp] theorem stratSetPrice_netFlows (d : Nat) (sd : StratData K) (p : K) : (stratSetPrice d sd p).netFlows = sd.netFlows := by rfl
@[simp] theorem stratSetPrice_lastValue (d : Nat) (sd : StratData K) (p : K) : (stratSetPrice d sd p).lastValue = sd.lastValue := by rfl
@[simp] theorem stratSetPrice_lastNotl (d : Nat) (sd : StratData K) (p : K) : (stratSetPrice d sd p).lastNotl = sd.lastNotl := by rfl
@[simp] theorem stratSetPrice_lastPrice (d : Nat) (sd : StratData K) (p : K) : (stratSetPrice d sd p).lastPrice = sd.lastPrice := by rfl
@[simp] theorem stratSetPrice_lastFee (d : Nat) (sd : StratData K) (p : K) : (stratSetPrice d sd p).lastFee = sd.lastFee := by rfl
@[simp] theorem stratSetPrice_bidofferPaid (d : Nat) (sd : StratData K) (p : K) : (stratSetPrice d sd p).bidofferPaid = sd.bidofferPaid := by rfl
@[simp] theorem stratSetPrice_bankrupt (d : Nat) (sd : StratData K) (p : K) : (stratSetPrice d sd p).bankrupt = sd.bankrupt := by rfl
@[simp] theorem stratSetPrice_rValue (d : Nat) (sd : StratData K) (p : K) : (stratSetPrice d sd p).rValue = sd.rValue := by rfl
@[simp] theorem stratSetPrice_rNotl (d : Nat) (sd : StratData K) (p : K) : (stratSetPrice d sd p).rNotl = sd.rNotl := by rfl
@[simp] theorem stratSetPrice_rCash (d : Nat) (sd : StratData K) (p : K) : (stratSetPrice d sd p).rCash = sd.rCash := by rfl
@[simp] theorem stratSetPrice_rFees (d : Nat) (sd : StratData K) (p : K) : (stratSetPrice d sd p).rFees = sd.rFees := by rfl
@[simp] theorem stratSetPrice_rFlows (d : Nat) (sd : StratData K) (p : K) : (stratSetPrice d sd p).rFlows = sd.rFlows := by rfl
@[simp] theorem stratSetPrice_rBidofferPaid (d : Nat) (sd : StratData K) (p : K) : (stratSetPrice d sd p).rBidofferPaid = sd.rBidofferPaid := by rfl

@[simp] theorem stratRows_name (d : Nat) (sd : StratData K) : (stratRows d sd).name = sd.name := by unfold stratRows; dsimp only; split <;> rfl
@[simp] theorem stratRows_fixedIncome (d : Nat) (sd : StratData K) : (stratRows d sd).fixedIncome = sd.fixedIncome := by unfold stratRows; dsimp only; split <;> rfl
@[simp] theorem stratRows_bidofferSet (d : Nat) (sd : StratData K) : (stratRows d sd).bidofferSet = sd.bidofferSet := by unfold stratRows; dsimp only; split <;> rfl
@[simp] theorem stratRows_paperTrade (d : Nat) (sd : StratData K) : (stratRows d sd).paperTrade = sd.paperTrade := by unfold stratRows; dsimp only; split <;> rfl
@[simp] theorem stratRows_paperPx (d : Nat) (sd : StratData K) : (stratRows d sd).paperPx = sd.paperPx := by unfold stratRows; dsimp only; split <;> rfl
@[simp] theorem stratRows_comm (d : Nat) (sd : StratData K) : (stratRows d sd).comm = sd.comm := by unfold stratRows; dsimp only; split <;> rfl
@[simp] theorem stratRows_now (d : Nat) (sd : StratData K) : (stratRows d sd).now = sd.now := by unfold stratRows; dsimp only; split <;> rfl
@[simp] theorem stratRows_capital (d : Nat) (sd : StratData K) : (stratRows d sd).capital = sd.capital := by unfold stratRows; dsimp only; split <;> rfl
@[simp] theorem stratRows_value (d : Nat) (sd : StratData K) : (stratRows d sd).value = sd.value := by unfold stratRows; dsimp only; split <;> rfl
@[simp] theorem stratRows_notl (d : Nat) (sd : StratData K) : (stratRows d sd).notl = sd.notl := by unfold stratRows; dsimp only; split <;> rfl
@[simp] theorem stratRows_weight (d : Nat) (sd : StratData K) : (stratRows d sd).weight = sd.weight := by unfold stratRows; dsimp only; split <;> rfl
@[simp] theorem stratRows_netFlows (d : Nat) (sd : StratData K) : (stratRows d sd).netFlows = sd.netFlows := by unfold stratRows; dsimp only; split <;> rfl
@[simp] theorem stratRows_lastValue (d : Nat) (sd : StratData K) : (stratRows d sd).lastValue = sd.lastValue := by unfold stratRows; dsimp only; split <;> rfl
@[simp] theorem stratRows_lastNotl (d : Nat) (sd : StratData K) : (stratRows d sd).lastNotl = sd.lastNotl := by unfold stratRows; dsimp only; split <;> rfl
@[simp] theorem stratRows_lastPrice (d : Nat) (sd : StratData K) : (stratRows d sd).lastPrice = sd.lastPrice := by unfold stratRows; dsimp only; split <;> rfl
@[simp] theorem stratRows_lastFee (d : Nat) (sd : StratData K) : (stratRows d sd).lastFee = sd.lastFee := by unfold stratRows; dsimp only; split <;> rfl
@[simp] theorem stratRows_bidofferPaid (d : Nat) (sd : StratData K) : (stratRows d sd).bidofferPaid = sd.bidofferPaid := by unfold stratRows; dsimp only; split <;> rfl
@[simp] theorem stratRows_bankrupt (d : Nat) (sd : StratData K) : (stratRows d sd).bankrupt = sd.bankrupt := by unfold stratRows; dsimp only; split <;> rfl
@[simp] theorem stratRows_rValue (d : Nat) (sd : StratData K) : (stratRows d sd).rValue = sd.rValue := by unfold stratRows; dsimp only; split <;> rfl
@[simp] theorem stratRows_rNotl (d : Nat) (sd : StratData K) : (stratRows d sd).rNotl = sd.rNotl := by unfold stratRows; dsimp only; split <;> rfl
@[simp] theorem stratRows_rBidofferPaid (d : Nat) (sd : StratData K) : (stratRows d sd).rBidofferPaid = sd.rBidofferPaid := by unfold stratRows; dsimp only; split <;> rfl

@[simp] theorem strat_adjust_name (sd : StratData K) (a : Adj K) : (sd.adjust a).name = sd.name := by rfl
@[simp] theorem strat_adjust_fixedIncome (sd : StratData K) (a : Adj K) : (sd.adjust a).fixedIncome = sd.fixedIncome := by rfl
@[simp] theorem strat_adjust_bidofferSet (sd : StratData K) (a : Adj K) : (sd.adjust a).bidofferSet = sd.bidofferSet := by rfl
@[simp] theorem strat_adjust_paperTrade (sd : StratData K) (a : Adj K) : (sd.adjust a).paperTrade = sd.paperTrade := by rfl
@[simp] theorem strat_adjust_paperPx (sd : StratData K) (a : Adj K) : (sd.adjust a).paperPx = sd.paperPx := by rfl
@[simp] theorem strat_adjust_comm (sd : StratData K) (a : Adj K) : (sd.adjust a).comm = sd.comm := by rfl
@[simp] theorem strat_adjust_now (sd : StratData K) (a : Adj K) : (sd.adjust a).now = sd.now := by rfl
@[simp] theorem strat_adjust_price (sd : StratData K) (a : Adj K) : (sd.adjust a).price = sd.price := by rfl
@[simp] theorem strat_adjust_value (sd : StratData K) (a : Adj K) : (sd.adjust a).value = sd.value := by rfl
@[simp] theorem strat_adjust_notl (sd : StratData K) (a : Adj K) : (sd.adjust a).notl = sd.notl := by rfl
@[simp] theorem strat_adjust_weight (sd : StratData K) (a : Adj K) : (sd.adjust a).weight = sd.weight := by rfl
@[simp] theorem strat_adjust_lastValue (sd : StratData K) (a : Adj K) : (sd.adjust a).lastValue = sd.lastValue := by rfl
@[simp] theorem strat_adjust_lastNotl (sd : StratData K) (a : Adj K) : (sd.adjust a).lastNotl = sd.lastNotl := by rfl
@[simp] theorem strat_adjust_lastPrice (sd : StratData K) (a : Adj K) : (sd.adjust a).lastPrice = sd.lastPrice := by rfl
@[simp] theorem strat_adjust_bidofferPaid (sd : StratData K) (a : Adj K) : (sd.adjust a).bidofferPaid = sd.bidofferPaid := by rfl
@[simp] theorem strat_adjust_bankrupt (sd : StratData K) (a : Adj K) : (sd.adjust a).bankrupt = sd.bankrupt := by rfl
@[simp] theorem strat_adjust_rPrice (sd : StratData K) (a : Adj K) : (sd.adjust a).rPrice = sd.rPrice := by rfl
@[simp] theorem strat_adjust_rValue (sd : StratData K) (a : Adj K) : (sd.adjust a).rValue = sd.rValue := by rfl
@[simp] theorem strat_adjust_rNotl (sd : StratData K) (a : Adj K) : (sd.adjust a).rNotl = sd.rNotl := by rfl
@[simp] theorem strat_adjust_rCash (sd : StratData K) (a : Adj K) : (sd.adjust a).rCash = sd.rCash := by rfl
@[simp] theorem strat_adjust_rFees (sd : StratData K) (a : Adj K) : (sd.adjust a).rFees = sd.rFees := by rfl
@[simp] theorem strat_adjust_rFlows (sd : StratData K) (a : Adj K) : (sd.adjust a).rFlows = sd.rFlows := by rfl
@[simp] theorem strat_adjust_rBidofferPaid (sd : StratData K) (a : Adj K) : (sd.adjust a).rBidofferPaid = sd.rBidofferPaid := by rfl

@[simp] theorem stratDateChange_name (d : Nat) (sd : StratData K) : ((stratDateChange d sd).1).name = sd.name := by unfold stratDateChange; split <;> [rfl; (split <;> rfl)]
@[simp] theorem stratDateChange_fixedIncome (d : Nat) (sd : StratData K) : ((stratDateChange d sd).1).fixedIncome = sd.fixedIncome := by unfold stratDateChange; split <;> [rfl; (split <;> rfl)]
@[simp] theorem stratDateChange_bidofferSet (d : Nat) (sd : StratData K) : ((stratDateChange d sd).1).bidofferSet = sd.bidofferSet := by unfold stratDateChange; split <;> [rfl; (split <;> rfl)]
@[simp] theorem stratDateChange_paperTrade (d : Nat) (sd : StratData K) : ((stratDateChange d sd).1).paperTrade = sd.paperTrade := by unfold stratDateChange; split <;> [rfl; (split <;> rfl)]
@[simp] theorem stratDateChange_paperPx (d : Nat) (sd : StratData K) : ((stratDateChange d sd).1).paperPx = sd.paperPx := by unfold stratDateChange; split <;> [rfl; (split <;> rfl)]
@[simp] theorem stratDateChange_comm (d : Nat) (sd : StratData K) : ((stratDateChange d sd).1).comm = sd.comm := by unfold stratDateChange; split <;> [rfl; (split <;> rfl)]
@[simp] theorem stratDateChange_capital (d : Nat) (sd : StratData K) : ((stratDateChange d sd).1).capital = sd.capital := by unfold stratDateChange; split <;> [rfl; (split <;> rfl)]
@[simp] theorem stratDateChange_price (d : Nat) (sd : StratData K) : ((stratDateChange d sd).1).price = sd.price := by unfold stratDateChange; split <;> [rfl; (split <;> rfl)]
@[simp] theorem stratDateChange_value (d : Nat) (sd : StratData K) : ((stratDateChange d sd).1).value = sd.value := by unfold stratDateChange; split <;> [rfl; (split <;> rfl)]
@[simp] theorem stratDateChange_notl (d : Nat) (sd : StratData K) : ((stratDateChange d sd).1).notl = sd.notl := by unfold stratDateChange; split <;> [rfl; (split <;> rfl)]
@[simp] theorem stratDateChange_weight (d : Nat) (sd : StratData K) : ((stratDateChange d sd).1).weight = sd.weight := by unfold stratDateChange; split <;> [rfl; (split <;> rfl)]
@[simp] theorem stratDateChange_bidofferPaid (d : Nat) (sd : StratData K) : ((stratDateChange d sd).1).bidofferPaid = sd.bidofferPaid := by unfold stratDateChange; split <;> [rfl; (split <;> rfl)]
@[simp] theorem stratDateChange_bankrupt (d : Nat) (sd : StratData K) : ((stratDateChange d sd).1).bankrupt = sd.bankrupt := by unfold stratDateChange; split <;> [rfl; (split <;> rfl)]
@[simp] theorem stratDateChange_rPrice (d : Nat) (sd : StratData K) : ((stratDateChange d sd).1).rPrice = sd.rPrice := by unfold stratDateChange; split <;> [rfl; (split <;> rfl)]
@[simp] theorem stratDateChange_rValue (d : Nat) (sd : StratData K) : ((stratDateChange d sd).1).rValue = sd.rValue := by unfold stratDateChange; split <;> [rfl; (split <;> rfl)]
@[simp] theorem stratDateChange_rNotl (d : Nat) (sd : StratData K) : ((stratDateChange d sd).1).rNotl = sd.rNotl := by unfold stratDateChange; split <;> [rfl; (split <;> rfl)]
@[simp] theorem stratDateChange_rCash (d : Nat) (sd : StratData K) : ((stratDateChange d sd).1).rCash = sd.rCash := by unfold stratDateChange; split <;> [rfl; (split <;> rfl)]
@[simp] theorem stratDateChange_rFees (d : Nat) (sd : StratData K) : ((stratDateChange d sd).1).rFees = sd.rFees := by unfold stratDateChange; split <;> [rfl; (split <;> rfl)]
@[simp] theorem stratDateChange_rFlows (d : Nat) (sd : StratData K) : ((stratDateChange d sd).1).rFlows = sd.rFlows := by unfold stratDateChange; split <;> [rfl; (split <;> rfl)]
@[simp] theorem stratDateChange_rBidofferPaid (d : Nat) (sd : StratData K) : ((stratDateChange d sd).1).rBidofferPaid = sd.rBidofferPaid := by unfold stratDateChange; split <;> [rfl; (split <;> rfl)]

@[simp] theorem stratSetTotals_value (d : Nat) (sd : StratData K) (val notl bo : K) :
    (stratSetTotals d sd val notl bo).value = val := by
  unfold stratSetTotals; dsimp only; split <;> rfl
@[simp] theorem stratSetTotals_notl (d : Nat) (sd : StratData K) (val notl bo : K) :
    (stratSetTotals d sd val notl bo).notl = notl := by
  unfold stratSetTotals; dsimp only; split <;> rfl
@[simp] theorem stratSetTotals_rValue (d : Nat) (sd : StratData K) (val notl bo : K) :
    (stratSetTotals d sd val notl bo).rValue = sd.rValue.set d val := by
  unfold stratSetTotals; dsimp only; split <;> rfl
@[simp] theorem stratSetTotals_rNotl (d : Nat) (sd : StratData K) (val notl bo : K) :
    (stratSetTotals d sd val notl bo).rNotl = sd.rNotl.set d notl := by
  unfold stratSetTotals; dsimp only; split <;> rfl
@[simp] theorem stratRows_rCash (d : Nat) (sd : StratData K) :
    (stratRows d sd).rCash = sd.rCash.set d sd.capital := by
  unfold stratRows; dsimp only; split <;> rfl

@[simp] theorem stratDateChange_now (d : Nat) (sd : StratData K) : (stratDateChange d sd).1.now = some d := by
  unfold stratDateChange; split <;> [rfl; (split <;> rfl)]

theorem stratDateChange_newpt (d : Nat) (sd : StratData K) :
    (stratDateChange d sd).2 = true ↔ sd.now ≠ some d := by
  unfold stratDateChange
  split
  · rename_i h; simp [h]
  · rename_i n h
    split
    · rename_i h2; simp only [h, true_iff]; simpa using h2
    · rename_i h2; simp only [h]; simpa using h2

@[simp] theorem stratPre_capital (d : Nat) (sd : StratData K) (c : K) :
    (stratPre d sd c).capital = sd.capital + c := by simp [stratPre]
@[simp] theorem stratPre_fixedIncome (d : Nat) (sd : StratData K) (c : K) :
    (stratPre d sd c).fixedIncome = sd.fixedIncome := by simp [stratPre]
@[simp] theorem stratPre_value (d : Nat) (sd : StratData K) (c : K) :
    (stratPre d sd c).value = sd.value := by simp [stratPre]
@[simp] theorem stratPre_notl (d : Nat) (sd : StratData K) (c : K) :
    (stratPre d sd c).notl = sd.notl := by simp [stratPre]
@[simp] theorem stratPre_now (d : Nat) (sd : StratData K) (c : K) :
    (stratPre d sd c).now = some d := by simp [stratPre]
@[simp] theorem stratPre_rValue (d : Nat) (sd : StratData K) (c : K) :
    (stratPre d sd c).rValue = sd.rValue := by simp [stratPre]
@[simp] theorem stratPre_rNotl (d : Nat) (sd : StratData K) (c : K) :
    (stratPre d sd c).rNotl = sd.rNotl := by simp [stratPre]
@[simp] theorem stratPre_rCash (d : Nat) (sd : StratData K) (c : K) :
    (stratPre d sd c).rCash = sd.rCash := by simp [stratPre]
@[simp] theorem stratPre_bankrupt (d : Nat) (sd : StratData K) (c : K) :
    (stratPre d sd c).bankrupt = sd.bankrupt := by simp [stratPre]
@[simp] theorem stratPre_bidofferSet (d : Nat) (sd : StratData K) (c : K) :
    (stratPre d sd c).bidofferSet = sd.bidofferSet := by simp [stratPre]

/-- `stratWrite`: either the totals are written (always on a new date), or nothing changes and both
    stored totals are within `TOL` of the computed ones. -/
theorem stratWrite_inv {cfg : Cfg K} {d : Nat} {newpt : Bool} {sd sd3 : StratData K} {val notl bo : K}
    (h : stratWrite cfg d newpt sd val notl bo = .ok sd3) :
    (∃ p, sd3 = stratSetPrice d (stratSetTotals d sd val notl bo) p) ∨
    (newpt = false ∧ sd3 = sd ∧ |sd.value - val| < cfg.tol ∧ |sd.notl - notl| < cfg.tol) := by
  unfold stratWrite at h
  cases hc : stratChanged cfg newpt sd val notl
  · right
    simp only [hc, Bool.false_eq_true, ↓reduceIte] at h
    unfold stratChanged at hc
    simp only [Bool.or_eq_false_iff, Bool.not_eq_false'] at hc
    obtain ⟨⟨h1, h2⟩, h3⟩ := hc
    exact ⟨h1, (Except.pure_eq_ok h).symm, (isZero_iff _ _).mp h2, (isZero_iff _ _).mp h3⟩
  · left
    simp only [hc, ↓reduceIte] at h
    split at h
    · obtain ⟨r, _, rfl⟩ := Except.map_eq_ok h; exact ⟨_, rfl⟩
    · obtain ⟨r, _, rfl⟩ := Except.map_eq_ok h; exact ⟨_, rfl⟩

theorem stratWrite_newpt {cfg : Cfg K} {d : Nat} {sd sd3 : StratData K} {val notl bo : K}
    (h : stratWrite cfg d true sd val notl bo = .ok sd3) :
    ∃ p, sd3 = stratSetPrice d (stratSetTotals d sd val notl bo) p := by
  rcases stratWrite_inv h with h | ⟨h, _⟩
  · exact h
  · cases h

/-- fields `stratWrite` never touches -/
theorem stratWrite_frame {cfg : Cfg K} {d : Nat} {newpt : Bool} {sd sd3 : StratData K} {val notl bo : K}
    (h : stratWrite cfg d newpt sd val notl bo = .ok sd3) :
    sd3.capital = sd.capital ∧ sd3.fixedIncome = sd.fixedIncome ∧ sd3.now = sd.now ∧
    sd3.bankrupt = sd.bankrupt ∧ sd3.rCash = sd.rCash ∧ sd3.bidofferSet = sd.bidofferSet ∧
    sd3.weight = sd.weight ∧ sd3.name = sd.name := by
  rcases stratWrite_inv h with ⟨p, rfl⟩ | ⟨_, rfl, _⟩
  · simp
  · simp

/-! ### kidsWeights -/
@[simp] theorem Node.setWeight_value (w : K) (k : Node K) : (k.setWeight w).value = k.value := by
  cases k <;> rfl
@[simp] theorem Node.setWeight_notl (w : K) (k : Node K) : (k.setWeight w).notl = k.notl := by
  cases k <;> rfl
@[simp] theorem Node.setWeight_skipped (w : K) (k : Node K) : (k.setWeight w).skipped = k.skipped := by
  cases k <;> rfl
@[simp] theorem Node.setWeight_weight (w : K) (k : Node K) : (k.setWeight w).weight = w := by
  cases k <;> rfl
@[simp] theorem Node.setWeight_bidofferPaid (w : K) (k : Node K) : (k.setWeight w).bidofferPaid = k.bidofferPaid := by
  cases k <;> rfl

/-- the re-weighting of one child -/
def reweigh (cfg : Cfg K) (fi : Bool) (val notl : K) (k : Node K) : Node K :=
  if k.skipped then k else k.setWeight (childWeight cfg fi val notl k)

theorem kidsWeights_eq_map (cfg : Cfg K) (fi : Bool) (val notl : K) (kids : List (Node K)) :
    kidsWeights cfg fi val notl kids = kids.map (reweigh cfg fi val notl) := rfl

@[simp] theorem reweigh_value (cfg : Cfg K) (fi : Bool) (val notl : K) (k : Node K) :
    (reweigh cfg fi val notl k).value = k.value := by unfold reweigh; split <;> simp
@[simp] theorem reweigh_notl (cfg : Cfg K) (fi : Bool) (val notl : K) (k : Node K) :
    (reweigh cfg fi val notl k).notl = k.notl := by unfold reweigh; split <;> simp
@[simp] theorem reweigh_skipped (cfg : Cfg K) (fi : Bool) (val notl : K) (k : Node K) :
    (reweigh cfg fi val notl k).skipped = k.skipped := by unfold reweigh; split <;> simp
@[simp] theorem reweigh_bidofferPaid (cfg : Cfg K) (fi : Bool) (val notl : K) (k : Node K) :
    (reweigh cfg fi val notl k).bidofferPaid = k.bidofferPaid := by unfold reweigh; split <;> simp

theorem childWeight_congr (cfg : Cfg K) (fi : Bool) (val notl : K) {k k' : Node K}
    (hv : k'.value = k.value) (hn : k'.notl = k.notl) :
    childWeight cfg fi val notl k' = childWeight cfg fi val notl k := by
  unfold childWeight; rw [hv, hn]

theorem reweigh_weight (cfg : Cfg K) (fi : Bool) (val notl : K) (k : Node K) (h : k.skipped = false) :
    (reweigh cfg fi val notl k).weight = childWeight cfg fi val notl (reweigh cfg fi val notl k) := by
  rw [childWeight_congr cfg fi val notl (reweigh_value ..) (reweigh_notl ..)]
  unfold reweigh; simp [h]

end Bt
