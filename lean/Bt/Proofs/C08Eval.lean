import Bt.Proofs.C08Root
/-! A fuel-driven clone of `updNode` that the kernel can evaluate (the model's `updNode`/`updKids` are
    compiled by well-founded recursion and do not reduce), with its soundness theorem.  Used only to
    check concrete instances (`example`s and counterexamples) by `decide +kernel`. -/
set_option linter.unusedSectionVars false
namespace Bt.P08
open Bt

section
variable {α : Type} [Add α] [Sub α] [Mul α] [Div α] [Neg α] [LT α] [DecidableLT α]
  [LE α] [DecidableLE α] [OfNat α 0] [OfNat α 1] [HasFloor α]

/-- the children loop with the recursive call on sub-strategies abstracted -/
def updKidsF (rec : Node α → Except Err (Node α)) (cfg : Cfg α) (d : Nat) (newpt bo : Bool) :
    List (Node α) → Acc α → Except Err (List (Node α) × Acc α)
  | [], acc => pure ([], acc)
  | .sec s :: ks, acc =>
    if !(sweepSec newpt s acc).1.needupdate then
      (updKidsF rec cfg d newpt bo ks (sweepSec newpt s acc).2).map fun r =>
        (.sec (sweepSec newpt s acc).1 :: r.1, r.2)
    else
      (secUpdate cfg d (sweepSec newpt s acc).1).bind fun s1 =>
      (updKidsF rec cfg d newpt bo ks (accAdd bo (sweepSec newpt s acc).2 (.sec s1))).map fun r =>
        (.sec s1 :: r.1, r.2)
  | .strat sd kk :: ks, acc =>
    (rec (.strat sd kk)).bind fun k1 =>
    (updKidsF rec cfg d newpt bo ks (accAdd bo acc k1)).map fun r => (k1 :: r.1, r.2)

/-- `updNode` with fuel (≥ depth of the tree); runs out of fuel with `badPath` -/
def updNodeF (cfg : Cfg α) (d : Nat) : Nat → Node α → Except Err (Node α)
  | 0, _ => throw Err.badPath
  | _ + 1, .sec s => (secUpdate cfg d s).map Node.sec
  | f + 1, .strat sd kids =>
    (updKidsF (updNodeF cfg d f) cfg d (stratDateChange d sd).2 (stratDateChange d sd).1.bidofferSet kids
      ⟨(stratDateChange d sd).1.capital, 0, 0, 0⟩).bind
      (stratFinish cfg d (stratDateChange d sd).2 (stratDateChange d sd).1)

theorem updKidsF_sound {rec : Node α → Except Err (Node α)} {cfg : Cfg α} {d : Nat}
    (hrec : ∀ n n', rec n = .ok n' → updNode cfg d n = .ok n') (newpt bo : Bool) :
    ∀ (ks : List (Node α)) (acc : Acc α) r,
      updKidsF rec cfg d newpt bo ks acc = .ok r → updKids cfg d newpt bo ks acc = .ok r
  | [], acc, r, h => by rw [updKids.eq_1]; exact h
  | .sec s :: ks, acc, r, h => by
    rw [updKids.eq_2]
    rw [updKidsF] at h
    show (if !(sweepSec newpt s acc).1.needupdate then
        (updKids cfg d newpt bo ks (sweepSec newpt s acc).2).map fun r =>
          (Node.sec (sweepSec newpt s acc).1 :: r.1, r.2)
      else
        (secUpdate cfg d (sweepSec newpt s acc).1).bind fun s1 =>
        (updKids cfg d newpt bo ks (accAdd bo (sweepSec newpt s acc).2 (.sec s1))).map fun r =>
          (Node.sec s1 :: r.1, r.2)) = _
    split at h
    · rename_i hc
      rw [if_pos hc]
      obtain ⟨r1, h1, rfl⟩ := map_eq_ok h
      rw [updKidsF_sound hrec newpt bo ks _ _ h1]; rfl
    · rename_i hc
      rw [if_neg hc]
      obtain ⟨s1, hs1, h⟩ := bind_eq_ok h
      obtain ⟨r1, h1, rfl⟩ := map_eq_ok h
      rw [hs1, bind_ok, updKidsF_sound hrec newpt bo ks _ _ h1]; rfl
  | .strat sd kk :: ks, acc, r, h => by
    rw [updKids.eq_3]
    rw [updKidsF] at h
    obtain ⟨k1, hk1, h⟩ := bind_eq_ok h
    obtain ⟨r1, h1, rfl⟩ := map_eq_ok h
    rw [hrec _ _ hk1, bind_ok]
    show Except.map (fun r => (k1 :: r.1, r.2)) (updKids cfg d newpt bo ks (accAdd bo acc k1)) = _
    rw [updKidsF_sound hrec newpt bo ks _ _ h1]; rfl

/-- whatever the fuelled clone returns is what `updNode` returns -/
theorem updNodeF_sound {cfg : Cfg α} {d : Nat} :
    ∀ (f : Nat) (n n' : Node α), updNodeF cfg d f n = .ok n' → updNode cfg d n = .ok n'
  | 0, _, _, h => by cases h
  | f + 1, .sec s, n', h => by rw [updNode.eq_1]; exact h
  | f + 1, .strat sd kids, n', h => by
    rw [updNode.eq_2]
    rw [updNodeF] at h
    obtain ⟨r, hk, hf⟩ := bind_eq_ok h
    show (updKids cfg d (stratDateChange d sd).2 (stratDateChange d sd).1.bidofferSet kids
      ⟨(stratDateChange d sd).1.capital, 0, 0, 0⟩).bind
      (stratFinish cfg d (stratDateChange d sd).2 (stratDateChange d sd).1) = _
    rw [updKidsF_sound (updNodeF_sound f) _ _ _ _ _ hk, bind_ok]
    exact hf

/-- `updRoot` with fuel, for the case without liquidation (the clone refuses the bankruptcy branch) -/
def updRootF (cfg : Cfg α) (d : Nat) (f : Nat) (w : World α) : Except Err (World α) :=
  match w.root with
  | .sec _ => throw Err.badPath
  | .strat sd kids =>
    (updKidsF (updNodeF cfg d f) cfg d (stratDateChange d sd).2 (stratDateChange d sd).1.bidofferSet kids
      ⟨(stratDateChange d sd).1.capital, 0, 0, 0⟩).bind fun r =>
      if bankruptCond cfg (stratDateChange d sd).1 (r.2.val + r.2.coupons) then throw Err.badPath
      else (stratFinish cfg d (stratDateChange d sd).2 (stratDateChange d sd).1 r).map fun n =>
        { root := n, stale := false }

theorem updRootF_sound {cfg : Cfg α} {d f : Nat} {w w' : World α}
    (h : updRootF cfg d f w = .ok w') : updRoot cfg d w = .ok w' := by
  obtain ⟨root, st⟩ := w
  cases root with
  | sec s => cases h
  | strat sd kids =>
    simp only [updRootF] at h
    obtain ⟨r, hk, h⟩ := bind_eq_ok h
    split at h
    · cases h
    · rename_i hc
      obtain ⟨n, hf, rfl⟩ := map_eq_ok h
      unfold stratFinish at hf
      obtain ⟨sd3, hw, rfl⟩ := map_eq_ok hf
      show (updKids cfg d (stratDateChange d sd).2 (stratDateChange d sd).1.bidofferSet kids
        ⟨(stratDateChange d sd).1.capital, 0, 0, 0⟩).bind (fun r =>
        if bankruptCond cfg (stratDateChange d sd).1 (r.2.val + r.2.coupons) then
          (flattenAt cfg (refreshNB cfg) (bankruptWorld (stratDateChange d sd).1 r).root []
              (bankruptWorld (stratDateChange d sd).1 r)).bind fun wF =>
          (updNode cfg d wF.root).map fun n => ({ root := n, stale := false } : World α)
        else (stratWrite cfg d (stratDateChange d sd).2 { (stratDateChange d sd).1 with
          capital := (stratDateChange d sd).1.capital + r.2.coupons } (r.2.val + r.2.coupons)
          r.2.notl r.2.bo).map fun sd3 =>
        ({ root := .strat (stratRows d sd3)
            (kidsWeights cfg sd3.fixedIncome (r.2.val + r.2.coupons) r.2.notl r.1), stale := false } : World α)) = _
      rw [updKidsF_sound (updNodeF_sound f) _ _ _ _ _ hk, bind_ok]
      simp only [hc, Bool.false_eq_true, ↓reduceIte]
      rw [hw]; rfl

end

/-- the clone never liquidates, so it transports `NoDust` like `updNode` does -/
theorem updRootF_noDust {K : Type} [Field K] [LinearOrder K] [IsStrictOrderedRing K] [HasFloor K]
    {cfg : Cfg K} {d f : Nat} {w w' : World K} (h : updRootF cfg d f w = .ok w') :
    NoDust cfg w'.root ↔ NoDust cfg w.root := by
  obtain ⟨root, st⟩ := w
  cases root with
  | sec s => cases h
  | strat sd kids =>
    simp only [updRootF] at h
    obtain ⟨r, hk, h⟩ := bind_eq_ok h
    split at h
    · cases h
    · obtain ⟨n, hf, rfl⟩ := map_eq_ok h
      have hn : updNode cfg d (.strat sd kids) = .ok n := by
        rw [updNode_strat, updKidsF_sound (updNodeF_sound f) _ _ _ _ _ hk, bind_ok]
        exact hf
      exact updNode_noDust cfg d _ _ hn

end Bt.P08
