import Bt.Engine.Backtest
import Bt.Proofs.C08Root
import Bt.Proofs.C08Eval
import Bt.Algos.Stack
import Bt.Algos.Sched
/-! C09 helper lemmas: the shadow ("paper") copy of a sub-strategy is a stand-alone backtest of the same
    definition.  `Bt.Engine.Backtest` supplies `btDay / btLoop / btRun` (the loop of `Backtest.run`),
    `paperDay / paperLoop / paperStep / paperUpdates` (the tail of `StrategyBase.update` acting on the shadow
    copy: on row 0 it is only updated, on every later row it gets the loop body) and `clockDates` (the dates on
    which the child's clock changes). -/
set_option linter.unusedSectionVars false
namespace Bt.P09
open Bt Bt.P08

variable {K : Type} [Field K] [LinearOrder K] [IsStrictOrderedRing K] [HasFloor K]

/-! ### `Except` plumbing -/

theorem bind_assoc' {ε α β γ : Type} (x : Except ε α) (f : α → Except ε β) (g : β → Except ε γ) :
    (x.bind f).bind g = x.bind fun a => (f a).bind g := by
  cases x <;> rfl

theorem bind_congr' {ε α β : Type} (x : Except ε α) {f g : α → Except ε β}
    (h : ∀ a, x = .ok a → f a = g a) : x.bind f = x.bind g := by
  cases x with
  | error e => rfl
  | ok a => exact h a rfl

theorem bind_pure' {ε α : Type} (x : Except ε α) : x.bind (fun a => (pure a : Except ε α)) = x := by
  cases x <;> rfl

/-! ### (1) one step of the shadow copy per change of the child's clock -/

/-- the child's clock after the calls -/
def clockAfter : List Nat → Option Nat → Option Nat
  | [], now => now
  | d :: ds, _ => clockAfter ds (some d)

theorem paperUpdates_eq_clock (cfg : Cfg K) (run : RunFn K) :
    ∀ (calls : List Nat) (now : Option Nat) (pw : World K),
      paperUpdates cfg run calls now pw = paperLoop cfg run (clockDates calls now) pw
  | [], now, pw => rfl
  | d :: ds, now, pw => by
    simp only [paperUpdates, paperStep, clockDates]
    by_cases h : (now != some d) = true
    · simp only [h, ↓reduceIte, paperLoop]
      exact bind_congr' _ fun w _ => paperUpdates_eq_clock cfg run ds (some d) w
    · simp only [h, Bool.false_eq_true, ↓reduceIte]
      exact paperUpdates_eq_clock cfg run ds (some d) pw

/-- on row 0 the shadow copy is only updated -/
theorem paperDay_zero (cfg : Cfg K) (run : RunFn K) (pw : World K) :
    paperDay cfg run 0 pw = updRoot cfg 0 pw := by
  simp only [paperDay, ↓reduceIte]

/-- on every other row it gets the loop body of `Backtest.run` -/
theorem paperDay_pos (cfg : Cfg K) (run : RunFn K) {d : Nat} (hd : d ≠ 0) (pw : World K) :
    paperDay cfg run d pw = btDay cfg run d pw := by
  simp only [paperDay, hd, ↓reduceIte]

/-- over rows other than row 0 the stepping of a shadow copy is literally the loop of `Backtest.run` -/
theorem paperLoop_eq_btLoop (cfg : Cfg K) (run : RunFn K) :
    ∀ (ds : List Nat) (pw : World K), (∀ d ∈ ds, d ≠ 0) → paperLoop cfg run ds pw = btLoop cfg run ds pw
  | [], pw, _ => rfl
  | d :: ds, pw, h => by
    simp only [paperLoop, btLoop, paperDay_pos cfg run (h d (List.mem_cons_self ..))]
    exact bind_congr' _ fun w _ => paperLoop_eq_btLoop cfg run ds w fun x hx => h x (List.mem_cons_of_mem _ hx)

/-- a clock that starts on row 0 and never comes back to it: one `update(0)`, then the loop of `Backtest.run` -/
theorem paperLoop_zero_cons (cfg : Cfg K) (run : RunFn K) (ds : List Nat) (pw : World K) (h : ∀ d ∈ ds, d ≠ 0) :
    paperLoop cfg run (0 :: ds) pw = (updRoot cfg 0 pw).bind (btLoop cfg run ds) := by
  simp only [paperLoop, paperDay_zero]
  exact bind_congr' _ fun w _ => paperLoop_eq_btLoop cfg run ds w h

theorem paperLoop_append (cfg : Cfg K) (run : RunFn K) :
    ∀ (l1 l2 : List Nat) (w : World K),
      paperLoop cfg run (l1 ++ l2) w = (paperLoop cfg run l1 w).bind (paperLoop cfg run l2)
  | [], l2, w => rfl
  | d :: l1, l2, w => by
    simp only [List.cons_append, paperLoop]
    rw [bind_assoc']
    exact bind_congr' _ fun w' _ => paperLoop_append cfg run l1 l2 w'

theorem btLoop_append (cfg : Cfg K) (run : RunFn K) :
    ∀ (l1 l2 : List Nat) (w : World K),
      btLoop cfg run (l1 ++ l2) w = (btLoop cfg run l1 w).bind (btLoop cfg run l2)
  | [], l2, w => rfl
  | d :: l1, l2, w => by
    simp only [List.cons_append, btLoop]
    rw [bind_assoc']
    exact bind_congr' _ fun w' _ => btLoop_append cfg run l1 l2 w'

theorem clockDates_append :
    ∀ (c1 c2 : List Nat) (now : Option Nat),
      clockDates (c1 ++ c2) now = clockDates c1 now ++ clockDates c2 (clockAfter c1 now)
  | [], c2, now => rfl
  | d :: c1, c2, now => by
    simp only [List.cons_append, clockDates, clockAfter]
    split
    · rw [clockDates_append c1 c2 (some d)]; rfl
    · exact clockDates_append c1 c2 (some d)

/-- every prefix of the list of clock dates is the list of clock dates of a prefix of the calls -/
theorem clockDates_prefix :
    ∀ (calls : List Nat) (now : Option Nat) (l1 l2 : List Nat), clockDates calls now = l1 ++ l2 →
      ∃ c1 c2, calls = c1 ++ c2 ∧ clockDates c1 now = l1
  | [], now, l1, l2, h => by
    have : l1 = [] := by
      cases l1 with
      | nil => rfl
      | cons a l => simp [clockDates] at h
    subst this
    exact ⟨[], [], rfl, rfl⟩
  | d :: ds, now, [], l2, h => ⟨[], d :: ds, rfl, rfl⟩
  | d :: ds, now, x :: l1, l2, h => by
    simp only [clockDates] at h
    by_cases hc : (now != some d) = true
    · simp only [hc, ↓reduceIte, List.cons_append, List.cons.injEq] at h
      obtain ⟨rfl, h2⟩ := h
      obtain ⟨c1, c2, hcalls, hcl⟩ := clockDates_prefix ds (some d) l1 l2 h2
      refine ⟨d :: c1, c2, by rw [hcalls]; rfl, ?_⟩
      simp only [clockDates, hc, ↓reduceIte, hcl]
    · simp only [hc, Bool.false_eq_true, ↓reduceIte] at h
      obtain ⟨c1, c2, hcalls, hcl⟩ := clockDates_prefix ds (some d) (x :: l1) l2 h
      refine ⟨d :: c1, c2, by rw [hcalls]; rfl, ?_⟩
      simp only [clockDates, hc, Bool.false_eq_true, ↓reduceIte, hcl]

/-! ### the real child and its shadow copy side by side

The real child is any state `σ` (its cash, the allocations it received, its positions …) with any `update`;
between two `update(date)` calls anything may be done to it.  The shadow copy is a separate value; only
`update(date)` touches it, and only through the child's clock. -/

/-- what happens to a sub-strategy during its parent's backtest -/
inductive ChildEv (σ : Type) where
  /-- `child.update(d)` (from the parent's `update`, any number of times per date) -/
  | update (d : Nat)
  /-- anything else done to the real child: `adjust`, `allocate`, `rebalance`, `close`, `flatten`, its own
      algos trading, … (may raise) -/
  | op (f : σ → Except Err σ)

structure ChildSt (σ α : Type) where
  real : σ
  now : Option Nat
  paper : World α

/-- the update dates among the events -/
def updDates {σ : Type} : List (ChildEv σ) → List Nat
  | [] => []
  | .update d :: es => d :: updDates es
  | .op _ :: es => updDates es

section child
variable {σ : Type}

/-- one event: `update(d)` updates the real child (`upd`, arbitrary), then steps the shadow copy
    (`StrategyBase.update` l.845-851); anything else acts on the real child only -/
def childStep (cfg : Cfg K) (run : RunFn K) (upd : Nat → σ → Except Err σ) (st : ChildSt σ K) :
    ChildEv σ → Except Err (ChildSt σ K)
  | .update d =>
    (upd d st.real).bind fun r =>
    (paperStep cfg run d (st.now != some d) st.paper).map fun p => { real := r, now := some d, paper := p }
  | .op f => (f st.real).map fun r => { st with real := r }

def childRun (cfg : Cfg K) (run : RunFn K) (upd : Nat → σ → Except Err σ) :
    List (ChildEv σ) → ChildSt σ K → Except Err (ChildSt σ K)
  | [], st => pure st
  | e :: es, st => (childStep cfg run upd st e).bind (childRun cfg run upd es)

theorem childRun_paper (cfg : Cfg K) (run : RunFn K) (upd : Nat → σ → Except Err σ) :
    ∀ (evs : List (ChildEv σ)) (st st' : ChildSt σ K), childRun cfg run upd evs st = .ok st' →
      paperUpdates cfg run (updDates evs) st.now st.paper = .ok st'.paper
  | [], st, st', h => by cases h; rfl
  | .update d :: es, st, st', h => by
    simp only [childRun, childStep] at h
    obtain ⟨st1, h1, h2⟩ := bind_eq_ok h
    obtain ⟨r, _, h1⟩ := bind_eq_ok h1
    obtain ⟨p, hp, rfl⟩ := map_eq_ok h1
    have := childRun_paper cfg run upd es _ _ h2
    simp only [updDates, paperUpdates, hp, bind_ok]
    exact this
  | .op f :: es, st, st', h => by
    simp only [childRun, childStep] at h
    obtain ⟨st1, h1, h2⟩ := bind_eq_ok h
    obtain ⟨r, _, rfl⟩ := map_eq_ok h1
    have := childRun_paper cfg run upd es _ _ h2
    exact this

end child

/-! ### (2) a `run` that does nothing on a row (any row): the loop body is one update

  (Before the repair of `StrategyBase.update` this was what made calendar-gated sub-strategies agree with their
  stand-alone backtests: the shadow copy was given the whole loop body on row 0 too.  It is no longer needed for C09.) -/

theorem World.bankrupt_mk (sd : StratData K) (ks : List (Node K)) (st : Bool) :
    (World.mk (.strat sd ks) st).bankrupt = sd.bankrupt := rfl

/-- an update that returns a non-bankrupt root did not liquidate, hence moved no position -/
theorem updRoot_noDust_of_not_bankrupt {cfg : Cfg K} {d : Nat} {w w' : World K}
    (h : updRoot cfg d w = .ok w') (hb : w'.bankrupt = false) :
    NoDust cfg w'.root ↔ NoDust cfg w.root := by
  obtain ⟨root, st⟩ := w
  cases root with
  | sec s => cases h
  | strat sd kids =>
    rw [updRoot_strat] at h
    obtain ⟨⟨kids1, acc⟩, hk, h⟩ := bind_eq_ok h
    simp only at h
    by_cases hc : bankruptCond cfg (stratDateChange d sd).1 (acc.val + acc.coupons) = true
    · simp only [hc, ↓reduceIte] at h
      obtain ⟨wF, hfl, h⟩ := bind_eq_ok h
      obtain ⟨n, hn, rfl⟩ := map_eq_ok h
      obtain ⟨sdF, kidsF, hrF, hbF⟩ : RootBk wF :=
        flattenAt_inv (fun _ _ => refreshNB_rootBk) (fun _ _ _ => modify_flatF_rootBk) _ _ _ _ hfl
          ⟨_, _, rfl, rfl⟩
      rw [hrF] at hn
      obtain ⟨sd', ks', rfl, hb'⟩ := updNode_strat_bankrupt hn
      rw [World.bankrupt_mk, hb', hbF] at hb
      cases hb
    · simp only [hc, Bool.false_eq_true, ↓reduceIte] at h
      obtain ⟨n, hf, rfl⟩ := map_eq_ok h
      have hn : updNode cfg d (.strat sd kids) = .ok n := by
        rw [updNode_strat, hk, bind_ok]; exact hf
      exact updNode_noDust cfg d _ _ hn

/-- `update; if not bankrupt: run; update` with a `run` that does nothing is one `update` -/
theorem btDay_gated {cfg : Cfg K} (htol : 0 < cfg.tol) {run : RunFn K} {d : Nat} {pw : World K}
    (hnd : NoDust cfg pw.root)
    (hgate : ∀ w1, updRoot cfg d pw = .ok w1 → w1.bankrupt = false → run d w1 = .ok w1) :
    btDay cfg run d pw = updRoot cfg d pw := by
  unfold btDay
  cases h : updRoot cfg d pw with
  | error e => rfl
  | ok w1 =>
    rw [bind_ok]
    by_cases hb : w1.bankrupt = true
    · simp only [hb, ↓reduceIte]; rfl
    · have hb' : w1.bankrupt = false := by simpa using hb
      simp only [hb', Bool.false_eq_true, ↓reduceIte]
      rw [hgate w1 h hb', bind_ok]
      exact updRoot_idem_aux htol hnd ((updRoot_noDust_of_not_bankrupt h hb').2 hnd) h

/-! ### (3) the shadow copy is the stand-alone backtest -/

theorem opAdjust_root {w w' : World K} {c : K} {u f : Bool} (h : opAdjust w [] c u f = .ok w') :
    ∃ sd kids, w.root = .strat sd kids ∧
      w'.root = .strat (sd.adjust { amount := c, fee := 0, flow := f }) kids := by
  obtain ⟨root, st⟩ := w
  unfold opAdjust World.modify at h
  obtain ⟨⟨r, adjs, st'⟩, hm, rfl⟩ := map_eq_ok h
  rw [modAt.eq_1] at hm
  cases root with
  | sec s => cases hm
  | strat sd kids =>
    cases hm
    exact ⟨sd, kids, rfl, rfl⟩

theorem opAdjust_noDust {cfg : Cfg K} {w w' : World K} {c : K} {u f : Bool}
    (h : opAdjust w [] c u f = .ok w') : NoDust cfg w'.root ↔ NoDust cfg w.root := by
  obtain ⟨sd, kids, h1, h2⟩ := opAdjust_root h
  rw [h1, h2, noDust_strat, noDust_strat]

/-- **the shadow copy is the stand-alone backtest** - for every `run` (no hypothesis on what the algos do on any row,
    no hypothesis on the tree): the child's clock starts on row 0 and then runs through `ds` (never row 0 again) -/
theorem paper_eq_standalone_aux {cfg : Cfg K} {run : RunFn K} {c : K}
    {calls : List Nat} {ds : List Nat} {w0 : World K}
    (hclock : clockDates calls none = 0 :: ds) (hpos : ∀ d ∈ ds, d ≠ 0) :
    (opAdjust w0 [] c true true).bind (paperUpdates cfg run calls none) =
      btRun cfg run c (0 :: ds) w0 := by
  unfold btRun
  refine bind_congr' _ fun w _ => ?_
  rw [paperUpdates_eq_clock, hclock, paperLoop_zero_cons cfg run ds w hpos]

/-- the stand-alone backtest after a prefix of its date list is an intermediate state of the whole run -/
theorem btRun_prefix (cfg : Cfg K) (run : RunFn K) (c : K) (d0 : Nat) (ds1 ds2 : List Nat) (w0 : World K) :
    btRun cfg run c (d0 :: (ds1 ++ ds2)) w0 = (btRun cfg run c (d0 :: ds1) w0).bind (btLoop cfg run ds2) := by
  unfold btRun
  simp only
  rw [bind_assoc']
  refine bind_congr' _ fun w _ => ?_
  rw [bind_assoc']
  refine bind_congr' _ fun w' _ => ?_
  exact btLoop_append cfg run ds1 ds2 w'

/-- recorded price row of the root -/
def rootRPrice (w : World K) : List K :=
  match w.root with
  | .strat sd _ => sd.rPrice
  | .sec _ => []

theorem child_index_eq_aux {cfg : Cfg K} {run : RunFn K} {c : K}
    {calls : List Nat} {ds : List Nat} {w0 : World K}
    (hclock : clockDates calls none = 0 :: ds) (hpos : ∀ d ∈ ds, d ≠ 0)
    (ds' : List Nat) (hpre : ds' <+: ds) :
    ∃ calls1, calls1 <+: calls ∧ clockDates calls1 none = 0 :: ds' ∧
      (opAdjust w0 [] c true true).bind (paperUpdates cfg run calls1 none) =
        btRun cfg run c (0 :: ds') w0 := by
  obtain ⟨t, rfl⟩ := hpre
  obtain ⟨c1, c2, rfl, hc1⟩ := clockDates_prefix calls none (0 :: ds') t (by rw [hclock]; rfl)
  exact ⟨c1, ⟨c2, rfl⟩, hc1, paper_eq_standalone_aux hc1 fun d hd => hpos d (List.mem_append_left _ hd)⟩

/-- the other direction: whatever prefix of the calls the parent has made so far (at least one), the shadow
    copy is the stand-alone backtest over the dates seen so far -/
theorem child_index_eq_calls_aux {cfg : Cfg K} {run : RunFn K} {c : K}
    {calls : List Nat} {ds : List Nat} {w0 : World K}
    (hclock : clockDates calls none = 0 :: ds) (hpos : ∀ d ∈ ds, d ≠ 0)
    (calls1 : List Nat) (hpre : calls1 <+: calls) (hne : calls1 ≠ []) :
    ∃ ds', ds' <+: ds ∧ clockDates calls1 none = 0 :: ds' ∧
      (opAdjust w0 [] c true true).bind (paperUpdates cfg run calls1 none) =
        btRun cfg run c (0 :: ds') w0 := by
  obtain ⟨c2, rfl⟩ := hpre
  rw [clockDates_append] at hclock
  cases calls1 with
  | nil => exact absurd rfl hne
  | cons x xs =>
    have hx : clockDates (x :: xs) none = x :: clockDates xs (some x) := by simp [clockDates]
    rw [hx, List.cons_append, List.cons.injEq] at hclock
    obtain ⟨rfl, hds⟩ := hclock
    exact ⟨_, ⟨_, hds⟩, hx, paper_eq_standalone_aux hx fun d hd => hpos d (by rw [← hds]; exact List.mem_append_left _ hd)⟩

/-! ### (4) what the parent reads and records as the child's price -/

theorem stratDateChange_paper (d : Nat) (sd : StratData K) :
    (stratDateChange d sd).1.paperTrade = sd.paperTrade ∧ (stratDateChange d sd).1.paperPx = sd.paperPx ∧
    (stratDateChange d sd).1.rPrice = sd.rPrice := by
  unfold stratDateChange; split
  · exact ⟨rfl, rfl, rfl⟩
  · split <;> exact ⟨rfl, rfl, rfl⟩

theorem stratWrite_paper {cfg : Cfg K} {d : Nat} {np : Bool} {sd sd3 : StratData K} {val notl bo : K}
    (h : stratWrite cfg d np sd val notl bo = .ok sd3) :
    sd3.paperTrade = sd.paperTrade ∧ sd3.paperPx = sd.paperPx ∧ sd3.rPrice.length = sd.rPrice.length := by
  rcases stratWrite_cases h with ⟨_, rfl⟩ | ⟨_, p, rfl⟩
  · exact ⟨rfl, rfl, rfl⟩
  · unfold stratSetPrice stratSetTotals
    simp only
    split <;> simp

theorem child_price_aux {cfg : Cfg K} {d : Nat} {sd sd' : StratData K} {kids kids' : List (Node K)}
    (h : updNode cfg d (.strat sd kids) = .ok (.strat sd' kids')) (hp : sd.paperTrade = true) :
    sd'.price = sd.paperPx ∧ (d < sd.rPrice.length → sd'.rPrice[d]? = some sd.paperPx) := by
  rw [updNode_strat] at h
  obtain ⟨r, _, hf⟩ := bind_eq_ok h
  unfold stratFinish at hf
  obtain ⟨sd3, hw, hn⟩ := map_eq_ok hf
  obtain ⟨h1, h2, h3⟩ := stratWrite_paper hw
  obtain ⟨g1, g2, g3⟩ := stratDateChange_paper d sd
  simp only at h1 h2 h3
  have hpt : sd3.paperTrade = true := by rw [h1, g1, hp]
  have hpx : sd3.paperPx = sd.paperPx := by rw [h2, g2]
  have hlen : sd3.rPrice.length = sd.rPrice.length := by rw [h3, g3]
  cases hn
  unfold stratRows
  simp only [hpt, ↓reduceIte, hpx, true_and]
  intro hd
  rw [List.getElem?_set_self (by rw [hlen]; exact hd)]

/-! ### (5) algo stacks as `run` -/

section stack
variable {α : Type}

/-- `Strategy.run()` of a strategy whose algos are the stack `algos d` (the algos may read the clock) -/
def stackRun (toErr : Stack.Err → Err) (algos : Nat → List (Stack.AlgoFn (World α))) : RunFn α := fun d w =>
  match Stack.stackCall (algos d) w with
  | .ret _ w' => .ok w'
  | .raise e _ => .error (toErr e)

/-- a calendar scheduler (`RunDaily … RunYearly`) as an algo: it reads the clock, answers, touches nothing;
    an ill-formed index (duplicate label) raises -/
def periodGate {σ : Type} (k : Sched.PeriodKind) (f : Sched.Flags) (idx : List Cal.Stamp) (now : Option Cal.Stamp)
    (e : Stack.Err) : Stack.AlgoFn σ :=
  ⟨.absent, fun s => match Sched.runPeriod k f idx now with
    | .ok b => .ret b s
    | .error _ => .raise e s⟩

end stack

/-! ### fuelled evaluation of the run level (for concrete instances; `updRoot` is compiled by well-founded
    recursion, `P08.updRootF` is its structurally recursive clone without the liquidation branch) -/

section fuel
variable {α : Type}

abbrev UpdFn (α : Type) := Nat → World α → Except Err (World α)

def btDayG (upd : UpdFn α) (run : RunFn α) (d : Nat) (w : World α) : Except Err (World α) :=
  (upd d w).bind fun w1 =>
  if World.bankrupt w1 then pure w1 else (run d w1).bind fun w2 => upd d w2

def btLoopG (upd : UpdFn α) (run : RunFn α) : List Nat → World α → Except Err (World α)
  | [], w => pure w
  | d :: ds, w => (btDayG upd run d w).bind fun w' => btLoopG upd run ds w'

def paperDayG (upd : UpdFn α) (run : RunFn α) (d : Nat) (w : World α) : Except Err (World α) :=
  if d = 0 then upd d w else btDayG upd run d w

def paperUpdatesG (upd : UpdFn α) (run : RunFn α) : List Nat → Option Nat → World α → Except Err (World α)
  | [], _, pw => pure pw
  | d :: ds, now, pw =>
    (if now != some d then paperDayG upd run d pw else pure pw).bind fun pw' => paperUpdatesG upd run ds (some d) pw'

def Sound (updF upd : UpdFn α) : Prop := ∀ d w w', updF d w = .ok w' → upd d w = .ok w'

theorem btDayG_sound {updF upd : UpdFn α} (hs : Sound updF upd) {run : RunFn α} {d : Nat} {w w' : World α}
    (h : btDayG updF run d w = .ok w') : btDayG upd run d w = .ok w' := by
  unfold btDayG at h ⊢
  obtain ⟨w1, h1, h⟩ := bind_eq_ok h
  rw [hs _ _ _ h1, bind_ok]
  split at h
  · rename_i hb; simp only [hb, ↓reduceIte]; exact h
  · rename_i hb
    simp only [hb, Bool.false_eq_true, ↓reduceIte]
    obtain ⟨w2, h2, h⟩ := bind_eq_ok h
    rw [h2, bind_ok]
    exact hs _ _ _ h

theorem btLoopG_sound {updF upd : UpdFn α} (hs : Sound updF upd) {run : RunFn α} :
    ∀ (ds : List Nat) (w w' : World α), btLoopG updF run ds w = .ok w' → btLoopG upd run ds w = .ok w'
  | [], w, w', h => h
  | d :: ds, w, w', h => by
    simp only [btLoopG] at h ⊢
    obtain ⟨w1, h1, h⟩ := bind_eq_ok h
    rw [btDayG_sound hs h1, bind_ok]
    exact btLoopG_sound hs ds _ _ h

theorem paperDayG_sound {updF upd : UpdFn α} (hs : Sound updF upd) {run : RunFn α} {d : Nat} {w w' : World α}
    (h : paperDayG updF run d w = .ok w') : paperDayG upd run d w = .ok w' := by
  unfold paperDayG at h ⊢
  split at h
  · rename_i hd; simp only [hd, ↓reduceIte] at h ⊢; exact hs _ _ _ h
  · rename_i hd; simp only [hd, ↓reduceIte]; exact btDayG_sound hs h

theorem paperUpdatesG_sound {updF upd : UpdFn α} (hs : Sound updF upd) {run : RunFn α} :
    ∀ (ds : List Nat) (now : Option Nat) (w w' : World α),
      paperUpdatesG updF run ds now w = .ok w' → paperUpdatesG upd run ds now w = .ok w'
  | [], _, w, w', h => h
  | d :: ds, now, w, w', h => by
    simp only [paperUpdatesG] at h ⊢
    obtain ⟨w1, h1, h⟩ := bind_eq_ok h
    have : (if (now != some d) = true then paperDayG upd run d w else pure w) = .ok w1 := by
      by_cases hc : (now != some d) = true
      · simp only [hc, ↓reduceIte] at h1 ⊢
        exact paperDayG_sound hs h1
      · simp only [hc, Bool.false_eq_true, ↓reduceIte] at h1 ⊢
        exact h1
    rw [this, bind_ok]
    exact paperUpdatesG_sound hs ds _ _ _ h

end fuel

section fuelK

theorem btDay_eq_G (cfg : Cfg K) (run : RunFn K) : btDay cfg run = btDayG (updRoot cfg) run := rfl

theorem btLoop_eq_G (cfg : Cfg K) (run : RunFn K) :
    ∀ (ds : List Nat) (w : World K), btLoop cfg run ds w = btLoopG (updRoot cfg) run ds w
  | [], w => rfl
  | d :: ds, w => by
    simp only [btLoop, btLoopG, btDay_eq_G]
    exact bind_congr' _ fun w' _ => btLoop_eq_G cfg run ds w'

theorem paperDay_eq_G (cfg : Cfg K) (run : RunFn K) : paperDay cfg run = paperDayG (updRoot cfg) run := rfl

theorem paperUpdates_eq_G (cfg : Cfg K) (run : RunFn K) :
    ∀ (ds : List Nat) (now : Option Nat) (w : World K),
      paperUpdates cfg run ds now w = paperUpdatesG (updRoot cfg) run ds now w
  | [], _, w => rfl
  | d :: ds, now, w => by
    simp only [paperUpdates, paperUpdatesG, paperStep, paperDay_eq_G]
    exact bind_congr' _ fun w' _ => paperUpdates_eq_G cfg run ds (some d) w'

theorem updRootF_Sound (cfg : Cfg K) (f : Nat) : Sound (fun d w => updRootF cfg d f w) (updRoot cfg) :=
  fun _ _ _ h => updRootF_sound h

/-- `Backtest.run` with the fuelled update -/
def btRunF (cfg : Cfg K) (f : Nat) (run : RunFn K) (c : K) (dates : List Nat) (w0 : World K) : Except Err (World K) :=
  match dates with
  | [] => throw Err.badPath
  | d0 :: ds =>
    (opAdjust w0 [] c true true).bind fun w1 =>
    (updRootF cfg d0 f w1).bind fun w2 => btLoopG (fun d w => updRootF cfg d f w) run ds w2

theorem btRunF_sound {cfg : Cfg K} {f : Nat} {run : RunFn K} {c : K} {dates : List Nat} {w0 w' : World K}
    (h : btRunF cfg f run c dates w0 = .ok w') : btRun cfg run c dates w0 = .ok w' := by
  cases dates with
  | nil => cases h
  | cons d0 ds =>
    simp only [btRunF] at h
    obtain ⟨w1, h1, h⟩ := bind_eq_ok h
    obtain ⟨w2, h2, h⟩ := bind_eq_ok h
    simp only [btRun]
    rw [h1, bind_ok, updRootF_sound h2, bind_ok, btLoop_eq_G]
    exact btLoopG_sound (updRootF_Sound cfg f) ds _ _ h

theorem btDayF_sound {cfg : Cfg K} {f : Nat} {run : RunFn K} {d : Nat} {w w' : World K}
    (h : btDayG (fun d w => updRootF cfg d f w) run d w = .ok w') : btDay cfg run d w = .ok w' := by
  rw [btDay_eq_G]; exact btDayG_sound (updRootF_Sound cfg f) h

theorem paperDayF_sound {cfg : Cfg K} {f : Nat} {run : RunFn K} {d : Nat} {w w' : World K}
    (h : paperDayG (fun d w => updRootF cfg d f w) run d w = .ok w') : paperDay cfg run d w = .ok w' := by
  rw [paperDay_eq_G]; exact paperDayG_sound (updRootF_Sound cfg f) h

theorem paperUpdatesF_sound {cfg : Cfg K} {f : Nat} {run : RunFn K} {ds : List Nat} {now : Option Nat}
    {w w' : World K} (h : paperUpdatesG (fun d w => updRootF cfg d f w) run ds now w = .ok w') :
    paperUpdates cfg run ds now w = .ok w' := by
  rw [paperUpdates_eq_G]; exact paperUpdatesG_sound (updRootF_Sound cfg f) _ _ _ _ h

end fuelK

end Bt.P09
