import Bt.Proofs.C08RowsUpd
/-! C08: recorded rows under trading operations (`transact`, `allocate`, `flatten`, …) and under the
    public operations on a `World`. -/
set_option linter.unusedSectionVars false
namespace Bt.P08
open Bt

variable {K : Type} [Field K] [LinearOrder K] [IsStrictOrderedRing K] [HasFloor K]

/-! ### clocks of a tree -/

mutual
/-- every strategy of the tree that has a clock has it inside `P` -/
def NowsIn (P : Nat → Prop) : Node K → Prop
  | .sec _ => True
  | .strat sd ks => (∀ d, sd.now = some d → P d) ∧ NowsInL P ks
def NowsInL (P : Nat → Prop) : List (Node K) → Prop
  | [] => True
  | k :: ks => NowsIn P k ∧ NowsInL P ks
end

mutual
theorem nowsIn_all {P : Nat → Prop} (hP : ∀ d, P d) : (n : Node K) → NowsIn P n
  | .sec _ => by simp [NowsIn]
  | .strat sd ks => by simp only [NowsIn]; exact ⟨fun d _ => hP d, nowsInL_all hP ks⟩
theorem nowsInL_all {P : Nat → Prop} (hP : ∀ d, P d) : (ks : List (Node K)) → NowsInL P ks
  | [] => by simp [NowsInL]
  | k :: ks => by simp only [NowsInL]; exact ⟨nowsIn_all hP k, nowsInL_all hP ks⟩
end

/-! ### securities -/

theorem secRefresh_frozen {P : Nat → Prop} {cfg : Cfg K} {pnow : Option Nat} {s s' : SecData K}
    (hp : ∀ d, pnow = some d → P d) (h : secRefresh cfg pnow s = .ok s') : SecFrozen P s s' := by
  unfold secRefresh at h
  split at h
  · cases pnow with
    | none => cases h
    | some d => exact secUpdate_frozen (hp d rfl) h
  · cases h; exact .refl P _

/-- `transact` proper touches no row at all -/
theorem secTransactCore_frozen (P : Nat → Prop) {cfg : Cfg K} {comm : K → K → K} {s : SecData K} {q : K}
    {custom : Option K} {r : SecData K × Option (Adj K)}
    (h : secTransactCore cfg comm s q custom = .ok r) : SecFrozen P s r.1 := by
  unfold secTransactCore at h
  split at h
  · cases h; exact .refl P _
  · split at h
    · cases h
    · obtain ⟨⟨full, outlay, fee, bo⟩, _, h⟩ := bind_eq_ok h
      cases h
      constructor <;> simp

theorem secTransact_frozen {P : Nat → Prop} {cfg : Cfg K} {pnow : Option Nat} {comm : K → K → K}
    {s : SecData K} {q : K} {u : Bool} {custom : Option K} {r : SecData K × Option (Adj K)}
    (hp : ∀ d, pnow = some d → P d) (h : secTransact cfg pnow comm s q u custom = .ok r) :
    SecFrozen P s r.1 := by
  unfold secTransact at h
  obtain ⟨s1, h1, h2⟩ := bind_eq_ok h
  refine SecFrozen.trans ?_ (secTransactCore_frozen P h2)
  split at h1
  · exact secRefresh_frozen hp h1
  · cases h1; exact .refl P _

theorem secAllocate_frozen {P : Nat → Prop} {cfg : Cfg K} {pnow : Option Nat} {comm : K → K → K}
    {s : SecData K} {amount : K} {r : SecData K × Option (Adj K)}
    (hp : ∀ d, pnow = some d → P d) (h : secAllocate cfg pnow comm s amount = .ok r) :
    SecFrozen P s r.1 := by
  unfold secAllocate at h
  obtain ⟨s1, h1, h⟩ := bind_eq_ok h
  obtain ⟨oq, _, h⟩ := bind_eq_ok h
  refine SecFrozen.trans (secRefresh_frozen hp h1) ?_
  cases oq with
  | none => cases h; exact .refl P _
  | some q => exact secTransactCore_frozen P h

/-! ### allocate / transact pushed down a tree -/

theorem foldl_adjust_now (adjs : List (Adj K)) (sd : StratData K) :
    (adjs.foldl StratData.adjust sd).now = sd.now := by
  induction adjs generalizing sd with
  | nil => rfl
  | cons a as ih => rw [List.foldl_cons, ih]; rfl

mutual
/-- `allocate` pushed into a node writes rows only at the clock of the parent of the security
    it reaches (through that security's own refresh) -/
theorem allocNode_frozen {P : Nat → Prop} {cfg : Cfg K} :
    (n : Node K) → ∀ (pnow : Option Nat) (comm : K → K → K) (amount : K) r,
      (∀ d, pnow = some d → P d) → NowsIn P n →
      allocNode cfg pnow comm amount n = .ok r → Frozen P n r.1
  | .sec s, pnow, comm, amount, r, hp, _, h => by
    rw [allocNode.eq_1] at h
    obtain ⟨⟨s', a⟩, hs, rfl⟩ := map_eq_ok h
    simpa using secAllocate_frozen hp hs
  | .strat sd kids, pnow, comm, amount, r, _, hn, h => by
    rw [allocNode.eq_2] at h
    obtain ⟨⟨sd2, kids2⟩, hk, rfl⟩ := map_eq_ok h
    simp only [NowsIn] at hn
    obtain ⟨h1, -, h3⟩ := allocKids_frozen kids amount (sd.adjust _) _ _ hn.1 hn.2 hk
    simp only [frozen_strat]
    exact ⟨(adjust_frozen P sd _).trans h1, h3⟩

theorem allocKids_frozen {P : Nat → Prop} {cfg : Cfg K} :
    (ks : List (Node K)) → ∀ (amount : K) (sd sd' : StratData K) ks',
      (∀ d, sd.now = some d → P d) → NowsInL P ks →
      allocKids cfg amount ks sd = .ok (sd', ks') →
      StratFrozen P sd sd' ∧ sd'.now = sd.now ∧ FrozenL P ks ks'
  | [], amount, sd, sd', ks', _, _, h => by
    rw [allocKids.eq_1] at h; cases h
    exact ⟨.refl P _, rfl, by simp⟩
  | k :: ks, amount, sd, sd', ks', hp, hn, h => by
    rw [allocKids.eq_2] at h
    obtain ⟨⟨k', adjs⟩, hk, h⟩ := bind_eq_ok h
    obtain ⟨⟨sd2, ks2⟩, hrest, hr⟩ := map_eq_ok h
    cases hr
    simp only [NowsInL] at hn
    have hk' := allocNode_frozen k _ _ _ _ hp hn.1 hk
    obtain ⟨h1, h2, h3⟩ := allocKids_frozen ks amount _ _ _
      (by rw [foldl_adjust_now]; exact hp) hn.2 hrest
    refine ⟨(foldl_adjust_frozen P adjs sd).trans h1, by rw [h2, foldl_adjust_now], ?_⟩
    simp only [frozenL_cons]
    exact ⟨hk', h3⟩
end

mutual
theorem transNode_frozen {P : Nat → Prop} {cfg : Cfg K} :
    (n : Node K) → ∀ (pnow : Option Nat) (comm : K → K → K) (q : K) (custom : Option K) r,
      (∀ d, pnow = some d → P d) → NowsIn P n →
      transNode cfg pnow comm q custom n = .ok r → Frozen P n r.1
  | .sec s, pnow, comm, q, custom, r, hp, _, h => by
    rw [transNode.eq_1] at h
    obtain ⟨⟨s', a⟩, hs, rfl⟩ := map_eq_ok h
    simpa using secTransact_frozen hp hs
  | .strat sd kids, pnow, comm, q, custom, r, _, hn, h => by
    rw [transNode.eq_2] at h
    obtain ⟨⟨sd2, kids2⟩, hk, rfl⟩ := map_eq_ok h
    simp only [NowsIn] at hn
    obtain ⟨h1, -, h3⟩ := transKids_frozen kids q _ _ _ hn.1 hn.2 hk
    simp only [frozen_strat]
    exact ⟨h1, h3⟩

theorem transKids_frozen {P : Nat → Prop} {cfg : Cfg K} :
    (ks : List (Node K)) → ∀ (q : K) (sd sd' : StratData K) ks',
      (∀ d, sd.now = some d → P d) → NowsInL P ks →
      transKids cfg q ks sd = .ok (sd', ks') →
      StratFrozen P sd sd' ∧ sd'.now = sd.now ∧ FrozenL P ks ks'
  | [], q, sd, sd', ks', _, _, h => by
    rw [transKids.eq_1] at h; cases h
    exact ⟨.refl P _, rfl, by simp⟩
  | k :: ks, q, sd, sd', ks', hp, hn, h => by
    rw [transKids.eq_2] at h
    obtain ⟨⟨k', adjs⟩, hk, h⟩ := bind_eq_ok h
    obtain ⟨⟨sd2, ks2⟩, hrest, hr⟩ := map_eq_ok h
    cases hr
    simp only [NowsInL] at hn
    have hk' := transNode_frozen k _ _ _ _ _ hp hn.1 hk
    obtain ⟨h1, h2, h3⟩ := transKids_frozen ks q _ _ _
      (by rw [foldl_adjust_now]; exact hp) hn.2 hrest
    refine ⟨(foldl_adjust_frozen P adjs sd).trans h1, by rw [h2, foldl_adjust_now], ?_⟩
    simp only [frozenL_cons]
    exact ⟨hk', h3⟩
end

end Bt.P08
