import Bt.Proofs.Liquidate
/-! C16 (liquidation): `flatten` on the strategy at `path` does not move any position outside the subtree
    at `path` — unless the getter refresh in the middle of it finds the root bankrupt (then everything is
    liquidated).  Purely structural: no hypothesis on prices, dust or weights. -/
set_option linter.unusedSectionVars false
namespace Bt.P16
open Bt

variable {K : Type} [Field K] [LinearOrder K] [IsStrictOrderedRing K] [HasFloor K]

/-- every security not below `p` keeps its position (and stays where it is) -/
def Outside (p : List Nat) (n n' : Node K) : Prop :=
  ∀ q s, ¬ p <+: q → n.get? q = some (.sec s) → ∃ s', n'.get? q = some (.sec s') ∧ s'.position = s.position

theorem Outside.refl (p : List Nat) (n : Node K) : Outside p n n := fun _ s _ h => ⟨s, h, rfl⟩

theorem Outside.trans {p : List Nat} {a b c : Node K} (h1 : Outside p a b) (h2 : Outside p b c) :
    Outside p a c := by
  intro q s hq hg
  obtain ⟨s1, hg1, hp1⟩ := h1 q s hq hg
  obtain ⟨s2, hg2, hp2⟩ := h2 q s1 hq hg1
  exact ⟨s2, hg2, hp2.trans hp1⟩

/-- positions kept everywhere -/
abbrev PRel : Node K → Node K → Prop :=
  TreeRel (fun _ _ _ _ => True) (fun s s' => s'.position = s.position)

theorem PRel.outside {a b : Node K} (h : PRel a b) (p : List Nat) : Outside p a b := by
  intro q s _ hg
  obtain ⟨m', hg', hr⟩ := treeRel_get? q h hg
  cases m' with
  | strat _ _ => simp [TreeRel] at hr
  | sec s' => exact ⟨s', hg', by simpa [TreeRel] using hr⟩

theorem updNode_pRel {cfg : Cfg K} {d : Nat} {n n' : Node K} (h : updNode cfg d n = .ok n') : PRel n n' :=
  (treeRel_mono (fun _ _ _ _ _ => trivial) (fun _ _ hs => hs.position)).1 _ _ (updNode_updRel h)

/-- `modAt` at `p` leaves every security not below `p` exactly as it was -/
theorem modAt_outside {f : Option (StratData K) → Node K → Except Err (OpRes K)} :
    ∀ (p : List Nat) (par : Option (StratData K)) (n : Node K) (r : OpRes K), modAt f p par n = .ok r →
      ∀ q s, ¬ p <+: q → n.get? q = some (.sec s) → r.1.get? q = some (.sec s)
  | [], par, n, r, _, q, s, hq, _ => absurd (List.nil_prefix) hq
  | i :: rest, par, .sec s0, r, h, q, s, _, _ => by rw [modAt] at h; cases h
  | i :: rest, par, .strat sd kids, r, h, q, s, hq, hg => by
    rw [modAt] at h
    cases hc : kids[i]? with
    | none => rw [hc] at h; cases h
    | some c =>
      rw [hc] at h
      simp only at h
      obtain ⟨⟨c', adjs, st⟩, h1, rfl⟩ := Except.map_eq_ok h
      cases q with
      | nil => simp [Node.get?] at hg
      | cons j qrest =>
        show (Node.strat _ (kids.set i c')).get? (j :: qrest) = _
        simp only [Node.get?] at hg ⊢
        by_cases hji : j = i
        · subst hji
          have hlt : j < kids.length := by
            rcases Nat.lt_or_ge j kids.length with hl | hl
            · exact hl
            · rw [List.getElem?_eq_none hl] at hc; cases hc
          rw [List.getElem?_set_self hlt]
          rw [hc] at hg
          simp only at hg ⊢
          refine modAt_outside rest _ c _ h1 qrest s (fun hpre => hq ?_) hg
          exact List.cons_prefix_cons.2 ⟨rfl, hpre⟩
        · rw [List.getElem?_set_ne (Ne.symm hji)]
          exact hg

theorem modify_outside {f : Option (StratData K) → Node K → Except Err (OpRes K)} {w w' : World K}
    {p0 p : List Nat} (hp : p0 <+: p) (h : w.modify p f = .ok w') : Outside p0 w.root w'.root := by
  unfold World.modify at h
  obtain ⟨⟨r, adjs, st⟩, hm, rfl⟩ := Except.map_eq_ok h
  intro q s hq hg
  exact ⟨s, modAt_outside p none w.root _ hm q s (fun hpq => hq (hp.trans hpq)) hg, rfl⟩

/-! ### the recursion of `flatten` only ever modifies at paths below the one it was called on -/

section Steps
variable {cfg : Cfg K} {rf : World K → Except Err (World K)} {I : World K → Prop} {p0 : List Nat}

mutual
theorem flattenAt_steps (hrf : ∀ w w', rf w = .ok w' → I w → I w')
    (hmod : ∀ p w w', p0 <+: p → World.modify w p (P08.flatF cfg) = .ok w' → I w → I w') :
    (n : Node K) → ∀ p w w', p0 <+: p → flattenAt cfg rf n p w = .ok w' → I w → I w'
  | .sec s, p, w, w', _, h, _ => by rw [flattenAt.eq_1] at h; cases h
  | .strat sd0 kids, p, w, w', hp, h, hI => by
    rw [P08.flattenAt_strat] at h
    obtain ⟨w1, h1, h⟩ := Except.bind_eq_ok h
    have hI1 := flattenSubs_steps hrf hmod kids p 0 w w1 hp h1 hI
    split at h
    · obtain ⟨w2, h2, h⟩ := Except.bind_eq_ok h
      have hI2 : I w2 := by
        split at h2
        · exact hrf _ _ h2 hI1
        · cases (Except.pure_eq_ok h2); exact hI1
      exact hmod _ _ _ hp h hI2
    · cases h
theorem flattenSubs_steps (hrf : ∀ w w', rf w = .ok w' → I w → I w')
    (hmod : ∀ p w w', p0 <+: p → World.modify w p (P08.flatF cfg) = .ok w' → I w → I w') :
    (ks : List (Node K)) → ∀ p i w w', p0 <+: p → flattenSubs cfg rf ks p i w = .ok w' → I w → I w'
  | [], p, i, w, w', _, h, hI => by
    rw [flattenSubs.eq_1] at h; cases (Except.pure_eq_ok h); exact hI
  | .strat a a1 :: ks, p, i, w, w', hp, h, hI => by
    rw [flattenSubs.eq_2] at h
    obtain ⟨w1, h1, h⟩ := Except.bind_eq_ok h
    exact flattenSubs_steps hrf hmod ks p (i + 1) w1 w' hp h
      (flattenAt_steps hrf hmod (.strat a a1) (p ++ [i]) w w1 (hp.trans (List.prefix_append p [i])) h1 hI)
  | .sec a :: ks, p, i, w, w', hp, h, hI => by
    rw [flattenSubs.eq_3] at h
    exact flattenSubs_steps hrf hmod ks p (i + 1) w w' hp h hI
end

end Steps

/-! ### the bankruptcy flag along the run -/

theorem modify_flatF_bankrupt {cfg : Cfg K} {p : List Nat} {w w' : World K}
    (h : World.modify w p (P08.flatF cfg) = .ok w') : w'.bankrupt = w.bankrupt := by
  unfold World.modify at h
  obtain ⟨⟨r, adjs, st⟩, hm, rfl⟩ := Except.map_eq_ok h
  cases hr : w.root with
  | sec s =>
    rw [hr] at hm
    cases p with
    | nil => rw [modAt.eq_1] at hm; simp [P08.flatF] at hm
    | cons i rest => rw [modAt.eq_2] at hm; cases hm
  | strat sd ks =>
    rw [hr] at hm
    cases p with
    | nil =>
      rw [modAt.eq_1] at hm
      simp only [P08.flatF] at hm
      obtain ⟨⟨sd', ks'⟩, hfl, hr'⟩ := Except.map_eq_ok hm
      cases hr'
      simp only [World.bankrupt, hr]
      exact P08.flattenStrat_bankrupt hfl
    | cons i rest =>
      rw [modAt.eq_3] at hm
      split at hm
      · cases hm
      · obtain ⟨⟨k', adjs', st'⟩, _, hr'⟩ := Except.map_eq_ok hm
        cases hr'
        simp only [World.bankrupt, hr]
        exact P08.foldl_adjust_bankrupt _ _

/-- one getter refresh of a user-called `flatten`: positions are kept and the flag is unchanged, or the
    flag goes from unset to set (a liquidation) -/
theorem refresh_flag_or_pRel {cfg : Cfg K} {w w' : World K} (h : refresh cfg w = .ok w') :
    (PRel w.root w'.root ∧ w'.bankrupt = w.bankrupt) ∨ (w.bankrupt = false ∧ w'.bankrupt = true) := by
  rcases refresh_inv h with ⟨_, rfl⟩ | ⟨_, d, _, hu⟩
  · exact Or.inl ⟨(treeRel_refl (P := fun _ _ _ _ => True) (S := fun s s' => s'.position = s.position)
      (fun _ _ => trivial) (fun _ => rfl)).1 _, rfl⟩
  · obtain ⟨_, n0, hn, hc⟩ := updRoot_inv hu
    rcases hc with rfl | hc
    · left
      refine ⟨updNode_pRel hn, ?_⟩
      cases hr : w.root with
      | sec s =>
        rw [hr] at hn
        obtain ⟨s', _, hs'⟩ := updNode_sec_inv hn
        simp [World.bankrupt, hr, hs']
      | strat sd ks =>
        rw [hr] at hn
        obtain ⟨sd', ks', hs', hbk⟩ := P08.updNode_strat_bankrupt hn
        simp only [World.bankrupt, hr, hs']
        exact hbk
    · right
      obtain ⟨sd, kids, kids1, acc, wF, hr, _, _, hb, _, _, hfl, rfl⟩ := hc
      refine ⟨by simp only [World.bankrupt, hr]; exact hb, ?_⟩
      obtain ⟨sdF, kidsF, hrF, hbF⟩ : P08.RootBk wF :=
        P08.flattenAt_inv (fun _ _ => P08.refreshNB_rootBk) (fun _ _ _ => P08.modify_flatF_rootBk) _ _ _ _ hfl
          ⟨_, _, rfl, rfl⟩
      rw [hrF] at hn
      obtain ⟨sd', ks', hs', hbk⟩ := P08.updNode_strat_bankrupt hn
      simp only [World.bankrupt, hs']
      rw [hbk, hbF]

/-- **`flatten` on the strategy at `path` leaves every position outside that subtree untouched**,
    provided the bankruptcy flag of the root is the same before and after (i.e. no getter refresh during
    the call found the root bankrupt and liquidated the tree). -/
theorem opFlatten_outside {cfg : Cfg K} {w w' : World K} {path : List Nat}
    (h : opFlatten cfg w path = .ok w') (hb : w'.bankrupt = w.bankrupt) : Outside path w.root w'.root := by
  unfold opFlatten at h
  cases hg : w.root.get? path with
  | none => rw [hg] at h; cases h
  | some n =>
    rw [hg] at h
    simp only at h
    have key := flattenAt_steps (p0 := path)
      (I := fun w1 => (w.bankrupt = false ∧ w1.bankrupt = true) ∨
        (Outside path w.root w1.root ∧ w1.bankrupt = w.bankrupt))
      (fun w1 w2 hr hI => by
        rcases hI with ⟨h0, h1⟩ | ⟨ho, hf⟩
        · left
          refine ⟨h0, ?_⟩
          rcases refresh_flag_or_pRel hr with ⟨_, hf2⟩ | ⟨hf1, _⟩
          · rw [hf2, h1]
          · rw [h1] at hf1; cases hf1
        · rcases refresh_flag_or_pRel hr with ⟨hp, hf2⟩ | ⟨hf1, hf2⟩
          · exact Or.inr ⟨ho.trans (hp.outside path), hf2.trans hf⟩
          · exact Or.inl ⟨by rw [← hf, hf1], hf2⟩)
      (fun p w1 w2 hp hm hI => by
        have hfb := modify_flatF_bankrupt hm
        rcases hI with ⟨h0, h1⟩ | ⟨ho, hf⟩
        · exact Or.inl ⟨h0, by rw [hfb, h1]⟩
        · exact Or.inr ⟨ho.trans (modify_outside hp hm), hfb.trans hf⟩)
      n path w w' (List.prefix_refl _) h (Or.inr ⟨Outside.refl _ _, rfl⟩)
    rcases key with ⟨h0, h1⟩ | ⟨ho, _⟩
    · rw [hb, h0] at h1; cases h1
    · exact ho

end Bt.P16
