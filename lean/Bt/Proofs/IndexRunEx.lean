import Bt.Proofs.IndexRun
import Bt.Proofs.FlagsEval
/-! Concrete `Rat` fixtures and their evaluation (by the fuelled evaluators and `decide +kernel`) for the
    `example`s and witnesses of `Bt.Props.C03_run`. -/
set_option linter.unusedSectionVars false
namespace Bt.P03.Ex
open Bt Bt.P03

def cfgR : Cfg Rat := { tol := 1/1000, par := 100, atol := 1/100000000, half := 1/2, one := 1, iterCap := 10000 }

/-- one plain security, fractional: NaN on the synthetic row 0, then 10, 11, 12 -/
def secR : SecData Rat :=
  { name := "a", kind := .plain, fixedIncome := false, integer := false, bidofferSet := false, mult := 1,
    now := none, price := none, value := 0, notl := 0, weight := 0, position := 0, lastPos := 0,
    outlayAcc := 0, bidoffer := some 0, bidofferPaid := 0, capital := 0, coupon := 0, holdingCost := 0,
    needupdate := true, prices := [none, some 10, some 11, some 12], bidoffers := [], coupons := [],
    costLong := none, costShort := none,
    rValue := [0, 0, 0, 0], rPosition := [0, 0, 0, 0], rNotl := [0, 0, 0, 0], rOutlay := [0, 0, 0, 0],
    rBidofferPaid := [0, 0, 0, 0], rCoupon := [0, 0, 0, 0], rHolding := [0, 0, 0, 0] }

/-- a root fresh from `setup` (price = PAR, clock unset, nothing recorded) -/
def stratR : StratData Rat :=
  { name := "root", fixedIncome := false, bidofferSet := false, paperTrade := false, paperPx := 100,
    comm := fun _ _ => 0, now := none, capital := 0, price := 100, value := 0, notl := 0, weight := 0,
    netFlows := 0, lastValue := 0, lastNotl := 0, lastPrice := 100, lastFee := 0, bidofferPaid := 0,
    bankrupt := false, rPrice := [0, 0, 0, 0], rValue := [0, 0, 0, 0], rNotl := [0, 0, 0, 0],
    rCash := [0, 0, 0, 0], rFees := [0, 0, 0, 0], rFlows := [0, 0, 0, 0], rBidofferPaid := [0, 0, 0, 0] }

/-- root + one security -/
def w0R : World Rat := ⟨.strat stratR [.sec secR], false⟩
/-- a cash-only root -/
def wCashR : World Rat := ⟨.strat stratR [], false⟩

/-- row 1: buy for 500; row 2: a capital flow of +200 (after the date's P&L); row 3: a fee of 10 (non-flow) -/
def runR : RunFn Rat := fun d w =>
  if d == 1 then opAllocate cfgR w [0] 500 true
  else if d == 2 then opAdjust w [] 200 true true
  else if d == 3 then opAdjust w [] (-10) true false
  else .ok w

/-- a flow of +50 and a non-flow of −50 on the same date: the value does not move, the base does -/
def runQuietR : RunFn Rat := fun _ w =>
  (opAdjust w [] 50 true true).bind fun w1 => opAdjust w1 [] (-50) true false

/-- flows only: +250 on row 1, −400 on row 2 -/
def runFlowsR : RunFn Rat := fun d w =>
  if d == 1 then opAdjust w [] 250 true true else if d == 2 then opAdjust w [] (-400) true true else .ok w

/-- a flow smaller than `TOL` on row 1 -/
def runSubR : RunFn Rat := fun d w => if d == 1 then opAdjust w [] (1/2000) true true else .ok w

def updR : P09.UpdFn Rat := fun d w => P08.updRootF cfgR d 2 w

theorem runR_public : P04.RunPublic cfgR runR := by
  intro d w w2 hw h
  unfold runR at h
  split at h
  · exact P04.runPublic_allocate [0] 500 true d w w2 hw h
  · split at h
    · exact P04.runPublic_adjust [] 200 true true d w w2 hw h
    · split at h
      · exact P04.runPublic_adjust [] (-10) true false d w w2 hw h
      · exact P04.runPublic_id d w w2 hw h

theorem runQuietR_public : P04.RunPublic cfgR runQuietR :=
  P04.runPublic_seq (P04.runPublic_adjust [] 50 true true) (P04.runPublic_adjust [] (-50) true false)

theorem runFlowsR_flow : FlowPublic cfgR runFlowsR := by
  intro d w w2 _ h
  unfold runFlowsR at h
  split at h
  · exact .cons (.adjust [] 250 true true (fun _ => rfl) h) (.nil _)
  · split at h
    · exact .cons (.adjust [] (-400) true true (fun _ => rfl) h) (.nil _)
    · cases h; exact .nil _

theorem runSubR_flow : FlowPublic cfgR runSubR := by
  intro d w w2 _ h
  unfold runSubR at h
  split at h
  · exact .cons (.adjust [] (1/2000) true true (fun _ => rfl) h) (.nil _)
  · cases h; exact .nil _

/-! ### reading figures off a world -/

/-- price, value, net flows, last value, last price of the root -/
def figN (w : World Rat) : List Rat :=
  match w.root with
  | .strat sd _ => [sd.price, sd.value, sd.netFlows, sd.lastValue, sd.lastPrice]
  | .sec _ => []
/-- `fixedIncome`, `paperTrade`, `bankrupt` of the root -/
def figB (w : World Rat) : List Bool :=
  match w.root with
  | .strat sd _ => [sd.fixedIncome, sd.paperTrade, sd.bankrupt]
  | .sec _ => []
/-- the recorded price / value / flows / cash rows of the root -/
def figRows (w : World Rat) : List (List Rat) :=
  match w.root with
  | .strat sd _ => [sd.rPrice, sd.rValue, sd.rFlows, sd.rCash]
  | .sec _ => []
/-- the cash of the root -/
def figCap (w : World Rat) : Rat :=
  match w.root with
  | .strat sd _ => sd.capital
  | .sec _ => 0

theorem figCap_strat {w : World Rat} {sd : StratData Rat} {kids : List (Node Rat)}
    (hr : w.root = .strat sd kids) : figCap w = sd.capital := by
  unfold figCap; rw [hr]

def figKids (w : World Rat) : Nat :=
  match w.root with
  | .strat _ ks => ks.length
  | .sec _ => 0

theorem fig_strat {w : World Rat} {p v f lv lp : Rat} {b1 b2 b3 : Bool} (h : figN w = [p, v, f, lv, lp])
    (hb : figB w = [b1, b2, b3]) {n : Option Nat} (hn : w.root.now = n) :
    ∃ sd kids, w.root = .strat sd kids ∧ sd.price = p ∧ sd.value = v ∧ sd.netFlows = f ∧ sd.lastValue = lv ∧
      sd.lastPrice = lp ∧ sd.fixedIncome = b1 ∧ sd.paperTrade = b2 ∧ sd.bankrupt = b3 ∧ sd.now = n := by
  unfold figN at h
  unfold figB at hb
  split at h
  · rename_i sd kids hr
    rw [hr] at hb hn
    simp only [List.cons.injEq, and_true] at h hb
    exact ⟨sd, kids, hr, h.1, h.2.1, h.2.2.1, h.2.2.2.1, h.2.2.2.2, hb.1, hb.2.1, hb.2.2, hn⟩
  · cases h

theorem figRows_strat {w : World Rat} {a b c e : List Rat} (h : figRows w = [a, b, c, e]) :
    ∃ sd kids, w.root = .strat sd kids ∧ sd.rPrice = a ∧ sd.rValue = b ∧ sd.rFlows = c ∧ sd.rCash = e := by
  unfold figRows at h
  split at h
  · rename_i sd kids hr
    simp only [List.cons.injEq, and_true] at h
    exact ⟨sd, kids, hr, h.1, h.2.1, h.2.2.1, h.2.2.2⟩
  · cases h

theorem bankrupt_of_figB {w : World Rat} {b1 b2 b3 : Bool} (hb : figB w = [b1, b2, b3]) : w.bankrupt = b3 := by
  unfold figB at hb
  unfold World.bankrupt
  split at hb
  · rename_i sd kids hr
    simp only [List.cons.injEq, and_true] at hb
    rw [hr]; exact hb.2.2
  · cases hb

theorem toOption_bind {ε α β : Type} {x : Except ε α} {f : α → Except ε β} {b : β}
    (h : (x.bind f).toOption = some b) : ∃ a, x = .ok a ∧ (f a).toOption = some b := by
  cases x with
  | error e => cases h
  | ok a => exact ⟨a, rfl, h⟩

theorem toOption_map {ε α β : Type} {x : Except ε α} {f : α → β} {b : β}
    (h : (x.map f).toOption = some b) : ∃ a, x = .ok a ∧ f a = b := by
  cases x with
  | error e => cases h
  | ok a => exact ⟨a, rfl, by simpa [Except.map, Except.toOption] using h⟩

/-! ### the evaluations -/

/-- `runR`, date by date: synthetic row, row 1 (the purchase), row 2 (P&L to 1050, index 105, then the flow:
    value 1250 on base 1200, index 625/6) -/
theorem runR_eval : ∃ wS w1 w2 : World Rat, btRun cfgR runR 1000 [0] w0R = .ok wS ∧
    btDay cfgR runR 1 wS = .ok w1 ∧ btDay cfgR runR 2 w1 = .ok w2 ∧
    figN wS = [100, 1000, 1000, 0, 100] ∧ figB wS = [false, false, false] ∧ wS.root.now = some 0 ∧
    figN w1 = [100, 1000, 0, 1000, 100] ∧ figB w1 = [false, false, false] ∧ w1.root.now = some 1 ∧
    figN w2 = [625/6, 1250, 200, 1000, 100] ∧ figB w2 = [false, false, false] ∧ w2.root.now = some 2 := by
  have h0 : ((P09.btRunF cfgR 2 runR 1000 [0] w0R).bind fun wS =>
      (P09.btDayG updR runR 1 wS).bind fun w1 =>
      (P09.btDayG updR runR 2 w1).map fun w2 =>
        ([figN wS, figN w1, figN w2], [figB wS, figB w1, figB w2],
          [wS.root.now, w1.root.now, w2.root.now])).toOption =
      some ([[100, 1000, 1000, 0, 100], [100, 1000, 0, 1000, 100], [625/6, 1250, 200, 1000, 100]],
        [[false, false, false], [false, false, false], [false, false, false]], [some 0, some 1, some 2]) := by
    decide +kernel
  obtain ⟨wS, hS, h0⟩ := toOption_bind h0
  obtain ⟨w1, h1, h0⟩ := toOption_bind h0
  obtain ⟨w2, h2, h3⟩ := toOption_map h0
  simp only [Prod.mk.injEq, List.cons.injEq, and_true] at h3
  obtain ⟨⟨a1, a2, a3⟩, ⟨b1, b2, b3⟩, c1, c2, c3⟩ := h3
  exact ⟨wS, w1, w2, P09.btRunF_sound hS, P09.btDayF_sound h1, P09.btDayF_sound h2,
    a1, b1, c1, a2, b2, c2, a3, b3, c3⟩

/-- two public calls on the close of row 1: a root-level flow of +200, then a purchase for 300 -/
theorem stepsR_eval : ∃ wS w1 wa wb : World Rat, btRun cfgR runR 1000 [0] w0R = .ok wS ∧
    btDay cfgR runR 1 wS = .ok w1 ∧ opAdjust w1 [] 200 true true = .ok wa ∧
    opAllocate cfgR wa [0] 300 true = .ok wb ∧
    figN w1 = [100, 1000, 0, 1000, 100] ∧ figN wa = [100, 1000, 200, 1000, 100] ∧
    figN wb = [100, 1000, 200, 1000, 100] := by
  have h0 : ((P09.btRunF cfgR 2 runR 1000 [0] w0R).bind fun wS =>
      (P09.btDayG updR runR 1 wS).bind fun w1 =>
      (opAdjust w1 [] 200 true true).bind fun wa =>
      (opAllocate cfgR wa [0] 300 true).map fun wb => [figN w1, figN wa, figN wb]).toOption =
      some [[100, 1000, 0, 1000, 100], [100, 1000, 200, 1000, 100], [100, 1000, 200, 1000, 100]] := by
    decide +kernel
  obtain ⟨wS, hS, h0⟩ := toOption_bind h0
  obtain ⟨w1, h1, h0⟩ := toOption_bind h0
  obtain ⟨wa, ha, h0⟩ := toOption_bind h0
  obtain ⟨wb, hb, h3⟩ := toOption_map h0
  simp only [List.cons.injEq, and_true] at h3
  exact ⟨wS, w1, wa, wb, P09.btRunF_sound hS, P09.btDayF_sound h1, ha, hb, h3.1, h3.2.1, h3.2.2⟩

/-- the whole of `runR`: the recorded price / value / flows / cash rows -/
theorem runR_rows : ∃ w : World Rat, btRun cfgR runR 1000 [0, 1, 2, 3] w0R = .ok w ∧
    figRows w = [[100, 100, 625/6, 215/2], [1000, 1000, 1250, 1290], [1000, 0, 200, 0], [1000, 500, 700, 690]] ∧
    figN w = [215/2, 1290, 0, 1250, 625/6] ∧ figB w = [false, false, false] := by
  have h0 : ((P09.btRunF cfgR 2 runR 1000 [0, 1, 2, 3] w0R).map fun w =>
      (figRows w ++ [figN w], figB w)).toOption =
      some ([[100, 100, 625/6, 215/2], [1000, 1000, 1250, 1290], [1000, 0, 200, 0], [1000, 500, 700, 690],
        [215/2, 1290, 0, 1250, 625/6]], [false, false, false]) := by decide +kernel
  obtain ⟨w, hw, h3⟩ := toOption_map h0
  simp only [Prod.mk.injEq] at h3
  obtain ⟨h3, h4⟩ := h3
  refine ⟨w, P09.btRunF_sound hw, ?_, ?_, h4⟩
  · unfold figRows figN at *
    split at h3 <;> simp_all
  · unfold figRows figN at *
    split at h3 <;> simp_all

/-- the total the first update of `Backtest.run` computes on `w0R` funded with 1000 -/
theorem w0R_total (w1 : World Rat) (h : opAdjust w0R [] 1000 true true = .ok w1) :
    P16.rootTotal cfgR 0 w1 = .ok 1000 := by
  have h0 : ((opAdjust w0R [] 1000 true true).bind fun w1 => P16.rootTotalE cfgR 0 2 w1).toOption = some 1000 := by
    decide +kernel
  rw [h] at h0
  cases h1 : P16.rootTotalE cfgR 0 2 w1 with
  | error e => rw [show (Except.ok w1 : Except Err (World Rat)).bind (fun w1 => P16.rootTotalE cfgR 0 2 w1)
      = P16.rootTotalE cfgR 0 2 w1 from rfl, h1] at h0; cases h0
  | ok v =>
    rw [show (Except.ok w1 : Except Err (World Rat)).bind (fun w1 => P16.rootTotalE cfgR 0 2 w1)
      = P16.rootTotalE cfgR 0 2 w1 from rfl, h1] at h0
    have hv : v = 1000 := by simpa [Except.toOption] using h0
    subst hv
    exact P16.rootTotalE_sound h1

/-- the quiet close: after the synthetic row, row 1 with `runQuietR` — the index stays 100 on value 1000 although
    the base has moved to 1050 -/
theorem quietR_eval : ∃ wS w1 : World Rat, btRun cfgR runQuietR 1000 [0] w0R = .ok wS ∧
    btDay cfgR runQuietR 1 wS = .ok w1 ∧
    figN wS = [100, 1000, 1000, 0, 100] ∧ figB wS = [false, false, false] ∧ wS.root.now = some 0 ∧
    figN w1 = [100, 1000, 50, 1000, 100] ∧ figB w1 = [false, false, false] := by
  have h0 : ((P09.btRunF cfgR 2 runQuietR 1000 [0] w0R).bind fun wS =>
      (P09.btDayG updR runQuietR 1 wS).map fun w1 =>
        ([figN wS, figN w1], [figB wS, figB w1], [wS.root.now])).toOption =
      some ([[100, 1000, 1000, 0, 100], [100, 1000, 50, 1000, 100]],
        [[false, false, false], [false, false, false]], [some 0]) := by
    decide +kernel
  obtain ⟨wS, hS, h0⟩ := toOption_bind h0
  obtain ⟨w1, h1, h3⟩ := toOption_map h0
  simp only [Prod.mk.injEq, List.cons.injEq, and_true] at h3
  obtain ⟨⟨a1, a2⟩, ⟨b1, b2⟩, c1⟩ := h3
  exact ⟨wS, w1, P09.btRunF_sound hS, P09.btDayF_sound h1, a1, b1, c1, a2, b2⟩

/-- flows only on the cash-only root: the rows -/
theorem flowsR_rows : ∃ w : World Rat, btRun cfgR runFlowsR 1000 [0, 1, 2, 3] wCashR = .ok w ∧
    figRows w = [[100, 100, 100, 100], [1000, 1250, 850, 850], [1000, 250, -400, 0], [1000, 1250, 850, 850]] ∧
    figB w = [false, false, false] := by
  have h0 : ((P09.btRunF cfgR 2 runFlowsR 1000 [0, 1, 2, 3] wCashR).map fun w => (figRows w, figB w)).toOption =
      some ([[100, 100, 100, 100], [1000, 1250, 850, 850], [1000, 250, -400, 0], [1000, 1250, 850, 850]],
        [false, false, false]) := by decide +kernel
  obtain ⟨w, hw, h3⟩ := toOption_map h0
  simp only [Prod.mk.injEq] at h3
  exact ⟨w, P09.btRunF_sound hw, h3.1, h3.2⟩

/-- a flow below `TOL` on the cash-only root: not written on row 1 (value 1000, cash 1000.0005), and the index
    of row 2 is 100.00005 -/
theorem subR_rows : ∃ w : World Rat, btRun cfgR runSubR 1000 [0, 1, 2] wCashR = .ok w ∧
    figRows w = [[100, 100, 2000001/20000, 0], [1000, 1000, 2000001/2000, 0], [1000, 1/2000, 0, 0],
      [1000, 2000001/2000, 2000001/2000, 0]] ∧ figB w = [false, false, false] := by
  have h0 : ((P09.btRunF cfgR 2 runSubR 1000 [0, 1, 2] wCashR).map fun w => (figRows w, figB w)).toOption =
      some ([[100, 100, 2000001/20000, 0], [1000, 1000, 2000001/2000, 0], [1000, 1/2000, 0, 0],
        [1000, 2000001/2000, 2000001/2000, 0]], [false, false, false]) := by decide +kernel
  obtain ⟨w, hw, h3⟩ := toOption_map h0
  simp only [Prod.mk.injEq] at h3
  exact ⟨w, P09.btRunF_sound hw, h3.1, h3.2⟩

/-- the cash-only root after the synthetic row, and row 1 of `runFlowsR` (a flow of +250) -/
theorem flowsR_day_eval : ∃ wS w1 : World Rat, btRun cfgR runFlowsR 1000 [0] wCashR = .ok wS ∧
    btDay cfgR runFlowsR 1 wS = .ok w1 ∧
    figN wS = [100, 1000, 1000, 0, 100] ∧ figB wS = [false, false, false] ∧ wS.root.now = some 0 ∧
    figKids wS = 0 ∧ figCap wS = 1000 ∧ figN w1 = [100, 1250, 250, 1000, 100] := by
  have h0 : ((P09.btRunF cfgR 2 runFlowsR 1000 [0] wCashR).bind fun wS =>
      (P09.btDayG updR runFlowsR 1 wS).map fun w1 =>
        ([figN wS, figN w1, [figCap wS]], [figB wS], [wS.root.now, some (figKids wS)])).toOption =
      some ([[100, 1000, 1000, 0, 100], [100, 1250, 250, 1000, 100], [1000]], [[false, false, false]],
        [some 0, some 0]) := by
    decide +kernel
  obtain ⟨wS, hS, h0⟩ := toOption_bind h0
  obtain ⟨w1, h1, h3⟩ := toOption_map h0
  simp only [Prod.mk.injEq, List.cons.injEq, and_true, Option.some.injEq] at h3
  obtain ⟨⟨a1, a2, a3⟩, b1, c1, c2⟩ := h3
  exact ⟨wS, w1, P09.btRunF_sound hS, P09.btDayF_sound h1, a1, b1, c1, c2, a3, a2⟩

theorem kids_nil_of_figKids {w : World Rat} {sd : StratData Rat} {kids : List (Node Rat)}
    (hr : w.root = .strat sd kids) (h : figKids w = 0) : kids = [] := by
  unfold figKids at h
  rw [hr] at h
  exact List.eq_nil_of_length_eq_zero h

end Bt.P03.Ex
