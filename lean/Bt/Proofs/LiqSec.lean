import Bt.Proofs.C08RowsWorld
import Bt.Proofs.Alloc
import Bt.Proofs.TreeInv
/-! C16 (liquidation), security level: the hypotheses exact arithmetic needs (`SecPre` before an update
    for date `d`, `SecLiq` after it) and what `update`, `allocate(-value)` and `transact(-position)` do
    under them. -/
set_option linter.unusedSectionVars false
namespace Bt.P16
open Bt

variable {K : Type} [Field K] [LinearOrder K] [IsStrictOrderedRing K] [HasFloor K]

/-! ### predicates -/

/-- no weight strictly between `0` and `TOL` in absolute value -/
def NDW (cfg : Cfg K) (s : SecData K) : Prop := isZero cfg.tol s.weight = true → s.weight = 0

/-- **What the liquidation on date `d` needs of one security, at any moment** (before or after the
    security has been updated for `d`; preserved by `update(d)` and by the trades of the liquidation).
    Each field is a hypothesis the proof forced:

    * `nodust` — no dust position: `0 < |position| < TOL` is excluded.  Such a position is skipped by
      `transact` (`is_zero(q)`) and by `allocate` (`is_zero(q0)`), hence survives the liquidation.
    * `off` — a security the update loop skips (`needupdate = False`) is *exactly* flat (now and when last
      marked), worth nothing, of notional `0` and carries weight `0` (the engine only guarantees "within
      `TOL`").
    * `rowp` — book-keeping invariant of every reachable world: the position row at the security's own
      date holds the position as of its last update (only used for the statement about recorded rows).
    * `mark0` — book-keeping invariant of every reachable world: a security last marked at position `0`
      is worth `0` and has notional `0`.
    * `ndw` — no dust weight: `0 < |weight| < TOL` is excluded.  Excluded situation: a security worth less
      than `TOL ×` the value of its strategy.  Once sold, its next `update` switches it off
      (`is_zero(weight) and is_zero(position)`) **with the dust weight left in place**; when the parent
      then liquidates the sub-strategy by `allocate(-value)`, `amount × weight` is re-invested in it.
    * `live` — no dust value: the mark `position × price(d) × multiplier` of an open position is not
      within `TOL` of `0`.  Excludes: price exactly `0` (value `0`: the child is not even visited by
      `flatten`, the known zero-value case), multiplier `0`, and a value below `TOL`
      (`allocate` returns at once on `is_zero(amount)`).  Stated for the value the security will have
      after `update(d)`: its present value if it is already marked for `d` at its present position
      (`secEarly`), `position × price × multiplier` with the price of row `d` otherwise.
      (That a price and, when `bidofferSet`, a bid/offer entry are present need not be assumed: a NaN
      there makes `update` / `outlay` raise, and all theorems are about runs that return.) -/
structure SecPre (cfg : Cfg K) (d : Nat) (s : SecData K) : Prop where
  nodust : isZero cfg.tol s.position = true → s.position = 0
  off : s.needupdate = false → s.position = 0 ∧ s.value = 0 ∧ s.notl = 0 ∧ s.weight = 0 ∧ s.lastPos = 0
  mark0 : s.lastPos = 0 → s.value = 0 ∧ s.notl = 0
  rowp : s.now = some d → d < s.rPosition.length → s.rPosition[d]? = some s.lastPos
  ndw : NDW cfg s
  live : s.position ≠ 0 →
    (secEarly d s = true → isZero cfg.tol s.value = false) ∧
    (secEarly d s = false → ∀ p, (secDateChange d s).price = some p →
      isZero cfg.tol (s.position * p * s.mult) = false)

/-- the state `update(d)` leaves a `SecPre` security in (its weight aside) -/
structure SecLiq (cfg : Cfg K) (d : Nat) (s : SecData K) : Prop where
  open_ : s.position ≠ 0 →
    s.needupdate = true ∧ s.now = some d ∧ s.lastPos = s.position ∧ isZero cfg.tol s.value = false
  nodust : isZero cfg.tol s.position = true → s.position = 0
  mark0 : s.lastPos = 0 → s.value = 0 ∧ s.notl = 0
  off : s.needupdate = false → s.value = 0 ∧ s.weight = 0
  settled : s.position = 0 → s.value = 0 ∧ s.notl = 0
  last : s.lastPos = s.position
  rowp : s.now = some d → d < s.rPosition.length → s.rPosition[d]? = some s.lastPos

theorem SecLiq.pre {cfg : Cfg K} {d : Nat} {s : SecData K} (h : SecLiq cfg d s) (hw : NDW cfg s) :
    SecPre cfg d s := by
  refine ⟨h.nodust, ?_, h.mark0, h.rowp, hw, ?_⟩
  · intro hn
    have hp0 : s.position = 0 := by
      by_contra hp
      rw [(h.open_ hp).1] at hn; cases hn
    exact ⟨hp0, (h.off hn).1, (h.settled hp0).2, (h.off hn).2, by rw [h.last, hp0]⟩
  · intro hp
    obtain ⟨_, hnow, hlp, hv⟩ := h.open_ hp
    have he : secEarly d s = true := (secEarly_true_iff d s).2 ⟨hnow, hlp⟩
    exact ⟨fun _ => hv, fun hf => by rw [he] at hf; cases hf⟩

theorem SecLiq.setWeight {cfg : Cfg K} {d : Nat} {s : SecData K} (h : SecLiq cfg d s)
    (hn : s.needupdate = true) (w : K) : SecLiq cfg d { s with weight := w } :=
  ⟨h.open_, h.nodust, h.mark0, fun hf => (by
    have hf' : s.needupdate = false := hf
    rw [hn] at hf'; cases hf'), h.settled, h.last, h.rowp⟩

theorem SecPre.capital {cfg : Cfg K} {d : Nat} {s : SecData K} (h : SecPre cfg d s) (c : K) :
    SecPre cfg d { s with capital := c } := by
  have he : secEarly d { s with capital := c } = secEarly d s := rfl
  have hp : (secDateChange d { s with capital := c }).price = (secDateChange d s).price := by
    unfold secDateChange; split <;> rfl
  exact ⟨h.nodust, h.off, h.mark0, h.rowp, h.ndw, fun hpos => by rw [he, hp]; exact h.live hpos⟩

theorem SecPre.sweep {cfg : Cfg K} {d : Nat} {s : SecData K} (h : SecPre cfg d s) (newpt : Bool)
    (acc : Acc K) : SecPre cfg d (sweepSec newpt s acc).1 := by
  rw [sweepSec_fst]; split
  · exact h.capital 0
  · exact h

/-! ### `update(d)` -/

theorem secUpdate_notl_zero {cfg : Cfg K} {d : Nat} {s s1 : SecData K} (h : secUpdate cfg d s = .ok s1)
    (hp : s1.position = 0) (hpl : s.kind = .plain → s1.notl = 0) : s1.notl = 0 := by
  have hk := secUpdate_notl_kind h
  cases hkind : s.kind
  · exact hpl hkind
  · rw [hk.1 (Or.inl hkind), hp]
  · rw [hk.1 (Or.inr hkind), hp]
  · exact hk.2 (Or.inl hkind)
  · exact hk.2 (Or.inr hkind)

/-- one `update(d)` of a security: position and weight are kept, `SecPre` becomes `SecLiq` -/
theorem secUpdate_liq {cfg : Cfg K} {d : Nat} {s s1 : SecData K} (hpre : SecPre cfg d s)
    (h : secUpdate cfg d s = .ok s1) :
    SecLiq cfg d s1 ∧ s1.position = s.position ∧ s1.weight = s.weight := by
  have hf := secUpdate_frame h
  obtain ⟨sb, hb, ht⟩ := secUpdate_base h
  refine ⟨?_, hf.position, hf.weight⟩
  cases hE : secEarly d s
  · -- a real update
    have fr := secBaseUpdate_fresh hE hb
    have hnu : s1.needupdate =
        (if (isZero cfg.tol s.weight && isZero cfg.tol s.position) = true then false else s.needupdate) := by
      rw [ht.needupdate, fr.needupdate]
    have hlp : s1.lastPos = s.position := by rw [ht.lastPos, fr.lastPos]
    have hmk := secMarkValue_inv fr.marks
    simp only [secRecordPos_price, secRecordPos_position, secDateChange_position, secRecordPos_mult,
      secDateChange_mult] at hmk
    rw [← ht.value] at hmk
    have hv0 : s.position = 0 → s1.value = 0 := by
      intro hp
      rcases hmk with ⟨p, _, hv⟩ | ⟨_, hv, _⟩
      · rw [hv, hp]; simp
      · exact hv
    have hn0 : s.position = 0 → s1.notl = 0 := by
      intro hp
      refine secUpdate_notl_zero h (by rw [hf.position, hp]) (fun hk => ?_)
      have hb' := secUpdate_notl_plain h hk
      rw [(secBaseUpdate_fresh hE hb').notl]; exact hv0 hp
    refine ⟨?_, ?_, ?_, ?_, ?_, by rw [hlp, hf.position], ?_⟩
    · intro hp1
      have hp : s.position ≠ 0 := by rwa [hf.position] at hp1
      have hz : isZero cfg.tol s.position = false := by
        cases hzz : isZero cfg.tol s.position
        · rfl
        · exact absurd (hpre.nodust hzz) hp
      have hn : s.needupdate = true := by
        cases hnn : s.needupdate
        · exact absurd (hpre.off hnn).1 hp
        · rfl
      refine ⟨by rw [hnu, hz, hn]; simp, by rw [ht.now, fr.now], by rw [hlp, hf.position], ?_⟩
      rcases hmk with ⟨p, hpp, hv⟩ | ⟨_, _, hzz⟩
      · rw [hv]; exact (hpre.live hp).2 hE p hpp
      · rw [hz] at hzz; cases hzz
    · rw [hf.position]; exact hpre.nodust
    · intro hl
      rw [hlp] at hl
      exact ⟨hv0 hl, hn0 hl⟩
    · intro hn1
      rw [hnu] at hn1
      rw [hf.weight]
      split at hn1
      · rename_i hc
        simp only [Bool.and_eq_true] at hc
        exact ⟨hv0 (hpre.nodust hc.2), hpre.ndw hc.1⟩
      · exact ⟨hv0 (hpre.off hn1).1, (hpre.off hn1).2.2.2.1⟩
    · intro hp1
      rw [hf.position] at hp1
      exact ⟨hv0 hp1, hn0 hp1⟩
    · intro _ hlen
      rw [hf.lenPosition] at hlen
      rw [ht.rPosition, fr.rPosition, hlp, List.getElem?_set_self hlen]
  · -- the early return: nothing but the class-specific tail
    rw [secBaseUpdate_early hE] at hb
    cases hb
    obtain ⟨hnow, hlp⟩ := (secEarly_true_iff d s).mp hE
    have hn0 : s.lastPos = 0 → s1.notl = 0 := by
      intro hl
      refine secUpdate_notl_zero h (by rw [hf.position, ← hlp, hl]) (fun hk => ?_)
      have hb' := secUpdate_notl_plain h hk
      rw [secBaseUpdate_early hE] at hb'
      cases hb'
      exact (hpre.mark0 hl).2
    refine ⟨?_, ?_, ?_, ?_, ?_, by rw [ht.lastPos, hlp, hf.position], ?_⟩
    · intro hp1
      have hp : s.position ≠ 0 := by rwa [hf.position] at hp1
      have hn : s.needupdate = true := by
        cases hnn : s.needupdate
        · exact absurd (hpre.off hnn).1 hp
        · rfl
      exact ⟨by rw [ht.needupdate, hn], by rw [ht.now, hnow], by rw [ht.lastPos, hlp, hf.position],
        by rw [ht.value]; exact (hpre.live hp).1 hE⟩
    · rw [hf.position]; exact hpre.nodust
    · intro hl
      rw [ht.lastPos] at hl
      exact ⟨by rw [ht.value]; exact (hpre.mark0 hl).1, hn0 hl⟩
    · intro hn1
      rw [ht.needupdate] at hn1
      rw [ht.value, hf.weight]
      exact ⟨(hpre.off hn1).2.1, (hpre.off hn1).2.2.2.1⟩
    · intro hp1
      rw [hf.position, ← hlp] at hp1
      exact ⟨by rw [ht.value]; exact (hpre.mark0 hp1).1, hn0 hp1⟩
    · intro _ hlen
      rw [hf.lenPosition] at hlen
      rw [ht.rPosition, ht.lastPos]
      exact hpre.rowp hnow hlen

/-- an up-to-date open position is not touched by a further `update(d)` as far as the liquidation
    reads it: same value, position, needupdate -/
theorem secUpdate_fresh_value {cfg : Cfg K} {d : Nat} {s s1 : SecData K}
    (hnow : s.now = some d) (hlp : s.lastPos = s.position) (h : secUpdate cfg d s = .ok s1) :
    s1.value = s.value := by
  obtain ⟨sb, hb, ht⟩ := secUpdate_base h
  have hE : secEarly d s = true := (secEarly_true_iff d s).2 ⟨hnow, hlp⟩
  rw [secBaseUpdate_early hE] at hb
  cases hb
  exact ht.value

/-- the refresh at the head of `allocate` / `transact`, parent at date `d` -/
theorem secRefresh_liq {cfg : Cfg K} {d : Nat} {s s1 : SecData K} (hpre : SecPre cfg d s)
    (h : secRefresh cfg (some d) s = .ok s1) :
    SecPre cfg d s1 ∧ s1.position = s.position ∧ s1.weight = s.weight := by
  unfold secRefresh at h
  split at h
  · obtain ⟨hl, hp, hw⟩ := secUpdate_liq hpre h
    exact ⟨hl.pre (by unfold NDW; rw [hw]; exact hpre.ndw), hp, hw⟩
  · cases h; exact ⟨hpre, rfl, rfl⟩

/-! ### closing trades -/

/-- what a closing trade leaves: flat, flagged for update, everything else as it was -/
theorem SecPre.closed {cfg : Cfg K} {d : Nat} {s : SecData K} (h : SecPre cfg d s) (oa bo : K) :
    SecPre cfg d { s with needupdate := true, position := 0, outlayAcc := oa, bidofferPaid := bo } :=
  ⟨fun _ => rfl, fun hn => (by cases hn), h.mark0, h.rowp, h.ndw, fun hp => absurd rfl hp⟩

/-- `transact(-position)` on a refreshed security closes it (any commission, any spread), provided
    the position is not dust -/
theorem secTransactCore_close {cfg : Cfg K} {d : Nat} {comm : K → K → K} {s s' : SecData K}
    {a : Option (Adj K)} (hpre : SecPre cfg d s) (hp : s.position ≠ 0)
    (h : secTransactCore cfg comm s (-s.position) none = .ok (s', a)) :
    s'.position = 0 ∧ SecPre cfg d s' ∧ s'.weight = s.weight := by
  have hz : isZero cfg.tol (-s.position) = false := by
    rw [Alloc.isZero_neg]
    cases hzz : isZero cfg.tol s.position
    · rfl
    · exact absurd (hpre.nodust hzz) hp
  rcases secTransactCore_inv h with ⟨rfl, _⟩ | ⟨oa, bo, rfl, _, _⟩
  · have := (Alloc.secTransactCore_ok cfg comm s' _ _ hz h).1
    simp only [add_neg_cancel] at this
    exact absurd this hp
  · refine ⟨add_neg_cancel _, ?_, rfl⟩
    rw [add_neg_cancel]
    exact hpre.closed _ _

/-- **Close-out.**  `allocate(-value)` on a security that is up to date for `d` (`SecLiq`), whose
    parent's clock is `d`, and whose value is not `0`: the position is exactly `0` afterwards — any
    commission function, any spread, whole or fractional units. -/
theorem secAllocate_close {cfg : Cfg K} (htol : 0 < cfg.tol) {d : Nat} {comm : K → K → K}
    {s s' : SecData K} {a : Option (Adj K)} (hl : SecLiq cfg d s) (hw : NDW cfg s) (hv : s.value ≠ 0)
    (h : secAllocate cfg (some d) comm s (-s.value) = .ok (s', a)) :
    s'.position = 0 ∧ SecPre cfg d s' ∧ s'.weight = s.weight := by
  have hp : s.position ≠ 0 := fun hp0 => hv (hl.settled hp0).1
  obtain ⟨hnu, hnow, hlp, hvz⟩ := hl.open_ hp
  unfold secAllocate at h
  obtain ⟨s1, h1, h⟩ := Except.bind_eq_ok h
  obtain ⟨oq, hq, h⟩ := Except.bind_eq_ok h
  obtain ⟨hpre1, hp1, hw1⟩ := secRefresh_liq (hl.pre hw) h1
  have hv1 : s1.value = s.value := by
    unfold secRefresh at h1
    split at h1
    · exact secUpdate_fresh_value hnow hlp h1
    · cases h1; rfl
  have hp1' : s1.position ≠ 0 := by rwa [hp1]
  have hz1 : isZero cfg.tol s1.position = false := by
    cases hzz : isZero cfg.tol s1.position
    · rfl
    · exact absurd (hpre1.nodust hzz) hp1'
  -- the quantity is minus the position
  have hoq : oq = some (-s1.position) := by
    unfold allocQuantity at hq
    rw [Alloc.isZero_neg, hvz] at hq
    simp only [Bool.false_eq_true, ↓reduceIte] at hq
    cases hpr : s1.price with
    | none => rw [hpr] at hq; cases hq
    | some p =>
      rw [hpr] at hq
      simp only at hq
      split at hq
      · cases hq
      · have hq0 : allocQ0 cfg s1 p (-s.value) = -s1.position := by
          unfold allocQ0
          rw [hv1, neg_add_cancel, isZero_zero htol]; rfl
        rw [hq0, Alloc.isZero_neg, hz1] at hq
        simp only [Bool.false_eq_true, ↓reduceIte, P08.eqA_self] at hq
        cases hq; rfl
  subst hoq
  obtain ⟨h0, hpre', hw'⟩ := secTransactCore_close hpre1 hp1' h
  exact ⟨h0, hpre', by rw [hw', hw1]⟩

/-- `transact(-position, update=True)` of the fixed-income `flatten` closes a non-dust position -/
theorem secTransact_close {cfg : Cfg K} {d : Nat} {comm : K → K → K} {s s' : SecData K}
    {a : Option (Adj K)} (hpre : SecPre cfg d s) (hp : s.position ≠ 0)
    (h : secTransact cfg (some d) comm s (-s.position) true none = .ok (s', a)) :
    s'.position = 0 ∧ SecPre cfg d s' ∧ s'.weight = s.weight := by
  unfold secTransact at h
  obtain ⟨s1, h1, h⟩ := Except.bind_eq_ok h
  simp only [↓reduceIte] at h1
  obtain ⟨hpre1, hp1, hw1⟩ := secRefresh_liq hpre h1
  rw [← hp1] at h
  obtain ⟨h0, hpre', hw'⟩ := secTransactCore_close hpre1 (by rwa [hp1]) h
  exact ⟨h0, hpre', by rw [hw', hw1]⟩

/-- `allocate(0)` does not trade: only the refresh happens -/
theorem secAllocate_zero {cfg : Cfg K} (htol : 0 < cfg.tol) {d : Nat} {comm : K → K → K}
    {s s' : SecData K} {a : Option (Adj K)} (hpre : SecPre cfg d s)
    (h : secAllocate cfg (some d) comm s 0 = .ok (s', a)) :
    SecPre cfg d s' ∧ s'.position = s.position ∧ s'.weight = s.weight := by
  unfold secAllocate at h
  obtain ⟨s1, h1, h⟩ := Except.bind_eq_ok h
  obtain ⟨oq, hq, h⟩ := Except.bind_eq_ok h
  unfold allocQuantity at hq
  rw [isZero_zero htol] at hq
  simp only [↓reduceIte] at hq
  cases (Except.pure_eq_ok hq)
  cases (Except.pure_eq_ok h)
  exact secRefresh_liq hpre h1

/-- **Close-out, with the bare minimum of hypotheses.**  The security is marked for `d` at its present
    position (`now = d`, `lastPos = position`: what any `update(d)` leaves), its parent's clock is `d`,
    its position is not dust and its value is not within `TOL` of `0`.  Then `allocate(-value)`, if it
    returns, leaves `position = 0` — whatever the commission function, the spread, the multiplier and
    whether units are whole or fractional. -/
theorem secAllocate_close_min {cfg : Cfg K} (htol : 0 < cfg.tol) {d : Nat} {comm : K → K → K}
    {s s' : SecData K} {a : Option (Adj K)} (hnow : s.now = some d) (hlp : s.lastPos = s.position)
    (hnd : isZero cfg.tol s.position = true → s.position = 0) (hvz : isZero cfg.tol s.value = false)
    (h : secAllocate cfg (some d) comm s (-s.value) = .ok (s', a)) : s'.position = 0 := by
  unfold secAllocate at h
  obtain ⟨s1, h1, h⟩ := Except.bind_eq_ok h
  obtain ⟨oq, hq, h⟩ := Except.bind_eq_ok h
  have hp1 : s1.position = s.position := Alloc.secRefresh_position cfg _ s s1 h1
  have hv1 : s1.value = s.value := by
    unfold secRefresh at h1
    split at h1
    · exact secUpdate_fresh_value hnow hlp h1
    · cases h1; rfl
  unfold allocQuantity at hq
  rw [Alloc.isZero_neg, hvz] at hq
  simp only [Bool.false_eq_true, ↓reduceIte] at hq
  cases hpr : s1.price with
  | none => rw [hpr] at hq; cases hq
  | some p =>
    rw [hpr] at hq
    simp only at hq
    split at hq
    · cases hq
    · have hq0 : allocQ0 cfg s1 p (-s.value) = -s1.position := by
        unfold allocQ0
        rw [hv1, neg_add_cancel, isZero_zero htol]; rfl
      rw [hq0, Alloc.isZero_neg] at hq
      cases hz : isZero cfg.tol s1.position
      · rw [hz] at hq
        simp only [Bool.false_eq_true, ↓reduceIte, P08.eqA_self] at hq
        cases hq
        have hzq : isZero cfg.tol (-s1.position) = false := by rw [Alloc.isZero_neg]; exact hz
        have := (Alloc.secTransactCore_ok cfg comm s1 _ _ hzq h).1
        rw [this]; exact add_neg_cancel _
      · rw [hz] at hq
        simp only [↓reduceIte] at hq
        cases (Except.pure_eq_ok hq)
        cases (Except.pure_eq_ok h)
        rw [hp1] at hz ⊢
        exact hnd hz

end Bt.P16
