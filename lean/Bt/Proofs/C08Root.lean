import Bt.Proofs.C08Idem
/-! C08: idempotence of `root.update` including the bankruptcy branch; `update` does not move positions. -/
set_option linter.unusedSectionVars false
namespace Bt.P08
open Bt

variable {K : Type} [Field K] [LinearOrder K] [IsStrictOrderedRing K] [HasFloor K]

theorem updRoot_strat (cfg : Cfg K) (d : Nat) (sd : StratData K) (kids : List (Node K)) (st : Bool) :
    updRoot cfg d ⟨.strat sd kids, st⟩ =
      (updKids cfg d (stratDateChange d sd).2 (stratDateChange d sd).1.bidofferSet kids
        ⟨(stratDateChange d sd).1.capital, 0, 0, 0⟩).bind fun r =>
        if bankruptCond cfg (stratDateChange d sd).1 (r.2.val + r.2.coupons) then
          (flattenAt cfg (refreshNB cfg) (bankruptWorld (stratDateChange d sd).1 r).root []
              (bankruptWorld (stratDateChange d sd).1 r)).bind fun wF =>
          (updNode cfg d wF.root).map fun n => { root := n, stale := false }
        else (stratFinish cfg d (stratDateChange d sd).2 (stratDateChange d sd).1 r).map fun n =>
          { root := n, stale := false } := by
  have e : ∀ r : List (Node K) × Acc K,
      (stratFinish cfg d (stratDateChange d sd).2 (stratDateChange d sd).1 r).map
        (fun n => ({ root := n, stale := false } : World K)) =
      (stratWrite cfg d (stratDateChange d sd).2 { (stratDateChange d sd).1 with
          capital := (stratDateChange d sd).1.capital + r.2.coupons } (r.2.val + r.2.coupons)
          r.2.notl r.2.bo).map fun sd3 =>
        { root := .strat (stratRows d sd3)
            (kidsWeights cfg sd3.fixedIncome (r.2.val + r.2.coupons) r.2.notl r.1), stale := false } := by
    intro r
    unfold stratFinish
    cases stratWrite cfg d (stratDateChange d sd).2 { (stratDateChange d sd).1 with
          capital := (stratDateChange d sd).1.capital + r.2.coupons } (r.2.val + r.2.coupons)
          r.2.notl r.2.bo <;> rfl
  simp only [e]
  unfold updRoot bankruptCond bankruptWorld; rfl

theorem foldl_adjust_bankrupt (adjs : List (Adj K)) (sd : StratData K) :
    (adjs.foldl StratData.adjust sd).bankrupt = sd.bankrupt := by
  induction adjs generalizing sd with
  | nil => rfl
  | cons a as ih => rw [List.foldl_cons, ih]; rfl

theorem flattenKidsMV_bankrupt {cfg : Cfg K} :
    ∀ (ks : List (Node K)) (sd sd' : StratData K) (ks' : List (Node K)),
      flattenKidsMV cfg ks sd = .ok (sd', ks') → sd'.bankrupt = sd.bankrupt
  | [], sd, sd', ks', h => by
    rw [flattenKidsMV] at h; cases h; rfl
  | k :: ks, sd, sd', ks', h => by
    rw [flattenKidsMV] at h
    split at h
    · obtain ⟨⟨sd2, ks2⟩, h2, hr⟩ := map_eq_ok h
      cases hr
      exact flattenKidsMV_bankrupt ks sd _ _ h2
    · obtain ⟨⟨k', adjs⟩, _, h⟩ := bind_eq_ok h
      obtain ⟨⟨sd2, ks2⟩, h2, hr⟩ := map_eq_ok h
      cases hr
      rw [flattenKidsMV_bankrupt ks _ _ _ h2, foldl_adjust_bankrupt]

theorem flattenKidsFI_bankrupt {cfg : Cfg K} :
    ∀ (ks : List (Node K)) (sd sd' : StratData K) (ks' : List (Node K)),
      flattenKidsFI cfg ks sd = .ok (sd', ks') → sd'.bankrupt = sd.bankrupt
  | [], sd, sd', ks', h => by
    rw [flattenKidsFI] at h; cases h; rfl
  | .strat _ _ :: ks, sd, sd', ks', h => by
    rw [flattenKidsFI] at h; cases h
  | .sec s :: ks, sd, sd', ks', h => by
    rw [flattenKidsFI] at h
    split at h
    · obtain ⟨⟨sd2, ks2⟩, h2, hr⟩ := map_eq_ok h
      cases hr
      exact flattenKidsFI_bankrupt ks sd _ _ h2
    · obtain ⟨⟨s', adj⟩, _, h⟩ := bind_eq_ok h
      obtain ⟨⟨sd2, ks2⟩, h2, hr⟩ := map_eq_ok h
      cases hr
      rw [flattenKidsFI_bankrupt ks _ _ _ h2, foldl_adjust_bankrupt]

theorem flattenStrat_bankrupt {cfg : Cfg K} {sd sd' : StratData K} {ks ks' : List (Node K)}
    (h : flattenStrat cfg sd ks = .ok (sd', ks')) : sd'.bankrupt = sd.bankrupt := by
  unfold flattenStrat at h
  split at h
  · exact flattenKidsFI_bankrupt _ _ _ _ h
  · exact flattenKidsMV_bankrupt _ _ _ _ h

theorem updNode_strat_bankrupt {cfg : Cfg K} {d : Nat} {sd : StratData K} {kids : List (Node K)}
    {n' : Node K} (h : updNode cfg d (.strat sd kids) = .ok n') :
    ∃ sd' ks', n' = .strat sd' ks' ∧ sd'.bankrupt = sd.bankrupt := by
  rw [updNode_strat] at h
  obtain ⟨r, _, hf⟩ := bind_eq_ok h
  unfold stratFinish at hf
  obtain ⟨sd3, hw, rfl⟩ := map_eq_ok hf
  refine ⟨_, _, rfl, ?_⟩
  rw [stratRows_bankrupt, (stratWrite_proj hw).2.2.2.2]
  simp

/-! ### invariants of the recursive `flatten` -/

mutual
/-- anything the getter refresh `rf` and the single-level liquidation preserve is preserved by the
    recursive `flatten` -/
theorem flattenAt_inv {I : World K → Prop} {cfg : Cfg K} {rf : World K → Except Err (World K)}
    (hrf : ∀ w w', rf w = .ok w' → I w → I w')
    (hmod : ∀ path w w', World.modify w path (flatF cfg) = .ok w' → I w → I w') :
    (n : Node K) → ∀ path w w', flattenAt cfg rf n path w = .ok w' → I w → I w'
  | .sec s, path, w, w', h, _ => by rw [flattenAt.eq_1] at h; cases h
  | .strat sd0 kids, path, w, w', h, hI => by
    rw [flattenAt_strat] at h
    obtain ⟨w1, h1, h⟩ := bind_eq_ok h
    have hI1 := flattenSubs_inv hrf hmod kids _ _ _ _ h1 hI
    split at h
    · obtain ⟨w2, h2, h⟩ := bind_eq_ok h
      have hI2 : I w2 := by
        split at h2
        · exact hrf _ _ h2 hI1
        · cases h2; exact hI1
      exact hmod _ _ _ h hI2
    · cases h
theorem flattenSubs_inv {I : World K → Prop} {cfg : Cfg K} {rf : World K → Except Err (World K)}
    (hrf : ∀ w w', rf w = .ok w' → I w → I w')
    (hmod : ∀ path w w', World.modify w path (flatF cfg) = .ok w' → I w → I w') :
    (ks : List (Node K)) → ∀ path i w w', flattenSubs cfg rf ks path i w = .ok w' → I w → I w'
  | [], path, i, w, w', h, hI => by rw [flattenSubs.eq_1] at h; cases h; exact hI
  | .strat a a1 :: ks, path, i, w, w', h, hI => by
    rw [flattenSubs.eq_2] at h
    obtain ⟨w1, h1, h⟩ := bind_eq_ok h
    exact flattenSubs_inv hrf hmod ks _ _ _ _ h (flattenAt_inv hrf hmod (.strat a a1) _ _ _ h1 hI)
  | .sec a :: ks, path, i, w, w', h, hI => by
    rw [flattenSubs.eq_3] at h
    exact flattenSubs_inv hrf hmod ks _ _ _ _ h hI
end

/-- the root is a strategy whose bankruptcy flag is set -/
def RootBk (w : World K) : Prop := ∃ sd ks, w.root = .strat sd ks ∧ sd.bankrupt = true

theorem refreshNB_rootBk {cfg : Cfg K} {w w' : World K} (h : refreshNB cfg w = .ok w')
    (hI : RootBk w) : RootBk w' := by
  obtain ⟨sd, ks, hr, hb⟩ := hI
  unfold refreshNB at h
  split at h
  · obtain ⟨n, hn, rfl⟩ := map_eq_ok h
    rw [hr] at hn
    obtain ⟨sd', ks', rfl, hb'⟩ := updNode_strat_bankrupt hn
    exact ⟨sd', ks', rfl, hb'.trans hb⟩
  · cases h

theorem modify_flatF_rootBk {cfg : Cfg K} {path : List Nat} {w w' : World K}
    (h : World.modify w path (flatF cfg) = .ok w') (hI : RootBk w) : RootBk w' := by
  obtain ⟨sd, ks, hr, hb⟩ := hI
  unfold World.modify at h
  obtain ⟨⟨r, adjs, st⟩, hm, rfl⟩ := map_eq_ok h
  rw [hr] at hm
  cases path with
  | nil =>
    rw [modAt.eq_1] at hm
    simp only [flatF] at hm
    obtain ⟨⟨sd', ks'⟩, hfl, hr'⟩ := map_eq_ok hm
    cases hr'
    exact ⟨sd', ks', rfl, (flattenStrat_bankrupt hfl).trans hb⟩
  | cons i rest =>
    rw [modAt.eq_3] at hm
    split at hm
    · cases hm
    · obtain ⟨⟨k', adjs', st'⟩, _, hr'⟩ := map_eq_ok hm
      cases hr'
      exact ⟨_, _, rfl, (foldl_adjust_bankrupt _ _).trans hb⟩

/-- what a successful `updNode` on a strategy leaves behind, ready for a second pass -/
theorem updNode_strat_pass2 {cfg : Cfg K} (htol : 0 < cfg.tol) {d : Nat} {sd : StratData K}
    {kids : List (Node K)} {n' : Node K} (hnd : NoDust cfg (.strat sd kids))
    (h : updNode cfg d (.strat sd kids) = .ok n') :
    ∃ sdR kidsW, n' = .strat sdR kidsW ∧ sdR.now = some d ∧ sdR.bankrupt = sd.bankrupt ∧
      ∃ a2, updKids cfg d false sdR.bidofferSet kidsW ⟨sdR.capital, 0, 0, 0⟩ = .ok (kidsW, a2) ∧
        stratFinish cfg d false sdR (kidsW, a2) = .ok (.strat sdR kidsW) := by
  rw [updNode_strat] at h
  obtain ⟨⟨kids1, acc⟩, hk, hf⟩ := bind_eq_ok h
  have hQ := updKids_pass2 cfg htol d kids (by simpa [NoDust] using hnd) _ _ _ _ _ hk
  simp only [sub_zero] at hQ
  obtain ⟨sdR, kidsW, rfl, hnow, hbk, -, a2, hk2, -, hf2⟩ :=
    stratFinish_pass2 htol (stratDateChange_now d sd) hQ hf
  exact ⟨sdR, kidsW, rfl, hnow, by simpa using hbk, a2, hk2, hf2⟩

/-! ### `update` does not move positions, so it transports `NoDust` both ways -/

theorem secUpdate_position {cfg : Cfg K} {d : Nat} {s s' : SecData K}
    (h : secUpdate cfg d s = .ok s') : s'.position = s.position := by
  rw [secUpdate_eq] at h
  obtain ⟨s1, hb, ht⟩ := bind_eq_ok h
  obtain ⟨-, -, hpos, -⟩ := secTail_proj ht
  rw [hpos, (secBaseUpdate_kind_position hb).2]

theorem noDust_strat (cfg : Cfg K) (sd : StratData K) (ks : List (Node K)) :
    NoDust cfg (.strat sd ks) ↔ NoDustL cfg ks := by simp [NoDust]

theorem noDust_sec (cfg : Cfg K) (s : SecData K) :
    NoDust cfg (.sec s) ↔ (isZero cfg.tol s.position = true → s.position = 0) := by simp [NoDust]

theorem noDustL_cons (cfg : Cfg K) (k : Node K) (ks : List (Node K)) :
    NoDustL cfg (k :: ks) ↔ NoDust cfg k ∧ NoDustL cfg ks := by simp [NoDustL]

theorem noDust_setWeight (cfg : Cfg K) (w : K) (k : Node K) :
    NoDust cfg (k.setWeight w) ↔ NoDust cfg k := by
  cases k with
  | sec s => simp [Node.setWeight, noDust_sec]
  | strat sd ks => simp [Node.setWeight, noDust_strat]

theorem noDustL_kidsWeights (cfg : Cfg K) (fi : Bool) (v n : K) (ks : List (Node K)) :
    NoDustL cfg (kidsWeights cfg fi v n ks) ↔ NoDustL cfg ks := by
  induction ks with
  | nil => rfl
  | cons k ks ih =>
    rw [kidsWeights_cons, noDustL_cons, noDustL_cons, ih]
    split
    · rfl
    · rw [noDust_setWeight]

mutual
theorem updNode_noDust (cfg : Cfg K) (d : Nat) :
    (n : Node K) → ∀ n', updNode cfg d n = .ok n' → (NoDust cfg n' ↔ NoDust cfg n)
  | .sec s, n', h => by
    rw [updNode.eq_1] at h
    obtain ⟨s', hs, rfl⟩ := map_eq_ok h
    rw [noDust_sec, noDust_sec, secUpdate_position hs]
  | .strat sd kids, n', h => by
    rw [updNode_strat] at h
    obtain ⟨⟨kids1, acc⟩, hk, hf⟩ := bind_eq_ok h
    unfold stratFinish at hf
    obtain ⟨sd3, _, rfl⟩ := map_eq_ok hf
    rw [noDust_strat, noDust_strat, noDustL_kidsWeights]
    exact updKids_noDust cfg d kids _ _ _ _ _ hk

theorem updKids_noDust (cfg : Cfg K) (d : Nat) :
    (ks : List (Node K)) → ∀ (newpt bo : Bool) (acc : Acc K) ks' a,
      updKids cfg d newpt bo ks acc = .ok (ks', a) → (NoDustL cfg ks' ↔ NoDustL cfg ks)
  | [], newpt, bo, acc, ks', a, h => by
    rw [updKids.eq_1] at h; cases h; rfl
  | .sec s :: ks, newpt, bo, acc, ks', a, h => by
    rw [updKids_sec] at h
    have hsw_pos : (sweepSec newpt s acc).1.position = s.position := by
      unfold sweepSec; split <;> rfl
    split at h
    · obtain ⟨⟨ks1, a1⟩, hrest, hr⟩ := map_eq_ok h
      cases hr
      rw [noDustL_cons, noDustL_cons, updKids_noDust cfg d ks _ _ _ _ _ hrest, noDust_sec, noDust_sec,
        hsw_pos]
    · obtain ⟨s1, hs1, h⟩ := bind_eq_ok h
      obtain ⟨⟨ks1, a1⟩, hrest, hr⟩ := map_eq_ok h
      cases hr
      rw [noDustL_cons, noDustL_cons, updKids_noDust cfg d ks _ _ _ _ _ hrest, noDust_sec, noDust_sec,
        secUpdate_position hs1, hsw_pos]
  | .strat sd kk :: ks, newpt, bo, acc, ks', a, h => by
    rw [updKids_strat] at h
    obtain ⟨k1, hk1, h⟩ := bind_eq_ok h
    obtain ⟨⟨ks1, a1⟩, hrest, hr⟩ := map_eq_ok h
    cases hr
    rw [noDustL_cons, noDustL_cons, updKids_noDust cfg d ks _ _ _ _ _ hrest,
      updNode_noDust cfg d (.strat sd kk) _ hk1]
end

/-! ### `root.update` is idempotent -/

theorem updRoot_stale {cfg : Cfg K} {d : Nat} {w w' : World K} (h : updRoot cfg d w = .ok w') :
    w'.stale = false := by
  obtain ⟨root, st⟩ := w
  cases root with
  | sec s => cases h
  | strat sd kids =>
    rw [updRoot_strat] at h
    obtain ⟨r, _, h⟩ := bind_eq_ok h
    split at h
    · obtain ⟨x, _, h⟩ := bind_eq_ok h
      obtain ⟨n, _, rfl⟩ := map_eq_ok h
      rfl
    · obtain ⟨n, _, rfl⟩ := map_eq_ok h
      rfl

/-- a strategy node in the state a finished `update(d)` leaves is a fixed point of `root.update(d)`,
    provided the bankruptcy test does not fire on it -/
theorem updRoot_of_pass2 {cfg : Cfg K} {d : Nat} {sdR : StratData K} {kidsW : List (Node K)} {a2 : Acc K}
    (st : Bool) (hnow : sdR.now = some d)
    (hk2 : updKids cfg d false sdR.bidofferSet kidsW ⟨sdR.capital, 0, 0, 0⟩ = .ok (kidsW, a2))
    (hf2 : stratFinish cfg d false sdR (kidsW, a2) = .ok (.strat sdR kidsW))
    (hc : bankruptCond cfg sdR (a2.val + a2.coupons) = false) :
    updRoot cfg d ⟨.strat sdR kidsW, st⟩ = .ok ⟨.strat sdR kidsW, false⟩ := by
  rw [updRoot_strat, stratDateChange_same hnow]
  simp only
  rw [hk2, bind_ok]
  simp only [hc, Bool.false_eq_true, ↓reduceIte]
  rw [hf2]; rfl

/-- with the flag already set, `root.update` is `update` of the root node (no trigger possible) -/
theorem updRoot_eq_updNode_of_bankrupt (cfg : Cfg K) (d : Nat) {sd : StratData K} (kids : List (Node K))
    (st : Bool) (hb : sd.bankrupt = true) :
    updRoot cfg d ⟨.strat sd kids, st⟩ =
      (updNode cfg d (.strat sd kids)).map fun n => { root := n, stale := false } := by
  rw [updRoot_strat, updNode_strat]
  cases updKids cfg d (stratDateChange d sd).2 (stratDateChange d sd).1.bidofferSet kids
      ⟨(stratDateChange d sd).1.capital, 0, 0, 0⟩ with
  | error e => rfl
  | ok r =>
    simp only [bind_ok]
    have : bankruptCond cfg (stratDateChange d sd).1 (r.2.val + r.2.coupons) = false := by
      simp [bankruptCond, hb]
    simp only [this, Bool.false_eq_true, ↓reduceIte]

/-- more generally: whenever the bankruptcy test does not fire on the gathered totals -/
theorem updRoot_eq_updNode_of_no_trigger (cfg : Cfg K) (d : Nat) (sd : StratData K) (kids : List (Node K))
    (st : Bool)
    (hc : ∀ r, updKids cfg d (stratDateChange d sd).2 (stratDateChange d sd).1.bidofferSet kids
        ⟨(stratDateChange d sd).1.capital, 0, 0, 0⟩ = .ok r →
      bankruptCond cfg (stratDateChange d sd).1 (r.2.val + r.2.coupons) = false) :
    updRoot cfg d ⟨.strat sd kids, st⟩ =
      (updNode cfg d (.strat sd kids)).map fun n => { root := n, stale := false } := by
  rw [updRoot_strat, updNode_strat]
  cases hk : updKids cfg d (stratDateChange d sd).2 (stratDateChange d sd).1.bidofferSet kids
      ⟨(stratDateChange d sd).1.capital, 0, 0, 0⟩ with
  | error e => rfl
  | ok r =>
    simp only [bind_ok]
    simp only [hc r hk, Bool.false_eq_true, ↓reduceIte]

theorem updRoot_idem_aux {cfg : Cfg K} (htol : 0 < cfg.tol) {d : Nat} {w w' : World K}
    (hnd : NoDust cfg w.root) (hnd' : NoDust cfg w'.root)
    (h : updRoot cfg d w = .ok w') : updRoot cfg d w' = .ok w' := by
  obtain ⟨root, st⟩ := w
  cases root with
  | sec s => cases h
  | strat sd kids =>
    rw [updRoot_strat] at h
    obtain ⟨⟨kids1, acc⟩, hk, h⟩ := bind_eq_ok h
    simp only at h
    by_cases hc : bankruptCond cfg (stratDateChange d sd).1 (acc.val + acc.coupons) = true
    · -- bankruptcy: flatten, then the update is redone on the liquidated tree
      simp only [hc, ↓reduceIte] at h
      obtain ⟨wF, hfl, h⟩ := bind_eq_ok h
      obtain ⟨n, hn, rfl⟩ := map_eq_ok h
      simp only at hn hnd'
      obtain ⟨sdF, kidsF, hrF, hbF⟩ : RootBk wF :=
        flattenAt_inv (fun _ _ => refreshNB_rootBk) (fun _ _ _ => modify_flatF_rootBk) _ _ _ _ hfl
          ⟨_, _, rfl, rfl⟩
      rw [hrF] at hn
      have hndF : NoDust cfg (.strat sdF kidsF) := (updNode_noDust cfg d _ _ hn).1 hnd'
      obtain ⟨sdR, kidsW, rfl, hnow, hbk, a2, hk2, hf2⟩ := updNode_strat_pass2 htol hndF hn
      have hbt : sdR.bankrupt = true := by
        rw [hbk, hbF]
      exact updRoot_of_pass2 false hnow hk2 hf2 (by simp [bankruptCond, hbt])
    · simp only [hc, Bool.false_eq_true, ↓reduceIte] at h
      obtain ⟨n, hf, rfl⟩ := map_eq_ok h
      have hQ := updKids_pass2 cfg htol d kids (by simpa [NoDust] using hnd) _ _ _ _ _ hk
      simp only [sub_zero] at hQ
      obtain ⟨sdR, kidsW, rfl, hnow, hbk, hfi, a2, hk2, hval, hf2⟩ :=
        stratFinish_pass2 htol (stratDateChange_now d sd) hQ hf
      refine updRoot_of_pass2 false hnow hk2 hf2 ?_
      rw [hval]
      have hc' : bankruptCond cfg (stratDateChange d sd).1 (acc.val + acc.coupons) = false := by
        simpa using hc
      simpa [bankruptCond, hbk, hfi] using hc'

/-! ### any number of re-runs -/

/-- `update(d)` run `k` times in a row -/
def updNodeN (cfg : Cfg K) (d : Nat) : Nat → Node K → Except Err (Node K)
  | 0, n => .ok n
  | k + 1, n => (updNode cfg d n).bind (updNodeN cfg d k)

/-- `root.update(d)` run `k` times in a row -/
def updRootN (cfg : Cfg K) (d : Nat) : Nat → World K → Except Err (World K)
  | 0, w => .ok w
  | k + 1, w => (updRoot cfg d w).bind (updRootN cfg d k)

theorem updNodeN_fixed {cfg : Cfg K} {d : Nat} {n : Node K} (h : updNode cfg d n = .ok n) :
    ∀ k, updNodeN cfg d k n = .ok n
  | 0 => rfl
  | k + 1 => by rw [updNodeN, h, bind_ok]; exact updNodeN_fixed h k

theorem updRootN_fixed {cfg : Cfg K} {d : Nat} {w : World K} (h : updRoot cfg d w = .ok w) :
    ∀ k, updRootN cfg d k w = .ok w
  | 0 => rfl
  | k + 1 => by rw [updRootN, h, bind_ok]; exact updRootN_fixed h k

/-! ### refreshing reads -/

theorem refresh_idem_aux {cfg : Cfg K} {w w' : World K} (h : refresh cfg w = .ok w') :
    refresh cfg w' = .ok w' := by
  unfold refresh at h
  by_cases hs : w.stale = true
  · simp only [hs, ↓reduceIte] at h
    cases hn : w.root.now with
    | none => rw [hn] at h; cases h
    | some d =>
      rw [hn] at h
      simp only at h
      unfold refresh
      simp [updRoot_stale h]
  · simp only [hs] at h
    cases h
    unfold refresh
    simp [hs]

theorem refresh_of_fresh {cfg : Cfg K} {w : World K} (h : w.stale = false) : refresh cfg w = .ok w := by
  unfold refresh; simp [h]

theorem refresh_of_stale {cfg : Cfg K} {w : World K} {d : Nat} (h : w.stale = true)
    (hn : w.root.now = some d) : refresh cfg w = updRoot cfg d w := by
  unfold refresh; simp [h, hn]

end Bt.P08
