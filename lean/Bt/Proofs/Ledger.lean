import Bt.Engine.Ops
import Mathlib.Algebra.Order.Field.Basic
import Mathlib.Algebra.Order.AbsoluteValue.Basic
import Mathlib.Tactic.Ring
import Mathlib.Tactic.Linarith
import Mathlib.Tactic.FieldSimp
import Mathlib.Tactic.LinearCombination
/-! Helper lemmas shared by C07 / C03 / C02 (cash ledger, index, value conservation). -/
namespace Bt
set_option linter.unusedSectionVars false

variable {K : Type} [Field K] [LinearOrder K] [IsStrictOrderedRing K] [HasFloor K]

/-! ### numeric interface -/

theorem absA_eq_abs (x : K) : absA x = |x| := by
  unfold absA
  split
  · rename_i h; rw [abs_of_neg h]
  · rename_i h; rw [abs_of_nonneg (not_lt.mp h)]

theorem isZero_iff_L (tol x : K) : isZero tol x = true ↔ |x| < tol := by
  unfold isZero; rw [absA_eq_abs]; simp

theorem isZero_false_iff_L (tol x : K) : isZero tol x = false ↔ tol ≤ |x| := by
  unfold isZero; rw [absA_eq_abs]; simp

theorem eqA_iff_L (a b : K) : eqA a b = true ↔ a = b := by
  unfold eqA
  simp only [Bool.and_eq_true, Bool.not_eq_true', decide_eq_false_iff_not, not_lt]
  constructor
  · rintro ⟨h1, h2⟩; exact le_antisymm h2 h1
  · rintro rfl; exact ⟨le_refl _, le_refl _⟩

/-! ### `Except` plumbing -/

theorem Except.bind_ok {ε α β : Type} {x : Except ε α} {f : α → Except ε β} {b : β}
    (h : x.bind f = .ok b) : ∃ a, x = .ok a ∧ f a = .ok b := by
  cases x with
  | error e => simp [Except.bind] at h
  | ok a => exact ⟨a, rfl, h⟩

theorem Except.map_ok {ε α β : Type} {x : Except ε α} {f : α → β} {b : β}
    (h : x.map f = .ok b) : ∃ a, x = .ok a ∧ f a = b := by
  cases x with
  | error e => simp [Except.map] at h
  | ok a => simp only [Except.map, Except.ok.injEq] at h; exact ⟨a, rfl, h⟩

/-! ### securities: outlay / transact -/

/-- inversion of `secOutlay` without a custom price -/
theorem secOutlay_none_ok {cfg : Cfg K} {comm : K → K → K} {s : SecData K} {q : K} {r : K × K × K × K}
    (h : secOutlay cfg comm s q none = .ok r) :
    ∃ p bo, s.price = some p ∧ s.bidoffer = some bo ∧
      r = (q * p * s.mult + |q| * cfg.half * bo * s.mult + comm q (p * s.mult),
           q * p * s.mult + |q| * cfg.half * bo * s.mult,
           comm q (p * s.mult),
           |q| * cfg.half * bo * s.mult) := by
  unfold secOutlay at h
  cases hp : s.price with
  | none => simp [hp] at h
  | some p =>
    cases hb : s.bidoffer with
    | none => simp [hp, hb] at h
    | some bo =>
      simp only [hp, hb, absA_eq_abs] at h
      refine ⟨p, bo, rfl, rfl, ?_⟩
      cases h; rfl

/-- inversion of `secOutlay` with a custom price -/
theorem secOutlay_some_ok {cfg : Cfg K} {comm : K → K → K} {s : SecData K} {q cp : K} {r : K × K × K × K}
    (h : secOutlay cfg comm s q (some cp) = .ok r) :
    ∃ p, s.price = some p ∧
      r = (q * p * s.mult + q * (cp - p) * s.mult + comm q (cp * s.mult),
           q * p * s.mult + q * (cp - p) * s.mult,
           comm q (cp * s.mult),
           q * (cp - p) * s.mult) := by
  unfold secOutlay at h
  cases hp : s.price with
  | none => simp [hp] at h
  | some p =>
    simp only [hp] at h
    refine ⟨p, rfl, ?_⟩
    cases h; rfl

/-- `secOutlay` never looks at position / accumulators: it only reads price, bid/offer, multiplier. -/
theorem secOutlay_congr (cfg : Cfg K) (comm : K → K → K) (s t : SecData K) (q : K) (c : Option K)
    (hp : s.price = t.price) (hb : s.bidoffer = t.bidoffer) (hm : s.mult = t.mult) :
    secOutlay cfg comm s q c = secOutlay cfg comm t q c := by
  unfold secOutlay; rw [hp, hb, hm]

/-- inversion of `secTransactCore` -/
theorem secTransactCore_ok {cfg : Cfg K} {comm : K → K → K} {s : SecData K} {q : K} {custom : Option K}
    {s' : SecData K} {oa : Option (Adj K)}
    (h : secTransactCore cfg comm s q custom = .ok (s', oa)) :
    (isZero cfg.tol q = true ∧ s' = s ∧ oa = none) ∨
    (isZero cfg.tol q = false ∧ ∃ full outlay fee bo,
      secOutlay cfg comm s q custom = .ok (full, outlay, fee, bo) ∧
      s' = { s with needupdate := true, position := s.position + q,
                    outlayAcc := s.outlayAcc + outlay, bidofferPaid := s.bidofferPaid + bo } ∧
      oa = some { amount := -full, fee := fee, flow := false }) := by
  unfold secTransactCore at h
  by_cases hz : isZero cfg.tol q = true
  · left
    simp only [hz, ↓reduceIte] at h
    cases h; exact ⟨hz, rfl, rfl⟩
  · right
    have hz' : isZero cfg.tol q = false := by simpa using hz
    simp only [hz', Bool.false_eq_true, ↓reduceIte] at h
    split at h
    · cases h
    · obtain ⟨⟨full, outlay, fee, bo⟩, h1, h2⟩ := Except.bind_ok h
      refine ⟨hz', full, outlay, fee, bo, ?_, ?_⟩
      · rw [← h1]; exact secOutlay_congr _ _ _ _ _ _ rfl rfl rfl
      · simp only [pure, Except.pure, Except.ok.injEq, Prod.mk.injEq] at h2
        exact ⟨h2.1.symm, h2.2.symm⟩

/-! ### what `update` of a security leaves alone -/

/-- the fields that decide a security's worth and its trade costs -/
def secCoreEq (s t : SecData K) : Prop :=
  t.position = s.position ∧ t.mult = s.mult ∧ t.price = s.price ∧ t.bidoffer = s.bidoffer ∧
  t.bidofferPaid = s.bidofferPaid ∧ t.now = s.now ∧ t.bidofferSet = s.bidofferSet

theorem secCoreEq.refl (s : SecData K) : secCoreEq s s := ⟨rfl, rfl, rfl, rfl, rfl, rfl, rfl⟩

theorem secCoreEq.trans {s t u : SecData K} (h1 : secCoreEq s t) (h2 : secCoreEq t u) : secCoreEq s u := by
  obtain ⟨a1, a2, a3, a4, a5, a6, a7⟩ := h1
  obtain ⟨b1, b2, b3, b4, b5, b6, b7⟩ := h2
  exact ⟨b1.trans a1, b2.trans a2, b3.trans a3, b4.trans a4, b5.trans a5, b6.trans a6, b7.trans a7⟩

theorem secDateChange_same (d : Nat) (s : SecData K) (h : s.now = some d) : secDateChange d s = s := by
  unfold secDateChange; simp [h]

theorem secRecordPos_core (d : Nat) (s : SecData K) : secCoreEq s (secRecordPos d s) :=
  ⟨rfl, rfl, rfl, rfl, rfl, rfl, rfl⟩

theorem secSetValue_core (d : Nat) (v : K) (s : SecData K) : secCoreEq s (secSetValue d v s) :=
  ⟨rfl, rfl, rfl, rfl, rfl, rfl, rfl⟩

theorem secQuiet_core (cfg : Cfg K) (s : SecData K) : secCoreEq s (secQuiet cfg s) := by
  unfold secQuiet; split
  · exact ⟨rfl, rfl, rfl, rfl, rfl, rfl, rfl⟩
  · exact secCoreEq.refl s

theorem secFlushOutlay_core (d : Nat) (s : SecData K) : secCoreEq s (secFlushOutlay d s) := by
  unfold secFlushOutlay; split
  · exact ⟨rfl, rfl, rfl, rfl, rfl, rfl, rfl⟩
  · exact secCoreEq.refl s

theorem secRowBidoffer_core (d : Nat) (s : SecData K) : secCoreEq s (secRowBidoffer d s) := by
  unfold secRowBidoffer; split
  · exact ⟨rfl, rfl, rfl, rfl, rfl, rfl, rfl⟩
  · exact secCoreEq.refl s

theorem secFiTail_core (d : Nat) (s : SecData K) : secCoreEq s (secFiTail d s) :=
  ⟨rfl, rfl, rfl, rfl, rfl, rfl, rfl⟩

theorem secHedgeTail_core (s : SecData K) : secCoreEq s (secHedgeTail s) :=
  ⟨rfl, rfl, rfl, rfl, rfl, rfl, rfl⟩

theorem secCouponTail_core {cfg : Cfg K} {d : Nat} {s t : SecData K} (h : secCouponTail cfg d s = .ok t) :
    secCoreEq s t := by
  unfold secCouponTail at h
  obtain ⟨cpn, _, h2⟩ := Except.bind_ok h
  obtain ⟨hc, _, h3⟩ := Except.bind_ok h2
  simp only [pure, Except.pure, Except.ok.injEq] at h3
  subst h3
  exact ⟨rfl, rfl, rfl, rfl, rfl, rfl, rfl⟩

theorem secBaseUpdate_core {cfg : Cfg K} {d : Nat} {s t : SecData K} (hn : s.now = some d)
    (h : secBaseUpdate cfg d s = .ok t) : secCoreEq s t := by
  unfold secBaseUpdate at h
  split at h
  · simp only [pure, Except.pure, Except.ok.injEq] at h; subst h; exact secCoreEq.refl s
  · rw [secDateChange_same d s hn] at h
    obtain ⟨v, _, hv⟩ := Except.map_ok h
    subst hv
    exact (secRecordPos_core d s).trans <| (secSetValue_core d v _).trans <| (secQuiet_core cfg _).trans <|
      (secFlushOutlay_core d _).trans (secRowBidoffer_core d _)

/-- Updating a security that already stands on date `d` changes neither its position, price, multiplier,
    bid/offer nor bid/offer-paid. -/
theorem secUpdate_core {cfg : Cfg K} {d : Nat} {s t : SecData K} (hn : s.now = some d)
    (h : secUpdate cfg d s = .ok t) : secCoreEq s t := by
  unfold secUpdate at h
  obtain ⟨s1, h1, h2⟩ := Except.bind_ok h
  have c1 := secBaseUpdate_core hn h1
  cases hk : s.kind <;> simp only [hk, pure, Except.pure, Except.ok.injEq] at h2
  · subst h2; exact c1
  · subst h2; exact c1.trans (secFiTail_core d s1)
  · exact c1.trans ((secFiTail_core d s1).trans (secCouponTail_core h2))
  · subst h2; exact c1.trans (secHedgeTail_core s1)
  · obtain ⟨u, hu, hv⟩ := Except.map_ok h2
    subst hv
    exact c1.trans ((secFiTail_core d s1).trans ((secCouponTail_core hu).trans (secHedgeTail_core u)))

/-- The refresh at the head of every security entry point, for a security that stands on its parent's date. -/
theorem secRefresh_core {cfg : Cfg K} {pn : Option Nat} {s t : SecData K} (hn : s.now = pn)
    (h : secRefresh cfg pn s = .ok t) : secCoreEq s t := by
  unfold secRefresh at h
  split at h
  · cases pn with
    | none => cases h
    | some d => exact secUpdate_core hn h
  · simp only [pure, Except.pure, Except.ok.injEq] at h; subst h; exact secCoreEq.refl s

/-! ### folding adjustments into a strategy -/

def adjAmounts (L : List (Adj K)) : K := (L.map fun a => a.amount).sum
def adjFees (L : List (Adj K)) : K := (L.map fun a => a.fee).sum

@[simp] theorem adjAmounts_nil : adjAmounts ([] : List (Adj K)) = 0 := rfl
@[simp] theorem adjFees_nil : adjFees ([] : List (Adj K)) = 0 := rfl
@[simp] theorem adjAmounts_cons (a : Adj K) (L : List (Adj K)) : adjAmounts (a :: L) = a.amount + adjAmounts L := by
  simp [adjAmounts]
@[simp] theorem adjFees_cons (a : Adj K) (L : List (Adj K)) : adjFees (a :: L) = a.fee + adjFees L := by
  simp [adjFees]
theorem adjAmounts_append (L M : List (Adj K)) : adjAmounts (L ++ M) = adjAmounts L + adjAmounts M := by
  simp [adjAmounts]
theorem adjFees_append (L M : List (Adj K)) : adjFees (L ++ M) = adjFees L + adjFees M := by
  simp [adjFees]

/-- Booking a list of non-flow adjustments: capital moves by the sum of the amounts, `last_fee` by the sum
    of the fees, nothing else moves. -/
theorem foldl_adjust_nonflow (L : List (Adj K)) (sd : StratData K) (hL : ∀ a ∈ L, a.flow = false) :
    L.foldl StratData.adjust sd =
      { sd with capital := sd.capital + adjAmounts L, lastFee := sd.lastFee + adjFees L } := by
  induction L generalizing sd with
  | nil => simp
  | cons a L ih =>
    have ha : a.flow = false := hL a (by simp)
    rw [List.foldl_cons, ih _ (fun b hb => hL b (by simp [hb]))]
    simp only [StratData.adjust, ha, adjAmounts_cons, adjFees_cons, add_assoc]
    rfl

theorem foldl_adjust_now (L : List (Adj K)) (sd : StratData K) : (L.foldl StratData.adjust sd).now = sd.now := by
  induction L generalizing sd with
  | nil => rfl
  | cons a L ih => rw [List.foldl_cons, ih]; rfl

theorem foldl_adjust_comm (L : List (Adj K)) (sd : StratData K) : (L.foldl StratData.adjust sd).comm = sd.comm := by
  induction L generalizing sd with
  | nil => rfl
  | cons a L ih => rw [List.foldl_cons, ih]; rfl

theorem foldl_adjust_capital_fee (L : List (Adj K)) (sd : StratData K) :
    (L.foldl StratData.adjust sd).capital + (L.foldl StratData.adjust sd).lastFee =
      sd.capital + sd.lastFee + (adjAmounts L + adjFees L) := by
  induction L generalizing sd with
  | nil => simp
  | cons a L ih =>
    rw [List.foldl_cons, ih]
    simp only [StratData.adjust, adjAmounts_cons, adjFees_cons]
    ring

/-- the root's self-addressed debit and credit cancel exactly -/
theorem adjust_cancel (sd : StratData K) (a : K) :
    (sd.adjust { amount := -a, fee := 0, flow := true }).adjust { amount := a, fee := 0, flow := true } = sd := by
  cases sd
  simp [StratData.adjust]

/-! ### what a child hands to its parent on `allocate` -/

theorem secTransactCore_adj_nonflow {cfg : Cfg K} {comm : K → K → K} {s s' : SecData K} {q : K}
    {c : Option K} {oa : Option (Adj K)} (h : secTransactCore cfg comm s q c = .ok (s', oa)) :
    ∀ a ∈ oa.toList, a.flow = false := by
  rcases secTransactCore_ok h with ⟨_, _, rfl⟩ | ⟨_, _, _, _, _, _, _, rfl⟩ <;> simp

theorem secAllocate_cases {cfg : Cfg K} {pn : Option Nat} {comm : K → K → K} {s s' : SecData K} {amount : K}
    {oa : Option (Adj K)} (h : secAllocate cfg pn comm s amount = .ok (s', oa)) :
    ∃ s1, secRefresh cfg pn s = .ok s1 ∧
      ((allocQuantity cfg comm s1 amount = .ok none ∧ s' = s1 ∧ oa = none) ∨
       (∃ q, allocQuantity cfg comm s1 amount = .ok (some q) ∧
             secTransactCore cfg comm s1 q none = .ok (s', oa))) := by
  unfold secAllocate at h
  obtain ⟨s1, h1, h2⟩ := Except.bind_ok h
  obtain ⟨oq, h3, h4⟩ := Except.bind_ok h2
  refine ⟨s1, h1, ?_⟩
  cases oq with
  | none =>
    left
    simp only [pure, Except.pure, Except.ok.injEq, Prod.mk.injEq] at h4
    exact ⟨h3, h4.1.symm, h4.2.symm⟩
  | some q => right; exact ⟨q, h3, h4⟩

/-- every adjustment `allocNode` returns for the node's parent is a non-flow -/
theorem allocNode_adjs_nonflow {cfg : Cfg K} {pn : Option Nat} {comm : K → K → K} {amount : K} {n n' : Node K}
    {adjs : List (Adj K)} (h : allocNode cfg pn comm amount n = .ok (n', adjs)) :
    ∀ a ∈ adjs, a.flow = false := by
  cases n with
  | sec s =>
    rw [allocNode] at h
    obtain ⟨⟨s', oa⟩, h1, h2⟩ := Except.map_ok h
    simp only [Prod.mk.injEq] at h2
    obtain ⟨_, rfl⟩ := h2
    obtain ⟨s1, _, ⟨_, _, rfl⟩ | ⟨q, _, ht⟩⟩ := secAllocate_cases h1
    · simp
    · exact secTransactCore_adj_nonflow ht
  | strat sd kids =>
    rw [allocNode] at h
    obtain ⟨⟨sd2, kids2⟩, _, h2⟩ := Except.map_ok h
    simp only [Prod.mk.injEq] at h2
    obtain ⟨_, rfl⟩ := h2
    simp

/-- the list of adjustments a strategy receives from its children while `allocKids` runs (trace of the
    model function; same recursion, collecting instead of folding) -/
def allocKidsAdjs (cfg : Cfg K) (amount : K) : List (Node K) → StratData K → Except Err (List (Adj K))
  | [], _ => pure []
  | k :: ks, sd =>
    (allocNode cfg sd.now sd.comm (amount * k.weight) k).bind fun (_, adjs) =>
    (allocKidsAdjs cfg amount ks (adjs.foldl StratData.adjust sd)).map fun L => adjs ++ L

theorem allocKids_trace {cfg : Cfg K} {amount : K} (kids : List (Node K)) {sd sd2 : StratData K}
    {kids2 : List (Node K)} (h : allocKids cfg amount kids sd = .ok (sd2, kids2)) :
    ∃ L, allocKidsAdjs cfg amount kids sd = .ok L ∧ (∀ a ∈ L, a.flow = false) ∧
      sd2 = L.foldl StratData.adjust sd ∧ kids2.length = kids.length := by
  induction kids generalizing sd sd2 kids2 with
  | nil =>
    rw [allocKids] at h
    simp only [pure, Except.pure, Except.ok.injEq, Prod.mk.injEq] at h
    obtain ⟨rfl, rfl⟩ := h
    exact ⟨[], rfl, by simp, rfl, rfl⟩
  | cons k ks ih =>
    rw [allocKids] at h
    obtain ⟨⟨k', adjs⟩, h1, h2⟩ := Except.bind_ok h
    obtain ⟨⟨sd'', ks'⟩, h3, h4⟩ := Except.map_ok h2
    simp only [Prod.mk.injEq] at h4
    obtain ⟨rfl, rfl⟩ := h4
    obtain ⟨L, hL, hnf, hsd, hlen⟩ := ih h3
    refine ⟨adjs ++ L, ?_, ?_, ?_, ?_⟩
    · rw [allocKidsAdjs, h1]; simp only [Except.bind]; rw [hL]; rfl
    · intro a ha
      rcases List.mem_append.mp ha with ha | ha
      · exact allocNode_adjs_nonflow h1 a ha
      · exact hnf a ha
    · rw [List.foldl_append]; exact hsd
    · simp [hlen]

/-! ### strategy update: frames -/

/-- the ledger fields of a strategy (cash, accumulators, their rows) -/
def stratLedgerEq (s t : StratData K) : Prop :=
  t.capital = s.capital ∧ t.netFlows = s.netFlows ∧ t.lastFee = s.lastFee ∧
  t.rCash = s.rCash ∧ t.rFees = s.rFees ∧ t.rFlows = s.rFlows

theorem stratSetTotals_ledger (d : Nat) (sd : StratData K) (v n b : K) :
    stratLedgerEq sd (stratSetTotals d sd v n b) := by
  unfold stratSetTotals; dsimp only; split <;> exact ⟨rfl, rfl, rfl, rfl, rfl, rfl⟩

theorem stratSetTotals_last (d : Nat) (sd : StratData K) (v n b : K) :
    (stratSetTotals d sd v n b).lastValue = sd.lastValue ∧ (stratSetTotals d sd v n b).lastPrice = sd.lastPrice ∧
    (stratSetTotals d sd v n b).lastNotl = sd.lastNotl ∧ (stratSetTotals d sd v n b).netFlows = sd.netFlows ∧
    (stratSetTotals d sd v n b).value = v ∧ (stratSetTotals d sd v n b).notl = n ∧
    (stratSetTotals d sd v n b).fixedIncome = sd.fixedIncome := by
  unfold stratSetTotals; dsimp only; split <;> exact ⟨rfl, rfl, rfl, rfl, rfl, rfl, rfl⟩

/-- inversion of `stratWrite` -/
theorem stratWrite_ok {cfg : Cfg K} {d : Nat} {newpt : Bool} {sd sd' : StratData K} {val notl bo : K}
    (h : stratWrite cfg d newpt sd val notl bo = .ok sd') :
    (stratChanged cfg newpt sd val notl = false ∧ sd' = sd) ∨
    (stratChanged cfg newpt sd val notl = true ∧ ∃ ret,
      ((sd.fixedIncome = true ∧ fiReturn cfg (stratSetTotals d sd val notl bo) = .ok ret ∧
         sd' = stratSetPrice d (stratSetTotals d sd val notl bo) (sd.lastPrice + ret)) ∨
       (sd.fixedIncome = false ∧ mvReturn cfg (stratSetTotals d sd val notl bo) = .ok ret ∧
         sd' = stratSetPrice d (stratSetTotals d sd val notl bo) (sd.lastPrice * (1 + ret))))) := by
  unfold stratWrite at h
  by_cases hc : stratChanged cfg newpt sd val notl = true
  · right
    simp only [hc, ↓reduceIte] at h
    refine ⟨hc, ?_⟩
    obtain ⟨_, hlp, _, _, _, _, hfi⟩ := stratSetTotals_last d sd val notl bo
    by_cases hf : sd.fixedIncome = true
    · rw [hfi, hf] at h
      simp only [↓reduceIte] at h
      obtain ⟨ret, h1, h2⟩ := Except.map_ok h
      rw [hlp] at h2
      exact ⟨ret, Or.inl ⟨hf, h1, h2.symm⟩⟩
    · have hf' : sd.fixedIncome = false := by simpa using hf
      rw [hfi, hf'] at h
      simp only [Bool.false_eq_true, ↓reduceIte] at h
      obtain ⟨ret, h1, h2⟩ := Except.map_ok h
      rw [hlp] at h2
      exact ⟨ret, Or.inr ⟨hf', h1, h2.symm⟩⟩
  · left
    have hc' : stratChanged cfg newpt sd val notl = false := by simpa using hc
    simp only [hc', Bool.false_eq_true, ↓reduceIte, pure, Except.pure, Except.ok.injEq] at h
    exact ⟨hc', h.symm⟩

theorem stratWrite_ledger {cfg : Cfg K} {d : Nat} {newpt : Bool} {sd sd' : StratData K} {val notl bo : K}
    (h : stratWrite cfg d newpt sd val notl bo = .ok sd') : stratLedgerEq sd sd' := by
  rcases stratWrite_ok h with ⟨_, rfl⟩ | ⟨_, ret, ⟨_, _, rfl⟩ | ⟨_, _, rfl⟩⟩
  · exact ⟨rfl, rfl, rfl, rfl, rfl, rfl⟩
  · exact stratSetTotals_ledger d sd val notl bo
  · exact stratSetTotals_ledger d sd val notl bo

theorem stratDateChange_rows (d : Nat) (sd : StratData K) :
    (stratDateChange d sd).1.capital = sd.capital ∧ (stratDateChange d sd).1.rCash = sd.rCash ∧
    (stratDateChange d sd).1.rFees = sd.rFees ∧ (stratDateChange d sd).1.rFlows = sd.rFlows := by
  unfold stratDateChange
  cases sd.now with
  | none => exact ⟨rfl, rfl, rfl, rfl⟩
  | some n => dsimp only; split <;> exact ⟨rfl, rfl, rfl, rfl⟩

theorem stratRows_rows (d : Nat) (sd : StratData K) :
    (stratRows d sd).capital = sd.capital ∧ (stratRows d sd).lastFee = sd.lastFee ∧
    (stratRows d sd).netFlows = sd.netFlows ∧
    (stratRows d sd).rCash = sd.rCash.set d sd.capital ∧ (stratRows d sd).rFees = sd.rFees.set d sd.lastFee ∧
    (stratRows d sd).rFlows = sd.rFlows.set d sd.netFlows := by
  unfold stratRows; dsimp only; split <;> exact ⟨rfl, rfl, rfl, rfl, rfl, rfl⟩

/-- inversion of `updNode` on a strategy -/
theorem updNode_strat_ok {cfg : Cfg K} {d : Nat} {sd : StratData K} {kids : List (Node K)} {n' : Node K}
    (h : updNode cfg d (.strat sd kids) = .ok n') :
    ∃ kids1 acc sd3,
      updKids cfg d (stratDateChange d sd).2 (stratDateChange d sd).1.bidofferSet kids
        ⟨(stratDateChange d sd).1.capital, 0, 0, 0⟩ = .ok (kids1, acc) ∧
      stratWrite cfg d (stratDateChange d sd).2
        { (stratDateChange d sd).1 with capital := (stratDateChange d sd).1.capital + acc.coupons }
        (acc.val + acc.coupons) acc.notl acc.bo = .ok sd3 ∧
      n' = .strat (stratRows d sd3) (kidsWeights cfg sd3.fixedIncome (acc.val + acc.coupons) acc.notl kids1) := by
  rw [updNode] at h
  obtain ⟨⟨kids1, acc⟩, h1, h2⟩ := Except.bind_ok h
  obtain ⟨sd3, h3, h4⟩ := Except.map_ok h2
  exact ⟨kids1, acc, sd3, h1, h3, h4.symm⟩

/-! ### the children loop of `update`: coupons swept -/

/-- cash parked on the direct security children (coupon less holding cost of the last update) -/
def parkedKids : List (Node K) → K
  | [] => 0
  | .sec s :: ks => s.capital + parkedKids ks
  | .strat _ _ :: ks => parkedKids ks

theorem accAdd_coupons (b : Bool) (acc : Acc K) (k : Node K) : (accAdd b acc k).coupons = acc.coupons := rfl

/-- The coupons accumulator of the children loop: on a new date it collects exactly the cash parked on the
    direct security children, otherwise nothing. -/
theorem updKids_coupons {cfg : Cfg K} {d : Nat} {newpt bo : Bool} (kids : List (Node K)) {acc acc' : Acc K}
    {kids' : List (Node K)} (h : updKids cfg d newpt bo kids acc = .ok (kids', acc')) :
    acc'.coupons = acc.coupons + (if newpt then parkedKids kids else 0) := by
  induction kids generalizing acc acc' kids' with
  | nil =>
    rw [updKids] at h
    simp only [pure, Except.pure, Except.ok.injEq, Prod.mk.injEq] at h
    obtain ⟨_, rfl⟩ := h
    simp [parkedKids]
  | cons k ks ih =>
    cases k with
    | sec s =>
      rw [updKids] at h
      have hsw : (sweepSec newpt s acc).2.coupons = acc.coupons + (if newpt then s.capital else 0) := by
        unfold sweepSec; cases newpt <;> simp
      rcases hsp : sweepSec newpt s acc with ⟨s0, acc0⟩
      rw [hsp] at h hsw
      dsimp only at h hsw
      split at h
      · obtain ⟨⟨ks', a⟩, h1, h2⟩ := Except.map_ok h
        simp only [Prod.mk.injEq] at h2
        obtain ⟨_, rfl⟩ := h2
        rw [ih h1, hsw]
        cases newpt <;> simp [parkedKids, add_assoc]
      · obtain ⟨s1, _, h2⟩ := Except.bind_ok h
        obtain ⟨⟨ks', a⟩, h1, h3⟩ := Except.map_ok h2
        simp only [Prod.mk.injEq] at h3
        obtain ⟨_, rfl⟩ := h3
        rw [ih h1, accAdd_coupons, hsw]
        cases newpt <;> simp [parkedKids, add_assoc]
    | strat sdk kk =>
      rw [updKids] at h
      obtain ⟨k1, _, h2⟩ := Except.bind_ok h
      obtain ⟨⟨ks', a⟩, h1, h3⟩ := Except.map_ok h2
      simp only [Prod.mk.injEq] at h3
      obtain ⟨_, rfl⟩ := h3
      rw [ih h1, accAdd_coupons]
      simp [parkedKids]

/-! ### the index write -/

theorem stratSetPrice_price (d : Nat) (sd : StratData K) (p : K) : (stratSetPrice d sd p).price = p := rfl

/-- market-value strategy: what a successful write puts into `price` -/
theorem stratWrite_mv_price {cfg : Cfg K} {d : Nat} {newpt : Bool} {sd sd' : StratData K} {val notl bo : K}
    (hfi : sd.fixedIncome = false) (hch : stratChanged cfg newpt sd val notl = true)
    (h : stratWrite cfg d newpt sd val notl bo = .ok sd') :
    (isZero cfg.tol (sd.lastValue + sd.netFlows) = false ∧
       sd'.price = sd.lastPrice * (1 + (val / (sd.lastValue + sd.netFlows) - 1))) ∨
    (isZero cfg.tol (sd.lastValue + sd.netFlows) = true ∧ isZero cfg.tol val = true ∧
       sd'.price = sd.lastPrice * (1 + 0)) := by
  rcases stratWrite_ok h with ⟨hc, _⟩ | ⟨_, ret, ⟨hf, _, _⟩ | ⟨_, hr, rfl⟩⟩
  · rw [hch] at hc; cases hc
  · rw [hfi] at hf; cases hf
  · obtain ⟨e1, _, _, e4, e5, _, _⟩ := stratSetTotals_last d sd val notl bo
    unfold mvReturn at hr
    rw [e1, e4, e5] at hr
    rw [stratSetPrice_price]
    by_cases hz : isZero cfg.tol (sd.lastValue + sd.netFlows) = true
    · right
      simp only [hz, Bool.not_true, Bool.false_eq_true, ↓reduceIte] at hr
      by_cases hv : isZero cfg.tol val = true
      · simp only [hv, ↓reduceIte, pure, Except.pure, Except.ok.injEq] at hr
        subst hr; exact ⟨hz, hv, rfl⟩
      · simp only [hv] at hr; cases hr
    · left
      have hz' : isZero cfg.tol (sd.lastValue + sd.netFlows) = false := by simpa using hz
      simp only [hz', Bool.not_false, ↓reduceIte, pure, Except.pure, Except.ok.injEq] at hr
      subst hr; exact ⟨hz', rfl⟩

/-- fixed-income strategy: what a successful write puts into `price` -/
theorem stratWrite_fi_price {cfg : Cfg K} {d : Nat} {newpt : Bool} {sd sd' : StratData K} {val notl bo : K}
    (hfi : sd.fixedIncome = true) (hch : stratChanged cfg newpt sd val notl = true)
    (h : stratWrite cfg d newpt sd val notl bo = .ok sd') :
    (isZero cfg.tol sd.lastNotl = false ∧
       sd'.price = sd.lastPrice + (val - (sd.lastValue + sd.netFlows)) / sd.lastNotl * cfg.par) ∨
    (isZero cfg.tol sd.lastNotl = true ∧ isZero cfg.tol notl = false ∧
       sd'.price = sd.lastPrice + (val - (sd.lastValue + sd.netFlows)) / notl * cfg.par) ∨
    (isZero cfg.tol sd.lastNotl = true ∧ isZero cfg.tol notl = true ∧
       isZero cfg.tol (val - (sd.lastValue + sd.netFlows)) = true ∧ sd'.price = sd.lastPrice + 0) := by
  rcases stratWrite_ok h with ⟨hc, _⟩ | ⟨_, ret, ⟨_, hr, rfl⟩ | ⟨hf, _, _⟩⟩
  · rw [hch] at hc; cases hc
  · obtain ⟨e1, _, e3, e4, e5, e6, _⟩ := stratSetTotals_last d sd val notl bo
    unfold fiReturn at hr
    rw [e1, e3, e4, e5, e6] at hr
    rw [stratSetPrice_price]
    by_cases hz : isZero cfg.tol sd.lastNotl = true
    · right
      simp only [hz, Bool.not_true, Bool.false_eq_true, ↓reduceIte] at hr
      by_cases hn : isZero cfg.tol notl = true
      · right
        simp only [hn, Bool.not_true, Bool.false_eq_true, ↓reduceIte] at hr
        by_cases hp : isZero cfg.tol (val - (sd.lastValue + sd.netFlows)) = true
        · simp only [hp, ↓reduceIte, pure, Except.pure, Except.ok.injEq] at hr
          subst hr; exact ⟨hz, hn, hp, rfl⟩
        · simp only [hp] at hr; cases hr
      · left
        have hn' : isZero cfg.tol notl = false := by simpa using hn
        simp only [hn', Bool.not_false, ↓reduceIte, pure, Except.pure, Except.ok.injEq] at hr
        subst hr; exact ⟨hz, hn', rfl⟩
    · left
      have hz' : isZero cfg.tol sd.lastNotl = false := by simpa using hz
      simp only [hz', Bool.not_false, ↓reduceIte, pure, Except.pure, Except.ok.injEq] at hr
      subst hr; exact ⟨hz', rfl⟩
  · rw [hfi] at hf; cases hf

theorem ne_zero_of_isZero_false {tol x : K} (htol : 0 < tol) (h : isZero tol x = false) : x ≠ 0 := by
  rw [isZero_false_iff_L] at h
  intro hx; subst hx
  simp only [abs_zero] at h
  exact absurd htol (not_lt.mpr h)

/-! ### sums over the tree: total value, fees booked, spread paid -/

mutual
/-- `Σ strategies fd + Σ securities fs` over a subtree -/
def nodeSum (fs : SecData K → K) (fd : StratData K → K) : Node K → K
  | .sec s => fs s
  | .strat sd kids => fd sd + kidsSum fs fd kids
def kidsSum (fs : SecData K → K) (fd : StratData K → K) : List (Node K) → K
  | [] => 0
  | k :: ks => nodeSum fs fd k + kidsSum fs fd ks
end

/-- mark-to-market worth of a security: `position · price · multiplier` (0 without a price) -/
def secWorth (s : SecData K) : K :=
  match s.price with
  | some p => s.position * p * s.mult
  | none => 0

/-- `total`: cash of every strategy plus worth of every security of the subtree
    (cash parked on coupon-paying securities is not part of it, DESIGN §7 C02). -/
def total (n : Node K) : K := nodeSum secWorth (fun d => d.capital) n
def totalKids (ks : List (Node K)) : K := kidsSum secWorth (fun d => d.capital) ks

/-- commissions booked so far on the date, over the subtree (`Σ last_fee`) -/
def feeSum (n : Node K) : K := nodeSum (fun _ => 0) (fun d => d.lastFee) n
/-- bid/offer (or custom-price) cost paid so far on the date, over the subtree (`Σ securities bidoffer_paid`) -/
def boSum (n : Node K) : K := nodeSum (fun s => s.bidofferPaid) (fun _ => 0) n

theorem total_sec (s : SecData K) : total (.sec s) = secWorth s := by rw [total, nodeSum]
theorem total_strat (sd : StratData K) (kids : List (Node K)) :
    total (.strat sd kids) = sd.capital + totalKids kids := by rw [total, nodeSum]; rfl
theorem totalKids_nil : totalKids ([] : List (Node K)) = 0 := by rw [totalKids, kidsSum]
theorem totalKids_cons (k : Node K) (ks : List (Node K)) : totalKids (k :: ks) = total k + totalKids ks := by
  rw [totalKids, kidsSum]; rfl

mutual
theorem nodeSum_add (fs gs : SecData K → K) (fd gd : StratData K → K) :
    ∀ n : Node K, nodeSum (fun s => fs s + gs s) (fun d => fd d + gd d) n = nodeSum fs fd n + nodeSum gs gd n
  | .sec s => by simp only [nodeSum]
  | .strat sd kids => by
    simp only [nodeSum]
    rw [kidsSum_add fs gs fd gd kids]; ring
theorem kidsSum_add (fs gs : SecData K → K) (fd gd : StratData K → K) :
    ∀ ks : List (Node K), kidsSum (fun s => fs s + gs s) (fun d => fd d + gd d) ks = kidsSum fs fd ks + kidsSum gs gd ks
  | [] => by simp only [kidsSum, add_zero]
  | k :: ks => by
    simp only [kidsSum]
    rw [nodeSum_add fs gs fd gd k, kidsSum_add fs gs fd gd ks]; ring
end

/-- replacing the `i`-th child -/
theorem kidsSum_set (fs : SecData K → K) (fd : StratData K → K) (kids : List (Node K)) (i : Nat) (k k' : Node K)
    (hi : kids[i]? = some k) :
    kidsSum fs fd (kids.set i k') = kidsSum fs fd kids - nodeSum fs fd k + nodeSum fs fd k' := by
  induction kids generalizing i with
  | nil => simp at hi
  | cons x xs ih =>
    cases i with
    | zero =>
      simp only [List.getElem?_cons_zero, Option.some.injEq] at hi
      subst hi
      simp only [List.set_cons_zero, kidsSum]; ring
    | succ j =>
      simp only [List.getElem?_cons_succ] at hi
      simp only [List.set_cons_succ, kidsSum]
      rw [ih j hi]; ring

/-- A quantity `fd` of a strategy that responds additively to `adjust` -/
theorem foldl_adjust_additive (fd : StratData K → K) (γ : Adj K → K)
    (hfd : ∀ sd a, fd (StratData.adjust sd a) = fd sd + γ a) (L : List (Adj K)) (sd : StratData K) :
    fd (L.foldl StratData.adjust sd) = fd sd + (L.map γ).sum := by
  induction L generalizing sd with
  | nil => simp
  | cons a L ih => rw [List.foldl_cons, ih, hfd]; simp [add_assoc]

/-! ### every security stands on its parent's date -/

mutual
/-- every security of the subtree has `now` equal to its parent strategy's `now`
    (`pn` is the `now` of the node's own parent) -/
def Node.synced (pn : Option Nat) : Node K → Prop
  | .sec s => s.now = pn
  | .strat sd kids => Node.syncedKids sd.now kids
def Node.syncedKids (pn : Option Nat) : List (Node K) → Prop
  | [] => True
  | k :: ks => Node.synced pn k ∧ Node.syncedKids pn ks
end

theorem syncedKids_get {pn : Option Nat} {kids : List (Node K)} (h : Node.syncedKids pn kids) {i : Nat} {k : Node K}
    (hi : kids[i]? = some k) : k.synced pn := by
  induction kids generalizing i with
  | nil => simp at hi
  | cons x xs ih =>
    rw [Node.syncedKids] at h
    cases i with
    | zero => simp only [List.getElem?_cons_zero, Option.some.injEq] at hi; subst hi; exact h.1
    | succ j => simp only [List.getElem?_cons_succ] at hi; exact ih h.2 hi

theorem syncedKids_set {pn : Option Nat} {kids : List (Node K)} (h : Node.syncedKids pn kids) (i : Nat) {k : Node K}
    (hk : k.synced pn) : Node.syncedKids pn (kids.set i k) := by
  induction kids generalizing i with
  | nil => simpa using h
  | cons x xs ih =>
    rw [Node.syncedKids] at h
    cases i with
    | zero => simp only [List.set_cons_zero]; rw [Node.syncedKids]; exact ⟨hk, h.2⟩
    | succ j => simp only [List.set_cons_succ]; rw [Node.syncedKids]; exact ⟨h.1, ih h.2 j⟩

/-! ### the conserved quantity: total + fees booked + spread paid -/

def secW (s : SecData K) : K := secWorth s + s.bidofferPaid
def stratW (d : StratData K) : K := d.capital + d.lastFee
/-- `total + feeSum + boSum` as one tree sum -/
def ledgerW (n : Node K) : K := nodeSum secW stratW n
def ledgerWKids (ks : List (Node K)) : K := kidsSum secW stratW ks
/-- what a list of adjustments takes out of / puts into the receiver's `capital + last_fee` -/
def adjNet (L : List (Adj K)) : K := adjAmounts L + adjFees L

theorem ledgerW_eq (n : Node K) : ledgerW n = total n + feeSum n + boSum n := by
  unfold ledgerW total feeSum boSum
  rw [← nodeSum_add, ← nodeSum_add]
  congr 1
  · funext s; simp [secW]
  · funext d; simp [stratW]

theorem stratW_foldl (L : List (Adj K)) (sd : StratData K) :
    stratW (L.foldl StratData.adjust sd) = stratW sd + adjNet L := by
  unfold stratW adjNet; exact foldl_adjust_capital_fee L sd

theorem secOutlay_shape {cfg : Cfg K} {comm : K → K → K} {s : SecData K} {q : K} {c : Option K}
    {full outlay fee bo : K} (h : secOutlay cfg comm s q c = .ok (full, outlay, fee, bo)) :
    ∃ p, s.price = some p ∧ outlay = q * p * s.mult + bo ∧ full = outlay + fee := by
  cases c with
  | none =>
    obtain ⟨p, b, hp, _, hr⟩ := secOutlay_none_ok h
    simp only [Prod.mk.injEq] at hr
    obtain ⟨rfl, rfl, rfl, rfl⟩ := hr
    exact ⟨p, hp, rfl, rfl⟩
  | some cp =>
    obtain ⟨p, hp, hr⟩ := secOutlay_some_ok h
    simp only [Prod.mk.injEq] at hr
    obtain ⟨rfl, rfl, rfl, rfl⟩ := hr
    exact ⟨p, hp, rfl, rfl⟩

/-- a trade conserves `worth + spread paid + (what the parent receives: amount + fee)` -/
theorem secTransactCore_W {cfg : Cfg K} {comm : K → K → K} {s s' : SecData K} {q : K} {c : Option K}
    {oa : Option (Adj K)} (h : secTransactCore cfg comm s q c = .ok (s', oa)) :
    secW s' + adjNet oa.toList = secW s ∧ s'.now = s.now := by
  rcases secTransactCore_ok h with ⟨_, rfl, rfl⟩ | ⟨_, full, outlay, fee, bo, ho, rfl, rfl⟩
  · simp [adjNet]
  · obtain ⟨p, hp, rfl, rfl⟩ := secOutlay_shape ho
    refine ⟨?_, rfl⟩
    simp only [secW, secWorth, hp, adjNet, Option.toList, adjAmounts_cons, adjFees_cons, adjAmounts_nil, adjFees_nil]
    ring

theorem secCoreEq_W {s t : SecData K} (h : secCoreEq s t) : secW t = secW s := by
  obtain ⟨h1, h2, h3, _, h5, _, _⟩ := h
  simp only [secW, secWorth, h1, h2, h3, h5]

/-- `secAllocate` on a security standing on its parent's date -/
theorem secAllocate_W {cfg : Cfg K} {pn : Option Nat} {comm : K → K → K} {s s' : SecData K} {amount : K}
    {oa : Option (Adj K)} (hn : s.now = pn) (h : secAllocate cfg pn comm s amount = .ok (s', oa)) :
    secW s' + adjNet oa.toList = secW s ∧ s'.now = pn := by
  obtain ⟨s1, hr, ⟨_, rfl, rfl⟩ | ⟨q, _, ht⟩⟩ := secAllocate_cases h
  · have hc := secRefresh_core hn hr
    exact ⟨by simp [adjNet, secCoreEq_W hc], by rw [hc.2.2.2.2.2.1, hn]⟩
  · have hc := secRefresh_core hn hr
    obtain ⟨h1, h2⟩ := secTransactCore_W ht
    exact ⟨by rw [h1, secCoreEq_W hc], by rw [h2, hc.2.2.2.2.2.1, hn]⟩

mutual
/-- `allocNode` conserves `ledgerW` once the adjustments handed to the parent are counted, and keeps the
    subtree synced. -/
theorem allocNode_W (cfg : Cfg K) : ∀ (n : Node K) (pn : Option Nat) (comm : K → K → K) (amount : K)
    (n' : Node K) (adjs : List (Adj K)), n.synced pn → allocNode cfg pn comm amount n = .ok (n', adjs) →
    ledgerW n' + adjNet adjs = ledgerW n ∧ n'.synced pn
  | .sec s, pn, comm, amount, n', adjs, hs, h => by
    rw [allocNode] at h
    obtain ⟨⟨s', oa⟩, h1, h2⟩ := Except.map_ok h
    simp only [Prod.mk.injEq] at h2
    obtain ⟨rfl, rfl⟩ := h2
    rw [Node.synced] at hs
    obtain ⟨e1, e2⟩ := secAllocate_W hs h1
    simp only [ledgerW, nodeSum, Node.synced]
    exact ⟨e1, e2⟩
  | .strat sd kids, pn, comm, amount, n', adjs, hs, h => by
    rw [allocNode] at h
    obtain ⟨⟨sd2, kids2⟩, h1, h2⟩ := Except.map_ok h
    simp only [Prod.mk.injEq] at h2
    obtain ⟨rfl, rfl⟩ := h2
    rw [Node.synced] at hs
    obtain ⟨e1, e2, e3⟩ := allocKids_W cfg kids amount (sd.adjust { amount := amount, fee := 0, flow := true })
      sd2 kids2 hs h1
    simp only [ledgerW, nodeSum, Node.synced]
    refine ⟨?_, by rw [e2]; exact e3⟩
    have : stratW (sd.adjust { amount := amount, fee := 0, flow := true }) = stratW sd + amount := by
      simp only [stratW, StratData.adjust]; ring
    simp only [ledgerWKids] at e1
    simp only [adjNet, adjAmounts_cons, adjFees_cons, adjAmounts_nil, adjFees_nil]
    linear_combination e1 + this
theorem allocKids_W (cfg : Cfg K) : ∀ (kids : List (Node K)) (amount : K) (sd sd2 : StratData K)
    (kids2 : List (Node K)), Node.syncedKids sd.now kids → allocKids cfg amount kids sd = .ok (sd2, kids2) →
    stratW sd2 + ledgerWKids kids2 = stratW sd + ledgerWKids kids ∧ sd2.now = sd.now ∧
    Node.syncedKids sd.now kids2
  | [], amount, sd, sd2, kids2, _, h => by
    rw [allocKids] at h
    simp only [pure, Except.pure, Except.ok.injEq, Prod.mk.injEq] at h
    obtain ⟨rfl, rfl⟩ := h
    exact ⟨rfl, rfl, by rw [Node.syncedKids]; trivial⟩
  | k :: ks, amount, sd, sd2, kids2, hs, h => by
    rw [allocKids] at h
    obtain ⟨⟨k', adjs⟩, h1, h2⟩ := Except.bind_ok h
    obtain ⟨⟨sd'', ks'⟩, h3, h4⟩ := Except.map_ok h2
    simp only [Prod.mk.injEq] at h4
    obtain ⟨rfl, rfl⟩ := h4
    rw [Node.syncedKids] at hs
    obtain ⟨e1, e2⟩ := allocNode_W cfg k sd.now sd.comm (amount * k.weight) k' adjs hs.1 h1
    have hnow := foldl_adjust_now adjs sd
    obtain ⟨f1, f2, f3⟩ := allocKids_W cfg ks amount (adjs.foldl StratData.adjust sd) sd'' ks'
      (by rw [hnow]; exact hs.2) h3
    rw [hnow] at f2 f3
    refine ⟨?_, f2, by rw [Node.syncedKids]; exact ⟨e2, f3⟩⟩
    rw [stratW_foldl] at f1
    simp only [ledgerWKids, kidsSum] at f1 ⊢
    simp only [ledgerW] at e1
    linear_combination f1 + e1
end

/-! ### routing through `modAt` -/

/-- `now` of the parent strategy a node-level operation sees -/
def parNow (par : Option (StratData K)) : Option Nat := par.bind fun p => p.now

/-- A tree sum whose strategy part responds additively to `adjust` (`γ`) moves by `δ` under an operation
    routed by `modAt` as soon as the node-level operation moves it by `δ` once the adjustments returned to
    the parent are counted.  `P` is any side condition inherited by children. -/
theorem modAt_nodeSum (fs : SecData K → K) (fd : StratData K → K) (γ : Adj K → K)
    (hfd : ∀ sd a, fd (StratData.adjust sd a) = fd sd + γ a)
    (P : Option (StratData K) → Node K → Prop)
    (hP : ∀ par sd (kids : List (Node K)) (i : Nat) k, P par (.strat sd kids) → kids[i]? = some k → P (some sd) k)
    (f : Option (StratData K) → Node K → Except Err (OpRes K)) (δ : K)
    (hf : ∀ par n n' adjs st, P par n → f par n = .ok (n', adjs, st) →
      nodeSum fs fd n' + (adjs.map γ).sum = nodeSum fs fd n + δ) :
    ∀ (path : List Nat) (par : Option (StratData K)) (n n' : Node K) (adjs : List (Adj K)) (st : Bool),
      P par n → modAt f path par n = .ok (n', adjs, st) →
      nodeSum fs fd n' + (adjs.map γ).sum = nodeSum fs fd n + δ
  | [], par, n, n', adjs, st, hp, h => by rw [modAt] at h; exact hf par n n' adjs st hp h
  | i :: rest, par, .sec s, n', adjs, st, _, h => by rw [modAt] at h; cases h
  | i :: rest, par, .strat sd kids, n', adjs, st, hp, h => by
    rw [modAt] at h
    cases hk : kids[i]? with
    | none => simp [hk] at h
    | some k =>
      simp only [hk] at h
      obtain ⟨⟨k', a, st'⟩, h1, h2⟩ := Except.map_ok h
      simp only [Prod.mk.injEq] at h2
      obtain ⟨rfl, rfl, rfl⟩ := h2
      have ih := modAt_nodeSum fs fd γ hfd P hP f δ hf rest (some sd) k k' a st' (hP par sd kids i k hp hk) h1
      simp only [nodeSum, List.map_nil, List.sum_nil, add_zero]
      rw [foldl_adjust_additive fd γ hfd, kidsSum_set fs fd kids i k k' hk]
      linear_combination ih

theorem adjNet_eq_sum (L : List (Adj K)) : (L.map fun a => a.amount + a.fee).sum = adjNet L := by
  induction L with
  | nil => simp [adjNet]
  | cons a L ih => simp only [List.map_cons, List.sum_cons, ih, adjNet, adjAmounts_cons, adjFees_cons]; ring

theorem adjAmounts_eq_sum (L : List (Adj K)) : (L.map fun a => a.amount).sum = adjAmounts L := rfl

theorem synced_descend (par : Option (StratData K)) (sd : StratData K) (kids : List (Node K)) (i : Nat) (k : Node K)
    (h : (Node.strat sd kids).synced (parNow par)) (hk : kids[i]? = some k) : k.synced (parNow (some sd)) := by
  rw [Node.synced] at h
  exact syncedKids_get h hk

/-! ### `transact` pushed down a subtree -/

theorem secTransact_W {cfg : Cfg K} {pn : Option Nat} {comm : K → K → K} {s s' : SecData K} {q : K} {c : Option K}
    {oa : Option (Adj K)} (hn : s.now = pn) (h : secTransact cfg pn comm s q true c = .ok (s', oa)) :
    secW s' + adjNet oa.toList = secW s ∧ s'.now = pn := by
  unfold secTransact at h
  obtain ⟨s1, hr, ht⟩ := Except.bind_ok h
  simp only [↓reduceIte] at hr
  have hc := secRefresh_core hn hr
  obtain ⟨h1, h2⟩ := secTransactCore_W ht
  exact ⟨by rw [h1, secCoreEq_W hc], by rw [h2, hc.2.2.2.2.2.1, hn]⟩

mutual
theorem transNode_W (cfg : Cfg K) : ∀ (n : Node K) (pn : Option Nat) (comm : K → K → K) (q : K) (c : Option K)
    (n' : Node K) (adjs : List (Adj K)), n.synced pn → transNode cfg pn comm q c n = .ok (n', adjs) →
    ledgerW n' + adjNet adjs = ledgerW n ∧ n'.synced pn
  | .sec s, pn, comm, q, c, n', adjs, hs, h => by
    rw [transNode] at h
    obtain ⟨⟨s', oa⟩, h1, h2⟩ := Except.map_ok h
    simp only [Prod.mk.injEq] at h2
    obtain ⟨rfl, rfl⟩ := h2
    rw [Node.synced] at hs
    obtain ⟨e1, e2⟩ := secTransact_W hs h1
    simp only [ledgerW, nodeSum, Node.synced]
    exact ⟨e1, e2⟩
  | .strat sd kids, pn, comm, q, c, n', adjs, hs, h => by
    rw [transNode] at h
    obtain ⟨⟨sd2, kids2⟩, h1, h2⟩ := Except.map_ok h
    simp only [Prod.mk.injEq] at h2
    obtain ⟨rfl, rfl⟩ := h2
    rw [Node.synced] at hs
    obtain ⟨e1, e2, e3⟩ := transKids_W cfg kids q sd sd2 kids2 hs h1
    simp only [ledgerW, nodeSum, Node.synced]
    refine ⟨?_, by rw [e2]; exact e3⟩
    simp only [ledgerWKids] at e1
    simp only [adjNet, adjAmounts_nil, adjFees_nil]
    linear_combination e1
theorem transKids_W (cfg : Cfg K) : ∀ (kids : List (Node K)) (q : K) (sd sd2 : StratData K)
    (kids2 : List (Node K)), Node.syncedKids sd.now kids → transKids cfg q kids sd = .ok (sd2, kids2) →
    stratW sd2 + ledgerWKids kids2 = stratW sd + ledgerWKids kids ∧ sd2.now = sd.now ∧
    Node.syncedKids sd.now kids2
  | [], q, sd, sd2, kids2, _, h => by
    rw [transKids] at h
    simp only [pure, Except.pure, Except.ok.injEq, Prod.mk.injEq] at h
    obtain ⟨rfl, rfl⟩ := h
    exact ⟨rfl, rfl, by rw [Node.syncedKids]; trivial⟩
  | k :: ks, q, sd, sd2, kids2, hs, h => by
    rw [transKids] at h
    obtain ⟨⟨k', adjs⟩, h1, h2⟩ := Except.bind_ok h
    obtain ⟨⟨sd'', ks'⟩, h3, h4⟩ := Except.map_ok h2
    simp only [Prod.mk.injEq] at h4
    obtain ⟨rfl, rfl⟩ := h4
    rw [Node.syncedKids] at hs
    obtain ⟨e1, e2⟩ := transNode_W cfg k sd.now sd.comm (q * k.weight) none k' adjs hs.1 h1
    have hnow := foldl_adjust_now adjs sd
    obtain ⟨f1, f2, f3⟩ := transKids_W cfg ks q (adjs.foldl StratData.adjust sd) sd'' ks'
      (by rw [hnow]; exact hs.2) h3
    rw [hnow] at f2 f3
    refine ⟨?_, f2, by rw [Node.syncedKids]; exact ⟨e2, f3⟩⟩
    rw [stratW_foldl] at f1
    simp only [ledgerWKids, kidsSum] at f1 ⊢
    simp only [ledgerW] at e1
    linear_combination f1 + e1
end

/-! ### marking to market on a new date -/

theorem secWorth_eq (s : SecData K) : secWorth s = s.position * s.price.getD 0 * s.mult := by
  unfold secWorth; cases s.price <;> simp

theorem secQuiet_value_L (cfg : Cfg K) (s : SecData K) : (secQuiet cfg s).value = s.value := by
  unfold secQuiet; split <;> rfl
theorem secFlushOutlay_value_L (d : Nat) (s : SecData K) : (secFlushOutlay d s).value = s.value := by
  unfold secFlushOutlay; split <;> rfl
theorem secRowBidoffer_value_L (d : Nat) (s : SecData K) : (secRowBidoffer d s).value = s.value := by
  unfold secRowBidoffer; split <;> rfl
theorem secCouponTail_value {cfg : Cfg K} {d : Nat} {s t : SecData K} (h : secCouponTail cfg d s = .ok t) :
    t.value = s.value := by
  unfold secCouponTail at h
  obtain ⟨cpn, _, h2⟩ := Except.bind_ok h
  obtain ⟨hc, _, h3⟩ := Except.bind_ok h2
  simp only [pure, Except.pure, Except.ok.injEq] at h3
  subst h3; rfl

/-- the value `update(d)` gives a security that was not yet on date `d`: position × the price of row `d`
    × multiplier (0 when that price is missing — only possible with a numerically flat position) -/
theorem secUpdate_value_newdate {cfg : Cfg K} {d : Nat} {s t : SecData K} (hn : s.now ≠ some d)
    (h : secUpdate cfg d s = .ok t) :
    t.value = s.position * (cell s.prices d).getD 0 * s.mult := by
  unfold secUpdate at h
  obtain ⟨s1, h1, h2⟩ := Except.bind_ok h
  have hv : s1.value = s.position * (cell s.prices d).getD 0 * s.mult := by
    unfold secBaseUpdate at h1
    have he : secEarly d s = false := by
      unfold secEarly; simp [hn]
    simp only [he, Bool.false_eq_true, ↓reduceIte] at h1
    obtain ⟨v, hv, hs1⟩ := Except.map_ok h1
    subst hs1
    rw [secRowBidoffer_value_L, secFlushOutlay_value_L, secQuiet_value_L]
    have hdc : (secDateChange d s).price = cell s.prices d ∧ (secDateChange d s).position = s.position ∧
        (secDateChange d s).mult = s.mult := by
      unfold secDateChange; simp [hn]
    obtain ⟨p1, p2, p3⟩ := hdc
    show v = _
    unfold secMarkValue at hv
    have q1 : (secRecordPos d (secDateChange d s)).price = cell s.prices d := p1
    have q2 : (secRecordPos d (secDateChange d s)).position = s.position := p2
    have q3 : (secRecordPos d (secDateChange d s)).mult = s.mult := p3
    rw [q1, q2, q3] at hv
    cases hc : cell s.prices d with
    | none =>
      rw [hc] at hv
      simp only at hv
      split at hv
      · simp only [pure, Except.pure, Except.ok.injEq] at hv; subst hv; simp
      · cases hv
    | some p =>
      rw [hc] at hv
      simp only [pure, Except.pure, Except.ok.injEq] at hv
      subst hv; simp
  cases hk : s.kind <;> simp only [hk, pure, Except.pure, Except.ok.injEq] at h2
  · subst h2; exact hv
  · subst h2; exact hv
  · rw [secCouponTail_value h2]; exact hv
  · subst h2; exact hv
  · obtain ⟨u, hu, hu2⟩ := Except.map_ok h2
    subst hu2
    show u.value = _
    rw [secCouponTail_value hu]; exact hv

/-- all children are securities that are not yet on date `d`, and the skipped ones are exactly flat -/
def secKidsFresh (d : Nat) : List (Node K) → Prop
  | [] => True
  | .sec s :: ks => s.now ≠ some d ∧ (s.needupdate = false → s.position = 0) ∧ secKidsFresh d ks
  | .strat _ _ :: _ => False

/-- `Σ position · price[d] · multiplier` over direct security children -/
def markKids (d : Nat) : List (Node K) → K
  | [] => 0
  | .sec s :: ks => s.position * (cell s.prices d).getD 0 * s.mult + markKids d ks
  | .strat _ _ :: ks => markKids d ks

/-- `Σ position · current price · multiplier` over direct security children -/
def worthKids : List (Node K) → K
  | [] => 0
  | .sec s :: ks => secWorth s + worthKids ks
  | .strat _ _ :: ks => worthKids ks

theorem sweepSec_fields (newpt : Bool) (s : SecData K) (acc : Acc K) :
    (sweepSec newpt s acc).1.needupdate = s.needupdate ∧ (sweepSec newpt s acc).1.position = s.position ∧
    (sweepSec newpt s acc).1.now = s.now ∧ (sweepSec newpt s acc).1.prices = s.prices ∧
    (sweepSec newpt s acc).1.mult = s.mult ∧ (sweepSec newpt s acc).2.val = acc.val := by
  unfold sweepSec; cases newpt <;> simp

/-- the value accumulator of the children loop on a new date -/
theorem updKids_val_fresh {cfg : Cfg K} {d : Nat} {newpt bo : Bool} (kids : List (Node K)) {acc acc' : Acc K}
    {kids' : List (Node K)} (hf : secKidsFresh d kids)
    (h : updKids cfg d newpt bo kids acc = .ok (kids', acc')) :
    acc'.val = acc.val + markKids d kids := by
  induction kids generalizing acc acc' kids' with
  | nil =>
    rw [updKids] at h
    simp only [pure, Except.pure, Except.ok.injEq, Prod.mk.injEq] at h
    obtain ⟨_, rfl⟩ := h
    simp [markKids]
  | cons k ks ih =>
    cases k with
    | strat sdk kk => simp [secKidsFresh] at hf
    | sec s =>
      rw [secKidsFresh] at hf
      obtain ⟨hnow, hflat, hrest⟩ := hf
      rw [updKids] at h
      obtain ⟨w1, w2, w3, w4, w5, w6⟩ := sweepSec_fields newpt s acc
      rcases hsp : sweepSec newpt s acc with ⟨s0, acc0⟩
      rw [hsp] at h w1 w2 w3 w4 w5 w6
      dsimp only at h w1 w2 w3 w4 w5 w6
      split at h
      · rename_i hnu
        obtain ⟨⟨ks', a⟩, h1, h2⟩ := Except.map_ok h
        simp only [Prod.mk.injEq] at h2
        obtain ⟨_, rfl⟩ := h2
        have hnu' : s.needupdate = false := by rw [← w1]; simpa using hnu
        rw [ih hrest h1, w6, markKids, hflat hnu']; ring
      · obtain ⟨s1, hu, h2⟩ := Except.bind_ok h
        obtain ⟨⟨ks', a⟩, h1, h3⟩ := Except.map_ok h2
        simp only [Prod.mk.injEq] at h3
        obtain ⟨_, rfl⟩ := h3
        have hv := secUpdate_value_newdate (by rw [w3]; exact hnow) hu
        rw [w2, w4, w5] at hv
        rw [ih hrest h1, markKids]
        show acc0.val + s1.value + markKids d ks = _
        rw [hv, w6]; ring

theorem stratRows_value_L (d : Nat) (sd : StratData K) : (stratRows d sd).value = sd.value := by
  unfold stratRows; dsimp only; split <;> rfl

theorem totalKids_secs (d : Nat) (kids : List (Node K)) (hf : secKidsFresh d kids) :
    totalKids kids = worthKids kids := by
  induction kids with
  | nil => rw [totalKids_nil]; rfl
  | cons k ks ih =>
    cases k with
    | strat sdk kk => simp [secKidsFresh] at hf
    | sec s =>
      rw [secKidsFresh] at hf
      rw [totalKids_cons, total_sec, worthKids, ih hf.2.2]

/-- `Σ position · (price[d] − current price) · multiplier` over direct security children -/
def mtmKids (d : Nat) : List (Node K) → K
  | [] => 0
  | .sec s :: ks => s.position * ((cell s.prices d).getD 0 - s.price.getD 0) * s.mult + mtmKids d ks
  | .strat _ _ :: ks => mtmKids d ks

theorem markKids_sub_worthKids (d : Nat) (kids : List (Node K)) :
    markKids d kids - worthKids kids = mtmKids d kids := by
  induction kids with
  | nil => simp [markKids, worthKids, mtmKids]
  | cons k ks ih =>
    cases k with
    | sec s => simp only [markKids, worthKids, mtmKids, secWorth_eq, ← ih]; ring
    | strat sdk kk => simp only [markKids, worthKids, mtmKids, ih]

theorem stratDateChange_newpt_L (d : Nat) (sd : StratData K) (h : sd.now ≠ some d) :
    (stratDateChange d sd).2 = true := by
  unfold stratDateChange
  cases hn : sd.now with
  | none => rfl
  | some n =>
    have : n ≠ d := fun e => h (by rw [hn, e])
    simp [this]

/-! ### the index across `update` -/

/-- the fields the index formula reads -/
def stratBaseEq (s t : StratData K) : Prop :=
  t.lastValue = s.lastValue ∧ t.lastPrice = s.lastPrice ∧ t.lastNotl = s.lastNotl ∧ t.netFlows = s.netFlows ∧
  t.fixedIncome = s.fixedIncome ∧ t.paperTrade = s.paperTrade

theorem stratWrite_base {cfg : Cfg K} {d : Nat} {newpt : Bool} {sd sd' : StratData K} {val notl bo : K}
    (h : stratWrite cfg d newpt sd val notl bo = .ok sd') : stratBaseEq sd sd' := by
  have hst : stratBaseEq sd (stratSetTotals d sd val notl bo) := by
    unfold stratSetTotals; dsimp only; split <;> exact ⟨rfl, rfl, rfl, rfl, rfl, rfl⟩
  rcases stratWrite_ok h with ⟨_, rfl⟩ | ⟨_, ret, ⟨_, _, rfl⟩ | ⟨_, _, rfl⟩⟩
  · exact ⟨rfl, rfl, rfl, rfl, rfl, rfl⟩
  · exact hst
  · exact hst

theorem stratRows_base (d : Nat) (sd : StratData K) : stratBaseEq sd (stratRows d sd) := by
  unfold stratRows; dsimp only; split <;> exact ⟨rfl, rfl, rfl, rfl, rfl, rfl⟩

theorem stratRows_price (d : Nat) (sd : StratData K) (h : sd.paperTrade = false) :
    (stratRows d sd).price = sd.price := by
  unfold stratRows; dsimp only; simp [h]

/-- value written by a successful write that took the write branch -/
theorem stratWrite_value {cfg : Cfg K} {d : Nat} {newpt : Bool} {sd sd' : StratData K} {val notl bo : K}
    (hch : stratChanged cfg newpt sd val notl = true)
    (h : stratWrite cfg d newpt sd val notl bo = .ok sd') : sd'.value = val := by
  rcases stratWrite_ok h with ⟨hc', _⟩ | ⟨_, ret, ⟨_, _, rfl⟩ | ⟨_, _, rfl⟩⟩
  · rw [hch] at hc'; cases hc'
  · exact (stratSetTotals_last d _ _ _ _).2.2.2.2.1
  · exact (stratSetTotals_last d _ _ _ _).2.2.2.2.1

theorem stratDateChange_cases (d : Nat) (sd : StratData K) :
    (∀ n, sd.now = some n → n ≠ d →
      (stratDateChange d sd).1 =
        { sd with netFlows := 0, lastFee := 0, lastPrice := sd.price, lastValue := sd.value,
                  lastNotl := sd.notl, now := some d }) ∧
    (sd.now = some d → (stratDateChange d sd).1 = { sd with now := some d }) ∧
    (sd.now = none → (stratDateChange d sd).1 = { sd with now := some d }) := by
  refine ⟨?_, ?_, ?_⟩
  · intro n hn hnd
    unfold stratDateChange; simp [hn, hnd]
  · intro hn
    unfold stratDateChange; simp [hn]
  · intro hn
    unfold stratDateChange; simp [hn]

/-! ### marking a whole tree to market on a new date -/

/-- `position · price[d] · multiplier` (0 without a price) -/
def secMark (d : Nat) (s : SecData K) : K := s.position * (cell s.prices d).getD 0 * s.mult

/-- cash parked on a node that its parent sweeps on a new date (securities only) -/
def parkedOf : Node K → K
  | .sec s => s.capital
  | .strat _ _ => 0

mutual
/-- the value `update(d)` computes for a node on a new date, as a function of the state before:
    a security is marked at the price of row `d`; a strategy is its cash plus, for every child, the child's
    value and the cash parked on it -/
def valNode (d : Nat) : Node K → K
  | .sec s => secMark d s
  | .strat sd kids => sd.capital + valKids d kids
def valKids (d : Nat) : List (Node K) → K
  | [] => 0
  | k :: ks => (valNode d k + parkedOf k) + valKids d ks
end

mutual
/-- no node of the subtree is on date `d` yet, and every skipped security is exactly flat -/
def Node.fresh (d : Nat) : Node K → Prop
  | .sec s => s.now ≠ some d ∧ (s.needupdate = false → s.position = 0)
  | .strat sd kids => sd.now ≠ some d ∧ Node.freshKids d kids
def Node.freshKids (d : Nat) : List (Node K) → Prop
  | [] => True
  | k :: ks => Node.fresh d k ∧ Node.freshKids d ks
end

theorem sweepSec_valcoupons (s : SecData K) (acc : Acc K) :
    (sweepSec true s acc).2.val + (sweepSec true s acc).2.coupons = acc.val + acc.coupons + s.capital := by
  unfold sweepSec; simp only [↓reduceIte]; ring

mutual
theorem updNode_value (cfg : Cfg K) (d : Nat) : ∀ (n n' : Node K), n.fresh d → updNode cfg d n = .ok n' →
    n'.value = valNode d n
  | .sec s, n', hf, h => by
    rw [updNode] at h
    obtain ⟨s1, h1, rfl⟩ := Except.map_ok h
    rw [Node.fresh] at hf
    rw [valNode]
    exact secUpdate_value_newdate hf.1 h1
  | .strat sd kids, n', hf, h => by
    rw [Node.fresh] at hf
    obtain ⟨kids1, acc, sd3, hkids, hw, rfl⟩ := updNode_strat_ok h
    have hnp := stratDateChange_newpt_L d sd hf.1
    rw [hnp] at hkids hw
    obtain ⟨e1, _, _, _⟩ := stratDateChange_rows d sd
    have hv := updKids_value cfg d _ kids _ _ _ hf.2 hkids
    simp only [add_zero, e1] at hv
    have hch : stratChanged cfg true
        { (stratDateChange d sd).1 with capital := (stratDateChange d sd).1.capital + acc.coupons }
        (acc.val + acc.coupons) acc.notl = true := by simp [stratChanged]
    show (stratRows d sd3).value = _
    rw [stratRows_value_L, stratWrite_value hch hw, hv, valNode]
theorem updKids_value (cfg : Cfg K) (d : Nat) (bo : Bool) : ∀ (kids : List (Node K)) (acc acc' : Acc K)
    (kids' : List (Node K)), Node.freshKids d kids → updKids cfg d true bo kids acc = .ok (kids', acc') →
    acc'.val + acc'.coupons = acc.val + acc.coupons + valKids d kids
  | [], acc, acc', kids', _, h => by
    rw [updKids] at h
    simp only [pure, Except.pure, Except.ok.injEq, Prod.mk.injEq] at h
    obtain ⟨_, rfl⟩ := h
    simp [valKids]
  | .sec s :: ks, acc, acc', kids', hf, h => by
    rw [Node.freshKids, Node.fresh] at hf
    obtain ⟨⟨hnow, hflat⟩, hrest⟩ := hf
    rw [updKids] at h
    obtain ⟨w1, w2, w3, w4, w5, _⟩ := sweepSec_fields true s acc
    have w7 := sweepSec_valcoupons s acc
    rcases hsp : sweepSec true s acc with ⟨s0, acc0⟩
    rw [hsp] at h w1 w2 w3 w4 w5 w7
    dsimp only at h w1 w2 w3 w4 w5 w7
    split at h
    · rename_i hnu
      obtain ⟨⟨ks', a⟩, h1, h2⟩ := Except.map_ok h
      simp only [Prod.mk.injEq] at h2
      obtain ⟨_, rfl⟩ := h2
      have hnu' : s.needupdate = false := by rw [← w1]; simpa using hnu
      rw [updKids_value cfg d bo ks _ _ _ hrest h1, w7, valKids, valNode, parkedOf, secMark, hflat hnu']; ring
    · obtain ⟨s1, hu, h2⟩ := Except.bind_ok h
      obtain ⟨⟨ks', a⟩, h1, h3⟩ := Except.map_ok h2
      simp only [Prod.mk.injEq] at h3
      obtain ⟨_, rfl⟩ := h3
      have hv := secUpdate_value_newdate (by rw [w3]; exact hnow) hu
      rw [w2, w4, w5] at hv
      rw [updKids_value cfg d bo ks _ _ _ hrest h1, valKids, valNode, parkedOf, secMark]
      show acc0.val + s1.value + acc0.coupons + valKids d ks = _
      rw [hv]; linear_combination w7
  | .strat sdk kk :: ks, acc, acc', kids', hf, h => by
    rw [Node.freshKids] at hf
    rw [updKids] at h
    obtain ⟨k1, hk1, h2⟩ := Except.bind_ok h
    obtain ⟨⟨ks', a⟩, h1, h3⟩ := Except.map_ok h2
    simp only [Prod.mk.injEq] at h3
    obtain ⟨_, rfl⟩ := h3
    have hv := updNode_value cfg d (.strat sdk kk) k1 hf.1 hk1
    rw [updKids_value cfg d bo ks _ _ _ hf.2 h1, valKids, parkedOf]
    show acc.val + k1.value + acc.coupons + valKids d ks = _
    rw [hv]; ring
end

/-- mark-to-market change of one security -/
def secMtm (d : Nat) (s : SecData K) : K :=
  s.position * ((cell s.prices d).getD 0 - s.price.getD 0) * s.mult

/-- `Σ position · (price[d] − price) · multiplier` over every security of the subtree -/
def mtmAll (d : Nat) (n : Node K) : K := nodeSum (secMtm d) (fun _ => 0) n
/-- cash parked on every security of the subtree (coupons less holding costs of the last update) -/
def parkedAll (n : Node K) : K := nodeSum (fun s => s.capital) (fun _ => 0) n

mutual
theorem valNode_sub_total (d : Nat) : ∀ n : Node K,
    valNode d n + parkedOf n - total n = mtmAll d n + parkedAll n
  | .sec s => by
    simp only [valNode, parkedOf, total, mtmAll, parkedAll, nodeSum, secMark, secMtm, secWorth_eq]; ring
  | .strat sd kids => by
    have ih := valKids_sub_total d kids
    simp only [valNode, parkedOf, total, mtmAll, parkedAll, nodeSum] at ih ⊢
    linear_combination ih
theorem valKids_sub_total (d : Nat) : ∀ ks : List (Node K),
    valKids d ks - kidsSum secWorth (fun d => d.capital) ks =
      kidsSum (secMtm d) (fun _ => 0) ks + kidsSum (fun s => s.capital) (fun _ => 0) ks
  | [] => by simp [valKids, kidsSum]
  | k :: ks => by
    have ih1 := valNode_sub_total d k
    have ih2 := valKids_sub_total d ks
    simp only [total, mtmAll, parkedAll] at ih1
    simp only [valKids, kidsSum]
    linear_combination ih1 + ih2
end

/-! ### outlays recorded by a security (row of the date + the not yet flushed accumulator) -/

/-- outlay recorded for date `d`: what is already in the `outlays` row plus the pending accumulator -/
def secOutlayTot (d : Nat) (s : SecData K) : K := s.rOutlay.getD d 0 + s.outlayAcc

def secOutlayEq (s t : SecData K) : Prop := t.rOutlay = s.rOutlay ∧ t.outlayAcc = s.outlayAcc

theorem secOutlayEq.tot {s t : SecData K} (h : secOutlayEq s t) (d : Nat) :
    secOutlayTot d t = secOutlayTot d s ∧ t.rOutlay.length = s.rOutlay.length := by
  unfold secOutlayTot; rw [h.1, h.2]; exact ⟨rfl, rfl⟩

theorem secFlushOutlay_tot (d : Nat) (s : SecData K) (hd : d < s.rOutlay.length) :
    secOutlayTot d (secFlushOutlay d s) = secOutlayTot d s ∧
    (secFlushOutlay d s).rOutlay.length = s.rOutlay.length := by
  unfold secFlushOutlay; split
  · simp only [secOutlayTot, List.length_set, add_zero, and_true]
    rw [List.getD_eq_getElem?_getD, List.getD_eq_getElem?_getD, List.getElem?_set_self hd]
    simp
  · exact ⟨rfl, rfl⟩

theorem secDateChange_outlay (d : Nat) (s : SecData K) : secOutlayEq s (secDateChange d s) := by
  unfold secDateChange; split <;> exact ⟨rfl, rfl⟩
theorem secQuiet_outlay (cfg : Cfg K) (s : SecData K) : secOutlayEq s (secQuiet cfg s) := by
  unfold secQuiet; split <;> exact ⟨rfl, rfl⟩
theorem secRowBidoffer_outlay (d : Nat) (s : SecData K) : secOutlayEq s (secRowBidoffer d s) := by
  unfold secRowBidoffer; split <;> exact ⟨rfl, rfl⟩
theorem secCouponTail_outlay {cfg : Cfg K} {d : Nat} {s t : SecData K} (h : secCouponTail cfg d s = .ok t) :
    secOutlayEq s t := by
  unfold secCouponTail at h
  obtain ⟨cpn, _, h2⟩ := Except.bind_ok h
  obtain ⟨hc, _, h3⟩ := Except.bind_ok h2
  simp only [pure, Except.pure, Except.ok.injEq] at h3
  subst h3; exact ⟨rfl, rfl⟩

theorem secBaseUpdate_outlay {cfg : Cfg K} {d : Nat} {s t : SecData K} (hd : d < s.rOutlay.length)
    (h : secBaseUpdate cfg d s = .ok t) :
    secOutlayTot d t = secOutlayTot d s ∧ t.rOutlay.length = s.rOutlay.length := by
  unfold secBaseUpdate at h
  split at h
  · simp only [pure, Except.pure, Except.ok.injEq] at h; subst h; exact ⟨rfl, rfl⟩
  · obtain ⟨v, _, hv⟩ := Except.map_ok h
    subst hv
    have e0 : secOutlayEq s (secQuiet cfg (secSetValue d v (secRecordPos d (secDateChange d s)))) := by
      have a := secDateChange_outlay d s
      have b := secQuiet_outlay cfg (secSetValue d v (secRecordPos d (secDateChange d s)))
      exact ⟨b.1.trans a.1, b.2.trans a.2⟩
    obtain ⟨t1, l1⟩ := e0.tot d
    obtain ⟨t2, l2⟩ := secFlushOutlay_tot d _ (by rw [l1]; exact hd)
    obtain ⟨t3, l3⟩ := (secRowBidoffer_outlay d (secFlushOutlay d (secQuiet cfg
      (secSetValue d v (secRecordPos d (secDateChange d s)))))).tot d
    exact ⟨t3.trans (t2.trans t1), l3.trans (l2.trans l1)⟩

theorem secUpdate_outlay {cfg : Cfg K} {d : Nat} {s t : SecData K} (hd : d < s.rOutlay.length)
    (h : secUpdate cfg d s = .ok t) :
    secOutlayTot d t = secOutlayTot d s ∧ t.rOutlay.length = s.rOutlay.length := by
  unfold secUpdate at h
  obtain ⟨s1, h1, h2⟩ := Except.bind_ok h
  obtain ⟨c1, c2⟩ := secBaseUpdate_outlay hd h1
  have fi : secOutlayEq s1 (secFiTail d s1) := ⟨rfl, rfl⟩
  cases hk : s.kind <;> simp only [hk, pure, Except.pure, Except.ok.injEq] at h2
  · subst h2; exact ⟨c1, c2⟩
  · subst h2; exact ⟨c1, c2⟩
  · obtain ⟨a, b⟩ := (secCouponTail_outlay h2).tot d
    obtain ⟨a', b'⟩ := fi.tot d
    exact ⟨a.trans (a'.trans c1), b.trans (b'.trans c2)⟩
  · subst h2; exact ⟨c1, c2⟩
  · obtain ⟨u, hu, hu2⟩ := Except.map_ok h2
    subst hu2
    obtain ⟨a, b⟩ := (secCouponTail_outlay hu).tot d
    obtain ⟨a', b'⟩ := fi.tot d
    have hh : secOutlayEq u (secHedgeTail u) := ⟨rfl, rfl⟩
    obtain ⟨a'', b''⟩ := hh.tot d
    exact ⟨a''.trans (a.trans (a'.trans c1)), b''.trans (b.trans (b'.trans c2))⟩

theorem secRefresh_outlay {cfg : Cfg K} {d : Nat} {s t : SecData K} (hd : d < s.rOutlay.length)
    (h : secRefresh cfg (some d) s = .ok t) :
    secOutlayTot d t = secOutlayTot d s ∧ t.rOutlay.length = s.rOutlay.length := by
  unfold secRefresh at h
  split at h
  · exact secUpdate_outlay hd h
  · simp only [pure, Except.pure, Except.ok.injEq] at h; subst h; exact ⟨rfl, rfl⟩

/-- a trade: the outlay recorded moves by exactly what the parent is charged net of the fee -/
theorem secTransactCore_outlay {cfg : Cfg K} {comm : K → K → K} {s s' : SecData K} {q : K} {c : Option K}
    {oa : Option (Adj K)} (d : Nat) (h : secTransactCore cfg comm s q c = .ok (s', oa)) :
    adjNet oa.toList = -(secOutlayTot d s' - secOutlayTot d s) ∧ s'.rOutlay.length = s.rOutlay.length := by
  rcases secTransactCore_ok h with ⟨_, rfl, rfl⟩ | ⟨_, full, outlay, fee, bo, ho, rfl, rfl⟩
  · simp [adjNet]
  · obtain ⟨p, _, _, rfl⟩ := secOutlay_shape ho
    refine ⟨?_, rfl⟩
    simp only [secOutlayTot, adjNet, Option.toList, adjAmounts_cons, adjFees_cons, adjAmounts_nil, adjFees_nil]
    ring

theorem secAllocate_outlay {cfg : Cfg K} {d : Nat} {comm : K → K → K} {s s' : SecData K} {amount : K}
    {oa : Option (Adj K)} (hd : d < s.rOutlay.length)
    (h : secAllocate cfg (some d) comm s amount = .ok (s', oa)) :
    adjNet oa.toList = -(secOutlayTot d s' - secOutlayTot d s) ∧ s'.rOutlay.length = s.rOutlay.length := by
  obtain ⟨s1, hr, ⟨_, rfl, rfl⟩ | ⟨q, _, ht⟩⟩ := secAllocate_cases h
  · obtain ⟨a, b⟩ := secRefresh_outlay hd hr
    exact ⟨by simp [adjNet, a], b⟩
  · obtain ⟨a, b⟩ := secRefresh_outlay hd hr
    obtain ⟨a', b'⟩ := secTransactCore_outlay d ht
    exact ⟨by rw [a', a], b'.trans b⟩

/-- outlays recorded for date `d` by the direct security children -/
def outlayKids (d : Nat) : List (Node K) → K
  | [] => 0
  | .sec s :: ks => secOutlayTot d s + outlayKids d ks
  | .strat _ _ :: ks => outlayKids d ks

/-- capital `allocate(amount)` passes to the direct sub-strategy children -/
def passedKids (amount : K) : List (Node K) → K
  | [] => 0
  | .sec _ :: ks => passedKids amount ks
  | .strat sd _ :: ks => amount * sd.weight + passedKids amount ks

/-- row `d` exists in the `outlays` series of every direct security child -/
def rowsOK (d : Nat) : List (Node K) → Prop
  | [] => True
  | .sec s :: ks => d < s.rOutlay.length ∧ rowsOK d ks
  | .strat _ _ :: ks => rowsOK d ks

/-- The cash ledger of one `allocate` pushed through a strategy's children: `capital + last_fee` moves by
    minus the outlays its own securities record, minus the capital passed to its sub-strategies. -/
theorem allocKids_ledger {cfg : Cfg K} {amount : K} {d : Nat} (kids : List (Node K)) {sd sd2 : StratData K}
    {kids2 : List (Node K)} (hnow : sd.now = some d) (hrows : rowsOK d kids)
    (h : allocKids cfg amount kids sd = .ok (sd2, kids2)) :
    stratW sd2 + outlayKids d kids2 = stratW sd + outlayKids d kids - passedKids amount kids ∧
    rowsOK d kids2 := by
  induction kids generalizing sd sd2 kids2 with
  | nil =>
    rw [allocKids] at h
    simp only [pure, Except.pure, Except.ok.injEq, Prod.mk.injEq] at h
    obtain ⟨rfl, rfl⟩ := h
    simp [outlayKids, passedKids, rowsOK]
  | cons k ks ih =>
    rw [allocKids] at h
    obtain ⟨⟨k', adjs⟩, h1, h2⟩ := Except.bind_ok h
    obtain ⟨⟨sd'', ks'⟩, h3, h4⟩ := Except.map_ok h2
    simp only [Prod.mk.injEq] at h4
    obtain ⟨rfl, rfl⟩ := h4
    have hnow' : (adjs.foldl StratData.adjust sd).now = some d := by rw [foldl_adjust_now, hnow]
    cases k with
    | sec s =>
      rw [rowsOK] at hrows
      obtain ⟨f1, f2⟩ := ih hnow' hrows.2 h3
      rw [allocNode, hnow] at h1
      obtain ⟨⟨s', oa⟩, g1, g2⟩ := Except.map_ok h1
      simp only [Prod.mk.injEq] at g2
      obtain ⟨rfl, rfl⟩ := g2
      obtain ⟨o1, o2⟩ := secAllocate_outlay hrows.1 g1
      rw [stratW_foldl] at f1
      refine ⟨?_, by rw [rowsOK]; exact ⟨by rw [o2]; exact hrows.1, f2⟩⟩
      simp only [outlayKids, passedKids]
      linear_combination f1 + o1
    | strat sdk kk =>
      rw [rowsOK] at hrows
      obtain ⟨f1, f2⟩ := ih hnow' hrows h3
      rw [allocNode] at h1
      obtain ⟨⟨sdk2, kk2⟩, _, g2⟩ := Except.map_ok h1
      simp only [Prod.mk.injEq] at g2
      obtain ⟨rfl, rfl⟩ := g2
      rw [stratW_foldl] at f1
      refine ⟨?_, by rw [rowsOK]; exact f2⟩
      have hw : (Node.strat sdk kk).weight = sdk.weight := rfl
      rw [hw] at f1
      simp only [outlayKids, passedKids]
      simp only [adjNet, adjAmounts_cons, adjFees_cons, adjAmounts_nil, adjFees_nil] at f1
      linear_combination f1

/-! ### world-level operations: conservation and preservation of `synced` -/

theorem modAt_synced (f : Option (StratData K) → Node K → Except Err (OpRes K))
    (hf : ∀ par n n' adjs st, n.synced (parNow par) → f par n = .ok (n', adjs, st) → n'.synced (parNow par)) :
    ∀ (path : List Nat) (par : Option (StratData K)) (n n' : Node K) (adjs : List (Adj K)) (st : Bool),
      n.synced (parNow par) → modAt f path par n = .ok (n', adjs, st) → n'.synced (parNow par)
  | [], par, n, n', adjs, st, hp, h => by rw [modAt] at h; exact hf par n n' adjs st hp h
  | i :: rest, par, .sec s, n', adjs, st, _, h => by rw [modAt] at h; cases h
  | i :: rest, par, .strat sd kids, n', adjs, st, hp, h => by
    rw [modAt] at h
    cases hk : kids[i]? with
    | none => simp [hk] at h
    | some k =>
      simp only [hk] at h
      obtain ⟨⟨k', a, st'⟩, h1, h2⟩ := Except.map_ok h
      simp only [Prod.mk.injEq] at h2
      obtain ⟨rfl, rfl, rfl⟩ := h2
      have ih := modAt_synced f hf rest (some sd) k k' a st' (synced_descend par sd kids i k hp hk) h1
      rw [Node.synced] at hp ⊢
      rw [foldl_adjust_now]
      exact syncedKids_set hp i ih

/-- adjustments that reach above the root: none, provided the operation returns none at the root itself -/
theorem modAt_root_adjs (f : Option (StratData K) → Node K → Except Err (OpRes K))
    (hroot : ∀ n n' adjs st, f none n = .ok (n', adjs, st) → adjs = [])
    (path : List Nat) (n n' : Node K) (adjs : List (Adj K)) (st : Bool)
    (h : modAt f path none n = .ok (n', adjs, st)) : adjs = [] := by
  cases path with
  | nil => rw [modAt] at h; exact hroot n n' adjs st h
  | cons i rest =>
    cases n with
    | sec s => rw [modAt] at h; cases h
    | strat sd kids =>
      rw [modAt] at h
      cases hk : kids[i]? with
      | none => simp [hk] at h
      | some k =>
        simp only [hk] at h
        obtain ⟨_, _, h4⟩ := Except.map_ok h
        simp only [Prod.mk.injEq] at h4
        exact h4.2.1.symm

/-- A node-level operation that moves `ledgerW` by `δ` (adjustments to the parent counted) and keeps the
    subtree synced does the same to the whole world, wherever in the tree it is applied. -/
theorem modify_W (f : Option (StratData K) → Node K → Except Err (OpRes K)) (δ : K)
    (hf : ∀ par n n' adjs st, n.synced (parNow par) → f par n = .ok (n', adjs, st) →
      ledgerW n' + adjNet adjs = ledgerW n + δ ∧ n'.synced (parNow par))
    (hroot : ∀ n n' adjs st, f none n = .ok (n', adjs, st) → adjs = [])
    (w w' : World K) (path : List Nat) (hs : w.root.synced none) (h : w.modify path f = .ok w') :
    ledgerW w'.root = ledgerW w.root + δ ∧ w'.root.synced none := by
  unfold World.modify at h
  obtain ⟨⟨r, a, st⟩, h1, h2⟩ := Except.map_ok h
  subst h2
  have ha := modAt_root_adjs f hroot path w.root r a st h1
  subst ha
  have key := modAt_nodeSum secW stratW (fun a => a.amount + a.fee)
    (by intro sd a; simp only [stratW, StratData.adjust]; ring)
    (fun par n => n.synced (parNow par)) synced_descend f δ
    (by intro par n n' adjs st hp hfn; rw [adjNet_eq_sum]; exact (hf par n n' adjs st hp hfn).1)
    path none w.root r [] st hs h1
  have hsy := modAt_synced f (fun par n n' adjs st hp hfn => (hf par n n' adjs st hp hfn).2)
    path none w.root r [] st hs h1
  simp only [List.map_nil, List.sum_nil, add_zero] at key
  exact ⟨key, hsy⟩

theorem opAdjust_W (w w' : World K) (path : List Nat) (amount : K) (update flow : Bool)
    (hs : w.root.synced none) (h : opAdjust w path amount update flow = .ok w') :
    ledgerW w'.root = ledgerW w.root + amount ∧ w'.root.synced none := by
  unfold opAdjust at h
  refine modify_W _ amount ?_ ?_ w w' path hs h
  · intro par n n' adjs st hp hf
    cases n with
    | sec s => cases hf
    | strat sd kids =>
      simp only [pure, Except.pure, Except.ok.injEq, Prod.mk.injEq] at hf
      obtain ⟨rfl, rfl, _⟩ := hf
      refine ⟨?_, hp⟩
      simp only [ledgerW, nodeSum, stratW, StratData.adjust, adjNet, adjAmounts_nil, adjFees_nil]
      ring
  · intro n n' adjs st hf
    cases n with
    | sec s => cases hf
    | strat sd kids =>
      simp only [pure, Except.pure, Except.ok.injEq, Prod.mk.injEq] at hf
      exact hf.2.1.symm

theorem opAllocate_W (cfg : Cfg K) (w w' : World K) (path : List Nat) (amount : K) (update : Bool)
    (hs : w.root.synced none) (h : opAllocate cfg w path amount update = .ok w') :
    ledgerW w'.root = ledgerW w.root + 0 ∧ w'.root.synced none := by
  unfold opAllocate at h
  refine modify_W _ 0 ?_ ?_ w w' path hs h
  · intro par n n' adjs st hp hf
    rw [add_zero]
    cases n with
    | sec s =>
      cases par with
      | none => cases hf
      | some p =>
        simp only at hf
        obtain ⟨⟨s', oa⟩, h3, h4⟩ := Except.map_ok hf
        simp only [Prod.mk.injEq] at h4
        obtain ⟨rfl, rfl, _⟩ := h4
        simp only [Node.synced, parNow, Option.bind] at hp
        obtain ⟨e1, e2⟩ := secAllocate_W hp h3
        simp only [ledgerW, nodeSum, Node.synced, parNow, Option.bind]; exact ⟨e1, e2⟩
    | strat sd kids =>
      cases par with
      | none =>
        simp only at hf
        rw [adjust_cancel] at hf
        obtain ⟨⟨sd2, kids2⟩, h3, h4⟩ := Except.map_ok hf
        simp only [Prod.mk.injEq] at h4
        obtain ⟨rfl, rfl, _⟩ := h4
        rw [Node.synced] at hp
        obtain ⟨e1, e2, e3⟩ := allocKids_W cfg kids amount sd sd2 kids2 hp h3
        refine ⟨?_, by rw [Node.synced, e2]; exact e3⟩
        simp only [ledgerW, nodeSum, adjNet, adjAmounts_nil, adjFees_nil]
        simp only [ledgerWKids] at e1
        linear_combination e1
      | some p =>
        simp only at hf
        obtain ⟨⟨n2, adjs2⟩, h3, h4⟩ := Except.map_ok hf
        simp only [Prod.mk.injEq] at h4
        obtain ⟨rfl, rfl, _⟩ := h4
        exact allocNode_W cfg _ p.now p.comm amount n2 adjs2 hp h3
  · intro n n' adjs st hf
    cases n with
    | sec s => cases hf
    | strat sd kids =>
      simp only at hf
      obtain ⟨_, _, h4⟩ := Except.map_ok hf
      simp only [Prod.mk.injEq] at h4
      exact h4.2.1.symm

theorem opTransact_W (cfg : Cfg K) (w w' : World K) (path : List Nat) (q : K) (update : Bool)
    (custom : Option K) (hs : w.root.synced none) (h : opTransact cfg w path q update custom = .ok w') :
    ledgerW w'.root = ledgerW w.root + 0 ∧ w'.root.synced none := by
  unfold opTransact at h
  refine modify_W _ 0 ?_ ?_ w w' path hs h
  · intro par n n' adjs st hp hf
    rw [add_zero]
    cases n with
    | sec s =>
      cases par with
      | none => cases hf
      | some p =>
        simp only at hf
        obtain ⟨⟨s', oa⟩, h3, h4⟩ := Except.map_ok hf
        simp only [Prod.mk.injEq] at h4
        obtain ⟨rfl, rfl, _⟩ := h4
        simp only [Node.synced, parNow, Option.bind] at hp
        obtain ⟨e1, e2⟩ := secTransact_W hp h3
        simp only [ledgerW, nodeSum, Node.synced, parNow, Option.bind]; exact ⟨e1, e2⟩
    | strat sd kids =>
      have hf' : (transKids cfg q kids sd).map (fun x => ((Node.strat x.1 x.2 : Node K), ([] : List (Adj K)), update))
          = .ok (n', adjs, st) := by
        cases par <;> exact hf
      obtain ⟨⟨sd2, kids2⟩, h3, h4⟩ := Except.map_ok hf'
      simp only [Prod.mk.injEq] at h4
      obtain ⟨rfl, rfl, _⟩ := h4
      rw [Node.synced] at hp
      obtain ⟨e1, e2, e3⟩ := transKids_W cfg kids q sd sd2 kids2 hp h3
      refine ⟨?_, by rw [Node.synced, e2]; exact e3⟩
      simp only [ledgerW, nodeSum, adjNet, adjAmounts_nil, adjFees_nil]
      simp only [ledgerWKids] at e1
      linear_combination e1
  · intro n n' adjs st hf
    cases n with
    | sec s => cases hf
    | strat sd kids =>
      simp only at hf
      obtain ⟨_, _, h4⟩ := Except.map_ok hf
      simp only [Prod.mk.injEq] at h4
      exact h4.2.1.symm

/-! ### a day's worth of operations -/

/-- the capital-moving operations an algo stack performs between two updates -/
inductive DayOp (K : Type) where
  | adjust (path : List Nat) (amount : K) (update flow : Bool)
  | allocate (path : List Nat) (amount : K) (update : Bool)
  | transact (path : List Nat) (q : K) (update : Bool) (custom : Option K)

def DayOp.run (cfg : Cfg K) (w : World K) : DayOp K → Except Err (World K)
  | .adjust path amount update flow => opAdjust w path amount update flow
  | .allocate path amount update => opAllocate cfg w path amount update
  | .transact path q update custom => opTransact cfg w path q update custom

/-- capital injected from outside by the operation (only `adjust` does) -/
def DayOp.injected : DayOp K → K
  | .adjust _ amount _ _ => amount
  | _ => 0

def runDayOps (cfg : Cfg K) : World K → List (DayOp K) → Except Err (World K)
  | w, [] => pure w
  | w, op :: ops => (op.run cfg w).bind fun w1 => runDayOps cfg w1 ops

def injectedSum (ops : List (DayOp K)) : K := (ops.map DayOp.injected).sum

theorem runDayOps_W (cfg : Cfg K) (ops : List (DayOp K)) (w w' : World K) (hs : w.root.synced none)
    (h : runDayOps cfg w ops = .ok w') :
    ledgerW w'.root = ledgerW w.root + injectedSum ops ∧ w'.root.synced none := by
  induction ops generalizing w with
  | nil =>
    rw [runDayOps] at h
    simp only [pure, Except.pure, Except.ok.injEq] at h
    subst h; simp [injectedSum, hs]
  | cons op ops ih =>
    rw [runDayOps] at h
    obtain ⟨w1, h1, h2⟩ := Except.bind_ok h
    have step : ledgerW w1.root = ledgerW w.root + op.injected ∧ w1.root.synced none := by
      cases op with
      | adjust path amount update flow => exact opAdjust_W w w1 path amount update flow hs h1
      | allocate path amount update => exact opAllocate_W cfg w w1 path amount update hs h1
      | transact path q update custom => exact opTransact_W cfg w w1 path q update custom hs h1
    obtain ⟨e1, e2⟩ := ih w1 step.2 h2
    refine ⟨?_, e2⟩
    rw [e1, step.1]
    simp only [injectedSum, List.map_cons, List.sum_cons]; ring

/-! ### what the day's operations leave alone on the root -/

/-- the index-relevant fields no capital operation touches -/
def stratIdxEq (s t : StratData K) : Prop :=
  t.lastValue = s.lastValue ∧ t.lastPrice = s.lastPrice ∧ t.lastNotl = s.lastNotl ∧
  t.fixedIncome = s.fixedIncome ∧ t.paperTrade = s.paperTrade ∧ t.now = s.now ∧
  t.value = s.value ∧ t.price = s.price ∧ t.notl = s.notl

theorem stratIdxEq.refl (s : StratData K) : stratIdxEq s s := ⟨rfl, rfl, rfl, rfl, rfl, rfl, rfl, rfl, rfl⟩

theorem stratIdxEq.trans {s t u : StratData K} (h1 : stratIdxEq s t) (h2 : stratIdxEq t u) : stratIdxEq s u := by
  obtain ⟨a1, a2, a3, a4, a5, a6, a7, a8, a9⟩ := h1
  obtain ⟨b1, b2, b3, b4, b5, b6, b7, b8, b9⟩ := h2
  exact ⟨b1.trans a1, b2.trans a2, b3.trans a3, b4.trans a4, b5.trans a5, b6.trans a6, b7.trans a7,
    b8.trans a8, b9.trans a9⟩

theorem adjust_idx (sd : StratData K) (a : Adj K) : stratIdxEq sd (sd.adjust a) :=
  ⟨rfl, rfl, rfl, rfl, rfl, rfl, rfl, rfl, rfl⟩

theorem foldl_adjust_idx (L : List (Adj K)) (sd : StratData K) : stratIdxEq sd (L.foldl StratData.adjust sd) := by
  induction L generalizing sd with
  | nil => exact stratIdxEq.refl sd
  | cons a L ih => rw [List.foldl_cons]; exact (adjust_idx sd a).trans (ih _)

theorem allocKids_idx {cfg : Cfg K} {amount : K} (kids : List (Node K)) {sd sd2 : StratData K}
    {kids2 : List (Node K)} (h : allocKids cfg amount kids sd = .ok (sd2, kids2)) : stratIdxEq sd sd2 := by
  obtain ⟨L, _, _, rfl, _⟩ := allocKids_trace kids h
  exact foldl_adjust_idx L sd

theorem transKids_idx {cfg : Cfg K} {q : K} (kids : List (Node K)) {sd sd2 : StratData K}
    {kids2 : List (Node K)} (h : transKids cfg q kids sd = .ok (sd2, kids2)) : stratIdxEq sd sd2 := by
  induction kids generalizing sd sd2 kids2 with
  | nil =>
    rw [transKids] at h
    simp only [pure, Except.pure, Except.ok.injEq, Prod.mk.injEq] at h
    obtain ⟨rfl, rfl⟩ := h
    exact stratIdxEq.refl sd
  | cons k ks ih =>
    rw [transKids] at h
    obtain ⟨⟨k', adjs⟩, _, h2⟩ := Except.bind_ok h
    obtain ⟨⟨sd'', ks'⟩, h3, h4⟩ := Except.map_ok h2
    simp only [Prod.mk.injEq] at h4
    obtain ⟨rfl, rfl⟩ := h4
    exact (foldl_adjust_idx adjs sd).trans (ih h3)

/-- an operation routed by `modAt` that is index-neutral on the node it is applied to is index-neutral on
    the node at the top of the path -/
theorem modAt_top_idx (f : Option (StratData K) → Node K → Except Err (OpRes K))
    (hf : ∀ par sd kids n' adjs st, f par (.strat sd kids) = .ok (n', adjs, st) →
      ∃ sd' kids', n' = .strat sd' kids' ∧ stratIdxEq sd sd')
    (path : List Nat) (par : Option (StratData K)) (sd : StratData K) (kids : List (Node K)) (n' : Node K)
    (adjs : List (Adj K)) (st : Bool) (h : modAt f path par (.strat sd kids) = .ok (n', adjs, st)) :
    ∃ sd' kids', n' = .strat sd' kids' ∧ stratIdxEq sd sd' := by
  cases path with
  | nil => rw [modAt] at h; exact hf par sd kids n' adjs st h
  | cons i rest =>
    rw [modAt] at h
    cases hk : kids[i]? with
    | none => simp [hk] at h
    | some k =>
      simp only [hk] at h
      obtain ⟨⟨k', a, st'⟩, _, h2⟩ := Except.map_ok h
      simp only [Prod.mk.injEq] at h2
      obtain ⟨rfl, _, _⟩ := h2
      exact ⟨_, _, rfl, foldl_adjust_idx a sd⟩

theorem DayOp.run_root_idx (cfg : Cfg K) (op : DayOp K) (w w' : World K) (sd : StratData K) (kids : List (Node K))
    (hr : w.root = .strat sd kids) (h : op.run cfg w = .ok w') :
    ∃ sd' kids', w'.root = .strat sd' kids' ∧ stratIdxEq sd sd' := by
  cases op with
  | adjust path amount update flow =>
    simp only [DayOp.run, opAdjust, World.modify] at h
    obtain ⟨⟨r, a, st⟩, h1, h2⟩ := Except.map_ok h
    subst h2
    rw [hr] at h1
    refine modAt_top_idx _ ?_ path none sd kids r a st h1
    intro par sd0 kids0 n' adjs st' hf
    simp only [pure, Except.pure, Except.ok.injEq, Prod.mk.injEq] at hf
    obtain ⟨rfl, _, _⟩ := hf
    exact ⟨_, _, rfl, adjust_idx sd0 _⟩
  | allocate path amount update =>
    simp only [DayOp.run, opAllocate, World.modify] at h
    obtain ⟨⟨r, a, st⟩, h1, h2⟩ := Except.map_ok h
    subst h2
    rw [hr] at h1
    refine modAt_top_idx _ ?_ path none sd kids r a st h1
    intro par sd0 kids0 n' adjs st' hf
    cases par with
    | none =>
      simp only at hf
      rw [adjust_cancel] at hf
      obtain ⟨⟨sd2, kids2⟩, h3, h4⟩ := Except.map_ok hf
      simp only [Prod.mk.injEq] at h4
      obtain ⟨rfl, _, _⟩ := h4
      exact ⟨_, _, rfl, allocKids_idx kids0 h3⟩
    | some p =>
      simp only at hf
      obtain ⟨⟨n2, adjs2⟩, h3, h4⟩ := Except.map_ok hf
      simp only [Prod.mk.injEq] at h4
      obtain ⟨rfl, _, _⟩ := h4
      rw [allocNode] at h3
      obtain ⟨⟨sd2, kids2⟩, h5, h6⟩ := Except.map_ok h3
      simp only [Prod.mk.injEq] at h6
      obtain ⟨rfl, _⟩ := h6
      exact ⟨_, _, rfl, (adjust_idx sd0 _).trans (allocKids_idx kids0 h5)⟩
  | transact path q update custom =>
    simp only [DayOp.run, opTransact, World.modify] at h
    obtain ⟨⟨r, a, st⟩, h1, h2⟩ := Except.map_ok h
    subst h2
    rw [hr] at h1
    refine modAt_top_idx _ ?_ path none sd kids r a st h1
    intro par sd0 kids0 n' adjs st' hf
    have hf' : (transKids cfg q kids0 sd0).map
        (fun x => ((Node.strat x.1 x.2 : Node K), ([] : List (Adj K)), update)) = .ok (n', adjs, st') := by
      cases par <;> exact hf
    obtain ⟨⟨sd2, kids2⟩, h3, h4⟩ := Except.map_ok hf'
    simp only [Prod.mk.injEq] at h4
    obtain ⟨rfl, _, _⟩ := h4
    exact ⟨_, _, rfl, transKids_idx kids0 h3⟩

theorem runDayOps_root_idx (cfg : Cfg K) (ops : List (DayOp K)) (w w' : World K) (sd : StratData K)
    (kids : List (Node K)) (hr : w.root = .strat sd kids) (h : runDayOps cfg w ops = .ok w') :
    ∃ sd' kids', w'.root = .strat sd' kids' ∧ stratIdxEq sd sd' := by
  induction ops generalizing w sd kids with
  | nil =>
    rw [runDayOps] at h
    simp only [pure, Except.pure, Except.ok.injEq] at h
    subst h; exact ⟨sd, kids, hr, stratIdxEq.refl sd⟩
  | cons op ops ih =>
    rw [runDayOps] at h
    obtain ⟨w1, h1, h2⟩ := Except.bind_ok h
    obtain ⟨sd1, kids1, hr1, e1⟩ := DayOp.run_root_idx cfg op w w1 sd kids hr h1
    obtain ⟨sd2, kids2, hr2, e2⟩ := ih w1 sd1 kids1 hr1 h2
    exact ⟨sd2, kids2, hr2, e1.trans e2⟩

theorem stratWrite_now {cfg : Cfg K} {d : Nat} {newpt : Bool} {sd sd' : StratData K} {val notl bo : K}
    (h : stratWrite cfg d newpt sd val notl bo = .ok sd') : sd'.now = sd.now := by
  have hst : (stratSetTotals d sd val notl bo).now = sd.now := by
    unfold stratSetTotals; dsimp only; split <;> rfl
  rcases stratWrite_ok h with ⟨_, rfl⟩ | ⟨_, ret, ⟨_, _, rfl⟩ | ⟨_, _, rfl⟩⟩
  · rfl
  · exact hst
  · exact hst

theorem stratRows_now_L (d : Nat) (sd : StratData K) : (stratRows d sd).now = sd.now := by
  unfold stratRows; dsimp only; split <;> rfl

theorem stratDateChange_static (d : Nat) (sd : StratData K) :
    (stratDateChange d sd).1.now = some d ∧ (stratDateChange d sd).1.fixedIncome = sd.fixedIncome ∧
    (stratDateChange d sd).1.paperTrade = sd.paperTrade := by
  unfold stratDateChange
  cases sd.now with
  | none => exact ⟨rfl, rfl, rfl⟩
  | some n => dsimp only; split <;> exact ⟨rfl, rfl, rfl⟩

/-- after `update(d)` a strategy stands on `d`; its kind flags are untouched -/
theorem updNode_strat_static {cfg : Cfg K} {d : Nat} {sd sd' : StratData K} {kids kids' : List (Node K)}
    (h : updNode cfg d (.strat sd kids) = .ok (.strat sd' kids')) :
    sd'.now = some d ∧ sd'.fixedIncome = sd.fixedIncome ∧ sd'.paperTrade = sd.paperTrade := by
  obtain ⟨kids1, acc, sd3, _, hw, he⟩ := updNode_strat_ok h
  simp only [Node.strat.injEq] at he
  obtain ⟨rfl, _⟩ := he
  obtain ⟨_, _, _, _, b5, b6⟩ := stratWrite_base hw
  obtain ⟨_, _, _, _, r5, r6⟩ := stratRows_base d sd3
  obtain ⟨s1, s2, s3⟩ := stratDateChange_static d sd
  refine ⟨?_, ?_, ?_⟩
  · rw [stratRows_now_L, stratWrite_now hw]; exact s1
  · rw [r5, b5]; exact s2
  · rw [r6, b6]; exact s3

/-! ### the root's update versus `updNode` -/

/-- `root.update(d)` is `updNode` unless the bankruptcy step fires (negative value on a not yet bankrupt
    market-value root). -/
theorem updRoot_cases {cfg : Cfg K} {d : Nat} {w w' : World K} {sd : StratData K} {kids : List (Node K)}
    (hr : w.root = .strat sd kids) (h : updRoot cfg d w = .ok w') :
    (updNode cfg d w.root = .ok w'.root ∧ w'.stale = false) ∨
    (sd.bankrupt = false ∧ sd.fixedIncome = false ∧ ∃ kids1 acc,
      updKids cfg d (stratDateChange d sd).2 (stratDateChange d sd).1.bidofferSet kids
        ⟨(stratDateChange d sd).1.capital, 0, 0, 0⟩ = .ok (kids1, acc) ∧ acc.val + acc.coupons < 0) := by
  unfold updRoot at h
  rw [hr] at h
  simp only at h
  obtain ⟨⟨kids1, acc⟩, h1, h2⟩ := Except.bind_ok h
  simp only at h2
  have hb : (stratDateChange d sd).1.bankrupt = sd.bankrupt ∧ (stratDateChange d sd).1.fixedIncome = sd.fixedIncome := by
    unfold stratDateChange
    cases sd.now with
    | none => exact ⟨rfl, rfl⟩
    | some n => dsimp only; split <;> exact ⟨rfl, rfl⟩
  split at h2
  · rename_i hc
    right
    simp only [Bool.and_eq_true, decide_eq_true_eq, Bool.not_eq_eq_eq_not, Bool.not_true] at hc
    obtain ⟨⟨⟨hneg, hbk⟩, hfi⟩, _⟩ := hc
    exact ⟨by rw [← hb.1]; exact hbk, by rw [← hb.2]; exact hfi, kids1, acc, h1, hneg⟩
  · left
    obtain ⟨sd3, h3, h4⟩ := Except.map_ok h2
    subst h4
    refine ⟨?_, rfl⟩
    rw [hr, updNode]
    simp only [h1, Except.bind, h3, Except.map]

end Bt
