import Bt.Engine.Ops
import Mathlib.Algebra.Order.Field.Basic
import Mathlib.Algebra.Order.AbsoluteValue.Basic
import Mathlib.Tactic.Ring
import Mathlib.Tactic.Linarith
/-! Basic facts about the numeric interface (`absA`, `isZero`, `eqA`) at an ordered field,
    `Except` inversion lemmas and an induction principle for `Node`. -/
namespace Bt
set_option linter.unusedSectionVars false

section Num
variable {K : Type} [Field K] [LinearOrder K] [IsStrictOrderedRing K]

theorem absA_eq (x : K) : absA x = |x| := by
  unfold absA
  split
  · rename_i h; exact (abs_of_neg h).symm
  · rename_i h; exact (abs_of_nonneg (not_lt.mp h)).symm

theorem isZero_iff (tol x : K) : isZero tol x = true ↔ |x| < tol := by
  unfold isZero; rw [absA_eq]; simp

theorem isZero_false_iff (tol x : K) : isZero tol x = false ↔ tol ≤ |x| := by
  unfold isZero; rw [absA_eq]; simp

theorem isZero_zero {tol : K} (h : 0 < tol) : isZero tol (0 : K) = true := by
  rw [isZero_iff]; simpa using h

theorem eqA_iff (a b : K) : eqA a b = true ↔ a = b := by
  unfold eqA
  simp only [Bool.and_eq_true, Bool.not_eq_true', decide_eq_false_iff_not, not_lt]
  constructor
  · rintro ⟨h1, h2⟩; exact le_antisymm h2 h1
  · rintro rfl; exact ⟨le_refl _, le_refl _⟩

theorem eqA_false_iff (a b : K) : eqA a b = false ↔ a ≠ b := by
  rw [Ne, ← eqA_iff a b]; simp

end Num

section Exc
variable {ε α β : Type}

theorem Except.map_eq_ok {f : α → β} {x : Except ε α} {b : β} (h : x.map f = .ok b) :
    ∃ a, x = .ok a ∧ f a = b := by
  cases x with
  | error e => simp [Except.map] at h
  | ok a => exact ⟨a, rfl, by simpa [Except.map] using h⟩

theorem Except.bind_eq_ok {f : α → Except ε β} {x : Except ε α} {b : β} (h : x.bind f = .ok b) :
    ∃ a, x = .ok a ∧ f a = .ok b := by
  cases x with
  | error e => simp [Except.bind] at h
  | ok a => exact ⟨a, rfl, by simpa [Except.bind] using h⟩

theorem Except.pure_eq_ok {a b : α} (h : (pure a : Except ε α) = .ok b) : a = b := by
  cases h; rfl

end Exc

/-- Induction over a tree and its child lists at once. -/
theorem Node.induct {α : Type} {motive : Node α → Prop} {motiveL : List (Node α) → Prop}
    (sec : ∀ s, motive (.sec s))
    (strat : ∀ sd kids, motiveL kids → motive (.strat sd kids))
    (nil : motiveL [])
    (cons : ∀ k ks, motive k → motiveL ks → motiveL (k :: ks)) :
    (∀ n, motive n) ∧ (∀ l, motiveL l) := by
  constructor
  · intro n
    exact Node.rec (motive_1 := motive) (motive_2 := motiveL) sec strat nil cons n
  · intro l
    exact Node.rec_1 (motive_1 := motive) (motive_2 := motiveL) sec strat nil cons l

end Bt
