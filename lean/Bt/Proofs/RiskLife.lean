import Bt.Proofs.Risk
/-! C20 helpers: ClosePositionsAfterDates, RollPositionsAfterDates, SelectActive and the run over several dates. -/
set_option linter.unusedSectionVars false
set_option linter.unusedSimpArgs false
set_option linter.unusedVariables false
namespace Bt.Risk
open Bt

variable {K : Type} [Field K] [LinearOrder K] [IsStrictOrderedRing K]

/-! ### closing one security -/

theorem nonzero_iff (x : K) : nonzero x = true ↔ x ≠ 0 := by
  unfold nonzero
  simp only [Bool.or_eq_true, decide_eq_true_eq]
  constructor
  · rintro (h | h); exact ne_of_lt h; exact (ne_of_lt h).symm
  · intro h; exact lt_or_gt_of_ne h

theorem nonzero_false_iff (x : K) : nonzero x = false ↔ x = 0 := by
  rw [← not_iff_not]; simp [nonzero_iff]

theorem isZero_neg (tol x : K) : isZero tol (-x) = isZero tol x := by
  have : (isZero tol (-x) = true) ↔ (isZero tol x = true) := by
    rw [isZero_iff, isZero_iff, abs_neg]
  cases h1 : isZero tol (-x) <;> cases h2 : isZero tol x <;> simp_all

/-- the child security called `name` -/
def kidSec : List (Node K) → Nat → Option (SecD K)
  | [], _ => none
  | .sec s :: ks, name => if s.name = name then some s else kidSec ks name
  | .strat _ _ :: ks, name => kidSec ks name

theorem posOf_kidSec (ks : List (Node K)) (name : Nat) : posOf ks name = ((kidSec ks name).map (·.pos)).getD 0 := by
  induction ks with
  | nil => rfl
  | cons k ks ih =>
    cases k with
    | sec s => simp only [posOf, kidSec]; split <;> simp [ih]
    | strat d sub => simpa [posOf, kidSec] using ih

theorem isKid_kidSec (ks : List (Node K)) (name : Nat) : isKid ks name = (kidSec ks name).isSome := by
  induction ks with
  | nil => rfl
  | cons k ks ih =>
    cases k with
    | sec s => simp only [isKid, kidSec]; split <;> simp [ih]
    | strat d sub => simpa [isKid, kidSec] using ih

/-- what makes `close` succeed in flattening a security: no dust, and under a market-value parent a price
    (and a value) that is not below `TOL` -/
def Closable (tol : K) (fi : Bool) (s : SecD K) : Prop :=
  (isZero tol s.pos = true → s.pos = 0) ∧
  (fi = false → ∃ p, s.price = some p ∧ isZero tol p = false ∧ (isZero tol (s.pos * p * s.mult) = true → s.pos = 0))

theorem transact_close {tol : K} {s : SecD K} (hd : isZero tol s.pos = true → s.pos = 0) (hnz : s.pos ≠ 0) :
    (transactSec tol (some (-s.pos)) s).pos = 0 := by
  rw [transactSec_pos, effQ_some]
  · ring
  · intro hz
    rw [isZero_neg] at hz
    exact absurd (hd hz) hnz

theorem transactSec_pos_or (tol : K) (s : SecD K) :
    (transactSec tol (some (-s.pos)) s).pos = 0 ∨ (transactSec tol (some (-s.pos)) s).pos = s.pos := by
  rw [transactSec_pos]
  unfold effQ
  simp only
  split
  · right; ring
  · left; ring

theorem closeSec_spec {tol : K} {fi : Bool} {s s' : SecD K} (htol : 0 < tol) (h : closeSec tol fi s = .ok s') :
    s'.name = s.name ∧ s'.mult = s.mult ∧ (s'.pos = 0 ∨ s'.pos = s.pos) ∧ (Closable tol fi s → s'.pos = 0) := by
  unfold closeSec at h
  split at h
  · -- fixed income parent
    cases h
    split
    · rename_i hnz
      refine ⟨transactSec_name _ _ _, transactSec_mult _ _ _, transactSec_pos_or tol s, ?_⟩
      intro hc
      exact transact_close hc.1 ((nonzero_iff _).1 hnz)
    · rename_i hnz
      have : s.pos = 0 := (nonzero_false_iff _).1 (by simpa using hnz)
      exact ⟨rfl, rfl, Or.inr rfl, fun _ => this⟩
  · rename_i hfi
    have hfi' : fi = false := by simpa using hfi
    split at h
    · -- NaN price
      split at h
      · cases h
        refine ⟨rfl, rfl, Or.inr rfl, ?_⟩
        intro hc
        rename_i hz
        exact hc.1 hz
      · cases h
    · rename_i p hp
      simp only at h
      split at h
      · rename_i hv
        cases h
        refine ⟨rfl, rfl, Or.inr rfl, ?_⟩
        intro hc
        obtain ⟨p', hp', _, hv'⟩ := hc.2 hfi'
        rw [hp] at hp'; cases hp'
        have hv0 : s.pos * p * s.mult = 0 := (nonzero_false_iff _).1 (by simpa using hv)
        exact hv' (by rw [hv0]; exact isZero_zero htol)
      · split at h
        · rename_i hz
          cases h
          refine ⟨rfl, rfl, Or.inr rfl, ?_⟩
          intro hc
          obtain ⟨p', hp', _, hv'⟩ := hc.2 hfi'
          rw [hp] at hp'; cases hp'
          rw [isZero_neg] at hz
          exact hv' hz
        · split at h
          · cases h
          · cases h
            rename_i hv _ _
            refine ⟨transactSec_name _ _ _, transactSec_mult _ _ _, transactSec_pos_or tol s, ?_⟩
            intro hc
            have hv' : s.pos * p * s.mult ≠ 0 := (nonzero_iff _).1 (by simpa using hv)
            have hnz : s.pos ≠ 0 := by
              intro h0; apply hv'; rw [h0]; ring
            exact transact_close hc.1 hnz

/-! ### ClosePositionsAfterDates -/

/-- the test of the first loop: has a row, was not closed on entry, its date has come -/
def closeCand (dates : Dict (Option Nat)) (now : Nat) (closed0 : List Nat) (name : Nat) : Bool :=
  (dget dates name).isSome && !closed0.contains name && dueAt dates now name

theorem closePass_nil (tol : K) (fi : Bool) (dates : Dict (Option Nat)) (now : Nat) (closed0 acc : List Nat) :
    closePass tol fi dates now closed0 ([] : List (Node K)) acc = .ok ([], acc) := by rw [closePass]

theorem closePass_sec (tol : K) (fi : Bool) (dates : Dict (Option Nat)) (now : Nat) (closed0 acc : List Nat)
    (s : SecD K) (ks : List (Node K)) :
    closePass tol fi dates now closed0 (.sec s :: ks) acc =
      if closeCand dates now closed0 s.name then
        (closeSec tol fi s).bind fun s' =>
        (closePass tol fi dates now closed0 ks (addName acc s.name)).map fun r => (.sec s' :: r.1, r.2)
      else (closePass tol fi dates now closed0 ks acc).map fun r => (.sec s :: r.1, r.2) := by
  rw [closePass]; rfl

theorem closePass_strat (tol : K) (fi : Bool) (dates : Dict (Option Nat)) (now : Nat) (closed0 acc : List Nat)
    (d : StratD K) (sub ks : List (Node K)) :
    closePass tol fi dates now closed0 (.strat d sub :: ks) acc =
      (closePass tol fi dates now closed0 ks acc).map fun r => (.strat d sub :: r.1, r.2) := by
  rw [closePass]

theorem closePass_spec {tol : K} {fi : Bool} {dates : Dict (Option Nat)} {now : Nat} {closed0 : List Nat} (htol : 0 < tol) :
    ∀ (ks : List (Node K)) (acc : List Nat) (ks' : List (Node K)) (acc' : List Nat),
      closePass tol fi dates now closed0 ks acc = .ok (ks', acc') →
      (∀ x, x ∈ acc' ↔ x ∈ acc ∨ (isKid ks x = true ∧ closeCand dates now closed0 x = true)) ∧
      (∀ name, isKid ks' name = isKid ks name) ∧
      (∀ name, closeCand dates now closed0 name = false → kidSec ks' name = kidSec ks name) ∧
      (∀ name, posOf ks' name = 0 ∨ posOf ks' name = posOf ks name) ∧
      (∀ name s, kidSec ks name = some s → closeCand dates now closed0 name = true → Closable tol fi s →
        posOf ks' name = 0) := by
  intro ks
  induction ks with
  | nil =>
    intro acc ks' acc' h
    rw [closePass_nil] at h; cases h
    refine ⟨by simp [isKid], fun _ => rfl, fun _ _ => rfl, fun _ => Or.inr rfl, ?_⟩
    intro name s hs; simp [kidSec] at hs
  | cons k ks ih =>
    intro acc ks' acc' h
    cases k with
    | sec s =>
      rw [closePass_sec] at h
      by_cases hc : closeCand dates now closed0 s.name = true
      · simp only [hc, ↓reduceIte] at h
        obtain ⟨s', hs', h⟩ := Except.bind_eq_ok h
        obtain ⟨⟨ks1, acc1⟩, h1, h2⟩ := Except.map_eq_ok h
        cases h2
        obtain ⟨e1, e2, e3, e4, e5⟩ := ih _ _ _ h1
        obtain ⟨c1, c2, c3, c4⟩ := closeSec_spec htol hs'
        refine ⟨?_, ?_, ?_, ?_, ?_⟩
        · intro x
          rw [e1, mem_addName]
          simp only [isKid]
          constructor
          · rintro ((hx | rfl) | hx)
            · exact Or.inl hx
            · exact Or.inr ⟨by simp, hc⟩
            · right; refine ⟨?_, hx.2⟩; split; rfl; exact hx.1
          · rintro (hx | ⟨hx1, hx2⟩)
            · exact Or.inl (Or.inl hx)
            · by_cases hn : s.name = x
              · exact Or.inl (Or.inr hn.symm)
              · simp only [hn, ↓reduceIte] at hx1; exact Or.inr ⟨hx1, hx2⟩
        · intro name; simp only [isKid, c1]; split; rfl; exact e2 name
        · intro name hcn
          simp only [kidSec, c1]
          split
          · rename_i hn; rw [hn] at hc; rw [hc] at hcn; cases hcn
          · exact e3 name hcn
        · intro name
          simp only [posOf, c1]
          split
          · exact c3
          · exact e4 name
        · intro name s0 hs0 hcn hcl
          simp only [kidSec] at hs0
          simp only [posOf, c1]
          split
          · rename_i hn
            simp only [hn, ↓reduceIte, Option.some.injEq] at hs0
            subst hs0
            exact c4 hcl
          · rename_i hn
            simp only [hn, ↓reduceIte] at hs0
            exact e5 name s0 hs0 hcn hcl
      · have hc' : closeCand dates now closed0 s.name = false := by simpa using hc
        simp only [hc', Bool.false_eq_true, ↓reduceIte] at h
        obtain ⟨⟨ks1, acc1⟩, h1, h2⟩ := Except.map_eq_ok h
        cases h2
        obtain ⟨e1, e2, e3, e4, e5⟩ := ih _ _ _ h1
        refine ⟨?_, ?_, ?_, ?_, ?_⟩
        · intro x
          rw [e1]
          simp only [isKid]
          constructor
          · rintro (hx | hx)
            · exact Or.inl hx
            · right; refine ⟨?_, hx.2⟩; split; rfl; exact hx.1
          · rintro (hx | ⟨hx1, hx2⟩)
            · exact Or.inl hx
            · by_cases hn : s.name = x
              · rw [hn] at hc'; rw [hc'] at hx2; cases hx2
              · simp only [hn, ↓reduceIte] at hx1; exact Or.inr ⟨hx1, hx2⟩
        · intro name; simp only [isKid]; split; rfl; exact e2 name
        · intro name hcn
          simp only [kidSec]
          split
          · rfl
          · exact e3 name hcn
        · intro name
          simp only [posOf]
          split
          · exact Or.inr rfl
          · exact e4 name
        · intro name s0 hs0 hcn hcl
          simp only [kidSec] at hs0
          simp only [posOf]
          split
          · rename_i hn; rw [hn] at hc'; rw [hc'] at hcn; cases hcn
          · rename_i hn
            simp only [hn, ↓reduceIte] at hs0
            exact e5 name s0 hs0 hcn hcl
    | strat d sub =>
      rw [closePass_strat] at h
      obtain ⟨⟨ks1, acc1⟩, h1, h2⟩ := Except.map_eq_ok h
      cases h2
      obtain ⟨e1, e2, e3, e4, e5⟩ := ih _ _ _ h1
      refine ⟨?_, ?_, ?_, ?_, ?_⟩
      · intro x; rw [e1]; simp [isKid]
      · intro name; simpa [isKid] using e2 name
      · intro name hcn; simpa [kidSec] using e3 name hcn
      · intro name; simpa [posOf] using e4 name
      · intro name s0 hs0 hcn hcl
        simp only [kidSec] at hs0
        simpa [posOf] using e5 name s0 hs0 hcn hcl

/-! ### SelectActive -/

theorem selectActive_spec (perm : Perm) (sel out : List Nat) (h : selectActive perm (some sel) = .ok out) :
    ∀ x, x ∈ out ↔ x ∈ sel ∧ x ∉ perm.rolledL ∧ x ∉ perm.closedL := by
  unfold selectActive at h
  cases h
  intro x
  simp [List.mem_filter]

theorem selectActive_sublist (perm : Perm) (sel out : List Nat) (h : selectActive perm (some sel) = .ok out) :
    out.Sublist sel := by
  unfold selectActive at h
  cases h
  exact List.filter_sublist


/-! ### RollPositionsAfterDates -/

/-- the test of the first loop: has a row, was not rolled on entry, its date has come (NaT never comes) -/
def rollCand (roll : Dict (RollRow K)) (now : Nat) (rolled0 : List Nat) (name : Nat) : Bool :=
  match dget roll name with
  | some row => !rolled0.contains name && row.due now
  | none => false

def factorOf (row : RollRow K) : K := row.factor.getD 0

/-- a security's contribution to the pending transaction of `tgt` -/
def secCredit (roll : Dict (RollRow K)) (now : Nat) (rolled0 : List Nat) (s : SecD K) (tgt : Nat) : K :=
  match dget roll s.name with
  | some row => if rollCand roll now rolled0 s.name && decide (row.target = tgt) then factorOf row * s.pos else 0
  | none => 0

def secHits (roll : Dict (RollRow K)) (now : Nat) (rolled0 : List Nat) (s : SecD K) (tgt : Nat) : Bool :=
  match dget roll s.name with
  | some row => rollCand roll now rolled0 s.name && decide (row.target = tgt)
  | none => false

/-- `Σ factor × position` over the children that roll into `tgt` now -/
def rollCredit (roll : Dict (RollRow K)) (now : Nat) (rolled0 : List Nat) : List (Node K) → Nat → K
  | [], _ => 0
  | .sec s :: ks, tgt => secCredit roll now rolled0 s tgt + rollCredit roll now rolled0 ks tgt
  | .strat _ _ :: ks, tgt => rollCredit roll now rolled0 ks tgt

/-- some child rolls into `tgt` now -/
def rollHits (roll : Dict (RollRow K)) (now : Nat) (rolled0 : List Nat) : List (Node K) → Nat → Bool
  | [], _ => false
  | .sec s :: ks, tgt => secHits roll now rolled0 s tgt || rollHits roll now rolled0 ks tgt
  | .strat _ _ :: ks, tgt => rollHits roll now rolled0 ks tgt

theorem secCredit_of_not_hits {roll : Dict (RollRow K)} {now : Nat} {rolled0 : List Nat} {s : SecD K} {tgt : Nat}
    (h : secHits roll now rolled0 s tgt = false) : secCredit roll now rolled0 s tgt = 0 := by
  unfold secHits at h; unfold secCredit
  split
  · rename_i row hr; simp only [hr] at h; simp [h]
  · rfl

theorem rollCredit_of_not_hits {roll : Dict (RollRow K)} {now : Nat} {rolled0 : List Nat} (tgt : Nat) :
    ∀ ks : List (Node K), rollHits roll now rolled0 ks tgt = false → rollCredit roll now rolled0 ks tgt = 0 := by
  intro ks
  induction ks with
  | nil => intro _; rfl
  | cons k ks ih =>
    intro h
    cases k with
    | sec s =>
      simp only [rollHits, Bool.or_eq_false_iff] at h
      simp [rollCredit, secCredit_of_not_hits h.1, ih h.2]
    | strat d sub => simpa [rollCredit] using ih (by simpa [rollHits] using h)

/-- nothing in the table rolls into `name` -/
def NotTarget (roll : Dict (RollRow K)) (name : Nat) : Prop := ∀ x row, dget roll x = some row → row.target ≠ name

theorem rollHits_of_notTarget {roll : Dict (RollRow K)} {now : Nat} {rolled0 : List Nat} {name : Nat}
    (h : NotTarget roll name) : ∀ ks : List (Node K), rollHits roll now rolled0 ks name = false := by
  intro ks
  induction ks with
  | nil => rfl
  | cons k ks ih =>
    cases k with
    | sec s =>
      simp only [rollHits, Bool.or_eq_false_iff]
      refine ⟨?_, ih⟩
      unfold secHits
      split
      · rename_i row hr
        have := h _ _ hr
        simp [this]
      · rfl
    | strat d sub => simpa [rollHits] using ih

/-- `txAdd` on the entry of `tgt` -/
def accumTx (old : Option (Option K)) (c : Option K) : Option (Option K) :=
  match old with
  | some v => some (oadd v c)
  | none => some c

theorem dget_txAdd_same (txs : Dict (Option K)) (tgt : Nat) (q : Option K) :
    dget (txAdd txs tgt q) tgt = accumTx (dget txs tgt) q := by
  unfold txAdd accumTx
  split <;> simp [dget_dset_same, *]

theorem dget_txAdd_other (txs : Dict (Option K)) (tgt t2 : Nat) (q : Option K) (h : tgt ≠ t2) :
    dget (txAdd txs tgt q) t2 = dget txs t2 := by
  unfold txAdd
  split <;> simp [dget_dset_other _ _ _ _ h]

theorem keys_dset {β : Type} (d : Dict β) (k : Nat) (v : β) (h : (d.map Prod.fst).Nodup) :
    ((dset d k v).map Prod.fst).Nodup ∧ ∀ x, x ∈ (dset d k v).map Prod.fst ↔ x ∈ d.map Prod.fst ∨ x = k := by
  induction d with
  | nil => simp [dset]
  | cons p t ih =>
    obtain ⟨k', v'⟩ := p
    simp only [List.map_cons, List.nodup_cons] at h
    by_cases hk : k' = k
    · subst hk
      simp only [dset, ↓reduceIte, List.map_cons, List.nodup_cons, List.mem_cons]
      exact ⟨h, fun x => by tauto⟩
    · obtain ⟨i1, i2⟩ := ih h.2
      simp only [dset, hk, ↓reduceIte, List.map_cons, List.nodup_cons, List.mem_cons]
      refine ⟨⟨?_, i1⟩, fun x => by rw [i2]; tauto⟩
      rw [i2]
      rintro (hm | he)
      · exact h.1 hm
      · exact hk he

theorem keys_txAdd (txs : Dict (Option K)) (tgt : Nat) (q : Option K) (h : (txs.map Prod.fst).Nodup) :
    ((txAdd txs tgt q).map Prod.fst).Nodup := by
  unfold txAdd
  split <;> exact (keys_dset _ _ _ h).1

theorem dget_of_not_key {β : Type} (d : Dict β) (k : Nat) (h : k ∉ d.map Prod.fst) : dget d k = none := by
  induction d with
  | nil => rfl
  | cons p t ih =>
    obtain ⟨k', v'⟩ := p
    simp only [List.map_cons, List.mem_cons, not_or] at h
    simp [dget_cons, Ne.symm h.1, ih h.2]

/-- every factor in the table is a number -/
def FiniteFactors (roll : Dict (RollRow K)) : Prop := ∀ x row, dget roll x = some row → ∃ f, row.factor = some f

theorem rollPass_nil (tol : K) (fi : Bool) (roll : Dict (RollRow K)) (now : Nat) (rolled0 acc : List Nat) (txs : Dict (Option K)) :
    rollPass tol fi roll now rolled0 ([] : List (Node K)) acc txs = .ok ([], acc, txs) := by rw [rollPass]

theorem rollPass_sec_cand (tol : K) (fi : Bool) (roll : Dict (RollRow K)) (now : Nat) (rolled0 acc : List Nat)
    (txs : Dict (Option K)) (s : SecD K) (ks : List (Node K)) (row : RollRow K) (hr : dget roll s.name = some row)
    (hc : rollCand roll now rolled0 s.name = true) :
    rollPass tol fi roll now rolled0 (.sec s :: ks) acc txs =
      (closeSec tol fi s).bind fun s' =>
      (rollPass tol fi roll now rolled0 ks (addName acc s.name)
        (txAdd txs row.target (omul row.factor (some s.pos)))).map fun r => (.sec s' :: r.1, r.2) := by
  rw [rollPass]
  simp only [hr]
  unfold rollCand at hc
  simp only [hr] at hc
  simp only [hc, ↓reduceIte]

theorem rollPass_sec_skip (tol : K) (fi : Bool) (roll : Dict (RollRow K)) (now : Nat) (rolled0 acc : List Nat)
    (txs : Dict (Option K)) (s : SecD K) (ks : List (Node K)) (hc : rollCand roll now rolled0 s.name = false) :
    rollPass tol fi roll now rolled0 (.sec s :: ks) acc txs =
      (rollPass tol fi roll now rolled0 ks acc txs).map fun r => (.sec s :: r.1, r.2) := by
  rw [rollPass]
  unfold rollCand at hc
  split
  · rename_i row hr
    simp only [hr] at hc
    simp only [hc, Bool.false_eq_true, ↓reduceIte]
  · rfl

theorem rollPass_strat (tol : K) (fi : Bool) (roll : Dict (RollRow K)) (now : Nat) (rolled0 acc : List Nat)
    (txs : Dict (Option K)) (d : StratD K) (sub ks : List (Node K)) :
    rollPass tol fi roll now rolled0 (.strat d sub :: ks) acc txs =
      (rollPass tol fi roll now rolled0 ks acc txs).map fun r => (.strat d sub :: r.1, r.2) := by
  rw [rollPass]

theorem rollCand_row {roll : Dict (RollRow K)} {now : Nat} {rolled0 : List Nat} {name : Nat}
    (h : rollCand roll now rolled0 name = true) : ∃ row, dget roll name = some row := by
  unfold rollCand at h
  split at h
  · rename_i row hr; exact ⟨row, hr⟩
  · cases h

theorem rollPass_spec {tol : K} {fi : Bool} {roll : Dict (RollRow K)} {now : Nat} {rolled0 : List Nat} (htol : 0 < tol) :
    ∀ (ks : List (Node K)) (acc : List Nat) (txs : Dict (Option K)) (ks' : List (Node K)) (acc' : List Nat) (txs' : Dict (Option K)),
      rollPass tol fi roll now rolled0 ks acc txs = .ok (ks', acc', txs') →
      (∀ x, x ∈ acc' ↔ x ∈ acc ∨ (isKid ks x = true ∧ rollCand roll now rolled0 x = true)) ∧
      (∀ name, isKid ks' name = isKid ks name) ∧
      (∀ name, rollCand roll now rolled0 name = false → kidSec ks' name = kidSec ks name) ∧
      (∀ name, posOf ks' name = 0 ∨ posOf ks' name = posOf ks name) ∧
      (∀ name s, kidSec ks name = some s → rollCand roll now rolled0 name = true → Closable tol fi s →
        posOf ks' name = 0) ∧
      (∀ tgt, rollHits roll now rolled0 ks tgt = false → dget txs' tgt = dget txs tgt) ∧
      (FiniteFactors roll → ∀ tgt, rollHits roll now rolled0 ks tgt = true →
        dget txs' tgt = accumTx (dget txs tgt) (some (rollCredit roll now rolled0 ks tgt))) ∧
      ((txs.map Prod.fst).Nodup → (txs'.map Prod.fst).Nodup) := by
  intro ks
  induction ks with
  | nil =>
    intro acc txs ks' acc' txs' h
    rw [rollPass_nil] at h; cases h
    refine ⟨by simp [isKid], fun _ => rfl, fun _ _ => rfl, fun _ => Or.inr rfl, ?_, fun _ _ => rfl, ?_, id⟩
    · intro name s hs; simp [kidSec] at hs
    · intro _ tgt ht; simp [rollHits] at ht
  | cons k ks ih =>
    intro acc txs ks' acc' txs' h
    cases k with
    | sec s =>
      by_cases hc : rollCand roll now rolled0 s.name = true
      · obtain ⟨row, hr⟩ := rollCand_row hc
        rw [rollPass_sec_cand _ _ _ _ _ _ _ _ _ row hr hc] at h
        obtain ⟨s', hs', h⟩ := Except.bind_eq_ok h
        obtain ⟨⟨ks1, acc1, txs1⟩, h1, h2⟩ := Except.map_eq_ok h
        cases h2
        obtain ⟨e1, e2, e3, e4, e5, e6, e7, e8⟩ := ih _ _ _ _ _ h1
        obtain ⟨c1, c2, c3, c4⟩ := closeSec_spec htol hs'
        refine ⟨?_, ?_, ?_, ?_, ?_, ?_, ?_, ?_⟩
        · intro x
          rw [e1, mem_addName]
          simp only [isKid]
          constructor
          · rintro ((hx | rfl) | hx)
            · exact Or.inl hx
            · exact Or.inr ⟨by simp, hc⟩
            · right; refine ⟨?_, hx.2⟩; split; rfl; exact hx.1
          · rintro (hx | ⟨hx1, hx2⟩)
            · exact Or.inl (Or.inl hx)
            · by_cases hn : s.name = x
              · exact Or.inl (Or.inr hn.symm)
              · simp only [hn, ↓reduceIte] at hx1; exact Or.inr ⟨hx1, hx2⟩
        · intro name; simp only [isKid, c1]; split; rfl; exact e2 name
        · intro name hcn
          simp only [kidSec, c1]
          split
          · rename_i hn; rw [hn] at hc; rw [hc] at hcn; cases hcn
          · exact e3 name hcn
        · intro name
          simp only [posOf, c1]
          split
          · exact c3
          · exact e4 name
        · intro name s0 hs0 hcn hcl
          simp only [kidSec] at hs0
          simp only [posOf, c1]
          split
          · rename_i hn
            simp only [hn, ↓reduceIte, Option.some.injEq] at hs0
            subst hs0
            exact c4 hcl
          · rename_i hn
            simp only [hn, ↓reduceIte] at hs0
            exact e5 name s0 hs0 hcn hcl
        · intro tgt ht
          simp only [rollHits, Bool.or_eq_false_iff] at ht
          rw [e6 tgt ht.2]
          have hne : row.target ≠ tgt := by
            have := ht.1
            unfold secHits at this
            simp only [hr, hc, Bool.true_and, decide_eq_false_iff_not] at this
            exact this
          exact dget_txAdd_other _ _ _ _ hne
        · intro hfin tgt ht
          obtain ⟨f, hf⟩ := hfin _ _ hr
          simp only [rollCredit]
          by_cases hrt : row.target = tgt
          · -- this child rolls into tgt
            subst hrt
            have hsc : secCredit roll now rolled0 s row.target = f * s.pos := by
              unfold secCredit; simp [hr, hc, factorOf, hf]
            by_cases htl : rollHits roll now rolled0 ks row.target = true
            · rw [e7 hfin _ htl, dget_txAdd_same, hf, hsc]
              unfold accumTx
              cases dget txs row.target with
              | none => simp
              | some v => cases v <;> simp [add_assoc]
            · have htl' : rollHits roll now rolled0 ks row.target = false := by simpa using htl
              rw [e6 _ htl', dget_txAdd_same, hf, hsc, rollCredit_of_not_hits _ _ htl']
              simp
          · have hsh : secHits roll now rolled0 s tgt = false := by
              unfold secHits; simp [hr, hrt]
            have htl : rollHits roll now rolled0 ks tgt = true := by
              simpa [rollHits, hsh] using ht
            rw [e7 hfin tgt htl, dget_txAdd_other _ _ _ _ hrt, secCredit_of_not_hits hsh]
            simp
        · intro hn
          exact e8 (keys_txAdd _ _ _ hn)
      · have hc' : rollCand roll now rolled0 s.name = false := by simpa using hc
        rw [rollPass_sec_skip _ _ _ _ _ _ _ _ _ hc'] at h
        obtain ⟨⟨ks1, acc1, txs1⟩, h1, h2⟩ := Except.map_eq_ok h
        cases h2
        obtain ⟨e1, e2, e3, e4, e5, e6, e7, e8⟩ := ih _ _ _ _ _ h1
        have hsh : ∀ tgt, secHits roll now rolled0 s tgt = false := by
          intro tgt; unfold secHits; split <;> simp [hc']
        refine ⟨?_, ?_, ?_, ?_, ?_, ?_, ?_, e8⟩
        · intro x
          rw [e1]
          simp only [isKid]
          constructor
          · rintro (hx | hx)
            · exact Or.inl hx
            · right; refine ⟨?_, hx.2⟩; split; rfl; exact hx.1
          · rintro (hx | ⟨hx1, hx2⟩)
            · exact Or.inl hx
            · by_cases hn : s.name = x
              · rw [hn] at hc'; rw [hc'] at hx2; cases hx2
              · simp only [hn, ↓reduceIte] at hx1; exact Or.inr ⟨hx1, hx2⟩
        · intro name; simp only [isKid]; split; rfl; exact e2 name
        · intro name hcn
          simp only [kidSec]
          split
          · rfl
          · exact e3 name hcn
        · intro name
          simp only [posOf]
          split
          · exact Or.inr rfl
          · exact e4 name
        · intro name s0 hs0 hcn hcl
          simp only [kidSec] at hs0
          simp only [posOf]
          split
          · rename_i hn; rw [hn] at hc'; rw [hc'] at hcn; cases hcn
          · rename_i hn
            simp only [hn, ↓reduceIte] at hs0
            exact e5 name s0 hs0 hcn hcl
        · intro tgt ht
          exact e6 tgt (by simpa [rollHits, hsh tgt] using ht)
        · intro hfin tgt ht
          have htl : rollHits roll now rolled0 ks tgt = true := by simpa [rollHits, hsh tgt] using ht
          rw [e7 hfin tgt htl]
          simp [rollCredit, secCredit_of_not_hits (hsh tgt)]
    | strat d sub =>
      rw [rollPass_strat] at h
      obtain ⟨⟨ks1, acc1, txs1⟩, h1, h2⟩ := Except.map_eq_ok h
      cases h2
      obtain ⟨e1, e2, e3, e4, e5, e6, e7, e8⟩ := ih _ _ _ _ _ h1
      refine ⟨?_, ?_, ?_, ?_, ?_, ?_, ?_, e8⟩
      · intro x; rw [e1]; simp [isKid]
      · intro name; simpa [isKid] using e2 name
      · intro name hcn; simpa [kidSec] using e3 name hcn
      · intro name; simpa [posOf] using e4 name
      · intro name s0 hs0 hcn hcl
        simp only [kidSec] at hs0
        simpa [posOf] using e5 name s0 hs0 hcn hcl
      · intro tgt ht; exact e6 tgt (by simpa [rollHits] using ht)
      · intro hfin tgt ht
        simpa [rollCredit] using e7 hfin tgt (by simpa [rollHits] using ht)

/-- the quantity booked into `name` by the pending transactions -/
def txQ (tol : K) (txs : Dict (Option K)) (name : Nat) : K :=
  match dget txs name with
  | some q => effQ tol q
  | none => 0

theorem applyTxs_nil (env : Env K) (pnow : Nat) (ks : List (Node K)) : applyTxs env pnow [] ks = .ok ks := by
  rw [applyTxs]

theorem applyTxs_cons (env : Env K) (pnow : Nat) (tgt : Nat) (q : Option K) (rest : Dict (Option K)) (ks : List (Node K)) :
    applyTxs env pnow ((tgt, q) :: rest) ks =
      (transactKid env pnow q tgt ks).bind fun ks' => applyTxs env pnow rest ks' := by
  rw [applyTxs]

theorem applyTxs_spec (env : Env K) (pnow : Nat) :
    ∀ (txs : Dict (Option K)) (ks ks' : List (Node K)), (txs.map Prod.fst).Nodup → applyTxs env pnow txs ks = .ok ks' →
      (∀ name, posOf ks' name = posOf ks name + txQ env.tol txs name) ∧
      (∀ name, isKid ks name = true → isKid ks' name = true) := by
  intro txs
  induction txs with
  | nil =>
    intro ks ks' _ h
    rw [applyTxs_nil] at h; cases h
    exact ⟨fun name => by simp [txQ], fun _ h => h⟩
  | cons p rest ih =>
    intro ks ks' hn h
    obtain ⟨tgt, q⟩ := p
    rw [applyTxs_cons] at h
    obtain ⟨ks1, h1, h2⟩ := Except.bind_eq_ok h
    simp only [List.map_cons, List.nodup_cons] at hn
    obtain ⟨_, _, e3, e4, _, e6⟩ := transactKid_effect env pnow q tgt (fun _ => 0) ks ks1 h1
    obtain ⟨i1, i2⟩ := ih ks1 ks' hn.2 h2
    refine ⟨?_, fun name hk => i2 name (e6 name hk)⟩
    intro name
    rw [i1 name]
    by_cases hnm : tgt = name
    · subst hnm
      rw [e3]
      simp [txQ, dget_cons, dget_of_not_key _ _ hn.1]
    · rw [e4 name (Ne.symm hnm)]
      simp [txQ, dget_cons, hnm]

/-! ### the rest of the stack: trades in selected names only -/

theorem applyTrades_nil (env : Env K) (pnow : Nat) (sel : List Nat) (ks : List (Node K)) :
    applyTrades env pnow sel [] ks = .ok ks := by rw [applyTrades]

theorem applyTrades_cons (env : Env K) (pnow : Nat) (sel : List Nat) (n : Nat) (q : K) (rest : List (Nat × K)) (ks : List (Node K)) :
    applyTrades env pnow sel ((n, q) :: rest) ks =
      if sel.contains n then (transactKid env pnow (some q) n ks).bind fun ks' => applyTrades env pnow sel rest ks'
      else applyTrades env pnow sel rest ks := by
  rw [applyTrades]

theorem applyTrades_untouched (env : Env K) (pnow : Nat) (sel : List Nat) (name : Nat) (hns : name ∉ sel) :
    ∀ (l : List (Nat × K)) (ks ks' : List (Node K)), applyTrades env pnow sel l ks = .ok ks' →
      posOf ks' name = posOf ks name := by
  intro l
  induction l with
  | nil => intro ks ks' h; rw [applyTrades_nil] at h; cases h; rfl
  | cons p rest ih =>
    intro ks ks' h
    obtain ⟨n, q⟩ := p
    rw [applyTrades_cons] at h
    by_cases hc : sel.contains n = true
    · simp only [hc, ↓reduceIte] at h
      obtain ⟨ks1, h1, h2⟩ := Except.bind_eq_ok h
      have hne : name ≠ n := by
        intro e; subst e; exact hns (by simpa using hc)
      obtain ⟨_, _, _, e4, _, _⟩ := transactKid_effect env pnow (some q) n (fun _ => 0) ks ks1 h1
      rw [ih ks1 ks' h2, e4 name hne]
    · simp only [hc, Bool.false_eq_true, ↓reduceIte] at h
      exact ih ks ks' h

/-! ### one date and many dates of the lifecycle stack -/

/-- `name` has been closed or rolled and holds nothing -/
def Gone (name : Nat) (st : RunState K) : Prop :=
  (name ∈ st.perm.closedL ∨ name ∈ st.perm.rolledL) ∧ posOf st.kids name = 0

theorem lifecycleStep_inv {env : Env K} {fi : Bool} {dates : Dict (Option Nat)} {roll : Dict (RollRow K)}
    {st st1 : RunState K} {s : Step K} {sel : List Nat} {txs : Dict (Option K)}
    (h : lifecycleStep env fi dates roll st s = .ok (st1, sel, txs)) :
    ∃ (c : List (Node K) × Perm) (r : List (Node K) × Perm × Dict (Option K)),
      closePositionsAfterDates env.tol fi dates s.now st.kids st.perm = .ok c ∧
      rollPositionsAfterDates env fi roll s.now c.1 c.2 = .ok r ∧
      selectActive r.2.1 (some s.cands) = .ok sel ∧
      applyTrades env s.now sel s.trades r.1 = .ok st1.kids ∧ st1.perm = r.2.1 ∧ txs = r.2.2 := by
  unfold lifecycleStep at h
  obtain ⟨c, hc, h⟩ := Except.bind_eq_ok h
  obtain ⟨r, hr, h⟩ := Except.bind_eq_ok h
  obtain ⟨sel', hs, h⟩ := Except.bind_eq_ok h
  obtain ⟨kids', ht, h⟩ := Except.map_eq_ok h
  cases h
  exact ⟨c, r, hc, hr, hs, ht, rfl, rfl⟩

theorem close_inv {tol : K} {fi : Bool} {dates : Dict (Option Nat)} {now : Nat} {kids : List (Node K)} {perm : Perm}
    {c : List (Node K) × Perm} (h : closePositionsAfterDates tol fi dates now kids perm = .ok c) :
    ∃ acc', closePass tol fi dates now perm.closedL kids perm.closedL = .ok (c.1, acc') ∧
      c.2.closedL = acc' ∧ c.2.rolledL = perm.rolledL := by
  unfold closePositionsAfterDates at h
  obtain ⟨⟨ks', acc'⟩, h1, h2⟩ := Except.map_eq_ok h
  cases h2
  exact ⟨acc', h1, rfl, rfl⟩

theorem roll_inv {env : Env K} {fi : Bool} {roll : Dict (RollRow K)} {now : Nat} {kids : List (Node K)} {perm : Perm}
    {r : List (Node K) × Perm × Dict (Option K)} (h : rollPositionsAfterDates env fi roll now kids perm = .ok r) :
    ∃ ks1 acc', rollPass env.tol fi roll now perm.rolledL kids perm.rolledL [] = .ok (ks1, acc', r.2.2) ∧
      applyTxs env now r.2.2 ks1 = .ok r.1 ∧ r.2.1.rolledL = acc' ∧ r.2.1.closedL = perm.closedL := by
  unfold rollPositionsAfterDates at h
  obtain ⟨⟨ks1, acc', txs⟩, h1, h⟩ := Except.bind_eq_ok h
  obtain ⟨ks2, h2, h3⟩ := Except.map_eq_ok h
  cases h3
  exact ⟨ks1, acc', h1, h2, rfl, rfl⟩

/-- one date keeps a closed / rolled and flat name closed / rolled and flat, and does not select it -/
theorem lifecycleStep_gone {env : Env K} {fi : Bool} {dates : Dict (Option Nat)} {roll : Dict (RollRow K)}
    (htol : 0 < env.tol) {name : Nat} (hnt : NotTarget roll name)
    {st st1 : RunState K} {s : Step K} {sel : List Nat} {txs : Dict (Option K)}
    (h : lifecycleStep env fi dates roll st s = .ok (st1, sel, txs)) :
    (name ∈ st.perm.closedL → name ∈ st1.perm.closedL) ∧ (name ∈ st.perm.rolledL → name ∈ st1.perm.rolledL) ∧
    (Gone name st → Gone name st1 ∧ name ∉ sel) := by
  obtain ⟨c, r, hc, hr, hs, ht, hp, _⟩ := lifecycleStep_inv h
  obtain ⟨accC, hcp, hcc, hcr⟩ := close_inv hc
  obtain ⟨ks1, accR, hrp, hat, hrr, hrc⟩ := roll_inv hr
  obtain ⟨c1, _, _, c4, _⟩ := closePass_spec htol _ _ _ _ hcp
  obtain ⟨r1, _, _, r4, _, r6, _, r8⟩ := rollPass_spec htol _ _ _ _ _ _ hrp
  obtain ⟨a1, _⟩ := applyTxs_spec env s.now r.2.2 ks1 r.1 (r8 (by simp)) hat
  have hclosed : name ∈ st.perm.closedL → name ∈ st1.perm.closedL := by
    intro hm
    rw [hp, hrc, hcc]
    exact (c1 name).2 (Or.inl hm)
  have hrolled : name ∈ st.perm.rolledL → name ∈ st1.perm.rolledL := by
    intro hm
    rw [hp, hrr]
    exact (r1 name).2 (Or.inl (by rw [hcr]; exact hm))
  refine ⟨hclosed, hrolled, ?_⟩
  rintro ⟨hin, hpos⟩
  have hin1 : name ∈ st1.perm.closedL ∨ name ∈ st1.perm.rolledL := hin.imp hclosed hrolled
  have hnsel : name ∉ sel := by
    intro hm
    have := (selectActive_spec _ _ _ hs name).1 hm
    rw [← hp] at this
    rcases hin1 with h1 | h1
    · exact this.2.2 h1
    · exact this.2.1 h1
  refine ⟨⟨hin1, ?_⟩, hnsel⟩
  have p1 : posOf c.1 name = 0 := by
    rcases c4 name with h0 | h0
    · exact h0
    · rw [h0, hpos]
  have p2 : posOf ks1 name = 0 := by
    rcases r4 name with h0 | h0
    · exact h0
    · rw [h0, p1]
  have p3 : posOf r.1 name = 0 := by
    rw [a1 name, p2]
    have : dget r.2.2 name = none := by
      rw [r6 name (rollHits_of_notTarget hnt _)]; rfl
    simp [txQ, this]
  rw [applyTrades_untouched env s.now sel name hnsel _ _ _ ht, p3]

theorem lifecycleRun_nil (env : Env K) (fi : Bool) (dates : Dict (Option Nat)) (roll : Dict (RollRow K)) (st : RunState K) :
    lifecycleRun env fi dates roll st [] = .ok (st, []) := by rw [lifecycleRun]

theorem lifecycleRun_cons (env : Env K) (fi : Bool) (dates : Dict (Option Nat)) (roll : Dict (RollRow K)) (st : RunState K)
    (s : Step K) (rest : List (Step K)) :
    lifecycleRun env fi dates roll st (s :: rest) =
      (lifecycleStep env fi dates roll st s).bind fun r =>
      (lifecycleRun env fi dates roll r.1 rest).map fun rr => (rr.1, r.2 :: rr.2) := by
  rw [lifecycleRun]

/-- any number of later dates -/
theorem lifecycleRun_gone {env : Env K} {fi : Bool} {dates : Dict (Option Nat)} {roll : Dict (RollRow K)}
    (htol : 0 < env.tol) {name : Nat} (hnt : NotTarget roll name) :
    ∀ (steps : List (Step K)) (st st2 : RunState K) (log : List (List Nat × Dict (Option K))),
      lifecycleRun env fi dates roll st steps = .ok (st2, log) → Gone name st →
      Gone name st2 ∧ (name ∈ st.perm.closedL → name ∈ st2.perm.closedL) ∧
      (name ∈ st.perm.rolledL → name ∈ st2.perm.rolledL) ∧ ∀ e ∈ log, name ∉ e.1 := by
  intro steps
  induction steps with
  | nil =>
    intro st st2 log h hg
    rw [lifecycleRun_nil] at h; cases h
    exact ⟨hg, id, id, by simp⟩
  | cons s rest ih =>
    intro st st2 log h hg
    rw [lifecycleRun_cons] at h
    obtain ⟨⟨st1, sel, txs⟩, h1, h⟩ := Except.bind_eq_ok h
    obtain ⟨⟨st2', log'⟩, h2, h3⟩ := Except.map_eq_ok h
    cases h3
    obtain ⟨m1, m2, m3⟩ := lifecycleStep_gone htol hnt h1
    obtain ⟨g1, hns⟩ := m3 hg
    obtain ⟨g2, n1, n2, n3⟩ := ih st1 st2' log' h2 g1
    refine ⟨g2, fun hm => n1 (m1 hm), fun hm => n2 (m2 hm), ?_⟩
    intro e he
    simp only [List.mem_cons] at he
    rcases he with rfl | he
    · exact hns
    · exact n3 e he

end Bt.Risk
