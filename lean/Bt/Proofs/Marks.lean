import Bt.Proofs.Reach
/-! Every security's value is `position × price × multiplier`: as an invariant in terms of the position
    at the last update (`SecMarked`), and in terms of the current position after `update` (`SecMarkedPos`). -/
namespace Bt
set_option linter.unusedSectionVars false
variable {K : Type} [Field K] [LinearOrder K] [IsStrictOrderedRing K] [HasFloor K]

/-- the value is the mark of the position as of the last update (0 when the price is missing) -/
def SecMarked (s : SecData K) : Prop :=
  (∀ p, s.price = some p → s.value = s.lastPos * p * s.mult) ∧ (s.price = none → s.value = 0)

/-- the value is the mark of the current position -/
def SecMarkedPos (s : SecData K) : Prop :=
  (∀ p, s.price = some p → s.value = s.position * p * s.mult) ∧ (s.price = none → s.value = 0)

theorem SecMarked.of_noPrice {s : SecData K} (hp : s.price = none) (hv : s.value = 0) : SecMarked s :=
  ⟨fun p h => (by rw [hp] at h; cases h), fun _ => hv⟩

/-- any `update` of a marked security leaves it marked, at its current position -/
theorem secUpdate_marked {cfg : Cfg K} {d : Nat} {s s' : SecData K} (h : secUpdate cfg d s = .ok s')
    (hm : SecMarked s) : SecMarked s' ∧ SecMarkedPos s' ∧ s'.lastPos = s'.position := by
  have hf := secUpdate_frame h
  obtain ⟨s1, h1, ht⟩ := secUpdate_base h
  have key : SecMarkedPos s' ∧ s'.lastPos = s'.position := by
    cases hE : secEarly d s
    · have fr := secBaseUpdate_fresh hE h1
      have hlp : s'.lastPos = s'.position := by rw [ht.lastPos, fr.lastPos, hf.position]
      have hmk := secMarkValue_inv fr.marks
      simp only [secRecordPos_price, secRecordPos_position, secDateChange_position, secRecordPos_mult,
        secDateChange_mult] at hmk
      rw [← fr.price, ← ht.price, ← ht.value, ← hf.position, ← hf.mult] at hmk
      refine ⟨⟨?_, ?_⟩, hlp⟩
      · intro p hp
        rcases hmk with ⟨q, hq, hv⟩ | ⟨hn, _, _⟩
        · rw [hp] at hq; cases hq; exact hv
        · rw [hp] at hn; cases hn
      · intro hp
        rcases hmk with ⟨q, hq, _⟩ | ⟨_, hv, _⟩
        · rw [hp] at hq; cases hq
        · exact hv
    · rw [secBaseUpdate_early hE] at h1
      cases h1
      obtain ⟨_, hlp⟩ := (secEarly_true_iff d s).mp hE
      have hlp' : s'.lastPos = s'.position := by rw [ht.lastPos, hlp, hf.position]
      refine ⟨⟨?_, ?_⟩, hlp'⟩
      · intro p hp
        rw [ht.price] at hp
        rw [ht.value, hm.1 p hp, hlp, hf.position, hf.mult]
      · intro hp
        rw [ht.price] at hp
        rw [ht.value]; exact hm.2 hp
  obtain ⟨hpos, hlp⟩ := key
  refine ⟨⟨?_, hpos.2⟩, hpos, hlp⟩
  intro p hp
  rw [hlp]; exact hpos.1 p hp

theorem secInv_marked (cfg : Cfg K) : SecInv cfg (SecMarked (K := K)) where
  update := fun _ _ _ hm h => (secUpdate_marked h hm).1
  transact := by
    intro comm s q custom s' a hm h
    rcases secTransactCore_inv h with ⟨rfl, _⟩ | ⟨oa, bo, rfl, _, _⟩
    · exact hm
    · exact hm
  capital := fun _ _ hm => hm
  weight := fun _ _ hm => hm

/-- one `update` of a security, for the marks and the quiet flags together -/
structure MarkStep (cfg : Cfg K) (s s' : SecData K) : Prop where
  quiet : QuietStep cfg s s'
  marked : SecMarked s → SecMarked s'
  pos : SecMarked s → s.needupdate = true → SecMarkedPos s'

theorem updNode_markRel {cfg : Cfg K} {d : Nat} {n n' : Node K} (h : updNode cfg d n = .ok n') :
    TreeRel (fun _ _ _ _ => True) (MarkStep cfg) n n' := by
  refine (updNode_treeRel (P := fun _ _ _ _ => True) (S := MarkStep cfg)
    (fun _ _ _ _ _ => trivial) (fun _ _ _ _ _ _ => trivial) ?_ ?_ ?_).1 n n' h
  · intro newpt s acc s' hs
    have hsw : SecMarked s → SecMarked (sweepSec newpt s acc).1 := (secInv_marked cfg).keep_sweep newpt s acc
    exact ⟨(sweepSec_quietStep cfg newpt s acc).trans (secUpdate_quietStep hs),
      fun hm => (secUpdate_marked hs (hsw hm)).1, fun hm _ => (secUpdate_marked hs (hsw hm)).2.1⟩
  · intro newpt s acc hn
    exact ⟨sweepSec_quietStep cfg newpt s acc, (secInv_marked cfg).keep_sweep newpt s acc,
      fun _ hn' => by rw [hn] at hn'; cases hn'⟩
  · intro s s' w hst
    exact ⟨hst.quiet.setWeight w, hst.marked, hst.pos⟩

/-- after `update`, in a quiet, dust-free, marked tree EVERY security is marked at its current position -/
theorem updNode_markedPos {cfg : Cfg K} {d : Nat} {n n' : Node K} (h : updNode cfg d n = .ok n')
    (hm : AllSecs SecMarked n) (hq : Quiet n) (hn : NoDust cfg n) : AllSecs SecMarkedPos n' := by
  have ha := AllSecs.and.1 n hm (AllSecs.and.1 n hq hn)
  refine (TreeRel.transfer (A := fun s => SecMarked s ∧ SecQuiet s ∧ SecNoDust cfg s) (B := SecMarkedPos)
    ?_).1 n n' (updNode_markRel h) ha
  intro s s' hst ⟨hms, hqs, hns⟩
  cases hnu : s.needupdate
  · have hn' := hst.quiet.stays hqs hns hnu
    obtain ⟨hp, hv, _⟩ := hst.quiet.quiet hqs hns hn'
    exact ⟨fun p _ => by rw [hv, hp]; simp, fun _ => hv⟩
  · exact hst.pos hms hnu

end Bt
