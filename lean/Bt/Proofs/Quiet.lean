import Bt.Proofs.Balanced
/-! The flag-discipline invariant `Quiet` (a security with `needupdate = false` is flat and carries no
    value/notional), its preservation by `update`, and the balance sheet over ALL children. -/
namespace Bt
set_option linter.unusedSectionVars false
variable {K : Type} [Field K] [LinearOrder K] [IsStrictOrderedRing K] [HasFloor K]

mutual
/-- `Q` holds at every strategy (with its children), `S` at every security -/
def TreeAll (Q : StratData K → List (Node K) → Prop) (S : SecData K → Prop) : Node K → Prop
  | .sec s => S s
  | .strat sd kids => Q sd kids ∧ TreeAllKids Q S kids
def TreeAllKids (Q : StratData K → List (Node K) → Prop) (S : SecData K → Prop) : List (Node K) → Prop
  | [] => True
  | k :: ks => TreeAll Q S k ∧ TreeAllKids Q S ks
end

/-- a security that the update loop may skip is flat and worth nothing -/
def SecQuiet (s : SecData K) : Prop := s.needupdate = false → s.position = 0 ∧ s.value = 0 ∧ s.notl = 0

/-- no fractional dust: a position below `TOL` in size is exactly zero -/
def SecNoDust (cfg : Cfg K) (s : SecData K) : Prop := isZero cfg.tol s.position = true → s.position = 0

/-- every security of the tree satisfies `S` -/
def AllSecs (S : SecData K → Prop) : Node K → Prop := TreeAll (fun _ _ => True) S
def AllSecsKids (S : SecData K → Prop) : List (Node K) → Prop := TreeAllKids (fun _ _ => True) S

def Quiet : Node K → Prop := AllSecs SecQuiet
def NoDust (cfg : Cfg K) : Node K → Prop := AllSecs (SecNoDust cfg)

@[simp] theorem AllSecs_sec (S : SecData K → Prop) (s : SecData K) : AllSecs S (.sec s) ↔ S s := by
  simp [AllSecs, TreeAll]
@[simp] theorem AllSecs_strat (S : SecData K → Prop) (sd : StratData K) (kids : List (Node K)) :
    AllSecs S (.strat sd kids) ↔ AllSecsKids S kids := by
  simp [AllSecs, AllSecsKids, TreeAll]
@[simp] theorem AllSecsKids_nil (S : SecData K → Prop) : AllSecsKids S ([] : List (Node K)) ↔ True := by
  simp [AllSecsKids, TreeAllKids]
@[simp] theorem AllSecsKids_cons (S : SecData K → Prop) (k : Node K) (ks : List (Node K)) :
    AllSecsKids S (k :: ks) ↔ AllSecs S k ∧ AllSecsKids S ks := by
  simp [AllSecs, AllSecsKids, TreeAllKids]

theorem AllSecs.and {A B : SecData K → Prop} :
    (∀ n : Node K, AllSecs A n → AllSecs B n → AllSecs (fun s => A s ∧ B s) n) ∧
    (∀ l : List (Node K), AllSecsKids A l → AllSecsKids B l → AllSecsKids (fun s => A s ∧ B s) l) := by
  apply Node.induct
  · intro s ha hb; simp only [AllSecs_sec] at *; exact ⟨ha, hb⟩
  · intro sd kids ih ha hb; simp only [AllSecs_strat] at *; exact ih ha hb
  · intros; simp
  · intro k ks ihk ihks ha hb
    simp only [AllSecsKids_cons] at *
    exact ⟨ihk ha.1 hb.1, ihks ha.2 hb.2⟩

theorem AllSecs.mono {A B : SecData K → Prop} (hAB : ∀ s, A s → B s) :
    (∀ n : Node K, AllSecs A n → AllSecs B n) ∧
    (∀ l : List (Node K), AllSecsKids A l → AllSecsKids B l) := by
  apply Node.induct
  · intro s ha; simp only [AllSecs_sec] at *; exact hAB s ha
  · intro sd kids ih ha; simp only [AllSecs_strat] at *; exact ih ha
  · intros; simp
  · intro k ks ihk ihks ha
    simp only [AllSecsKids_cons] at *
    exact ⟨ihk ha.1, ihks ha.2⟩

theorem AllSecsKids.mem {S : SecData K → Prop} : ∀ {l : List (Node K)}, AllSecsKids S l → ∀ k ∈ l, AllSecs S k := by
  intro l
  induction l with
  | nil => intro _ k hk; cases hk
  | cons k ks ih =>
    intro h k' hk'
    simp only [AllSecsKids_cons] at h
    rcases List.mem_cons.mp hk' with rfl | hk'
    · exact h.1
    · exact ih h.2 k' hk'

/-- transfer a security predicate along a tree relation -/
theorem TreeRel.transfer {P : StratData K → List (Node K) → StratData K → List (Node K) → Prop}
    {S : SecData K → SecData K → Prop} {A B : SecData K → Prop} (hS : ∀ s s', S s s' → A s → B s') :
    (∀ n n' : Node K, TreeRel P S n n' → AllSecs A n → AllSecs B n') ∧
    (∀ l l' : List (Node K), TreeRelKids P S l l' → AllSecsKids A l → AllSecsKids B l') := by
  apply Node.induct
  · intro s n' h ha
    cases n' with
    | sec s' => simp only [TreeRel, AllSecs_sec] at *; exact hS _ _ h ha
    | strat sd' kids' => simp [TreeRel] at h
  · intro sd kids ih n' h ha
    cases n' with
    | sec s' => simp [TreeRel] at h
    | strat sd' kids' => simp only [TreeRel, AllSecs_strat] at *; exact ih _ h.2 ha
  · intro l' h _
    cases l' with
    | nil => simp
    | cons k' ks' => simp [TreeRelKids] at h
  · intro k ks ihk ihks l' h ha
    cases l' with
    | nil => simp [TreeRelKids] at h
    | cons k' ks' =>
      simp only [TreeRelKids, AllSecsKids_cons] at *
      exact ⟨ihk _ h.1 ha.1, ihks _ h.2 ha.2⟩

/-! ### `secUpdate` keeps a security quiet -/
theorem secMarkValue_inv {cfg : Cfg K} {s : SecData K} {v : K} (h : secMarkValue cfg s = .ok v) :
    (∃ p, s.price = some p ∧ v = s.position * p * s.mult) ∨
    (s.price = none ∧ v = 0 ∧ isZero cfg.tol s.position = true) := by
  unfold secMarkValue at h
  cases hp : s.price with
  | none =>
    simp only [hp] at h
    by_cases hz : isZero cfg.tol s.position = true
    · simp only [hz, ↓reduceIte] at h
      right; exact ⟨rfl, by cases h; rfl, hz⟩
    · simp only [hz] at h; cases h
  | some p =>
    simp only [hp] at h
    left; exact ⟨p, rfl, by cases h; rfl⟩

/-- what one `update` of a security does to the quiet flag discipline -/
structure QuietStep (cfg : Cfg K) (s s' : SecData K) : Prop where
  quiet : SecQuiet s → SecNoDust cfg s → SecQuiet s'
  position : s'.position = s.position
  stays : SecQuiet s → SecNoDust cfg s → s.needupdate = false → s'.needupdate = false

theorem secUpdate_quietStep {cfg : Cfg K} {d : Nat} {s s' : SecData K} (h : secUpdate cfg d s = .ok s') :
    QuietStep cfg s s' := by
  have hf := secUpdate_frame h
  obtain ⟨s1, h1, ht⟩ := secUpdate_base h
  have hk := secUpdate_notl_kind h
  -- the notional is zero as soon as position and value are
  have hnotl : s.position = 0 → s'.value = 0 → (secEarly d s = true → s.notl = 0) → s'.notl = 0 := by
    intro hp hv he
    cases hkind : s.kind
    · have hb := secUpdate_notl_plain h hkind
      cases hE : secEarly d s
      · rw [(secBaseUpdate_fresh hE hb).notl]; exact hv
      · rw [secBaseUpdate_early hE] at hb; cases hb; exact he hE
    · rw [hk.1 (Or.inl hkind), hf.position, hp]
    · rw [hk.1 (Or.inr hkind), hf.position, hp]
    · exact hk.2 (Or.inl hkind)
    · exact hk.2 (Or.inr hkind)
  cases hE : secEarly d s
  · have fr := secBaseUpdate_fresh hE h1
    have hnu : s'.needupdate =
        (if (isZero cfg.tol s.weight && isZero cfg.tol s.position) = true then false else s.needupdate) := by
      rw [ht.needupdate, fr.needupdate]
    refine ⟨?_, hf.position, ?_⟩
    · intro hq hnd hn'
      have hp : s.position = 0 := by
        rw [hnu] at hn'
        split at hn'
        · rename_i hz
          simp only [Bool.and_eq_true] at hz
          exact hnd hz.2
        · exact (hq hn').1
      have hv : s'.value = 0 := by
        rw [ht.value]
        rcases secMarkValue_inv fr.marks with ⟨p, _, hv⟩ | ⟨_, hv, _⟩
        · rw [hv]; simp [hp]
        · exact hv
      exact ⟨by rw [hf.position, hp], hv, hnotl hp hv (fun he => by rw [hE] at he; cases he)⟩
    · intro _ _ hn
      rw [hnu, hn]; simp
  · rw [secBaseUpdate_early hE] at h1
    cases h1
    refine ⟨?_, hf.position, ?_⟩
    · intro hq _ hn'
      rw [ht.needupdate] at hn'
      obtain ⟨hp, hv, hn⟩ := hq hn'
      have hv' : s'.value = 0 := by rw [ht.value]; exact hv
      exact ⟨by rw [hf.position, hp], hv', hnotl hp hv' (fun _ => hn)⟩
    · intro _ _ hn
      rw [ht.needupdate]; exact hn

theorem sweepSec_quietStep (cfg : Cfg K) (newpt : Bool) (s : SecData K) (acc : Acc K) :
    QuietStep cfg s (sweepSec newpt s acc).1 := by
  refine ⟨?_, by simp, ?_⟩
  · intro hq _ hn
    simp only [sweepSec_needupdate] at hn
    simpa using hq hn
  · intro _ _ hn; simpa using hn

theorem QuietStep.trans {cfg : Cfg K} {a b c : SecData K} (h1 : QuietStep cfg a b) (h2 : QuietStep cfg b c) :
    QuietStep cfg a c := by
  have hnd : SecNoDust cfg a → SecNoDust cfg b := by
    intro h; unfold SecNoDust; rw [h1.position]; exact h
  exact ⟨fun hq hn => h2.quiet (h1.quiet hq hn) (hnd hn), h2.position.trans h1.position,
    fun hq hn hu => h2.stays (h1.quiet hq hn) (hnd hn) (h1.stays hq hn hu)⟩

theorem QuietStep.setWeight {cfg : Cfg K} {s s' : SecData K} (w : K) (h : QuietStep cfg s s') :
    QuietStep cfg s { s' with weight := w } :=
  ⟨fun hq hn => h.quiet hq hn, h.position, fun hq hn hu => h.stays hq hn hu⟩

/-- the relation `update` establishes between the tree before and after -/
def UpdRel (cfg : Cfg K) (d : Nat) : Node K → Node K → Prop := TreeRel (LocalBal cfg d) (QuietStep cfg)
def UpdRelKids (cfg : Cfg K) (d : Nat) : List (Node K) → List (Node K) → Prop :=
  TreeRelKids (LocalBal cfg d) (QuietStep cfg)

theorem updNode_updRel {cfg : Cfg K} {d : Nat} {n n' : Node K} (h : updNode cfg d n = .ok n') :
    UpdRel cfg d n n' :=
  (updNode_treeRel (P := LocalBal cfg d) (S := QuietStep cfg)
    (fun _ _ _ _ h => updNode_localBal h) (fun _ _ _ _ w h => h.setWeight w)
    (fun newpt s acc _ hs => (sweepSec_quietStep cfg newpt s acc).trans (secUpdate_quietStep hs))
    (fun newpt s acc _ => sweepSec_quietStep cfg newpt s acc)
    (fun _ _ w h => h.setWeight w)).1 n n' h

theorem UpdRel.quiet {cfg : Cfg K} {d : Nat} {n n' : Node K} (h : UpdRel cfg d n n')
    (hq : Quiet n) (hn : NoDust cfg n) : Quiet n' ∧ NoDust cfg n' := by
  have hqn := AllSecs.and.1 n hq hn
  constructor
  · exact (TreeRel.transfer (A := fun s => SecQuiet s ∧ SecNoDust cfg s) (B := SecQuiet)
      (fun s s' hs ha => hs.quiet ha.1 ha.2)).1 n n' h hqn
  · exact (TreeRel.transfer (A := fun s => SecQuiet s ∧ SecNoDust cfg s) (B := SecNoDust cfg)
      (fun s _ hs ha => by unfold SecNoDust; rw [hs.position]; exact ha.2)).1 n n' h hqn

/-- `update` preserves `Quiet` (given no dust in the positions, which it does not change) -/
theorem updNode_quiet {cfg : Cfg K} {d : Nat} {n n' : Node K} (h : updNode cfg d n = .ok n')
    (hq : Quiet n) (hn : NoDust cfg n) : Quiet n' ∧ NoDust cfg n' :=
  (updNode_updRel h).quiet hq hn

end Bt
