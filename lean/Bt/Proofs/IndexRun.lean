import Bt.Proofs.Ledger
import Bt.Proofs.CausalLaws
import Bt.Proofs.Causal
import Bt.Proofs.Flags
import Bt.Proofs.Paper
import Bt.Props.C03
/-! C03 (price index) over whole runs: helper lemmas (namespace `Bt.P03`).

    * `Rec cfg P0 V0 F V P` — what one index write of a market-value strategy establishes between the base
      (`last_price = P0`, `last_value = V0`, `net_flows = F`), the value `V` it writes and the price `P`.
    * `IdxInv` — "the recorded price and value are those of the last index write": an invariant of every
      engine operation (the index is rewritten only by `stratWrite`, `last_*` only on a date change).
    * `idxPre` — the one-node laws (`P04.PreLaws`) that carry `last_value`, `last_price`, `IdxInv` and
      "`rPrice[d]` = price" through *every* public operation executed while the clock stands at `d`. -/
set_option linter.unusedSectionVars false
namespace Bt.P03
open Bt Bt.P08 Bt.P04

variable {K : Type} [Field K] [LinearOrder K] [IsStrictOrderedRing K] [HasFloor K]

/-! ### the relation one index write establishes -/

/-- `price · (last_value + net_flows) = last_price · value` when the base passes the `is_zero` guard;
    with a base that is numerically zero the write succeeds only with a numerically zero value and leaves the
    index at `last_price`. -/
def Rec (cfg : Cfg K) (P0 V0 F V P : K) : Prop :=
  (isZero cfg.tol (V0 + F) = false ∧ P * (V0 + F) = P0 * V) ∨
  (isZero cfg.tol (V0 + F) = true ∧ isZero cfg.tol V = true ∧ P = P0)

/-- the recorded price and value of the strategy are those of its last index write, made when the flows of
    the date stood at `Fw` -/
def IdxInv (cfg : Cfg K) (sd : StratData K) : Prop :=
  ∃ Fw, Rec cfg sd.lastPrice sd.lastValue Fw sd.value sd.price

theorem Rec.eq_of_base {cfg : Cfg K} {P0 V0 F V P : K} (h : Rec cfg P0 V0 F V P)
    (hb : isZero cfg.tol (V0 + F) = false) : P * (V0 + F) = P0 * V := by
  rcases h with ⟨_, h⟩ | ⟨hz, _⟩
  · exact h
  · rw [hb] at hz; cases hz

/-- a value equal to the base leaves the index where it was -/
theorem Rec.flat {cfg : Cfg K} (htol : 0 < cfg.tol) {P0 V0 F P : K} (h : Rec cfg P0 V0 F (V0 + F) P) :
    P = P0 := by
  rcases h with ⟨hb, h⟩ | ⟨_, _, h⟩
  · exact mul_right_cancel₀ (ne_zero_of_isZero_false htol hb) h
  · exact h

/-- the trivial instance after a date change: base = value, no flows yet, price = last price -/
theorem Rec.start {cfg : Cfg K} (P V : K) : Rec cfg P V 0 V P := by
  by_cases hb : isZero cfg.tol (V + 0) = true
  · exact .inr ⟨hb, by simpa using hb, rfl⟩
  · exact .inl ⟨by simpa using hb, by ring⟩

/-- what `stratWrite` does to a market-value strategy: either it writes value `val` and an index satisfying
    `Rec` on the current base, or it leaves the data alone -/
theorem stratWrite_rec {cfg : Cfg K} (htol : 0 < cfg.tol) {d : Nat} {np : Bool} {sd sd' : StratData K}
    {val notl bo : K} (hfi : sd.fixedIncome = false) (h : stratWrite cfg d np sd val notl bo = .ok sd') :
    (stratChanged cfg np sd val notl = true ∧ sd'.value = val ∧
      Rec cfg sd.lastPrice sd.lastValue sd.netFlows val sd'.price) ∨
    (stratChanged cfg np sd val notl = false ∧ sd' = sd) := by
  by_cases hch : stratChanged cfg np sd val notl = true
  · left
    refine ⟨hch, stratWrite_value hch h, ?_⟩
    rcases stratWrite_mv_price hfi hch h with ⟨hb, hp⟩ | ⟨hb, hv, hp⟩
    · left
      refine ⟨hb, ?_⟩
      have hne := ne_zero_of_isZero_false htol hb
      rw [hp]; field_simp; ring
    · right
      exact ⟨hb, hv, by rw [hp]; ring⟩
  · right
    rcases stratWrite_ok h with ⟨hc, he⟩ | ⟨hc, _⟩
    · exact ⟨hc, he⟩
    · exact absurd hc hch

/-! ### the one-node laws -/

/-- what every engine step keeps on a strategy whose clock stands at `d` (or is unset) -/
structure IdxKeep (cfg : Cfg K) (d : Nat) (sd sd' : StratData K) : Prop where
  ck : Ck (· = d) sd'.now
  lastValue : sd'.lastValue = sd.lastValue
  lastPrice : sd'.lastPrice = sd.lastPrice
  fixedIncome : sd'.fixedIncome = sd.fixedIncome
  paperTrade : sd'.paperTrade = sd.paperTrade
  inv : sd.fixedIncome = false → sd.paperTrade = false → IdxInv cfg sd → IdxInv cfg sd'
  row : sd.paperTrade = false → sd.rPrice[d]? = some sd.price → sd'.rPrice[d]? = some sd'.price
  rowV : sd.rValue[d]? = some sd.value → sd'.rValue[d]? = some sd'.value

def IdxRel (cfg : Cfg K) (d : Nat) (sd sd' : StratData K) : Prop :=
  Ck (· = d) sd.now → IdxKeep cfg d sd sd'

theorem IdxKeep.refl (cfg : Cfg K) (d : Nat) (sd : StratData K) (h : Ck (· = d) sd.now) :
    IdxKeep cfg d sd sd :=
  ⟨h, rfl, rfl, rfl, rfl, fun _ _ h => h, fun _ h => h, fun h => h⟩

theorem IdxKeep.trans {cfg : Cfg K} {d : Nat} {a b c : StratData K} (h1 : IdxKeep cfg d a b)
    (h2 : IdxKeep cfg d b c) : IdxKeep cfg d a c :=
  ⟨h2.ck, h2.lastValue.trans h1.lastValue, h2.lastPrice.trans h1.lastPrice,
    h2.fixedIncome.trans h1.fixedIncome, h2.paperTrade.trans h1.paperTrade,
    fun hf hp hi => h2.inv (h1.fixedIncome.trans hf) (h1.paperTrade.trans hp) (h1.inv hf hp hi),
    fun hp hr => h2.row (h1.paperTrade.trans hp) (h1.row hp hr), fun hr => h2.rowV (h1.rowV hr)⟩

/-- a same-date (or first) date change only sets the clock -/
theorem stratDateChange_ck {d : Nat} {sd : StratData K} (h : Ck (· = d) sd.now) :
    (stratDateChange d sd).1 = { sd with now := some d } := by
  obtain ⟨_, a2, a3⟩ := stratDateChange_cases d sd
  cases hn : sd.now with
  | none => exact a3 hn
  | some n =>
    have : n = d := h n hn
    subst this
    exact a2 hn

theorem stratRows_rPrice (d : Nat) (sd : StratData K) (h : sd.paperTrade = false) :
    (stratRows d sd).rPrice = sd.rPrice := by
  unfold stratRows; dsimp only; simp [h]

theorem stratSetTotals_rPrice (d : Nat) (sd : StratData K) (v n b : K) :
    (stratSetTotals d sd v n b).rPrice = sd.rPrice := by
  unfold stratSetTotals; dsimp only; split <;> rfl

theorem stratSetTotals_rValue (d : Nat) (sd : StratData K) (v n b : K) :
    (stratSetTotals d sd v n b).rValue = sd.rValue.set d v := by
  unfold stratSetTotals; dsimp only; split <;> rfl

theorem stratRows_rValue (d : Nat) (sd : StratData K) : (stratRows d sd).rValue = sd.rValue := by
  unfold stratRows; dsimp only; split <;> rfl

theorem lt_of_getElem? {l : List K} {j : Nat} {x : K} (h : l[j]? = some x) : j < l.length := by
  by_contra hc
  rw [List.getElem?_eq_none (Nat.le_of_not_lt hc)] at h
  cases h

theorem stratSetTotals_misc (d : Nat) (sd : StratData K) (v n b : K) :
    (stratSetTotals d sd v n b).paperTrade = sd.paperTrade ∧ (stratSetTotals d sd v n b).price = sd.price := by
  unfold stratSetTotals; dsimp only; split <;> exact ⟨rfl, rfl⟩

theorem stratWrite_keep {cfg : Cfg K} (htol : 0 < cfg.tol) {d : Nat} {np : Bool} {sd sd3 : StratData K}
    {v n b : K} (hck : Ck (· = d) sd.now) (h : stratWrite cfg d np sd v n b = .ok sd3) :
    IdxKeep cfg d sd sd3 := by
  obtain ⟨b1, b2, _, _, b5, b6⟩ := stratWrite_base h
  refine ⟨by rw [stratWrite_now h]; exact hck, b1, b2, b5, b6, ?_, ?_, ?_⟩
  · intro hfi _ hi
    rcases stratWrite_rec htol hfi h with ⟨_, hv, hr⟩ | ⟨_, rfl⟩
    · exact ⟨sd.netFlows, by rw [b1, b2, hv]; exact hr⟩
    · exact hi
  · intro _ hr
    rcases stratWrite_cases h with ⟨_, rfl⟩ | ⟨_, p, rfl⟩
    · exact hr
    · have hlt : d < sd.rPrice.length := by
        by_contra hc
        rw [List.getElem?_eq_none (Nat.le_of_not_lt hc)] at hr
        cases hr
      simp only [stratSetPrice, stratSetTotals_rPrice]
      rw [List.getElem?_set_self hlt]
  · intro hr
    rcases stratWrite_cases h with ⟨_, rfl⟩ | ⟨_, p, rfl⟩
    · exact hr
    · simp only [stratSetPrice, stratSetTotals_rValue, stratSetTotals_value]
      rw [List.getElem?_set_self (lt_of_getElem? hr)]

/-- the laws of `P04.PreLaws`, with the set of admissible update dates `{d}` -/
theorem idxPre (cfg : Cfg K) (htol : 0 < cfg.tol) (d : Nat) :
    PreLaws cfg (· = d) (fun _ _ => True) (IdxRel cfg d) where
  rsRefl _ := trivial
  rsTrans _ _ := trivial
  rdRefl sd h := IdxKeep.refl cfg d sd h
  rdTrans h1 h2 h := (h1 h).trans (h2 (h1 h).ck)
  secUpdate _ _ := trivial
  secTrade _ := trivial
  sweep _ _ _ := trivial
  secWeight _ _ := trivial
  dateChange sd hC h := by
    cases hC
    rw [stratDateChange_ck h]
    exact ⟨ck_some rfl, rfl, rfl, rfl, rfl, fun _ _ hi => hi, fun _ hr => hr, fun hr => hr⟩
  capital sd c h := ⟨h, rfl, rfl, rfl, rfl, fun _ _ hi => hi, fun _ hr => hr, fun hr => hr⟩
  write hC hw h := by cases hC; exact stratWrite_keep htol h hw
  rows sd hC h := by
    cases hC
    obtain ⟨r1, r2, _, _, r5, r6⟩ := stratRows_base _ sd
    refine ⟨by rw [stratRows_now]; exact h, r1, r2, r5, r6, ?_, ?_, ?_⟩
    · intro _ hp ⟨Fw, hi⟩
      exact ⟨Fw, by rw [r1, r2, stratRows_price _ sd hp, stratRows_value]; exact hi⟩
    · intro hp hr
      rw [stratRows_rPrice _ sd hp, stratRows_price _ sd hp]; exact hr
    · intro hr
      rw [stratRows_rValue, stratRows_value]; exact hr
  adjust sd a h := ⟨h, rfl, rfl, rfl, rfl, fun _ _ hi => hi, fun _ hr => hr, fun hr => hr⟩
  stratWeight sd w h := ⟨h, rfl, rfl, rfl, rfl, fun _ _ hi => hi, fun _ hr => hr, fun hr => hr⟩
  bankrupt sd h := ⟨h, rfl, rfl, rfl, rfl, fun _ _ hi => hi, fun _ hr => hr, fun hr => hr⟩

theorem idxLaws (cfg : Cfg K) (htol : 0 < cfg.tol) (d : Nat) :
    Laws cfg (· = d) (fun a b => True ∧ NowS (· = d) a b) (fun a b => IdxRel cfg d a b ∧ NowD (· = d) a b) :=
  (idxPre cfg htol d).withClock

/-! ### every public step at a fixed clock -/

theorem lift_root {Rs : SecData K → SecData K → Prop} {Rd : StratData K → StratData K → Prop}
    {n n' : Node K} {sd : StratData K} {kids : List (Node K)} (hn : n = .strat sd kids)
    (h : Lift Rs Rd n n') : ∃ sd' kids', n' = .strat sd' kids' ∧ Rd sd sd' := by
  subst hn
  cases n' with
  | sec s => simp at h
  | strat sd' kids' => simp only [lift_strat] at h; exact ⟨sd', kids', rfl, h.1⟩

theorem root_ck {d : Nat} {w : World K} {sd : StratData K} {kids : List (Node K)} (hw : AtClock d w)
    (hr : w.root = .strat sd kids) : Ck (· = d) sd.now := by
  have := hw.2; rw [hr] at this; exact this

/-- one public call at clock `d` (explicit `root.update`s at `d` only) -/
theorem StepC.idxKeep {cfg : Cfg K} (htol : 0 < cfg.tol) {d : Nat} {w w' : World K} (hw : AtClock d w)
    (h : StepC cfg (· = d) w w') {sd : StratData K} {kids : List (Node K)} (hr : w.root = .strat sd kids) :
    ∃ sd' kids', w'.root = .strat sd' kids' ∧ IdxKeep cfg d sd sd' := by
  obtain ⟨sd', kids', h1, h2⟩ := lift_root hr (h.lift (idxLaws cfg htol d) hw)
  exact ⟨sd', kids', h1, h2.1 (root_ck hw hr)⟩

theorem RunC.idxKeep {cfg : Cfg K} (htol : 0 < cfg.tol) {d : Nat} {w w' : World K} (hw : AtClock d w)
    (h : RunC cfg (· = d) w w') {sd : StratData K} {kids : List (Node K)} (hr : w.root = .strat sd kids) :
    ∃ sd' kids', w'.root = .strat sd' kids' ∧ IdxKeep cfg d sd sd' := by
  obtain ⟨sd', kids', h1, h2⟩ := lift_root hr (h.lift (idxLaws cfg htol d) hw).1
  exact ⟨sd', kids', h1, h2.1 (root_ck hw hr)⟩

theorem updRoot_idxKeep {cfg : Cfg K} (htol : 0 < cfg.tol) {d : Nat} {w w' : World K} (hw : AtClock d w)
    (h : updRoot cfg d w = .ok w') {sd : StratData K} {kids : List (Node K)} (hr : w.root = .strat sd kids) :
    ∃ sd' kids', w'.root = .strat sd' kids' ∧ IdxKeep cfg d sd sd' :=
  StepC.idxKeep htol hw (.update d rfl h) hr

/-! ### one date of the loop -/

/-- an update that returns a root not flagged bankrupt did not take the bankruptcy step -/
theorem updRoot_of_not_bankrupt {cfg : Cfg K} {d : Nat} {w w' : World K}
    (h : updRoot cfg d w = .ok w') (hb : w'.bankrupt = false) : updNode cfg d w.root = .ok w'.root := by
  obtain ⟨root, st⟩ := w
  cases root with
  | sec s => cases h
  | strat sd kids =>
    rw [updRoot_strat] at h
    obtain ⟨⟨kids1, acc⟩, hk, h⟩ := bind_eq_ok h
    simp only at h
    by_cases hc : bankruptCond cfg (stratDateChange d sd).1 (acc.val + acc.coupons) = true
    · simp only [hc, ↓reduceIte] at h
      obtain ⟨wF, hfl, h⟩ := bind_eq_ok h
      obtain ⟨n, hn, rfl⟩ := map_eq_ok h
      obtain ⟨sdF, kidsF, hrF, hbF⟩ : RootBk wF :=
        flattenAt_inv (fun _ _ => refreshNB_rootBk) (fun _ _ _ => modify_flatF_rootBk) _ _ _ _ hfl
          ⟨_, _, rfl, rfl⟩
      rw [hrF] at hn
      obtain ⟨sd', ks', rfl, hb'⟩ := updNode_strat_bankrupt hn
      rw [P09.World.bankrupt_mk, hb', hbF] at hb
      cases hb
    · simp only [hc, Bool.false_eq_true, ↓reduceIte] at h
      obtain ⟨n, hf, rfl⟩ := map_eq_ok h
      show updNode cfg d (.strat sd kids) = .ok n
      rw [updNode_strat, hk, bind_ok]; exact hf

/-- the opening update of a new date on a market-value, non-paper strategy: the base is captured from the
    close of the earlier date, the flows are reset, the index is written (`Rec` on that base, no flows) and
    recorded in row `d` -/
theorem updNode_open {cfg : Cfg K} (htol : 0 < cfg.tol) {d n : Nat} {sd sd' : StratData K}
    {kids kids' : List (Node K)} (hfi : sd.fixedIncome = false) (hpt : sd.paperTrade = false)
    (hn : sd.now = some n) (hnd : n ≠ d) (h : updNode cfg d (.strat sd kids) = .ok (.strat sd' kids')) :
    sd'.now = some d ∧ sd'.fixedIncome = false ∧ sd'.paperTrade = false ∧
    sd'.lastValue = sd.value ∧ sd'.lastPrice = sd.price ∧ sd'.netFlows = 0 ∧
    Rec cfg sd.price sd.value 0 sd'.value sd'.price ∧
    (d < sd.rPrice.length → sd'.rPrice[d]? = some sd'.price) ∧
    (d < sd.rValue.length → sd'.rValue[d]? = some sd'.value) := by
  obtain ⟨s1, s2, s3⟩ := updNode_strat_static h
  obtain ⟨kids1, acc, sd3, _, hw, he⟩ := updNode_strat_ok h
  simp only [Node.strat.injEq] at he
  obtain ⟨rfl, _⟩ := he
  have ar := (stratDateChange_cases d sd).1 n hn hnd
  have hnp : (stratDateChange d sd).2 = true :=
    stratDateChange_newpt_L d sd (by rw [hn]; intro e; cases e; exact hnd rfl)
  rw [hnp] at hw
  obtain ⟨b1, b2, _, b4, _, b6⟩ := stratWrite_base hw
  obtain ⟨r1, r2, _, r4, _, _⟩ := stratRows_base d sd3
  have hpt3 : sd3.paperTrade = false := by rw [b6]; simp only; rw [ar]; exact hpt
  have hfi2 : ({ (stratDateChange d sd).1 with capital := (stratDateChange d sd).1.capital + acc.coupons } :
      StratData K).fixedIncome = false := by simp only; rw [ar]; exact hfi
  have e1 : sd3.lastValue = sd.value := by rw [b1]; simp only; rw [ar]
  have e2 : sd3.lastPrice = sd.price := by rw [b2]; simp only; rw [ar]
  have e4 : sd3.netFlows = 0 := by rw [b4]; simp only; rw [ar]
  refine ⟨s1, s2.trans hfi, s3.trans hpt, by rw [r1, e1], by rw [r2, e2], by rw [r4, e4], ?_, ?_, ?_⟩
  · rw [stratRows_value, stratRows_price d sd3 hpt3]
    rcases stratWrite_rec htol hfi2 hw with ⟨_, hv, hr⟩ | ⟨hc, _⟩
    · simp only at hr
      rw [ar] at hr
      rw [hv]; exact hr
    · simp [stratChanged] at hc
  · intro hlt
    rw [stratRows_rPrice d sd3 hpt3, stratRows_price d sd3 hpt3]
    rcases stratWrite_cases hw with ⟨hc, _⟩ | ⟨_, p, rfl⟩
    · simp [stratChanged] at hc
    · simp only [stratSetPrice, stratSetTotals_rPrice]
      rw [ar]
      exact List.getElem?_set_self hlt
  · intro hlt
    rw [stratRows_rValue, stratRows_value]
    rcases stratWrite_cases hw with ⟨hc, _⟩ | ⟨_, p, rfl⟩
    · simp [stratChanged] at hc
    · simp only [stratSetPrice, stratSetTotals_rValue, stratSetTotals_value]
      rw [ar]
      exact List.getElem?_set_self hlt

/-- a same-date update of a market-value, non-paper strategy: base and flows are kept; either the index is
    rewritten (`Rec` on the current base and flows) or — the total `Vt` just computed being within `TOL` of the
    recorded value (and the notional within `TOL` of the recorded one) — nothing is written -/
theorem updNode_close {cfg : Cfg K} (htol : 0 < cfg.tol) {d : Nat} {sd sd' : StratData K}
    {kids kids' : List (Node K)} (hfi : sd.fixedIncome = false) (hpt : sd.paperTrade = false)
    (hn : Ck (· = d) sd.now) (w : World K) (hw : w.root = .strat sd kids)
    (h : updNode cfg d (.strat sd kids) = .ok (.strat sd' kids')) :
    sd'.lastValue = sd.lastValue ∧ sd'.lastPrice = sd.lastPrice ∧ sd'.netFlows = sd.netFlows ∧
    (d < sd.rFlows.length → sd'.rFlows[d]? = some sd'.netFlows) ∧
    (d < sd.rCash.length → sd'.rCash[d]? = some sd'.capital) ∧
    (Rec cfg sd.lastPrice sd.lastValue sd.netFlows sd'.value sd'.price ∨
     (sd'.price = sd.price ∧ sd'.value = sd.value ∧
       ∃ Vt, P16.rootTotal cfg d w = .ok Vt ∧ isZero cfg.tol (sd.value - Vt) = true)) := by
  obtain ⟨kids1, acc, sd3, hk, hw3, he⟩ := updNode_strat_ok h
  simp only [Node.strat.injEq] at he
  obtain ⟨rfl, _⟩ := he
  have ar := stratDateChange_ck hn
  obtain ⟨b1, b2, _, b4, _, b6⟩ := stratWrite_base hw3
  obtain ⟨r1, r2, _, r4, _, _⟩ := stratRows_base d sd3
  have hpt3 : sd3.paperTrade = false := by rw [b6]; simp only; rw [ar]; exact hpt
  have hfi2 : ({ (stratDateChange d sd).1 with capital := (stratDateChange d sd).1.capital + acc.coupons } :
      StratData K).fixedIncome = false := by simp only; rw [ar]; exact hfi
  have e1 : sd3.lastValue = sd.lastValue := by rw [b1]; simp only; rw [ar]
  have e2 : sd3.lastPrice = sd.lastPrice := by rw [b2]; simp only; rw [ar]
  have e4 : sd3.netFlows = sd.netFlows := by rw [b4]; simp only; rw [ar]
  refine ⟨by rw [r1, e1], by rw [r2, e2], by rw [r4, e4], ?_, ?_, ?_⟩
  · intro hlt
    obtain ⟨_, _, q3, _, _, q6⟩ := stratRows_rows d sd3
    obtain ⟨_, _, _, _, _, l6⟩ := stratWrite_ledger hw3
    rw [q6, q3, l6]
    simp only
    rw [ar]
    exact List.getElem?_set_self hlt
  · intro hlt
    obtain ⟨q1, _, _, q4, _, _⟩ := stratRows_rows d sd3
    obtain ⟨_, _, _, l4, _, _⟩ := stratWrite_ledger hw3
    rw [q4, q1, l4]
    simp only
    rw [ar]
    exact List.getElem?_set_self hlt
  rw [stratRows_value, stratRows_price d sd3 hpt3]
  rcases stratWrite_rec htol hfi2 hw3 with ⟨_, hv, hr⟩ | ⟨hc, he⟩
  · left
    simp only at hr
    rw [ar] at hr
    rw [hv]; exact hr
  · right
    subst he
    simp only
    rw [ar]
    refine ⟨rfl, rfl, acc.val + acc.coupons, ?_, ?_⟩
    · simp only [P16.rootTotal, hw, hk, map_ok]
    · simp only [stratChanged, Bool.or_eq_false_iff, Bool.not_eq_false'] at hc
      have := hc.1.2
      rw [ar] at this
      exact this

theorem frozen_root_strat {P : Nat → Prop} {n n' : Node K} {sd sd' : StratData K} {kids kids' : List (Node K)}
    (h : Frozen P n n') (hn : n = .strat sd kids) (hn' : n' = .strat sd' kids') : StratFrozen P sd sd' := by
  subst hn hn'
  simp only [frozen_strat] at h
  exact h.1

/-- the closing state of one pass of the loop of `Backtest.run` on a date `d` later than the root's clock, for
    a market-value, non-paper root that is not flagged bankrupt at the end of the pass, `run` issuing public
    calls only (`P04.RunPublic`: explicit `root.update`s at `d` only) -/
theorem btDay_index_aux {cfg : Cfg K} (htol : 0 < cfg.tol) {run : RunFn K} (hrun : RunPublic cfg run)
    {d n : Nat} {w0 w2 : World K} {sd0 : StratData K} {kids0 : List (Node K)}
    (hr : w0.root = .strat sd0 kids0) (hfi : sd0.fixedIncome = false) (hpt : sd0.paperTrade = false)
    (hn : sd0.now = some n) (hnd : n ≠ d) (h : btDay cfg run d w0 = .ok w2) (hnb : w2.bankrupt = false) :
    ∃ w1 w' sd2 kids2, updRoot cfg d w0 = .ok w1 ∧ run d w1 = .ok w' ∧ updRoot cfg d w' = .ok w2 ∧
      w2.root = .strat sd2 kids2 ∧ sd2.now = some d ∧ sd2.fixedIncome = false ∧ sd2.paperTrade = false ∧
      sd2.lastValue = sd0.value ∧ sd2.lastPrice = sd0.price ∧
      (d < sd0.rPrice.length → sd2.rPrice[d]? = some sd2.price) ∧
      (d < sd0.rValue.length → sd2.rValue[d]? = some sd2.value) ∧
      (d < sd0.rFlows.length → sd2.rFlows[d]? = some sd2.netFlows) ∧
      (d < sd0.rCash.length → sd2.rCash[d]? = some sd2.capital) ∧
      (Rec cfg sd0.price sd0.value sd2.netFlows sd2.value sd2.price ∨
       ((∃ Fw, Rec cfg sd0.price sd0.value Fw sd2.value sd2.price) ∧
        ∃ Vt, P16.rootTotal cfg d w' = .ok Vt ∧ isZero cfg.tol (sd2.value - Vt) = true)) := by
  unfold btDay at h
  obtain ⟨w1, h1, h⟩ := bind_eq_ok h
  by_cases hb1 : w1.bankrupt = true
  · simp only [hb1, ↓reduceIte] at h
    cases h
    rw [hb1] at hnb; cases hnb
  have hb1' : w1.bankrupt = false := by simpa using hb1
  simp only [hb1', Bool.false_eq_true, ↓reduceIte] at h
  obtain ⟨w', hrn, h3⟩ := bind_eq_ok h
  -- opening update
  have ho := updRoot_of_not_bankrupt h1 hb1'
  rw [hr] at ho
  obtain ⟨sd1, kids1, hr1⟩ := updNode_strat_isStrat ho
  rw [hr1] at ho
  obtain ⟨o1, o2, o3, o4, o5, o6, o7, o8, o9⟩ := updNode_open htol hfi hpt hn hnd ho
  have hc1 : AtClock d w1 := updRoot_atClock h1
  -- the algos
  have hR := hrun d w1 w' hc1 hrn
  obtain ⟨sdr, kidsr, hrr, kr⟩ := RunC.idxKeep htol hc1 hR hr1
  have hcr : AtClock d w' := hR.wok hc1
  have hfir : sdr.fixedIncome = false := kr.fixedIncome.trans o2
  have hptr : sdr.paperTrade = false := kr.paperTrade.trans o3
  have hinv1 : IdxInv cfg sd1 := ⟨0, by rw [o4, o5]; exact o7⟩
  obtain ⟨Fw, hinvr⟩ := kr.inv o2 o3 hinv1
  rw [kr.lastValue, kr.lastPrice, o4, o5] at hinvr
  -- closing update
  have hcl := updRoot_of_not_bankrupt h3 hnb
  rw [hrr] at hcl
  obtain ⟨sd2, kids2, hr2⟩ := updNode_strat_isStrat hcl
  rw [hr2] at hcl
  obtain ⟨c1, c2, c3, c5, c6, c4⟩ := updNode_close htol hfir hptr kr.ck w' hrr hcl
  have hlenF : sdr.rFlows.length = sd0.rFlows.length :=
    (frozen_root_strat (hR.frozen hc1) hr1 hrr).rFlows.1.trans
      (frozen_root_strat (updRoot_frozen_at h1).1 hr hr1).rFlows.1
  have hlenC : sdr.rCash.length = sd0.rCash.length :=
    (frozen_root_strat (hR.frozen hc1) hr1 hrr).rCash.1.trans
      (frozen_root_strat (updRoot_frozen_at h1).1 hr hr1).rCash.1
  obtain ⟨s1, s2, s3⟩ := updNode_strat_static hcl
  obtain ⟨sd2', kids2', hr2', k2⟩ := updRoot_idxKeep htol hcr h3 hrr
  rw [hr2] at hr2'
  simp only [Node.strat.injEq] at hr2'
  obtain ⟨rfl, rfl⟩ := hr2'
  refine ⟨w1, w', sd2, kids2, h1, hrn, h3, hr2, s1, s2.trans hfir, s3.trans hptr,
    by rw [c1, kr.lastValue, o4], by rw [c2, kr.lastPrice, o5], ?_, ?_, ?_, ?_, ?_⟩
  · intro hlt
    exact k2.row hptr (kr.row o3 (o8 hlt))
  · intro hlt
    exact k2.rowV (kr.rowV (o9 hlt))
  · intro hlt
    exact c5 (by rw [hlenF]; exact hlt)
  · intro hlt
    exact c6 (by rw [hlenC]; exact hlt)
  · rw [kr.lastValue, kr.lastPrice, o4, o5] at c4
    rcases c4 with hrec | ⟨hp, hv, Vt, hVt, hz⟩
    · left; rw [c3]; exact hrec
    · right
      exact ⟨⟨Fw, by rw [hp, hv]; exact hinvr⟩, Vt, hVt, by rw [hv]; exact hz⟩

/-! ### the loop over dates -/

/-- the closing figures of one date of the loop: value, net flows of the date, the flows as they stood at the
    last index write of the date, price -/
structure DayRec (K : Type) where
  date : Nat
  V : K
  F : K
  Fw : K
  P : K

/-- consecutive closes are linked by `Rec`: `IndexChain cfg P0 V0 recs P V` -/
inductive IndexChain (cfg : Cfg K) : K → K → List (DayRec K) → K → K → Prop
  | nil (P V : K) : IndexChain cfg P V [] P V
  | cons {P0 V0 P V : K} (r : DayRec K) (rs : List (DayRec K)) :
      Rec cfg P0 V0 r.Fw r.V r.P → IndexChain cfg r.P r.V rs P V → IndexChain cfg P0 V0 (r :: rs) P V

/-- `Π_t V_t / (V_{t-1} + F_t)` -/
def chainProd (V0 : K) : List (DayRec K) → K
  | [] => 1
  | r :: rs => r.V / (V0 + r.Fw) * chainProd r.V rs

/-- every base `V_{t-1} + F_t` of the chain passes the `is_zero` guard -/
def chainBases (cfg : Cfg K) (V0 : K) : List (DayRec K) → Prop
  | [] => True
  | r :: rs => isZero cfg.tol (V0 + r.Fw) = false ∧ chainBases cfg r.V rs

theorem IndexChain.product {cfg : Cfg K} (htol : 0 < cfg.tol) {P0 V0 P V : K} {rs : List (DayRec K)}
    (h : IndexChain cfg P0 V0 rs P V) (hb : chainBases cfg V0 rs) : P = P0 * chainProd V0 rs := by
  induction h with
  | nil P V => simp [chainProd]
  | cons r rs hr _ ih =>
    obtain ⟨hb1, hb2⟩ := hb
    have hne := ne_zero_of_isZero_false htol hb1
    have h1 := hr.eq_of_base hb1
    rw [ih hb2, chainProd]
    have : r.P = _ := eq_div_of_mul_eq hne h1
    rw [this]; field_simp

theorem btDay_frozen_eq {cfg : Cfg K} {run : RunFn K} (hp : RunPublic cfg run) {d : Nat} {w w' : World K}
    (h : btDay cfg run d w = .ok w') : Frozen (· = d) w.root w'.root := by
  unfold btDay at h
  obtain ⟨w1, h1, h⟩ := bind_eq_ok h
  have hf1 := updRoot_frozen_at h1
  split at h
  · cases h; exact hf1.1
  · obtain ⟨w2, h2, h3⟩ := bind_eq_ok h
    have hr := hp d w1 w2 hf1.2 h2
    exact Frozen.trans _ _ _ hf1.1 (Frozen.trans _ _ _ (hr.frozen hf1.2) (updRoot_frozen_at h3).1)

theorem btLoop_frozen_mem {cfg : Cfg K} {run : RunFn K} (hp : RunPublic cfg run) :
    ∀ (ds : List Nat) (w w' : World K), btLoop cfg run ds w = .ok w' → Frozen (· ∈ ds) w.root w'.root
  | [], w, w', h => by cases h; exact Frozen.refl _ _
  | d :: ds, w, w', h => by
    rw [btLoop] at h
    obtain ⟨w1, h1, h2⟩ := bind_eq_ok h
    exact Frozen.trans _ _ _
      (Frozen.mono (fun _ hx => hx ▸ List.mem_cons_self ..) _ _ (btDay_frozen_eq hp h1))
      (Frozen.mono (fun _ hx => List.mem_cons_of_mem _ hx) _ _ (btLoop_frozen_mem hp ds w1 w' h2))

/-- the bankruptcy flag is never cleared -/
theorem btDay_bankrupt_mono {cfg : Cfg K} {run : RunFn K} {d : Nat} {w w' : World K}
    (h : btDay cfg run d w = .ok w') (hb : w.bankrupt = true) : w'.bankrupt = true := by
  unfold btDay at h
  obtain ⟨w1, h1, h⟩ := bind_eq_ok h
  have hb1 := (P16.Traced.of_updRoot h1).mono hb
  simp only [hb1, ↓reduceIte] at h
  cases h; exact hb1

theorem btLoop_bankrupt_mono {cfg : Cfg K} {run : RunFn K} :
    ∀ (ds : List Nat) (w w' : World K), btLoop cfg run ds w = .ok w' → w.bankrupt = true → w'.bankrupt = true
  | [], w, w', h, hb => by cases h; exact hb
  | d :: ds, w, w', h, hb => by
    rw [btLoop] at h
    obtain ⟨w1, h1, h2⟩ := bind_eq_ok h
    exact btLoop_bankrupt_mono ds w1 w' h2 (btDay_bankrupt_mono h1 hb)

/-- the three recorded rows of the root hold the closing figures of the date -/
def RowsHold (sd : StratData K) (r : DayRec K) : Prop :=
  sd.rPrice[r.date]? = some r.P ∧ sd.rValue[r.date]? = some r.V ∧ sd.rFlows[r.date]? = some r.F

/-- the record's `Fw` is the date's closing flows, unless the closing update found the total `Vt` within `TOL`
    of the recorded value and wrote nothing -/
def ClosedOrQuiet (cfg : Cfg K) (r : DayRec K) : Prop :=
  r.Fw = r.F ∨ ∃ (w' : World K) (Vt : K), P16.rootTotal cfg r.date w' = .ok Vt ∧ isZero cfg.tol (r.V - Vt) = true

theorem RowsHold.frozen {P : Nat → Prop} {sd sd' : StratData K} {r : DayRec K} (hf : StratFrozen P sd sd')
    (hP : ¬ P r.date) (h : RowsHold sd r) : RowsHold sd' r := by
  obtain ⟨h1, h2, h3⟩ := h
  exact ⟨(hf.rPrice.exact (by simp) _ hP).trans h1, (hf.rValue.exact (by simp) _ hP).trans h2,
    (hf.rFlows.exact (by simp) _ hP).trans h3⟩

theorem btLoop_index_aux {cfg : Cfg K} (htol : 0 < cfg.tol) {run : RunFn K} (hrun : RunPublic cfg run) :
    ∀ (ds : List Nat) (n : Nat) (w0 w : World K) (sd0 : StratData K) (kids0 : List (Node K)),
      w0.root = .strat sd0 kids0 → sd0.fixedIncome = false → sd0.paperTrade = false → sd0.now = some n →
      (n :: ds).Nodup →
      (∀ d ∈ ds, d < sd0.rPrice.length ∧ d < sd0.rValue.length ∧ d < sd0.rFlows.length) →
      btLoop cfg run ds w0 = .ok w → w.bankrupt = false →
      ∃ recs sd kids, w.root = .strat sd kids ∧ sd.fixedIncome = false ∧ sd.paperTrade = false ∧
        recs.map (·.date) = ds ∧ IndexChain cfg sd0.price sd0.value recs sd.price sd.value ∧
        (∀ r ∈ recs, ClosedOrQuiet cfg r) ∧ (∀ r ∈ recs, RowsHold sd r)
  | [], n, w0, w, sd0, kids0, hr, hfi, hpt, _, _, _, h, _ => by
    cases h
    exact ⟨[], sd0, kids0, hr, hfi, hpt, rfl, .nil _ _, by simp, by simp⟩
  | d :: ds, n, w0, w, sd0, kids0, hr, hfi, hpt, hn, hnd, hlen, h, hnb => by
    rw [btLoop] at h
    obtain ⟨w1, h1, h2⟩ := bind_eq_ok h
    have hnb1 : w1.bankrupt = false := by
      by_contra hc
      rw [btLoop_bankrupt_mono ds w1 w h2 (by simpa using hc)] at hnb
      cases hnb
    have hne : n ≠ d := by
      intro e; subst e
      simp at hnd
    obtain ⟨_, w', sd1, kids1, _, _, _, hr1, a1, a2, a3, _, _, a6, a7, a8, _, a9⟩ :=
      btDay_index_aux htol hrun hr hfi hpt hn hne h1 hnb1
    have hfz := frozen_root_strat (btDay_frozen_eq hrun h1) hr hr1
    obtain ⟨l1, l2, l3⟩ := hlen d (List.mem_cons_self ..)
    have hnd1 : (d :: ds).Nodup := (List.nodup_cons.1 hnd).2
    have hlen1 : ∀ d' ∈ ds, d' < sd1.rPrice.length ∧ d' < sd1.rValue.length ∧ d' < sd1.rFlows.length := by
      intro d' hd'
      obtain ⟨m1, m2, m3⟩ := hlen d' (List.mem_cons_of_mem _ hd')
      exact ⟨by rw [hfz.rPrice.1]; exact m1, by rw [hfz.rValue.1]; exact m2, by rw [hfz.rFlows.1]; exact m3⟩
    obtain ⟨recs, sd, kids, hrw, b1, b2, b3, b4, b5, b6⟩ :=
      btLoop_index_aux htol hrun ds d w1 w sd1 kids1 hr1 a2 a3 a1 hnd1 hlen1 h2 hnb
    have hfz2 := frozen_root_strat (btLoop_frozen_mem hrun ds w1 w h2) hr1 hrw
    have hdn : d ∉ ds := (List.nodup_cons.1 hnd1).1
    rcases a9 with hrec | ⟨⟨Fw, hrec⟩, Vt, hVt, hz⟩
    · refine ⟨⟨d, sd1.value, sd1.netFlows, sd1.netFlows, sd1.price⟩ :: recs, sd, kids, hrw, b1, b2,
        by simp [b3], .cons _ _ hrec b4, ?_, ?_⟩
      · intro r hm
        rcases List.mem_cons.1 hm with rfl | hm
        · exact .inl rfl
        · exact b5 r hm
      · intro r hm
        rcases List.mem_cons.1 hm with rfl | hm
        · exact RowsHold.frozen hfz2 hdn ⟨a6 l1, a7 l2, a8 l3⟩
        · exact b6 r hm
    · refine ⟨⟨d, sd1.value, sd1.netFlows, Fw, sd1.price⟩ :: recs, sd, kids, hrw, b1, b2,
        by simp [b3], .cons _ _ hrec b4, ?_, ?_⟩
      · intro r hm
        rcases List.mem_cons.1 hm with rfl | hm
        · exact .inr ⟨w', Vt, hVt, hz⟩
        · exact b5 r hm
      · intro r hm
        rcases List.mem_cons.1 hm with rfl | hm
        · exact RowsHold.frozen hfz2 hdn ⟨a6 l1, a7 l2, a8 l3⟩
        · exact b6 r hm

/-! ### the start of a run -/

/-- the first update of a strategy fresh from `setup` (clock unset, `last_price = PAR`) that finds exactly
    `last_value + net_flows` — the capital it was given, as flows — writes `PAR` (both index formulas) -/
theorem updNode_first {cfg : Cfg K} (htol : 0 < cfg.tol) {d : Nat} {sd sd' : StratData K}
    {kids kids' : List (Node K)} (hpt : sd.paperTrade = false) (hn : sd.now = none)
    (hlp : sd.lastPrice = cfg.par) (w : World K) (hw : w.root = .strat sd kids)
    (hT : P16.rootTotal cfg d w = .ok (sd.lastValue + sd.netFlows))
    (h : updNode cfg d (.strat sd kids) = .ok (.strat sd' kids')) :
    sd'.now = some d ∧ sd'.fixedIncome = sd.fixedIncome ∧ sd'.paperTrade = false ∧
    sd'.price = cfg.par ∧ sd'.value = sd.lastValue + sd.netFlows ∧
    (d < sd.rPrice.length → sd'.rPrice[d]? = some cfg.par) ∧
    (d < sd.rValue.length → sd'.rValue[d]? = some sd'.value) := by
  obtain ⟨s1, s2, s3⟩ := updNode_strat_static h
  obtain ⟨kids1, acc, sd3, hk, hw3, he⟩ := updNode_strat_ok h
  simp only [Node.strat.injEq] at he
  obtain ⟨rfl, _⟩ := he
  have ar := (stratDateChange_cases d sd).2.2 hn
  have hnp : (stratDateChange d sd).2 = true := stratDateChange_newpt_L d sd (by rw [hn]; intro e; cases e)
  rw [hnp] at hw3
  simp only [P16.rootTotal, hw, hk, map_ok, Except.ok.injEq] at hT
  obtain ⟨_, _, _, _, _, b6⟩ := stratWrite_base hw3
  have hpt3 : sd3.paperTrade = false := by rw [b6]; simp only; rw [ar]; exact hpt
  obtain ⟨sdx, hx, hpx⟩ := C03.index_start cfg htol d
    { (stratDateChange d sd).1 with capital := (stratDateChange d sd).1.capital + acc.coupons }
    (acc.val + acc.coupons) acc.notl acc.bo (by simp only; rw [ar]; exact hlp) (by simp only; rw [ar]; exact hT)
  rw [hw3] at hx
  cases hx
  have hv : sd3.value = acc.val + acc.coupons := stratWrite_value (by simp [stratChanged]) hw3
  refine ⟨s1, s2, s3.trans hpt, by rw [stratRows_price d sd3 hpt3]; exact hpx,
    by rw [stratRows_value, hv, hT], ?_, ?_⟩
  · intro hlt
    rw [stratRows_rPrice d sd3 hpt3, ← hpx]
    rcases stratWrite_cases hw3 with ⟨hc, _⟩ | ⟨_, p, rfl⟩
    · simp [stratChanged] at hc
    · simp only [stratSetPrice, stratSetTotals_rPrice]
      rw [ar]
      exact List.getElem?_set_self hlt
  · intro hlt
    rw [stratRows_rValue, stratRows_value]
    rcases stratWrite_cases hw3 with ⟨hc, _⟩ | ⟨_, p, rfl⟩
    · simp [stratChanged] at hc
    · simp only [stratSetPrice, stratSetTotals_rValue, stratSetTotals_value]
      rw [ar]
      exact List.getElem?_set_self hlt

/-- `adjust(capital); update(dates[0])` of `Backtest.run` on a fresh root: whatever the capital, the index on
    the synthetic row is `PAR` and the value is the capital (plus what the root already carried as flows) -/
theorem btRun_start_aux {cfg : Cfg K} (htol : 0 < cfg.tol) {c : K} {d0 : Nat} {w0 w1 w2 : World K}
    {sd0 : StratData K} {kids0 : List (Node K)} (hr : w0.root = .strat sd0 kids0)
    (hpt : sd0.paperTrade = false) (hn : sd0.now = none) (hlp : sd0.lastPrice = cfg.par)
    (h1 : opAdjust w0 [] c true true = .ok w1) (h2 : updRoot cfg d0 w1 = .ok w2)
    (hT : P16.rootTotal cfg d0 w1 = .ok (sd0.lastValue + sd0.netFlows + c)) (hnb : w2.bankrupt = false) :
    ∃ sd2 kids2, w2.root = .strat sd2 kids2 ∧ sd2.now = some d0 ∧ sd2.fixedIncome = sd0.fixedIncome ∧
      sd2.paperTrade = false ∧ sd2.price = cfg.par ∧ sd2.value = sd0.lastValue + sd0.netFlows + c ∧
      (d0 < sd0.rPrice.length → sd2.rPrice[d0]? = some cfg.par) ∧
      (d0 < sd0.rValue.length → sd2.rValue[d0]? = some sd2.value) ∧ StratFrozen (· = d0) sd0 sd2 := by
  obtain ⟨sd, kids, e1, e2⟩ := P09.opAdjust_root h1
  rw [hr] at e1
  simp only [Node.strat.injEq] at e1
  obtain ⟨rfl, rfl⟩ := e1
  have hu := updRoot_of_not_bankrupt h2 hnb
  rw [e2] at hu
  obtain ⟨sd2, kids2, hr2⟩ := updNode_strat_isStrat hu
  rw [hr2] at hu
  have hT' : P16.rootTotal cfg d0 w1 = .ok
      ((sd0.adjust { amount := c, fee := 0, flow := true }).lastValue +
       (sd0.adjust { amount := c, fee := 0, flow := true }).netFlows) := by
    rw [hT]; simp [StratData.adjust, add_assoc]
  obtain ⟨a1, a2, a3, a4, a5, a6, a7⟩ :=
    updNode_first htol (sd := sd0.adjust { amount := c, fee := 0, flow := true }) hpt hn hlp w1 e2 hT' hu
  refine ⟨sd2, kids2, hr2, a1, a2, a3, a4, ?_, a6, a7, ?_⟩
  · rw [a5]; simp [StratData.adjust, add_assoc]
  · exact (adjust_frozen (· = d0) sd0 _).trans (frozen_root_strat (updRoot_frozen_at h2).1 e2 hr2)

/-- the whole of `Backtest.run` on a fresh market-value root -/
theorem btRun_index_aux {cfg : Cfg K} (htol : 0 < cfg.tol) {run : RunFn K} (hrun : RunPublic cfg run)
    {c : K} {d0 : Nat} {ds : List Nat} {w0 w : World K} {sd0 : StratData K} {kids0 : List (Node K)}
    (hr : w0.root = .strat sd0 kids0) (hfi : sd0.fixedIncome = false) (hpt : sd0.paperTrade = false)
    (hn : sd0.now = none) (hlp : sd0.lastPrice = cfg.par) (hnd : (d0 :: ds).Nodup)
    (hlen : ∀ d ∈ d0 :: ds, d < sd0.rPrice.length ∧ d < sd0.rValue.length ∧ d < sd0.rFlows.length)
    (hT : ∀ w1 w2, opAdjust w0 [] c true true = .ok w1 → updRoot cfg d0 w1 = .ok w2 →
      P16.rootTotal cfg d0 w1 = .ok (sd0.lastValue + sd0.netFlows + c))
    (h : btRun cfg run c (d0 :: ds) w0 = .ok w) (hnb : w.bankrupt = false) :
    ∃ recs sd kids, w.root = .strat sd kids ∧ recs.map (·.date) = ds ∧
      IndexChain cfg cfg.par (sd0.lastValue + sd0.netFlows + c) recs sd.price sd.value ∧
      (∀ r ∈ recs, ClosedOrQuiet cfg r) ∧ (∀ r ∈ recs, RowsHold sd r) ∧
      sd.rPrice[d0]? = some cfg.par ∧ sd.rValue[d0]? = some (sd0.lastValue + sd0.netFlows + c) := by
  unfold btRun at h
  simp only at h
  obtain ⟨w1, h1, h⟩ := bind_eq_ok h
  obtain ⟨w2, h2, h3⟩ := bind_eq_ok h
  have hnb2 : w2.bankrupt = false := by
    by_contra hc
    rw [btLoop_bankrupt_mono ds w2 w h3 (by simpa using hc)] at hnb
    cases hnb
  obtain ⟨sd2, kids2, hr2, a1, a2, a3, a4, a5, a6, a7, a8⟩ :=
    btRun_start_aux htol hr hpt hn hlp h1 h2 (hT w1 w2 h1 h2) hnb2
  obtain ⟨l1, l2, _⟩ := hlen d0 (List.mem_cons_self ..)
  have hlen2 : ∀ d ∈ ds, d < sd2.rPrice.length ∧ d < sd2.rValue.length ∧ d < sd2.rFlows.length := by
    intro d hd
    obtain ⟨m1, m2, m3⟩ := hlen d (List.mem_cons_of_mem _ hd)
    exact ⟨by rw [a8.rPrice.1]; exact m1, by rw [a8.rValue.1]; exact m2, by rw [a8.rFlows.1]; exact m3⟩
  obtain ⟨recs, sd, kids, hrw, _, _, b3, b4, b5, b6⟩ :=
    btLoop_index_aux htol hrun ds d0 w2 w sd2 kids2 hr2 (a2.trans hfi) a3 a1 hnd hlen2 h3 hnb
  rw [a4, a5] at b4
  have hfz := frozen_root_strat (btLoop_frozen_mem hrun ds w2 w h3) hr2 hrw
  have hdn : d0 ∉ ds := (List.nodup_cons.1 hnd).1
  refine ⟨recs, sd, kids, hrw, b3, b4, b5, b6, ?_, ?_⟩
  · exact (hfz.rPrice.exact (by simp) _ hdn).trans (a6 l1)
  · exact (hfz.rValue.exact (by simp) _ hdn).trans (by rw [a7 l2, a5])

/-! ### a cash-only root -/

theorem flattenStrat_nokids (cfg : Cfg K) (sd : StratData K) : flattenStrat cfg sd [] = .ok (sd, []) := by
  unfold flattenStrat
  split
  · rw [flattenKidsFI]; rfl
  · rw [flattenKidsMV]; rfl

theorem flattenAt_nokids (cfg : Cfg K) (rf : World K → Except Err (World K)) (sd0 sd : StratData K) (st : Bool) :
    flattenAt cfg rf (.strat sd0 []) [] ⟨.strat sd [], st⟩ = .ok ⟨.strat sd [], true⟩ := by
  rw [flattenAt_strat, flattenSubs.eq_1]
  simp only [pure_eq_ok, bind_ok, Node.get?]
  simp [World.modify, modAt, flatF, flattenStrat_nokids]

theorem updKids_nil (cfg : Cfg K) (d : Nat) (np bo : Bool) (acc : Acc K) :
    updKids cfg d np bo [] acc = .ok ([], acc) := by rw [updKids.eq_1]; rfl

/-- a cash-only market-value strategy inside date `d`: base `C0` (the close of the earlier date), index `P0`,
    and the cash is the base plus the flows booked so far -/
structure CashInv (d : Nat) (C0 P0 : K) (sd : StratData K) : Prop where
  now : sd.now = some d
  fixedIncome : sd.fixedIncome = false
  paperTrade : sd.paperTrade = false
  lastValue : sd.lastValue = C0
  lastPrice : sd.lastPrice = P0
  cash : sd.capital = C0 + sd.netFlows
  price : sd.price = P0

/-- `update(d)` of a cash-only strategy standing at `d`: the index stays at `P0`; the value becomes the cash,
    unless it already was within `TOL` of it -/
theorem cash_updNode {cfg : Cfg K} (htol : 0 < cfg.tol) {d : Nat} {C0 P0 : K} {sd : StratData K} {n' : Node K}
    (hi : CashInv d C0 P0 sd) (h : updNode cfg d (.strat sd []) = .ok n') :
    ∃ sd', n' = .strat sd' [] ∧ CashInv d C0 P0 sd' ∧ sd'.bankrupt = sd.bankrupt ∧ sd'.capital = sd.capital ∧
      (sd'.value = sd'.capital ∨ (sd'.value = sd.value ∧ isZero cfg.tol (sd.value - sd.capital) = true)) := by
  obtain ⟨kids1, acc, sd3, hk, hw, rfl⟩ := updNode_strat_ok h
  rw [updKids_nil] at hk
  simp only [Except.ok.injEq, Prod.mk.injEq] at hk
  obtain ⟨rfl, rfl⟩ := hk
  have ar := (stratDateChange_cases d sd).2.1 hi.now
  simp only at hw
  rw [ar] at hw
  simp only at hw
  obtain ⟨b1, b2, _, b4, b5, b6⟩ := stratWrite_base hw
  obtain ⟨r1, r2, _, r4, r5, r6⟩ := stratRows_base d sd3
  obtain ⟨_, hcap, _, _, hbk⟩ := stratWrite_proj hw
  simp only at b1 b2 b4 b5 b6 hcap hbk
  have hpt3 : sd3.paperTrade = false := b6.trans hi.paperTrade
  have hcash : sd.capital + 0 = C0 + sd.netFlows := by rw [add_zero]; exact hi.cash
  have hp3 : sd3.price = P0 ∧ (sd3.value = sd3.capital ∨
      (sd3.value = sd.value ∧ isZero cfg.tol (sd.value - sd.capital) = true)) := by
    rcases stratWrite_rec htol (by exact hi.fixedIncome) hw with ⟨_, hv, hr⟩ | ⟨hc, he⟩
    · simp only at hr
      rw [hi.lastValue, hi.lastPrice, hcash] at hr
      exact ⟨hr.flat htol, .inl (by rw [hv, hcap])⟩
    · subst he
      simp only [stratChanged, Bool.or_eq_false_iff, Bool.not_eq_false'] at hc
      exact ⟨hi.price, .inr ⟨rfl, by simpa using hc.1.2⟩⟩
  refine ⟨stratRows d sd3, by simp [kidsWeights], ⟨?_, ?_, ?_, ?_, ?_, ?_, ?_⟩, ?_, ?_, ?_⟩
  · rw [stratRows_now, stratWrite_now hw]
  · rw [r5, b5]; exact hi.fixedIncome
  · rw [r6]; exact hpt3
  · rw [r1, b1]; exact hi.lastValue
  · rw [r2, b2]; exact hi.lastPrice
  · rw [stratRows_capital, r4, hcap, b4]; exact hcash
  · rw [stratRows_price d sd3 hpt3]; exact hp3.1
  · rw [stratRows_bankrupt, hbk]
  · rw [stratRows_capital, hcap, add_zero]
  · rw [stratRows_value, stratRows_capital]; exact hp3.2

/-- a world whose root is a cash-only strategy -/
def CashW (d : Nat) (C0 P0 : K) (w : World K) : Prop := ∃ sd, w.root = .strat sd [] ∧ CashInv d C0 P0 sd

/-- `root.update(d)` (bankruptcy step included) on a cash-only root standing at `d` -/
theorem cash_updRoot {cfg : Cfg K} (htol : 0 < cfg.tol) {d : Nat} {C0 P0 : K} {w w' : World K}
    {sd : StratData K} (hr : w.root = .strat sd []) (hi : CashInv d C0 P0 sd)
    (h : updRoot cfg d w = .ok w') :
    ∃ sd', w'.root = .strat sd' [] ∧ CashInv d C0 P0 sd' ∧ sd'.capital = sd.capital ∧
      (sd'.value = sd'.capital ∨ (sd'.value = sd.value ∧ isZero cfg.tol (sd.value - sd.capital) = true)) := by
  obtain ⟨root, st⟩ := w
  simp only at hr
  subst hr
  rw [updRoot_strat, updKids_nil, bind_ok] at h
  have ar := (stratDateChange_cases d sd).2.1 hi.now
  simp only at h
  split at h
  · obtain ⟨wF, hfl, h⟩ := bind_eq_ok h
    obtain ⟨n, hn, rfl⟩ := map_eq_ok h
    simp only [bankruptWorld] at hfl
    rw [flattenAt_nokids] at hfl
    cases hfl
    simp only at hn
    rw [ar] at hn
    have hiB : CashInv d C0 P0 ({ ({ sd with now := some d } : StratData K) with
        capital := sd.capital + 0, bankrupt := true }) :=
      ⟨rfl, hi.fixedIncome, hi.paperTrade, hi.lastValue, hi.lastPrice, by
        show sd.capital + 0 = C0 + sd.netFlows
        rw [add_zero]; exact hi.cash, hi.price⟩
    obtain ⟨sd', rfl, h1, _, hcp, h3⟩ := cash_updNode htol hiB hn
    refine ⟨sd', rfl, h1, by rw [hcp]; exact add_zero _, ?_⟩
    rcases h3 with h3 | ⟨h3, h4⟩
    · exact .inl h3
    · exact .inr ⟨h3, by simpa using h4⟩
  · obtain ⟨n, hf, rfl⟩ := map_eq_ok h
    have hn : updNode cfg d (.strat sd []) = .ok n := by
      rw [updNode_strat, updKids_nil, bind_ok]; exact hf
    obtain ⟨sd', rfl, h1, _, hcp, h3⟩ := cash_updNode htol hi hn
    exact ⟨sd', rfl, h1, hcp, h3⟩

theorem cash_refresh {cfg : Cfg K} (htol : 0 < cfg.tol) {d : Nat} {C0 P0 : K} {w w' : World K}
    (hi : CashW d C0 P0 w) (h : refresh cfg w = .ok w') : CashW d C0 P0 w' := by
  obtain ⟨sd, hr, hc⟩ := hi
  unfold refresh at h
  split at h
  · have hnow : w.root.now = some d := by rw [hr]; exact hc.now
    rw [hnow] at h
    obtain ⟨sd', h1, h2, _, _⟩ := cash_updRoot htol hr hc h
    exact ⟨sd', h1, h2⟩
  · cases h; exact ⟨sd, hr, hc⟩

/-! ### public calls that book only flows on the root -/

/-- one call of the public API at clock `d`; a root-level `adjust` only with `flow = True` -/
inductive FlowStep (cfg : Cfg K) (d : Nat) : World K → World K → Prop
  | update {w w'} : updRoot cfg d w = .ok w' → FlowStep cfg d w w'
  | adjust {w w'} (path : List Nat) (amount : K) (u fl : Bool) : (path = [] → fl = true) →
      opAdjust w path amount u fl = .ok w' → FlowStep cfg d w w'
  | allocate {w w'} (path : List Nat) (amount : K) (u : Bool) :
      opAllocate cfg w path amount u = .ok w' → FlowStep cfg d w w'
  | transact {w w'} (path : List Nat) (q : K) (u : Bool) (custom : Option K) :
      opTransact cfg w path q u custom = .ok w' → FlowStep cfg d w w'
  | flatten {w w'} (path : List Nat) : opFlatten cfg w path = .ok w' → FlowStep cfg d w w'
  | close {w w'} (path : List Nat) (child : Nat) (u : Bool) :
      opClose cfg w path child u = .ok w' → FlowStep cfg d w w'
  | rebalance {w w'} (path : List Nat) (weight : K) (child : Nat) (base : Option K) (u : Bool) :
      opRebalance cfg w path weight child base u = .ok w' → FlowStep cfg d w w'
  | read {w w'} (path : List Nat) (g : Getter) : opRead cfg w path g = .ok w' → FlowStep cfg d w w'

inductive FlowRun (cfg : Cfg K) (d : Nat) : World K → World K → Prop
  | nil (w) : FlowRun cfg d w w
  | cons {w w' w''} : FlowStep cfg d w w' → FlowRun cfg d w' w'' → FlowRun cfg d w w''

theorem FlowStep.toStepC {cfg : Cfg K} {d : Nat} {w w' : World K} (h : FlowStep cfg d w w') :
    StepC cfg (· = d) w w' := by
  cases h with
  | update h => exact .update d rfl h
  | adjust p a u f _ h => exact .adjust p a u f h
  | allocate p a u h => exact .allocate p a u h
  | transact p q u c h => exact .transact p q u c h
  | flatten p h => exact .flatten p h
  | close p c u h => exact .close p c u h
  | rebalance p wt c b u h => exact .rebalance p wt c b u h
  | read p g h => exact .read p g h

theorem FlowRun.toRunC {cfg : Cfg K} {d : Nat} {w w' : World K} (h : FlowRun cfg d w w') :
    RunC cfg (· = d) w w' := by
  induction h with
  | nil w => exact .nil w
  | cons hs _ ih => exact .cons hs.toStepC ih

/-- the algos issue public calls only and book nothing but flows on the root -/
def FlowPublic (cfg : Cfg K) (run : RunFn K) : Prop :=
  ∀ d w w2, AtClock d w → run d w = .ok w2 → FlowRun cfg d w w2

theorem FlowPublic.runPublic {cfg : Cfg K} {run : RunFn K} (h : FlowPublic cfg run) : RunPublic cfg run :=
  fun d w w2 hw hr => (h d w w2 hw hr).toRunC

theorem get?_nokids (sd : StratData K) (i : Nat) (rest : List Nat) :
    (Node.strat sd [] : Node K).get? (i :: rest) = none := by
  simp [Node.get?]

theorem modify_nokids {f : Option (StratData K) → Node K → Except Err (OpRes K)} {w w' : World K}
    {sd : StratData K} (hr : w.root = .strat sd []) {path : List Nat} (h : w.modify path f = .ok w') :
    path = [] ∧ ∃ r, f none (.strat sd []) = .ok r ∧ w'.root = r.1 := by
  unfold World.modify at h
  obtain ⟨⟨r, adjs, st⟩, hm, rfl⟩ := map_eq_ok h
  rw [hr] at hm
  cases path with
  | nil => rw [modAt.eq_1] at hm; exact ⟨rfl, _, hm, rfl⟩
  | cons i rest => rw [modAt.eq_3] at hm; simp at hm

theorem cash_flatten {cfg : Cfg K} {d : Nat} {C0 P0 : K} {w w' : World K} (hi : CashW d C0 P0 w)
    {path : List Nat} (h : opFlatten cfg w path = .ok w') : CashW d C0 P0 w' := by
  obtain ⟨sd, hr, hc⟩ := hi
  obtain ⟨root, st⟩ := w
  simp only at hr
  subst hr
  unfold opFlatten at h
  cases path with
  | nil =>
    simp only [Node.get?] at h
    rw [flattenAt_nokids] at h
    cases h
    exact ⟨sd, rfl, hc⟩
  | cons i rest => simp only [get?_nokids] at h; cases h

theorem cash_close {cfg : Cfg K} {d : Nat} {C0 P0 : K} {w w' : World K} (hi : CashW d C0 P0 w)
    {path : List Nat} {child : Nat} {u : Bool} (h : opClose cfg w path child u = .ok w') : False := by
  obtain ⟨sd, hr, hc⟩ := hi
  unfold opClose at h
  have : w.root.get? (path ++ [child]) = none := by
    rw [hr]
    cases path with
    | nil => exact get?_nokids sd child []
    | cons i rest => exact get?_nokids sd i (rest ++ [child])
  rw [this] at h
  split at h
  · rename_i heq; cases heq
  · cases h

theorem FlowStep.cash {cfg : Cfg K} (htol : 0 < cfg.tol) {d : Nat} {C0 P0 : K} {w w' : World K}
    (hi : CashW d C0 P0 w) (h : FlowStep cfg d w w') : CashW d C0 P0 w' := by
  cases h with
  | update h =>
    obtain ⟨sd, hr, hc⟩ := hi
    obtain ⟨sd', h1, h2, _, _⟩ := cash_updRoot htol hr hc h
    exact ⟨sd', h1, h2⟩
  | adjust path a u fl hp h =>
    obtain ⟨sd, hr, hc⟩ := hi
    unfold opAdjust at h
    obtain ⟨rfl, r, hf, hr'⟩ := modify_nokids hr h
    have hfl := hp rfl
    subst hfl
    cases hf
    refine ⟨_, hr', hc.now, hc.fixedIncome, hc.paperTrade, hc.lastValue, hc.lastPrice, ?_, hc.price⟩
    show sd.capital + a = C0 + (sd.netFlows + a)
    rw [hc.cash]; ring
  | allocate path a u h =>
    obtain ⟨sd, hr, hc⟩ := hi
    unfold opAllocate at h
    obtain ⟨rfl, r, hf, hr'⟩ := modify_nokids hr h
    simp only [adjust_cancel, allocKids, pure_eq_ok, map_ok, Except.ok.injEq] at hf
    subst hf
    exact ⟨sd, hr', hc⟩
  | transact path q u c h =>
    obtain ⟨sd, hr, hc⟩ := hi
    unfold opTransact at h
    obtain ⟨rfl, r, hf, hr'⟩ := modify_nokids hr h
    simp only [transKids, pure_eq_ok, map_ok, Except.ok.injEq] at hf
    subst hf
    exact ⟨sd, hr', hc⟩
  | flatten path h => exact cash_flatten hi h
  | close path child u h => exact (cash_close hi h).elim
  | rebalance path wt child base u h =>
    unfold opRebalance at h
    split at h
    · exact (cash_close hi h).elim
    · obtain ⟨w1, h1, h⟩ := bind_eq_ok h
      have hi1 : CashW d C0 P0 w1 := by
        split at h1
        · exact cash_refresh htol hi h1
        · cases h1; exact hi
      obtain ⟨w2, h2, h⟩ := bind_eq_ok h
      obtain ⟨sd2, hr2, _⟩ := cash_refresh htol hi1 h2
      have : w2.root.get? (path ++ [child]) = none := by
        rw [hr2]
        cases path with
        | nil => exact get?_nokids sd2 child []
        | cons i rest => exact get?_nokids sd2 i (rest ++ [child])
      rw [this] at h
      split at h
      · rename_i heq; cases heq
      · cases h
  | read path g h =>
    rw [opRead_eq] at h
    cases g with
    | plain => cases h; exact hi
    | stratRefreshing => exact cash_refresh htol hi h
    | secLocal =>
      obtain ⟨sd, hr, hc⟩ := hi
      obtain ⟨rfl, r, hf, _⟩ := modify_nokids hr h
      simp [localF] at hf
    | secSeries =>
      obtain ⟨w1, h1, _⟩ := bind_eq_ok h
      obtain ⟨sd, hr, hc⟩ := hi
      obtain ⟨rfl, r, hf, _⟩ := modify_nokids hr h1
      simp [localF] at hf
    | stratMembers =>
      obtain ⟨w1, h1, h⟩ := bind_eq_ok h
      obtain ⟨sd1, hr1, hc1⟩ := cash_refresh htol hi h1
      split at h
      · cases h
      · obtain ⟨rfl, r, hf, hr'⟩ := modify_nokids hr1 h
        simp only [localRefreshAll, localRefreshKids, pure_eq_ok, map_ok, Except.ok.injEq] at hf
        subst hf
        exact ⟨sd1, hr', hc1⟩

theorem FlowRun.cash {cfg : Cfg K} (htol : 0 < cfg.tol) {d : Nat} {C0 P0 : K} {w w' : World K}
    (hi : CashW d C0 P0 w) (h : FlowRun cfg d w w') : CashW d C0 P0 w' := by
  induction h with
  | nil w => exact hi
  | cons hs _ ih => exact ih (hs.cash htol hi)


/-- the opening update of a new date on a cash-only root whose recorded value is its cash -/
theorem cash_open {cfg : Cfg K} (htol : 0 < cfg.tol) {d n : Nat} {w0 w1 : World K} {sd0 : StratData K}
    (hr : w0.root = .strat sd0 []) (hfi : sd0.fixedIncome = false) (hpt : sd0.paperTrade = false)
    (hn : sd0.now = some n) (hnd : n ≠ d) (hex : sd0.value = sd0.capital) (h : updRoot cfg d w0 = .ok w1) :
    ∃ sd1, w1.root = .strat sd1 [] ∧ CashInv d sd0.value sd0.price sd1 ∧ sd1.value = sd1.capital := by
  obtain ⟨root, st⟩ := w0
  simp only at hr
  subst hr
  rw [updRoot_strat, updKids_nil, bind_ok] at h
  have ar := (stratDateChange_cases d sd0).1 n hn hnd
  have hnp : (stratDateChange d sd0).2 = true :=
    stratDateChange_newpt_L d sd0 (by rw [hn]; intro e; cases e; exact hnd rfl)
  simp only at h
  split at h
  · obtain ⟨wF, hfl, h⟩ := bind_eq_ok h
    obtain ⟨nn, hnn, rfl⟩ := map_eq_ok h
    simp only [bankruptWorld] at hfl
    rw [flattenAt_nokids] at hfl
    cases hfl
    simp only at hnn
    have key := fun hi => cash_updNode htol (C0 := sd0.value) (P0 := sd0.price) hi hnn
    have hiB := key (by
      rw [ar]
      exact ⟨rfl, hfi, hpt, rfl, rfl, by
        show sd0.capital + 0 = sd0.value + 0
        rw [hex], rfl⟩)
    clear key
    obtain ⟨sd', rfl, h1, _, hcp, h3⟩ := hiB
    rw [ar] at hcp h3
    refine ⟨sd', rfl, h1, ?_⟩
    rcases h3 with h3 | ⟨h3, _⟩
    · exact h3
    · rw [h3, hcp]
      show sd0.value = sd0.capital + 0
      rw [add_zero]; exact hex
  · obtain ⟨nn, hf, rfl⟩ := map_eq_ok h
    unfold stratFinish at hf
    obtain ⟨sd3, hw, rfl⟩ := map_eq_ok hf
    rw [hnp, ar] at hw
    simp only at hw
    obtain ⟨b1, b2, _, b4, b5, b6⟩ := stratWrite_base hw
    obtain ⟨r1, r2, _, r4, r5, r6⟩ := stratRows_base d sd3
    obtain ⟨_, hcap, _, _, _⟩ := stratWrite_proj hw
    simp only at b1 b2 b4 b5 b6 hcap
    have hpt3 : sd3.paperTrade = false := b6.trans hpt
    rcases stratWrite_rec htol (by exact hfi) hw with ⟨_, hv, hrc⟩ | ⟨hc, _⟩
    · simp only at hrc
      rw [← hex] at hrc
      refine ⟨stratRows d sd3, by simp [kidsWeights], ⟨?_, ?_, ?_, ?_, ?_, ?_, ?_⟩, ?_⟩
      · rw [stratRows_now, stratWrite_now hw]
      · rw [r5, b5]; exact hfi
      · rw [r6]; exact hpt3
      · rw [r1, b1]
      · rw [r2, b2]
      · rw [stratRows_capital, r4, hcap, b4, hex]
      · rw [stratRows_price d sd3 hpt3]; exact hrc.flat htol
      · rw [stratRows_value, stratRows_capital, hv, hcap]
    · simp [stratChanged] at hc

/-- one pass of the loop on a cash-only root whose recorded value is its cash, the algos booking nothing but
    flows: the index does not move, the root stays cash-only, and the closing value is the cash — unless the
    closing update found the recorded value within `TOL` of the cash and left it -/
theorem cash_btDay {cfg : Cfg K} (htol : 0 < cfg.tol) {run : RunFn K} (hrun : FlowPublic cfg run)
    {d n : Nat} {w0 w2 : World K} {sd0 : StratData K}
    (hr : w0.root = .strat sd0 []) (hfi : sd0.fixedIncome = false) (hpt : sd0.paperTrade = false)
    (hn : sd0.now = some n) (hnd : n ≠ d) (hex : sd0.value = sd0.capital)
    (h : btDay cfg run d w0 = .ok w2) :
    ∃ sd2, w2.root = .strat sd2 [] ∧ CashInv d sd0.value sd0.price sd2 ∧
      (sd2.value = sd2.capital ∨ isZero cfg.tol (sd2.value - sd2.capital) = true) := by
  unfold btDay at h
  obtain ⟨w1, h1, h⟩ := bind_eq_ok h
  obtain ⟨sd1, hr1, hi1, hex1⟩ := cash_open htol hr hfi hpt hn hnd hex h1
  split at h
  · cases h; exact ⟨sd1, hr1, hi1, .inl hex1⟩
  · obtain ⟨w', hrn, h3⟩ := bind_eq_ok h
    obtain ⟨sdr, hrr, hir⟩ := (hrun d w1 w' (updRoot_atClock h1) hrn).cash htol ⟨sd1, hr1, hi1⟩
    obtain ⟨sd2, hr2, hi2, hcp, hd⟩ := cash_updRoot htol hrr hir h3
    refine ⟨sd2, hr2, hi2, ?_⟩
    rcases hd with hd | ⟨hv, hz⟩
    · exact .inl hd
    · exact .inr (by rw [hv, hcp]; exact hz)

theorem updNode_nokids {cfg : Cfg K} {d : Nat} {sd : StratData K} {n' : Node K}
    (h : updNode cfg d (.strat sd []) = .ok n') : ∃ sd', n' = .strat sd' [] := by
  obtain ⟨kids1, acc, sd3, hk, _, rfl⟩ := updNode_strat_ok h
  rw [updKids_nil] at hk
  simp only [Except.ok.injEq, Prod.mk.injEq] at hk
  obtain ⟨rfl, rfl⟩ := hk
  exact ⟨stratRows d sd3, by simp [kidsWeights]⟩

/-- the loop on a cash-only root, the algos booking nothing but flows, read off the recorded rows of the final
    world: if on every date the recorded value equals the recorded cash (no closing update was skipped within
    `TOL`), the index never moved and its row is constant -/
theorem cash_btLoop_aux {cfg : Cfg K} (htol : 0 < cfg.tol) {run : RunFn K} (hrun : FlowPublic cfg run) :
    ∀ (ds : List Nat) (n : Nat) (w0 w : World K) (sd0 : StratData K),
      w0.root = .strat sd0 [] → sd0.fixedIncome = false → sd0.paperTrade = false → sd0.now = some n →
      (n :: ds).Nodup →
      (∀ d ∈ ds, d < sd0.rPrice.length ∧ d < sd0.rValue.length ∧ d < sd0.rCash.length) →
      sd0.value = sd0.capital → btLoop cfg run ds w0 = .ok w → w.bankrupt = false →
      ∀ sd kids, w.root = .strat sd kids → (∀ d ∈ ds, sd.rValue[d]? = sd.rCash[d]?) →
        kids = [] ∧ sd.price = sd0.price ∧ ∀ d ∈ ds, sd.rPrice[d]? = some sd0.price
  | [], n, w0, w, sd0, hr, _, _, _, _, _, _, h, _, sd, kids, hrw, _ => by
    cases h
    rw [hr] at hrw
    simp only [Node.strat.injEq] at hrw
    obtain ⟨rfl, rfl⟩ := hrw
    exact ⟨rfl, rfl, by simp⟩
  | d :: ds, n, w0, w, sd0, hr, hfi, hpt, hn, hnd, hlen, hex, h, hnb, sd, kids, hrw, hrows => by
    rw [btLoop] at h
    obtain ⟨w1, h1, h2⟩ := bind_eq_ok h
    have hnb1 : w1.bankrupt = false := by
      by_contra hc
      rw [btLoop_bankrupt_mono ds w1 w h2 (by simpa using hc)] at hnb
      cases hnb
    have hne : n ≠ d := by
      intro e; subst e
      simp at hnd
    obtain ⟨sd1, hr1, hi1, _⟩ := cash_btDay htol hrun hr hfi hpt hn hne hex h1
    obtain ⟨_, _, sd1', kids1', _, _, _, hr1', _, _, _, _, _, a6, a7, _, a8, _⟩ :=
      btDay_index_aux htol hrun.runPublic hr hfi hpt hn hne h1 hnb1
    rw [hr1] at hr1'
    simp only [Node.strat.injEq] at hr1'
    obtain ⟨rfl, rfl⟩ := hr1'
    have hfz := frozen_root_strat (btDay_frozen_eq hrun.runPublic h1) hr hr1
    obtain ⟨l1, l2, l3⟩ := hlen d (List.mem_cons_self ..)
    have hnd1 : (d :: ds).Nodup := (List.nodup_cons.1 hnd).2
    have hdn : d ∉ ds := (List.nodup_cons.1 hnd1).1
    have hlen1 : ∀ d' ∈ ds, d' < sd1.rPrice.length ∧ d' < sd1.rValue.length ∧ d' < sd1.rCash.length := by
      intro d' hd'
      obtain ⟨m1, m2, m3⟩ := hlen d' (List.mem_cons_of_mem _ hd')
      exact ⟨by rw [hfz.rPrice.1]; exact m1, by rw [hfz.rValue.1]; exact m2, by rw [hfz.rCash.1]; exact m3⟩
    have hfz2 := frozen_root_strat (btLoop_frozen_mem hrun.runPublic ds w1 w h2) hr1 hrw
    have eV := (hfz2.rValue.exact (by simp) _ hdn).trans (a7 l2)
    have eC := (hfz2.rCash.exact (by simp) _ hdn).trans (a8 l3)
    have eP := (hfz2.rPrice.exact (by simp) _ hdn).trans (a6 l1)
    have hex1 : sd1.value = sd1.capital := by
      have := hrows d (List.mem_cons_self ..)
      rw [eV, eC] at this
      exact Option.some.inj this
    obtain ⟨k1, k2, k3⟩ := cash_btLoop_aux htol hrun ds d w1 w sd1 hr1 hi1.fixedIncome hi1.paperTrade hi1.now
      hnd1 hlen1 hex1 h2 hnb sd kids hrw (fun d' hd' => hrows d' (List.mem_cons_of_mem _ hd'))
    refine ⟨k1, k2.trans hi1.price, ?_⟩
    intro d' hd'
    rcases List.mem_cons.1 hd' with rfl | hd'
    · rw [eP, hi1.price]
    · rw [k3 d' hd', hi1.price]

/-- the whole of `Backtest.run` on a fresh cash-only root -/
theorem cash_btRun_aux {cfg : Cfg K} (htol : 0 < cfg.tol) {run : RunFn K} (hrun : FlowPublic cfg run)
    {c : K} {d0 : Nat} {ds : List Nat} {w0 w : World K} {sd0 : StratData K}
    (hr : w0.root = .strat sd0 []) (hfi : sd0.fixedIncome = false) (hpt : sd0.paperTrade = false)
    (hn : sd0.now = none) (hlp : sd0.lastPrice = cfg.par) (hcap : sd0.capital = sd0.lastValue + sd0.netFlows)
    (hnd : (d0 :: ds).Nodup)
    (hlen : ∀ d ∈ d0 :: ds, d < sd0.rPrice.length ∧ d < sd0.rValue.length ∧ d < sd0.rCash.length)
    (h : btRun cfg run c (d0 :: ds) w0 = .ok w) (hnb : w.bankrupt = false)
    {sd : StratData K} {kids : List (Node K)} (hrw : w.root = .strat sd kids)
    (hrows : ∀ d ∈ d0 :: ds, sd.rValue[d]? = sd.rCash[d]?) :
    kids = [] ∧ sd.price = cfg.par ∧ ∀ d ∈ d0 :: ds, sd.rPrice[d]? = some cfg.par := by
  unfold btRun at h
  simp only at h
  obtain ⟨w1, h1, h⟩ := bind_eq_ok h
  obtain ⟨w2, h2, h3⟩ := bind_eq_ok h
  have hnb2 : w2.bankrupt = false := by
    by_contra hc
    rw [btLoop_bankrupt_mono ds w2 w h3 (by simpa using hc)] at hnb
    cases hnb
  obtain ⟨sdA, kidsA, eA, e1⟩ := P09.opAdjust_root h1
  rw [hr] at eA
  simp only [Node.strat.injEq] at eA
  obtain ⟨rfl, rfl⟩ := eA
  have hT : P16.rootTotal cfg d0 w1 = .ok (sd0.lastValue + sd0.netFlows + c) := by
    have ar := (stratDateChange_cases d0 (sd0.adjust { amount := c, fee := 0, flow := true })).2.2 hn
    simp only [P16.rootTotal, e1, updKids_nil, map_ok, ar]
    simp only [StratData.adjust, hcap, add_zero]
  obtain ⟨sd2, kids2, hr2, a1, a2, a3, a4, a5, a6, a7, a8⟩ :=
    btRun_start_aux htol hr hpt hn hlp h1 h2 hT hnb2
  have hu := updRoot_of_not_bankrupt h2 hnb2
  rw [e1] at hu
  obtain ⟨sd2', hr2'⟩ := updNode_nokids hu
  rw [hr2] at hr2'
  simp only [Node.strat.injEq] at hr2'
  obtain ⟨rfl, rfl⟩ := hr2'
  rw [hr2] at hu
  obtain ⟨_, _, _, _, c6, _⟩ := updNode_close htol (sd := sd0.adjust { amount := c, fee := 0, flow := true })
    hfi hpt (by show Ck (· = d0) sd0.now; rw [hn]; exact ck_none _) w1 e1 hu
  obtain ⟨l1, l2, l3⟩ := hlen d0 (List.mem_cons_self ..)
  have hdn : d0 ∉ ds := (List.nodup_cons.1 hnd).1
  have hfz := frozen_root_strat (btLoop_frozen_mem hrun.runPublic ds w2 w h3) hr2 hrw
  have eV := (hfz.rValue.exact (by simp) _ hdn).trans (a7 l2)
  have eC := (hfz.rCash.exact (by simp) _ hdn).trans (c6 l3)
  have eP := (hfz.rPrice.exact (by simp) _ hdn).trans (a6 l1)
  have hex2 : sd2.value = sd2.capital := by
    have := hrows d0 (List.mem_cons_self ..)
    rw [eV, eC] at this
    exact Option.some.inj this
  have hlen2 : ∀ d ∈ ds, d < sd2.rPrice.length ∧ d < sd2.rValue.length ∧ d < sd2.rCash.length := by
    intro d hd
    obtain ⟨m1, m2, m3⟩ := hlen d (List.mem_cons_of_mem _ hd)
    exact ⟨by rw [a8.rPrice.1]; exact m1, by rw [a8.rValue.1]; exact m2, by rw [a8.rCash.1]; exact m3⟩
  obtain ⟨k1, k2, k3⟩ := cash_btLoop_aux htol hrun ds d0 w2 w sd2 hr2 (a2.trans hfi) a3 a1 hnd hlen2 hex2 h3 hnb
    sd kids hrw (fun d' hd' => hrows d' (List.mem_cons_of_mem _ hd'))
  refine ⟨k1, k2.trans a4, ?_⟩
  intro d' hd'
  rcases List.mem_cons.1 hd' with rfl | hd'
  · exact eP
  · rw [k3 d' hd', a4]

/-! ### the root's `net_flows` under public calls -/

/-- `net_flows` of a node (0 on a security) -/
def rootNF : Node K → K
  | .strat sd _ => sd.netFlows
  | .sec _ => 0

theorem foldl_adjust_netFlows (L : List (Adj K)) (sd : StratData K) (hL : ∀ a ∈ L, a.flow = false) :
    (L.foldl StratData.adjust sd).netFlows = sd.netFlows := by
  rw [foldl_adjust_nonflow L sd hL]

theorem secTransact_adj_nonflow {cfg : Cfg K} {pn : Option Nat} {comm : K → K → K} {s s' : SecData K} {q : K}
    {us : Bool} {c : Option K} {oa : Option (Adj K)} (h : secTransact cfg pn comm s q us c = .ok (s', oa)) :
    ∀ a ∈ oa.toList, a.flow = false := by
  unfold secTransact at h
  obtain ⟨s1, _, h2⟩ := bind_eq_ok h
  exact secTransactCore_adj_nonflow h2

theorem secAllocate_adj_nonflow {cfg : Cfg K} {pn : Option Nat} {comm : K → K → K} {s s' : SecData K} {a : K}
    {oa : Option (Adj K)} (h : secAllocate cfg pn comm s a = .ok (s', oa)) :
    ∀ x ∈ oa.toList, x.flow = false := by
  obtain ⟨s1, _, ⟨_, _, rfl⟩ | ⟨q, _, ht⟩⟩ := secAllocate_cases h
  · simp
  · exact secTransactCore_adj_nonflow ht

theorem transNode_adjs_nonflow {cfg : Cfg K} {pn : Option Nat} {comm : K → K → K} {q : K} {c : Option K}
    {n n' : Node K} {adjs : List (Adj K)} (h : transNode cfg pn comm q c n = .ok (n', adjs)) :
    ∀ a ∈ adjs, a.flow = false := by
  cases n with
  | sec s =>
    rw [transNode] at h
    obtain ⟨⟨s', oa⟩, h1, h2⟩ := map_eq_ok h
    cases h2
    exact secTransact_adj_nonflow h1
  | strat sd kids =>
    rw [transNode] at h
    obtain ⟨⟨sd2, kids2⟩, _, h2⟩ := map_eq_ok h
    cases h2
    simp

theorem allocKids_netFlows {cfg : Cfg K} {amount : K} (kids : List (Node K)) {sd sd2 : StratData K}
    {kids2 : List (Node K)} (h : allocKids cfg amount kids sd = .ok (sd2, kids2)) :
    sd2.netFlows = sd.netFlows := by
  obtain ⟨L, _, hL, rfl, _⟩ := allocKids_trace kids h
  exact foldl_adjust_netFlows L sd hL

theorem transKids_netFlows {cfg : Cfg K} {q : K} : ∀ (kids : List (Node K)) {sd sd2 : StratData K}
    {kids2 : List (Node K)}, transKids cfg q kids sd = .ok (sd2, kids2) → sd2.netFlows = sd.netFlows
  | [], sd, sd2, kids2, h => by
    rw [transKids] at h; cases h; rfl
  | k :: ks, sd, sd2, kids2, h => by
    rw [transKids] at h
    obtain ⟨⟨k', adjs⟩, h1, h2⟩ := bind_eq_ok h
    obtain ⟨⟨sd'', ks'⟩, h3, h4⟩ := map_eq_ok h2
    cases h4
    rw [transKids_netFlows ks h3, foldl_adjust_netFlows adjs sd (transNode_adjs_nonflow h1)]

theorem flattenKidsMV_netFlows {cfg : Cfg K} : ∀ (kids : List (Node K)) {sd sd2 : StratData K}
    {kids2 : List (Node K)}, flattenKidsMV cfg kids sd = .ok (sd2, kids2) → sd2.netFlows = sd.netFlows
  | [], sd, sd2, kids2, h => by
    rw [flattenKidsMV] at h; cases h; rfl
  | k :: ks, sd, sd2, kids2, h => by
    rw [flattenKidsMV] at h
    split at h
    · obtain ⟨⟨sd'', ks'⟩, h3, h4⟩ := map_eq_ok h
      cases h4
      exact flattenKidsMV_netFlows ks h3
    · obtain ⟨⟨k', adjs⟩, h1, h2⟩ := bind_eq_ok h
      obtain ⟨⟨sd'', ks'⟩, h3, h4⟩ := map_eq_ok h2
      cases h4
      rw [flattenKidsMV_netFlows ks h3, foldl_adjust_netFlows adjs sd (allocNode_adjs_nonflow h1)]

theorem flattenKidsFI_netFlows {cfg : Cfg K} : ∀ (kids : List (Node K)) {sd sd2 : StratData K}
    {kids2 : List (Node K)}, flattenKidsFI cfg kids sd = .ok (sd2, kids2) → sd2.netFlows = sd.netFlows
  | [], sd, sd2, kids2, h => by
    rw [flattenKidsFI] at h; cases h; rfl
  | .strat _ _ :: ks, sd, sd2, kids2, h => by
    rw [flattenKidsFI] at h; cases h
  | .sec s :: ks, sd, sd2, kids2, h => by
    rw [flattenKidsFI] at h
    split at h
    · obtain ⟨⟨sd'', ks'⟩, h3, h4⟩ := map_eq_ok h
      cases h4
      exact flattenKidsFI_netFlows ks h3
    · obtain ⟨⟨s', adj⟩, h1, h2⟩ := bind_eq_ok h
      obtain ⟨⟨sd'', ks'⟩, h3, h4⟩ := map_eq_ok h2
      cases h4
      rw [flattenKidsFI_netFlows ks h3, foldl_adjust_netFlows _ sd (secTransact_adj_nonflow h1)]

theorem flattenStrat_netFlows {cfg : Cfg K} {sd sd2 : StratData K} {kids kids2 : List (Node K)}
    (h : flattenStrat cfg sd kids = .ok (sd2, kids2)) : sd2.netFlows = sd.netFlows := by
  unfold flattenStrat at h
  split at h
  · exact flattenKidsFI_netFlows kids h
  · exact flattenKidsMV_netFlows kids h

/-- a node-level operation whose adjustments for the parent are non-flows, applied below the root, leaves
    the root's `net_flows` alone -/
theorem modify_cons_netFlows {f : Option (StratData K) → Node K → Except Err (OpRes K)}
    (hsub : ∀ p n r, f (some p) n = .ok r → ∀ a ∈ r.2.1, a.flow = false)
    {w w' : World K} {i : Nat} {rest : List Nat} (h : w.modify (i :: rest) f = .ok w') :
    rootNF w'.root = rootNF w.root := by
  unfold World.modify at h
  obtain ⟨⟨r, adjs, st⟩, hm, rfl⟩ := map_eq_ok h
  cases hr : w.root with
  | sec s => rw [hr, modAt.eq_2] at hm; cases hm
  | strat sd kids =>
    rw [hr, modAt.eq_3] at hm
    split at hm
    · cases hm
    · rename_i k hk
      obtain ⟨⟨k', a, st'⟩, h1, h2⟩ := map_eq_ok hm
      cases h2
      have hnf : ∀ x ∈ a, x.flow = false := by
        cases rest with
        | nil => rw [modAt.eq_1] at h1; exact hsub _ _ _ h1
        | cons j rest' =>
          cases k with
          | sec s => rw [modAt.eq_2] at h1; cases h1
          | strat sdk kk =>
            rw [modAt.eq_3] at h1
            split at h1
            · cases h1
            · obtain ⟨_, _, h3⟩ := map_eq_ok h1
              cases h3
              simp
      exact foldl_adjust_netFlows a sd hnf

/-- … and applied at the root it does what `hroot` says -/
theorem modify_netFlows {f : Option (StratData K) → Node K → Except Err (OpRes K)}
    (hsub : ∀ p n r, f (some p) n = .ok r → ∀ a ∈ r.2.1, a.flow = false)
    (hroot : ∀ n r, f none n = .ok r → rootNF r.1 = rootNF n)
    {w w' : World K} {path : List Nat} (h : w.modify path f = .ok w') : rootNF w'.root = rootNF w.root := by
  cases path with
  | nil =>
    unfold World.modify at h
    obtain ⟨⟨r, adjs, st⟩, hm, rfl⟩ := map_eq_ok h
    rw [modAt.eq_1] at hm; exact hroot _ _ hm
  | cons i rest => exact modify_cons_netFlows hsub h

/-- `adjust`: the root's `net_flows` moves by the amount iff the call is on the root with `flow = True` -/
theorem opAdjust_netFlows {w w' : World K} {path : List Nat} {a : K} {u fl : Bool}
    (h : opAdjust w path a u fl = .ok w') :
    rootNF w'.root = rootNF w.root + (if path = [] ∧ fl = true then a else 0) := by
  cases path with
  | nil =>
    obtain ⟨sd, kids, h1, h2⟩ := P09.opAdjust_root h
    rw [h1, h2]
    cases fl <;> simp [rootNF, StratData.adjust]
  | cons i rest =>
    unfold opAdjust at h
    rw [modify_cons_netFlows (fun p n r hr => ?_) h]
    · simp
    · cases n with
      | sec s => cases hr
      | strat sd kids => cases hr; simp

theorem opAllocate_netFlows {cfg : Cfg K} {w w' : World K} {path : List Nat} {a : K} {u : Bool}
    (h : opAllocate cfg w path a u = .ok w') : rootNF w'.root = rootNF w.root := by
  unfold opAllocate at h
  refine modify_netFlows (fun p n r hr => ?_) (fun n r hr => ?_) h
  · cases n with
    | sec s =>
      simp only at hr
      obtain ⟨⟨s', oa⟩, hs, rfl⟩ := map_eq_ok hr
      exact secAllocate_adj_nonflow hs
    | strat sd kids =>
      simp only at hr
      obtain ⟨⟨n', adjs⟩, hk, rfl⟩ := map_eq_ok hr
      exact allocNode_adjs_nonflow hk
  · cases n with
    | sec s => cases hr
    | strat sd kids =>
      simp only at hr
      rw [adjust_cancel] at hr
      obtain ⟨⟨sd2, kids2⟩, hk, rfl⟩ := map_eq_ok hr
      exact allocKids_netFlows kids hk

theorem opTransact_netFlows {cfg : Cfg K} {w w' : World K} {path : List Nat} {q : K} {u : Bool}
    {c : Option K} (h : opTransact cfg w path q u c = .ok w') : rootNF w'.root = rootNF w.root := by
  unfold opTransact at h
  refine modify_netFlows (fun p n r hr => ?_) (fun n r hr => ?_) h
  · cases n with
    | sec s =>
      simp only at hr
      obtain ⟨⟨s', oa⟩, hs, rfl⟩ := map_eq_ok hr
      exact secTransact_adj_nonflow hs
    | strat sd kids =>
      simp only at hr
      obtain ⟨⟨sd2, kids2⟩, hk, rfl⟩ := map_eq_ok hr
      simp
  · cases n with
    | sec s => cases hr
    | strat sd kids =>
      simp only at hr
      obtain ⟨⟨sd2, kids2⟩, hk, rfl⟩ := map_eq_ok hr
      exact transKids_netFlows kids hk

theorem modify_flatF_netFlows {cfg : Cfg K} {w w' : World K} {path : List Nat}
    (h : w.modify path (flatF cfg) = .ok w') : rootNF w'.root = rootNF w.root := by
  refine modify_netFlows (fun p n r hr => ?_) (fun n r hr => ?_) h
  · cases n with
    | sec s => cases hr
    | strat sd kids =>
      simp only [flatF] at hr
      obtain ⟨⟨sd2, kids2⟩, hk, rfl⟩ := map_eq_ok hr
      simp
  · cases n with
    | sec s => cases hr
    | strat sd kids =>
      simp only [flatF] at hr
      obtain ⟨⟨sd2, kids2⟩, hk, rfl⟩ := map_eq_ok hr
      exact flattenStrat_netFlows hk

/-- a same-date (or first) `update` of a strategy keeps its `net_flows` -/
theorem updNode_netFlows {cfg : Cfg K} {d : Nat} {n n' : Node K} (hck : Ck (· = d) n.now)
    (h : updNode cfg d n = .ok n') : rootNF n' = rootNF n := by
  cases n with
  | sec s =>
    rw [updNode.eq_1] at h
    obtain ⟨s', _, rfl⟩ := map_eq_ok h
    rfl
  | strat sd kids =>
    obtain ⟨kids1, acc, sd3, _, hw, rfl⟩ := updNode_strat_ok h
    obtain ⟨_, _, _, b4, _, _⟩ := stratWrite_base hw
    obtain ⟨_, _, _, r4, _, _⟩ := stratRows_base d sd3
    show (stratRows d sd3).netFlows = sd.netFlows
    rw [r4, b4]
    simp only
    rw [stratDateChange_ck hck]

theorem refreshNB_netFlows {cfg : Cfg K} {w w' : World K} (h : refreshNB cfg w = .ok w') :
    rootNF w'.root = rootNF w.root := by
  unfold refreshNB at h
  split at h
  · rename_i d hd
    obtain ⟨n, hn, rfl⟩ := map_eq_ok h
    exact updNode_netFlows (by rw [hd]; exact ck_some rfl) hn
  · cases h

/-- `root.update(d)` at the root's own date (bankruptcy step included) keeps the root's `net_flows` -/
theorem updRoot_netFlows {cfg : Cfg K} {d : Nat} {w w' : World K} (hck : Ck (· = d) w.root.now)
    (h : updRoot cfg d w = .ok w') : rootNF w'.root = rootNF w.root := by
  obtain ⟨root, st⟩ := w
  cases root with
  | sec s => cases h
  | strat sd kids =>
    have hck' : Ck (· = d) sd.now := hck
    rw [updRoot_strat] at h
    obtain ⟨⟨kids1, acc⟩, hk, h⟩ := bind_eq_ok h
    have hkn := updKids_nowsEq kids _ _ _ _ _ hk
    split at h
    · obtain ⟨wF, hfl, h⟩ := bind_eq_ok h
      obtain ⟨n, hn, rfl⟩ := map_eq_ok h
      have hBok : WOK (· = d) (bankruptWorld (stratDateChange d sd).1 (kids1, acc)) := by
        refine wok_of_nowsIn_strat (sd := _) (ks := kids1) rfl ?_
        simp only [bankruptWorld, NowsIn]
        refine ⟨fun x hx => ?_, hkn⟩
        change (stratDateChange d sd).1.now = some x at hx
        rw [stratDateChange_now] at hx; cases hx; rfl
      have hB : rootNF (bankruptWorld (stratDateChange d sd).1 (kids1, acc)).root = sd.netFlows := by
        simp only [bankruptWorld, rootNF]
        rw [stratDateChange_ck hck']
      have hF := flattenAt_inv
        (I := fun x => rootNF x.root = sd.netFlows ∧ WOK (· = d) x)
        (fun _ _ h1 hI => ⟨(refreshNB_netFlows h1).trans hI.1,
          lift_wok (clockLaws cfg _) (refreshNB_lift (clockLaws cfg _) hI.2 h1) hI.2⟩)
        (fun _ _ _ h1 hI => ⟨(modify_flatF_netFlows h1).trans hI.1,
          lift_wok (clockLaws cfg _)
            (modify_lift (clockLaws cfg _) (fun _ _ _ _ hn hr => flatF_lift (clockLaws cfg _) hn hr) hI.2 h1) hI.2⟩)
        _ _ _ _ hfl ⟨hB, hBok⟩
      exact (updNode_netFlows hF.2.2 hn).trans hF.1
    · obtain ⟨n, hf, rfl⟩ := map_eq_ok h
      have hn : updNode cfg d (.strat sd kids) = .ok n := by
        rw [updNode_strat, hk, bind_ok]; exact hf
      exact updNode_netFlows hck' hn

theorem refresh_netFlows {cfg : Cfg K} {w w' : World K} (h : refresh cfg w = .ok w') :
    rootNF w'.root = rootNF w.root := by
  unfold refresh at h
  split at h
  · split at h
    · rename_i d hd
      exact updRoot_netFlows (by rw [hd]; exact ck_some rfl) h
    · cases h
  · cases h; rfl

theorem opFlatten_netFlows {cfg : Cfg K} {w w' : World K} {path : List Nat}
    (h : opFlatten cfg w path = .ok w') : rootNF w'.root = rootNF w.root := by
  unfold opFlatten at h
  split at h
  · exact flattenAt_inv (I := fun x => rootNF x.root = rootNF w.root)
      (fun _ _ h1 hI => (refresh_netFlows h1).trans hI)
      (fun _ _ _ h1 hI => (modify_flatF_netFlows h1).trans hI) _ _ _ _ h rfl
  · cases h

theorem opClose_netFlows {cfg : Cfg K} {w w' : World K} {path : List Nat} {child : Nat} {u : Bool}
    (h : opClose cfg w path child u = .ok w') : rootNF w'.root = rootNF w.root := by
  unfold opClose at h
  split at h
  · obtain ⟨w1, h1, h⟩ := bind_eq_ok h
    have hw1 : rootNF w1.root = rootNF w.root := by
      split at h1
      · split at h1
        · exact opFlatten_netFlows h1
        · cases h1; rfl
      · simp only [Bool.false_eq_true, ↓reduceIte] at h1
        cases h1; rfl
    refine Eq.trans ?_ hw1
    split at h
    · split at h
      · cases h
      · split at h
        · split at h
          · exact opTransact_netFlows h
          · cases h; rfl
        · cases h
    · obtain ⟨w2, h2, h⟩ := bind_eq_ok h
      refine Eq.trans ?_ (refresh_netFlows h2)
      split at h
      · split at h
        · exact opAllocate_netFlows h
        · cases h; rfl
      · cases h
  · cases h

theorem opRebalance_netFlows {cfg : Cfg K} {w w' : World K} {path : List Nat} {weight : K}
    {child : Nat} {base : Option K} {u : Bool}
    (h : opRebalance cfg w path weight child base u = .ok w') : rootNF w'.root = rootNF w.root := by
  unfold opRebalance at h
  split at h
  · exact opClose_netFlows h
  · obtain ⟨w1, h1, h⟩ := bind_eq_ok h
    have hw1 : rootNF w1.root = rootNF w.root := by
      split at h1
      · exact refresh_netFlows h1
      · cases h1; rfl
    obtain ⟨w2, h2, h⟩ := bind_eq_ok h
    refine Eq.trans ?_ ((refresh_netFlows h2).trans hw1)
    split at h
    · simp only at h
      split at h
      · split at h
        · exact opTransact_netFlows h
        · exact opAllocate_netFlows h
      · exact opAllocate_netFlows h
    · cases h

theorem modify_localF_netFlows {cfg : Cfg K} {rn : Option Nat} {w w' : World K} {path : List Nat}
    (h : w.modify path (localF cfg rn) = .ok w') : rootNF w'.root = rootNF w.root := by
  refine modify_netFlows (fun p n r hr => ?_) (fun n r hr => ?_) h
  · unfold localF at hr
    split at hr
    · split at hr
      · split at hr
        · obtain ⟨s', _, rfl⟩ := map_eq_ok hr; simp
        · cases hr
      · cases hr; simp
    · cases hr
  · unfold localF at hr
    split at hr
    · rename_i heq; cases heq
    · cases hr

theorem localRefreshAll_netFlows {cfg : Cfg K} {d : Nat} {pn : Option Nat} {n n' : Node K}
    (h : localRefreshAll cfg d pn n = .ok n') : rootNF n' = rootNF n := by
  cases n with
  | sec s =>
    rw [localRefreshAll.eq_1] at h
    split at h
    · obtain ⟨s', _, rfl⟩ := map_eq_ok h; rfl
    · cases h; rfl
  | strat sd kids =>
    rw [localRefreshAll.eq_2] at h
    obtain ⟨ks, _, rfl⟩ := map_eq_ok h
    rfl

theorem opRead_netFlows {cfg : Cfg K} {w w' : World K} {path : List Nat} {g : Getter}
    (h : opRead cfg w path g = .ok w') : rootNF w'.root = rootNF w.root := by
  rw [opRead_eq] at h
  cases g with
  | plain => cases h; rfl
  | stratRefreshing => exact refresh_netFlows h
  | secLocal => exact modify_localF_netFlows h
  | secSeries =>
    obtain ⟨w1, h1, h2⟩ := bind_eq_ok h
    exact (refresh_netFlows h2).trans (modify_localF_netFlows h1)
  | stratMembers =>
    obtain ⟨w1, h1, h⟩ := bind_eq_ok h
    refine Eq.trans ?_ (refresh_netFlows h1)
    split at h
    · cases h
    · refine modify_netFlows (fun p n r hr => ?_) (fun n r hr => ?_) h
      · obtain ⟨n', _, rfl⟩ := map_eq_ok hr; simp
      · obtain ⟨n', hn, rfl⟩ := map_eq_ok hr
        exact localRefreshAll_netFlows hn

/-- **the root's `net_flows` under one public call at clock `d`**: it moves only by `adjust(a, flow=True)`
    on the root, by `a` -/
theorem StepC.netFlows {cfg : Cfg K} {d : Nat} {w w' : World K} (hck : Ck (· = d) w.root.now)
    (h : StepC cfg (· = d) w w') :
    rootNF w'.root = rootNF w.root ∨
    ∃ a u, opAdjust w [] a u true = .ok w' ∧ rootNF w'.root = rootNF w.root + a := by
  cases h with
  | update d' hd h => cases hd; exact .inl (updRoot_netFlows hck h)
  | adjust path a u fl h =>
    have := opAdjust_netFlows h
    by_cases hc : path = [] ∧ fl = true
    · obtain ⟨rfl, rfl⟩ := hc
      right
      exact ⟨a, u, h, by simpa using this⟩
    · left
      rw [this, if_neg hc, add_zero]
  | allocate _ _ _ h => exact .inl (opAllocate_netFlows h)
  | transact _ _ _ _ h => exact .inl (opTransact_netFlows h)
  | flatten _ h => exact .inl (opFlatten_netFlows h)
  | close _ _ _ h => exact .inl (opClose_netFlows h)
  | rebalance _ _ _ _ _ h => exact .inl (opRebalance_netFlows h)
  | read _ _ h => exact .inl (opRead_netFlows h)


/-- … and under any sequence of them: by the sum of the amounts of the root-level flow adjustments executed -/
theorem RunC.netFlows {cfg : Cfg K} {d : Nat} {w w' : World K} (hw : AtClock d w)
    (h : RunC cfg (· = d) w w') :
    ∃ L : List K, rootNF w'.root = rootNF w.root + L.sum ∧
      ∀ a ∈ L, ∃ (wa wb : World K) (u : Bool), opAdjust wa [] a u true = .ok wb := by
  induction h with
  | nil w => exact ⟨[], by simp, by simp⟩
  | cons hs _ ih =>
    obtain ⟨L, h1, h2⟩ := ih (lift_wok (clockLaws cfg _) (hs.lift (clockLaws cfg _) hw) hw)
    rcases StepC.netFlows hw.2 hs with h0 | ⟨a, u, ha, h0⟩
    · exact ⟨L, by rw [h1, h0], h2⟩
    · refine ⟨a :: L, by rw [h1, h0, List.sum_cons]; ring, ?_⟩
      intro x hx
      rcases List.mem_cons.1 hx with rfl | hx
      · exact ⟨_, _, u, ha⟩
      · exact h2 x hx

/-! ### scaling -/

/-- the index relation is homogeneous of degree 0 in (base, flows, value) — as long as both bases pass the
    (absolute) `is_zero` guard -/
theorem Rec.scale {cfg : Cfg K} (htol : 0 < cfg.tol) {k : K} (hk : k ≠ 0) {P0 V0 F V P P' : K}
    (h : Rec cfg P0 V0 F V P) (h' : Rec cfg P0 (k * V0) (k * F) (k * V) P')
    (hb : isZero cfg.tol (V0 + F) = false) (hb' : isZero cfg.tol (k * V0 + k * F) = false) : P' = P := by
  have e1 := h.eq_of_base hb
  have e2 := h'.eq_of_base hb'
  have hne := ne_zero_of_isZero_false htol hb
  have : P' * (k * (V0 + F)) = P * (k * (V0 + F)) := by
    have : P' * (k * (V0 + F)) = P' * (k * V0 + k * F) := by ring
    rw [this, e2]
    have : P * (k * (V0 + F)) = k * (P * (V0 + F)) := by ring
    rw [this, e1]; ring
  exact mul_right_cancel₀ (mul_ne_zero hk hne) this

/-- two records, the second with value and flows `k` times those of the first -/
def ScaledRec (k : K) (r r' : DayRec K) : Prop := r'.V = k * r.V ∧ r'.Fw = k * r.Fw

/-- two chains from the same index, the second from a base `k` times the first and with all values and flows
    `k` times those of the first, all bases passing the guard: the same index at every close -/
theorem IndexChain.scale {cfg : Cfg K} (htol : 0 < cfg.tol) {k : K} (hk : k ≠ 0) :
    ∀ {rs rs' : List (DayRec K)} {P0 V0 P V P' V' : K}, IndexChain cfg P0 V0 rs P V →
      IndexChain cfg P0 (k * V0) rs' P' V' → List.Forall₂ (ScaledRec k) rs rs' →
      chainBases cfg V0 rs → chainBases cfg (k * V0) rs' →
      P' = P ∧ List.Forall₂ (fun r r' => r'.P = r.P) rs rs' := by
  intro rs
  induction rs with
  | nil =>
    intro rs' P0 V0 P V P' V' h h' hs _ _
    cases hs
    cases h; cases h'
    exact ⟨rfl, .nil⟩
  | cons r rs ih =>
    intro rs' P0 V0 P V P' V' h h' hs hb hb'
    cases hs with
    | cons hr hs' =>
      rename_i r' rs''
      cases h with
      | cons _ _ hrec hch =>
        cases h' with
        | cons _ _ hrec' hch' =>
          obtain ⟨b1, b2⟩ := hb
          obtain ⟨b1', b2'⟩ := hb'
          obtain ⟨hv, hf⟩ := hr
          rw [hv, hf] at hrec'
          rw [hf] at b1'
          have hp : r'.P = r.P := Rec.scale htol hk hrec hrec' b1 b1'
          rw [hp, hv] at hch'
          rw [hv] at b2'
          obtain ⟨i1, i2⟩ := ih hch hch' hs' b2 b2'
          exact ⟨i1, .cons hp i2⟩

/-! ### the total of the first update on a tree without positions -/

/-- every child is a security with no position, nothing parked on it, and an unset clock -/
def FlatSecs : List (Node K) → Prop
  | [] => True
  | .sec s :: ks => s.position = 0 ∧ s.capital = 0 ∧ s.now = none ∧ FlatSecs ks
  | .strat _ _ :: _ => False

theorem flatSecs_fresh (d : Nat) : ∀ kids : List (Node K), FlatSecs kids →
    secKidsFresh d kids ∧ markKids d kids = 0 ∧ parkedKids kids = 0
  | [], _ => ⟨trivial, rfl, rfl⟩
  | .sec s :: ks, h => by
    obtain ⟨h1, h2, h3, h4⟩ := h
    obtain ⟨i1, i2, i3⟩ := flatSecs_fresh d ks h4
    refine ⟨⟨(by rw [h3]; intro e; cases e), fun _ => h1, i1⟩, ?_, ?_⟩
    · rw [markKids, i2, h1]; ring
    · rw [parkedKids, i3, h2]; ring
  | .strat _ _ :: _, h => h.elim

/-- the total `root.update(d)` computes on a root whose children are securities not yet on date `d` -/
theorem rootTotal_secs {cfg : Cfg K} {d : Nat} {w w' : World K} {sd : StratData K} {kids : List (Node K)}
    (hr : w.root = .strat sd kids) (hf : secKidsFresh d kids) (h : updRoot cfg d w = .ok w') :
    P16.rootTotal cfg d w =
      .ok (sd.capital + markKids d kids + (if (stratDateChange d sd).2 then parkedKids kids else 0)) := by
  obtain ⟨v, hv⟩ := P16.rootTotal_of_updRoot h
  rw [hv]
  unfold P16.rootTotal at hv
  rw [hr] at hv
  simp only at hv
  obtain ⟨⟨kids1, acc⟩, hk, he⟩ := map_eq_ok hv
  subst he
  have h1 := updKids_val_fresh kids hf hk
  have h2 := updKids_coupons kids hk
  simp only at h1 h2
  rw [h1, h2, (stratDateChange_rows d sd).1]
  congr 1
  ring

/-- a public call that, if it is an explicit `root.update(d')`, is at `d' = d` -/
theorem publicStep_toStepC {cfg : Cfg K} {d : Nat} {w w' : World K} (h : PublicStep cfg w w')
    (hd : ∀ d', updRoot cfg d' w = .ok w' → d' = d) : StepC cfg (· = d) w w' := by
  cases h with
  | update d' h => exact .update d' (hd d' h) h
  | adjust p a u f h => exact .adjust p a u f h
  | allocate p a u h => exact .allocate p a u h
  | transact p q u c h => exact .transact p q u c h
  | flatten p h => exact .flatten p h
  | close p c u h => exact .close p c u h
  | rebalance p wt c b u h => exact .rebalance p wt c b u h
  | read p g h => exact .read p g h

end Bt.P03
