import Bt.Proofs.Rebalance
import Bt.Proofs.RebalancePath
/-! C06 with costs / at any path, part 1: the `Rebalance` algo on the strategy found at a path of any tree is a
    list of child jobs (`allocNode` on one child each) run on that strategy's data and children, followed by
    `root.update(now)`; the rest of the tree is a frame (`putAt`). -/
set_option linter.unusedSectionVars false
namespace Bt.P06
open Bt Bt.Rebal

variable {K : Type} [Field K] [LinearOrder K] [IsStrictOrderedRing K] [HasFloor K]

/-! ### replacing the subtree at a path -/

/-- the tree with the subtree at `p` replaced by `m` (unchanged if `p` addresses nothing) -/
def putAt : Node K → List Nat → Node K → Node K
  | _, [], m => m
  | .sec s, _ :: _, _ => .sec s
  | .strat sd kids, i :: rest, m =>
    match kids[i]? with
    | none => .strat sd kids
    | some k => .strat sd (kids.set i (putAt k rest m))

theorem putAt_nil (n m : Node K) : putAt n [] m = m := by
  cases n <;> rfl

theorem putAt_cons (sd : StratData K) (kids : List (Node K)) (i : Nat) (rest : List Nat) (k m : Node K)
    (h : kids[i]? = some k) : putAt (.strat sd kids) (i :: rest) m = .strat sd (kids.set i (putAt k rest m)) := by
  rw [putAt]; simp only [h]

theorem lt_of_getElem? {α : Type} {l : List α} {i : Nat} {a : α} (h : l[i]? = some a) : i < l.length := by
  rcases Nat.lt_or_ge i l.length with hl | hl
  · exact hl
  · rw [List.getElem?_eq_none hl] at h; cases h

theorem get?_putAt : ∀ (p : List Nat) (n x m : Node K), n.get? p = some x → (putAt n p m).get? p = some m
  | [], n, x, m, _ => by rw [putAt_nil]; exact get?_nil m
  | i :: rest, .sec s, x, m, h => by rw [Node.get?] at h; cases h
  | i :: rest, .strat sd kids, x, m, h => by
    rw [Node.get?] at h
    cases hk : kids[i]? with
    | none => rw [hk] at h; cases h
    | some k =>
      rw [hk] at h
      simp only at h
      rw [putAt_cons sd kids i rest k m hk,
        get?_cons_strat _ _ i rest _ (List.getElem?_set_self (lt_of_getElem? hk))]
      exact get?_putAt rest k x m h

theorem putAt_putAt : ∀ (p : List Nat) (n x m m' : Node K), n.get? p = some x →
    putAt (putAt n p m) p m' = putAt n p m'
  | [], n, x, m, m', _ => by simp only [putAt_nil]
  | i :: rest, .sec s, x, m, m', h => by rw [Node.get?] at h; cases h
  | i :: rest, .strat sd kids, x, m, m', h => by
    rw [Node.get?] at h
    cases hk : kids[i]? with
    | none => rw [hk] at h; cases h
    | some k =>
      rw [hk] at h
      simp only at h
      rw [putAt_cons sd kids i rest k m hk, putAt_cons sd kids i rest k m' hk,
        putAt_cons sd _ i rest _ m' (List.getElem?_set_self (lt_of_getElem? hk)),
        putAt_putAt rest k x m m' h, List.set_set]

theorem putAt_self : ∀ (p : List Nat) (n x : Node K), n.get? p = some x → putAt n p x = n
  | [], n, x, h => by rw [get?_nil] at h; cases h; exact putAt_nil _ _
  | i :: rest, .sec s, x, h => by rw [Node.get?] at h; cases h
  | i :: rest, .strat sd kids, x, h => by
    rw [Node.get?] at h
    cases hk : kids[i]? with
    | none => rw [hk] at h; cases h
    | some k =>
      rw [hk] at h
      simp only at h
      rw [putAt_cons sd kids i rest k x hk, putAt_self rest k x h]
      congr 1
      apply List.ext_getElem?
      intro j
      by_cases hj : i = j
      · subst hj; rw [List.getElem?_set_self (lt_of_getElem? hk), hk]
      · rw [List.getElem?_set_ne hj]

/-- the clock of the root does not depend on what is put at `p`, as long as the clock of the node put there
    is the same -/
theorem putAt_now (p : List Nat) (n m m' : Node K) (h : m.now = m'.now) :
    (putAt n p m).now = (putAt n p m').now := by
  cases p with
  | nil => rw [putAt_nil, putAt_nil]; exact h
  | cons i rest =>
    cases n with
    | sec s => rfl
    | strat sd kids =>
      rw [putAt, putAt]
      cases kids[i]? <;> rfl

/-! ### `modAt` one level below a path -/

/-- `modAt` at `p ++ [i]`: the operation runs on child `i` of the strategy found at `p`, with that strategy's
    data; the result is the tree with that strategy replaced (adjustments booked, child replaced) — nothing
    else changes, and nothing is handed further up. -/
theorem modAt_at (f : Option (StratData K) → Node K → Except Err (OpRes K)) (i : Nat) :
    ∀ (p : List Nat) (par : Option (StratData K)) (n : Node K) (sd : StratData K) (ks : List (Node K)) (c : Node K),
      n.get? p = some (.strat sd ks) → ks[i]? = some c →
      modAt f (p ++ [i]) par n = (f (some sd) c).map fun r =>
        (putAt n p (.strat (r.2.1.foldl StratData.adjust sd) (ks.set i r.1)), [], r.2.2)
  | [], par, n, sd, ks, c, hp, hc => by
    rw [get?_nil] at hp
    cases hp
    rw [List.nil_append, modAt]
    simp only [hc]
    rw [modAt]
    cases f (some sd) c with
    | error e => rfl
    | ok r => obtain ⟨c', adjs, st⟩ := r; simp only [Except.map, putAt_nil]
  | j :: rest, par, .sec s, sd, ks, c, hp, hc => by rw [Node.get?] at hp; cases hp
  | j :: rest, par, .strat sd0 kids, sd, ks, c, hp, hc => by
    rw [Node.get?] at hp
    cases hk : kids[j]? with
    | none => rw [hk] at hp; cases hp
    | some k =>
      rw [hk] at hp
      simp only at hp
      rw [List.cons_append, modAt]
      simp only [hk]
      rw [modAt_at f i rest (some sd0) k sd ks c hp hc]
      cases f (some sd) c with
      | error e => rfl
      | ok r =>
        obtain ⟨c', adjs, st⟩ := r
        simp only [Except.map, List.foldl_nil]
        rw [putAt_cons sd0 kids j rest k _ hk]

/-! ### the world seen from the strategy at `p` -/

/-- the world whose tree is `root` with the strategy `(sd, ks)` at `p`, not stale -/
def PW (root : Node K) (p : List Nat) (sd : StratData K) (ks : List (Node K)) : World K :=
  { root := putAt root p (.strat sd ks), stale := false }

theorem PW_get (root : Node K) (p : List Nat) (sd : StratData K) (ks : List (Node K))
    (hv : ∃ x, root.get? p = some x) : (PW root p sd ks).root.get? p = some (.strat sd ks) := by
  obtain ⟨x, hx⟩ := hv
  exact get?_putAt p root x _ hx

theorem PW_get_child (root : Node K) (p : List Nat) (sd : StratData K) (ks : List (Node K))
    (hv : ∃ x, root.get? p = some x) (i : Nat) : (PW root p sd ks).root.get? (p ++ [i]) = ks[i]? :=
  get?_child p _ sd ks i (PW_get root p sd ks hv)

theorem PW_of_world (w : World K) (p : List Nat) (sd : StratData K) (ks : List (Node K))
    (hst : w.stale = false) (hp : w.root.get? p = some (.strat sd ks)) : w = PW w.root p sd ks := by
  cases w with
  | mk r st =>
    simp only at hst hp
    subst hst
    simp only [PW, putAt_self p r _ hp]

theorem foldl_adjust_fi (L : List (Adj K)) (sd : StratData K) :
    (L.foldl StratData.adjust sd).fixedIncome = sd.fixedIncome := by
  induction L generalizing sd with
  | nil => rfl
  | cons a L ih => rw [List.foldl_cons, ih]; rfl

theorem foldl_adjust_value (L : List (Adj K)) (sd : StratData K) :
    (L.foldl StratData.adjust sd).value = sd.value := by
  induction L generalizing sd with
  | nil => rfl
  | cons a L ih => rw [List.foldl_cons, ih]; rfl

/-- `allocate(a, update=False)` on child `i` of the strategy at `p` is `allocNode` on that child with the
    strategy's date and commission function; the strategy books the adjustments. -/
theorem opAllocate_PW (cfg : Cfg K) (root : Node K) (p : List Nat) (sd : StratData K) (ks : List (Node K))
    (hv : ∃ x, root.get? p = some x) (i : Nat) (k : Node K) (a : K) (hk : ks[i]? = some k) :
    opAllocate cfg (PW root p sd ks) (p ++ [i]) a false =
      (allocNode cfg sd.now sd.comm a k).map fun r =>
        PW root p (r.2.foldl StratData.adjust sd) (ks.set i r.1) := by
  obtain ⟨x, hx⟩ := hv
  unfold opAllocate World.modify
  rw [modAt_at _ i p none _ sd ks k (PW_get root p sd ks ⟨x, hx⟩) hk]
  cases k with
  | sec s =>
    rw [allocNode]
    dsimp only
    cases secAllocate cfg sd.now sd.comm s a with
    | error e => rfl
    | ok r =>
      obtain ⟨s', oa⟩ := r
      simp only [Except.map, PW, putAt_putAt p root x _ _ hx, Bool.false_and, Bool.or_false]
  | strat sdc kc =>
    dsimp only
    cases allocNode cfg sd.now sd.comm a (.strat sdc kc) with
    | error e => rfl
    | ok r =>
      obtain ⟨n', adjs⟩ := r
      simp only [Except.map, PW, putAt_putAt p root x _ _ hx, Bool.or_false]

/-! ### one child job -/

/-- the amount `close(child)` allocates (`none`: the child's value is exactly 0, nothing is called) -/
def closeAmtN (k : Node K) : Option K := if eqA k.value 0 then none else some (-k.value)

/-- the amount one child job of `Rebalance` allocates: `act = none` closes the child, `act = some wt` is
    `rebalance(wt, child, base = V)` -/
def planN (cfg : Cfg K) (V : K) (k : Node K) (act : Option K) : Option K :=
  match act with
  | none => closeAmtN k
  | some wt => if isZero cfg.tol wt then closeAmtN k else some ((wt - k.weight) * V)

/-- a node `close` does not have to flatten first -/
def Leafy : Node K → Prop
  | .sec _ => True
  | .strat _ ks => ks = []

/-- a job whose closing branch (if taken) meets a child without children of its own -/
def JobOk (cfg : Cfg K) (k : Node K) (act : Option K) : Prop :=
  match act with
  | none => Leafy k
  | some wt => isZero cfg.tol wt = true → Leafy k

/-- one child job on the strategy's data and children -/
def runJob (cfg : Cfg K) (V : K) (i : Nat) (act : Option K) (sd : StratData K) (ks : List (Node K)) :
    Except Err (StratData K × List (Node K)) :=
  match ks[i]? with
  | none => throw Err.badPath
  | some k =>
    match planN cfg V k act with
    | none => pure (sd, ks)
    | some a => (allocNode cfg sd.now sd.comm a k).map fun r => (r.2.foldl StratData.adjust sd, ks.set i r.1)

def runJobs (cfg : Cfg K) (V : K) : List (Nat × Option K) → StratData K → List (Node K) →
    Except Err (StratData K × List (Node K))
  | [], sd, ks => pure (sd, ks)
  | (i, act) :: rest, sd, ks => (runJob cfg V i act sd ks).bind fun r => runJobs cfg V rest r.1 r.2

theorem runJobs_append (cfg : Cfg K) (V : K) : ∀ (J1 J2 : List (Nat × Option K)) (sd : StratData K)
    (ks : List (Node K)),
    runJobs cfg V (J1 ++ J2) sd ks = (runJobs cfg V J1 sd ks).bind fun r => runJobs cfg V J2 r.1 r.2
  | [], J2, sd, ks => rfl
  | (i, act) :: rest, J2, sd, ks => by
    rw [List.cons_append, runJobs, runJobs]
    cases runJob cfg V i act sd ks with
    | error e => rfl
    | ok r => simp only [Except.bind]; exact runJobs_append cfg V rest J2 r.1 r.2

theorem ok_bind {ε α β : Type} (a : α) (f : α → Except ε β) : (Except.ok a : Except ε α).bind f = f a := rfl

theorem leafy_hasKids (k : Node K) (h : Leafy k) :
    (match (motive := Node K → Bool) k with | .strat _ ks => !ks.isEmpty | .sec _ => false) = false := by
  cases k with
  | sec s => rfl
  | strat sdc kc => simp only [Leafy] at h; subst h; rfl

/-- `close(child i, update=False)` of the market-value strategy at `p`, for a child without children -/
theorem opClose_PW (cfg : Cfg K) (V : K) (root : Node K) (p : List Nat) (sd : StratData K) (ks : List (Node K))
    (hv : ∃ x, root.get? p = some x) (hfi : sd.fixedIncome = false) (i : Nat) (k : Node K)
    (hk : ks[i]? = some k) (hl : Leafy k) :
    opClose cfg (PW root p sd ks) p i false =
      (runJob cfg V i none sd ks).map fun r => PW root p r.1 r.2 := by
  unfold opClose
  rw [PW_get root p sd ks hv, PW_get_child root p sd ks hv i, hk]
  simp only [hfi, Bool.false_eq_true, ↓reduceIte, pure, Except.pure]
  rw [if_neg (by
    cases k with
    | sec s => simp
    | strat sdc kc => simp only [Leafy] at hl; subst hl; simp), ok_bind, refresh_fresh cfg _ rfl, ok_bind]
  simp only [PW_get_child root p sd ks hv i, hk]
  unfold runJob
  simp only [hk, planN, closeAmtN]
  by_cases hz : eqA k.value 0 = true
  · simp only [hz, Bool.not_true, Bool.false_eq_true, ↓reduceIte, pure, Except.pure, Except.map]
  · have hz : eqA k.value 0 = false := by simpa using hz
    simp only [hz, Bool.not_false, ↓reduceIte, Bool.false_eq_true]
    rw [opAllocate_PW cfg root p sd ks hv i k _ hk]
    cases allocNode cfg sd.now sd.comm (-k.value) k with
    | error e => rfl
    | ok r => rfl

/-- `rebalance(wt, child i, base V, update=False)` of the market-value strategy at `p` -/
theorem opRebalance_PW (cfg : Cfg K) (V : K) (root : Node K) (p : List Nat) (sd : StratData K)
    (ks : List (Node K)) (hv : ∃ x, root.get? p = some x) (hfi : sd.fixedIncome = false) (i : Nat) (k : Node K)
    (wt : K) (hk : ks[i]? = some k) (hj : JobOk cfg k (some wt)) :
    opRebalance cfg (PW root p sd ks) p wt i (some V) false =
      (runJob cfg V i (some wt) sd ks).map fun r => PW root p r.1 r.2 := by
  by_cases hz : isZero cfg.tol wt = true
  · rw [opRebalance_zero cfg _ _ _ _ _ _ hz, opClose_PW cfg V root p sd ks hv hfi i k hk (hj hz)]
    unfold runJob
    simp only [hk, planN, hz, ↓reduceIte]
  · have hz : isZero cfg.tol wt = false := by simpa using hz
    rw [opRebalance_unfold cfg _ p wt i V false sd ks k rfl hz (PW_get root p sd ks hv)
      (by rw [PW_get_child root p sd ks hv i]; exact hk)]
    simp only [hfi, Bool.false_eq_true, ↓reduceIte]
    rw [opAllocate_PW cfg root p sd ks hv i k _ hk]
    unfold runJob
    simp only [hk, planN, hz, Bool.false_eq_true, ↓reduceIte]
    cases allocNode cfg sd.now sd.comm ((wt - k.weight) * V) k with
    | error e => rfl
    | ok r => rfl

/-- what one job leaves of the hypotheses the next jobs need -/
theorem runJob_ok {cfg : Cfg K} {V : K} {i : Nat} {act : Option K} {sd sd' : StratData K} {ks ks' : List (Node K)}
    (h : runJob cfg V i act sd ks = .ok (sd', ks')) :
    sd'.fixedIncome = sd.fixedIncome ∧ sd'.now = sd.now ∧ sd'.comm = sd.comm ∧ sd'.value = sd.value ∧
    ks'.length = ks.length ∧ ∀ j, j ≠ i → ks'[j]? = ks[j]? := by
  unfold runJob at h
  cases hk : ks[i]? with
  | none => rw [hk] at h; cases h
  | some k =>
    rw [hk] at h
    simp only at h
    cases hpl : planN cfg V k act with
    | none =>
      rw [hpl] at h
      cases h
      exact ⟨rfl, rfl, rfl, rfl, rfl, fun _ _ => rfl⟩
    | some a =>
      rw [hpl] at h
      obtain ⟨r, _, h2⟩ := Except.map_ok h
      simp only [Prod.mk.injEq] at h2
      obtain ⟨rfl, rfl⟩ := h2
      refine ⟨foldl_adjust_fi _ _, foldl_adjust_now _ _, foldl_adjust_comm _ _, foldl_adjust_value _ _,
        List.length_set, ?_⟩
      · intro j hj
        exact List.getElem?_set_ne (Ne.symm hj)

/-! ### the two loops of the algo are job lists -/

/-- the jobs of the closing loop -/
def closeJobs (tg : List Nat) (L : List Nat) : List (Nat × Option K) :=
  (L.filter fun i => !tg.contains i).map fun i => (i, none)

/-- the jobs of the rebalancing loop -/
def targetJobs (scale : K) (T : List (Nat × K)) : List (Nat × Option K) :=
  T.map fun t => (t.1, some (t.2 * scale))

theorem closeNonTargets_PW (cfg : Cfg K) (V : K) (root : Node K) (p : List Nat)
    (hv : ∃ x, root.get? p = some x) (tg : List Nat) :
    ∀ (L : List Nat) (sd : StratData K) (ks : List (Node K)), sd.fixedIncome = false → L.Nodup →
      (∀ i ∈ L, tg.contains i = false → ∃ k, ks[i]? = some k ∧ Leafy k) →
      closeNonTargets cfg p tg L (PW root p sd ks) =
        (runJobs cfg V (closeJobs tg L) sd ks).map fun r => PW root p r.1 r.2
  | [], sd, ks, _, _, _ => rfl
  | i :: rest, sd, ks, hfi, hnd, hl => by
    have hnd' : rest.Nodup := (List.nodup_cons.1 hnd).2
    have hi : i ∉ rest := (List.nodup_cons.1 hnd).1
    rw [closeNonTargets]
    by_cases ht : tg.contains i = true
    · simp only [ht, ↓reduceIte]
      have ht' : i ∈ tg := by simpa using ht
      have : closeJobs (K := K) tg (i :: rest) = closeJobs tg rest := by
        unfold closeJobs; rw [List.filter_cons]; simp [ht']
      rw [this]
      exact closeNonTargets_PW cfg V root p hv tg rest sd ks hfi hnd'
        (fun j hj => hl j (List.mem_cons_of_mem _ hj))
    · have ht : tg.contains i = false := by simpa using ht
      obtain ⟨k, hk, hlk⟩ := hl i List.mem_cons_self ht
      have ht' : i ∉ tg := by simpa using ht
      have hcj : closeJobs (K := K) tg (i :: rest) = (i, none) :: closeJobs tg rest := by
        unfold closeJobs; rw [List.filter_cons]; simp [ht']
      rw [hcj, runJobs]
      simp only [ht, Bool.false_eq_true, ↓reduceIte]
      rw [refresh_fresh cfg _ rfl, ok_bind]
      simp only [PW_get root p sd ks hv, PW_get_child root p sd ks hv i, hk, hfi,
        Bool.false_eq_true, ↓reduceIte]
      have hstep : (if (!eqA k.value 0) = true then
            (opClose cfg (PW root p sd ks) p i false).bind (closeNonTargets cfg p tg rest)
          else closeNonTargets cfg p tg rest (PW root p sd ks)) =
          ((runJob cfg V i none sd ks).map fun r => PW root p r.1 r.2).bind
            (closeNonTargets cfg p tg rest) := by
        by_cases hz : eqA k.value 0 = true
        · simp only [hz, Bool.not_true, Bool.false_eq_true, ↓reduceIte]
          unfold runJob
          simp only [hk, planN, closeAmtN, hz, ↓reduceIte, pure, Except.pure, Except.map, Except.bind]
        · have hz : eqA k.value 0 = false := by simpa using hz
          simp only [hz, Bool.not_false, ↓reduceIte]
          rw [opClose_PW cfg V root p sd ks hv hfi i k hk hlk]
      rw [hstep]
      cases hr : runJob cfg V i none sd ks with
      | error e => rfl
      | ok r =>
        obtain ⟨sd1, ks1⟩ := r
        obtain ⟨f1, _, _, _, _, f6⟩ := runJob_ok hr
        simp only [Except.map, Except.bind]
        exact closeNonTargets_PW cfg V root p hv tg rest sd1 ks1 (f1.trans hfi) hnd' (by
          intro j hj htj
          have hne : j ≠ i := fun e => hi (e ▸ hj)
          rw [f6 j hne]
          exact hl j (List.mem_cons_of_mem _ hj) htj)

theorem rebalanceTargets_PW (cfg : Cfg K) (V scale : K) (root : Node K) (p : List Nat)
    (hv : ∃ x, root.get? p = some x) :
    ∀ (T : List (Nat × K)) (sd : StratData K) (ks : List (Node K)), sd.fixedIncome = false →
      (T.map (·.1)).Nodup →
      (∀ t ∈ T, ∃ k, ks[t.1]? = some k ∧ JobOk cfg k (some (t.2 * scale))) →
      rebalanceTargets cfg p V scale T (PW root p sd ks) =
        (runJobs cfg V (targetJobs scale T) sd ks).map fun r => PW root p r.1 r.2
  | [], sd, ks, _, _, _ => rfl
  | (i, wt) :: rest, sd, ks, hfi, hnd, hl => by
    simp only [List.map_cons] at hnd
    have hnd' : (rest.map (·.1)).Nodup := (List.nodup_cons.1 hnd).2
    have hi : i ∉ rest.map (·.1) := (List.nodup_cons.1 hnd).1
    obtain ⟨k, hk, hj⟩ := hl (i, wt) List.mem_cons_self
    rw [rebalanceTargets, opRebalance_PW cfg V root p sd ks hv hfi i k (wt * scale) hk hj]
    simp only [targetJobs, List.map_cons]
    rw [runJobs]
    cases hr : runJob cfg V i (some (wt * scale)) sd ks with
    | error e => rfl
    | ok r =>
      obtain ⟨sd1, ks1⟩ := r
      obtain ⟨f1, _, _, _, _, f6⟩ := runJob_ok hr
      simp only [Except.map, Except.bind]
      exact rebalanceTargets_PW cfg V scale root p hv rest sd1 ks1 (f1.trans hfi) hnd' (by
        intro t ht
        have hne : t.1 ≠ i := fun e => hi (e ▸ List.mem_map.2 ⟨t, ht, rfl⟩)
        rw [f6 t.1 hne]
        exact hl t (List.mem_cons_of_mem _ ht))

end Bt.P06
