import Bt.Engine.Ops
/-
  Run level: the loop of `Backtest.run` (backtest.py l.218-261), the stepping of a sub-strategy's shadow
  ("paper") copy inside `StrategyBase.update` (core.py l.845-855; like `Backtest.run` it does not run the algos
  on the first row of the data), the `has_run` guard, a store of several
  backtests built from one template, and truncation of the supplied data columns (for "no look-ahead").

  The algos of a strategy are a parameter: `run d w` is what `Strategy.run()` does to the tree when the
  clock stands at row `d` (it may raise).  Which engine operations the stock algos issue is checked by the
  `run-steps` protocol; their own logic is modelled in `Bt/Algos`.
-/
namespace Bt

section
variable {α : Type} [Add α] [Sub α] [Mul α] [Div α] [Neg α] [LT α] [DecidableLT α]
  [LE α] [DecidableLE α] [OfNat α 0] [OfNat α 1] [HasFloor α]

/-- `strategy.bankrupt` of the root -/
def World.bankrupt (w : World α) : Bool :=
  match w.root with
  | .strat sd _ => sd.bankrupt
  | .sec _ => false

/-- `Strategy.run()` at row `d` as a (possibly raising) transformer of the tree -/
abbrev RunFn (α : Type) := Nat → World α → Except Err (World α)

/-- one pass of the loop body of `Backtest.run` (l.250-255):
    `update(dt); if not bankrupt: run(); update(dt)` -/
def btDay (cfg : Cfg α) (run : RunFn α) (d : Nat) (w : World α) : Except Err (World α) :=
  (updRoot cfg d w).bind fun w1 =>
  if w1.bankrupt then pure w1
  else (run d w1).bind fun w2 => updRoot cfg d w2

/-- `for dt in dates[1:]` -/
def btLoop (cfg : Cfg α) (run : RunFn α) : List Nat → World α → Except Err (World α)
  | [], w => pure w
  | d :: ds, w => (btDay cfg run d w).bind fun w' => btLoop cfg run ds w'

/-- `Backtest.run` after `setup`: `adjust(initial_capital)` (which marks the tree stale), `update(dates[0])`
    on the synthetic first row, then the loop over the remaining dates. -/
def btRun (cfg : Cfg α) (run : RunFn α) (capital : α) (dates : List Nat) (w0 : World α) : Except Err (World α) :=
  match dates with
  | [] => throw Err.badPath
  | d0 :: ds =>
    (opAdjust w0 [] capital true true).bind fun w1 =>
    (updRoot cfg d0 w1).bind fun w2 => btLoop cfg run ds w2

/-- a `Backtest` object: the (deep-copied) tree, its own constructor arguments (initial capital, the dates of its
    data), the `has_run` flag and the outcome -/
structure BtObj (α : Type) where
  hasRun : Bool
  w : World α
  capital : α
  dates : List Nat
  failed : Option Err := none

/-- `Backtest.run()`: `if self.has_run: return`; the flag is set before anything else happens -/
def BtObj.run (cfg : Cfg α) (run : RunFn α) (b : BtObj α) : BtObj α :=
  if b.hasRun then b
  else
    match btRun cfg run b.capital b.dates b.w with
    | .ok w' => { b with hasRun := true, w := w', failed := none }
    | .error e => { b with hasRun := true, failed := some e }

/-! ### the shadow copy of a sub-strategy -/

/-- one step of a shadow copy at row `d` (`inow == d`): on the first row of the data (`inow == 0`, the dummy row a
    `Backtest` prepends) the copy is only updated - like `Backtest.run`, which calls `strategy.update(dates[0])` there and
    never runs the algos on that row -, on every later row it gets the loop body of `Backtest.run`
    (`paper.update(date); if inow != 0 and not paper.bankrupt: paper.run(); paper.update(date)`) -/
def paperDay (cfg : Cfg α) (run : RunFn α) (d : Nat) (pw : World α) : Except Err (World α) :=
  if d = 0 then updRoot cfg d pw else btDay cfg run d pw

/-- the shadow copy over a list of rows, one step per row -/
def paperLoop (cfg : Cfg α) (run : RunFn α) : List Nat → World α → Except Err (World α)
  | [], w => pure w
  | d :: ds, w => (paperDay cfg run d w).bind fun w' => paperLoop cfg run ds w'

/-- the tail of `StrategyBase.update` (l.845-853) on the shadow copy `pw` of a sub-strategy: stepped only when the
    child's own date changed (`newpt`) -/
def paperStep (cfg : Cfg α) (run : RunFn α) (d : Nat) (newpt : Bool) (pw : World α) : Except Err (World α) :=
  if newpt then paperDay cfg run d pw else pure pw

/-- the shadow copy under any sequence of `update(date)` calls the child receives from its parent
    (`now` = the child's own clock, `none` before the first call) -/
def paperUpdates (cfg : Cfg α) (run : RunFn α) : List Nat → Option Nat → World α → Except Err (World α)
  | [], _, pw => pure pw
  | d :: ds, now, pw =>
    (paperStep cfg run d (now != some d) pw).bind fun pw' => paperUpdates cfg run ds (some d) pw'

/-- price of the root of a world (`paper.price` as read by the child after stepping; no refresh is pending
    because `paperDay` ends with an update or with a bankrupt tree that was just updated) -/
def World.price (w : World α) : α :=
  match w.root with
  | .strat sd _ => sd.price
  | .sec _ => 0

/-- consecutive duplicates removed: the dates on which the child's clock changes -/
def clockDates : List Nat → Option Nat → List Nat
  | [], _ => []
  | d :: ds, now => if now != some d then d :: clockDates ds (some d) else clockDates ds (some d)

/-! ### several backtests from one template -/

/-- a user session: one strategy template (already wired) and the backtests constructed from it so far;
    `Backtest.__init__` deep-copies the template, so a backtest holds a value, not a reference -/
structure Session (α : Type) where
  template : World α
  bts : List (BtObj α)

inductive SessOp (α : Type) where
  | construct (capital : α) (dates : List Nat)   -- `bt.Backtest(template, data, initial_capital=...)`
  | run (i : Nat)                                -- `backtests[i].run()`

/-- the backtest `Backtest.__init__` builds from the template as it is now -/
def Session.fresh (s : Session α) (capital : α) (dates : List Nat) : BtObj α :=
  { hasRun := false, w := s.template, capital := capital, dates := dates }

def Session.step (cfg : Cfg α) (run : RunFn α) (s : Session α) : SessOp α → Session α
  | .construct c ds => { s with bts := s.bts ++ [s.fresh c ds] }
  | .run i =>
    match s.bts[i]? with
    | none => s
    | some b => { s with bts := s.bts.set i (b.run cfg run) }

def Session.steps (cfg : Cfg α) (run : RunFn α) (s : Session α) (ops : List (SessOp α)) : Session α :=
  ops.foldl (Session.step cfg run) s

/-! ### truncation of the supplied data -/

/-- keep rows `0..t` of every supplied column of a security (prices, bid/offer, coupons, holding costs) -/
def SecData.trunc (t : Nat) (s : SecData α) : SecData α :=
  { s with prices := s.prices.take (t + 1), bidoffers := s.bidoffers.take (t + 1), coupons := s.coupons.take (t + 1),
           costLong := s.costLong.map (·.take (t + 1)), costShort := s.costShort.map (·.take (t + 1)) }

mutual
def Node.trunc (t : Nat) : Node α → Node α
  | .sec s => .sec (s.trunc t)
  | .strat sd kids => .strat sd (Node.truncL t kids)
def Node.truncL (t : Nat) : List (Node α) → List (Node α)
  | [] => []
  | k :: ks => Node.trunc t k :: Node.truncL t ks
end

def World.trunc (t : Nat) (w : World α) : World α := { w with root := w.root.trunc t }

end
end Bt
