import Bt.Engine.Strat
/-
  The public operations as functions on a `World` (root tree + `stale` flag),
  addressed by a path of child indices.  Every place where the code reads a
  refreshing getter (`value`, `weight`, `notional_value`, `price`) the model
  performs the same `if root.stale: root.update(root.now)`.
-/
namespace Bt

section
variable {α : Type} [Add α] [Sub α] [Mul α] [Div α] [Neg α] [LT α] [DecidableLT α]
  [LE α] [DecidableLE α] [OfNat α 0] [OfNat α 1] [HasFloor α]

/-- `if self.root.stale: self.root.update(self.root.now, None)` -/
def refresh (cfg : Cfg α) (w : World α) : Except Err (World α) :=
  if w.stale then
    match w.root.now with
    | some d => updRoot cfg d w
    | none => throw Err.badPath
  else pure w

/-- `node.adjust(amount, update, flow)` on a strategy -/
def opAdjust (w : World α) (path : List Nat) (amount : α) (update flow : Bool) : Except Err (World α) :=
  w.modify path fun _ n =>
    match n with
    | .sec _ => throw Err.badPath
    | .strat sd kids => pure (.strat (sd.adjust { amount := amount, fee := 0, flow := flow }) kids, [], update)

/-- `node.allocate(amount, update=update)` on a security, a sub-strategy or the root -/
def opAllocate (cfg : Cfg α) (w : World α) (path : List Nat) (amount : α) (update : Bool) : Except Err (World α) :=
  w.modify path fun par n =>
    match par, n with
    | none, .sec _ => throw Err.parentlessSecurity
    | some p, .sec s =>
      (secAllocate cfg p.now p.comm s amount).map fun (s', a) => (.sec s', a.toList, update && a.isSome)
    | none, .strat sd kids =>
      -- root: parent is self; debit and credit are both flows on the same node
      let sd0 := sd.adjust { amount := -amount, fee := 0, flow := true }
      let sd1 := sd0.adjust { amount := amount, fee := 0, flow := true }
      (allocKids cfg amount kids sd1).map fun (sd2, kids2) => (.strat sd2 kids2, [], update)
    | some p, .strat sd kids =>
      (allocNode cfg p.now p.comm amount (.strat sd kids)).map fun (n', adjs) => (n', adjs, update)

/-- `node.transact(q, update=update[, price=custom])` -/
def opTransact (cfg : Cfg α) (w : World α) (path : List Nat) (q : α) (update : Bool) (custom : Option α) :
    Except Err (World α) :=
  w.modify path fun par n =>
    match par, n with
    | none, .sec _ => throw Err.parentlessSecurity
    | some p, .sec s =>
      (secTransact cfg p.now p.comm s q true custom).map fun (s', a) => (.sec s', a.toList, update && a.isSome)
    | _, .strat sd kids =>
      (transKids cfg q kids sd).map fun (sd2, kids2) => (.strat sd2 kids2, [], update)

/-- `strategy.flatten()` called by the user or by `close` -/
def opFlatten (cfg : Cfg α) (w : World α) (path : List Nat) : Except Err (World α) :=
  match w.root.get? path with
  | some n => flattenAt cfg (refresh cfg) n path w
  | none => throw Err.badPath

/-- `strategy.close(child, update=update)` -/
def opClose (cfg : Cfg α) (w : World α) (path : List Nat) (child : Nat) (update : Bool) : Except Err (World α) :=
  match w.root.get? path, w.root.get? (path ++ [child]) with
  | some (.strat sd _), some c =>
    -- flatten the child's children first
    let hasKids := match c with | .strat _ ks => !ks.isEmpty | .sec _ => false
    (if hasKids then opFlatten cfg w (path ++ [child]) else pure w).bind fun w1 =>
    if sd.fixedIncome then
      match c with
      | .strat _ _ => throw Err.noPosition
      | .sec _ =>
        match w1.root.get? (path ++ [child]) with
        | some (.sec s1) =>
          if !(eqA s1.position 0) then opTransact cfg w1 (path ++ [child]) (-s1.position) update none else pure w1
        | _ => throw Err.badPath
    else
      -- `c.value` is a refreshing getter
      (refresh cfg w1).bind fun w2 =>
      match w2.root.get? (path ++ [child]) with
      | some c2 =>
        if !(eqA c2.value 0) then opAllocate cfg w2 (path ++ [child]) (-c2.value) update else pure w2
      | none => throw Err.badPath
  | _, _ => throw Err.badPath

/-- `strategy.rebalance(weight, child, base, update)` for an existing child -/
def opRebalance (cfg : Cfg α) (w : World α) (path : List Nat) (weight : α) (child : Nat) (base : Option α)
    (update : Bool) : Except Err (World α) :=
  if isZero cfg.tol weight then opClose cfg w path child update
  else
    -- `base = self.value / self.notional_value` when not given (refreshing getter)
    (if base.isNone then refresh cfg w else pure w).bind fun w1 =>
    -- `c.weight` (refreshing getter)
    (refresh cfg w1).bind fun w2 =>
    match w2.root.get? path, w2.root.get? (path ++ [child]) with
    | some (.strat sd _), some c =>
      let b : α := match base with
        | some b => b
        | none => match w1.root.get? path with
          | some (.strat sd1 _) => if sd1.fixedIncome then sd1.notl else sd1.value
          | _ => 0
      if sd.fixedIncome then
        let delta := weight * b - c.weight * sd.notl
        if c.fixedIncome then opTransact cfg w2 (path ++ [child]) delta update none
        else opAllocate cfg w2 (path ++ [child]) delta update
      else
        let delta := weight - c.weight
        opAllocate cfg w2 (path ++ [child]) (delta * b) update
    | _, _ => throw Err.badPath

/-- the refresh rules of the getters (A.7), as a state transformer -/
inductive Getter where
  | stratRefreshing   -- value / weight / notional_value / price / prices / values / fees / flows ...
  | secLocal          -- SecurityBase.price / bidoffer / bidoffer_paid: local refresh only
  | secSeries         -- SecurityBase.values / positions / outlays ...: local refresh, then root if stale
  | plain             -- capital / cash / position: no refresh
  | stratMembers      -- StrategyBase.positions / outlays: root refresh, then every member security's series getter
  deriving DecidableEq, Repr

mutual
/-- every security below a node does its local getter refresh (`self.update(self.root.now)`) -/
def localRefreshAll (cfg : Cfg α) (rootNow : Nat) (parentNow : Option Nat) : Node α → Except Err (Node α)
  | .sec s => if s.needupdate || s.now != parentNow then (secUpdate cfg rootNow s).map Node.sec else pure (.sec s)
  | .strat sd kids => (localRefreshKids cfg rootNow sd.now kids).map fun ks => .strat sd ks
def localRefreshKids (cfg : Cfg α) (rootNow : Nat) (parentNow : Option Nat) : List (Node α) → Except Err (List (Node α))
  | [] => pure []
  | k :: ks => (localRefreshAll cfg rootNow parentNow k).bind fun k' =>
      (localRefreshKids cfg rootNow parentNow ks).map fun ks' => k' :: ks'
end

def opRead (cfg : Cfg α) (w : World α) (path : List Nat) (g : Getter) : Except Err (World α) :=
  let rootNow := w.root.now
  let localRefresh (w : World α) : Except Err (World α) :=
    w.modify path fun par n =>
      match par, n with
      | some p, .sec s =>
        if s.needupdate || s.now != p.now then
          match rootNow with
          | some d => (secUpdate cfg d s).map fun s' => (.sec s', [], false)
          | none => throw Err.badPath
        else pure (n, [], false)
      | _, _ => throw Err.badPath
  match g with
  | .plain => pure w
  | .stratRefreshing => refresh cfg w
  | .secLocal => localRefresh w
  | .secSeries => (localRefresh w).bind (refresh cfg)
  | .stratMembers =>
    (refresh cfg w).bind fun w1 =>
    match w1.root.now with
    | none => throw Err.badPath
    | some d =>
      w1.modify path fun par n =>
        (localRefreshAll cfg d (par.bind (·.now)) n).map fun n' => (n', [], false)

end
end Bt
