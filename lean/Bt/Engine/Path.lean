import Bt.Engine.Sec
/-
  Path addressing: nodes of a tree are named by the list of child indices from the root; an operation
  on a node returns the new node, the adjustments it sends to the node's own parent (booked there by
  `modAt`) and whether it set the root's `stale` flag.
-/
namespace Bt

section
variable {α : Type} [Add α] [Sub α] [Mul α] [Div α] [Neg α] [LT α] [DecidableLT α]
  [LE α] [DecidableLE α] [OfNat α 0] [OfNat α 1] [HasFloor α]

def Node.now : Node α → Option Nat
  | .sec s => s.now
  | .strat d _ => d.now

/-- node at a path -/
def Node.get? : Node α → List Nat → Option (Node α)
  | n, [] => some n
  | .sec _, _ :: _ => none
  | .strat _ kids, i :: rest =>
    match kids[i]? with
    | none => none
    | some k => k.get? rest

/-- result of a node-level operation: new node, adjustments for the node's own parent,
    and whether `root.stale` was set. -/
abbrev OpRes (α : Type) := Node α × List (Adj α) × Bool

/-- Apply `f` to the node at `path`; `f` receives the data of the node's parent strategy
    (none at the root).  The adjustments it returns are booked on that parent. -/
def modAt (f : Option (StratData α) → Node α → Except Err (OpRes α)) :
    List Nat → Option (StratData α) → Node α → Except Err (OpRes α)
  | [], par, n => f par n
  | _ :: _, _, .sec _ => throw Err.badPath
  | i :: rest, _, .strat sd kids =>
    match kids[i]? with
    | none => throw Err.badPath
    | some k =>
      (modAt f rest (some sd) k).map fun (k', adjs, st) =>
        (.strat (adjs.foldl StratData.adjust sd) (kids.set i k'), [], st)

def World.modify (w : World α) (path : List Nat)
    (f : Option (StratData α) → Node α → Except Err (OpRes α)) : Except Err (World α) :=
  (modAt f path none w.root).map fun (r, _, st) => { root := r, stale := w.stale || st }

end
end Bt
