import Bt.Engine.State
/-
  SecurityBase.update (+ the four subclass overrides), outlay, transact and
  allocate (core.py l.1383-1683, 1705-1939), mirroring the code's operation
  order so that the `Float` instance reproduces the real results bit for bit.
-/
namespace Bt

section
variable {α : Type} [Add α] [Sub α] [Mul α] [Div α] [Neg α] [LT α] [DecidableLT α]
  [LE α] [DecidableLE α] [OfNat α 0] [OfNat α 1] [HasFloor α]

/-- float `==` for non-NaN values / equality in a linear order. -/
def eqA (a b : α) : Bool := !(decide (a < b)) && !(decide (b < a))

/-- cell of a data column; outside the index or NaN = `none`. -/
def cell (col : List (Option α)) (i : Nat) : Option α := (col[i]?).join

/-- An adjustment a child sends to its own parent (`parent.adjust(...)`). -/
structure Adj (α : Type) where
  amount : α
  fee : α
  flow : Bool

/-- `StrategyBase.adjust` on the data (the `update` → `stale` part is returned separately). -/
def StratData.adjust (sd : StratData α) (a : Adj α) : StratData α :=
  { sd with capital := sd.capital + a.amount,
            lastFee := sd.lastFee + a.fee,
            netFlows := if a.flow then sd.netFlows + a.amount else sd.netFlows }

/-- date change: read the row of the new date (l.1403-1418). -/
def secDateChange (d : Nat) (s : SecData α) : SecData α :=
  if s.now != some d then
    { s with now := some d, price := cell s.prices d,
             bidoffer := if s.bidofferSet then cell s.bidoffers d else s.bidoffer,
             bidofferPaid := if s.bidofferSet then 0 else s.bidofferPaid }
  else s

/-- position row and `_last_pos` (l.1420-1421). -/
def secRecordPos (d : Nat) (s : SecData α) : SecData α :=
  { s with rPosition := s.rPosition.set d s.position, lastPos := s.position }

/-- the value a marked security gets (l.1423-1429); raises on NaN price with an open position. -/
def secMarkValue (cfg : Cfg α) (s : SecData α) : Except Err α :=
  match s.price with
  | none => if isZero cfg.tol s.position then pure 0 else throw Err.nanPriceOpenPosition
  | some p => pure (s.position * p * s.mult)

/-- value, notional and their rows (l.1431-1434). -/
def secSetValue (d : Nat) (v : α) (s : SecData α) : SecData α :=
  { s with value := v, notl := v, rValue := s.rValue.set d v, rNotl := s.rNotl.set d v }

/-- the needupdate shortcut (l.1436-1437). -/
def secQuiet (cfg : Cfg α) (s : SecData α) : SecData α :=
  if isZero cfg.tol s.weight && isZero cfg.tol s.position then { s with needupdate := false } else s

/-- outlay accumulator flushed into the date's row (l.1440-1443). -/
def secFlushOutlay (d : Nat) (s : SecData α) : SecData α :=
  if !(eqA s.outlayAcc 0) then
    { s with rOutlay := s.rOutlay.set d ((s.rOutlay.getD d 0) + s.outlayAcc), outlayAcc := 0 }
  else s

/-- bid/offer-paid row (l.1445-1446). -/
def secRowBidoffer (d : Nat) (s : SecData α) : SecData α :=
  if s.bidofferSet then { s with rBidofferPaid := s.rBidofferPaid.set d s.bidofferPaid } else s

/-- the early-return test of `SecurityBase.update` (l.1393). -/
def secEarly (d : Nat) (s : SecData α) : Bool := s.now == some d && eqA s.lastPos s.position

/-- SecurityBase.update proper (l.1384-1446). -/
def secBaseUpdate (cfg : Cfg α) (d : Nat) (s : SecData α) : Except Err (SecData α) :=
  if secEarly d s then pure s
  else
    let s2 := secRecordPos d (secDateChange d s)
    (secMarkValue cfg s2).map fun v =>
      secRowBidoffer d (secFlushOutlay d (secQuiet cfg (secSetValue d v s2)))

/-- FixedIncomeSecurity.update tail: notional is the position. -/
def secFiTail (d : Nat) (s : SecData α) : SecData α :=
  { s with notl := s.position, rNotl := s.rNotl.set d s.position }

/-- HedgeSecurity / CouponPayingHedgeSecurity tail: notional zero, whole series zero-filled. -/
def secHedgeTail (s : SecData α) : SecData α :=
  { s with notl := 0, rNotl := s.rNotl.map fun _ => 0 }

/-- CouponPayingSecurity.update tail (l.1836-1861). -/
def secCouponTail (cfg : Cfg α) (d : Nat) (s : SecData α) : Except Err (SecData α) :=
  let cpnE : Except Err α :=
    match cell s.coupons d with
    | none => if isZero cfg.tol s.position then pure 0 else throw Err.nanCouponOpenPosition
    | some c => pure (s.position * c)
  cpnE.bind fun cpn =>
  let hcE : Except Err α :=
    if 0 < s.position && s.costLong.isSome then
      match cell (s.costLong.getD []) d with
      | none => throw Err.nanData
      | some c => pure (s.position * c)
    else if s.position < 0 && s.costShort.isSome then
      match cell (s.costShort.getD []) d with
      | none => throw Err.nanData
      | some c => pure (-s.position * c)
    else pure 0
  hcE.bind fun hc =>
  pure { s with coupon := cpn, holdingCost := hc, capital := cpn - hc,
                rCoupon := s.rCoupon.set d cpn, rHolding := s.rHolding.set d hc }

/-- `update` as dispatched on the security's class. -/
def secUpdate (cfg : Cfg α) (d : Nat) (s : SecData α) : Except Err (SecData α) :=
  (secBaseUpdate cfg d s).bind fun s1 =>
  match s.kind with
  | .plain => pure s1
  | .fi => pure (secFiTail d s1)
  | .hedge => pure (secHedgeTail s1)
  | .coupon => secCouponTail cfg d (secFiTail d s1)
  | .couponHedge => (secCouponTail cfg d (secFiTail d s1)).map secHedgeTail

/-- The refresh every security entry point starts with:
    `if self._needupdate or self.now != self.parent.now: self.update(self.parent.now)`. -/
def secRefresh (cfg : Cfg α) (parentNow : Option Nat) (s : SecData α) : Except Err (SecData α) :=
  if s.needupdate || s.now != parentNow then
    match parentNow with
    | some d => secUpdate cfg d s
    | none => throw Err.badPath
  else pure s

/-- `SecurityBase.outlay(q, p)` → (full outlay, outlay, fee, bid/offer). -/
def secOutlay (cfg : Cfg α) (comm : α → α → α) (s : SecData α) (q : α) (custom : Option α) :
    Except Err (α × α × α × α) :=
  match s.price with
  | none => throw Err.nanData
  | some price =>
    match custom with
    | none =>
      match s.bidoffer with
      | none => throw Err.nanData
      | some bo =>
        let fee := comm q (price * s.mult)
        let bidoffer := absA q * cfg.half * bo * s.mult
        let outlay := q * price * s.mult + bidoffer
        pure (outlay + fee, outlay, fee, bidoffer)
    | some p =>
      let fee := comm q (p * s.mult)
      let bidoffer := q * (p - price) * s.mult
      let outlay := q * price * s.mult + bidoffer
      pure (outlay + fee, outlay, fee, bidoffer)

/-- `SecurityBase.transact` after its optional refresh. Returns the new security and the
    adjustment sent to the parent (none when nothing is traded). -/
def secTransactCore (cfg : Cfg α) (comm : α → α → α) (s : SecData α) (q : α) (custom : Option α) :
    Except Err (SecData α × Option (Adj α)) :=
  if isZero cfg.tol q then pure (s, none)
  else if custom.isSome && !s.bidofferSet then throw Err.customPriceNoBidOffer
  else
    let s2 : SecData α := { s with needupdate := true, position := s.position + q }
    (secOutlay cfg comm s2 q custom).bind fun (full, outlay, fee, bo) =>
    let s3 : SecData α := { s2 with outlayAcc := s2.outlayAcc + outlay, bidofferPaid := s2.bidofferPaid + bo }
    pure (s3, some { amount := -full, fee := fee, flow := false })

def secTransact (cfg : Cfg α) (parentNow : Option Nat) (comm : α → α → α) (s : SecData α) (q : α)
    (updateSelf : Bool) (custom : Option α) : Except Err (SecData α × Option (Adj α)) :=
  (if updateSelf then secRefresh cfg parentNow s else pure s).bind fun s1 =>
  secTransactCore cfg comm s1 q custom

/-- The share-sizing search of `allocate` (l.1535-1588); `fuel` reproduces the 10^4 cap. -/
def sizeLoop (cfg : Cfg α) (out : α → Except Err α) (pm amount : α) (integer : Bool) :
    Nat → Nat → α → α → α → α → Except Err α
  | 0, _, _, _, _, _ => throw Err.sizingIterCap
  | fuel + 1, i, q, lastQ, full, lastShort =>
    if isClose cfg.atol cfg.tol full amount || eqA q 0 then pure q
    else
      let dq := (full - amount) / pm
      let q1 := q - dq
      let q2 := if integer then floorA q1 else q1
      (out q2).bind fun full2 =>
      let brk : Except Err Bool :=
        if integer then (out (q2 + 1)).map fun more => decide (full2 < amount) && decide (amount < more)
        else pure false
      brk.bind fun b =>
      if b then pure q2
      else if cfg.iterCap < i + 1 then throw Err.sizingIterCap
      else if integer && eqA lastQ q2 then throw Err.sizingStuck
      else if absA lastShort < absA (full2 - amount) then throw Err.sizingDiverged
      else sizeLoop cfg out pm amount integer fuel (i + 1) q2 q2 full2 (full2 - amount)

/-- Initial quantity of `allocate` (l.1490-1500). -/
def allocQ0 (cfg : Cfg α) (s : SecData α) (price amount : α) : α :=
  if isZero cfg.tol (amount + s.value) then -s.position
  else
    let q := amount / (price * s.mult)
    if s.integer then
      if 0 < s.position || (isZero cfg.tol s.position && 0 < amount) then floorA q else ceilA q
    else q

/-- Quantity `allocate` finally trades (none: nothing to do). -/
def allocQuantity (cfg : Cfg α) (comm : α → α → α) (s : SecData α) (amount : α) : Except Err (Option α) :=
  if isZero cfg.tol amount then pure none
  else
    match s.price with
    | none => throw Err.allocateBadPrice
    | some price =>
      if isZero cfg.tol price then throw Err.allocateBadPrice
      else
        let q0 := allocQ0 cfg s price amount
        if isZero cfg.tol q0 then pure none
        else if eqA q0 (-s.position) then pure (some q0)
        else
          let out := fun q => (secOutlay cfg comm s q none).map fun r => r.1
          (out q0).bind fun full0 =>
          (sizeLoop cfg out (price * s.mult) amount s.integer (cfg.iterCap + 2) 0 q0 q0 full0 (full0 - amount)).map some

/-- `SecurityBase.allocate`. -/
def secAllocate (cfg : Cfg α) (parentNow : Option Nat) (comm : α → α → α) (s : SecData α) (amount : α) :
    Except Err (SecData α × Option (Adj α)) :=
  (secRefresh cfg parentNow s).bind fun s1 =>
  (allocQuantity cfg comm s1 amount).bind fun oq =>
  match oq with
  | none => pure (s1, none)
  | some q => secTransactCore cfg comm s1 q none

end
end Bt
