import Bt.Num
/-
  State of the engine model (bt/core.py Node / StrategyBase / SecurityBase and
  the four security subclasses).  Mutation is modelled by returning new values.
  Dates are row indices; the sentinel `now == 0` of the code is `none`.
  NaN cells of the supplied data are `none`.
-/
namespace Bt

/-- Errors the engine raises (core.py); never defaulted. -/
inductive Err where
  | nanPriceOpenPosition    -- SecurityBase.update: position open and price NaN
  | nanCouponOpenPosition   -- CouponPayingSecurity.update
  | allocateBadPrice        -- SecurityBase.allocate: price zero or NaN
  | parentlessSecurity
  | zeroBaseReturn          -- StrategyBase.update: both index formulas
  | sizingIterCap | sizingStuck | sizingDiverged
  | customPriceNoBidOffer
  | badPath                 -- driver: path does not address a node of the right kind
  | nanData                 -- a NaN bid/offer or holding cost entered arithmetic (ill-formed data)
  | noPosition              -- `.position` read on a strategy (AttributeError in the code)
  deriving DecidableEq, Repr, Inhabited

def Err.toString : Err → String
  | .nanPriceOpenPosition => "NanPriceOpenPosition"
  | .nanCouponOpenPosition => "NanCouponOpenPosition"
  | .allocateBadPrice => "AllocateBadPrice"
  | .parentlessSecurity => "ParentlessSecurity"
  | .zeroBaseReturn => "ZeroBaseReturn"
  | .sizingIterCap => "SizingIterCap"
  | .sizingStuck => "SizingStuck"
  | .sizingDiverged => "SizingDiverged"
  | .customPriceNoBidOffer => "CustomPriceNoBidOffer"
  | .badPath => "BadPath"
  | .nanData => "NanData"
  | .noPosition => "NoPosition"

inductive SecKind where
  | plain | fi | coupon | hedge | couponHedge
  deriving DecidableEq, Repr, Inhabited

def SecKind.isCoupon : SecKind → Bool
  | .coupon | .couponHedge => true
  | _ => false

/-- Numeric constants of the module (`TOL`, `PAR`, `np.isclose` defaults) read from
    the live code and passed in; theorems hold for all of them. -/
structure Cfg (α : Type) where
  tol : α       -- core.TOL
  par : α       -- core.PAR
  atol : α      -- np.isclose default atol (1e-8)
  half : α      -- 0.5 in `outlay`
  one : α
  iterCap : Nat -- 10000
  deriving Inhabited

structure SecData (α : Type) where
  name : String
  kind : SecKind
  fixedIncome : Bool        -- `_fixed_income`
  integer : Bool            -- `integer_positions`
  bidofferSet : Bool
  mult : α
  now : Option Nat
  price : Option α          -- `none` = NaN
  value : α
  notl : α
  weight : α
  position : α
  lastPos : α
  outlayAcc : α             -- `_outlay`
  bidoffer : Option α       -- `_bidoffer` (NaN on the synthetic row)
  bidofferPaid : α
  capital : α               -- coupon less holding cost parked on the security
  coupon : α
  holdingCost : α
  needupdate : Bool
  -- supplied data columns
  prices : List (Option α)
  bidoffers : List (Option α)
  coupons : List (Option α)
  costLong : Option (List (Option α))
  costShort : Option (List (Option α))
  -- recorded rows
  rValue : List α
  rPosition : List α
  rNotl : List α
  rOutlay : List α
  rBidofferPaid : List α
  rCoupon : List α
  rHolding : List α

structure StratData (α : Type) where
  name : String
  fixedIncome : Bool
  bidofferSet : Bool
  paperTrade : Bool
  paperPx : α               -- price of the shadow copy after this step (external input)
  comm : α → α → α          -- commission_fn (quantity, price)
  now : Option Nat
  capital : α
  price : α
  value : α
  notl : α
  weight : α
  netFlows : α
  lastValue : α
  lastNotl : α
  lastPrice : α
  lastFee : α
  bidofferPaid : α
  bankrupt : Bool
  rPrice : List α
  rValue : List α
  rNotl : List α
  rCash : List α
  rFees : List α
  rFlows : List α
  rBidofferPaid : List α

inductive Node (α : Type) where
  | sec : SecData α → Node α
  | strat : StratData α → List (Node α) → Node α

structure World (α : Type) where
  root : Node α
  stale : Bool

namespace Node
variable {α : Type}

def isSec : Node α → Bool
  | .sec _ => true
  | .strat _ _ => false

/-- `c._issec and not c._needupdate` — the skip test of `StrategyBase.update`. -/
def skipped : Node α → Bool
  | .sec s => !s.needupdate
  | .strat _ _ => false

def value : Node α → α
  | .sec s => s.value
  | .strat d _ => d.value

def notl : Node α → α
  | .sec s => s.notl
  | .strat d _ => d.notl

def weight : Node α → α
  | .sec s => s.weight
  | .strat d _ => d.weight

def setWeight (w : α) : Node α → Node α
  | .sec s => .sec { s with weight := w }
  | .strat d ks => .strat { d with weight := w } ks

def fixedIncome : Node α → Bool
  | .sec s => s.fixedIncome
  | .strat d _ => d.fixedIncome

def bidofferPaid : Node α → α
  | .sec s => s.bidofferPaid
  | .strat d _ => d.bidofferPaid

def name : Node α → String
  | .sec s => s.name
  | .strat d _ => d.name

end Node
end Bt
