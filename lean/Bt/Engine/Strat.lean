import Bt.Engine.Path
/-
  StrategyBase.update / adjust / allocate / transact / flatten
  (core.py l.667-943, 1031-1041).  Operations on a node return the new subtree,
  the adjustments they send to the node's own parent, and whether they set the
  root's `stale` flag.
-/
namespace Bt

section
variable {α : Type} [Add α] [Sub α] [Mul α] [Div α] [Neg α] [LT α] [DecidableLT α]
  [LE α] [DecidableLE α] [OfNat α 0] [OfNat α 1] [HasFloor α]

/-- accumulators of the children loop of `StrategyBase.update` -/
structure Acc (α : Type) where
  val : α
  notl : α
  bo : α
  coupons : α

/-- date-change resets (l.676-685); returns `newpt`. -/
def stratDateChange (d : Nat) (sd : StratData α) : StratData α × Bool :=
  match sd.now with
  | none => ({ sd with now := some d }, true)
  | some n =>
    if n != d then
      ({ sd with netFlows := 0, lastPrice := sd.price, lastValue := sd.value,
                 lastNotl := sd.notl, lastFee := 0, now := some d }, true)
    else ({ sd with now := some d }, false)

/-- value, notional, bid/offer-paid and their rows (l.733-741). -/
def stratSetTotals (d : Nat) (sd : StratData α) (val notl bo : α) : StratData α :=
  let sd1 : StratData α :=
    { sd with value := val, rValue := sd.rValue.set d val, notl := notl, rNotl := sd.rNotl.set d notl }
  if sd1.bidofferSet then { sd1 with bidofferPaid := bo, rBidofferPaid := sd1.rBidofferPaid.set d bo } else sd1

/-- additive return of a fixed-income strategy (l.745-760), in index points. -/
def fiReturn (cfg : Cfg α) (sd : StratData α) : Except Err α :=
  let pnl := sd.value - (sd.lastValue + sd.netFlows)
  if !(isZero cfg.tol sd.lastNotl) then pure (pnl / sd.lastNotl * cfg.par)
  else if !(isZero cfg.tol sd.notl) then pure (pnl / sd.notl * cfg.par)
  else if isZero cfg.tol pnl then pure 0
  else throw Err.zeroBaseReturn

/-- multiplicative return of a market-value strategy (l.766-786). -/
def mvReturn (cfg : Cfg α) (sd : StratData α) : Except Err α :=
  let bottom := sd.lastValue + sd.netFlows
  if !(isZero cfg.tol bottom) then pure (sd.value / bottom - 1)
  else if isZero cfg.tol sd.value then pure 0
  else throw Err.zeroBaseReturn

def stratSetPrice (d : Nat) (sd : StratData α) (p : α) : StratData α :=
  { sd with price := p, rPrice := sd.rPrice.set d p }

/-- the write guard of l.732 -/
def stratChanged (cfg : Cfg α) (newpt : Bool) (sd : StratData α) (val notl : α) : Bool :=
  newpt || !(isZero cfg.tol (sd.value - val)) || !(isZero cfg.tol (sd.notl - notl))

/-- value / notional / index write (l.732-789). -/
def stratWrite (cfg : Cfg α) (d : Nat) (newpt : Bool) (sd : StratData α) (val notl bo : α) :
    Except Err (StratData α) :=
  if stratChanged cfg newpt sd val notl then
    let sd2 := stratSetTotals d sd val notl bo
    if sd2.fixedIncome then
      (fiReturn cfg sd2).map fun ret => stratSetPrice d sd2 (sd2.lastPrice + ret)
    else
      (mvReturn cfg sd2).map fun ret => stratSetPrice d sd2 (sd2.lastPrice * (1 + ret))
  else pure sd

/-- the weight a child gets (l.798-807) -/
def childWeight (cfg : Cfg α) (fi : Bool) (val notl : α) (k : Node α) : α :=
  if fi then (if !(isZero cfg.tol notl) then k.notl / notl else 0)
  else (if !(isZero cfg.tol val) then k.value / val else 0)

def kidsWeights (cfg : Cfg α) (fi : Bool) (val notl : α) (kids : List (Node α)) : List (Node α) :=
  kids.map fun k => if k.skipped then k else k.setWeight (childWeight cfg fi val notl k)

/-- cash / fees / flows rows (l.818-820) and the paper price (l.823-830). -/
def stratRows (d : Nat) (sd : StratData α) : StratData α :=
  let sd1 : StratData α :=
    { sd with rCash := sd.rCash.set d sd.capital, rFees := sd.rFees.set d sd.lastFee,
              rFlows := sd.rFlows.set d sd.netFlows }
  if sd1.paperTrade then { sd1 with price := sd1.paperPx, rPrice := sd1.rPrice.set d sd1.paperPx } else sd1

/-- coupon sweep on a new date (l.704-706) -/
def sweepSec (newpt : Bool) (s : SecData α) (acc : Acc α) : SecData α × Acc α :=
  if newpt then ({ s with capital := 0 }, { acc with coupons := acc.coupons + s.capital }) else (s, acc)

/-- what the parent adds up after a child has been updated (l.713-718) -/
def accAdd (bo : Bool) (acc : Acc α) (k : Node α) : Acc α :=
  { acc with val := acc.val + k.value, notl := acc.notl + absA k.notl,
             bo := if bo then acc.bo + k.bidofferPaid else acc.bo }

mutual
/-- `update(date)` of any node, without the root-only bankruptcy step. -/
def updNode (cfg : Cfg α) (d : Nat) : Node α → Except Err (Node α)
  | .sec s => (secUpdate cfg d s).map Node.sec
  | .strat sd kids =>
    let (sd1, newpt) := stratDateChange d sd
    (updKids cfg d newpt sd1.bidofferSet kids ⟨sd1.capital, 0, 0, 0⟩).bind fun (kids1, acc) =>
    let sd2 : StratData α := { sd1 with capital := sd1.capital + acc.coupons }
    let val := acc.val + acc.coupons
    (stratWrite cfg d newpt sd2 val acc.notl acc.bo).map fun sd3 =>
    .strat (stratRows d sd3) (kidsWeights cfg sd3.fixedIncome val acc.notl kids1)

def updKids (cfg : Cfg α) (d : Nat) (newpt bo : Bool) : List (Node α) → Acc α → Except Err (List (Node α) × Acc α)
  | [], acc => pure ([], acc)
  | .sec s :: ks, acc =>
    let (s0, acc0) := sweepSec newpt s acc
    if !s0.needupdate then
      (updKids cfg d newpt bo ks acc0).map fun (ks', a) => (.sec s0 :: ks', a)
    else
      (secUpdate cfg d s0).bind fun s1 =>
      (updKids cfg d newpt bo ks (accAdd bo acc0 (.sec s1))).map fun (ks', a) => (.sec s1 :: ks', a)
  | k@(.strat _ _) :: ks, acc =>
    (updNode cfg d k).bind fun k1 =>
    (updKids cfg d newpt bo ks (accAdd bo acc k1)).map fun (ks', a) => (k1 :: ks', a)
end

mutual
/-- `allocate(amount, update=False)` pushed into a child by its parent
    (a security trades; a sub-strategy debits the parent as a non-flow, credits
    itself as a flow and pushes `amount * weight` further down). -/
def allocNode (cfg : Cfg α) (parentNow : Option Nat) (comm : α → α → α) (amount : α) :
    Node α → Except Err (Node α × List (Adj α))
  | .sec s => (secAllocate cfg parentNow comm s amount).map fun (s', a) => (.sec s', a.toList)
  | .strat sd kids =>
    let sd1 := sd.adjust { amount := amount, fee := 0, flow := true }
    (allocKids cfg amount kids sd1).map fun (sd2, kids2) =>
      (.strat sd2 kids2, [{ amount := -amount, fee := 0, flow := false }])

def allocKids (cfg : Cfg α) (amount : α) : List (Node α) → StratData α → Except Err (StratData α × List (Node α))
  | [], sd => pure (sd, [])
  | k :: ks, sd =>
    (allocNode cfg sd.now sd.comm (amount * k.weight) k).bind fun (k', adjs) =>
    let sd' := adjs.foldl StratData.adjust sd
    (allocKids cfg amount ks sd').map fun (sd'', ks') => (sd'', k' :: ks')
end

mutual
/-- `transact(q, update=False)` pushed into a child. -/
def transNode (cfg : Cfg α) (parentNow : Option Nat) (comm : α → α → α) (q : α) (custom : Option α) :
    Node α → Except Err (Node α × List (Adj α))
  | .sec s => (secTransact cfg parentNow comm s q true custom).map fun (s', a) => (.sec s', a.toList)
  | .strat sd kids => (transKids cfg q kids sd).map fun (sd2, kids2) => (.strat sd2 kids2, [])

def transKids (cfg : Cfg α) (q : α) : List (Node α) → StratData α → Except Err (StratData α × List (Node α))
  | [], sd => pure (sd, [])
  | k :: ks, sd =>
    (transNode cfg sd.now sd.comm (q * k.weight) none k).bind fun (k', adjs) =>
    let sd' := adjs.foldl StratData.adjust sd
    (transKids cfg q ks sd').map fun (sd'', ks') => (sd'', k' :: ks')
end

/-- non-fixed-income `flatten` body: `[c.allocate(-c.value, update=False) for c in kids if c.value != 0]` -/
def flattenKidsMV (cfg : Cfg α) : List (Node α) → StratData α → Except Err (StratData α × List (Node α))
  | [], sd => pure (sd, [])
  | k :: ks, sd =>
    if eqA k.value 0 then
      (flattenKidsMV cfg ks sd).map fun (sd'', ks') => (sd'', k :: ks')
    else
      (allocNode cfg sd.now sd.comm (-k.value) k).bind fun (k', adjs) =>
      let sd' := adjs.foldl StratData.adjust sd
      (flattenKidsMV cfg ks sd').map fun (sd'', ks') => (sd'', k' :: ks')

/-- fixed-income `flatten` body: `[c.transact(-c.position, update=False) for c in kids if c.position != 0]`;
    a sub-strategy has no `position` (AttributeError in the code). -/
def flattenKidsFI (cfg : Cfg α) : List (Node α) → StratData α → Except Err (StratData α × List (Node α))
  | [], sd => pure (sd, [])
  | .strat _ _ :: _, _ => throw Err.noPosition
  | .sec s :: ks, sd =>
    if eqA s.position 0 then
      (flattenKidsFI cfg ks sd).map fun (sd'', ks') => (sd'', .sec s :: ks')
    else
      (secTransact cfg sd.now sd.comm s (-s.position) true none).bind fun (s', adj) =>
      let sd' := adj.toList.foldl StratData.adjust sd
      (flattenKidsFI cfg ks sd').map fun (sd'', ks') => (sd'', .sec s' :: ks')

def flattenStrat (cfg : Cfg α) (sd : StratData α) (kids : List (Node α)) : Except Err (StratData α × List (Node α)) :=
  if sd.fixedIncome then flattenKidsFI cfg kids sd else flattenKidsMV cfg kids sd

mutual
/-- `strategy.flatten()` (l.1031-1050) on the strategy at `path`: sub-strategies flatten their own children
    first; then every child with a non-zero value is liquidated with `allocate(-value, update=False)`
    (fixed income: `transact(-position)`), the first `value` read going through the refreshing getter
    (`rf`, because the sub-strategies' `flatten` left the root stale); finally `stale := true`.
    The first argument is the shape of the subtree (recursion only; data is read from the world). -/
def flattenAt (cfg : Cfg α) (rf : World α → Except Err (World α)) : Node α → List Nat → World α → Except Err (World α)
  | .sec _, _, _ => throw Err.badPath
  | .strat _ kids, path, w =>
    (flattenSubs cfg rf kids path 0 w).bind fun w1 =>
    match w1.root.get? path with
    | some (.strat sd ks) =>
      (if !sd.fixedIncome && !ks.isEmpty && w1.stale then rf w1 else pure w1).bind fun w2 =>
      w2.modify path fun _ n =>
        match n with
        | .sec _ => throw Err.badPath
        | .strat sd2 ks2 => (flattenStrat cfg sd2 ks2).map fun (sd', ks') => (.strat sd' ks', [], true)
    | _ => throw Err.badPath

def flattenSubs (cfg : Cfg α) (rf : World α → Except Err (World α)) : List (Node α) → List Nat → Nat → World α → Except Err (World α)
  | [], _, _, w => pure w
  | k@(.strat _ _) :: ks, path, i, w =>
    (flattenAt cfg rf k (path ++ [i]) w).bind fun w1 => flattenSubs cfg rf ks path (i + 1) w1
  | .sec _ :: ks, path, i, w => flattenSubs cfg rf ks path (i + 1) w
end

/-- the refresh a getter triggers while the root is inside its own bankruptcy step: a plain re-update of
    the tree (the flag is already set, so no second trigger) -/
def refreshNB (cfg : Cfg α) (w : World α) : Except Err (World α) :=
  match w.root.now with
  | some d => (updNode cfg d w.root).map fun n => { root := n, stale := false }
  | none => throw Err.badPath

/-- `root.update(date)`: `updNode` plus the root-only bankruptcy step (l.723-732): the flag is set, the
    whole tree is flattened and — the totals gathered so far being those of the pre-liquidation tree — the
    update is redone on the liquidated tree (same date, so no resets; the flag prevents a second trigger). -/
def updRoot (cfg : Cfg α) (d : Nat) (w : World α) : Except Err (World α) :=
  match w.root with
  | .sec _ => throw Err.badPath
  | .strat sd kids =>
    let (sd1, newpt) := stratDateChange d sd
    (updKids cfg d newpt sd1.bidofferSet kids ⟨sd1.capital, 0, 0, 0⟩).bind fun (kids1, acc) =>
    let sd2 : StratData α := { sd1 with capital := sd1.capital + acc.coupons }
    let val := acc.val + acc.coupons
    if val < 0 && !sd2.bankrupt && !sd2.fixedIncome && !(isZero cfg.tol val) then
      let wB : World α := { root := .strat { sd2 with bankrupt := true } kids1, stale := false }
      (flattenAt cfg (refreshNB cfg) wB.root [] wB).bind fun wF =>
      (updNode cfg d wF.root).map fun n => { root := n, stale := false }
    else
      (stratWrite cfg d newpt sd2 val acc.notl acc.bo).map fun sd3 =>
      { root := .strat (stratRows d sd3) (kidsWeights cfg sd3.fixedIncome val acc.notl kids1), stale := false }

end
end Bt
