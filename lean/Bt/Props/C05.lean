import Bt.Proofs.Alloc
/-! C05 — `SecurityBase.allocate` respects the budget (property theorems only; helper lemmas live in
    `Bt.Proofs.Alloc`). -/
set_option linter.unusedSectionVars false
namespace Bt.C05
open Bt Bt.Alloc

variable {K : Type} [Field K] [LinearOrder K] [IsStrictOrderedRing K] [HasFloor K]

/-! ### (1) zero amount does nothing; missing / zero price is refused -/

/-- A zero amount (`is_zero(amount)`) sizes nothing, whatever the state. -/
theorem alloc_zero_noop (cfg : Cfg K) (comm : K → K → K) (s : SecData K) (amount : K)
    (hz : isZero cfg.tol amount = true) : allocQuantity cfg comm s amount = .ok none := by
  unfold allocQuantity; simp [hz]; rfl

example : isZero cfgQ.tol (0 : Rat) = true ∧
    allocQuantity cfgQ (commPerShare 1) (mkSec true 1 (some 100) 500 5 0) 0 = .ok none := by
  decide +kernel

/-- `allocate(0)` is exactly the refresh: no trade, no adjustment sent to the parent, and the
    position is the one held before the call. -/
theorem alloc_zero_noop_sec (cfg : Cfg K) (pn : Option Nat) (comm : K → K → K) (s : SecData K)
    (amount : K) (hz : isZero cfg.tol amount = true) :
    secAllocate cfg pn comm s amount = (secRefresh cfg pn s).map (fun s1 => (s1, none)) ∧
    ∀ r, secAllocate cfg pn comm s amount = .ok r → r.1.position = s.position ∧ r.2 = none := by
  have h1 : secAllocate cfg pn comm s amount = (secRefresh cfg pn s).map (fun s1 => (s1, none)) := by
    unfold secAllocate
    cases hr : secRefresh cfg pn s with
    | error e => rfl
    | ok s1 =>
      simp only [Except.bind, Except.map, alloc_zero_noop cfg comm s1 amount hz]; rfl
  refine ⟨h1, ?_⟩
  intro r hr
  rw [h1] at hr
  cases hs : secRefresh cfg pn s with
  | error e => rw [hs] at hr; cases hr
  | ok s1 =>
    rw [hs] at hr; cases hr
    exact ⟨secRefresh_position cfg pn s s1 hs, rfl⟩

example : tradeView (secAllocate cfgQ (some 1) (commPerShare 1) (mkSec true 1 (some 100) 500 5 0) 0)
    = .ok (5, none) := by
  decide +kernel

/-- A non-zero amount at a missing (NaN) or zero price is refused. -/
theorem alloc_bad_price_raises (cfg : Cfg K) (comm : K → K → K) (s : SecData K) (amount : K)
    (hz : isZero cfg.tol amount = false)
    (hp : s.price = none ∨ ∃ p, s.price = some p ∧ isZero cfg.tol p = true) :
    allocQuantity cfg comm s amount = .error Err.allocateBadPrice := by
  unfold allocQuantity
  rcases hp with hp | ⟨p, hp, hpz⟩
  · simp [hz, hp]; rfl
  · simp [hz, hp, hpz]; rfl

example : allocQuantity cfgQ commZero (mkSec true 1 none 0 0 0) 1000 = .error Err.allocateBadPrice ∧
    allocQuantity cfgQ commZero (mkSec true 1 (some 0) 0 0 0) 1000 = .error Err.allocateBadPrice := by
  decide +kernel

/-- … and so is the whole `allocate` call (after a successful refresh). -/
theorem alloc_bad_price_raises_sec (cfg : Cfg K) (pn : Option Nat) (comm : K → K → K)
    (s s1 : SecData K) (amount : K) (hr : secRefresh cfg pn s = .ok s1)
    (hz : isZero cfg.tol amount = false)
    (hp : s1.price = none ∨ ∃ p, s1.price = some p ∧ isZero cfg.tol p = true) :
    secAllocate cfg pn comm s amount = .error Err.allocateBadPrice := by
  unfold secAllocate
  rw [hr]
  simp only [Except.bind, alloc_bad_price_raises cfg comm s1 amount hz hp]

example : tradeView (secAllocate cfgQ (some 1) commZero (mkSec true 1 none 0 0 0) 1000)
    = .error Err.allocateBadPrice := by
  decide +kernel

/-! ### (2) allocating minus the current value closes the position completely -/

/-- `is_zero(amount + value)`: the quantity is exactly minus the position — no rounding, no search. -/
theorem alloc_closeout (cfg : Cfg K) (comm : K → K → K) (s : SecData K) (amount p : K)
    (hz : isZero cfg.tol amount = false) (hp : s.price = some p) (hpz : isZero cfg.tol p = false)
    (hc : isZero cfg.tol (amount + s.value) = true) (hpos : isZero cfg.tol s.position = false) :
    allocQuantity cfg comm s amount = .ok (some (-s.position)) := by
  unfold allocQuantity allocQ0
  simp [hz, hp, hpz, hc, isZero_neg, hpos, eqA_self]; rfl

example : allocQuantity cfgQ (commPerShare 1) (mkSec true 1 (some 100) 700 7 1) (-700)
    = .ok (some (-7)) := by
  decide +kernel

/-- The whole call: the trade executed is `transact(-position)`; whenever it succeeds the resulting
    position is `position + (-position) = 0`, and it does succeed when a bid/offer value is present. -/
theorem alloc_closeout_sec (cfg : Cfg K) (pn : Option Nat) (comm : K → K → K) (s s1 : SecData K)
    (amount p : K) (hr : secRefresh cfg pn s = .ok s1)
    (hz : isZero cfg.tol amount = false) (hp : s1.price = some p) (hpz : isZero cfg.tol p = false)
    (hc : isZero cfg.tol (amount + s1.value) = true) (hpos : isZero cfg.tol s1.position = false) :
    secAllocate cfg pn comm s amount = secTransactCore cfg comm s1 (-s1.position) none ∧
    (∀ r, secAllocate cfg pn comm s amount = .ok r → r.1.position = 0) ∧
    (∀ bo, s1.bidoffer = some bo → ∃ r, secAllocate cfg pn comm s amount = .ok r) := by
  have h1 : secAllocate cfg pn comm s amount = secTransactCore cfg comm s1 (-s1.position) none := by
    unfold secAllocate
    rw [hr]
    simp only [Except.bind, alloc_closeout cfg comm s1 amount p hz hp hpz hc hpos]
  have hq : isZero cfg.tol (-s1.position) = false := by rw [isZero_neg]; exact hpos
  refine ⟨h1, ?_, ?_⟩
  · intro r h
    rw [h1] at h
    have := (secTransactCore_ok cfg comm s1 _ r hq h).1
    rw [this]; ring
  · intro bo hb
    rw [h1]
    exact secTransactCore_succeeds cfg comm s1 _ p bo hp hb

example : tradeView (secAllocate cfgQ (some 1) (commPerShare 1) (mkSec true 1 (some 100) 700 7 1) (-700))
    = .ok (0, some (700 - 7/2 - 7, 7)) := by
  decide +kernel

/-! ### (3) what a successful exit of the sizing search means -/

/-- If the search started from a quantity `q` whose full outlay is `full` returns `q'`, then for the
    full outlay `full'` of `q'`: (i) it is `np.isclose` to the amount, or (ii) `q' = 0`, or
    (iii) positions are whole and `outlay q' < amount < outlay (q'+1)`. For every fuel, every state of
    the loop and every (possibly failing) outlay function. -/
theorem sizeLoop_exit_char (cfg : Cfg K) (out : K → Except Err K) (pm amount : K) (integer : Bool) :
    ∀ (fuel i : Nat) (q lastQ full lastShort q' : K), out q = .ok full →
      sizeLoop cfg out pm amount integer fuel i q lastQ full lastShort = .ok q' →
      ∃ full', out q' = .ok full' ∧
        (isClose cfg.atol cfg.tol full' amount = true ∨ q' = 0 ∨
          (integer = true ∧ full' < amount ∧ ∃ more, out (q' + 1) = .ok more ∧ amount < more)) := by
  cases integer with
  | false =>
    intro fuel
    induction fuel with
    | zero => intro i q lastQ full lastShort q' _ h; simp [sizeLoop] at h
    | succ n ih =>
      intro i q lastQ full lastShort q' hfull h
      unfold sizeLoop at h
      split at h
      · rename_i hc
        cases h
        refine ⟨full, hfull, ?_⟩
        rcases Bool.or_eq_true_iff.1 hc with hc | hc
        · exact Or.inl hc
        · exact Or.inr (Or.inl ((eqA_iff _ _).1 hc))
      · simp only [Bool.false_eq_true, ↓reduceIte, pure, Except.pure, Bool.false_and] at h
        cases ho : out (q - (full - amount) / pm) with
        | error e => rw [ho] at h; cases h
        | ok full2 =>
          rw [ho] at h
          simp only [Except.bind, Bool.false_eq_true, ↓reduceIte] at h
          split at h
          · cases h
          · split at h
            · cases h
            · exact ih _ _ _ _ _ _ ho h
  | true =>
    intro fuel
    induction fuel with
    | zero => intro i q lastQ full lastShort q' _ h; simp [sizeLoop] at h
    | succ n ih =>
      intro i q lastQ full lastShort q' hfull h
      unfold sizeLoop at h
      split at h
      · rename_i hc
        cases h
        refine ⟨full, hfull, ?_⟩
        rcases Bool.or_eq_true_iff.1 hc with hc | hc
        · exact Or.inl hc
        · exact Or.inr (Or.inl ((eqA_iff _ _).1 hc))
      · simp only [↓reduceIte] at h
        cases ho : out (floorA (q - (full - amount) / pm)) with
        | error e => rw [ho] at h; cases h
        | ok full2 =>
          rw [ho] at h
          simp only [Except.bind] at h
          cases hm : out (floorA (q - (full - amount) / pm) + 1) with
          | error e => rw [hm] at h; cases h
          | ok more =>
            rw [hm] at h
            simp only [Except.map] at h
            split at h
            · rename_i hb
              cases h
              simp only [Bool.and_eq_true, decide_eq_true_eq] at hb
              exact ⟨full2, ho, Or.inr (Or.inr ⟨rfl, hb.1, more, hm, hb.2⟩)⟩
            · split at h
              · cases h
              · split at h
                · cases h
                · split at h
                  · cases h
                  · exact ih _ _ _ _ _ _ ho h

example :
    fullOut cfgQ (commPerShare 1) (mkSec true 1 (some 100) 0 0 0) 10 = .ok 1010 ∧
    sizeLoop cfgQ (fullOut cfgQ (commPerShare 1) (mkSec true 1 (some 100) 0 0 0)) 100 1000 true
      10002 0 10 10 1010 10 = .ok 9 := by
  decide +kernel

/-- The same for `allocate`'s quantity: a traded `q'` is either the unchecked `q == -position` skip,
    or one of the three exits of the search holds for its full outlay. -/
theorem alloc_exit_char (cfg : Cfg K) (comm : K → K → K) (s : SecData K) (amount q' : K)
    (h : allocQuantity cfg comm s amount = .ok (some q')) :
    (∃ p, s.price = some p ∧ allocQ0 cfg s p amount = -s.position ∧ q' = -s.position) ∨
    ∃ full', fullOut cfg comm s q' = .ok full' ∧
      (isClose cfg.atol cfg.tol full' amount = true ∨ q' = 0 ∨
        (s.integer = true ∧ full' < amount ∧
          ∃ more, fullOut cfg comm s (q' + 1) = .ok more ∧ amount < more)) := by
  obtain ⟨_, p, hp, _, _, hq⟩ := allocQuantity_some cfg comm s amount q' h
  rcases hq with ⟨h1, h2⟩ | ⟨_, full0, hf, hl⟩
  · exact Or.inl ⟨p, hp, h1, h2⟩
  · exact Or.inr (sizeLoop_exit_char cfg _ _ amount s.integer _ _ _ _ _ _ q' hf hl)

example : allocQuantity cfgQ (commPerShare 1) (mkSec true 1 (some 100) 0 0 0) 1000 = .ok (some 9) := by
  decide +kernel

/-! ### (4) whole-unit positions: the quantity is a whole number, and the largest affordable one -/

/-- With `integer_positions` and outside the close-out shortcut the traded quantity is a whole number
    (`floorA`/`ceilA` being the real floor and ceiling). -/
theorem alloc_integer_quantity_is_integer [FloorRing K]
    (hfloor : ∀ x : K, floorA x = (⌊x⌋ : K)) (hceil : ∀ x : K, ceilA x = (⌈x⌉ : K))
    (cfg : Cfg K) (comm : K → K → K) (s : SecData K) (amount q' : K)
    (hint : s.integer = true) (hnc : isZero cfg.tol (amount + s.value) = false)
    (h : allocQuantity cfg comm s amount = .ok (some q')) : ∃ z : ℤ, q' = (z : K) := by
  obtain ⟨_, p, hp, _, _, hq⟩ := allocQuantity_some cfg comm s amount q' h
  have hq0 : ∃ z : ℤ, allocQ0 cfg s p amount = (z : K) := by
    unfold allocQ0
    simp only [hnc, Bool.false_eq_true, ↓reduceIte, hint]
    split
    · exact ⟨_, hfloor _⟩
    · exact ⟨_, hceil _⟩
  rcases hq with ⟨h1, h2⟩ | ⟨_, full0, _, hl⟩
  · rw [h2, ← h1]; exact hq0
  · rw [hint] at hl
    rcases sizeLoop_integer_result cfg _ _ amount _ _ _ _ _ _ q' hl with h' | ⟨x, h'⟩
    · rw [h']; exact hq0
    · exact ⟨_, h'.trans (hfloor x)⟩

example : (mkSec true 1 (some 100) 0 0 0).integer = true ∧
    isZero cfgQ.tol (1000 + (mkSec true 1 (some 100) 0 0 0).value) = false ∧
    allocQuantity cfgQ (commPerShare 1) (mkSec true 1 (some 100) 0 0 0) 1000 = .ok (some 9) ∧
    (∀ x : Rat, floorA x = ((⌊x⌋ : ℤ) : Rat)) ∧ (∀ x : Rat, ceilA x = ((⌈x⌉ : ℤ) : Rat)) :=
  ⟨rfl, by decide +kernel, by decide +kernel, rat_hfloor, rat_hceil⟩

/-- Exit (iii) with a cost strictly increasing over whole quantities: `q'` is affordable and no larger
    whole number is. -/
theorem alloc_integer_maximal (f : K → K) (hf : StrictMono (fun z : ℤ => f (z : K)))
    (amount q' : K) (n : ℤ)
    (hq : q' = (n : K)) (h1 : f q' < amount) (h2 : amount < f (q' + 1)) :
    f q' ≤ amount ∧ ∀ z : ℤ, f (z : K) ≤ amount → (z : K) ≤ q' := by
  refine ⟨le_of_lt h1, ?_⟩
  intro z hz
  have h2' : amount < f (((n + 1 : ℤ)) : K) := by rw [hq] at h2; push_cast; exact h2
  have : z < n + 1 := hf.lt_iff_lt.1 (lt_of_le_of_lt hz h2')
  rw [hq]
  exact_mod_cast Int.lt_add_one_iff.1 this

example : StrictMono (fun z : ℤ => (fun q : Rat => q * 101) (z : Rat)) ∧
    ((9 : Rat) = ((9 : ℤ) : Rat)) ∧ (9 : Rat) * 101 < 1000 ∧ (1000 : Rat) < (9 + 1) * 101 := by
  refine ⟨fun a b h => ?_, by norm_num, by norm_num, by norm_num⟩
  have : (a : Rat) < b := by exact_mod_cast h
  simp only; linarith

/-- "Commission smaller than the unit price": if adding one unit changes the commission by less than
    the unit price less half the spread, the full outlay is strictly increasing over whole
    quantities (whatever the commission does in between: tiers, minimum fees, …). -/
theorem outlay_strictMono_int (cfg : Cfg K) (comm : K → K → K) (s : SecData K) (price bo : K)
    (hmarg : ∀ z : ℤ, |comm ((z : K) + 1) (price * s.mult) - comm (z : K) (price * s.mult)|
        + |cfg.half * bo * s.mult| < price * s.mult) :
    StrictMono (fun z : ℤ => fullOutF cfg comm s price bo (z : K)) := by
  apply strictMono_int_of_lt_succ
  intro z
  simp only [fullOutF]
  rw [absA_eq_abs, absA_eq_abs]
  push_cast
  have h1 := (abs_le.1 (le_refl |comm ((z : K) + 1) (price * s.mult) - comm (z : K) (price * s.mult)|)).1
  have h2 : |(|(z : K) + 1| - |(z : K)|) * (cfg.half * bo * s.mult)| ≤ |cfg.half * bo * s.mult| := by
    rw [abs_mul]
    have : |(|(z : K) + 1| - |(z : K)|)| ≤ 1 := by
      calc |(|(z : K) + 1| - |(z : K)|)| ≤ |(z : K) + 1 - z| := abs_abs_sub_abs_le_abs_sub _ _
        _ = 1 := by simp
    calc _ ≤ 1 * |cfg.half * bo * s.mult| := mul_le_mul_of_nonneg_right this (abs_nonneg _)
      _ = _ := one_mul _
  have h2' := (abs_le.1 h2).1
  have := hmarg z
  nlinarith

example : ∀ z : ℤ, |commMinFee 1 (1/100) ((z : Rat) + 1) ((100 : Rat) * (mkSec true 1 (some 100) 0 0 1).mult)
      - commMinFee 1 (1/100) (z : Rat) (100 * (mkSec true 1 (some 100) 0 0 1).mult)|
      + |cfgQ.half * 1 * (mkSec true 1 (some 100) 0 0 1).mult|
      < 100 * (mkSec true 1 (some 100) 0 0 1).mult := by
  intro z
  have h : |commMinFee 1 (1/100) ((z : Rat) + 1) (100 * (mkSec true 1 (some 100) 0 0 1).mult)
      - commMinFee 1 (1/100) (z : Rat) (100 * (mkSec true 1 (some 100) 0 0 1).mult)| ≤ 1/100 := by
    simp only [commMinFee, absA_eq_abs]
    have := abs_abs_sub_abs_le_abs_sub ((z : Rat) + 1) z
    have h1 : |(z : Rat) + 1 - z| = 1 := by simp
    rw [h1] at this
    have := abs_le.1 this
    split <;> split <;> rw [abs_le] <;> constructor <;> linarith
  have : |cfgQ.half * 1 * (mkSec true 1 (some 100) 0 0 1).mult| = 1/2 := by norm_num [cfgQ, mkSec]
  rw [this]
  have : (100 : Rat) * (mkSec true 1 (some 100) 0 0 1).mult = 100 := by norm_num [mkSec]
  rw [this] at h ⊢
  linarith

/-- The full outlay is strictly increasing in the quantity when the commission is `c`-Lipschitz in the
    quantity and half the spread plus `c` stays below the unit price (covers no commission, per-unit,
    proportional and minimum-fee commissions); a fortiori over whole quantities. -/
theorem outlay_strictMono (cfg : Cfg K) (comm : K → K → K) (s : SecData K) (price bo c : K)
    (hlip : ∀ a b : K, |comm a (price * s.mult) - comm b (price * s.mult)| ≤ c * |a - b|)
    (hsmall : |cfg.half * bo * s.mult| + c < price * s.mult) :
    StrictMono (fullOutF cfg comm s price bo) := by
  intro a b hab
  unfold fullOutF
  rw [absA_eq_abs, absA_eq_abs]
  have hd : 0 < b - a := sub_pos.2 hab
  have h1 := hlip a b
  rw [abs_sub_comm a b, abs_of_pos hd] at h1
  have h1' := (abs_le.1 h1).2
  have h2 : |(|b| - |a|) * (cfg.half * bo * s.mult)| ≤ (b - a) * |cfg.half * bo * s.mult| := by
    rw [abs_mul]
    apply mul_le_mul_of_nonneg_right _ (abs_nonneg _)
    calc |(|b| - |a|)| ≤ |b - a| := abs_abs_sub_abs_le_abs_sub b a
      _ = b - a := abs_of_pos hd
  have h2' := (abs_le.1 h2).1
  nlinarith


example : (∀ a b : Rat, |commPerShare 1 a ((100 : Rat) * (mkSec true 1 (some 100) 0 0 1).mult)
      - commPerShare 1 b (100 * (mkSec true 1 (some 100) 0 0 1).mult)| ≤ 1 * |a - b|) ∧
    |cfgQ.half * 1 * (mkSec true 1 (some 100) 0 0 1).mult| + 1
      < 100 * (mkSec true 1 (some 100) 0 0 1).mult := by
  refine ⟨fun a b => ?_, by norm_num [cfgQ, mkSec]⟩
  simp only [commPerShare, absA_eq_abs, one_mul]
  exact abs_abs_sub_abs_le_abs_sub a b

/-- Maximality on the model: whole-unit positions, a full outlay strictly increasing over whole
    quantities (`outlay_strictMono_int`, or `outlay_strictMono` composed with `Int.cast`), the search was
    entered (no close-out shortcut, no `q == -position` skip) and left through neither the `isclose`
    nor the `q = 0` exit: the traded quantity is a whole number, affordable, and the largest such. -/
theorem alloc_integer_maximal_model [FloorRing K]
    (hfloor : ∀ x : K, floorA x = (⌊x⌋ : K)) (hceil : ∀ x : K, ceilA x = (⌈x⌉ : K))
    (cfg : Cfg K) (comm : K → K → K) (s : SecData K) (amount q' p bo : K)
    (hint : s.integer = true) (hp : s.price = some p) (hb : s.bidoffer = some bo)
    (hmono : StrictMono (fun z : ℤ => fullOutF cfg comm s p bo (z : K)))
    (hnc : isZero cfg.tol (amount + s.value) = false)
    (hskip : allocQ0 cfg s p amount ≠ -s.position)
    (h : allocQuantity cfg comm s amount = .ok (some q'))
    (hnclose : isClose cfg.atol cfg.tol (fullOutF cfg comm s p bo q') amount = false)
    (hq0 : q' ≠ 0) :
    (∃ n : ℤ, q' = (n : K)) ∧ fullOutF cfg comm s p bo q' ≤ amount ∧
      ∀ z : ℤ, fullOutF cfg comm s p bo (z : K) ≤ amount → (z : K) ≤ q' := by
  obtain ⟨n, hn⟩ := alloc_integer_quantity_is_integer hfloor hceil cfg comm s amount q' hint hnc h
  refine ⟨⟨n, hn⟩, ?_⟩
  rcases alloc_exit_char cfg comm s amount q' h with ⟨p', hp', h1, _⟩ | ⟨full', hf, hx⟩
  · rw [hp] at hp'; cases hp'; exact absurd h1 hskip
  · rw [fullOut_eq cfg comm s p bo hp hb] at hf
    cases hf
    rcases hx with hx | hx | ⟨_, hlt, more, hm, hgt⟩
    · rw [hx] at hnclose; cases hnclose
    · exact absurd hx hq0
    · rw [fullOut_eq cfg comm s p bo hp hb] at hm
      cases hm
      exact alloc_integer_maximal _ hmono amount q' n hn hlt hgt

example : allocQuantity cfgQ (commPerShare 1) (mkSec true 1 (some 100) 0 0 1) 1000 = .ok (some 9) ∧
    isClose cfgQ.atol cfgQ.tol
      (fullOutF cfgQ (commPerShare 1) (mkSec true 1 (some 100) 0 0 1) 100 1 9) 1000 = false ∧
    allocQ0 cfgQ (mkSec true 1 (some 100) 0 0 1) 100 1000 ≠ -(mkSec true 1 (some 100) 0 0 1).position := by
  decide +kernel

/-! ### (5) fractional positions: the cost equals the amount -/

/-- Without whole-unit positions a traded non-zero quantity that went through the search costs the
    amount up to `np.isclose`'s tolerance: `|outlay q' − amount| ≤ atol + TOL·|amount|`. -/
theorem alloc_fractional_exact (cfg : Cfg K) (comm : K → K → K) (s : SecData K) (amount q' p : K)
    (hint : s.integer = false) (hp : s.price = some p)
    (hskip : allocQ0 cfg s p amount ≠ -s.position)
    (h : allocQuantity cfg comm s amount = .ok (some q')) (hq0 : q' ≠ 0) :
    ∃ full', fullOut cfg comm s q' = .ok full' ∧ |full' - amount| ≤ cfg.atol + cfg.tol * |amount| := by
  rcases alloc_exit_char cfg comm s amount q' h with ⟨p', hp', h1, _⟩ | ⟨full', hf, hx⟩
  · rw [hp] at hp'; cases hp'; exact absurd h1 hskip
  · refine ⟨full', hf, ?_⟩
    rcases hx with hx | hx | ⟨hi, _⟩
    · exact (isClose_iff _ _ _ _).1 hx
    · exact absurd hx hq0
    · rw [hint] at hi; cases hi

example : allocQuantity cfgQ (commPerShare 1) (mkSec false 1 (some 100) 0 0 0) 1010
      = .ok (some (999999999999 / 100000000000)) ∧
    allocQ0 cfgQ (mkSec false 1 (some 100) 0 0 0) 100 1010 ≠ -(mkSec false 1 (some 100) 0 0 0).position := by
  decide +kernel

/-! ### (6) the budget -/

/-- Budget rule for every commission function, both signs of the amount, whole or fractional units:
    a traded non-zero quantity that was sized by the search (i.e. not the unchecked `q == -position`
    skip) costs at most the amount plus `np.isclose`'s tolerance; for a negative amount this reads
    "raises at least `|amount|` less the tolerance".
    (Exactly `≤ amount` does NOT hold in general because the search stops as soon as the outlay is
    `isclose` to the amount, from either side; see `witness_isclose_overshoot`.) -/
theorem alloc_budget_tol (cfg : Cfg K) (comm : K → K → K) (s : SecData K) (amount q' p : K)
    (hatol : 0 ≤ cfg.atol) (htol : 0 ≤ cfg.tol) (hp : s.price = some p)
    (hskip : allocQ0 cfg s p amount ≠ -s.position)
    (h : allocQuantity cfg comm s amount = .ok (some q')) (hq0 : q' ≠ 0) :
    ∃ full', fullOut cfg comm s q' = .ok full' ∧ full' ≤ amount + (cfg.atol + cfg.tol * |amount|) := by
  rcases alloc_exit_char cfg comm s amount q' h with ⟨p', hp', h1, _⟩ | ⟨full', hf, hx⟩
  · rw [hp] at hp'; cases hp'; exact absurd h1 hskip
  · refine ⟨full', hf, ?_⟩
    rcases hx with hx | hx | ⟨_, hlt, _⟩
    · have := (abs_le.1 ((isClose_iff _ _ _ _).1 hx)).2
      linarith
    · exact absurd hx hq0
    · have : 0 ≤ cfg.atol + cfg.tol * |amount| := by positivity
      linarith

example : allocQuantity cfgQ (commMinFee 1 (1/100)) (mkSec true 1 (some 100) (-300) (-3) 1) (-1000)
      = .ok (some (-11)) ∧
    allocQ0 cfgQ (mkSec true 1 (some 100) (-300) (-3) 1) 100 (-1000)
      ≠ -(mkSec true 1 (some 100) (-300) (-3) 1).position := by
  decide +kernel

/-- What `allocate` does to the books is exactly the sized trade: when it sends an adjustment to the
    parent, the cash taken from the parent is the full outlay of the quantity `allocQuantity` chose on
    the refreshed security, the fee is that outlay's fee part, and the position moved by that quantity. -/
theorem alloc_cash_is_full_outlay (cfg : Cfg K) (pn : Option Nat) (comm : K → K → K)
    (s s' : SecData K) (amount : K) (adj : Adj K)
    (h : secAllocate cfg pn comm s amount = .ok (s', some adj)) :
    ∃ s1 q', secRefresh cfg pn s = .ok s1 ∧ allocQuantity cfg comm s1 amount = .ok (some q') ∧
      s'.position = s1.position + q' ∧ fullOut cfg comm s1 q' = .ok (-adj.amount) ∧
      adj.flow = false := by
  unfold secAllocate at h
  cases hr : secRefresh cfg pn s with
  | error e => rw [hr] at h; cases h
  | ok s1 =>
    rw [hr] at h
    simp only [Except.bind] at h
    cases hq : allocQuantity cfg comm s1 amount with
    | error e => rw [hq] at h; cases h
    | ok oq =>
      rw [hq] at h
      cases oq with
      | none => cases h
      | some q' =>
        simp only at h
        refine ⟨s1, q', rfl, hq, ?_⟩
        by_cases hz : isZero cfg.tol q' = true
        · unfold secTransactCore at h
          simp only [hz, ↓reduceIte] at h
          cases h
        · have hz : isZero cfg.tol q' = false := by simpa using hz
          obtain ⟨hpos, full, outlay, fee, bo, ho, hadj⟩ :=
            secTransactCore_ok cfg comm s1 q' (s', some adj) hz h
          refine ⟨hpos, ?_, ?_⟩
          · unfold fullOut; rw [ho]
            simp only at hadj
            cases hadj
            simp [Except.map]
          · simp only at hadj
            cases hadj; rfl

example : tradeView (secAllocate cfgQ (some 1) (commPerShare 1) (mkSec true 1 (some 100) 0 0 0) 1000)
    = .ok (9, some (-909, 9)) := by
  decide +kernel

/-- The budget rule on the books: the cash `allocate` takes from the parent is at most the amount plus
    `np.isclose`'s tolerance, whenever the trade was sized by the search. -/
theorem alloc_budget_tol_sec (cfg : Cfg K) (pn : Option Nat) (comm : K → K → K)
    (s s' : SecData K) (amount : K) (adj : Adj K) (hatol : 0 ≤ cfg.atol) (htol : 0 < cfg.tol)
    (h : secAllocate cfg pn comm s amount = .ok (s', some adj)) :
    (∃ s1 p, secRefresh cfg pn s = .ok s1 ∧ s1.price = some p ∧
        allocQ0 cfg s1 p amount = -s1.position ∧ s'.position = 0) ∨
    -adj.amount ≤ amount + (cfg.atol + cfg.tol * |amount|) := by
  obtain ⟨s1, q', hr, hq, hpos, hfo, _⟩ := alloc_cash_is_full_outlay cfg pn comm s s' amount adj h
  obtain ⟨_, p, hp, _, hq0z, _⟩ := allocQuantity_some cfg comm s1 amount q' hq
  by_cases hskip : allocQ0 cfg s1 p amount = -s1.position
  · left
    refine ⟨s1, p, hr, hp, hskip, ?_⟩
    rcases alloc_exit_char cfg comm s1 amount q' hq with ⟨p', hp', _, hq'⟩ | ⟨full', hf, hx⟩
    · rw [hpos, hq']; ring
    · -- the search is only entered when the skip is not taken
      obtain ⟨_, p2, hp2, _, _, hcase⟩ := allocQuantity_some cfg comm s1 amount q' hq
      rw [hp] at hp2; cases hp2
      rcases hcase with ⟨_, hq'⟩ | ⟨hne, _⟩
      · rw [hpos, hq']; ring
      · exact absurd hskip hne
  · right
    by_cases hq0 : q' = 0
    · -- a zero quantity is not transacted, so no adjustment would have been sent
      exfalso
      unfold secAllocate at h
      rw [hr] at h
      simp only [Except.bind, hq] at h
      unfold secTransactCore at h
      have : isZero cfg.tol q' = true := by rw [hq0, isZero_iff, abs_zero]; exact htol
      simp only [this, ↓reduceIte] at h
      cases h
    · obtain ⟨full', hf, hle⟩ :=
        alloc_budget_tol cfg comm s1 amount q' p hatol (le_of_lt htol) hp hskip hq hq0
      rw [hfo] at hf; cases hf; exact hle

example : tradeView (secAllocate cfgQ (some 1) (commMinFee 1 (1/100))
      (mkSec true 1 (some 100) (-300) (-3) 1) (-1000)) = .ok (-14, some (2187/2, 1)) ∧
    (0 : Rat) ≤ cfgQ.atol ∧ (0 : Rat) < cfgQ.tol := by
  decide +kernel

/-- Exact budget, never raising: no commission, no spread, positive amount, long or flat whole-unit
    position. `allocate` either trades nothing, or closes the long position through the shortcut, or
    buys exactly `⌊amount / (price·mult)⌋` units; in every case the outlay is at most the amount.

    Full statement wanted by the property (NOT provable, see the witnesses below): for every commission
    non-decreasing in size and below the unit price, every spread, both signs of the amount and every
    position, `allocQuantity` returns `ok` and the traded quantity costs `≤ amount`. What is missing is
    false of the model: the search raises `sizingDiverged` / `sizingStuck` for per-unit, proportional,
    minimum-fee commissions and for spreads (`witness_raise_*`), the `q == -position` skip is not
    budget-checked (`witness_skip_overspends`) and `ceil` makes sub-unit raises a no-op
    (`witness_short_subunit_noop`). -/
theorem alloc_budget_partial [FloorRing K] (hfloor : ∀ x : K, floorA x = (⌊x⌋ : K))
    (cfg : Cfg K) (comm : K → K → K) (s : SecData K) (amount p : K)
    (hatol : 0 ≤ cfg.atol) (htol : 0 ≤ cfg.tol)
    (hint : s.integer = true) (hp : s.price = some p) (hpz : isZero cfg.tol p = false)
    (hb : s.bidoffer = some 0) (hcomm : ∀ q x, comm q x = 0) (hP : 0 < p * s.mult)
    (hamt : 0 < amount) (hlong : 0 < s.position ∨ isZero cfg.tol s.position = true) :
    ∃ oq, allocQuantity cfg comm s amount = .ok oq ∧
      (oq = none ∨ oq = some (-s.position) ∨ oq = some ((⌊amount / (p * s.mult)⌋ : ℤ) : K)) ∧
      ∀ q', oq = some q' →
        fullOut cfg comm s q' = .ok (q' * (p * s.mult)) ∧ q' * (p * s.mult) ≤ amount := by
  have hfo : ∀ q', fullOut cfg comm s q' = .ok (q' * (p * s.mult)) := fun q' => by
    rw [fullOut_eq cfg comm s p 0 hp hb, fullOutF_zero_cost cfg comm s p hcomm]
  rcases allocQuantity_zero_cost hfloor cfg comm s amount p hatol htol hint hp hpz hb hcomm hP hamt
    hlong with h | ⟨h, hpos⟩ | h
  · exact ⟨none, h, Or.inl rfl, fun q' hq => by cases hq⟩
  · refine ⟨_, h, Or.inr (Or.inl rfl), fun q' hq => ?_⟩
    cases hq
    refine ⟨hfo _, ?_⟩
    have : 0 < s.position * (p * s.mult) := mul_pos hpos hP
    linarith
  · refine ⟨_, h, Or.inr (Or.inr rfl), fun q' hq => ?_⟩
    cases hq
    exact ⟨hfo _, (le_div_iff₀ hP).1 (Int.floor_le _)⟩

example : (∀ x : Rat, floorA x = ((⌊x⌋ : ℤ) : Rat)) ∧ isZero cfgQ.tol (100 : Rat) = false ∧
    (0 : Rat) < 100 * (mkSec true 1 (some 100) 300 3 0).mult ∧
    allocQuantity cfgQ commZero (mkSec true 1 (some 100) 300 3 0) 1050 = .ok (some 10) :=
  ⟨rat_hfloor, by decide +kernel, by decide +kernel, by decide +kernel⟩

/-- Generalisation of `alloc_budget_partial` as far as the model allows: a flat fee `c` per trade
    (`c = 0`: no commission), no spread, whole units — for EVERY position (long, short, flat) and both
    signs of the amount `allocate` never raises, and a traded quantity is the unchecked `-position`, or
    costs the amount up to `np.isclose`, or is `⌊(amount − c)/(price·mult)⌋` with
    `cost q' < amount < cost (q'+1)`.
    (Per-unit, proportional and minimum-fee commissions and spreads cannot be added: see
    `witness_raise_*`; the model's Newton step is exact only for an outlay affine in `q`.) -/
theorem alloc_no_raise_flat_fee_partial [FloorRing K] (hfloor : ∀ x : K, floorA x = (⌊x⌋ : K))
    (cfg : Cfg K) (comm : K → K → K) (s : SecData K) (amount p c : K)
    (hatol : 0 ≤ cfg.atol) (htol : 0 < cfg.tol) (hcap : 1 ≤ cfg.iterCap)
    (hint : s.integer = true) (hp : s.price = some p) (hpz : isZero cfg.tol p = false)
    (hb : s.bidoffer = some 0) (hcomm : ∀ q x, comm q x = c) (hP : 0 < p * s.mult) :
    ∃ oq, allocQuantity cfg comm s amount = .ok oq ∧ ∀ q', oq = some q' →
      fullOut cfg comm s q' = .ok (q' * (p * s.mult) + c) ∧
      (q' = -s.position ∨
       isClose cfg.atol cfg.tol (q' * (p * s.mult) + c) amount = true ∨
       (q' = ((⌊(amount - c) / (p * s.mult)⌋ : ℤ) : K) ∧ q' * (p * s.mult) + c < amount ∧
        amount < (q' + 1) * (p * s.mult) + c)) := by
  have hfo : ∀ q', fullOut cfg comm s q' = .ok (q' * (p * s.mult) + c) := fun q' => by
    rw [fullOut_eq cfg comm s p 0 hp hb, fullOutF_flat_fee cfg comm s p c hcomm]
  rcases allocQuantity_flat_fee hfloor cfg comm s amount p c hatol htol hcap hint hp hpz hb hcomm hP
    with h | h | ⟨q', h, hc⟩ | ⟨h, h1, h2⟩
  · exact ⟨none, h, fun q' hq => by cases hq⟩
  · exact ⟨_, h, fun q' hq => by cases hq; exact ⟨hfo _, Or.inl rfl⟩⟩
  · exact ⟨_, h, fun q'' hq => by cases hq; exact ⟨hfo _, Or.inr (Or.inl hc)⟩⟩
  · exact ⟨_, h, fun q'' hq => by cases hq; exact ⟨hfo _, Or.inr (Or.inr ⟨rfl, h1, h2⟩)⟩⟩

example : (∀ x : Rat, floorA x = ((⌊x⌋ : ℤ) : Rat)) ∧ (0 : Rat) ≤ cfgQ.atol ∧ (0 : Rat) < cfgQ.tol ∧
    1 ≤ cfgQ.iterCap ∧ isZero cfgQ.tol (100 : Rat) = false ∧
    (0 : Rat) < 100 * (mkSec true 1 (some 100) (-300) (-3) 0).mult ∧
    allocQuantity cfgQ (fun _ _ => 5) (mkSec true 1 (some 100) (-300) (-3) 0) (-1050)
      = .ok (some (-11)) :=
  ⟨rat_hfloor, by decide +kernel, by decide +kernel, by decide +kernel, by decide +kernel,
    by decide +kernel, by decide +kernel⟩

/-- Fractional positions never raise for per-unit costs: commission `k·|q|` (per-unit `k`, or
    proportional `r·price·mult`) plus half the spread, together `κ` per unit with `0 ≤ κ < price·mult`,
    and `(κ / (price·mult))^(iterCap+1) ≤ TOL` (with the live constants: any `κ` up to 99.6 % of the
    price). For every position and both signs of the amount `allocate` returns normally; a traded
    quantity has the sign of the amount unless it is the `-position` skip, and by
    `alloc_fractional_exact` its cost is the amount up to `np.isclose`.
    (For whole-unit positions the same statement is false: `witness_raise_*`.) -/
theorem alloc_fractional_no_raise_partial (cfg : Cfg K) (comm : K → K → K) (s : SecData K)
    (amount p bo k : K) (hatol : 0 ≤ cfg.atol) (htol : 0 < cfg.tol)
    (hint : s.integer = false) (hp : s.price = some p) (hpz : isZero cfg.tol p = false)
    (hb : s.bidoffer = some bo) (hcomm : ∀ q, comm q (p * s.mult) = k * |q|)
    (hP : 0 < p * s.mult) (hκ0 : 0 ≤ k + cfg.half * bo * s.mult)
    (hκ : k + cfg.half * bo * s.mult < p * s.mult)
    (hrate : ((k + cfg.half * bo * s.mult) / (p * s.mult)) ^ (cfg.iterCap + 1) ≤ cfg.tol) :
    allocQuantity cfg comm s amount = .ok none ∨
    allocQuantity cfg comm s amount = .ok (some (-s.position)) ∨
    ∃ q', allocQuantity cfg comm s amount = .ok (some q') ∧ q' ≠ 0 ∧ (0 < amount ↔ 0 < q') := by
  by_cases hz : isZero cfg.tol amount = true
  · left; exact alloc_zero_noop cfg comm s amount hz
  have hz : isZero cfg.tol amount = false := by simpa using hz
  by_cases hq : isZero cfg.tol (allocQ0 cfg s p amount) = true
  · left; exact allocQuantity_q0_zero cfg comm s amount p hz hp hpz hq
  have hq : isZero cfg.tol (allocQ0 cfg s p amount) = false := by simpa using hq
  by_cases he : allocQ0 cfg s p amount = -s.position
  · right; left; exact allocQuantity_skip cfg comm s amount p hz hp hpz hq he
  right; right
  have hA : amount ≠ 0 := by
    intro h0
    have : isZero cfg.tol amount = true := by rw [h0, isZero_iff, abs_zero]; exact htol
    rw [this] at hz; cases hz
  have hq0 : allocQ0 cfg s p amount = amount / (p * s.mult) := by
    by_cases hc : isZero cfg.tol (amount + s.value) = true
    · exfalso; apply he; unfold allocQ0; simp [hc]
    · unfold allocQ0; simp [hc, hint]
  have hf : ∀ q, fullOutF cfg comm s p bo q
      = q * (p * s.mult) + |q| * (k + cfg.half * bo * s.mult) := fun q => by
    unfold fullOutF; rw [hcomm, absA_eq_abs]; ring
  obtain ⟨q', hsign, hne, hl⟩ := sizeLoop_frac_perunit cfg (fullOutF cfg comm s p bo) (p * s.mult)
    (k + cfg.half * bo * s.mult) amount hatol hP hκ0 hκ hf hA hrate
  refine ⟨q', ?_, hne, hsign⟩
  rw [allocQuantity_loop cfg comm s amount p hz hp hpz hq he, hq0,
    fullOut_funext cfg comm s p bo hp hb, hint]
  simp only [Except.bind]
  rw [hl]; rfl

example : (∀ q : Rat, commPerShare 1 q (100 * (mkSec false 1 (some 100) 300 3 1).mult) = 1 * |q|) ∧
    ((1 + cfgQ.half * 1 * (mkSec false 1 (some 100) 300 3 1).mult)
      / (100 * (mkSec false 1 (some 100) 300 3 1).mult)) ^ (cfgQ.iterCap + 1) ≤ cfgQ.tol := by
  constructor
  · intro q; simp [commPerShare, absA_eq_abs]
  · have h : (1 + cfgQ.half * 1 * (mkSec false 1 (some 100) 300 3 1).mult)
        / (100 * (mkSec false 1 (some 100) 300 3 1).mult) = 3/200 := by norm_num [cfgQ, mkSec]
    have hc : cfgQ.iterCap + 1 = 10 + 9991 := rfl
    have ht : cfgQ.tol = 1/10^16 := rfl
    rw [h, hc, ht, pow_add]
    have h1 : ((3 : Rat)/200) ^ 10 ≤ 1/10^16 := by norm_num
    have h2 : ((3 : Rat)/200) ^ 9991 ≤ 1 := pow_le_one₀ (by norm_num) (by norm_num)
    calc ((3 : Rat)/200) ^ 10 * (3/200) ^ 9991 ≤ (1/10^16) * 1 :=
          mul_le_mul h1 h2 (by positivity) (by positivity)
      _ = 1/10^16 := mul_one _

/-! ### (7) counter-witnesses: where the current code does NOT satisfy the property
    (all on the model at `ℚ` with the live constants `cfgQ`; whole-unit positions, multiplier 1) -/

/-- (a) the `q == -position` skip, no costs at all: short 10 units at price 100, asked to spend 950.
    The short side rounds with `ceil`, `ceil(9.5) = 10 = -position`, so the budget search is skipped
    and 10 units costing 1000 are bought: 50 more than the amount. -/
theorem witness_skip_overspends :
    allocQuantity cfgQ commZero (mkSec true 1 (some 100) (-1000) (-10) 0) 950 = .ok (some 10) ∧
    fullOut cfgQ commZero (mkSec true 1 (some 100) (-1000) (-10) 0) 10 = .ok 1000 ∧
    ¬ ((1000 : Rat) ≤ 950 + (cfgQ.atol + cfgQ.tol * |950|)) := by
  refine ⟨by decide +kernel, by decide +kernel, by norm_num [cfgQ]⟩

/-- (a') the same skip on the long side needs a cost: long 10 units at 100, commission 1 per unit,
    asked to raise 999.5. `floor(-9.995) = -10 = -position`, the search is skipped, the sale raises
    only 990. -/
theorem witness_skip_underraises :
    allocQuantity cfgQ (commPerShare 1) (mkSec true 1 (some 100) 1000 10 0) (-1999/2)
      = .ok (some (-10)) ∧
    fullOut cfgQ (commPerShare 1) (mkSec true 1 (some 100) 1000 10 0) (-10) = .ok (-990) ∧
    ¬ ((-990 : Rat) ≤ -1999/2 + (cfgQ.atol + cfgQ.tol * |(-1999/2 : Rat)|)) := by
  refine ⟨by decide +kernel, by decide +kernel, by norm_num [cfgQ]⟩

/-- (b) a negative amount worth less than one unit on a flat or short whole-unit position: `ceil`
    rounds toward zero, `q = 0`, nothing is traded although the property asks to raise at least 50. -/
theorem witness_short_subunit_noop :
    allocQuantity cfgQ commZero (mkSec true 1 (some 100) 0 0 0) (-50) = .ok none ∧
    allocQuantity cfgQ commZero (mkSec true 1 (some 100) (-300) (-3) 0) (-50) = .ok none := by
  decide +kernel

/-- (c1) commission of 1 per unit at price 100 (1 % of the price), flat, amount 10100.6: the search
    raises "the difference … has gotten bigger" (it sizes 101, then 99; the answer is 100). -/
theorem witness_raise_diverged_per_share :
    allocQuantity cfgQ (commPerShare 1) (mkSec true 1 (some 100) 0 0 0) (101006/10)
      = .error Err.sizingDiverged := by
  decide +kernel

/-- (c2) proportional commission of 1 % of the traded value: same raise. -/
theorem witness_raise_diverged_proportional :
    allocQuantity cfgQ (commProp (1/100)) (mkSec true 1 (some 100) 0 0 0) (101006/10)
      = .error Err.sizingDiverged := by
  decide +kernel

/-- (c3) the commission quoted in the code's own comment, `max(1, 0.01·|q|)`, price 1, flat,
    amount 101.006: same raise. -/
theorem witness_raise_diverged_min_fee :
    allocQuantity cfgQ (commMinFee 1 (1/100)) (mkSec true 1 (some 1) 0 0 0) (101006/1000)
      = .error Err.sizingDiverged := by
  decide +kernel

/-- (c4) no commission, a bid/offer spread of 2 on a price of 100: same raise. -/
theorem witness_raise_diverged_spread :
    allocQuantity cfgQ commZero (mkSec true 1 (some 100) 0 0 2) (101006/10)
      = .error Err.sizingDiverged := by
  decide +kernel

/-- (c5) "search … is stuck": short 5 units at price 100, commission 1 per unit, asked to spend 0.5.
    (`ceil` gives 1, the correction gives `floor(-0.005) = -1` twice; the affordable answer is 0.) -/
theorem witness_raise_stuck_per_share :
    allocQuantity cfgQ (commPerShare 1) (mkSec true 1 (some 100) (-500) (-5) 0) (1/2)
      = .error Err.sizingStuck := by
  decide +kernel

/-- (c6) the same with a spread instead of a commission. -/
theorem witness_raise_stuck_spread :
    allocQuantity cfgQ commZero (mkSec true 1 (some 100) (-500) (-5) 2) (1/2)
      = .error Err.sizingStuck := by
  decide +kernel

/-- (d) why the general budget theorem carries `np.isclose`'s tolerance: commission 1e-9 per unit,
    amount 100 at price 100 buys 1 unit for 100.000000001 > 100 (accepted by the `isclose` exit). -/
theorem witness_isclose_overshoot :
    allocQuantity cfgQ (commPerShare (1/10^9)) (mkSec true 1 (some 100) 0 0 0) 100 = .ok (some 1) ∧
    fullOut cfgQ (commPerShare (1/10^9)) (mkSec true 1 (some 100) 0 0 0) 1
      = .ok (100 + 1/10^9) ∧ (100 : Rat) < 100 + 1/10^9 := by
  refine ⟨by decide +kernel, by decide +kernel, by norm_num⟩

end Bt.C05
