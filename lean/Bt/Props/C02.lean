import Bt.Proofs.Ledger
import Bt.Proofs.LedgerEx
import Mathlib.Tactic.NormNum
/-! C02 — value conservation / P&L attribution (property theorems only; `total`, `feeSum`, `boSum`,
    `Node.synced` and the helper lemmas live in `Bt.Proofs.Ledger`). -/
namespace Bt.C02
open Bt
set_option linter.unusedSectionVars false

variable {K : Type} [Field K] [LinearOrder K] [IsStrictOrderedRing K] [HasFloor K]

/-- `total`: cash of every strategy of the subtree plus `position · price · multiplier` of every security
    (nothing for a security without a price). -/
theorem total_def :
    (∀ (sd : StratData K) (kids : List (Node K)), total (.strat sd kids) = sd.capital + totalKids kids) ∧
    (∀ (k : Node K) (ks : List (Node K)), totalKids (k :: ks) = total k + totalKids ks) ∧
    totalKids ([] : List (Node K)) = 0 ∧
    (∀ (s : SecData K) (p : K), s.price = some p → total (.sec s) = s.position * p * s.mult) ∧
    (∀ (s : SecData K), s.price = none → total (.sec s) = 0) := by
  refine ⟨total_strat, totalKids_cons, totalKids_nil, ?_, ?_⟩
  · intro s p hp; rw [total_sec, secWorth, hp]
  · intro s hp; rw [total_sec, secWorth, hp]

example : total (.strat LEx.strat [.sec LEx.sec, .sec LEx.sec2]) = 1000 := by
  norm_num [total, nodeSum, kidsSum, secWorth, LEx.strat, LEx.sec, LEx.sec2]

/-- A trade, together with the adjustment it sends to the parent `sd`: security worth plus parent cash
    drops by exactly the commission and the spread (or custom-price difference) — buying or selling at the
    current price never changes total value except by those costs. -/
theorem transact_total (cfg : Cfg K) (comm : K → K → K) (s s' : SecData K) (q : K) (custom : Option K)
    (adj : Adj K) (sd : StratData K)
    (h : secTransactCore cfg comm s q custom = .ok (s', some adj)) :
    total (.sec s') + (sd.adjust adj).capital =
      total (.sec s) + sd.capital - adj.fee - (s'.bidofferPaid - s.bidofferPaid) := by
  obtain ⟨h1, _⟩ := secTransactCore_W h
  simp only [secW, adjNet, Option.toList, adjAmounts_cons, adjFees_cons, adjAmounts_nil, adjFees_nil] at h1
  simp only [total_sec, StratData.adjust]
  linear_combination h1

example : ∃ s' adj, secTransactCore LEx.cfg LEx.comm LEx.sec (-4) none = .ok (s', some adj) := by
  norm_num [secTransactCore, secOutlay, isZero, absA, LEx.cfg, LEx.sec, Except.bind, pure, Except.pure]

/-- `transact` on any node of a synced tree (a security, or a strategy that spreads the quantity over its
    children, at any depth): `total` drops by exactly the commissions booked (`Σ last_fee` increase) and the
    spread paid (`Σ bidoffer_paid` increase) anywhere in the tree. -/
theorem opTransact_total (cfg : Cfg K) (w w' : World K) (path : List Nat) (q : K) (update : Bool)
    (custom : Option K) (hs : w.root.synced none)
    (h : opTransact cfg w path q update custom = .ok w') :
    total w'.root + (feeSum w'.root - feeSum w.root) + (boSum w'.root - boSum w.root) = total w.root := by
  obtain ⟨key, _⟩ := opTransact_W cfg w w' path q update custom hs h
  rw [ledgerW_eq, ledgerW_eq] at key
  linear_combination key

example : ∃ w', (Node.strat LEx.strat [.sec LEx.sec2, .sec LEx.sec] : Node Rat).synced none ∧
    opTransact LEx.cfg { root := .strat LEx.strat [.sec LEx.sec2, .sec LEx.sec], stale := false } [1] 2 false none
    = .ok w' := by
  norm_num [opTransact, World.modify, modAt, secTransact, secRefresh, eqA, secUpdate, secBaseUpdate, secEarly, secTransactCore, secOutlay, isZero, absA,
    Node.synced, Node.syncedKids,
    LEx.cfg, LEx.sec, LEx.sec2, LEx.strat, LEx.comm, Except.bind, Except.map, bind, pure, Except.pure]

/-- `adjust(amount)` on any strategy of the tree (flow or not, any depth): `total` moves by exactly the
    amount — the only operation that creates or destroys value. -/
theorem adjust_total (w w' : World K) (path : List Nat) (amount : K) (update flow : Bool)
    (h : opAdjust w path amount update flow = .ok w') :
    total w'.root = total w.root + amount := by
  unfold opAdjust World.modify at h
  obtain ⟨⟨r, a, st⟩, h1, h2⟩ := Except.map_ok h
  subst h2
  have key := modAt_nodeSum secWorth (fun d => d.capital) (fun a => a.amount)
    (by intro sd a; rfl) (fun _ _ => True) (fun _ _ _ _ _ _ _ => trivial) _ amount
    (by
      intro par n n' adjs st _ hf
      cases n with
      | sec s => cases hf
      | strat sd kids =>
        simp only [pure, Except.pure, Except.ok.injEq, Prod.mk.injEq] at hf
        obtain ⟨rfl, rfl, _⟩ := hf
        simp only [nodeSum, List.map_nil, List.sum_nil, add_zero, StratData.adjust]
        ring)
    path none w.root r a st trivial h1
  have ha : a = [] := by
    cases path with
    | nil =>
      rw [modAt] at h1
      cases hr : w.root with
      | sec s => rw [hr] at h1; cases h1
      | strat sd kids =>
        rw [hr] at h1
        simp only [pure, Except.pure, Except.ok.injEq, Prod.mk.injEq] at h1
        exact h1.2.1.symm
    | cons i rest =>
      cases hr : w.root with
      | sec s => rw [hr, modAt] at h1; cases h1
      | strat sd kids =>
        rw [hr, modAt] at h1
        cases hk : kids[i]? with
        | none => simp [hk] at h1
        | some k =>
          simp only [hk] at h1
          obtain ⟨_, _, h4⟩ := Except.map_ok h1
          simp only [Prod.mk.injEq] at h4
          exact h4.2.1.symm
  subst ha
  simpa [total] using key

example : ∃ w', opAdjust { root := .strat LEx.strat [.strat LEx.sub [.sec LEx.sec2]], stale := false } [0] 25 true true
    = .ok w' := by
  simp [opAdjust, World.modify, modAt, Except.map, pure, Except.pure]

/-- `allocate(amount)` pushed into a node of a synced tree: once the adjustments handed to the parent are
    counted (for a sub-strategy: the single debit `−amount`), `total` changes only by the costs of the
    trades it causes — commissions (`Σ last_fee` increase) and spreads (`Σ bidoffer_paid` increase) over the
    whole subtree; moving capital between parent and sub-strategy is value-neutral. -/
theorem allocNode_total (cfg : Cfg K) (pn : Option Nat) (comm : K → K → K) (amount : K) (n n' : Node K)
    (adjs : List (Adj K)) (hs : n.synced pn)
    (h : allocNode cfg pn comm amount n = .ok (n', adjs)) :
    total n' + adjAmounts adjs + (feeSum n' + adjFees adjs - feeSum n) + (boSum n' - boSum n) = total n ∧
    n'.synced pn := by
  obtain ⟨e1, e2⟩ := allocNode_W cfg n pn comm amount n' adjs hs h
  refine ⟨?_, e2⟩
  rw [ledgerW_eq, ledgerW_eq, adjNet] at e1
  linear_combination e1

example : ∃ n' adjs, (Node.strat LEx.sub [.sec { LEx.sec with weight := 1 }] : Node Rat).synced (some 1) ∧
    allocNode LEx.cfg (some 1) LEx.comm (-300) (.strat LEx.sub [.sec { LEx.sec with weight := 1 }]) = .ok (n', adjs) := by
  norm_num [allocNode, allocKids, secAllocate, secRefresh, secUpdate, secBaseUpdate, secEarly, allocQuantity, allocQ0,
    eqA, secTransactCore, secOutlay, isZero, absA, Node.weight, StratData.adjust, Node.synced, Node.syncedKids,
    LEx.cfg, LEx.sec, LEx.sub, LEx.comm, Except.bind, Except.map, bind, pure, Except.pure]

/-- … for a sub-strategy the parent adjustment is `(−amount, fee 0)`: the sub-strategy's subtree gains the
    amount less the costs of its trades. -/
theorem allocNode_total_strat (cfg : Cfg K) (pn : Option Nat) (comm : K → K → K) (amount : K)
    (sd : StratData K) (kids : List (Node K)) (n' : Node K) (adjs : List (Adj K))
    (hs : (Node.strat sd kids).synced pn)
    (h : allocNode cfg pn comm amount (.strat sd kids) = .ok (n', adjs)) :
    total n' + (feeSum n' - feeSum (.strat sd kids)) + (boSum n' - boSum (.strat sd kids)) =
      total (.strat sd kids) + amount := by
  obtain ⟨e1, _⟩ := allocNode_total cfg pn comm amount _ n' adjs hs h
  have ha : adjs = [{ amount := -amount, fee := 0, flow := false }] := by
    rw [allocNode] at h
    obtain ⟨_, _, h2⟩ := Except.map_ok h
    simp only [Prod.mk.injEq] at h2
    exact h2.2.symm
  subst ha
  simp only [adjAmounts_cons, adjFees_cons, adjAmounts_nil, adjFees_nil] at e1
  linear_combination e1

example : ∃ n' adjs, (Node.strat LEx.sub [.sec { LEx.sec with weight := 1 }] : Node Rat).synced (some 1) ∧
    allocNode LEx.cfg (some 1) LEx.comm (-300) (.strat LEx.sub [.sec { LEx.sec with weight := 1 }]) = .ok (n', adjs) := by
  norm_num [allocNode, allocKids, secAllocate, secRefresh, secUpdate, secBaseUpdate, secEarly, allocQuantity, allocQ0,
    eqA, secTransactCore, secOutlay, isZero, absA, Node.weight, StratData.adjust, Node.synced, Node.syncedKids,
    LEx.cfg, LEx.sec, LEx.sub, LEx.comm, Except.bind, Except.map, bind, pure, Except.pure]

/-- zero-cost corollary: when no commission and no spread was booked, allocation is exactly value-neutral. -/
theorem allocNode_total_nocost (cfg : Cfg K) (pn : Option Nat) (comm : K → K → K) (amount : K)
    (sd : StratData K) (kids : List (Node K)) (n' : Node K) (adjs : List (Adj K))
    (hs : (Node.strat sd kids).synced pn)
    (h : allocNode cfg pn comm amount (.strat sd kids) = .ok (n', adjs))
    (hfee : feeSum n' = feeSum (.strat sd kids)) (hbo : boSum n' = boSum (.strat sd kids)) :
    total n' + adjAmounts adjs = total (.strat sd kids) := by
  obtain ⟨e1, _⟩ := allocNode_total cfg pn comm amount _ n' adjs hs h
  have ha : adjs = [{ amount := -amount, fee := 0, flow := false }] := by
    rw [allocNode] at h
    obtain ⟨_, _, h2⟩ := Except.map_ok h
    simp only [Prod.mk.injEq] at h2
    exact h2.2.symm
  subst ha
  simp only [adjAmounts_cons, adjFees_cons, adjAmounts_nil, adjFees_nil] at e1 ⊢
  linear_combination e1 - hfee - hbo

example : ∃ n' adjs,
    (Node.strat { LEx.sub with comm := fun _ _ => 0 } [.sec { LEx.sec with weight := 1, bidoffer := some 0 }] : Node Rat).synced (some 1) ∧
    allocNode LEx.cfg (some 1) LEx.comm (-300)
      (.strat { LEx.sub with comm := fun _ _ => 0 } [.sec { LEx.sec with weight := 1, bidoffer := some 0 }]) = .ok (n', adjs) ∧
    feeSum n' = feeSum (.strat { LEx.sub with comm := fun _ _ => 0 } [.sec { LEx.sec with weight := 1, bidoffer := some 0 }]) ∧
    boSum n' = boSum (.strat { LEx.sub with comm := fun _ _ => 0 } [.sec { LEx.sec with weight := 1, bidoffer := some 0 }]) := by
  norm_num [allocNode, allocKids, secAllocate, secRefresh, secUpdate, secBaseUpdate, secEarly, allocQuantity, allocQ0,
    eqA, secTransactCore, secOutlay, isZero, absA, Node.weight, StratData.adjust, Node.synced, Node.syncedKids,
    feeSum, boSum, nodeSum, kidsSum,
    LEx.cfg, LEx.sec, LEx.sub, Except.bind, Except.map, bind, pure, Except.pure]

/-- `allocate` as an operation on the world, on any node (security, sub-strategy or the root) at any depth
    of a synced tree: `total` of the whole tree drops by exactly the commissions and spreads booked; at the
    root the self-addressed debit and credit cancel, below it the parent's debit equals the child's credit —
    allocating never creates capital. -/
theorem opAllocate_total (cfg : Cfg K) (w w' : World K) (path : List Nat) (amount : K) (update : Bool)
    (hs : w.root.synced none)
    (h : opAllocate cfg w path amount update = .ok w') :
    total w'.root + (feeSum w'.root - feeSum w.root) + (boSum w'.root - boSum w.root) = total w.root := by
  obtain ⟨key, _⟩ := opAllocate_W cfg w w' path amount update hs h
  rw [ledgerW_eq, ledgerW_eq] at key
  linear_combination key

example : ∃ w', (Node.strat LEx.strat [.sec LEx.sec] : Node Rat).synced none ∧
    opAllocate LEx.cfg { root := .strat LEx.strat [.sec LEx.sec], stale := false } [] (-1000) false = .ok w' := by
  norm_num [opAllocate, World.modify, modAt, allocKids, allocNode, secAllocate, secRefresh, secUpdate, secBaseUpdate, secEarly, allocQuantity, allocQ0,
    eqA, secTransactCore, secOutlay, isZero, absA, Node.weight, StratData.adjust, Node.synced, Node.syncedKids,
    LEx.cfg, LEx.sec, LEx.strat, LEx.comm, Except.bind, Except.map, bind, pure, Except.pure]

/-- One-level form of `update_mtm` (children all securities), with the formula spelled out and the cash
    movement: the value computed is `capital + swept coupons + Σ position · price[d] · mult`; relative to
    `total` before the update the change is the mark-to-market `Σ position · (price[d] − price) · mult` plus
    the swept coupons less holding costs (`parkedKids`), and that swept amount is exactly what capital moves
    by.  (The general tree is `update_mtm` below.) -/
theorem update_mtm_one_level (cfg : Cfg K) (d : Nat) (sd : StratData K) (kids : List (Node K)) (n' : Node K)
    (hnew : sd.now ≠ some d) (hk : secKidsFresh d kids)
    (h : updNode cfg d (.strat sd kids) = .ok n') :
    ∃ sd' kids', n' = .strat sd' kids' ∧
      sd'.value = sd.capital + parkedKids kids + markKids d kids ∧
      sd'.value - total (.strat sd kids) = mtmKids d kids + parkedKids kids ∧
      sd'.capital = sd.capital + parkedKids kids ∧
      (sd.value = total (.strat sd kids) → sd'.value - sd.value = mtmKids d kids + parkedKids kids) := by
  obtain ⟨kids1, acc, sd3, hkids, hw, rfl⟩ := updNode_strat_ok h
  have hnp := stratDateChange_newpt_L d sd hnew
  obtain ⟨e1, _, _, _⟩ := stratDateChange_rows d sd
  have hc := updKids_coupons kids hkids
  have hv := updKids_val_fresh kids hk hkids
  simp only [zero_add, hnp, ↓reduceIte] at hc
  simp only [e1] at hv
  obtain ⟨c1, _, _, _, _, _⟩ := stratWrite_ledger hw
  have hval : sd3.value = acc.val + acc.coupons := by
    have hch : stratChanged cfg (stratDateChange d sd).2
        { (stratDateChange d sd).1 with capital := (stratDateChange d sd).1.capital + acc.coupons }
        (acc.val + acc.coupons) acc.notl = true := by
      simp [stratChanged, hnp]
    rcases stratWrite_ok hw with ⟨hc', _⟩ | ⟨_, ret, ⟨_, _, rfl⟩ | ⟨_, _, rfl⟩⟩
    · rw [hch] at hc'; cases hc'
    · exact (stratSetTotals_last d _ _ _ _).2.2.2.2.1
    · exact (stratSetTotals_last d _ _ _ _).2.2.2.2.1
  have hcap : (stratRows d sd3).capital = sd.capital + parkedKids kids := by
    rw [(stratRows_rows d sd3).1, c1]; simp only; rw [e1, hc]
  have hvalue : (stratRows d sd3).value = sd.capital + parkedKids kids + markKids d kids := by
    rw [stratRows_value_L, hval, hv, hc]; ring
  have hdiff : (stratRows d sd3).value - total (.strat sd kids) = mtmKids d kids + parkedKids kids := by
    rw [hvalue, total_strat, totalKids_secs d kids hk, ← markKids_sub_worthKids]; ring
  exact ⟨_, _, rfl, hvalue, hdiff, hcap, fun hbal => by rw [hbal]; exact hdiff⟩

example : ∃ n', LEx.strat.now ≠ some 2 ∧
    secKidsFresh 2 ([.sec LEx.sec, .sec LEx.sec2] : List (Node Rat)) ∧
    LEx.strat.value = total (.strat LEx.strat [.sec LEx.sec, .sec LEx.sec2]) ∧
    updNode LEx.cfg 2 (.strat LEx.strat [.sec LEx.sec, .sec LEx.sec2]) = .ok n' := by
  norm_num [updNode, updKids, stratDateChange, sweepSec, secUpdate, secBaseUpdate, secEarly, secDateChange,
    secRecordPos, secMarkValue, secSetValue, secQuiet, secFlushOutlay, secRowBidoffer, accAdd, cell, eqA,
    stratWrite, stratChanged, stratSetTotals, mvReturn, stratSetPrice, stratRows, kidsWeights,
    secKidsFresh, total, nodeSum, kidsSum, secWorth,
    isZero, absA, LEx.cfg, LEx.sec, LEx.sec2, LEx.strat, Except.bind, Except.map, bind, pure, Except.pure]

/-- `update_mtm` for a whole tree (any shape and depth): first update of a new date (`Node.fresh d`: no node is
    on `d` yet; skipped securities are exactly flat).  The value the strategy gets is its old `total` plus the
    mark-to-market `Σ position · (price[d] − price) · mult` over every security below it plus the cash parked
    on those securities (coupons less holding costs accrued at the last update of the earlier date, swept
    exactly once) — no other term.  In particular when the books were balanced (`value = total`, C01) the
    change in value between the two dates is MTM + swept coupons.
    (Hypothesis that cannot be dropped: a skipped security with `0 < |position| < TOL` is left out of the sum
    by the code, so the identity would be off by that sub-tolerance worth.) -/
theorem update_mtm (cfg : Cfg K) (d : Nat) (sd : StratData K) (kids : List (Node K)) (n' : Node K)
    (hf : (Node.strat sd kids).fresh d)
    (h : updNode cfg d (.strat sd kids) = .ok n') :
    n'.value = total (.strat sd kids) + mtmAll d (.strat sd kids) + parkedAll (.strat sd kids) ∧
    (sd.value = total (.strat sd kids) →
      n'.value - sd.value = mtmAll d (.strat sd kids) + parkedAll (.strat sd kids)) := by
  have hv := updNode_value cfg d _ n' hf h
  have ht := valNode_sub_total d (.strat sd kids)
  simp only [parkedOf, add_zero] at ht
  have h1 : n'.value = total (.strat sd kids) + mtmAll d (.strat sd kids) + parkedAll (.strat sd kids) := by
    rw [hv]; linear_combination ht
  exact ⟨h1, fun hb => by rw [hb, h1]; ring⟩

example : ∃ n', (Node.strat LEx.strat [.sec LEx.sec, .strat { LEx.sub with weight := 1/10 } [.sec LEx.sec2]] : Node Rat).fresh 2 ∧
    updNode LEx.cfg 2 (.strat LEx.strat [.sec LEx.sec, .strat { LEx.sub with weight := 1/10 } [.sec LEx.sec2]]) = .ok n' := by
  norm_num [updNode, updKids, stratDateChange, sweepSec, secUpdate, secBaseUpdate, secEarly, secDateChange,
    secRecordPos, secMarkValue, secSetValue, secQuiet, secFlushOutlay, secRowBidoffer, accAdd, cell, eqA,
    stratWrite, stratChanged, stratSetTotals, mvReturn, stratSetPrice, stratRows, kidsWeights,
    Node.fresh, Node.freshKids, Node.value, Node.notl, Node.bidofferPaid,
    isZero, absA, LEx.cfg, LEx.sec, LEx.sec2, LEx.strat, LEx.sub, Except.bind, Except.map, bind, pure, Except.pure]

/-- Any sequence of `adjust` / `allocate` / `transact` operations (on any nodes, any depth) applied to a synced
    tree: `total` at the end equals `total` at the start plus the capital injected by the `adjust`s, minus the
    commissions booked (`Σ last_fee` increase) and the bid/offer or custom-price costs paid
    (`Σ bidoffer_paid` increase) anywhere in the tree; the tree stays synced. -/
theorem ops_total (cfg : Cfg K) (ops : List (DayOp K)) (w w' : World K) (hs : w.root.synced none)
    (h : runDayOps cfg w ops = .ok w') :
    total w'.root + (feeSum w'.root - feeSum w.root) + (boSum w'.root - boSum w.root) =
      total w.root + injectedSum ops ∧ w'.root.synced none := by
  obtain ⟨key, hsy⟩ := runDayOps_W cfg ops w w' hs h
  refine ⟨?_, hsy⟩
  rw [ledgerW_eq, ledgerW_eq] at key
  linear_combination key

example : ∃ w', (Node.strat LEx.strat [.sec LEx.sec2, .sec LEx.sec] : Node Rat).synced none ∧
    runDayOps LEx.cfg { root := .strat LEx.strat [.sec LEx.sec2, .sec LEx.sec], stale := false }
      [.adjust [] 25 false true, .transact [1] 2 false none, .allocate [1] (-500) false] = .ok w' := by
  norm_num [runDayOps, DayOp.run, opAdjust, opTransact, opAllocate, World.modify, modAt, secTransact, secAllocate,
    secRefresh, secUpdate, secBaseUpdate, secEarly, secDateChange, secRecordPos, secMarkValue, secSetValue, secQuiet,
    secFlushOutlay, secRowBidoffer, allocQuantity, allocQ0, eqA, secTransactCore, secOutlay, isZero,
    absA, Node.synced, Node.syncedKids, StratData.adjust,
    LEx.cfg, LEx.sec, LEx.sec2, LEx.strat, LEx.comm, Except.bind, Except.map, bind, pure, Except.pure]

/-- PARTIAL (`pnl_attribution`): one date of a history.  `root0` is the tree at the close of the earlier date,
    `root1` the tree after the first update of the later date `d`, `ops` the day's operations, `w2` the world
    they lead to and `vEnd` the value the closing update records.  Granted the balance-sheet identity (C01)
    at the three observation points — `value = total` at the earlier close, after the opening update, and for
    the closing value — the change in the root's value is exactly
    MTM on the positions held at the earlier close + coupons less holding costs parked at the earlier date
    + capital injected by `adjust` (flows and non-flow adjustments) − commissions − bid/offer costs of the day.
    Missing for the unconditional statement: C01 itself (proved separately), that the opening update leaves
    the tree synced (true when no security is skipped), and the closing update / `flatten`-`close`-`rebalance`
    compositions as operations of the day. -/
theorem pnl_attribution_partial (cfg : Cfg K) (d : Nat) (sd : StratData K) (kids : List (Node K))
    (root1 : Node K) (stale : Bool) (ops : List (DayOp K)) (w2 : World K) (vEnd : K)
    (hfresh : (Node.strat sd kids).fresh d)
    (hupd : updNode cfg d (.strat sd kids) = .ok root1)
    (hsync : root1.synced none)
    (hops : runDayOps cfg { root := root1, stale := stale } ops = .ok w2)
    (hbal0 : sd.value = total (.strat sd kids))
    (hbal1 : root1.value = total root1)
    (hbal2 : vEnd = total w2.root) :
    vEnd - sd.value =
      mtmAll d (.strat sd kids) + parkedAll (.strat sd kids) + injectedSum ops
        - (feeSum w2.root - feeSum root1) - (boSum w2.root - boSum root1) := by
  obtain ⟨h1, _⟩ := update_mtm cfg d sd kids root1 hfresh hupd
  obtain ⟨h2, _⟩ := ops_total cfg ops { root := root1, stale := stale } w2 hsync hops
  simp only at h2
  rw [hbal2, hbal0]
  rw [hbal1] at h1
  linear_combination h2 + h1

example : ∃ root1 w2, updNode LEx.cfg 2 (.strat LEx.strat [.sec LEx.sec]) = .ok root1 ∧
    runDayOps LEx.cfg { root := root1, stale := false } [.adjust [] 25 false true, .transact [0] 2 false none] = .ok w2 ∧
    (Node.strat LEx.strat [.sec LEx.sec] : Node Rat).fresh 2 ∧ root1.synced none ∧
    LEx.strat.value = total (.strat LEx.strat [.sec LEx.sec]) ∧ root1.value = total root1 := by
  norm_num [updNode, updKids, stratDateChange, sweepSec, accAdd, cell, stratWrite, stratChanged, stratSetTotals,
    mvReturn, stratSetPrice, stratRows, kidsWeights, childWeight, Node.skipped, Node.setWeight,
    Node.fresh, Node.freshKids, Node.value, Node.notl, Node.bidofferPaid, total, nodeSum, kidsSum, secWorth,
    runDayOps, DayOp.run, opAdjust, opTransact, World.modify, modAt, secTransact,
    secRefresh, secUpdate, secBaseUpdate, secEarly, secDateChange, secRecordPos, secMarkValue, secSetValue, secQuiet,
    secFlushOutlay, secRowBidoffer, eqA, secTransactCore, secOutlay, isZero,
    absA, Node.synced, Node.syncedKids, StratData.adjust,
    LEx.cfg, LEx.sec, LEx.strat, LEx.comm, Except.bind, Except.map, bind, pure, Except.pure]

end Bt.C02
