import Bt.Algos.Renorm
import Bt.Props.C17
/-! C17 fragment — `RenormalizedFixedIncomeResult._price` (the "renormalised result" anchor of the property): the price series
    it hands out is PAR on the first row and moves additively by `PAR × (change in value net of flows) / v`; in closed form it
    is `PAR × (1 + (value_t − value_0 − flows_1 − … − flows_t) / v)`; it is flow-neutral (an amount booked as a flow on a date
    and carried in the value from that date on leaves every row unchanged); and it coincides, row for row, with the additive
    index the engine records (`fi_index_additive`) whenever the engine measured every date's return on the base `v` - so
    renormalising by a notional the strategy actually held throughout reproduces the strategy's own index.  Lists of any length. -/
set_option linter.unusedSectionVars false
set_option linter.unusedVariables false
namespace Bt.C17
open Bt Bt.Renorm

variable {K : Type} [Field K]

/-! ### shape -/

theorem netReturns_length : ∀ (values flows : List K), flows.length = values.length →
    (netReturns values flows).length = values.length - 1
  | [], _, _ => rfl
  | [_], [], _ => rfl
  | [_], _ :: _, _ => rfl
  | _ :: _ :: _, [], h => by simp at h
  | _ :: _ :: _, [_], h => by simp at h
  | _ :: v1 :: vs, _ :: f1 :: fs, h => by
    have := netReturns_length (v1 :: vs) (f1 :: fs) (by simpa using h)
    simp only [netReturns, List.length_cons] at this ⊢
    omega

theorem cumFrom_length (acc : K) (l : List K) : (cumFrom acc l).length = l.length := by
  induction l generalizing acc with
  | nil => rfl
  | cons x xs ih => simp [cumFrom, ih]

/-- one row per date -/
theorem renorm_length (par v : K) (values flows : List K) (h : flows.length = values.length) :
    (renormPrices par v values flows).length = values.length := by
  cases values with
  | nil => rfl
  | cons x xs =>
    simp only [renormPrices, cumReturns, List.length_cons, List.length_map, cumFrom_length,
      netReturns_length (x :: xs) flows h]
    simp

/-- the first row (the synthetic pre-start date) is PAR -/
theorem renorm_first (par v x : K) (xs flows : List K) :
    (renormPrices par v (x :: xs) flows)[0]? = some par := rfl

/-! ### additive moves -/

/-- the tail of the series, continued from a running total `c` -/
def tailFrom (par v c : K) (values flows : List K) : List K :=
  (cumFrom c ((netReturns values flows).map (fun r => r / v))).map (fun x => par * (1 + x))

theorem tailFrom_cons (par v c v0 v1 f0 f1 : K) (vs fs : List K) :
    tailFrom par v c (v0 :: v1 :: vs) (f0 :: f1 :: fs) =
      (par * (1 + (c + ((v1 - v0) - f1) / v))) :: tailFrom par v (c + ((v1 - v0) - f1) / v) (v1 :: vs) (f1 :: fs) := rfl

/-- Consecutive rows differ by `PAR × ((value' − value) − flows') / v`: the index "moves additively by PAR × (change in value
    net of flows) / notional" with the normalising value as the notional.  Stated on the running form: from any running total. -/
theorem renorm_step (par v c v0 v1 f0 f1 : K) (vs fs : List K) :
    (tailFrom par v c (v0 :: v1 :: vs) (f0 :: f1 :: fs))[0]? =
      some (par * (1 + c) + par * ((v1 - v0) - f1) / v) := by
  rw [tailFrom_cons]
  simp only [List.getElem?_cons_zero, Option.some.injEq]
  ring

theorem renorm_eq_tailFrom (par v x : K) (xs flows : List K) :
    renormPrices par v (x :: xs) flows = par :: tailFrom par v 0 (x :: xs) flows := rfl

/-- second row: PAR plus the first date's move -/
theorem renorm_second (par v v0 v1 f0 f1 : K) (vs fs : List K) :
    (renormPrices par v (v0 :: v1 :: vs) (f0 :: f1 :: fs))[1]? = some (par + par * ((v1 - v0) - f1) / v) := by
  rw [renorm_eq_tailFrom]
  show (tailFrom par v 0 (v0 :: v1 :: vs) (f0 :: f1 :: fs))[0]? = _
  rw [renorm_step]; simp

/-! ### the engine's additive index on a constant base is the renormalised series -/

theorem additiveFrom_const (par v c : K) : ∀ (values flows : List K),
    additiveFrom par (par * (1 + c)) values flows (List.replicate (values.length - 1) v) = tailFrom par v c values flows
  | [], _ => by cases ‹List K› <;> rfl
  | [_], fl => by cases fl with
    | nil => rfl
    | cons _ t => cases t <;> rfl
  | _ :: _ :: _, [] => rfl
  | _ :: _ :: _, [_] => rfl
  | v0 :: v1 :: vs, f0 :: f1 :: fs => by
    have ih := additiveFrom_const par v (c + ((v1 - v0) - f1) / v) (v1 :: vs) (f1 :: fs)
    have hl : (v0 :: v1 :: vs).length - 1 = ((v1 :: vs).length - 1) + 1 := by simp
    rw [hl, List.replicate_succ, tailFrom_cons]
    simp only [additiveFrom]
    have e : par * (1 + c) + (v1 - (v0 + f1)) / v * par = par * (1 + (c + ((v1 - v0) - f1) / v)) := by ring
    rw [e, ih]

/-- If the engine measured every date's return on the base `v` (the notional the strategy held on every previous date), the
    index it recorded IS the renormalised series for `v`: no hypothesis on `v`, the values or the flows. -/
theorem renorm_eq_additive_index (par v : K) (values flows : List K) :
    additiveIndex par values flows (List.replicate (values.length - 1) v) = renormPrices par v values flows := by
  cases values with
  | nil => rfl
  | cons x xs =>
    rw [renorm_eq_tailFrom]
    show par :: additiveFrom par par (x :: xs) flows _ = _
    have := additiveFrom_const par v 0 (x :: xs) flows
    rw [add_zero, mul_one] at this
    rw [this]

section Engine
variable {K : Type} [Field K] [LinearOrder K] [IsStrictOrderedRing K] [HasFloor K]

/-- The step of `additiveFrom` is the engine's write: for a fixed-income strategy whose last notional is not negligible,
    `StrategyBase.update` records `last price + (value − (last value + net flows)) / last notional × PAR` - the head of
    `additiveFrom` started at the last price, on the rows (last value, value), (·, net flows), base = last notional. -/
theorem engine_write_is_additive_step (cfg : Cfg K) (d : Nat) (newpt : Bool) (sd : StratData K) (val notl bo : K)
    (hfi : sd.fixedIncome = true) (hch : stratChanged cfg newpt sd val notl = true)
    (hz : isZero cfg.tol sd.lastNotl = false) :
    ∃ sd', stratWrite cfg d newpt sd val notl bo = .ok sd' ∧
      (additiveFrom cfg.par sd.lastPrice [sd.lastValue, val] [0, sd.netFlows] [sd.lastNotl])[0]? = some sd'.price := by
  obtain ⟨h1, _, _, _, h5⟩ := fi_index_additive cfg d newpt sd val notl bo hfi hch
  refine ⟨_, h1 hz, ?_⟩
  rw [(h5 _).1]
  rfl

end Engine

/-! ### closed form and flow neutrality -/

/-- sum of the net returns: telescopes to `last value − first value − (flows of rows 1..)` -/
theorem sum_netReturns : ∀ (v0 : K) (vs : List K) (f0 : K) (fs : List K), fs.length = vs.length →
    (netReturns (v0 :: vs) (f0 :: fs)).sum = (v0 :: vs).getLast (List.cons_ne_nil _ _) - v0 - fs.sum
  | v0, [], f0, [], _ => by simp [netReturns]
  | _, [], _, _ :: _, h => by simp at h
  | _, _ :: _, _, [], h => by simp at h
  | v0, v1 :: vs, f0, f1 :: fs, h => by
    have ih := sum_netReturns v1 vs f1 fs (by simpa using h)
    simp only [netReturns, List.sum_cons, ih]
    rw [List.getLast_cons (List.cons_ne_nil _ _)]
    ring

theorem cumFrom_getLast (acc : K) : ∀ (l : List K) (h : cumFrom acc l ≠ []),
    (cumFrom acc l).getLast h = acc + l.sum
  | [], h => absurd rfl h
  | [x], _ => by simp [cumFrom]
  | x :: y :: ys, _ => by
    have ih := cumFrom_getLast (acc + x) (y :: ys) (by simp [cumFrom])
    simp only [cumFrom] at ih ⊢
    rw [List.getLast_cons (by simp)]
    rw [ih]; simp only [List.sum_cons]; ring

theorem sum_map_div (v : K) (l : List K) : (l.map (fun r => r / v)).sum = l.sum / v := by
  induction l with
  | nil => simp
  | cons x xs ih => simp only [List.map_cons, List.sum_cons, ih]; ring

/-- Closed form of the last row (apply it to a prefix of the run for any earlier row): with at least two dates,
    `PAR × (1 + (value_T − value_0 − Σ_{s ≥ 1} flows_s) / v)`. -/
theorem renorm_last (par v v0 v1 f0 f1 : K) (vs fs : List K) (h : fs.length = vs.length) :
    (renormPrices par v (v0 :: v1 :: vs) (f0 :: f1 :: fs)).getLast (by simp [renormPrices]) =
      par * (1 + ((v0 :: v1 :: vs).getLast (List.cons_ne_nil _ _) - v0 - (f1 :: fs).sum) / v) := by
  have hne : cumReturns v (v0 :: v1 :: vs) (f0 :: f1 :: fs) ≠ [] := by simp [cumReturns, netReturns, cumFrom]
  have : renormPrices par v (v0 :: v1 :: vs) (f0 :: f1 :: fs) =
      par :: (cumReturns v (v0 :: v1 :: vs) (f0 :: f1 :: fs)).map (fun c => par * (1 + c)) := rfl
  simp only [this]
  rw [List.getLast_cons (by simpa using hne), List.getLast_map (by simpa using hne)]
  unfold cumReturns
  rw [cumFrom_getLast, sum_map_div, sum_netReturns v0 (v1 :: vs) f0 (f1 :: fs) (by simpa using h), zero_add]

/-- Flow neutrality, row by row: the net return of a date does not change when an amount `a` is booked as a flow on that date
    and is carried in the value from that date on (`value` and every later value are `a` higher, `flows` of the date is `a`
    higher) - whatever happened before. -/
theorem netReturn_flow_neutral (a v0 v1 f1 : K) : ((v1 + a) - v0) - (f1 + a) = (v1 - v0) - f1 := by ring

/-- ... and on later dates (both values carry the amount, the flows row is untouched) -/
theorem netReturn_carry_neutral (a v0 v1 f1 : K) : ((v1 + a) - (v0 + a)) - f1 = (v1 - v0) - f1 := by ring

/-- values from row `s` on raised by `a` -/
def raiseFrom (a : K) : Nat → List K → List K
  | _, [] => []
  | 0, x :: xs => (x + a) :: raiseFrom a 0 xs
  | s + 1, x :: xs => x :: raiseFrom a s xs

/-- the flows row `s` raised by `a` -/
def raiseAt (a : K) : Nat → List K → List K
  | _, [] => []
  | 0, x :: xs => (x + a) :: xs
  | s + 1, x :: xs => x :: raiseAt a s xs

theorem raiseFrom_zero_cons (a x : K) (xs : List K) : raiseFrom a 0 (x :: xs) = (x + a) :: raiseFrom a 0 xs := rfl

/-- once the injection is in both values of every pair, the returns are those of the original run -/
theorem netReturns_carry (a : K) : ∀ (values flows : List K),
    netReturns (raiseFrom a 0 values) flows = netReturns values flows
  | [], _ => rfl
  | [_], fl => by cases fl with
    | nil => rfl
    | cons _ t => cases t <;> rfl
  | _ :: _ :: _, [] => rfl
  | _ :: _ :: _, [_] => rfl
  | v0 :: v1 :: vs, f0 :: f1 :: fs => by
    have ih := netReturns_carry a (v1 :: vs) (f1 :: fs)
    simp only [raiseFrom_zero_cons] at ih ⊢
    simp only [netReturns]
    rw [netReturn_carry_neutral]
    congr 1

/-- Flow neutrality of the whole series: an external flow of `a` on row `s ≥ 1` (recorded in the flows row `s`, carried by the
    value from row `s` on) leaves every net return - hence every row of the renormalised series - unchanged. -/
theorem netReturns_flow_neutral (a : K) : ∀ (s : Nat) (values flows : List K), 1 ≤ s →
    netReturns (raiseFrom a s values) (raiseAt a s flows) = netReturns values flows
  | 0, _, _, h => by omega
  | _ + 1, [], fl, _ => by cases fl <;> rfl
  | _ + 1, [_], fl, _ => by
    cases fl with
    | nil => rfl
    | cons _ t => cases t <;> rfl
  | s + 1, _ :: _ :: _, [], _ => by cases s <;> rfl
  | s + 1, v0 :: v1 :: vs, [f0], _ => by cases s <;> rfl
  | 1, v0 :: v1 :: vs, f0 :: f1 :: fs, _ => by
    show netReturns (v0 :: raiseFrom a 0 (v1 :: vs)) (f0 :: raiseAt a 0 (f1 :: fs)) = _
    have hc := netReturns_carry a (v1 :: vs) (f1 :: fs)
    simp only [raiseFrom_zero_cons, raiseAt, netReturns] at hc ⊢
    rw [netReturn_flow_neutral]
    congr 1
    cases vs with
    | nil => cases fs <;> rfl
    | cons v2 vs' =>
      cases fs with
      | nil => rfl
      | cons f2 fs' =>
        simp only [raiseFrom_zero_cons, netReturns] at hc ⊢
        exact hc
  | s + 2, v0 :: v1 :: vs, f0 :: f1 :: fs, _ => by
    have ih := netReturns_flow_neutral a (s + 1) (v1 :: vs) (f1 :: fs) (by omega)
    show netReturns (v0 :: raiseFrom a (s + 1) (v1 :: vs)) (f0 :: raiseAt a (s + 1) (f1 :: fs)) = _
    simp only [raiseFrom, raiseAt] at ih ⊢
    simp only [netReturns]
    congr 1

theorem renorm_flow_neutral (par v a : K) (s : Nat) (hs : 1 ≤ s) (values flows : List K) :
    renormPrices par v (raiseFrom a s values) (raiseAt a s flows) = renormPrices par v values flows := by
  cases values with
  | nil => cases s <;> rfl
  | cons x xs =>
    obtain ⟨s', rfl⟩ : ∃ s', s = s' + 1 := ⟨s - 1, by omega⟩
    have h := netReturns_flow_neutral a (s' + 1) (x :: xs) flows hs
    show renormPrices par v (x :: raiseFrom a s' xs) (raiseAt a (s' + 1) flows) = _
    have h' : netReturns (x :: raiseFrom a s' xs) (raiseAt a (s' + 1) flows) = netReturns (x :: xs) flows := h
    simp only [renormPrices, cumReturns, h']

/-! ### the normalising value as a series -/

section Series
variable {K : Type} [Field K] [LinearOrder K]

theorem ofNum_some (x : K) : Renorm.ofNum x = some x := by simp [Renorm.ofNum]

theorem cumFromO_some (acc : K) (l : List K) : cumFromO acc (l.map some) = (cumFrom acc l).map some := by
  induction l generalizing acc with
  | nil => rfl
  | cons x xs ih => simp [cumFromO, cumFrom, ih]

theorem scaled_some : ∀ (rs bs : List K), scaled rs (bs.map some) = (List.zipWith (fun r b => r / b) rs bs).map some
  | [], _ => by cases ‹List K› <;> rfl
  | _ :: _, [] => rfl
  | r :: rs, b :: bs => by simp [scaled, ofNum_some, scaled_some rs bs]

theorem scaled_const (v : K) : ∀ (rs : List K) (n : Nat), rs.length ≤ n →
    scaled rs (List.replicate n (some v)) = (rs.map fun r => r / v).map some
  | [], n, _ => by cases n <;> rfl
  | _ :: _, 0, h => by simp at h
  | r :: rs, n + 1, h => by
    simp only [List.replicate_succ, scaled, Option.bind_some, ofNum_some, List.map_cons]
    rw [scaled_const v rs n (by simpa using h)]

/-- the engine's additive recursion, from a running total, on ANY list of bases -/
theorem additiveFrom_bases (par c : K) : ∀ (values flows bases : List K),
    additiveFrom par (par * (1 + c)) values flows bases =
      (cumFrom c (List.zipWith (fun r b => r / b) (netReturns values flows) bases)).map (fun x => par * (1 + x))
  | [], _, _ => by simp [additiveFrom, netReturns, cumFrom]
  | [_], fl, _ => by
    cases fl with
    | nil => simp [additiveFrom, netReturns, cumFrom]
    | cons _ t => cases t <;> simp [additiveFrom, netReturns, cumFrom]
  | _ :: _ :: _, [], _ => by simp [additiveFrom, netReturns, cumFrom]
  | _ :: _ :: _, [_], _ => by simp [additiveFrom, netReturns, cumFrom]
  | _ :: _ :: _, _ :: _ :: _, [] => by simp [additiveFrom, cumFrom]
  | v0 :: v1 :: vs, f0 :: f1 :: fs, b :: bs => by
    have ih := additiveFrom_bases par (c + ((v1 - v0) - f1) / b) (v1 :: vs) (f1 :: fs) bs
    have e : par * (1 + c) + (v1 - (v0 + f1)) / b * par = par * (1 + (c + ((v1 - v0) - f1) / b)) := by ring
    simp only [additiveFrom, netReturns, List.zipWith_cons_cons, cumFrom, List.map_cons]
    rw [e, ih]

/-- **Renormalising by the bases the engine used reproduces the strategy's own index**: for every list of bases (the previous
    date's notional, or the date's own when that was negligible - whatever `fi_index_additive` divided by), the additive index is
    the series `RenormalizedFixedIncomeResult` computes for the normaliser whose rows 1.. are those bases (row 0 is never used).
    No hypothesis on lengths, values, flows or bases. -/
theorem renormS_eq_additive_index (par : K) (cell0 : Option K) (values flows bases : List K) :
    renormPricesS par (cell0 :: bases.map some) values flows = (additiveIndex par values flows bases).map some := by
  cases values with
  | nil => rfl
  | cons x xs =>
    have h := additiveFrom_bases par 0 (x :: xs) flows bases
    rw [add_zero, mul_one] at h
    simp only [renormPricesS, additiveIndex, List.tail_cons, scaled_some, cumFromO_some, List.map_cons, List.map_map, h]
    congr 1

/-- the scalar normaliser is the constant series: on an ordered field the pandas-faithful series model (what the driver runs) gives
    exactly the rows of `renormPrices`, none of them missing -/
theorem renormPricesS_const (par v : K) (values flows : List K) (h : flows.length = values.length) :
    renormPricesS par (List.replicate values.length (some v)) values flows = (renormPrices par v values flows).map some := by
  cases values with
  | nil => rfl
  | cons x xs =>
    have hl : (netReturns (x :: xs) flows).length ≤ xs.length := by
      rw [netReturns_length (x :: xs) flows h]; simp
    simp only [renormPricesS, renormPrices, cumReturns, List.length_cons, List.replicate_succ, List.tail_cons,
      scaled_const v _ _ hl, List.map_cons]
    rw [cumFromO_some]
    simp only [List.map_map]
    congr 1

/-- a missing normaliser cell: that row is missing, the running total carries on (pandas' skipna `cumsum`) -/
example : renormPricesS (100 : Rat) [none, some 1000, none, some 1000] [1000, 1010, 1030, 1040] [1000, 0, 0, 0] =
    [some 100, some 101, none, some 102] := by decide +kernel

example : renormPricesS (100 : Rat) [none, some 1000, some 2000] [1000, 1520, 1515] [1000, 500, 0] =
    (additiveIndex (100 : Rat) [1000, 1520, 1515] [1000, 500, 0] [1000, 2000]).map some := by decide +kernel

end Series

/-! ### non-vacuity: a three-date run over Q -/

-- value 1000 (start), a flow of 500 on date 1 with a P&L of 20, then a P&L of -5; v = 1000, PAR = 100
example : renormPrices (100 : Rat) 1000 [1000, 1520, 1515] [1000, 500, 0] = [100, 102, 203/2] ∧
    additiveIndex (100 : Rat) [1000, 1520, 1515] [1000, 500, 0] [1000, 1000] = [100, 102, 203/2] ∧
    renormPrices (100 : Rat) 1000 (raiseFrom 250 2 [1000, 1520, 1515]) (raiseAt 250 2 [1000, 500, 0]) = [100, 102, 203/2] := by
  decide +kernel

/-- a base that differs from `v` on some date gives a different index: the hypothesis of `renorm_eq_additive_index` matters -/
example : additiveIndex (100 : Rat) [1000, 1520, 1515] [1000, 500, 0] [1000, 2000] ≠
    renormPrices (100 : Rat) 1000 [1000, 1520, 1515] [1000, 500, 0] := by decide +kernel

end Bt.C17
