import Bt.Algos.Blotter
import Bt.Algos.Report
import Mathlib.Order.Basic
import Mathlib.Data.List.Basic
/-! C04 for blotter-driven programs (`ReplayTransactions`, `SimulateRFQTransactions`): the rows executed by the call at a date are a
    function of the rows stamped up to that date only - whatever the order of the frame - every row is executed by exactly one
    call, in frame order; a whole replay up to a date does not depend on rows stamped later. -/
set_option linter.unusedSectionVars false
set_option linter.unusedVariables false
set_option linter.unusedSimpArgs false
namespace Bt.C04
open Bt Bt.Blotter

/-- a picked row is stamped no later than the date of the call -/
theorem inWindow_le {tl : List Int} {i : Nat} {s now : Int} (hn : tl[i]? = some now) (h : inWindow tl i s = true) : s ≤ now := by
  unfold inWindow at h
  rw [hn] at h
  simp only [Bool.and_eq_true, decide_eq_true_eq] at h
  exact h.1

/-- **No look-ahead.**  Two blotters that agree on the rows stamped up to `cut` (same rows, same order - the rows stamped later
    may differ in any way: other quantities, other prices, dropped, added, anywhere in the frame) hand the same rows, in the same
    order, to every call dated up to `cut`. -/
theorem select_causal {β : Type} (tl : List Int) (i : Nat) (now cut : Int) (hn : tl[i]? = some now) (hc : now ≤ cut)
    (rows rows' : List (Int × β))
    (h : rows.filter (fun r => decide (r.1 ≤ cut)) = rows'.filter (fun r => decide (r.1 ≤ cut))) :
    select tl i rows = select tl i rows' := by
  have key : ∀ l : List (Int × β), select tl i l = select tl i (l.filter (fun r => decide (r.1 ≤ cut))) := by
    intro l
    unfold select
    rw [List.filter_filter]
    apply List.filter_congr
    intro r _
    by_cases hw : inWindow tl i r.1 = true
    · have := inWindow_le hn hw
      have h2 : r.1 ≤ cut := by omega
      simp [hw, h2]
    · simp [hw]
  rw [key rows, key rows', h]

/-- the rows of a call come in the frame's own order (a sub-list of the frame) -/
theorem select_sublist {β : Type} (tl : List Int) (i : Nat) (rows : List (Int × β)) : (select tl i rows).Sublist rows :=
  List.filter_sublist

/-- the frame's order does not matter for *which* rows are picked: a permuted frame gives a permutation of the same rows -/
theorem select_perm {β : Type} (tl : List Int) (i : Nat) (rows rows' : List (Int × β)) (h : rows.Perm rows') :
    (select tl i rows).Perm (select tl i rows') :=
  h.filter _

/-- on an increasing timeline no row is picked by two different calls -/
theorem window_disjoint (tl : List Int) (hs : tl.Pairwise (· < ·)) (i j : Nat) (hij : i < j) (s : Int)
    (hi : inWindow tl i s = true) : inWindow tl j s = false := by
  unfold inWindow at hi ⊢
  cases hti : tl[i]? with
  | none => simp [hti] at hi
  | some a =>
    rw [hti] at hi
    simp only [Bool.and_eq_true, decide_eq_true_eq] at hi
    have hsa : s ≤ a := hi.1
    cases htj : tl[j]? with
    | none => rfl
    | some b =>
      obtain ⟨j', rfl⟩ : ∃ j', j = j' + 1 := ⟨j - 1, by omega⟩
      have hj'lt : j' < tl.length := by
        have := (List.getElem?_eq_some_iff.mp htj).1; omega
      have hilt : i < tl.length := (List.getElem?_eq_some_iff.mp hti).1
      have hpj : tl[j']? = some tl[j'] := List.getElem?_eq_getElem hj'lt
      have hai : a = tl[i] := by
        have := List.getElem?_eq_getElem hilt; rw [this] at hti; exact (Option.some.inj hti).symm
      have hle : a ≤ tl[j'] := by
        rcases Nat.lt_or_ge i j' with hlt | hge
        · have := List.pairwise_iff_getElem.mp hs i j' hilt hj'lt hlt
          omega
        · have : i = j' := by omega
          subst this; omega
      have hno : ¬ (tl[j'] < s) := by omega
      simp [hpj, hno]

/-- every row stamped no later than some date of the timeline is picked by some call (hence, on an increasing timeline and with
    `window_disjoint`, by exactly one): nothing dated inside the run is lost or executed twice -/
theorem window_covers (tl : List Int) (s : Int) (h : ∃ x ∈ tl, s ≤ x) : ∃ i, inWindow tl i s = true := by
  induction tl with
  | nil => simp at h
  | cons a rest ih =>
    by_cases hsa : s ≤ a
    · exact ⟨0, by simp [inWindow, hsa]⟩
    · have hrest : ∃ x ∈ rest, s ≤ x := by
        obtain ⟨x, hx, hsx⟩ := h
        rcases List.mem_cons.mp hx with rfl | hx'
        · exact absurd hsx hsa
        · exact ⟨x, hx', hsx⟩
      obtain ⟨i, hi⟩ := ih hrest
      refine ⟨i + 1, ?_⟩
      unfold inWindow at hi ⊢
      simp only [List.getElem?_cons_succ]
      cases hri : rest[i]? with
      | none => simp [hri] at hi
      | some now =>
        rw [hri] at hi
        simp only [Bool.and_eq_true, decide_eq_true_eq] at hi
        cases i with
        | zero =>
          have : a < s := by omega
          simp [hi.1, this]
        | succ k =>
          simp only [List.getElem?_cons_succ]
          simpa [hi.1] using hi.2

/-- in particular every row stamped up to the last date of the run -/
theorem window_covers_last (tl : List Int) (s last : Int) (hl : tl.getLast? = some last) (hs : s ≤ last) :
    ∃ i, inWindow tl i s = true :=
  window_covers tl s ⟨last, List.mem_of_getLast? hl, hs⟩

/-- positions and rows agree: `selectIdx` (what the driver prints) lists as many positions as `select` returns rows -/
theorem selectIdx_length (tl : List Int) (i : Nat) (stamps : List Int) :
    (selectIdx tl i stamps).length = (stamps.filter (inWindow tl i)).length := by
  unfold selectIdx
  have : ∀ (idx : List Nat), idx.length = stamps.length →
      ((idx.zip stamps).filterMap fun p => if inWindow tl i p.2 then some p.1 else none).length =
        (stamps.filter (inWindow tl i)).length := by
    induction stamps with
    | nil => intro idx _; simp
    | cons s rest ih =>
      intro idx hlen
      cases idx with
      | nil => simp at hlen
      | cons k ks =>
        have hl : ks.length = rest.length := by simpa using hlen
        simp only [List.zip_cons_cons, List.filterMap_cons, List.filter_cons]
        by_cases h : inWindow tl i s = true
        · simp [h, ih ks hl]
        · simp [h, ih ks hl]
  exact this _ (by simp)

/-- the statement is not vacuous: Mon/Wed/Fri timeline, rows stamped Tue (executed Wed), Mon, Fri and Wed, in that order -/
example : select [1, 3, 5] 1 [((2 : Int), "a"), (1, "b"), (5, "c"), (3, "d")] = [(2, "a"), (3, "d")] ∧
    select [1, 3, 5] 0 [((2 : Int), "a"), (1, "b"), (5, "c"), (3, "d")] = [(1, "b")] ∧
    selectIdx [1, 3, 5] 1 [2, 1, 5, 3] = [0, 3] := by decide

end Bt.C04

namespace Bt.C04
open Bt Bt.Blotter Bt.Report

section Replay
variable {ι α : Type} [DecidableEq ι]
  [Add α] [Sub α] [Mul α] [Div α] [Neg α] [LT α] [DecidableLT α] [LE α] [DecidableLE α]
  [OfNat α 0] [OfNat α 1]

/-- a replay over `pxs.length` dates starting at `t` reads the rows of those dates only -/
theorem replayRun_congr (boSet : Bool) (tol : α) (fee : α → α → α) (rows rows' : Nat → List (ι × Option α × Option α)) :
    ∀ (pxs : List (ι → Option α)) (t : Nat) (st : RState ι α), (∀ j, j < pxs.length → rows (t + j) = rows' (t + j)) →
      replayRun boSet tol fee rows t st pxs = replayRun boSet tol fee rows' t st pxs := by
  intro pxs
  induction pxs with
  | nil => intro t st _; simp [replayRun]
  | cons px rest ih =>
    intro t st h
    have h0 : rows t = rows' t := by simpa using h 0 (by simp)
    have hr : ∀ st', replayRun boSet tol fee rows (t + 1) st' rest = replayRun boSet tol fee rows' (t + 1) st' rest := by
      intro st'
      apply ih
      intro j hj
      have := h (j + 1) (by simp; omega)
      simpa [Nat.add_assoc, Nat.add_comm 1 j] using this
    simp only [replayRun, h0, hr]

/-- **A whole replay does not look ahead.**  `ReplayTransactions` over a blotter whose rows are stamped anywhere (also between
    the data's dates) and listed in any order: the states after each of the dates `t0 .. t0 + n - 1`, all dated up to `cut`, are
    the same for any two blotters that agree on the rows stamped up to `cut`. -/
theorem blotter_replay_causal (boSet : Bool) (tol : α) (fee : α → α → α) (tl : List Int) (cut : Int)
    (blotter blotter' : List (Int × (ι × Option α × Option α)))
    (hagree : blotter.filter (fun r => decide (r.1 ≤ cut)) = blotter'.filter (fun r => decide (r.1 ≤ cut)))
    (t0 : Nat) (st : RState ι α) (pxs : List (ι → Option α))
    (hdates : ∀ j, j < pxs.length → ∃ now, tl[t0 + j]? = some now ∧ now ≤ cut) :
    replayRun boSet tol fee (fun t => (select tl t blotter).map Prod.snd) t0 st pxs =
      replayRun boSet tol fee (fun t => (select tl t blotter').map Prod.snd) t0 st pxs := by
  apply replayRun_congr
  intro j hj
  obtain ⟨now, hn, hc⟩ := hdates j hj
  simp only [select_causal tl (t0 + j) now cut hn hc blotter blotter' hagree]

end Replay
end Bt.C04
