import Bt.Proofs.Sched
/-!
C12 — calendar and counting schedulers fire exactly on their boundaries
(property theorems only; helper lemmas live in `Bt.Proofs.Sched` / `Bt.Proofs.SchedCal`).

Reading guide.  `runPeriod k f idx now` is `RunPeriod.__call__` of the scheduler of kind `k` with constructor
flags `f` on a strategy whose data index is `idx` (row 0 = the synthetic row `Backtest` prepends) and whose
`now` is `now`.  `shouldFire k f idx i` is the property text for row `i`; `periodId` is the day / Monday-week /
month / quarter / year a timestamp falls in.  The code does *not* satisfy the text everywhere:

* `edgeDeviation` rows (first row in end-of-period mode, last row in start mode, a one-date index): the code
  answers from the flag alone — `runPeriod_silent_on_edge_deviation`;
* (RunWeekly used to compare calendar year + ISO week number; repaired: `weekly_iso_repair_exact`,
  `weekly_new_year_regressions`; the `Regular` / `AllRegular` hypotheses below are no longer needed for it.)

Everywhere else the model meets the text: `runPeriod_eq_spec_partial`.
-/
namespace Bt.C12
open Bt.Cal Bt.Sched

/-- midnight of a civil date -/
def d (y m dd : Int) : Stamp := ⟨y, m, dd, 0⟩

/-- synthetic row Thu 27 Dec 2012, then Fri 28 Dec, Mon 31 Dec 2012, Wed 2 Jan, Thu 3 Jan, Fri 1 Feb, Mon 4 Feb 2013 -/
def sampleIdx : List Stamp :=
  [d 2012 12 27, d 2012 12 28, d 2012 12 31, d 2013 1 2, d 2013 1 3, d 2013 2 1, d 2013 2 4]

def startMode : Flags := { runOnFirstDate := true, runOnEndOfPeriod := false, runOnLastDate := false }
def endMode : Flags := { runOnFirstDate := false, runOnEndOfPeriod := true, runOnLastDate := true }

theorem sampleIdx_strictInc : StrictInc sampleIdx := by unfold StrictInc; decide
theorem sampleIdx_valid : AllValid sampleIdx := by unfold AllValid; decide

/-! ## position logic of `RunPeriod.__call__` -/

/-- `now is None` (or the sentinel 0): never fires -/
theorem none_false (k : PeriodKind) (f : Flags) (idx : List Stamp) : runPeriod k f idx none = .ok false := rfl

example : runPeriod .monthly startMode sampleIdx none = .ok false := by decide

/-- the synthetic pre-start row never fires, whatever the flags -/
theorem index0_false (k : PeriodKind) (f : Flags) (s0 : Stamp) (rest : List Stamp) (hs : StrictInc (s0 :: rest)) :
    runPeriod k f (s0 :: rest) (some s0) = .ok false := by
  rw [runPeriod_at k f hs (i := 0) (t := s0) (by simp)]
  simp [positionRule]

example : runPeriod .daily ⟨true, false, true⟩ sampleIdx (some (d 2012 12 27)) = .ok false := by decide

/-- a date that is not a label of the data never fires -/
theorem outside_index_false (k : PeriodKind) (f : Flags) (idx : List Stamp) (t : Stamp)
    (h : ∀ s ∈ idx, s.ns ≠ t.ns) : runPeriod k f idx (some t) = .ok false := by
  simp [runPeriod, occurrences_eq_zero h]

example : runPeriod .daily ⟨true, true, true⟩ sampleIdx (some (d 2013 1 1)) = .ok false := by decide
example : ∀ s ∈ sampleIdx, s.ns ≠ (d 2013 1 1).ns := by decide

/-- a label that occurs twice makes `get_loc` return a slice and the call raises (ill-formed index) -/
theorem duplicate_label_raises (k : PeriodKind) (f : Flags) (idx : List Stamp) (t : Stamp)
    (h : 2 ≤ occurrences t idx) : runPeriod k f idx (some t) = .error .ambiguousLoc := by
  unfold runPeriod
  obtain ⟨m, hm⟩ : ∃ m, occurrences t idx = m + 2 := ⟨occurrences t idx - 2, by omega⟩
  simp [hm]

example : 2 ≤ occurrences (d 2013 1 2) [d 2013 1 1, d 2013 1 2, d 2013 1 2, d 2013 1 3] := by decide

/-- first real date: fires iff `run_on_first_date` -/
theorem first_date_iff_flag (k : PeriodKind) (f : Flags) (idx : List Stamp) (hs : StrictInc idx) (t : Stamp)
    (h1 : idx[1]? = some t) : runPeriod k f idx (some t) = .ok f.runOnFirstDate := by
  rw [runPeriod_at k f hs h1]
  simp [positionRule]

example : sampleIdx[1]? = some (d 2012 12 28) := by decide

/-- last date (when it is not also the first): fires iff `run_on_last_date` — the period test is skipped -/
theorem last_date_iff_flag (k : PeriodKind) (f : Flags) (idx : List Stamp) (hs : StrictInc idx) (t : Stamp)
    (hlen : 2 < idx.length) (hl : idx[idx.length - 1]? = some t) :
    runPeriod k f idx (some t) = .ok f.runOnLastDate := by
  rw [runPeriod_at k f hs hl]
  have h0 : idx.length - 1 ≠ 0 := by omega
  have h1 : idx.length - 1 ≠ 1 := by omega
  simp [positionRule, h0, h1]

example : 2 < sampleIdx.length ∧ sampleIdx[sampleIdx.length - 1]? = some (d 2013 2 4) := by decide

/-- interior rows: the answer is `compare_dates(now, previous row)` (next row in end-of-period mode) -/
theorem interior_is_compare (k : PeriodKind) (f : Flags) (idx : List Stamp) (hs : StrictInc idx) (i : Nat)
    (t nb : Stamp) (h2 : 2 ≤ i) (hlast : i + 1 < idx.length) (hi : idx[i]? = some t)
    (hn : idx[neighbour f i]? = some nb) :
    runPeriod k f idx (some t) = .ok (compareDates k t nb) := by
  rw [runPeriod_at k f hs hi]
  have h0 : i ≠ 0 := by omega
  have h1 : i ≠ 1 := by omega
  have hl : i ≠ idx.length - 1 := by omega
  simp [positionRule, interiorRule, h0, h1, hl, hi, hn]

example : sampleIdx[3]? = some (d 2013 1 2) ∧ sampleIdx[neighbour startMode 3]? = some (d 2012 12 31) ∧
    sampleIdx[neighbour endMode 3]? = some (d 2013 1 3) := by decide

/-! ## comparators = change of period identifier (calendar laws) -/

/-- For valid timestamps `compare_dates` is "the period identifier differs", where the identifier is the day
    number, `⌊(dayNo+3)/7⌋`, `12·year+month`, `4·year+quarter`, `year`.  Full strength for RunDaily / RunMonthly /
    RunQuarterly / RunYearly (`Regular` is vacuous for them).  For RunWeekly the `Regular` hypothesis is kept only for
    uniformity: `weekly_iso_repair_exact` gives the statement for all valid timestamps. -/
theorem compare_iff_periodId (k : PeriodKind) (a b : Stamp) (ha : a.valid = true) (hb : b.valid = true)
    (ra : Regular k a) (rb : Regular k b) : compareDates k a b = (periodId k a != periodId k b) :=
  compareDates_eq_periodId k ha hb ra rb

example : (d 2012 2 29).valid = true ∧ (d 2012 3 1).valid = true ∧ Regular .weekly (d 2012 2 29) ∧
    Regular .weekly (d 2012 3 1) := by
  refine ⟨by decide, by decide, fun _ => by decide, fun _ => by decide⟩

/-- period identifiers are monotone in time -/
theorem periodId_monotone (k : PeriodKind) (a b : Stamp) (ha : a.valid = true) (hb : b.valid = true)
    (h : a.ns ≤ b.ns) : periodId k a ≤ periodId k b := periodId_mono k ha hb h

example : (d 2012 12 31).ns ≤ (d 2013 1 2).ns := by decide

/-- interior rows fire exactly when the period identifier changes against the neighbour -/
theorem interior_iff_boundary (k : PeriodKind) (f : Flags) (idx : List Stamp) (hs : StrictInc idx)
    (hv : AllValid idx) (hr : AllRegular k idx) (i : Nat) (t nb : Stamp) (h2 : 2 ≤ i) (hlast : i + 1 < idx.length)
    (hi : idx[i]? = some t) (hn : idx[neighbour f i]? = some nb) :
    runPeriod k f idx (some t) = .ok (periodId k t != periodId k nb) := by
  rw [interior_is_compare k f idx hs i t nb h2 hlast hi hn]
  have mt := List.mem_of_getElem? hi
  have mn := List.mem_of_getElem? hn
  rw [compareDates_eq_periodId k (hv t mt) (hv nb mn) (hr t mt) (hr nb mn)]

example : AllRegular .monthly sampleIdx := fun _ _ h => by cases h

/-- start mode: an interior row fires iff it is the first row of the data in its period -/
theorem fires_first_of_period (k : PeriodKind) (f : Flags) (idx : List Stamp) (hs : StrictInc idx)
    (hv : AllValid idx) (hr : AllRegular k idx) (hf : f.runOnEndOfPeriod = false) (i : Nat) (t : Stamp)
    (h2 : 2 ≤ i) (hlast : i + 1 < idx.length) (hi : idx[i]? = some t) :
    runPeriod k f idx (some t) = .ok true ↔
      ∀ j a, 1 ≤ j → j < i → idx[j]? = some a → periodId k a ≠ periodId k t := by
  obtain ⟨nb, hn⟩ : ∃ nb, idx[i - 1]? = some nb := ⟨idx[i - 1]'(by omega), List.getElem?_eq_getElem (by omega)⟩
  have hn' : idx[neighbour f i]? = some nb := by simp [neighbour, hf, hn]
  rw [interior_iff_boundary k f idx hs hv hr i t nb h2 hlast hi hn']
  have mt := List.mem_of_getElem? hi
  have mn := List.mem_of_getElem? hn
  have hmono : periodId k nb ≤ periodId k t :=
    periodId_mono k (hv nb mn) (hv t mt) (Int.le_of_lt (strictInc_lt hs hn hi (by omega)))
  constructor
  · intro h j a hj1 hji ha
    have hne : periodId k t ≠ periodId k nb := by simpa using h
    have ma := List.mem_of_getElem? ha
    have hle : periodId k a ≤ periodId k nb := by
      by_cases e : j = i - 1
      · subst e; rw [hn] at ha; cases ha; exact Int.le_refl _
      · exact periodId_mono k (hv a ma) (hv nb mn) (Int.le_of_lt (strictInc_lt hs ha hn (by omega)))
    omega
  · intro h
    have := h (i - 1) nb (by omega) (by omega) hn
    simp only [Except.ok.injEq, bne_iff_ne, ne_eq]
    exact fun e => this e.symm

/-- end-of-period mode: an interior row fires iff it is the last row of the data in its period -/
theorem fires_last_of_period (k : PeriodKind) (f : Flags) (idx : List Stamp) (hs : StrictInc idx)
    (hv : AllValid idx) (hr : AllRegular k idx) (hf : f.runOnEndOfPeriod = true) (i : Nat) (t : Stamp)
    (h2 : 2 ≤ i) (hlast : i + 1 < idx.length) (hi : idx[i]? = some t) :
    runPeriod k f idx (some t) = .ok true ↔
      ∀ j a, i < j → idx[j]? = some a → periodId k a ≠ periodId k t := by
  obtain ⟨nb, hn⟩ : ∃ nb, idx[i + 1]? = some nb := ⟨idx[i + 1]'(by omega), List.getElem?_eq_getElem (by omega)⟩
  have hn' : idx[neighbour f i]? = some nb := by simp [neighbour, hf, hn]
  rw [interior_iff_boundary k f idx hs hv hr i t nb h2 hlast hi hn']
  have mt := List.mem_of_getElem? hi
  have mn := List.mem_of_getElem? hn
  have hmono : periodId k t ≤ periodId k nb :=
    periodId_mono k (hv t mt) (hv nb mn) (Int.le_of_lt (strictInc_lt hs hi hn (by omega)))
  constructor
  · intro h j a hij ha
    have hne : periodId k t ≠ periodId k nb := by simpa using h
    have ma := List.mem_of_getElem? ha
    have hle : periodId k nb ≤ periodId k a := by
      by_cases e : j = i + 1
      · subst e; rw [hn] at ha; cases ha; exact Int.le_refl _
      · exact periodId_mono k (hv nb mn) (hv a ma) (Int.le_of_lt (strictInc_lt hs hn ha (by omega)))
    omega
  · intro h
    have := h (i + 1) nb (by omega) hn
    simp only [Except.ok.injEq, bne_iff_ne, ne_eq]
    exact fun e => this e.symm

example : runPeriod .monthly startMode sampleIdx (some (d 2013 1 2)) = .ok true ∧
    runPeriod .monthly startMode sampleIdx (some (d 2013 1 3)) = .ok false ∧
    runPeriod .monthly endMode sampleIdx (some (d 2013 1 3)) = .ok true := by decide

/-! ## the property text as a whole -/

/-
Full statement (FALSE for the code as it is — refuted by `runPeriod_silent_on_edge_deviation` below):

  theorem runPeriod_eq_spec (k f idx) (hs : StrictInc idx) (hv : AllValid idx) (i t) (hi : idx[i]? = some t) :
      runPeriod k f idx (some t) = .ok (shouldFire k f idx i)
-/

/-- Off the `edgeDeviation` rows the scheduler returns exactly what
    the property text asks for, for every strictly increasing index of any length and every flag combination. -/
theorem runPeriod_eq_spec_partial (k : PeriodKind) (f : Flags) (idx : List Stamp) (hs : StrictInc idx)
    (hv : AllValid idx) (hr : AllRegular k idx) (i : Nat) (t : Stamp) (hi : idx[i]? = some t)
    (he : edgeDeviation k f idx i = false) :
    runPeriod k f idx (some t) = .ok (shouldFire k f idx i) := by
  have hlen : i < idx.length := (List.getElem?_eq_some_iff.1 hi).1
  rw [runPeriod_at k f hs hi]
  congr 1
  by_cases h0 : i = 0
  · subst h0; simp [positionRule, shouldFire]
  by_cases h1 : i = 1
  · subst h1
    cases hF : f.runOnFirstDate
    · simp only [edgeDeviation, hF, decide_true, Bool.not_false, Bool.and_true, Bool.true_and] at he
      have e2 : (decide (2 ≤ 1 ∧ 1 = idx.length - 1)) = false := by simp
      rw [e2] at he
      simp only [Bool.false_and, Bool.or_false, Bool.or_eq_false_iff, Bool.and_eq_false_iff] at he
      obtain ⟨ha, hb⟩ := he
      have hnp : newPeriodAt k idx 1 = false := by simp [newPeriodAt]
      have hlast : (decide (1 = idx.length - 1) && f.runOnLastDate) = false := by
        rcases ha with ha | ha
        · have : ¬ idx.length = 2 := by simpa using ha
          have : ¬ (1 = idx.length - 1) := by omega
          simp [this]
        · simp [ha]
      cases hE : f.runOnEndOfPeriod
      · simp [positionRule, shouldFire, hF, hE, hnp, hlast]
      · have hpe : periodEndsAt k idx 1 = false := by
          rcases hb with hb | hb
          · rw [hE] at hb; cases hb
          · exact hb
        simp [positionRule, shouldFire, hF, hE, hpe, hlast]
    · simp [positionRule, shouldFire, hF, hlen]
  by_cases hl : i = idx.length - 1
  · have h2 : 2 ≤ i := by omega
    have hpe : periodEndsAt k idx i = false := by
      have : idx[i + 1]? = none := by rw [List.getElem?_eq_none_iff]; omega
      simp [periodEndsAt, this]
    cases hL : f.runOnLastDate
    · simp only [edgeDeviation, hL, Bool.not_false, Bool.and_true] at he
      have e1 : decide (i = 1) = false := by simp [h1]
      have e2 : decide (2 ≤ i ∧ i = idx.length - 1) = true := by simp [h2, ← hl]
      rw [e1, e2] at he
      simp only [Bool.false_and, Bool.false_or, Bool.true_and, Bool.and_eq_false_iff, Bool.not_eq_false'] at he
      cases hE : f.runOnEndOfPeriod
      · have hnp : newPeriodAt k idx i = false := by
          rcases he with he | he
          · rw [hE] at he; cases he
          · exact he
        simp [positionRule, shouldFire, h0, h1, ← hl, hL, hE, hnp]
      · simp [positionRule, shouldFire, h0, h1, ← hl, hL, hE, hpe]
    · have : 1 ≤ i := by omega
      simp [positionRule, shouldFire, h0, h1, ← hl, hL, hlen, this]
  · -- interior row
    have h2 : 2 ≤ i := by omega
    have hlast : i + 1 < idx.length := by omega
    have hge : 1 ≤ i := by omega
    have hlast' : ¬ (i = idx.length - 1) := hl
    obtain ⟨nb, hn⟩ : ∃ nb, idx[neighbour f i]? = some nb := by
      refine ⟨idx[neighbour f i]'(by unfold neighbour; split <;> omega), List.getElem?_eq_getElem _⟩
    have mt := List.mem_of_getElem? hi
    have mn := List.mem_of_getElem? hn
    have hc := compareDates_eq_periodId k (hv t mt) (hv nb mn) (hr t mt) (hr nb mn)
    have hti : idx[i] = t := by
      rw [List.getElem?_eq_getElem hlen] at hi; exact Option.some.inj hi
    cases hE : f.runOnEndOfPeriod
    · have hn2 : idx[i - 1]? = some nb := by simpa [neighbour, hE] using hn
      have : (periodId k nb != periodId k t) = (periodId k t != periodId k nb) := by
        rw [Bool.eq_iff_iff]; simp only [bne_iff_ne, ne_eq]; exact ⟨fun h e => h e.symm, fun h e => h e.symm⟩
      simp [positionRule, interiorRule, shouldFire, newPeriodAt, h0, h1, hl, hti, hn, hn2, hE, hc, hlen, hge, h2, this]
    · have hn2 : idx[i + 1]? = some nb := by simpa [neighbour, hE] using hn
      simp [positionRule, interiorRule, shouldFire, periodEndsAt, h0, h1, hl, hti, hn, hn2, hE, hc, hlen, hge]

example : edgeDeviation .monthly startMode sampleIdx 5 = false ∧ shouldFire .monthly startMode sampleIdx 5 = true ∧
    AllRegular .monthly sampleIdx := ⟨by decide, by decide, fun _ _ h => by cases h⟩

/-- On an `edgeDeviation` row the code stays silent although the property text asks for a firing:
    the model (= the code) violates the text there. -/
theorem runPeriod_silent_on_edge_deviation (k : PeriodKind) (f : Flags) (idx : List Stamp) (hs : StrictInc idx)
    (i : Nat) (t : Stamp) (hi : idx[i]? = some t) (he : edgeDeviation k f idx i = true) :
    runPeriod k f idx (some t) = .ok false ∧ shouldFire k f idx i = true := by
  have hlen : i < idx.length := (List.getElem?_eq_some_iff.1 hi).1
  rw [runPeriod_at k f hs hi]
  simp only [edgeDeviation, Bool.or_eq_true, Bool.and_eq_true, decide_eq_true_eq, Bool.not_eq_true'] at he
  rcases he with ⟨⟨h1, hF⟩, hc⟩ | ⟨⟨⟨⟨h2, hl⟩, hL⟩, hE⟩, hnp⟩
  · subst h1
    refine ⟨by simp [positionRule, hF], ?_⟩
    rcases hc with ⟨h2, hL⟩ | ⟨hE, hpe⟩
    · simp [shouldFire, hF, hL, h2]
    · simp [shouldFire, hF, hE, hpe, hlen]
  · have h0 : i ≠ 0 := by omega
    have h1 : i ≠ 1 := by omega
    have hge : 1 ≤ i := by omega
    refine ⟨by simp [positionRule, h0, h1, ← hl, hL], ?_⟩
    simp [shouldFire, hE, hnp, hlen, hge]

/-- witness: last row opens February, start mode, `run_on_last_date=False` → silent (Lean witness of the violation
    key `C12/RunPeriod:last-row:missed:new-period-flag-off`) -/
example : edgeDeviation .monthly startMode [d 2013 1 29, d 2013 1 30, d 2013 1 31, d 2013 2 1] 3 = true ∧
    runPeriod .monthly startMode [d 2013 1 29, d 2013 1 30, d 2013 1 31, d 2013 2 1] (some (d 2013 2 1)) = .ok false ∧
    shouldFire .monthly startMode [d 2013 1 29, d 2013 1 30, d 2013 1 31, d 2013 2 1] 3 = true := by decide

/-- witness: first date is the last of January, end-of-period mode, `run_on_first_date=False` → silent
    (`C12/RunPeriod:first-row:missed:period-ends-flag-off`) -/
example : edgeDeviation .monthly ⟨false, true, false⟩ [d 2013 1 30, d 2013 1 31, d 2013 2 1, d 2013 2 4] 1 = true ∧
    runPeriod .monthly ⟨false, true, false⟩ [d 2013 1 30, d 2013 1 31, d 2013 2 1, d 2013 2 4] (some (d 2013 1 31)) = .ok false ∧
    shouldFire .monthly ⟨false, true, false⟩ [d 2013 1 30, d 2013 1 31, d 2013 2 1, d 2013 2 4] 1 = true := by decide

/-- witness: a one-date index with `run_on_first_date=False, run_on_last_date=True` → silent
    (`C12/RunPeriod:single-row:missed:last-flag-only`) -/
example : edgeDeviation .daily ⟨false, false, true⟩ [d 2013 1 30, d 2013 1 31] 1 = true ∧
    runPeriod .daily ⟨false, false, true⟩ [d 2013 1 30, d 2013 1 31] (some (d 2013 1 31)) = .ok false ∧
    shouldFire .daily ⟨false, false, true⟩ [d 2013 1 30, d 2013 1 31] 1 = true := by decide

/-! ## RunWeekly: calendar year + ISO week number -/

/-- RunWeekly on the two inputs on which the old comparator (calendar year + ISO week number) was wrong:
    Wed 2013-01-02 after Mon 2012-12-31 stays silent, Sun 2012-12-30 after Sun 2012-01-01 fires. -/
theorem weekly_new_year_regressions :
    runPeriod .weekly startMode sampleIdx (some (d 2013 1 2)) = .ok false ∧
    shouldFire .weekly startMode sampleIdx 3 = false ∧
    runPeriod .weekly startMode [d 2011 12 31, d 2012 1 1, d 2012 12 30, d 2012 12 31] (some (d 2012 12 30)) = .ok true ∧
    shouldFire .weekly startMode [d 2011 12 31, d 2012 1 1, d 2012 12 30, d 2012 12 31] 2 = true := by
  refine ⟨by decide, by decide, by decide, by decide⟩

/-- RunWeekly's comparator is exact for all valid timestamps (no `Regular` restriction needed) -/
theorem weekly_iso_repair_exact (a b : Stamp) (ha : a.valid = true) (hb : b.valid = true) :
    cmpWeeklyIso a b = (periodId .weekly a != periodId .weekly b) := cmpWeeklyIso_eq_periodId ha hb

example : cmpWeeklyIso (d 2012 12 31) (d 2013 1 2) = false ∧ cmpWeeklyIso (d 2012 1 1) (d 2012 12 30) = true := by decide

/-! ## counting and date schedulers -/

/-- RunOnce fires on the first call and never again, whatever the dates -/
theorem runOnce_closed_form (calls : List (Option Int)) (k : Nat) (hk : k < calls.length) :
    (trace runOnceStep false calls)[k]? = some (decide (k = 0)) := by
  cases calls with
  | nil => simp at hk
  | cons t ts =>
    cases k with
    | zero => simp [trace, runOnceStep]
    | succ j =>
      have hj : j < ts.length := by simpa using hk
      simp [trace, runOnceStep, runOnce_after, hj]

example : trace runOnceStep false [some 5, some 5, some 7] = [true, false, false] := by decide

/-- RunOnDate fires iff `now` is one of the listed timestamps -/
theorem runOnDate_iff (dates : List Int) (t : Int) : runOnDate dates (some t) = true ↔ t ∈ dates := by
  simp [runOnDate]

example : runOnDate [3, 9] (some 9) = true ∧ runOnDate [3, 9] (some 4) = false ∧ runOnDate [3, 9] none = false := by decide

/-- RunAfterDate fires iff `now` is strictly after the date -/
theorem runAfterDate_iff (date t : Int) : runAfterDate date (some t) = .ok (decide (date < t)) := rfl

/-- … and raises when called before the strategy's first update (`0 > Timestamp`) -/
theorem runAfterDate_before_first_update_raises (date : Int) : runAfterDate date none = .error .typeError := rfl

example : runAfterDate 5 (some 5) = .ok false ∧ runAfterDate 5 (some 6) = .ok true := by decide

/-- RunAfterDays(days): call number `k` (from 0) returns True iff `days ≤ k` (it counts calls) -/
theorem runAfterDays_closed_form (days : Int) (calls : List (Option Int)) (k : Nat) (hk : k < calls.length) :
    (trace runAfterDaysStep days calls)[k]? = some (decide (days ≤ (k : Int))) :=
  runAfterDays_get days calls k hk

example : trace runAfterDaysStep 2 [some 1, some 2, some 3, some 4] = [false, false, true, true] := by decide

/-- RunEveryNPeriods(n, offset), `n ≥ 1`, `offset ≥ 0`: a call on the same date as the preceding call returns
    False and is not counted; the `c`-th counted call (from 0) returns True iff `c ≥ offset ∧ n ∣ c − offset`. -/
theorem everyN_closed_form (n offset : Nat) (hn : 1 ≤ n) (calls : List (Option Int)) :
    trace everyNStep (everyNInit n offset) calls = everyNSpec n offset none 0 calls :=
  everyN_trace_inv n offset hn calls 0 _ none (everyNInv_init n offset)

example : trace everyNStep (everyNInit 3 1) [some 1, some 1, some 2, some 3, some 3, some 4, some 5, some 6] =
    [false, false, true, false, false, false, true, false] := by decide

/-- one call per date (strictly increasing dates): call `k` fires iff `k ≥ offset ∧ n ∣ k − offset` -/
theorem everyN_one_call_per_date (n offset : Nat) (hn : 1 ≤ n) (ts : List Int) (hs : ts.Pairwise (· < ·))
    (k : Nat) (hk : k < ts.length) :
    (trace everyNStep (everyNInit n offset) (ts.map some))[k]? =
      some (decide (offset ≤ k ∧ (k - offset) % n = 0)) := by
  rw [everyN_closed_form n offset hn]
  have key : ∀ (ts : List Int), ts.Pairwise (· < ·) → ∀ (prev : Option Int), (∀ b ∈ ts, prev ≠ some b) →
      ∀ (c k : Nat), k < ts.length →
      (everyNSpec n offset prev c (ts.map some))[k]? = some (decide (offset ≤ c + k ∧ (c + k - offset) % n = 0)) := by
    intro ts
    induction ts with
    | nil => intro _ _ _ _ k hk; simp at hk
    | cons t ts ih =>
      intro hs prev hp c k hk
      rw [List.pairwise_cons] at hs
      have hpt : prev ≠ some t := hp t (List.mem_cons_self ..)
      cases k with
      | zero => simp [everyNSpec, hpt]
      | succ j =>
        have hj : j < ts.length := by simpa using hk
        have := ih hs.2 (some t) (fun b hb e => by cases e; exact absurd (hs.1 t hb) (Int.lt_irrefl _)) (c + 1) j hj
        simp only [List.map_cons, everyNSpec, hpt, if_false, List.getElem?_cons_succ]
        rw [this, show c + 1 + j = c + (j + 1) by omega]
  have := key ts hs none (fun _ _ => by simp) 0 k hk
  simpa using this

example : trace everyNStep (everyNInit 2 1) ([10, 20, 30, 40, 50].map some) = [false, true, false, true, false] := by decide

/-- once per distinct date: on non-decreasing call dates a firing call is the first call on its date -/
theorem everyN_once_per_date (n offset : Nat) (hn : 1 ≤ n) (ts : List Int) (hs : ts.Pairwise (· ≤ ·))
    (j k : Nat) (hjk : j < k) (hk : (trace everyNStep (everyNInit n offset) (ts.map some))[k]? = some true) :
    ts[j]? ≠ ts[k]? := by
  rw [everyN_closed_form n offset hn] at hk
  have key : ∀ (calls : List (Option Int)) (prev : Option Int) (c m : Nat),
      (everyNSpec n offset prev c calls)[m + 1]? = some true → calls[m]? ≠ calls[m + 1]? := by
    intro calls
    induction calls with
    | nil => intro _ _ _ h; simp [everyNSpec] at h
    | cons t rest ih =>
      intro prev c m h
      have tail : ∃ r c', (everyNSpec n offset prev c (t :: rest)) = r :: everyNSpec n offset t c' rest := by
        by_cases e : prev = t
        · subst e; exact ⟨false, c, by simp [everyNSpec]⟩
        · exact ⟨decide (offset ≤ c ∧ (c - offset) % n = 0), c + 1, by simp only [everyNSpec, e, if_false]⟩
      obtain ⟨r, c', hc'⟩ := tail
      rw [hc'] at h
      simp only [List.getElem?_cons_succ] at h
      cases m with
      | zero =>
        cases rest with
        | nil => simp [everyNSpec] at h
        | cons u us =>
          by_cases e : t = u
          · subst e; simp [everyNSpec] at h
          · simpa using e
      | succ m' =>
        simpa using ih t c' m' h
  obtain ⟨k', rfl⟩ : ∃ k', k = k' + 1 := ⟨k - 1, by omega⟩
  have hne := key (ts.map some) none 0 k' hk
  have hlen : k' + 1 < ts.length := by
    have := (List.getElem?_eq_some_iff.1 hk).1
    rw [← everyN_closed_form n offset hn, trace_length] at this
    simpa using this
  rw [List.pairwise_iff_getElem] at hs
  intro e
  have hj' : j < ts.length := by omega
  have hk'' : k' < ts.length := by omega
  rw [List.getElem?_eq_getElem hj', List.getElem?_eq_getElem hlen] at e
  have e' : ts[j] = ts[k' + 1] := by simpa using e
  have l2 : ts[k'] ≤ ts[k' + 1] := hs k' (k' + 1) hk'' hlen (by omega)
  have l1 : ts[j] ≤ ts[k'] := by
    by_cases c : j = k'
    · subst c; exact Int.le_refl _
    · exact hs j k' hj' hk'' (by omega)
  have ek : ts[k'] = ts[k' + 1] := by omega
  apply hne
  simp [List.getElem?_eq_getElem hk'', List.getElem?_eq_getElem hlen, ek]

example : trace everyNStep (everyNInit 2 0) ([10, 10, 20, 20, 30].map some) = [true, false, false, false, true] := by decide

end Bt.C12
