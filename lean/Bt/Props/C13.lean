import Bt.Proofs.Stack
import Bt.Proofs.StackOob
/-!
  C13 — algo stacks short-circuit, run_always runs, temp resets, perm persists.

  Property theorems only (helper lemmas: `Bt.Proofs.Stack`, `Bt.Proofs.StackOob`).
  The generic statements quantify over every state type `σ` and every algo (`AlgoFn σ` = attribute + arbitrary
  state transformer that returns a bool or raises), hence over nested stacks, `Or` branches and every pattern
  of returns; lists are unbounded (induction).  Vocabulary (defined in `Bt.Proofs.Stack`):
    `AllTrue l s s'`     every algo of `l`, called in order from `s`, returned True, reaching `s'`
    `RunsAll l s rs s'`  every algo of `l` was called in order from `s`, returning `rs`, reaching `s'`
    `runEach l b s`      call every algo of `l` in order ignoring the results (hands `b` through)
    `specLoop`           the property as a single loop without execution modes
-/
namespace Bt.C13
open Bt.Stack

section Generic
variable {σ : Type}

/-! ### AlgoStack -/

/-- `stack_trace`, master form: `AlgoStack.__call__` with its two execution modes *is* the single loop of the
    property (call in order while True; after the first False call exactly the later `run_always`-true algos;
    report False). -/
theorem stack_is_spec_loop (l : List (AlgoFn σ)) (s : σ) : stackCall l s = specLoop l s :=
  stackCall_eq_spec l s

/-- `stack_trace` (1): if every algo returns True they are all called, in order, and the stack reports True. -/
theorem stack_trace_all_true (l : List (AlgoFn σ)) (s s' : σ) (h : AllTrue l s s') :
    stackCall l s = .ret true s' := by
  rw [stackCall_eq_spec]; exact (specLoop_true_iff l s s').mpr h

/-- `stack_trace` (2): the algos before the first False are called in order, then the failing one, then exactly
    the later algos whose `run_always` attribute is true (in order, results ignored) — nothing else; whichever
    execution mode the stack is in. -/
theorem stack_trace_first_false (pre post : List (AlgoFn σ)) (a : AlgoFn σ) (s s1 s2 : σ)
    (hpre : AllTrue pre s s1) (ha : a.run s1 = .ret false s2) :
    stackCall (pre ++ a :: post) s = runEach (post.filter (fun x => x.ra.on)) false s2 := by
  rw [stackCall_eq_spec, specLoop_append_true pre _ s s1 hpre]
  simp [specLoop, ha]

/-- `stack_trace` (3): an exception in an algo reached in the not-yet-failed state ends the call. -/
theorem stack_trace_raise (pre post : List (AlgoFn σ)) (a : AlgoFn σ) (s s1 s2 : σ) (e : Err)
    (hpre : AllTrue pre s s1) (ha : a.run s1 = .raise e s2) :
    stackCall (pre ++ a :: post) s = .raise e s2 := by
  rw [stackCall_eq_spec, specLoop_append_true pre _ s s1 hpre]
  simp [specLoop, ha]

/-- the three cases above are exhaustive -/
theorem stack_trace_cases (l : List (AlgoFn σ)) (s : σ) :
    (∃ s', AllTrue l s s') ∨
    (∃ pre a post s1 s2, l = pre ++ a :: post ∧ AllTrue pre s s1 ∧
      (a.run s1 = .ret false s2 ∨ ∃ e, a.run s1 = .raise e s2)) :=
  stack_cases l s

/-- `stack_result`: the stack reports True iff every algo returned True (and then the state is the one reached
    by calling them all). -/
theorem stack_result (l : List (AlgoFn σ)) (s s' : σ) : stackCall l s = .ret true s' ↔ AllTrue l s s' := by
  rw [stackCall_eq_spec]; exact specLoop_true_iff l s s'

/-- after a first False the stack reports False, whatever the `run_always` algos called afterwards return. -/
theorem stack_reports_false (pre post : List (AlgoFn σ)) (a : AlgoFn σ) (s s1 s2 s' : σ) (r : Bool)
    (hpre : AllTrue pre s s1) (ha : a.run s1 = .ret false s2) (h : stackCall (pre ++ a :: post) s = .ret r s') :
    r = false := by
  rw [stack_trace_first_false pre post a s s1 s2 hpre ha] at h
  exact runEach_ret _ _ _ _ _ h

/-- the algos called after a failure are called whatever the earlier ones returned: every one of them ran. -/
theorem stack_after_failure_all_marked_run (pre post : List (AlgoFn σ)) (a : AlgoFn σ) (s s1 s2 s' : σ)
    (hpre : AllTrue pre s s1) (ha : a.run s1 = .ret false s2)
    (h : stackCall (pre ++ a :: post) s = .ret false s') :
    ∃ rs, RunsAll (post.filter (fun x => x.ra.on)) s2 rs s' := by
  rw [stack_trace_first_false pre post a s s1 s2 hpre ha] at h
  exact (runEach_iff _ false s2 s').mp h

/-- `modes_agree`: when no algo is marked to run always the two loops are the same function (attributes present
    and falsy make the stack use the second loop; it then behaves exactly as the first). -/
theorem modes_agree (l : List (AlgoFn σ)) (s : σ) (h : ∀ a ∈ l, a.ra.on = false) :
    alwaysLoop l true s = plainLoop l s := by
  rw [alwaysLoop_eq_spec, plainLoop_eq_spec l s h]

/-- `modes_agree` on the result, for every stack: the two execution modes report the same value. -/
theorem modes_agree_result (l : List (AlgoFn σ)) (s s1 s2 : σ) (r1 r2 : Bool)
    (h1 : plainLoop l s = .ret r1 s1) (h2 : alwaysLoop l true s = .ret r2 s2) : r1 = r2 := by
  rw [alwaysLoop_eq_spec] at h2
  cases r1 with
  | true =>
    have := (plainLoop_true_iff l s s1).mp h1
    have h3 := (specLoop_true_iff l s s1).mpr this
    rw [h3] at h2
    cases h2; rfl
  | false =>
    cases r2 with
    | false => rfl
    | true =>
      have := (specLoop_true_iff l s s2).mp h2
      have h3 := (plainLoop_true_iff l s s2).mpr this
      rw [h3] at h1
      cases h1

/-- the mode is chosen by the presence of the attribute on any algo, not by its value -/
theorem stack_mode (l : List (AlgoFn σ)) (s : σ) :
    stackCall l s = if l.any (fun a => a.ra.has) then alwaysLoop l true s else plainLoop l s := rfl

/-! ### Or, Not -/

/-- `or_all_run` + `or_any`: every branch is called, in order, whatever the others returned; the result is
    True iff some branch returned True. -/
theorem or_all_run_any (l : List (AlgoFn σ)) (s s' : σ) (rs : List Bool) (h : RunsAll l s rs s') :
    orCall l s = .ret (rs.any id) s' := by
  simpa [orCall] using orLoop_spec l false s s' rs h

/-- converse: whenever `Or` returns, every branch was called and the value is the disjunction. -/
theorem or_ret (l : List (AlgoFn σ)) (s s' : σ) (r : Bool) (h : orCall l s = .ret r s') :
    ∃ rs, RunsAll l s rs s' ∧ r = rs.any id := by
  simpa [orCall] using orLoop_ret l false r s s' h

/-- an exception in a branch ends the call (the branches before it have all been called). -/
theorem or_raise (pre post : List (AlgoFn σ)) (a : AlgoFn σ) (s s1 s2 : σ) (rs : List Bool) (e : Err)
    (h : RunsAll pre s rs s1) (ha : a.run s1 = .raise e s2) : orCall (pre ++ a :: post) s = .raise e s2 :=
  orLoop_raise pre post a false s s1 s2 rs e h ha

/-- `not_inverts` -/
theorem not_inverts (a : AlgoFn σ) (s s' : σ) (r : Bool) : notCall a s = .ret r s' ↔ a.run s = .ret (!r) s' := by
  unfold notCall
  cases h : a.run s with
  | raise e s1 => simp
  | ret r1 s1 =>
    cases r <;> cases r1 <;> simp

theorem not_raise (a : AlgoFn σ) (s s' : σ) (e : Err) : notCall a s = .raise e s' ↔ a.run s = .raise e s' := by
  unfold notCall
  cases h : a.run s <;> simp

end Generic

/-! ### non-vacuity of the generic statements (state = a counter; algos bump it) -/

section Examples
/-- test algo: adds `k` to the counter and returns `b` -/
def bump (ra : RA) (k : Nat) (b : Bool) : AlgoFn Nat := ⟨ra, fun n => .ret b (n + k)⟩

example : AllTrue [bump .absent 1 true, bump .yes 10 true] 0 11 := ⟨1, rfl, 11, rfl, rfl⟩
example : stackCall [bump .absent 1 true, bump .yes 10 true] 0 = .ret true 11 := rfl
/-- `[T, F, X, run_always(F), run_always=False, run_always(T)]`: 1 + 2 (failing) + 8 + 32 are executed, 4 and 16 are not -/
example : stackCall [bump .absent 1 true, bump .absent 2 false, bump .absent 4 true, bump .yes 8 false,
    bump .no 16 true, bump .yes 32 true] 0 = .ret false 43 := rfl
example : AllTrue [bump .absent 1 true] 0 1 ∧ (bump .absent 2 false).run 1 = .ret false 3 := ⟨⟨1, rfl, rfl⟩, rfl⟩
/-- plain mode: nothing after the failure -/
example : stackCall [bump .absent 1 true, bump .absent 2 false, bump .absent 4 true] 0 = .ret false 3 := rfl
/-- a run_always algo that returns False before any failure is a failure (the seeded change C13 breaks this) -/
example : stackCall [bump .absent 1 true, bump .yes 2 false, bump .absent 4 true] 0 = .ret false 3 := rfl
example : ∀ a ∈ [bump .no 1 true, bump .absent 2 false], a.ra.on = false := by simp [bump, RA.on]
example : plainLoop [bump .yes 1 false, bump .yes 2 true] 0 = .ret false 1 ∧
    alwaysLoop [bump .yes 1 false, bump .yes 2 true] true 0 = .ret false 3 := ⟨rfl, rfl⟩
example : RunsAll [bump .absent 1 false, bump .absent 2 true, bump .absent 4 false] 0 [false, true, false] 7 :=
  ⟨false, 1, _, rfl, ⟨true, 3, _, rfl, ⟨false, 7, _, rfl, ⟨rfl, rfl⟩, rfl⟩, rfl⟩, rfl⟩
example : orCall [bump .absent 1 false, bump .absent 2 true, bump .absent 4 false] 0 = .ret true 7 := rfl
example : orCall ([] : List (AlgoFn Nat)) 0 = .ret false 0 := rfl
example : notCall (bump .absent 1 true) 0 = .ret false 1 := rfl
/-- hypotheses of `or_raise` / `stack_trace_raise`: a branch that raises after one that returned -/
example : RunsAll [bump .absent 1 false] 0 [false] 1 ∧
    (⟨.absent, fun n => .raise .attributeError n⟩ : AlgoFn Nat).run 1 = .raise .attributeError 1 :=
  ⟨⟨false, 1, [], rfl, ⟨rfl, rfl⟩, rfl⟩, rfl⟩
example : orCall [bump .absent 1 false, ⟨.absent, fun n => .raise .attributeError n⟩, bump .absent 4 true] 0 =
    .raise .attributeError 1 := rfl
example : (⟨.absent, fun n => .raise .attributeError n⟩ : AlgoFn Nat).run 5 = .raise .attributeError 5 := rfl
end Examples

/-! ### Stacks and Ors of scripted mocks: the call log -/

section Mocks
variable {α : Type}

/-- `stack_trace` on the observable log: for a stack of mocks with distinct ids, the ids recorded are, in order,
    the prefix up to and including the first mock that returns False, followed by exactly the later mocks whose
    `run_always` attribute is true; the stack reports True iff all of them return True. -/
theorem stack_trace_mocks (ms : List (MockSpec α)) (hnd : (ms.map (fun x => x.id)).Nodup) (tg : Tgt α) :
    ∃ tg', stackCall (ms.map MockSpec.toAlgo) tg = .ret (ms.all (fun m => m.next tg.log)) tg' ∧
      calledIds tg'.log = calledIds tg.log ++ expectedCalls tg.log ms := by
  rw [stackCall_eq_spec]; exact specLoop_mocks ms hnd tg

/-- `or_all_run` / `or_any` on the observable log: every mock of an `Or` is recorded, in order; the result is
    True iff one of them returns True. -/
theorem or_trace_mocks (ms : List (MockSpec α)) (hnd : (ms.map (fun x => x.id)).Nodup) (tg : Tgt α) :
    ∃ tg', orCall (ms.map MockSpec.toAlgo) tg = .ret (ms.any (fun m => m.next tg.log)) tg' ∧
      calledIds tg'.log = calledIds tg.log ++ ms.map (fun x => x.id) := by
  obtain ⟨tg', h1, h2⟩ := runsAll_mocks ms hnd tg
  refine ⟨tg', ?_, h2⟩
  rw [or_all_run_any _ _ _ _ h1]
  simp [List.any_map, Function.comp_def]

/-- the prescribed trace in closed form: the mocks up to the first False, and the marked ones after it -/
theorem expectedCalls_closed_form (log : List (Ev α)) (ms : List (MockSpec α)) :
    expectedCalls log ms =
      (ms.takeWhile (fun m => m.next log)).map (fun x => x.id) ++
      (match ms.dropWhile (fun m => m.next log) with
       | [] => []
       | f :: post => f.id :: (post.filter (fun x => x.ra.on)).map (fun x => x.id)) := by
  induction ms with
  | nil => rfl
  | cons m rest ih =>
    cases h : m.next log with
    | true => simp [expectedCalls, h, ih]
    | false => simp [expectedCalls, h]

/-- `require_semantics`: absent → default -/
theorem require_absent (pred : Val α → Bool) (item : String) (ifNone : Bool) (tg : Tgt α)
    (h : dget item tg.temp = none) : requireCall pred item ifNone tg = .ret ifNone tg := by
  simp [requireCall, requireVal, h]

/-- `require_semantics`: `None` → default -/
theorem require_none (pred : Val α → Bool) (item : String) (ifNone : Bool) (tg : Tgt α)
    (h : dget item tg.temp = some Val.none) : requireCall pred item ifNone tg = .ret ifNone tg := by
  simp [requireCall, requireVal, h]

/-- `require_semantics`: present and not `None` → the predicate applied to the entry; nothing is modified -/
theorem require_present (pred : Val α → Bool) (item : String) (ifNone : Bool) (tg : Tgt α) (v : Val α)
    (h : dget item tg.temp = some v) (hv : v ≠ Val.none) : requireCall pred item ifNone tg = .ret (pred v) tg := by
  cases v with
  | none => exact absurd rfl hv
  | int i => simp [requireCall, requireVal, h]
  | num x => simp [requireCall, requireVal, h]
  | dict np w => simp [requireCall, requireVal, h]

end Mocks

section MockExamples
def mk (ra : RA) (id : Nat) (script : List Bool) : MockSpec Int := ⟨ra, id, script, true, [], []⟩
def tg0 : Tgt Int := ⟨"s", [], [], [], []⟩

example : ([mk .absent 1 [true], mk .yes 2 [false], mk .absent 3 [true], mk .yes 4 [true]].map (fun x => x.id)).Nodup := by
  decide
example : expectedCalls tg0.log [mk .absent 1 [true], mk .yes 2 [false], mk .absent 3 [true], mk .yes 4 [true]] = [1, 2, 4] := by
  decide
example : (dget "selected" ([("selected", Val.int 3)] : Dict Int)) = some (Val.int 3) ∧ Val.int 3 ≠ (Val.none : Val Int) := by
  refine ⟨by simp [dget], by intro h; cases h⟩
example : dget "selected" ([("k0", Val.int 3)] : Dict Int) = none := by simp [dget]
example : dget "selected" ([("selected", Val.none)] : Dict Int) = some Val.none := by simp [dget]
example : requireCall (Pred.intGt 0).eval "selected" false { tg0 with temp := [("selected", Val.int 3)] } =
    .ret true { tg0 with temp := [("selected", Val.int 3)] } := by simp [requireCall, requireVal, dget, Pred.eval]
end MockExamples

/-! ### RunIfOutOfBounds (over any linearly ordered field) -/

section OutOfBounds
variable {K : Type} [Field K] [LinearOrder K] [IsStrictOrderedRing K]

/-- without a weights entry the algo returns True -/
theorem out_of_bounds_no_weights (tol : K) (temp : Dict K) (kids : List (Kid K)) (h : dget "weights" temp = none) :
    oobVal tol temp kids = .ok true := by
  simp [oobVal, h]

/-- `out_of_bounds_iff`: with a weights entry, no cash entry and non-zero targets, the algo returns True exactly
    when some child named in the targets has `|w_c − w_t| / |w_t| > tolerance`. -/
theorem out_of_bounds_iff (tol : K) (temp : Dict K) (kids : List (Kid K)) (np : Bool) (targets : List (String × K))
    (hw : dget "weights" temp = some (.dict np targets)) (hc : dget "cash" temp = none)
    (hnz : TargetsNonzero targets kids) :
    ∃ b, oobVal tol temp kids = .ok b ∧ (b = true ↔ SomeOff tol targets kids) := by
  obtain ⟨b, hb, hiff⟩ := oobKids_spec tol np targets kids hnz
  refine ⟨b, ?_, hiff⟩
  cases b <;> simp [oobVal, hw, hc, hb]

/-- a deviating child decides before the cash entry is looked at -/
theorem out_of_bounds_cash_deviating (tol : K) (temp : Dict K) (kids : List (Kid K)) (np : Bool)
    (targets : List (String × K)) (hw : dget "weights" temp = some (.dict np targets))
    (hnz : TargetsNonzero targets kids) (hoff : SomeOff tol targets kids) :
    oobVal tol temp kids = .ok true := by
  obtain ⟨b, hb, hiff⟩ := oobKids_spec tol np targets kids hnz
  have : b = true := hiff.mpr hoff
  subst this
  simp [oobVal, hw, hb]

/-- FINDING (witness in the model, which follows the code): with a cash entry in temp and no child out of bounds
    the algo does not return False — it raises `AttributeError` (`targets.value`).  The property's "True exactly
    when some held target deviates" fails on every such input. -/
theorem out_of_bounds_cash_raises (tol : K) (temp : Dict K) (kids : List (Kid K)) (np : Bool)
    (targets : List (String × K)) (c : Val K)
    (hw : dget "weights" temp = some (.dict np targets)) (hc : dget "cash" temp = some c)
    (hnz : TargetsNonzero targets kids) (hoff : ¬ SomeOff tol targets kids) :
    oobVal tol temp kids = .error .attributeError := by
  obtain ⟨b, hb, hiff⟩ := oobKids_spec tol np targets kids hnz
  have : b = false := by
    cases b with
    | false => rfl
    | true => exact absurd (hiff.mp rfl) hoff
  subst this
  simp [oobVal, hw, hc, hb]

/-- a zero target with plain Python floats on both sides raises `ZeroDivisionError` -/
theorem out_of_bounds_zero_target_raises (tol w : K) : deviates tol false w 0 = .error .zeroDivision := by
  have : eqZ (0 : K) = true := (eqZ_iff 0).mpr rfl
  simp [deviates, this]

end OutOfBounds

section OutOfBoundsExamples
open Bt.Stack.OobExample
/- child `a` holds 3/5 against a target of 1/2 (relative deviation 1/5), child `b` is not in the targets -/
example : dget "weights" exTemp = some (.dict false [("a", 1 / 2)]) ∧ dget "cash" exTemp = none := exTemp_entries
example : TargetsNonzero [("a", (1 / 2 : ℚ))] exKids := exKids_nonzero
example : SomeOff (1 / 10 : ℚ) [("a", 1 / 2)] exKids := exKids_off
example : ¬ SomeOff (1 / 2 : ℚ) [("a", 1 / 2)] exKids := exKids_not_off
/-- tolerance 1/10: out of bounds -/
example : ∃ b, oobVal (1 / 10 : ℚ) exTemp exKids = .ok b ∧ (b = true ↔ SomeOff (1 / 10) [("a", 1 / 2)] exKids) :=
  out_of_bounds_iff _ _ _ false _ exTemp_entries.1 exTemp_entries.2 exKids_nonzero
/-- WITNESS of the finding: tolerance 1/2, nothing out of bounds, `cash` present: the model (= the code) raises
    where the property wants False -/
example : oobVal (1 / 2 : ℚ) (("cash", Val.num (1 / 10)) :: exTemp) exKids = .error .attributeError :=
  out_of_bounds_cash_raises _ _ _ false [("a", 1 / 2)] (.num (1 / 10)) (by simp [exTemp, dget]) (by simp [dget])
    exKids_nonzero exKids_not_off
/-- the same input without the cash entry returns False -/
example : oobVal (1 / 2 : ℚ) exTemp exKids = .ok false := by
  obtain ⟨b, hb, hiff⟩ := out_of_bounds_iff (1 / 2 : ℚ) exTemp exKids false _ exTemp_entries.1 exTemp_entries.2 exKids_nonzero
  cases b with
  | false => exact hb
  | true => exact absurd (hiff.mp rfl) exKids_not_off
end OutOfBoundsExamples

/-! ### Strategy.run -/

section Tree
variable {α : Type} [Sub α] [Div α] [Neg α] [LT α] [DecidableLT α] [OfNat α 0]

/-- `strategy_run_order` (what one run does): the stack is called on a target whose temp is empty and whose perm
    is the strategy's perm, after the visit has been recorded; the children are run afterwards, in child order,
    from the log the stack left; temp and perm left by the stack are what the strategy keeps. -/
theorem strategy_run_unfold (d : SData α) (kids : List (SNode α)) (log : List (Ev α)) :
    runNode (.strat d kids) log =
      match stackCall (denoteL d.stack)
          { name := d.name, kids := kids.map SNode.kid, temp := [], perm := d.perm, log := log ++ [Ev.visit d.name] } with
      | .raise e tg => .raise e tg.log
      | .ret _ tg =>
        match runKids kids tg.log with
        | .raise e l => .raise e l
        | .done kids' l => .done (.strat { d with temp := tg.temp, perm := tg.perm } kids') l := by
  rw [runNode]; rfl

/-- `strategy_run_order`, for every tree: a completed `run()` enters every strategy of the tree exactly once, in
    depth-first order with each strategy before its children and the children in child order (`preorder`); the
    log is only extended; the tree keeps its shape. -/
theorem strategy_run_order (t t' : SNode α) (log log' : List (Ev α)) (h : runNode t log = .done t' log') :
    (∃ evs, log' = log ++ evs) ∧ visitsOf log' = visitsOf log ++ preorder t ∧ preorder t' = preorder t :=
  runNode_visits t log t' log' h

/-- temp is emptied: what a strategy (or any descendant) had in temp before the run has no influence at all. -/
theorem run_ignores_old_temp (t1 t2 : SNode α) (log : List (Ev α)) (h : clearTemps t1 = clearTemps t2) :
    runNode t1 log = runNode t2 log := by
  rw [← runNode_clearTemps t1, ← runNode_clearTemps t2, h]

/-- all run sequences: `n` runs enter the strategies `n` times in the same order. -/
theorem run_times_order (n : Nat) (t t' : SNode α) (log log' : List (Ev α)) (h : runTimes n t log = .done t' log') :
    visitsOf log' = visitsOf log ++ (List.replicate n (preorder t)).flatten ∧ preorder t' = preorder t := by
  induction n generalizing t log with
  | zero =>
    simp only [runTimes, TOut.done.injEq] at h
    obtain ⟨rfl, rfl⟩ := h
    simp
  | succ n ih =>
    simp only [runTimes] at h
    cases h1 : runNode t log with
    | raise e l => simp [h1] at h
    | done t1 l1 =>
      simp only [h1] at h
      obtain ⟨_, hv, hp⟩ := runNode_visits t log t1 l1 h1
      obtain ⟨hv2, hp2⟩ := ih t1 l1 h
      refine ⟨?_, hp2.trans hp⟩
      rw [hv2, hv, hp]
      simp [List.replicate_succ]

/-- temp empty, perm kept, as the first algo of the stack sees them: if the stack starts with a mock, the first
    thing recorded after the visit is that mock's call with `temp = {}` and the perm the strategy had. -/
theorem first_call_sees_empty_temp_and_kept_perm (d : SData α) (kids : List (SNode α)) (log log' : List (Ev α))
    (t' : SNode α) (ra : RA) (id : Nat) (script : List Bool) (dflt : Bool) (wt wp : List (String × Val α))
    (rest : List (Prog α)) (hstack : d.stack = .mock ra id script dflt wt wp :: rest)
    (h : runNode (.strat d kids) log = .done t' log') :
    ∃ tail, log' = log ++ [Ev.visit d.name, Ev.call d.name id [] d.perm] ++ tail := by
  simp only [runNode] at h
  cases hs : stackCall (denoteL d.stack) (freshTgt d kids log) with
  | raise e tg => simp [hs] at h
  | ret r tg =>
    simp only [hs] at h
    cases hk : runKids kids tg.log with
    | raise e l => simp [hk] at h
    | done kids' l =>
      simp only [hk, TOut.done.injEq] at h
      obtain ⟨-, rfl⟩ := h
      obtain ⟨⟨evs2, he2⟩, -, -⟩ := runKids_visits kids tg.log kids' l hk
      -- the stack: first the mock, then whatever follows only extends the log
      rw [stackCall_eq_spec, hstack] at hs
      let tg1 : Tgt α := { freshTgt d kids log with
        log := (freshTgt d kids log).log ++ [Ev.call d.name id [] d.perm],
        temp := dsetAll wt [], perm := dsetAll wp d.perm }
      have hrun : (Prog.run (.mock ra id script dflt wt wp) (freshTgt d kids log)) =
          .ret (scriptAt script dflt (callsOf id (freshTgt d kids log).log)) tg1 := rfl
      have hext : ∃ evs, tg.log = tg1.log ++ evs := by
        simp only [denoteL, specLoop, hrun] at hs
        cases hb : scriptAt script dflt (callsOf id (freshTgt d kids log).log) with
        | true =>
          simp only [hb] at hs
          have := specLoop_rel Ext Ext.refl Ext.trans _ (denoteL_ext rest) tg1
          rw [hs] at this
          obtain ⟨_, _, evs, hl, _⟩ := this
          exact ⟨evs, hl⟩
        | false =>
          simp only [hb] at hs
          have := runEach_rel Ext Ext.refl Ext.trans ((denoteL rest).filter (fun x => x.ra.on))
            (fun x hx => denoteL_ext rest x (List.mem_filter.mp hx).1) false tg1
          rw [hs] at this
          obtain ⟨_, _, evs, hl, _⟩ := this
          exact ⟨evs, hl⟩
      obtain ⟨evs, hl⟩ := hext
      exact ⟨evs ++ evs2, by rw [he2, hl]; simp [tg1, freshTgt]⟩

end Tree

section TreeExamples
/-- root `r` with stack `[mock 1 (writes perm k0 := 7), mock 2]`, a security, and a child strategy `c` with `[mock 3]` -/
def exTree : SNode Int :=
  .strat ⟨"r", 0, false, [.mock .absent 1 [true] true [("t", .int 1)] [("k0", .int 7)], .mock .absent 2 [] true [] []],
          [("garbage", .int 9)], []⟩
    [.sec "a" 0 false, .strat ⟨"c", 0, false, [.mock .absent 3 [] true [] []], [], []⟩ []]

example : preorder exTree = ["r", "c"] := by decide
/-- the run completes (hypothesis of `strategy_run_order`), enters `r` then `c`, calls mocks 1, 2, 3 -/
example : ∃ t', runNode exTree [] = .done t' (runNode exTree []).logOf := TOut.done_of_isDone _ (by decide)
example : visitsOf (runNode exTree []).logOf = ["r", "c"] ∧ calledIds (runNode exTree []).logOf = [1, 2, 3] := by decide
/-- two runs (hypothesis of `run_times_order`); the garbage left in temp is gone and perm written in run 1 is seen in run 2 -/
example : ∃ t', runTimes 2 exTree [] = .done t' (runTimes 2 exTree []).logOf := TOut.done_of_isDone _ (by decide +kernel)
example : visitsOf (runTimes 2 exTree []).logOf = ["r", "c", "r", "c"] := by decide +kernel
/-- hypotheses of `first_call_sees_empty_temp_and_kept_perm`: the stack starts with a mock and the run completes; the
    log indeed starts with the visit and that mock's call with empty temp (the garbage is gone) and the kept perm -/
example : (runNode exTree []).logOf.take 2 = [Ev.visit "r", Ev.call "r" 1 [] []] := by decide +kernel
/-- second run: the first call sees empty temp again and the perm entry written in the first run -/
example : ((runTimes 2 exTree []).logOf.drop 5).take 2 = [Ev.visit "r", Ev.call "r" 1 [] [("k0", .int 7)]] := by
  decide +kernel
example : clearTemps exTree = clearTemps (match exTree with | .strat d kids => .strat { d with temp := [] } kids | t => t) := rfl
end TreeExamples

end Bt.C13
