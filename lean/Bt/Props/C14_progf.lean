import Bt.Proofs.ProgramF
import Bt.Proofs.ProgramW
import Bt.Proofs.ProgramXEx
import Bt.Props.C14
/-! C14 inside whole programs — **what the frame-driven selection algos hand to the weigher**.

    The extended whole-program model (`Bt/Algos/ProgramX.lean`, what the `whole-run-x` protocol executes against complete
    real backtests) runs `SelectWhere(signal)` and `SetStat(stat, lag)` + `SelectN(n, …)` as selection steps (`SelStep.where_`,
    `SelStep.statN`) on the strategy's universe table; the frame's row for the date (`rows[d]`) is resolved by pandas on the
    Python side.  As corollaries of the C14 theorems about the single algos:

    (1) after a `SelectWhere` step on a date the frame has a row for, `temp['selected']` is exactly the names whose signal
        is True — in the frame's column order — that are universe columns with a present, positive price on the current row;
        on a date the frame has no row for the selection is left as it was;
    (2) after `SetStat` + `SelectN` it is the `n` best by the statistic of the row at `now − lag` (`C14.selectN_spec`); when the
        frame has no row for `now − lag` the stack stops and the day does nothing;
    (3) with `WeighEqually` behind them that list is what is weighed and handed to the post steps / `Rebalance`;
    (4) `Require(len > 0)` stops the stack exactly on an empty (or, with `if_none = False`, absent) selection.
    Helper lemmas: `Bt.Proofs.ProgramF` (namespace `Bt.PProgF`). -/
set_option linter.unusedSectionVars false
set_option linter.unusedVariables false
namespace Bt.C14F
open Bt Bt.P08 Bt.P04 Bt.Prog Bt.PProg Bt.PProgX Bt.PProgW Bt.PProgF Bt.Select

variable {K : Type} [Field K] [LinearOrder K] [IsStrictOrderedRing K] [HasFloor K] [Select.HasNatFloor K]

/-! ### (1) `SelectWhere` -/

/-- a `SelectWhere` step at the end of a selection part whose earlier steps left `temp['selected'] = prior`: it is the
    single algo of C14 (`Select.selectWhere`) on the frame's row for the date -/
theorem where_step {T : Table Nat K} {d : Nat} {pre : List (SelStep K)} {prior : Option (List Nat)}
    (hpre : selSteps T d pre none = .ok (some prior)) (scols : List Nat) (rows : List (Option (List (Option Bool))))
    (nd neg : Bool) :
    selSteps T d (pre ++ [.where_ scols rows nd neg]) none =
      (selectWhere T d scols (rows.getD d none) nd neg prior).map some :=
  selSteps_snoc hpre _

/-- **the selection after `SelectWhere(signal)`** (default flags) on a date the frame has the row `r` for: exactly the names
    whose signal is True, in the frame's column order, kept when they have a present, positive price on the current row of
    the universe — so all of them are universe columns and tradable -/
theorem where_selected {T : Table Nat K} {d : Nat} {pre : List (SelStep K)} {prior : Option (List Nat)}
    {scols : List Nat} {rows : List (Option (List (Option Bool)))} {r : List (Option Bool)} {out : Option (List Nat)}
    (hpre : selSteps T d pre none = .ok (some prior)) (hr : rows.getD d none = some r)
    (h : selSteps T d (pre ++ [.where_ scols rows false false]) none = .ok (some out)) :
    ∃ l row, out = some l ∧ T.rows[d]? = some row ∧
      l = (sigTrue scols r).filter (tradableAt T.cols row false) ∧
      (∀ k, k ∈ l ↔ (k, some true) ∈ scols.zip r ∧ tradableAt T.cols row false k = true) ∧
      l ⊆ T.cols ∧ ∀ k ∈ l, Tradable T d k := by
  rw [where_step hpre, hr] at h
  obtain ⟨res, hres, he⟩ := map_eq_ok h
  cases he
  rcases C14.selectWhere_spec hres with ⟨h1, _⟩ | ⟨r', l, hr', ho, hf⟩
  · cases h1
  · cases hr'
    rcases filterNow_ok hf with ⟨h1, _⟩ | ⟨_, row, hrow, hk, hl⟩
    · cases h1
    · refine ⟨l, row, ho, hrow, hl, ?_, ?_, fun k hk' => (filterNow_default hf k hk').2.2⟩
      · intro k
        rw [hl, List.mem_filter, C14.mem_sigTrue]
      · intro k hk'
        exact (filterNow_default hf k hk').2.1

/-- … and on a date the frame has no row for, `SelectWhere` leaves the selection as it was (and answers True) -/
theorem where_no_row {T : Table Nat K} {d : Nat} {pre : List (SelStep K)} {prior : Option (List Nat)}
    (hpre : selSteps T d pre none = .ok (some prior)) (scols : List Nat) {rows : List (Option (List (Option Bool)))}
    (nd neg : Bool) (hr : rows.getD d none = none) :
    selSteps T d (pre ++ [.where_ scols rows nd neg]) none = .ok (some prior) := by
  rw [where_step hpre, hr]
  rfl

/-- no look-ahead of the step: it reads the universe table up to the current row (`C14.selectWhere_no_lookahead`) and
    the frame's row for the current date only -/
theorem where_reads_current_row (T : Table Nat K) (d : Nat) (prior : Option (List Nat)) (scols : List Nat)
    (rows rows' : List (Option (List (Option Bool)))) (nd neg : Bool) (h : rows.getD d none = rows'.getD d none) :
    selStep (T.truncate d) d prior (.where_ scols rows nd neg) = selStep T d prior (.where_ scols rows' nd neg) := by
  simp only [selStep, C14.selectWhere_no_lookahead, h]

/-! ### (2) `SetStat` + `SelectN` -/

/-- a `SetStat + SelectN` step at the end of a selection part: `Select.setStat` on the frame's row at `now − lag`, then
    the single algo `Select.selectN` of C14 -/
theorem statN_step {T : Table Nat K} {d : Nat} {pre : List (SelStep K)} {prior : Option (List Nat)}
    (hpre : selSteps T d pre none = .ok (some prior)) (scols : List Nat) (rows : List (Option (List (Option K))))
    (n : NSpec K) (asc aon fs : Bool) :
    selSteps T d (pre ++ [.statN scols rows n asc aon fs]) none =
      (selectStatN scols (rows.getD d none) prior n asc aon fs).map fun r => r.map some :=
  selSteps_snoc hpre _

/-- **the selection after `SetStat(stat, lag)` + `SelectN(n, …)`** when the frame has the row `r` at `now − lag` (its columns
    pairwise different): the output of `SelectN` on `temp['stat'] = zip(columns, r)`, which satisfies the order-insensitive
    relation `selectNOk` the real algo is checked against, hence (`C14.selectN_spec`): with `k = keep_n` as the code computes
    it, either `all_or_none` empties it for want of `k` eligible names, or it has `min(k, #eligible)` entries, each with a
    non-missing statistic (inside the prior selection when `filter_selected`), ordered by the statistic, and every eligible
    name left out ranks no better than every name taken -/
theorem statN_selected {T : Table Nat K} {d : Nat} {pre : List (SelStep K)} {prior : Option (List Nat)}
    {scols : List Nat} {rows : List (Option (List (Option K)))} {r : List (Option K)} {n : NSpec K} {asc aon fs : Bool}
    {out : Option (List Nat)}
    (hpre : selSteps T d pre none = .ok (some prior)) (hr : rows.getD d none = some r) (hnd : scols.Nodup)
    (h : selSteps T d (pre ++ [.statN scols rows n asc aon fs]) none = .ok (some out)) :
    ∃ l, out = some l ∧ selectN (some (scols.zip r)) prior n asc aon fs = .ok l ∧
      ∃ k, keepN n (eligible (scols.zip r) prior fs).length = .ok k ∧
        ((aon = true ∧ (eligible (scols.zip r) prior fs).length < k ∧ l = []) ∨
         ((aon = false ∨ k ≤ (eligible (scols.zip r) prior fs).length) ∧
          l.length = min k (eligible (scols.zip r) prior fs).length ∧
          (∀ o ∈ l, ∃ v, (o, some v) ∈ scols.zip r ∧ (fs = true → ∀ p, prior = some p → o ∈ p)) ∧
          (l.filterMap (valOf (eligible (scols.zip r) prior fs))).Pairwise (fun a b => if asc then a ≤ b else b ≤ a) ∧
          (∀ e v w, (e, some w) ∈ scols.zip r → (fs = true → ∀ p, prior = some p → e ∈ p) → e ∉ l →
            ∀ o ∈ l, valOf (eligible (scols.zip r) prior fs) o = some v → if asc then v ≤ w else w ≤ v))) := by
  rw [statN_step hpre, hr, selectStatN_some] at h
  obtain ⟨res, hres, he⟩ := map_eq_ok h
  obtain ⟨l, hl, he2⟩ := map_eq_ok hres
  subst he2
  simp only [Option.map_some, Option.some.injEq] at he
  have hok := C14.selectN_fun_satisfies_rel (fun s hs => by cases hs; exact zip_fst_nodup hnd r) hl
  exact ⟨l, he.symm, hl, C14.selectN_spec hok⟩

/-- when the frame has no row at `now − lag`, `SetStat` answers False: the selection part stops … -/
theorem statN_no_row {T : Table Nat K} {d : Nat} {pre : List (SelStep K)} {prior : Option (List Nat)}
    (hpre : selSteps T d pre none = .ok (some prior)) (scols : List Nat) {rows : List (Option (List (Option K)))}
    (n : NSpec K) (asc aon fs : Bool) (hr : rows.getD d none = none) :
    selSteps T d (pre ++ [.statN scols rows n asc aon fs]) none = .ok none := by
  rw [statN_step hpre, hr, selectStatN_none]
  rfl

/-- … and the whole stack does nothing that day -/
theorem progRunX_statN_no_row (cfg : Cfg K) (p : ProgX K) (path : List Nat) (d : Nat) (w : World K) (sd : StratData K)
    (kids : List (Node K)) (pre : List (SelStep K)) (prior : Option (List Nat)) (scols : List Nat)
    (rows : List (Option (List (Option K)))) (n : NSpec K) (asc aon fs : Bool)
    (hn : w.root.get? path = some (.strat sd kids)) (hsels : p.sels = pre ++ [.statN scols rows n asc aon fs])
    (hpre : selSteps (tableOf p.ucols kids d) d pre none = .ok (some prior)) (hr : rows.getD d none = none) :
    progRunX cfg p path d w = .ok w :=
  progRunX_sel_false hn (by rw [hsels]; exact statN_no_row hpre scols n asc aon fs hr)

/-! ### (3) what the weigher is handed -/

/-- **`[…, SelectWhere(signal), WeighEqually, post…, Rebalance]`** on a day the gate is open and the frame has the row `r`:
    `WeighEqually` weighs exactly the signalled, tradable names `l` (in the frame's column order), and these weights go
    through the post steps to `Rebalance` -/
theorem progRunX_where_equally (cfg : Cfg K) (p : ProgX K) (path : List Nat) (d : Nat) (w : World K) (sd : StratData K)
    (kids : List (Node K)) (pre : List (SelStep K)) (prior : Option (List Nat)) (scols : List Nat)
    (rows : List (Option (List (Option Bool)))) (r : List (Option Bool)) (l : List Nat)
    (hg : p.gate.getD d false = true) (hn : w.root.get? path = some (.strat sd kids))
    (hsels : p.sels = pre ++ [.where_ scols rows false false]) (ht : p.target = none) (hwg : p.wgh = .equally)
    (hpre : selSteps (tableOf p.ucols kids d) d pre none = .ok (some prior)) (hr : rows.getD d none = some r)
    (hf : filterNow (tableOf p.ucols kids d) d false false (sigTrue scols r) = .ok l) :
    progRunX cfg p path d w =
      (postSteps cfg path p.post (w, Prog.weights .equally l)).bind fun s =>
        algoRebalance cfg s.1 path s.2 p.cash none := by
  have hs : selSteps (tableOf p.ucols kids d) d p.sels none = .ok (some (some l)) := by
    rw [hsels, where_step hpre, hr]
    simp only [selectWhere, hf]
    rfl
  exact progRunX_unfold hg hn hs ht (by rw [hwg]; rfl)

/-- **`[…, SetStat(stat, lag), SelectN(n, …), WeighEqually, post…, Rebalance]`**: `WeighEqually` weighs exactly what `SelectN`
    ranked first on the statistic's row at `now − lag` -/
theorem progRunX_statN_equally (cfg : Cfg K) (p : ProgX K) (path : List Nat) (d : Nat) (w : World K) (sd : StratData K)
    (kids : List (Node K)) (pre : List (SelStep K)) (prior : Option (List Nat)) (scols : List Nat)
    (rows : List (Option (List (Option K)))) (r : List (Option K)) (n : NSpec K) (asc aon fs : Bool) (l : List Nat)
    (hg : p.gate.getD d false = true) (hn : w.root.get? path = some (.strat sd kids))
    (hsels : p.sels = pre ++ [.statN scols rows n asc aon fs]) (ht : p.target = none) (hwg : p.wgh = .equally)
    (hpre : selSteps (tableOf p.ucols kids d) d pre none = .ok (some prior)) (hr : rows.getD d none = some r)
    (hl : selectN (some (scols.zip r)) prior n asc aon fs = .ok l) :
    progRunX cfg p path d w =
      (postSteps cfg path p.post (w, Prog.weights .equally l)).bind fun s =>
        algoRebalance cfg s.1 path s.2 p.cash none := by
  have hs : selSteps (tableOf p.ucols kids d) d p.sels none = .ok (some (some l)) := by
    rw [hsels, statN_step hpre, hr, selectStatN_some, hl]
    rfl
  exact progRunX_unfold hg hn hs ht (by rw [hwg]; rfl)

/-! ### (4) `Require(lambda x: len(x) > 0, 'selected', if_none)` -/

/-- the step stops the stack exactly when nothing is selected (an absent `temp['selected']`: when `if_none` is False),
    and otherwise leaves the selection as it is -/
theorem require_step {T : Table Nat K} {d : Nat} {pre : List (SelStep K)} {prior : Option (List Nat)}
    (hpre : selSteps T d pre none = .ok (some prior)) (ifNone : Bool) :
    selSteps T d (pre ++ [.require ifNone]) none =
      .ok (if requireSel ifNone prior then some prior else none) ∧
    (requireSel ifNone prior = true ↔ (prior = none ∧ ifNone = true) ∨ ∃ l, prior = some l ∧ l ≠ []) := by
  refine ⟨selSteps_snoc hpre _, ?_⟩
  cases prior with
  | none => simp [requireSel]
  | some l => cases l <;> simp [requireSel]

/-! ### non-vacuity: concrete programs on data set A (`x`: –, 10, 11, 12; `y`: –, 20, 19, 21; `z`: –, 50, 50, 55) -/

/-- the signal frame (columns `z`, `x`, `y`) has rows for the dates of rows 1 and 3 only -/
def sigE : List (Option (List (Option Bool))) :=
  [none, some [some true, some true, some false], none, some [some false, none, some true]]

/-- the statistic frame (columns `x`, `y`, `z`), read with a lag: on rows 2 and 3 the rows published for rows 1 and 2 -/
def statE : List (Option (List (Option Rat))) :=
  [none, none, some [some 3, some 7, none], some [some 5, some 1, some 2]]

/-- `[RunPeriod, SelectAll, SelectWhere(sigE), WeighEqually, Rebalance]` over `x`, `y`, `z` -/
def progWhere : ProgX Rat :=
  { gate := [false, true, true, true], ucols := [0, 1, 2], sels := [.all false false, .where_ [2, 0, 1] sigE false false],
    wgh := .equally }

/-- `[RunPeriod, SelectAll, SetStat(statE, lag), SelectN(1), WeighEqually, Rebalance]` -/
def progStat : ProgX Rat :=
  { gate := [false, true, true, true], ucols := [0, 1, 2],
    sels := [.all false false, .statN [0, 1, 2] statE (.int 1) false false false], wgh := .equally }

/-- (1): row 1 — `z` and `x` are signalled (in the frame's order), both have a price; row 2 — no row in the frame, `SelectAll`'s
    selection stands; row 3 — only `y` is signalled -/
example : selSteps (tableOf [0, 1, 2] [.sec xE, .sec yE, .sec zE] 1) 1 progWhere.sels none = .ok (some (some [2, 0])) ∧
    selSteps (tableOf [0, 1, 2] [.sec xE, .sec yE, .sec zE] 2) 2 progWhere.sels none = .ok (some (some [0, 1, 2])) ∧
    selSteps (tableOf [0, 1, 2] [.sec xE, .sec yE, .sec zE] 3) 3 progWhere.sels none = .ok (some (some [1])) := by
  refine ⟨by decide +kernel, by decide +kernel, by decide +kernel⟩

/-- the hypotheses of `where_selected` hold on row 1, and its conclusion names the list -/
example : ∃ l row, (tableOf [0, 1, 2] [Node.sec xE, .sec yE, .sec zE] 1).rows[1]? = some row ∧
    l = (sigTrue [2, 0, 1] [some true, some true, some false]).filter
      (tradableAt (tableOf [0, 1, 2] [Node.sec xE, .sec yE, .sec zE] 1).cols row false) ∧ l = [2, 0] := by
  have hpre : selSteps (tableOf [0, 1, 2] [Node.sec xE, .sec yE, .sec zE] 1) 1 [.all false false] none =
      .ok (some (some [0, 1, 2])) := by decide +kernel
  have h : selSteps (tableOf [0, 1, 2] [Node.sec xE, .sec yE, .sec zE] 1) 1
      ([.all false false] ++ [.where_ [2, 0, 1] sigE false false]) none = .ok (some (some [2, 0])) := by decide +kernel
  obtain ⟨l, row, ho, hrow, hl, _⟩ := where_selected hpre (r := [some true, some true, some false]) rfl h
  cases ho
  exact ⟨_, row, hrow, hl, rfl⟩

/-- (3): on row 1 the day of `progWhere` is `Rebalance` to half `z`, half `x` (in that order) -/
example : progRunX cfgE progWhere [] 1 wXA = algoRebalance cfgE wXA [] [(2, 1/2), (0, 1/2)] none none := by
  have hpre : selSteps (tableOf progWhere.ucols [Node.sec xE, .sec yE, .sec zE] 1) 1 [.all false false] none =
      .ok (some (some [0, 1, 2])) := by decide +kernel
  rw [progRunX_where_equally cfgE progWhere [] 1 wXA (stratE "root" false) [.sec xE, .sec yE, .sec zE]
    [.all false false] (some [0, 1, 2]) [2, 0, 1] sigE [some true, some true, some false] [2, 0] rfl rfl rfl rfl rfl hpre rfl
    (by decide +kernel)]
  show (postSteps cfgE [] [] (wXA, Prog.weights .equally [2, 0])).bind _ = _
  rw [postSteps_nil, bind_ok']
  have e : Prog.weights (.equally : Wgh Rat) [2, 0] = [(2, 1/2), (0, 1/2)] := by decide +kernel
  rw [e]
  rfl

/-- (2): row 1 — the frame has no row at `now − lag`: the stack stops; row 2 — the best of (3, 7, –) is `y`; row 3 — of (5, 1, 2)
    it is `x` -/
example : selSteps (tableOf [0, 1, 2] [.sec xE, .sec yE, .sec zE] 1) 1 progStat.sels none = .ok none ∧
    selSteps (tableOf [0, 1, 2] [.sec xE, .sec yE, .sec zE] 2) 2 progStat.sels none = .ok (some (some [1])) ∧
    selSteps (tableOf [0, 1, 2] [.sec xE, .sec yE, .sec zE] 3) 3 progStat.sels none = .ok (some (some [0])) ∧
    progRunX cfgE progStat [] 1 wXA = .ok wXA := by
  refine ⟨by decide +kernel, by decide +kernel, by decide +kernel, ?_⟩
  exact progRunX_statN_no_row cfgE progStat [] 1 wXA (stratE "root" false) [.sec xE, .sec yE, .sec zE]
    [.all false false] (some [0, 1, 2]) [0, 1, 2] statE (.int 1) false false false rfl rfl (by decide +kernel) rfl

/-- the hypotheses of `statN_selected` hold on row 2: one name, `y`, whose statistic 7 is the largest present -/
example : ∃ l, selectN (some ([0, 1, 2].zip [some (3 : Rat), some 7, none])) (some [0, 1, 2]) (.int 1) false false false = .ok l ∧
    l = [1] := by
  have hpre : selSteps (tableOf [0, 1, 2] [Node.sec xE, .sec yE, .sec zE] 2) 2 [.all false false] none =
      .ok (some (some [0, 1, 2])) := by decide +kernel
  have h : selSteps (tableOf [0, 1, 2] [Node.sec xE, .sec yE, .sec zE] 2) 2
      ([.all false false] ++ [.statN [0, 1, 2] statE (.int 1) false false false]) none = .ok (some (some [1])) := by
    decide +kernel
  obtain ⟨l, ho, hl, _⟩ := statN_selected hpre (r := [some 3, some 7, none]) rfl (by decide) h
  cases ho
  exact ⟨_, hl, rfl⟩

/-- (4): `Require` after a `SelectWhere` that signals nothing tradable stops the stack -/
example : selSteps (tableOf [0, 1, 2] [.sec xE, .sec yE, .sec zE] 1) 1
      ([.all false false, .where_ [0] [none, some [some false]] false false] ++ [.require false]) none = .ok none ∧
    requireSel false (some ([] : List Nat)) = false := by
  have hpre : selSteps (tableOf [0, 1, 2] [Node.sec xE, .sec yE, .sec zE] 1) 1
      [.all false false, .where_ [0] [none, some [some false]] false false] none = .ok (some (some [])) := by
    decide +kernel
  exact ⟨(require_step hpre false).1, rfl⟩

end Bt.C14F
