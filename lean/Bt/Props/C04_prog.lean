import Bt.Proofs.Program
import Bt.Proofs.ProgramEx
import Bt.Props.C04
/-! C04 for whole programs — **no look-ahead with no hypothesis on the algos**.

    `Bt.Prog` (`Bt/Algos/Program.lean`) models a strategy's stack `[RunPeriod(flags), SelectAll | SelectThese,
    WeighEqually | WeighSpecified, Rebalance]` as `progRun cfg p path : RunFn`, a tree of strategies as
    `treeRun` (own stack, then every child strategy's, depth first) and `Backtest.run` as
    `Prog.backtest cfg tree capital dates w0 = btRun cfg (treeRun cfg tree []) capital dates w0`.  The model is run
    end to end against the real `Backtest.run()` (protocol `whole-run`).

    C04's main theorem (`backtest_causal`) has two hypotheses on the algo function: `P04.Causal t run` and
    `P04.RunPublic cfg run`.  Here both are *proved* for every program, every path and every `t`
    (`treeRun_causal`, `treeRun_public`), so that `prog_backtest_causal` has none left: the only place where a
    program reads supplied data is the selector, and it reads row `d` of the price columns (`selected_trunc`);
    the weigher does not read the world at all.  Helper lemmas: `Bt.Proofs.Program` (namespace `Bt.PProg`);
    the concrete programs of the `example`s: `Bt.Proofs.ProgramEx`. -/
set_option linter.unusedSectionVars false
namespace Bt.C04
open Bt Bt.P08 Bt.P04 Bt.Prog Bt.PProg

variable {K : Type} [Field K] [LinearOrder K] [IsStrictOrderedRing K] [HasFloor K]

/-! ### (1) the selector reads row `d` only -/

/-- `target.universe.loc[now, child]` of a child whose supplied data are truncated after `t ≥ d` -/
theorem uniPrice_trunc {d t : Nat} (h : d ≤ t) (k : Node K) : uniPrice d (k.trunc t) = uniPrice d k :=
  PProg.uniPrice_trunc h k

example : uniPrice 1 ((Node.sec xE).trunc 1) = some 10 ∧ uniPrice 3 ((Node.sec xE).trunc 1) = none ∧
    uniPrice 3 (Node.sec xE) = some 12 := by decide +kernel

/-- **`SelectAll` / `SelectThese` at row `d ≤ t`** select the same children on the data truncated after `t`:
    the strategy found at `path` in the truncated world has the truncated children, and on those the selection is
    the same. -/
theorem selected_trunc (sel : Sel) (ucols : List Nat) (w : World K) (path : List Nat) {d t : Nat} (h : d ≤ t)
    (sd : StratData K) (kids : List (Node K)) (hg : w.root.get? path = some (.strat sd kids)) :
    (w.trunc t).root.get? path = some (.strat sd (Node.truncL t kids)) ∧
      selected sel ucols (Node.truncL t kids) d = selected sel ucols kids d := by
  refine ⟨?_, selected_truncL h sel ucols kids⟩
  rw [world_trunc_root, get?_trunc, hg]; rfl

/-- row 3 of data set B (`x` at 6, `y` at 42) is invisible at row 2; on row 0 nothing has a price -/
example : selected progE.sel progE.ucols (Node.truncL 2 [.sec xE, .sec yE]) 2 = [0, 1] ∧
    selected progE.sel progE.ucols [.sec xE, .sec yE] 0 = [] ∧
    wEA.trunc 2 = wEB.trunc 2 ∧ wEA.trunc 3 ≠ wEB.trunc 3 := by
  refine ⟨by decide +kernel, by decide +kernel, rfl, ?_⟩
  intro h
  have := congrArg (fun w : World Rat => (w.root.get? [0]).bind (uniPrice 3)) h
  revert this
  decide +kernel

/-- the weigher is a function of the selection alone (it has no world argument); e.g. `WeighEqually` -/
theorem weights_equally (sel : List Nat) (h : sel ≠ []) :
    weights (Wgh.equally : Wgh K) sel = sel.map fun i => (i, (1 : K) / (sel.length : K)) := by
  cases sel with
  | nil => exact absurd rfl h
  | cons a l => rfl

example : weights (Wgh.equally : Wgh Rat) [0, 1] = [(0, 1/2), (1, 1/2)] := by decide +kernel

/-! ### (2) every program is causal and public -/

/-- **one strategy's stack commutes with truncation after `t`** at every date `d ≤ t`, on every world whose clocks
    are `≤ t` (`P04.CausalStrong`) … -/
theorem progRun_trunc (cfg : Cfg K) (p : Prog K) (path : List Nat) {d t : Nat} (hd : d ≤ t) (w : World K)
    (hw : ClockLE t w) :
    progRun cfg p path d (w.trunc t) = (progRun cfg p path d w).map (World.trunc t) :=
  PProg.progRun_trunc p path hd hw

/-- … hence is causal in the sense of C04, for every program, every path, every `t` -/
theorem progRun_causal (cfg : Cfg K) (p : Prog K) (path : List Nat) (t : Nat) :
    Causal t (progRun cfg p path) :=
  (progRun_causalStrong p path t).causal

/-- every effect of it goes through the public API, explicit `root.update`s at the date of the call only
    (C04's strengthened `RunPublic`: under `AtClock d w`) -/
theorem progRun_public (cfg : Cfg K) (p : Prog K) (path : List Nat) : RunPublic cfg (progRun cfg p path) :=
  PProg.progRun_public p path

example : Causal 2 (progRun cfgE progE []) ∧ RunPublic cfgE (progRun cfgE progE []) ∧
    (progRun cfgE progE [] 0 wEA).toOption.map (·.root.value) = some 0 :=
  ⟨progRun_causal cfgE progE [] 2, progRun_public cfgE progE [], by decide +kernel⟩

/-- **a whole tree of strategies** (own stack, then every child strategy's, depth first) -/
theorem treeRun_causal (cfg : Cfg K) (tr : ProgTree K) (path : List Nat) (t : Nat) :
    Causal t (treeRun cfg tr path) :=
  (treeRun_causalStrong tr path t).causal
theorem treeRun_public (cfg : Cfg K) (tr : ProgTree K) (path : List Nat) : RunPublic cfg (treeRun cfg tr path) :=
  PProg.treeRun_public tr path

/-- the children loop of `Strategy.run()` (the other half of the mutual induction) -/
theorem kidsRun_causal (cfg : Cfg K) (ks : List (Option (ProgTree K))) (path : List Nat) (i t : Nat) :
    Causal t (kidsRun cfg ks path i) :=
  (kidsRun_causalStrong ks path i t).causal
theorem kidsRun_public (cfg : Cfg K) (ks : List (Option (ProgTree K))) (path : List Nat) (i : Nat) :
    RunPublic cfg (kidsRun cfg ks path i) :=
  PProg.kidsRun_public ks path i

/-- the nested program (root over a sub-strategy with its own stack and a security) -/
example : Causal 2 (treeRun cfgE treeParE []) ∧ RunPublic cfgE (treeRun cfgE treeParE []) ∧
    treeRun cfgE treeParE [] 1 (wParE.trunc 1) = (treeRun cfgE treeParE [] 1 wParE).map (World.trunc 1) :=
  ⟨treeRun_causal cfgE treeParE [] 2, treeRun_public cfgE treeParE [],
    treeRun_trunc treeParE [] 1 wParE (le_refl 1) (by
      refine ⟨?_, ?_⟩ <;> simp [wParE, stratE, NowsIn, NowsInL, Ck, Node.now])⟩

/-! ### (3) `Backtest.run` of a program on truncated data -/

/-- **`Prog.backtest` over dates all `≤ t` on the data truncated after `t`** raises the same error or returns the
    truncation of the same world — for every program tree, from any world. -/
theorem prog_backtest_trunc (cfg : Cfg K) (tr : ProgTree K) {t : Nat} (capital : K) (dates : List Nat)
    (hds : ∀ d ∈ dates, d ≤ t) (w0 : World K) :
    Prog.backtest cfg tr capital dates (w0.trunc t) =
      (Prog.backtest cfg tr capital dates w0).map (World.trunc t) :=
  btRun_trunc cfg (treeRun_causal cfg tr [] t) capital dates hds w0

example : Prog.backtest cfgE treeE 1000 [0, 1, 2] (wEA.trunc 2) =
      (Prog.backtest cfgE treeE 1000 [0, 1, 2] wEA).map (World.trunc 2) ∧
    Prog.backtest cfgE treeE 1000 [0, 1, 2] (wEA.trunc 2) = Prog.backtest cfgE treeE 1000 [0, 1, 2] (wEB.trunc 2) ∧
    ((Prog.backtest cfgE treeE 1000 [0, 1, 2] (wEA.trunc 2)).toOption.map fun r => (rowsAt 2 r.root).take 2) =
      some [some (205 / 2), some 1025] :=
  ⟨prog_backtest_trunc cfgE treeE 1000 [0, 1, 2] (by decide) wEA, rfl, by decide +kernel⟩

/-! ### (4) main theorem: no `Causal` / `RunPublic` hypothesis left -/

/-- **the loop of `Backtest.run`** — `backtest_causal` with `run := treeRun cfg tr []`. -/
theorem prog_loop_causal (cfg : Cfg K) (tr : ProgTree K) {t : Nat} {w w' : World K}
    (hw : w.trunc t = w'.trunc t) (hz : HedgeZero w.root)
    (pre post : List Nat) (hpre : ∀ d ∈ pre, d ≤ t) (hpost : ∀ d ∈ post, t < d) {r r' : World K}
    (h : btLoop cfg (treeRun cfg tr []) (pre ++ post) w = .ok r)
    (h' : btLoop cfg (treeRun cfg tr []) (pre ++ post) w' = .ok r') :
    (∀ j, j ≤ t → rowsAt j r.root = rowsAt j r'.root) ∧ rowLens r.root = rowLens r'.root :=
  backtest_causal cfg (treeRun_causal cfg tr [] t) (treeRun_public cfg tr []) hw hz pre post hpre hpost h h'

/-- **No look-ahead of whole backtests (C04 for programs).**  Any program tree `tr` (any gates, selectors,
    weighers, any nesting); two data sets that agree on every row `≤ t` and are arbitrary afterwards
    (`w.trunc t = w'.trunc t`); dates `d0 :: (pre ++ post)` with `d0` and `pre` all `≤ t` and `post` all `> t`; the
    initial tree with all-zero hedge notional rows (any freshly set-up tree).  If both complete backtests
    (`adjust(capital)`, `update(d0)`, the loop) succeed, every recorded entry of every node at every index `j ≤ t`
    (`P08.rowsAt j`) is the same in both results and all rows have the same lengths.  No hypothesis on the algos. -/
theorem prog_backtest_causal (cfg : Cfg K) (tr : ProgTree K) {t : Nat} {w w' : World K}
    (hw : w.trunc t = w'.trunc t) (hz : HedgeZero w.root) (capital : K) (d0 : Nat) (hd0 : d0 ≤ t)
    (pre post : List Nat) (hpre : ∀ d ∈ pre, d ≤ t) (hpost : ∀ d ∈ post, t < d) {r r' : World K}
    (h : Prog.backtest cfg tr capital (d0 :: (pre ++ post)) w = .ok r)
    (h' : Prog.backtest cfg tr capital (d0 :: (pre ++ post)) w' = .ok r') :
    (∀ j, j ≤ t → rowsAt j r.root = rowsAt j r'.root) ∧ rowLens r.root = rowLens r'.root :=
  btRun_causal (treeRun_causal cfg tr [] t) (treeRun_public cfg tr []) hw hz capital d0 hd0 pre post hpre hpost h h'

theorem wEA_hedgeZero : HedgeZero wEA.root := by
  simp [wEA, xE, yE, secE, HedgeZero, HedgeZeroL, isHedge]

/-- data sets A and B (equal on rows 0-2, different on row 3 where the gate is open): both backtests succeed,
    everything recorded for rows 0, 1, 2 agrees (index 100, 100, 102.5), row 3 does not (112.5 against 135) -/
example : ∃ r r', Prog.backtest cfgE treeE 1000 (0 :: ([1, 2] ++ [3])) wEA = .ok r ∧
    Prog.backtest cfgE treeE 1000 (0 :: ([1, 2] ++ [3])) wEB = .ok r' ∧
    (∀ j, j ≤ 2 → rowsAt j r.root = rowsAt j r'.root) ∧
    (rowsAt 2 r.root).take 2 = [some (205 / 2), some 1025] ∧
    (rowsAt 3 r.root).take 1 = [some (225 / 2)] ∧ (rowsAt 3 r'.root).take 1 = [some 135] := by
  have hA : (Prog.backtest cfgE treeE 1000 [0, 1, 2, 3] wEA).toOption.map
      (fun r => ((rowsAt 2 r.root).take 2, (rowsAt 3 r.root).take 1)) =
      some ([some (205 / 2), some 1025], [some (225 / 2)]) := by decide +kernel
  have hB : (Prog.backtest cfgE treeE 1000 [0, 1, 2, 3] wEB).toOption.map (fun r => (rowsAt 3 r.root).take 1) =
      some [some 135] := by decide +kernel
  obtain ⟨r, hr, ha⟩ := P16.exists_of_toOption_map hA
  obtain ⟨r', hr', hb⟩ := P16.exists_of_toOption_map hB
  simp only [Prod.mk.injEq] at ha
  exact ⟨r, r', hr, hr',
    (prog_backtest_causal cfgE treeE (t := 2) (w := wEA) (w' := wEB) rfl wEA_hedgeZero 1000 0 (by decide) [1, 2] [3] (by decide) (by decide)
      hr hr').1, ha.1, ha.2, hb⟩

/-- the remaining case, `t` before the first date (`dates` all `> t`; the initial clocks unset or `> t`, as in every
    freshly set-up tree): nothing is recorded at indices `≤ t`, and the initial rows there agree -/
theorem prog_backtest_causal_late (cfg : Cfg K) (tr : ProgTree K) {t : Nat} {w w' : World K}
    (hw : w.trunc t = w'.trunc t) (hz : HedgeZero w.root) (hck : WOK (t < ·) w) (hck' : WOK (t < ·) w')
    (capital : K) (dates : List Nat) (hds : ∀ d ∈ dates, t < d) {r r' : World K}
    (h : Prog.backtest cfg tr capital dates w = .ok r) (h' : Prog.backtest cfg tr capital dates w' = .ok r') :
    (∀ j, j ≤ t → rowsAt j r.root = rowsAt j r'.root) ∧ rowLens r.root = rowLens r'.root :=
  btRun_causal_late (treeRun_public cfg tr []) hw hz hck hck' capital dates hds h h'

theorem wEA_clocks (t : Nat) : WOK (t < ·) wEA ∧ WOK (t < ·) wEB := by
  refine ⟨⟨?_, ?_⟩, ⟨?_, ?_⟩⟩ <;> simp [wEA, wEB, stratE, NowsIn, NowsInL, Ck, Node.now]

/-- data sets A and B run over the dates 1, 2, 3 only (`t = 0`): row 0 of everything recorded is the same -/
example (r r' : World Rat) (h : Prog.backtest cfgE treeE 1000 [1, 2, 3] wEA = .ok r)
    (h' : Prog.backtest cfgE treeE 1000 [1, 2, 3] wEB = .ok r') : rowsAt 0 r.root = rowsAt 0 r'.root ∧
    (Prog.backtest cfgE treeE 1000 [1, 2, 3] wEA).toOption.isSome = true :=
  ⟨(prog_backtest_causal_late cfgE treeE (t := 0) (w := wEA) (w' := wEB) rfl wEA_hedgeZero (wEA_clocks 0).1
    (wEA_clocks 0).2 1000 [1, 2, 3] (by decide) h h').1 0 (le_refl 0), by decide +kernel⟩

/-- **the error case**: over dates `≤ t` a program's backtest raises on one data set iff it raises the same error on
    the other -/
theorem prog_backtest_raises (cfg : Cfg K) (tr : ProgTree K) {t : Nat} {w w' : World K}
    (hw : w.trunc t = w'.trunc t) (capital : K) (dates : List Nat) (hds : ∀ d ∈ dates, d ≤ t) (e : Err) :
    Prog.backtest cfg tr capital dates w = .error e ↔ Prog.backtest cfg tr capital dates w' = .error e := by
  rw [← map_eq_error (f := World.trunc t), ← prog_backtest_trunc cfg tr capital dates hds w, hw,
    prog_backtest_trunc cfg tr capital dates hds w', map_eq_error]

/-- a program addressing a path that is no strategy raises `badPath` when its gate opens (row 1) — on A and on B -/
example : Prog.backtest cfgE (.node progE [some treeSubE, none]) 1000 [0, 1, 2] wEA = .error .badPath ∧
    (Prog.backtest cfgE (.node progE [some treeSubE, none]) 1000 [0, 1, 2] wEA = .error .badPath ↔
      Prog.backtest cfgE (.node progE [some treeSubE, none]) 1000 [0, 1, 2] wEB = .error .badPath) :=
  ⟨raisedE_sound (by decide +kernel), prog_backtest_raises cfgE _ (t := 2) (w := wEA) (w' := wEB) rfl 1000 [0, 1, 2] (by decide) _⟩

end Bt.C04
