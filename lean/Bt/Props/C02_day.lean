import Bt.Proofs.LedgerDay
import Bt.Proofs.LedgerDayEx
import Mathlib.Tactic.NormNum
/-! C02 — value conservation / P&L attribution at the level of a day and of the whole loop of `Backtest.run`
    (property theorems only; definitions and helper lemmas live in `Bt.Proofs.LedgerDay`).

    Vocabulary (all from `Bt.P02`):
    * `PubOp K` — one call of the public API as data (`update d`, `adjust`, `allocate`, `transact` with or
      without a custom price, `flatten`, `close`, `rebalance`, `read` of any getter); `op.run cfg` executes it,
      `op.injected` is the amount of an `adjust` and 0 otherwise, `op.AtDate d` says that an explicit `update` is
      on `d`; `runPub`/`injectedPub` for lists.  `publicStep_iff`, `run_iff`, `stepC_iff`, `runC_iff` identify
      them with `P08.PublicStep`, `P08.Run`, `P04.StepC cfg (· = d)`, `P04.RunC cfg (· = d)`.
    * `DayW d w` — the invariant of a day: the root is a strategy, every strategy stands on `d`, every security
      stands on `d` or is exactly flat (a security the update loop skips keeps an older clock until it is
      refreshed; `Node.synced` with all strategies on `d` is the special case without such securities,
      `dayW_of_synced`).
    * measures: commissions `feeSum` (`Σ last_fee`, reset only by a date change of the strategy); bid/offer and
      custom-price costs `boDay d` (`Σ` over the securities of `bidoffer_paid` as of the security's date change to
      `d`: equal to `boSum` when every security is on `d`, `boDay_eq_boSum`; for a security still on an older date
      it anticipates the reset its refresh will perform); `feeDay d`, `boCarry` are what a tree on an earlier date
      carries into `d` (`feeDay_zero`: nothing; `boDay_fresh`: the never-reset accumulators of securities
      without bid/offer data). -/
namespace Bt.C02
open Bt Bt.P02
set_option linter.unusedSectionVars false

variable {K : Type} [Field K] [LinearOrder K] [IsStrictOrderedRing K] [HasFloor K]

/-! ### (1) every public step, every run of public steps -/

/-- **`step_total`.**  EVERY public call — `update` on the same date, `adjust`, `allocate`, `transact` (custom
    price included), `flatten`, `close`, `rebalance`, the refresh of every getter — executed on a world that
    satisfies the day invariant changes `total` by exactly the capital it injects minus the commissions booked
    (`feeSum` increase) minus the bid/offer or custom-price cost paid (`boDay d` increase), anywhere in the tree;
    and it keeps the invariant.  Buying, selling, closing, flattening, rebalancing and refreshing inject
    nothing. -/
theorem step_total (cfg : Cfg K) (d : Nat) (op : PubOp K) (w w' : World K) (hW : DayW d w) (hd : op.AtDate d)
    (h : op.run cfg w = .ok w') :
    total w'.root - total w.root =
      op.injected - (feeSum w'.root - feeSum w.root) - (boDay d w'.root - boDay d w.root) ∧ DayW d w' :=
  ⟨ledger_split (op.step_D hW hd h).1, (op.step_D hW hd h).2⟩

/-- `rebalance(1/2, a)` on the root of a two-level tree (refreshing getters, then an `allocate`) -/
example : ∃ w', DayW 1 DEx.w0 ∧ (PubOp.rebalance [] (1/2) 0 none true : PubOp Rat).AtDate 1 ∧
    (PubOp.rebalance [] (1/2) 0 none true).run LEx.cfg DEx.w0 = .ok w' :=
  let ⟨w', h, _⟩ := Ex.check_ok (x := (PubOp.rebalance [] (1/2) 0 none true).run LEx.cfg DEx.w0)
    (p := fun _ => true) (by decide +kernel)
  ⟨w', DEx.w0_dayW, trivial, h⟩

/-- the same for a step of `P08.PublicStep` after which the root's clock still stands at `d` -/
theorem step_total_public (cfg : Cfg K) (d : Nat) (w w' : World K) (hW : DayW d w)
    (h : P08.PublicStep cfg w w') (hnow : w'.root.now = some d) :
    ∃ op : PubOp K, op.run cfg w = .ok w' ∧
      total w'.root - total w.root =
        op.injected - (feeSum w'.root - feeSum w.root) - (boDay d w'.root - boDay d w.root) ∧ DayW d w' := by
  obtain ⟨op, hop⟩ := publicStep_iff.1 h
  exact ⟨op, hop, step_total cfg d op w w' hW (op.atDate_of_now hop hnow) hop⟩

example : ∃ w', DayW 1 DEx.w0 ∧ P08.PublicStep LEx.cfg DEx.w0 w' ∧ w'.root.now = some 1 :=
  let ⟨w', h, hp⟩ := Ex.check_ok (x := opFlatten LEx.cfg DEx.w0 []) (p := fun w' => w'.root.now == some 1)
    (by decide +kernel)
  ⟨w', DEx.w0_dayW, .flatten [] h, by simpa using hp⟩

/-- **`run_total`.**  Any finite sequence of public calls (explicit updates on `d` only): `total` at the end is
    `total` at the start plus everything injected, minus the commissions and the bid/offer costs of the whole
    sequence; the invariant is kept along the way. -/
theorem run_total (cfg : Cfg K) (d : Nat) (ops : List (PubOp K)) (w w' : World K) (hW : DayW d w)
    (hd : ∀ op ∈ ops, op.AtDate d) (h : runPub cfg ops w = .ok w') :
    total w'.root - total w.root =
      injectedPub ops - (feeSum w'.root - feeSum w.root) - (boDay d w'.root - boDay d w.root) ∧ DayW d w' :=
  ⟨ledger_split (runPub_D ops hW hd h).1, (runPub_D ops hW hd h).2⟩

/-- buy, external flow, read a series getter, flatten the sub-strategy, close `a`, re-update -/
example : ∃ w', DayW 1 DEx.w0 ∧
    runPub LEx.cfg [.transact [0] 2 true none, .adjust [] 25 true true, .read [0] .secSeries, .flatten [1],
      .close [] 0 true, .update 1] DEx.w0 = .ok w' :=
  let ⟨w', h, _⟩ := Ex.check_ok (x := runPub LEx.cfg [.transact [0] 2 true none, .adjust [] 25 true true,
    .read [0] .secSeries, .flatten [1], .close [] 0 true, .update 1] DEx.w0) (p := fun _ => true) (by decide +kernel)
  ⟨w', DEx.w0_dayW, h⟩

/-- … for `P04.RunC cfg (· = d)`, the form in which `P04.RunPublic` delivers the effect of `Strategy.run()` -/
theorem run_total_public (cfg : Cfg K) (d : Nat) (w w' : World K) (hW : DayW d w)
    (h : P04.RunC cfg (· = d) w w') :
    ∃ ops : List (PubOp K), (∀ op ∈ ops, op.AtDate d) ∧ runPub cfg ops w = .ok w' ∧
      total w'.root - total w.root =
        injectedPub ops - (feeSum w'.root - feeSum w.root) - (boDay d w'.root - boDay d w.root) ∧ DayW d w' := by
  obtain ⟨ops, hd, hops⟩ := runC_iff.1 h
  exact ⟨ops, hd, hops, run_total cfg d ops w w' hW hd hops⟩

example : ∃ w', DayW 2 w' ∧ P04.RunC DEx.cfg0 (· = 2) w' w' := by
  obtain ⟨w', h, _⟩ := Ex.check_ok (x := updRoot DEx.cfg0 2 DEx.w0) (p := fun _ => true) (by decide +kernel)
  exact ⟨w', (updRoot_open DEx.w0_close.strat (DEx.w0_close.fresh (by decide)) h).2, .nil _⟩

/-- the form of `C02.ops_total`, now for every public call: on a synced tree all of whose strategies stand on
    `d`, with the plain `Σ bidoffer_paid` as the measure of bid/offer costs -/
theorem run_total_synced (cfg : Cfg K) (d : Nat) (ops : List (PubOp K)) (w w' : World K) (hs : IsStrat w.root)
    (ht : TreeAll (fun sd _ => sd.now = some d) (fun _ => True) w.root) (hsy : w.root.synced none)
    (hd : ∀ op ∈ ops, op.AtDate d) (h : runPub cfg ops w = .ok w') :
    total w'.root + (feeSum w'.root - feeSum w.root) + (boSum w'.root - boSum w.root) =
      total w.root + injectedPub ops := by
  obtain ⟨hW, ha⟩ := dayW_of_synced hs ht hsy
  have e := (run_total cfg d ops w w' hW hd h).1
  rw [boDay_eq_boSum _ ha, boDay_eq_boSum _ (runPub_secsAt hW hd ha h)] at e
  linear_combination e

example : IsStrat DEx.w0.root ∧ TreeAll (fun sd _ => sd.now = some 1) (fun _ => True) DEx.w0.root ∧
    DEx.w0.root.synced none := by
  refine ⟨⟨_, _, rfl⟩, ?_, ?_⟩
  · simp only [DEx.w0, DEx.tree, TreeAll, TreeAllKids]
    exact ⟨rfl, trivial, ⟨rfl, trivial, trivial⟩, trivial⟩
  · simp only [DEx.w0, DEx.tree, Node.synced, Node.syncedKids]
    exact ⟨rfl, ⟨rfl, trivial⟩, trivial⟩

/-! ### (2) updates on the current date; the closing update -/

/-- **`updRoot_same_date_total`.**  `root.update(d)` on a world that stands on `d` (every getter refresh, the
    closing update of the day) moves no cash, no position and re-reads no price: `total` changes only by the
    closing costs of the bankruptcy liquidation, if that step fires (commissions and bid/offer of the `flatten`);
    coupons are swept only on a date change. -/
theorem updRoot_same_date_total (cfg : Cfg K) (d : Nat) (w w' : World K) (hW : DayW d w)
    (h : updRoot cfg d w = .ok w') :
    total w'.root - total w.root = - (feeSum w'.root - feeSum w.root) - (boDay d w'.root - boDay d w.root) ∧
    DayW d w' := by
  have e := step_total cfg d (.update d) w w' hW rfl h
  exact ⟨by rw [e.1]; simp [PubOp.injected], e.2⟩

example : ∃ w', DayW 1 DEx.w0 ∧ updRoot LEx.cfg 1 DEx.w0 = .ok w' :=
  let ⟨w', h, _⟩ := Ex.check_ok (x := updRoot LEx.cfg 1 DEx.w0) (p := fun _ => true) (by decide +kernel)
  ⟨w', DEx.w0_dayW, h⟩

/-- **`closing_update_value`.**  After ANY `root.update` — in particular the closing update of a day — the
    root's value is `total`: the cash of every strategy plus `position × price × multiplier` of every security
    of the tree.  This is C01 (`C01.updRoot_balanced`, `updNode_markedPos`) and carries C01's hypotheses:
    `DustFree cfg` (`TOL ≤ 0`: otherwise a same-date update may skip the write when both totals moved by less
    than `TOL`, leaving `value` off by less than `TOL` per strategy, and a security with `0 < |position| < TOL`
    may be skipped), `Quiet` (a skipped security is flat and carries no value — an invariant of every reachable
    world under `DustFree`) and `SecMarked` (every security's value is the mark of its position as of its last
    update — an invariant of every reachable world). -/
theorem closing_update_value (cfg : Cfg K) (hdf : DustFree cfg) (d : Nat) (w w' : World K)
    (hq : Quiet w.root) (hm : AllSecs SecMarked w.root) (h : updRoot cfg d w = .ok w') :
    w'.root.value = total w'.root :=
  updRoot_value_total hdf hq hm h

example : ∃ w', DustFree DEx.cfg0 ∧ Quiet DEx.w0.root ∧ AllSecs SecMarked DEx.w0.root ∧
    updRoot DEx.cfg0 2 DEx.w0 = .ok w' :=
  let ⟨w', h, _⟩ := Ex.check_ok (x := updRoot DEx.cfg0 2 DEx.w0) (p := fun _ => true) (by decide +kernel)
  ⟨w', DEx.cfg0_dustFree, DEx.w0_close.quiet, DEx.w0_close.marked, h⟩

/-! ### (3) one date of `Backtest.run`, and the loop -/

/-- **`btDay_total_attribution`.**  One pass `update(d); if not bankrupt: run(); update(d)` of the loop of
    `Backtest.run`, from the world `w0` at the close of an earlier date (`fresh d`: no node is on `d`, skipped
    securities are exactly flat) with algos that act through the public API (`P04.RunPublic`: every effect of
    `run d` is a sequence of public calls, explicit updates on `d` only).  There is a trace `ops` of the day's
    calls, and `total` moves by exactly: mark-to-market on the positions held at the earlier close + coupons less
    holding costs parked at the earlier date + capital injected by the day's `adjust`s − commissions of the day −
    bid/offer costs of the day.  No hypothesis on `TOL`, on balance, on bankruptcy (if the opening or the
    closing update liquidates, the closing costs are in the last two terms; a root that is bankrupt after the
    opening update does not run: `ops = []`). -/
theorem btDay_total_attribution (cfg : Cfg K) (run : RunFn K) (hpub : P04.RunPublic cfg run) (d : Nat)
    (w0 w2 : World K) (hs : IsStrat w0.root) (hf : w0.root.fresh d) (h : btDay cfg run d w0 = .ok w2) :
    ∃ ops, DayTrace cfg run d w0 w2 ops ∧
      total w2.root - total w0.root =
        mtmAll d w0.root + parkedAll w0.root + injectedPub ops - (feeSum w2.root - feeDay d w0.root)
          - (boDay d w2.root - boDay d w0.root) ∧ DayW d w2 := by
  obtain ⟨ops, ht⟩ := btDay_trace hpub hs hf h
  exact ⟨ops, ht, ht.total hs hf, (ht.ledger hs hf).2⟩

example : ∃ w2, P04.RunPublic DEx.cfg0 DEx.run ∧ IsStrat DEx.w0.root ∧ DEx.w0.root.fresh 2 ∧
    btDay DEx.cfg0 DEx.run 2 DEx.w0 = .ok w2 :=
  let ⟨w2, h, _⟩ := Ex.check_ok (x := btDay DEx.cfg0 DEx.run 2 DEx.w0) (p := fun _ => true) (by decide +kernel)
  ⟨w2, DEx.run_public, DEx.w0_close.strat, DEx.w0_close.fresh (by decide), h⟩

/-- **`btDay_attribution`** (main).  With `w0` the world at the close of an earlier date `t < d`
    (`CloseInv t w0`: the root is a strategy, the day invariant of `t`, all clocks `≤ t`, `Quiet`, `SecMarked`,
    `value = total` — all re-established at the close of `d`, last conjunct) and a dust-free configuration:
    the change of the ROOT'S VALUE between the two closes is exactly
    MTM on the positions held at the earlier close (`position × (price[d] − price) × multiplier` over every
    security of the tree) + coupons less holding costs accrued at the earlier date + capital injected by the
    day's `adjust`s (flows and non-flow adjustments) − every commission booked on `d` (`feeSum` at the close:
    the date change reset it) − every bid/offer or custom-price cost paid on `d` (`boDay d` at the close less the
    never-reset accumulators carried in, `boCarry`).  No balance hypothesis at any observation point of the
    day. -/
theorem btDay_attribution (cfg : Cfg K) (hdf : DustFree cfg) (run : RunFn K) (hpub : P04.RunPublic cfg run)
    (t d : Nat) (htd : t < d) (w0 w2 : World K) (hc : CloseInv t w0) (h : btDay cfg run d w0 = .ok w2) :
    ∃ ops, DayTrace cfg run d w0 w2 ops ∧
      w2.root.value - w0.root.value =
        mtmAll d w0.root + parkedAll w0.root + injectedPub ops - feeSum w2.root
          - (boDay d w2.root - boCarry w0.root) ∧ CloseInv d w2 := by
  obtain ⟨ops, ht⟩ := btDay_trace hpub hc.strat (hc.fresh htd) h
  refine ⟨ops, ht, ?_, ht.close hdf htd hc⟩
  have e := ht.value hdf htd hc
  rw [dayTerm, feeDay_zero (Nat.ne_of_lt htd) _ hc.day, boDay_fresh _ (hc.fresh htd)] at e
  linear_combination e

/-- date 1 → 2 on the two-level tree: prices 50 → 51 on 3 units × multiplier 2 (MTM 6), the algo buys 2 units
    (commission 1.204, half-spread 0.4) and receives an external flow of 25: 1000 → 1029.396 -/
example : ∃ w2, DustFree DEx.cfg0 ∧ P04.RunPublic DEx.cfg0 DEx.run ∧ CloseInv 1 DEx.w0 ∧
    btDay DEx.cfg0 DEx.run 2 DEx.w0 = .ok w2 ∧ w2.root.value = 257349/250 ∧ DEx.w0.root.value = 1000 :=
  let ⟨w2, h, hp⟩ := Ex.check_ok (x := btDay DEx.cfg0 DEx.run 2 DEx.w0)
    (p := fun w2 => w2.root.value == 257349/250) (by decide +kernel)
  ⟨w2, DEx.cfg0_dustFree, DEx.run_public, DEx.w0_close, h, by simpa using hp, by decide +kernel⟩

/-- **`btLoop_attribution`.**  The loop over any increasing list of dates `t < d₁ < d₂ < …`: the change of the
    root's value from the close of `t` to the end is the sum of the daily terms (`LoopTrace`: the loop cut into
    its days, each with a trace; `dayTerm` is the right-hand side of `btDay_attribution` before the two
    simplifications). -/
theorem btLoop_attribution (cfg : Cfg K) (hdf : DustFree cfg) (run : RunFn K) (hpub : P04.RunPublic cfg run)
    (ds : List Nat) (t : Nat) (w0 wN : World K) (hinc : Increasing t ds) (hc : CloseInv t w0)
    (h : btLoop cfg run ds w0 = .ok wN) :
    ∃ x, LoopTrace cfg run ds w0 wN x ∧ wN.root.value - w0.root.value = x ∧ CloseInv (lastDate t ds) wN :=
  btLoop_value hdf hpub ds t w0 wN hinc hc h

example : ∃ wN, Increasing 1 [2] ∧ CloseInv 1 DEx.w0 ∧ btLoop DEx.cfg0 DEx.run [2] DEx.w0 = .ok wN :=
  let ⟨wN, h, _⟩ := Ex.check_ok (x := btLoop DEx.cfg0 DEx.run [2] DEx.w0) (p := fun _ => true) (by decide +kernel)
  ⟨wN, ⟨by decide, trivial⟩, DEx.w0_close, h⟩

/-- **`btLoop_rows_attribution`.**  The recorded rows: in the final world the root's value row holds at index
    `t` the value of the close of `t` and at the last date the final value, and their difference is the sum of
    the daily terms — for a strategy that never went bankrupt (on the day of a bankruptcy the engine may leave
    the row stale: `C01.updRoot_bankrupt_rows_counterexample`), whose value row was right at `t` and is long
    enough. -/
theorem btLoop_rows_attribution (cfg : Cfg K) (hdf : DustFree cfg) (run : RunFn K) (hpub : P04.RunPublic cfg run)
    (ds : List Nat) (t : Nat) (w0 wN : World K) (hinc : Increasing t ds) (hc : CloseInv t w0)
    (hlen : ∀ d ∈ ds, d < (rootRValue w0).length) (hrow : (rootRValue w0)[t]? = some w0.root.value)
    (hnb : wN.bankrupt = false) (h : btLoop cfg run ds w0 = .ok wN) :
    ∃ x v0 vN, LoopTrace cfg run ds w0 wN x ∧ (rootRValue wN)[t]? = some v0 ∧
      (rootRValue wN)[lastDate t ds]? = some vN ∧ vN - v0 = x := by
  obtain ⟨x, hx, hv, _⟩ := btLoop_value hdf hpub ds t w0 wN hinc hc h
  obtain ⟨r0, rN⟩ := btLoop_rows hdf hpub ds t w0 wN hinc hc hlen hrow hnb h
  exact ⟨x, _, _, hx, r0, rN, hv⟩

example : ∃ wN, (∀ d ∈ [2], d < (rootRValue DEx.w0).length) ∧
    (rootRValue DEx.w0)[1]? = some DEx.w0.root.value ∧ wN.bankrupt = false ∧
    btLoop DEx.cfg0 DEx.run [2] DEx.w0 = .ok wN ∧ (rootRValue wN)[2]? = some (257349/250) := by
  obtain ⟨wN, h, hp⟩ := Ex.check_ok (x := btLoop DEx.cfg0 DEx.run [2] DEx.w0)
    (p := fun wN => !wN.bankrupt && (rootRValue wN)[2]? == some (257349/250)) (by decide +kernel)
  simp only [Bool.and_eq_true, Bool.not_eq_true', beq_iff_eq] at hp
  exact ⟨wN, by decide, by decide +kernel, hp.1, h, hp.2⟩

/-- **`btRun_attribution`.**  `Backtest.run` from a template that was never run (no clock set; quiet, marked):
    `adjust(capital)` adds exactly the capital to `total`, the update on the first date establishes `CloseInv`,
    and the loop telescopes as above. -/
theorem btRun_attribution (cfg : Cfg K) (hdf : DustFree cfg) (run : RunFn K) (hpub : P04.RunPublic cfg run)
    (capital : K) (d0 : Nat) (ds : List Nat) (w0 wN : World K) (hs : IsStrat w0.root)
    (hcl : ClocksIn (fun _ => False) w0.root) (hq : Quiet w0.root) (hm : AllSecs SecMarked w0.root)
    (hinc : Increasing d0 ds) (h : btRun cfg run capital (d0 :: ds) w0 = .ok wN) :
    ∃ wA wB x, opAdjust w0 [] capital true true = .ok wA ∧ updRoot cfg d0 wA = .ok wB ∧ CloseInv d0 wB ∧
      total wA.root = total w0.root + capital ∧
      LoopTrace cfg run ds wB wN x ∧ wN.root.value - wB.root.value = x ∧ CloseInv (lastDate d0 ds) wN :=
  btRun_value hdf hpub hs hcl hq hm hinc h

example : ∃ wN, ClocksIn (fun _ => False) Ex.tree ∧ Quiet Ex.tree ∧ AllSecs SecMarked Ex.tree ∧
    P04.RunPublic Ex.cfg0 (fun _ w => opAllocate Ex.cfg0 w [0] 20 true) ∧
    btRun Ex.cfg0 (fun _ w => opAllocate Ex.cfg0 w [0] 20 true) 100 [0, 1] { root := Ex.tree, stale := false } = .ok wN := by
  obtain ⟨wN, h, _⟩ := Ex.check_ok (x := btRun Ex.cfg0 (fun _ w => opAllocate Ex.cfg0 w [0] 20 true) 100 [0, 1]
    { root := Ex.tree, stale := false }) (p := fun _ => true) (by decide +kernel)
  refine ⟨wN, ?_, Ex.tree_quiet, Ex.tree_marked, P04.runPublic_allocate [0] 20 true, h⟩
  simp only [Ex.tree, Ex.kids, ClocksIn, ClocksInL]
  refine ⟨?_, ?_, ?_, ⟨?_, ?_, trivial⟩, trivial⟩ <;> intro x hx <;> cases hx

/-! ### (4) the bankruptcy day -/

/-- **`bankruptcy_day`.**  A day on which the root is bankrupt after the opening update — because the opening
    marks made its value negative (the whole tree is then flattened at the new prices inside that update), or
    because it was bankrupt before: the algos do not run, the day ends with the opening update, and the change
    of the root's value is MTM + parked coupons − the closing costs of the liquidation (commissions and
    bid/offer of the `flatten`; both zero for a strategy that was bankrupt already and holds nothing). -/
theorem bankruptcy_day (cfg : Cfg K) (hdf : DustFree cfg) (run : RunFn K) (t d : Nat) (htd : t < d)
    (w0 w1 : World K) (hc : CloseInv t w0) (h1 : updRoot cfg d w0 = .ok w1) (hb : w1.bankrupt = true) :
    btDay cfg run d w0 = .ok w1 ∧
    w1.root.value - w0.root.value =
      mtmAll d w0.root + parkedAll w0.root - feeSum w1.root - (boDay d w1.root - boCarry w0.root) ∧
    CloseInv d w1 := by
  have ht : DayTrace cfg run d w0 w1 [] := ⟨w1, h1, by simp, Or.inl ⟨hb, rfl, rfl⟩⟩
  refine ⟨ht.btDay, ?_, ht.close hdf htd hc⟩
  have e := ht.value hdf htd hc
  rw [dayTerm, feeDay_zero (Nat.ne_of_lt htd) _ hc.day, boDay_fresh _ (hc.fresh htd)] at e
  simp only [injectedPub, List.map_nil, List.sum_nil, add_zero] at e
  linear_combination e

/-- the root's cash is −500 against 400 of securities and sub-strategy: bankrupt at the opening of date 2,
    everything is liquidated -/
example : ∃ w1, CloseInv 1 DEx.wBroke ∧ updRoot DEx.cfg0 2 DEx.wBroke = .ok w1 ∧ w1.bankrupt = true :=
  let ⟨w1, h, hp⟩ := Ex.check_ok (x := updRoot DEx.cfg0 2 DEx.wBroke) (p := fun w1 => w1.bankrupt) (by decide +kernel)
  ⟨w1, DEx.wBroke_close, h, hp⟩

/-- **`flatten_total`.**  `flatten` of any strategy of the tree (recursively through its sub-strategies, with
    the getter refreshes it triggers) at the current prices changes `total` only by the closing costs. -/
theorem flatten_total (cfg : Cfg K) (d : Nat) (w w' : World K) (path : List Nat) (hW : DayW d w)
    (h : opFlatten cfg w path = .ok w') :
    total w'.root - total w.root = - (feeSum w'.root - feeSum w.root) - (boDay d w'.root - boDay d w.root) ∧
    DayW d w' := by
  have e := step_total cfg d (.flatten path) w w' hW trivial h
  exact ⟨by rw [e.1]; simp [PubOp.injected], e.2⟩

example : ∃ w', DayW 1 DEx.w0 ∧ opFlatten LEx.cfg DEx.w0 [] = .ok w' :=
  let ⟨w', h, _⟩ := Ex.check_ok (x := opFlatten LEx.cfg DEx.w0 []) (p := fun _ => true) (by decide +kernel)
  ⟨w', DEx.w0_dayW, h⟩

/-! ### (5) moving capital between a parent and its sub-strategies -/

/-- **`internal_transfers_neutral`.**  `allocate(amount)` on any node at any depth — a sub-strategy (the parent
    is debited, the sub-strategy credited and the amount pushed down by the weights), the root, or a security —
    changes `total` of the whole tree only by the costs of the trades it triggers. -/
theorem internal_transfers_neutral (cfg : Cfg K) (d : Nat) (w w' : World K) (path : List Nat) (amount : K)
    (u : Bool) (hW : DayW d w) (h : opAllocate cfg w path amount u = .ok w') :
    total w'.root - total w.root = - (feeSum w'.root - feeSum w.root) - (boDay d w'.root - boDay d w.root) ∧
    DayW d w' := by
  have e := step_total cfg d (.allocate path amount u) w w' hW trivial h
  exact ⟨by rw [e.1]; simp [PubOp.injected], e.2⟩

/-- 50 from the root into the sub-strategy, which buys `b` with it (sizing loop, commission, half-spread) -/
example : ∃ w', DayW 1 DEx.w0 ∧ opAllocate LEx.cfg DEx.w0 [1] 50 false = .ok w' :=
  let ⟨w', h, _⟩ := Ex.check_ok (x := opAllocate LEx.cfg DEx.w0 [1] 50 false) (p := fun _ => true) (by decide +kernel)
  ⟨w', DEx.w0_dayW, h⟩

/-- … exactly value-neutral when no commission and no spread was booked -/
theorem internal_transfers_neutral_nocost (cfg : Cfg K) (d : Nat) (w w' : World K) (path : List Nat) (amount : K)
    (u : Bool) (hW : DayW d w) (h : opAllocate cfg w path amount u = .ok w')
    (hfee : feeSum w'.root = feeSum w.root) (hbo : boDay d w'.root = boDay d w.root) :
    total w'.root = total w.root := by
  have e := (internal_transfers_neutral cfg d w w' path amount u hW h).1
  rw [hfee, hbo] at e
  linear_combination e

/-- a transfer that triggers no trade (the sub-strategy's only child has weight 0): 50 moves from the root's
    cash to the sub-strategy's, no fee, no spread -/
example : ∃ w', DayW 1 DEx.wIdle ∧ opAllocate LEx.cfg DEx.wIdle [1] 50 false = .ok w' ∧
    (match w'.root with
     | .strat sd [_, .strat sub [.sec b]] =>
        sd.capital == 550 && sub.capital == 150 && sd.lastFee == 2 && sub.lastFee == 0 && b.bidofferPaid == 0
     | _ => false) = true :=
  let ⟨w', h, hp⟩ := Ex.check_ok (x := opAllocate LEx.cfg DEx.wIdle [1] 50 false)
    (p := fun w' => match w'.root with
     | .strat sd [_, .strat sub [.sec b]] =>
        sd.capital == 550 && sub.capital == 150 && sd.lastFee == 2 && sub.lastFee == 0 && b.bidofferPaid == 0
     | _ => false) (by decide +kernel)
  ⟨w', DEx.wIdle_dayW, h, hp⟩

end Bt.C02
