import Bt.Proofs.ProgramX
import Bt.Proofs.ProgramXEx
import Bt.Props.C04
import Bt.Props.C04_prog
/-! C04 for extended programs and for trees of arbitrary run functions — **no look-ahead**.

    `Bt/Algos/ProgramX.lean` (namespace `Bt.Prog`) generalises the whole-program model in two directions:
    `progRunX cfg p path` is the stack `[RunPeriod, selection algos …, WeighEqually | WeighSpecified, Rebalance]`
    whose selection part is any sequence of the selection algos of C14 (`SelectAll`, `SelectThese`, `SelectHasData`,
    `SelectMomentum`), evaluated on the strategy's universe as the table `tableOf ucols kids d`; `GTree` /
    `treeRunG` are trees whose nodes carry arbitrary run functions.

    (1) the table at row `d` is built from rows `0..d` only, hence every selection sequence gives the same result
        on truncated data;  (2) every `progRunX` is causal and public;  (3) GENERIC: if every node function of a
        `GTree` is causal / public at its path then so is `treeRunG`;  (4) `backtest_causal` for trees of extended
        programs with no hypothesis on the algos left;  (5) the fixed-shape programs of `C04_prog` are an instance.
    Helper lemmas: `Bt.Proofs.ProgramX` (namespace `Bt.PProgX`); concrete programs: `Bt.Proofs.ProgramXEx`.
    `[Select.HasNatFloor K]` (`int(x)` and `float(len)` for the fractional `n` of `SelectN`) is a class argument;
    over `Rat` it is `Select.fieldNatFloor` (`Nat.floor`). -/
set_option linter.unusedSectionVars false
namespace Bt.C04
open Bt Bt.P08 Bt.P04 Bt.Prog Bt.PProg Bt.PProgX Bt.Select

variable {K : Type} [Field K] [LinearOrder K] [IsStrictOrderedRing K] [HasFloor K] [Select.HasNatFloor K]

/-! ### (1) the table and the selection algos -/

/-- a cell of the universe (a security's price column, a sub-strategy's recorded index) at a row `r ≤ t` -/
theorem colCell_trunc {r t : Nat} (hr : r ≤ t) (d : Nat) (k : Node K) : colCell r d (k.trunc t) = colCell r d k :=
  PProgX.colCell_trunc hr d k

example : colCell 1 2 ((Node.sec xE).trunc 1) = some 10 ∧ colCell 3 3 ((Node.sec xE).trunc 1) = none ∧
    colCell 3 3 (Node.sec xE) = some 12 ∧
    colCell 1 2 ((Node.strat (stratE "sub" true) [.sec xE]).trunc 1) = some 0 ∧
    colCell 2 2 ((Node.strat (stratE "sub" true) [.sec xE]).trunc 1) = some 100 := by decide +kernel

/-- **the table at row `d ≤ t` is built from rows `0..d` only**: on the children of a strategy whose supplied data
    are truncated after `t` it is the same table -/
theorem tableOf_trunc {d t : Nat} (h : d ≤ t) (ucols : List Nat) (kids : List (Node K)) :
    tableOf ucols (Node.truncL t kids) d = tableOf ucols kids d :=
  tableOf_truncL h ucols kids

/-- rows 0-2 of `x`, `y`, `z`; row 3 (data set B: 22, 4, 40) is not in it -/
example : tableOf [0, 1, 2] (Node.truncL 2 [.sec xE, .sec yE, .sec zE]) 2 = tableOf [0, 1, 2] [.sec xE, .sec yE, .sec zE] 2 ∧
    (tableOf [0, 1, 2] [.sec xE, .sec yE, .sec zE] 2).rows =
      [[none, none, none], [some 10, some 20, some 50], [some 11, some 19, some 50]] :=
  ⟨tableOf_trunc (le_refl 2) _ _, by decide +kernel⟩

/-- … and it is its own prefix `Table.truncate d` — the table C14's `*_no_lookahead` theorems speak about -/
theorem tableOf_is_prefix (ucols : List Nat) (kids : List (Node K)) (d : Nat) :
    (tableOf ucols kids d).truncate d = tableOf ucols kids d :=
  tableOf_truncate ucols kids d

example : (tableOf [0, 1] [Node.sec xE, .sec yE] 1).truncate 1 = tableOf [0, 1] [.sec xE, .sec yE] 1 ∧
    (tableOf [0, 1] [Node.sec xE, .sec yE] 1).rows.length = 2 :=
  ⟨tableOf_is_prefix _ _ _, by decide +kernel⟩

/-- **connection to C14**: on any table (of any length) one selection algo at row `d`, and a whole sequence, is a
    function of the prefix `t.truncate d` (`C14.selectAll_no_lookahead`, `selectThese_`, `hasData_`,
    `totalReturn_no_lookahead`) -/
theorem selStep_no_lookahead (t : Table Nat K) (d : Nat) (prior : Option (List Nat)) (s : SelStep K) :
    selStep (t.truncate d) d prior s = selStep t d prior s :=
  PProgX.selStep_no_lookahead t d prior s

theorem selSteps_no_lookahead (t : Table Nat K) (d : Nat) (ss : List (SelStep K)) (prior : Option (List Nat)) :
    selSteps (t.truncate d) d ss prior = selSteps t d ss prior :=
  PProgX.selSteps_no_lookahead t d ss prior

/-- the four-row table of data set A, cut after row 2, at row 2: `SelectAll`, then momentum over rows 1-2 → `x` -/
example : selSteps ((tableOf [0, 1, 2] [.sec xE, .sec yE, .sec zE] 3).truncate 2) 2 progXE.sels none =
      selSteps (tableOf [0, 1, 2] [.sec xE, .sec yE, .sec zE] 3) 2 progXE.sels none ∧
    selSteps (tableOf [0, 1, 2] [.sec xE, .sec yE, .sec zE] 3) 2 progXE.sels none = .ok (some (some [0])) :=
  ⟨selSteps_no_lookahead _ _ _ _, by decide +kernel⟩

/-- **every selection sequence at row `d ≤ t`** gives the same result on the data truncated after `t`: the strategy
    found at `path` in the truncated world has the truncated children, and on those the selection is the same -/
theorem selSteps_trunc (ss : List (SelStep K)) (ucols : List Nat) (w : World K) (path : List Nat) {d t : Nat}
    (h : d ≤ t) (sd : StratData K) (kids : List (Node K)) (hg : w.root.get? path = some (.strat sd kids))
    (prior : Option (List Nat)) :
    (w.trunc t).root.get? path = some (.strat sd (Node.truncL t kids)) ∧
      selSteps (tableOf ucols (Node.truncL t kids) d) d ss prior = selSteps (tableOf ucols kids d) d ss prior := by
  refine ⟨?_, selSteps_truncL h ucols kids ss prior⟩
  rw [world_trunc_root, get?_trunc, hg]; rfl

/-- rows 1, 2, 3 of data set A: nothing ranks on row 1 (row 0 has no prices), `x` on row 2, `y` on row 3; the longer
    sequence (`SelectThese`, `SelectHasData(2)`, `SelectMomentum(n = 0.5)`); data set B agrees with A up to row 2 -/
example : selSteps (tableOf [0, 1, 2] (Node.truncL 2 [.sec xE, .sec yE, .sec zE]) 2) 2 progXE.sels none =
      .ok (some (some [0])) ∧
    selSteps (tableOf [0, 1, 2] [.sec xE, .sec yE, .sec zE] 1) 1 progXE.sels none = .ok (some (some [])) ∧
    selSteps (tableOf [0, 1, 2] [.sec xE, .sec yE, .sec zE] 3) 3 progXE.sels none = .ok (some (some [1])) ∧
    selSteps (tableOf [0, 1, 2] [.sec xE, .sec yE, .sec zE] 3) 3 progXF.sels none = .ok (some (some [1])) ∧
    wXA.trunc 2 = wXB.trunc 2 := by
  refine ⟨by decide +kernel, by decide +kernel, by decide +kernel, by decide +kernel, rfl⟩

/-! ### (2) every extended program is causal and public -/

/-- **one strategy's stack commutes with truncation after `t`** at every date `d ≤ t`, on every world whose clocks
    are `≤ t` (`P04.CausalStrong`) … -/
theorem progRunX_trunc (cfg : Cfg K) (p : ProgX K) (path : List Nat) {d t : Nat} (hd : d ≤ t) (w : World K)
    (hw : ClockLE t w) :
    progRunX cfg p path d (w.trunc t) = (progRunX cfg p path d w).map (World.trunc t) :=
  PProgX.progRunX_trunc p path hd hw

/-- … hence is causal in the sense of C04, for every program, every path, every `t` -/
theorem progRunX_causal (cfg : Cfg K) (p : ProgX K) (path : List Nat) (t : Nat) :
    Causal t (progRunX cfg p path) :=
  (progRunX_causalStrong p path t).causal

/-- every effect of it goes through the public API, explicit `root.update`s at the date of the call only (C04's
    `RunPublic`, under `AtClock d w`) … -/
theorem progRunX_public (cfg : Cfg K) (p : ProgX K) (path : List Nat) : P04.RunPublic cfg (progRunX cfg p path) :=
  (progRunX_runCAll p path).public04

/-- … and unconditionally (C16's `RunPublic`) -/
theorem progRunX_public16 (cfg : Cfg K) (p : ProgX K) (path : List Nat) :
    P16.RunPublic cfg (progRunX cfg p path) :=
  (progRunX_runCAll p path).public16

example : Causal 2 (progRunX cfgE progXE []) ∧ P04.RunPublic cfgE (progRunX cfgE progXE []) ∧
    P16.RunPublic cfgE (progRunX cfgE progXE []) ∧
    (progRunX cfgE progXE [] 0 wXA).toOption.map (·.root.value) = some 0 :=
  ⟨progRunX_causal cfgE progXE [] 2, progRunX_public cfgE progXE [], progRunX_public16 cfgE progXE [],
    by decide +kernel⟩

/-! ### (3) GENERIC: trees of arbitrary run functions -/

/-- **if every node function of a `GTree` is causal and public at its path, `Strategy.run()` of the tree is
    causal** (`AllNodes P tr path`: the root's function at `path`, the `i`-th child's at `path ++ [i]`, …; defined by
    structural recursion in `Bt.Proofs.ProgramX`).  Publicness of the nodes is needed for the composition: after a
    public node the clocks still stand at `d`, where the next node's causality applies. -/
theorem treeRunG_causal (cfg : Cfg K) (tr : GTree K) (path : List Nat) (t : Nat)
    (hc : AllNodes (Causal t) tr path) (hp : AllNodes (P04.RunPublic cfg) tr path) :
    Causal t (treeRunG tr path) :=
  (treeRunG_causal_public tr path (allNodes_and tr path hc hp)).1

/-- **if every node function is public (C04's notion) then so is the tree** -/
theorem treeRunG_public (cfg : Cfg K) (tr : GTree K) (path : List Nat)
    (hp : AllNodes (P04.RunPublic cfg) tr path) : P04.RunPublic cfg (treeRunG tr path) :=
  treeRunG_public04 tr path hp

/-- the children loop (the other half of the mutual induction) -/
theorem kidsRunG_causal (cfg : Cfg K) (ks : List (Option (GTree K))) (path : List Nat) (i t : Nat)
    (hc : AllNodesL (Causal t) ks path i) (hp : AllNodesL (P04.RunPublic cfg) ks path i) :
    Causal t (kidsRunG ks path i) :=
  (kidsRunG_causal_public ks path i (allNodesL_and ks path i hc hp)).1

theorem kidsRunG_public (cfg : Cfg K) (ks : List (Option (GTree K))) (path : List Nat) (i : Nat)
    (hp : AllNodesL (P04.RunPublic cfg) ks path i) : P04.RunPublic cfg (kidsRunG ks path i) :=
  kidsRunG_public04 ks path i hp

/-- the stronger pair (clocks `≤ t` instead of `= d`; public on every world for every clock predicate) -/
theorem treeRunG_causalStrong (cfg : Cfg K) (tr : GTree K) (path : List Nat) (t : Nat)
    (hc : AllNodes (CausalStrong t) tr path) (hp : AllNodes (RunCAll cfg) tr path) :
    CausalStrong t (treeRunG tr path) :=
  (PProgX.treeRunG_causalStrong tr path (allNodes_and tr path hc hp)).1

/-- a root that is no program (it reads a getter of its own strategy: `opRead`) over a momentum sub-program -/
example : Causal 2 (treeRunG (.node (fun path _ w => opRead cfgE w path .stratRefreshing) [some gtreeSub]) []) ∧
    P04.RunPublic cfgE (treeRunG (.node (fun path _ w => opRead cfgE w path .stratRefreshing) [some gtreeSub]) []) := by
  have hc : AllNodes (Causal 2) (GTree.node (fun path _ w => opRead cfgE w path .stratRefreshing) [some gtreeSub]) [] := by
    rw [allNodes_node, allNodesL_some, allNodesL_nil]
    exact ⟨P04.causal_read (cfg := cfgE) [] .stratRefreshing,
      EveryNode.allNodes (fun f hf p => by obtain ⟨q, rfl⟩ := hf; exact progRunX_causal cfgE q p 2) _
        (everyNode_embedX xtreeSub) _, trivial⟩
  have hp : AllNodes (P04.RunPublic cfgE)
      (GTree.node (fun path _ w => opRead cfgE w path .stratRefreshing) [some gtreeSub]) [] := by
    rw [allNodes_node, allNodesL_some, allNodesL_nil]
    exact ⟨P04.runPublic_read (cfg := cfgE) [] .stratRefreshing,
      EveryNode.allNodes (fun f hf p => by obtain ⟨q, rfl⟩ := hf; exact progRunX_public cfgE q p) _
        (everyNode_embedX xtreeSub) _, trivial⟩
  exact ⟨treeRunG_causal cfgE _ [] 2 hc hp, treeRunG_public cfgE _ [] hp⟩

/-! ### (4) trees of extended programs: no hypothesis on the algos left -/

/-- **a tree every node of which is some `progRunX cfg p`** (`EveryNode (IsProgX cfg) tr`; e.g. `embedX cfg x` for a
    tree `x : XTree K` of extended programs: `everyNode_embedX`) is causal and public, at every path, for every `t` -/
theorem progx_treeRun_causal (cfg : Cfg K) (tr : GTree K) (h : EveryNode (IsProgX cfg) tr) (path : List Nat)
    (t : Nat) : Causal t (treeRunG tr path) :=
  (progx_causalStrong tr h path t).causal

theorem progx_treeRun_public (cfg : Cfg K) (tr : GTree K) (h : EveryNode (IsProgX cfg) tr) (path : List Nat) :
    P04.RunPublic cfg (treeRunG tr path) :=
  (progx_runCAll tr h path).public04

/-- the nested momentum program (root over a momentum sub-strategy and `z`) on row 2 -/
example : Causal 2 (treeRunG gtreePar []) ∧ P04.RunPublic cfgE (treeRunG gtreePar []) ∧
    treeRunG gtreePar [] 2 (wParE.trunc 2) = (treeRunG gtreePar [] 2 wParE).map (World.trunc 2) :=
  ⟨progx_treeRun_causal cfgE _ (everyNode_embedX xtreePar) [] 2,
    progx_treeRun_public cfgE _ (everyNode_embedX xtreePar) [],
    progx_causalStrong _ (everyNode_embedX xtreePar) [] 2 2 (le_refl 2) wParE (by
      refine ⟨?_, ?_⟩ <;> simp [wParE, stratE, NowsIn, NowsInL, Ck, Node.now])⟩

/-- **`Backtest.run` over dates all `≤ t` on the data truncated after `t`** raises the same error or returns the
    truncation of the same world -/
theorem progx_backtest_trunc (cfg : Cfg K) (tr : GTree K) (h : EveryNode (IsProgX cfg) tr) {t : Nat} (capital : K)
    (dates : List Nat) (hds : ∀ d ∈ dates, d ≤ t) (w0 : World K) :
    btRun cfg (treeRunG tr []) capital dates (w0.trunc t) =
      (btRun cfg (treeRunG tr []) capital dates w0).map (World.trunc t) :=
  btRun_trunc cfg (progx_treeRun_causal cfg tr h [] t) capital dates hds w0

example : btRun cfgE (treeRunG gtreeE []) 1000 [0, 1, 2] (wXA.trunc 2) =
      (btRun cfgE (treeRunG gtreeE []) 1000 [0, 1, 2] wXA).map (World.trunc 2) ∧
    btRun cfgE (treeRunG gtreeE []) 1000 [0, 1, 2] (wXA.trunc 2) =
      btRun cfgE (treeRunG gtreeE []) 1000 [0, 1, 2] (wXB.trunc 2) :=
  ⟨progx_backtest_trunc cfgE gtreeE (everyNode_embedX xtreeE) 1000 [0, 1, 2] (by decide) wXA, rfl⟩

/-- the loop of `Backtest.run` — `backtest_causal` with `run := treeRunG tr []` -/
theorem progx_loop_causal (cfg : Cfg K) (tr : GTree K) (htr : EveryNode (IsProgX cfg) tr) {t : Nat} {w w' : World K}
    (hw : w.trunc t = w'.trunc t) (hz : HedgeZero w.root)
    (pre post : List Nat) (hpre : ∀ d ∈ pre, d ≤ t) (hpost : ∀ d ∈ post, t < d) {r r' : World K}
    (h : btLoop cfg (treeRunG tr []) (pre ++ post) w = .ok r)
    (h' : btLoop cfg (treeRunG tr []) (pre ++ post) w' = .ok r') :
    (∀ j, j ≤ t → rowsAt j r.root = rowsAt j r'.root) ∧ rowLens r.root = rowLens r'.root :=
  backtest_causal cfg (progx_treeRun_causal cfg tr htr [] t) (progx_treeRun_public cfg tr htr []) hw hz pre post
    hpre hpost h h'

/-- **No look-ahead of whole backtests of extended programs.**  Any tree `tr` every node of which is a
    `progRunX cfg p` (any gates, any sequences of selection algos with any windows, any weigher, any nesting); two data
    sets that agree on every row `≤ t` and are arbitrary afterwards; dates `d0 :: (pre ++ post)` with `d0` and `pre`
    all `≤ t` and `post` all `> t`; the initial tree with all-zero hedge notional rows.  If both complete backtests
    succeed, every recorded entry of every node at every index `j ≤ t` is the same in both results and all rows
    have the same lengths.  No hypothesis on the algos. -/
theorem progx_backtest_causal (cfg : Cfg K) (tr : GTree K) (htr : EveryNode (IsProgX cfg) tr) {t : Nat}
    {w w' : World K} (hw : w.trunc t = w'.trunc t) (hz : HedgeZero w.root) (capital : K) (d0 : Nat) (hd0 : d0 ≤ t)
    (pre post : List Nat) (hpre : ∀ d ∈ pre, d ≤ t) (hpost : ∀ d ∈ post, t < d) {r r' : World K}
    (h : btRun cfg (treeRunG tr []) capital (d0 :: (pre ++ post)) w = .ok r)
    (h' : btRun cfg (treeRunG tr []) capital (d0 :: (pre ++ post)) w' = .ok r') :
    (∀ j, j ≤ t → rowsAt j r.root = rowsAt j r'.root) ∧ rowLens r.root = rowLens r'.root :=
  btRun_causal (progx_treeRun_causal cfg tr htr [] t) (progx_treeRun_public cfg tr htr []) hw hz capital d0 hd0
    pre post hpre hpost h h'

theorem wXA_hedgeZero : HedgeZero wXA.root := by
  simp [wXA, xE, yE, zE, secE, HedgeZero, HedgeZeroL, isHedge]

/-- data sets A and B (equal on rows 0-2, different on row 3): the momentum program holds `x` from row 2 on; both
    backtests succeed, everything recorded for rows 0, 1, 2 agrees (index 100, value 1000), row 3 does not
    (1200/11 against 200) -/
example : ∃ r r', btRun cfgE (treeRunG gtreeE []) 1000 (0 :: ([1, 2] ++ [3])) wXA = .ok r ∧
    btRun cfgE (treeRunG gtreeE []) 1000 (0 :: ([1, 2] ++ [3])) wXB = .ok r' ∧
    (∀ j, j ≤ 2 → rowsAt j r.root = rowsAt j r'.root) ∧
    (rowsAt 2 r.root).take 2 = [some 100, some 1000] ∧
    (rowsAt 3 r.root).take 1 = [some (1200 / 11)] ∧ (rowsAt 3 r'.root).take 1 = [some 200] := by
  have hA : (btRun cfgE (treeRunG gtreeE []) 1000 [0, 1, 2, 3] wXA).toOption.map
      (fun r => ((rowsAt 2 r.root).take 2, (rowsAt 3 r.root).take 1)) =
      some ([some 100, some 1000], [some (1200 / 11)]) := by decide +kernel
  have hB : (btRun cfgE (treeRunG gtreeE []) 1000 [0, 1, 2, 3] wXB).toOption.map
      (fun r => (rowsAt 3 r.root).take 1) = some [some 200] := by decide +kernel
  obtain ⟨r, hr, ha⟩ := P16.exists_of_toOption_map hA
  obtain ⟨r', hr', hb⟩ := P16.exists_of_toOption_map hB
  simp only [Prod.mk.injEq] at ha
  exact ⟨r, r', hr, hr',
    (progx_backtest_causal cfgE gtreeE (everyNode_embedX xtreeE) (t := 2) (w := wXA) (w' := wXB) rfl wXA_hedgeZero
      1000 0 (by decide) [1, 2] [3] (by decide) (by decide) hr hr').1, ha.1, ha.2, hb⟩

/-- the remaining case, `t` before the first date -/
theorem progx_backtest_causal_late (cfg : Cfg K) (tr : GTree K) (htr : EveryNode (IsProgX cfg) tr) {t : Nat}
    {w w' : World K} (hw : w.trunc t = w'.trunc t) (hz : HedgeZero w.root) (hck : WOK (t < ·) w)
    (hck' : WOK (t < ·) w') (capital : K) (dates : List Nat) (hds : ∀ d ∈ dates, t < d) {r r' : World K}
    (h : btRun cfg (treeRunG tr []) capital dates w = .ok r)
    (h' : btRun cfg (treeRunG tr []) capital dates w' = .ok r') :
    (∀ j, j ≤ t → rowsAt j r.root = rowsAt j r'.root) ∧ rowLens r.root = rowLens r'.root :=
  btRun_causal_late (progx_treeRun_public cfg tr htr []) hw hz hck hck' capital dates hds h h'

theorem wXA_clocks (t : Nat) : WOK (t < ·) wXA ∧ WOK (t < ·) wXB := by
  refine ⟨⟨?_, ?_⟩, ⟨?_, ?_⟩⟩ <;> simp [wXA, wXB, stratE, NowsIn, NowsInL, Ck, Node.now]

example (r r' : World Rat) (h : btRun cfgE (treeRunG gtreeE []) 1000 [1, 2, 3] wXA = .ok r)
    (h' : btRun cfgE (treeRunG gtreeE []) 1000 [1, 2, 3] wXB = .ok r') : rowsAt 0 r.root = rowsAt 0 r'.root ∧
    (btRun cfgE (treeRunG gtreeE []) 1000 [1, 2, 3] wXA).toOption.isSome = true :=
  ⟨(progx_backtest_causal_late cfgE gtreeE (everyNode_embedX xtreeE) (t := 0) (w := wXA) (w' := wXB) rfl
    wXA_hedgeZero (wXA_clocks 0).1 (wXA_clocks 0).2 1000 [1, 2, 3] (by decide) h h').1 0 (le_refl 0),
    by decide +kernel⟩

/-- **the error case**: over dates `≤ t` the backtest raises on one data set iff it raises the same error on the
    other (errors of the selection algos — `KeyError`, `IndexError`, … — included) -/
theorem progx_backtest_raises (cfg : Cfg K) (tr : GTree K) (htr : EveryNode (IsProgX cfg) tr) {t : Nat}
    {w w' : World K} (hw : w.trunc t = w'.trunc t) (capital : K) (dates : List Nat) (hds : ∀ d ∈ dates, d ≤ t)
    (e : Err) :
    btRun cfg (treeRunG tr []) capital dates w = .error e ↔ btRun cfg (treeRunG tr []) capital dates w' = .error e := by
  rw [← map_eq_error (f := World.trunc t), ← progx_backtest_trunc cfg tr htr capital dates hds w, hw,
    progx_backtest_trunc cfg tr htr capital dates hds w', map_eq_error]

/-- `SelectThese` with a ticker that is no column of the universe raises (`KeyError`) when the gate opens on row 1 —
    on A and on B -/
example : btRun cfgE (treeRunG (embedX cfgE (.node { progXE with sels := [.these [7] false false] } [none, none, none])) [])
      1000 [0, 1, 2] wXA = .error .badPath ∧
    (btRun cfgE (treeRunG (embedX cfgE (.node { progXE with sels := [.these [7] false false] } [none, none, none])) [])
        1000 [0, 1, 2] wXA = .error .badPath ↔
      btRun cfgE (treeRunG (embedX cfgE (.node { progXE with sels := [.these [7] false false] } [none, none, none])) [])
        1000 [0, 1, 2] wXB = .error .badPath) :=
  ⟨raisedE_sound (by decide +kernel),
    progx_backtest_raises cfgE _ (everyNode_embedX _) (t := 2) (w := wXA) (w' := wXB) rfl 1000 [0, 1, 2] (by decide) _⟩

/-- the same three statements for **any** tree of causal, public run functions (no program structure at all) -/
theorem gtree_backtest_causal (cfg : Cfg K) (tr : GTree K) {t : Nat} (hc : AllNodes (Causal t) tr [])
    (hp : AllNodes (P04.RunPublic cfg) tr []) {w w' : World K} (hw : w.trunc t = w'.trunc t) (hz : HedgeZero w.root)
    (capital : K) (d0 : Nat) (hd0 : d0 ≤ t) (pre post : List Nat) (hpre : ∀ d ∈ pre, d ≤ t)
    (hpost : ∀ d ∈ post, t < d) {r r' : World K}
    (h : btRun cfg (treeRunG tr []) capital (d0 :: (pre ++ post)) w = .ok r)
    (h' : btRun cfg (treeRunG tr []) capital (d0 :: (pre ++ post)) w' = .ok r') :
    (∀ j, j ≤ t → rowsAt j r.root = rowsAt j r'.root) ∧ rowLens r.root = rowLens r'.root :=
  btRun_causal (treeRunG_causal cfg tr [] t hc hp) (treeRunG_public cfg tr [] hp) hw hz capital d0 hd0
    pre post hpre hpost h h'

/-- a root whose run function is no program at all (it only reads a getter of its own strategy), on data sets A and B -/
example (r r' : World Rat) (h : btRun cfgE (treeRunG gtreeRead []) 1000 (0 :: ([1, 2] ++ [3])) wXA = .ok r)
    (h' : btRun cfgE (treeRunG gtreeRead []) 1000 (0 :: ([1, 2] ++ [3])) wXB = .ok r') :
    (∀ j, j ≤ 2 → rowsAt j r.root = rowsAt j r'.root) ∧
      (btRun cfgE (treeRunG gtreeRead []) 1000 [0, 1, 2, 3] wXA).toOption.map (·.root.value) = some 1000 := by
  have hc : AllNodes (Causal 2) gtreeRead [] := by
    unfold gtreeRead
    rw [allNodes_node, allNodesL_nil]
    exact ⟨P04.causal_read (cfg := cfgE) [] .stratRefreshing, trivial⟩
  have hp : AllNodes (P04.RunPublic cfgE) gtreeRead [] := by
    unfold gtreeRead
    rw [allNodes_node, allNodesL_nil]
    exact ⟨P04.runPublic_read (cfg := cfgE) [] .stratRefreshing, trivial⟩
  exact ⟨(gtree_backtest_causal cfgE gtreeRead hc hp (w := wXA) (w' := wXB) rfl wXA_hedgeZero 1000 0 (by decide)
    [1, 2] [3] (by decide) (by decide) h h').1, by decide +kernel⟩

/-! ### (5) the fixed-shape programs of `C04_prog` are an instance -/

/-- `Strategy.run()` of a fixed-shape program tree is `treeRunG` of its embedding (node function `progRun cfg p`) -/
theorem treeRun_eq_treeRunG (cfg : Cfg K) (tr : ProgTree K) (path : List Nat) :
    treeRun cfg tr path = treeRunG (embed cfg tr) path :=
  treeRun_eq_treeRunG_fn tr path

example : treeRun cfgE treeParE [] = treeRunG (embed cfgE treeParE) [] ∧
    Prog.backtest cfgE treeE 1000 [0, 1, 2, 3] wEA = btRun cfgE (treeRunG (embed cfgE treeE) []) 1000 [0, 1, 2, 3] wEA :=
  ⟨treeRun_eq_treeRunG cfgE treeParE [], backtest_eq_btRunG treeE 1000 [0, 1, 2, 3] wEA⟩

/-- `C04.treeRun_causal` / `treeRun_public` re-proved by the generic theorems: every node of the embedding is a
    `progRun cfg p`, which is causal and public -/
theorem treeRun_causal_public_via_generic (cfg : Cfg K) (tr : ProgTree K) (path : List Nat) (t : Nat) :
    Causal t (treeRun cfg tr path) ∧ P04.RunPublic cfg (treeRun cfg tr path) := by
  rw [treeRun_eq_treeRunG]
  have hc : AllNodes (Causal t) (embed cfg tr) path :=
    EveryNode.allNodes (fun _ hf p => (isProg_causalStrong hf t p).causal) _ (everyNode_embed tr) path
  have hp : AllNodes (P04.RunPublic cfg) (embed cfg tr) path :=
    EveryNode.allNodes (fun _ hf p => (isProg_runCAll hf p).public04) _ (everyNode_embed tr) path
  exact ⟨treeRunG_causal cfg _ path t hc hp, treeRunG_public cfg _ path hp⟩

/-- `C04.prog_backtest_causal` as a corollary of `gtree_backtest_causal` -/
theorem prog_backtest_causal_via_generic (cfg : Cfg K) (tr : ProgTree K) {t : Nat} {w w' : World K}
    (hw : w.trunc t = w'.trunc t) (hz : HedgeZero w.root) (capital : K) (d0 : Nat) (hd0 : d0 ≤ t)
    (pre post : List Nat) (hpre : ∀ d ∈ pre, d ≤ t) (hpost : ∀ d ∈ post, t < d) {r r' : World K}
    (h : Prog.backtest cfg tr capital (d0 :: (pre ++ post)) w = .ok r)
    (h' : Prog.backtest cfg tr capital (d0 :: (pre ++ post)) w' = .ok r') :
    (∀ j, j ≤ t → rowsAt j r.root = rowsAt j r'.root) ∧ rowLens r.root = rowLens r'.root := by
  rw [backtest_eq_btRunG] at h h'
  exact gtree_backtest_causal cfg (embed cfg tr)
    (EveryNode.allNodes (fun _ hf p => (isProg_causalStrong hf t p).causal) _ (everyNode_embed tr) [])
    (EveryNode.allNodes (fun _ hf p => (isProg_runCAll hf p).public04) _ (everyNode_embed tr) [])
    hw hz capital d0 hd0 pre post hpre hpost h h'

example : Causal 2 (treeRun cfgE treeParE []) ∧ P04.RunPublic cfgE (treeRun cfgE treeParE []) :=
  treeRun_causal_public_via_generic cfgE treeParE [] 2

/-! ### (6) programs driven by frames: no look-ahead in the price data **and** in the supplied frames

    `SelectWhere(signal)`, `SetStat(stat, lag)`, `WeighTarget(weights)` read a frame the user supplies at `target.now` (or
    `now − lag`); the scheduler's answers and the windows of `SelectHasData` / `SelectMomentum` are per row as well.  In the
    model all of that travels with the program, one entry per row of the index.  `truncProg t p` cuts every such list after
    row `t`; a tree of programs is cut node by node (`truncX`).  Two programs (trees) whose cuts coincide are two sets of
    frames that agree on every row `≤ t` and are arbitrary afterwards. -/

/-- **a stack at row `d ≤ t` reads the rows it carries up to `t` only** -/
theorem progRunX_rows (cfg : Cfg K) (p : ProgX K) (path : List Nat) {d t : Nat} (h : d ≤ t) (w : World K) :
    progRunX cfg (PProgF.truncProg t p) path d w = progRunX cfg p path d w :=
  PProgF.progRunX_truncProg p path h w

/-- **two programs whose supplied rows agree up to the cut**: `p'` on the price data truncated after `t` does at every date
    `d ≤ t` what `p` does on the full data (C04's `CausalPair`) -/
theorem progRunX_causal_rows (cfg : Cfg K) {p p' : ProgX K} {t : Nat} (hpp : PProgF.truncProg t p = PProgF.truncProg t p')
    (path : List Nat) : CausalPair t (progRunX cfg p path) (progRunX cfg p' path) := fun d hd w hw => by
  rw [← PProgF.progRunX_rows_agree hpp path hd]
  exact progRunX_causal cfg p path t d hd w hw

/-- … and so for trees of programs, node by node -/
theorem progx_tree_causal_rows (cfg : Cfg K) {x x' : XTree K} {t : Nat} (hxx : truncX t x = truncX t x')
    (path : List Nat) : CausalPair t (treeRunG (embedX cfg x) path) (treeRunG (embedX cfg x') path) := fun d hd w hw => by
  rw [← treeRunG_rows_agree hxx path hd]
  exact progx_treeRun_causal cfg _ (everyNode_embedX x) path t d hd w hw

/-- **No look-ahead of whole backtests of frame-driven programs.**  Two trees of extended programs whose per-row data
    (scheduler answers, windows, signal / statistic / target-weight rows) agree on every row `≤ t`, two price data sets that
    agree on every row `≤ t`; dates `d0 :: (pre ++ post)` with `d0`, `pre` all `≤ t` and `post` all `> t`.  If both backtests
    succeed, every recorded entry of every node at every index `j ≤ t` is the same in both results, and all rows have the
    same lengths. -/
theorem progx_backtest_causal_rows (cfg : Cfg K) {x x' : XTree K} {t : Nat} (hxx : truncX t x = truncX t x')
    {w w' : World K} (hw : w.trunc t = w'.trunc t) (hz : HedgeZero w.root) (capital : K) (d0 : Nat) (hd0 : d0 ≤ t)
    (pre post : List Nat) (hpre : ∀ d ∈ pre, d ≤ t) (hpost : ∀ d ∈ post, t < d) {r r' : World K}
    (h : btRun cfg (treeRunG (embedX cfg x) []) capital (d0 :: (pre ++ post)) w = .ok r)
    (h' : btRun cfg (treeRunG (embedX cfg x') []) capital (d0 :: (pre ++ post)) w' = .ok r') :
    (∀ j, j ≤ t → rowsAt j r.root = rowsAt j r'.root) ∧ rowLens r.root = rowLens r'.root := by
  simp only [btRun] at h h'
  obtain ⟨w1, h1, h⟩ := bind_eq_ok h
  obtain ⟨w2, h2, h⟩ := bind_eq_ok h
  obtain ⟨w1', h1', h'⟩ := bind_eq_ok h'
  obtain ⟨w2', h2', h'⟩ := bind_eq_ok h'
  have e1 : w1.trunc t = w1'.trunc t := by
    refine ok_of_map_eq h1 h1' ?_
    rw [← opAdjust_root_trunc, ← opAdjust_root_trunc, hw]
  have e2 : w2.trunc t = w2'.trunc t := by
    refine ok_of_map_eq h2 h2' ?_
    rw [← updRoot_trunc cfg hd0, ← updRoot_trunc cfg hd0, e1]
  have hz1 : HedgeZero w1.root := RunC.hedgeZero (cfg := cfg) (wok_true w) (.single (.adjust _ _ _ _ h1)) hz
  have hz2 : HedgeZero w2.root := updRoot_hedgeZero h2 hz1
  exact backtest_causal_pair (progx_tree_causal_rows cfg hxx [])
    (progx_treeRun_causal cfg _ (everyNode_embedX x') [] t)
    (progx_treeRun_public cfg _ (everyNode_embedX x) []) (progx_treeRun_public cfg _ (everyNode_embedX x') [])
    e2 hz2 pre post hpre hpost h h'

/-- a signal frame, a statistic frame and a target-weight frame that differ after row 2 only -/
def progRowsA : ProgX Rat :=
  { gate := [false, true, true, true], ucols := [0, 1, 2],
    sels := [.all false false, .where_ [0, 1, 2] [none, some [some true, some true, some false], none, some [some true, none, none]] false false,
      .statN [0, 1, 2] [none, some [some 1, some 2, some 3], some [some 3, some 2, some 1], some [some 5, some 5, none]] (.int 1) false false true],
    wgh := .equally, post := [.closeDead] }
def progRowsB : ProgX Rat :=
  { progRowsA with
    gate := [false, true, true, false, true],
    sels := [.all false false, .where_ [0, 1, 2] [none, some [some true, some true, some false], none, some [none, some true, none]] false false,
      .statN [0, 1, 2] [none, some [some 1, some 2, some 3], some [some 3, some 2, some 1], none] (.int 1) false false true] }

/-- the two programs carry the same rows up to row 2; on rows 0-2 they do the same on data sets A and B (which agree up to
    row 2), and whole backtests of the two over data sets A and B record the same for rows 0, 1, 2 -/
example : PProgF.truncProg 2 progRowsA = PProgF.truncProg 2 progRowsB ∧
    CausalPair 2 (progRunX cfgE progRowsA []) (progRunX cfgE progRowsB []) ∧
    (∀ r r', btRun cfgE (treeRunG (embedX cfgE (.node progRowsA [none, none, none])) []) 1000 (0 :: ([1, 2] ++ [3])) wXA = .ok r →
      btRun cfgE (treeRunG (embedX cfgE (.node progRowsB [none, none, none])) []) 1000 (0 :: ([1, 2] ++ [3])) wXB = .ok r' →
      ∀ j, j ≤ 2 → rowsAt j r.root = rowsAt j r'.root) ∧
    (btRun cfgE (treeRunG (embedX cfgE (.node progRowsA [none, none, none])) []) 1000 [0, 1, 2, 3] wXA).toOption.isSome = true ∧
    (btRun cfgE (treeRunG (embedX cfgE (.node progRowsB [none, none, none])) []) 1000 [0, 1, 2, 3] wXB).toOption.isSome = true := by
  have hpp : PProgF.truncProg 2 progRowsA = PProgF.truncProg 2 progRowsB := rfl
  have hxx : truncX 2 (XTree.node progRowsA [none, none, none]) = truncX 2 (XTree.node progRowsB [none, none, none]) := by
    simp only [truncX_node, truncXL_none, truncXL_nil, hpp]
  refine ⟨hpp, progRunX_causal_rows cfgE hpp [], fun r r' h h' => ?_, by decide +kernel, by decide +kernel⟩
  exact (progx_backtest_causal_rows cfgE hxx (w := wXA) (w' := wXB) rfl wXA_hedgeZero 1000 0 (by decide) [1, 2] [3]
    (by decide) (by decide) h h').1

end Bt.C04
