import Bt.Proofs.ProgramF
import Bt.Proofs.ProgramW
import Bt.Proofs.ProgramXEx
import Bt.Props.C06_progw
/-! C06 inside whole programs — **`CloseDead()` before `Rebalance`**.

    `CloseDead` (`WStep.closeDead`, model `Prog.closeDead` in `Bt/Algos/ProgramF.lean`; executed against complete real
    backtests by the `whole-run-x` protocol, with price columns that drop to exactly zero while the name is held) walks
    `target.children` in order and, for every child whose universe price at `target.now` is `<= 0` (a missing price compares
    False), calls `target.close(c)` and deletes the name from `temp['weights']`.

    (1) after the step **no security child with a price `<= 0` on the current row has a weight** in the dict handed on
        (towards `Rebalance`, which cannot allocate at a zero price), nothing enters the dict, and every security child with a
        price that is not `<= 0` keeps its entry — the price columns being the same in the tree handed on;
    (2) over security children the tree is changed by exactly `target.close(c)` for the dead children, in child order — a
        sequence of public calls; "flat" is what `close` makes of it: a child whose *value* is already zero is left alone, so at
        a price of exactly 0 the position stays on the books (`witness_zero_price_position_kept`);
    (3) the step is causal: it tests the price of row `target.now`, so on data truncated after `t ≥ now` it does the same;
    (4) as the last post step of a stack, the weights `Rebalance` receives contain no dead security.
    Helper lemmas: `Bt.Proofs.ProgramF` (namespace `Bt.PProgF`). -/
set_option linter.unusedSectionVars false
set_option linter.unusedVariables false
namespace Bt.C06F
open Bt Bt.P08 Bt.P04 Bt.Prog Bt.PProg Bt.PProgX Bt.PProgW Bt.PProgF Bt.Select Bt.Weigh

variable {K : Type} [Field K] [LinearOrder K] [IsStrictOrderedRing K] [HasFloor K] [Select.HasNatFloor K]

/-! ### (1) the weights -/

/-- the step as a post step is `closeDead` on the strategy's own clock -/
theorem postStep_closeDead (cfg : Cfg K) (path : List Nat) (w : World K) (ws : List (Nat × K)) :
    postStep cfg path .closeDead (w, ws) = closeDead cfg path w ws := rfl

/-- **no dead child keeps a weight.**  `CloseDead` on the strategy at `path` (clock at row `r`) with `temp['weights'] = ws`
    succeeded with `(w', ws')`.  Then for every security child `i` whose price at row `r` is `<= 0`: `ws'` has no entry for
    `i`, and the child is found in `w'` with the same price column; nothing entered the weights; every security child whose
    price is not `<= 0` kept its entry. -/
theorem closeDead_weights (cfg : Cfg K) (path : List Nat) (w w' : World K) (ws ws' : List (Nat × K)) (sd : StratData K)
    (kids : List (Node K)) (r : Nat) (hn : w.root.get? path = some (.strat sd kids)) (hnow : sd.now = some r)
    (h : postStep cfg path .closeDead (w, ws) = .ok (w', ws')) :
    (∀ i s, w.root.get? (path ++ [i]) = some (.sec s) → isDead (cell s.prices r) = true →
      dictGet ws' i = none ∧ ∃ s', w'.root.get? (path ++ [i]) = some (.sec s') ∧ s'.prices = s.prices) ∧
    (∀ q ∈ ws', q ∈ ws) ∧
    (∀ q ∈ ws, ∀ s, w.root.get? (path ++ [q.1]) = some (.sec s) → isDead (cell s.prices r) = false → q ∈ ws') := by
  rw [postStep_closeDead] at h
  have hrun : RunC cfg (fun _ => True) w w' := closeDead_runC h
  unfold closeDead at h
  simp only [hn, hnow] at h
  obtain ⟨h1, h2, h3⟩ := closeDeadLoop_weights path r _ w ws w' ws' h
  refine ⟨fun i s hs hd => ⟨h1 i ?_ s hs hd, runC_keeps_prices hrun hs⟩, h2, h3⟩
  rw [Rebal.get?_child path w.root sd kids i hn] at hs
  rw [List.mem_range]
  rcases Nat.lt_or_ge i kids.length with hl | hl
  · exact hl
  · rw [List.getElem?_eq_none hl] at hs; cases hs

/-! ### (2) the tree -/

/-- **over security children `CloseDead` is `target.close(c)` for exactly the dead ones, in child order** -/
theorem closeDead_closes (cfg : Cfg K) (path : List Nat) (w w' : World K) (ws ws' : List (Nat × K)) (sd : StratData K)
    (kids : List (Node K)) (r : Nat) (hn : w.root.get? path = some (.strat sd kids)) (hnow : sd.now = some r)
    (hsec : ∀ k ∈ kids, k.isSec = true) (h : postStep cfg path .closeDead (w, ws) = .ok (w', ws')) :
    closeList cfg path ((List.range kids.length).filter (deadSec w path r)) w = .ok w' := by
  rw [postStep_closeDead] at h
  unfold closeDead at h
  simp only [hn, hnow] at h
  refine closeDeadLoop_closes path r _ w ws w' ws' ?_ h
  intro i hi
  rw [List.mem_range] at hi
  rw [Rebal.get?_child path w.root sd kids i hn, List.getElem?_eq_getElem hi]
  have := hsec kids[i] (List.getElem_mem hi)
  cases hk : kids[i] with
  | sec s => exact ⟨s, rfl⟩
  | strat sdk kk => rw [hk] at this; cases this

/-- every effect of the step goes through the public API (`target.close`), on any world whose clocks lie in `C` -/
theorem closeDead_public (cfg : Cfg K) (C : Nat → Prop) (path : List Nat) (w w' : World K) (ws ws' : List (Nat × K))
    (h : postStep cfg path .closeDead (w, ws) = .ok (w', ws')) : RunC cfg C w w' :=
  closeDead_runC h

/-! ### (3) no look-ahead -/

/-- **the step on data truncated after `t`, all clocks `≤ t`**: the same closes, the same weights (it reads the price of
    row `target.now ≤ t`) -/
theorem closeDead_causal (cfg : Cfg K) (path : List Nat) {t : Nat} (w : World K) (hw : ClockLE t w) (ws : List (Nat × K)) :
    postStep cfg path .closeDead (w.trunc t, ws) = (postStep cfg path .closeDead (w, ws)).map (truncFst t) :=
  closeDead_trunc path hw ws

/-! ### (4) `CloseDead` as the last post step: what `Rebalance` receives -/

/-- **`[…, weigher, pre…, CloseDead, Rebalance]`**: on a day that succeeds, `Rebalance` is called on the tree `CloseDead` left
    with weights in which no security child with a price `<= 0` on the current row occurs -/
theorem progRunX_closeDead_last (cfg : Cfg K) (p : ProgX K) (path : List Nat) (d : Nat) (w w' : World K)
    (sd : StratData K) (kids : List (Node K)) (sel : Option (List Nat)) (ws0 : List (Nat × K)) (pre : List (WStep K))
    (hg : p.gate.getD d false = true) (hn : w.root.get? path = some (.strat sd kids))
    (hs : selSteps (tableOf p.ucols kids d) d p.sels none = .ok (some sel))
    (hw : weigherX p d sel = .ok (some ws0)) (hpost : p.post = pre ++ [.closeDead])
    (h : progRunX cfg p path d w = .ok w') :
    ∃ wm wsm w1 ws, postSteps cfg path pre (w, ws0) = .ok (wm, wsm) ∧
      postStep cfg path .closeDead (wm, wsm) = .ok (w1, ws) ∧
      algoRebalance cfg w1 path ws p.cash none = .ok w' ∧
      ∀ sdm kidsm r, wm.root.get? path = some (.strat sdm kidsm) → sdm.now = some r →
        ∀ i s, wm.root.get? (path ++ [i]) = some (.sec s) → isDead (cell s.prices r) = true →
          dictGet ws i = none ∧ ∃ s', w1.root.get? (path ++ [i]) = some (.sec s') ∧ s'.prices = s.prices := by
  rw [progRunX_unfoldX hg hn hs hw, hpost] at h
  obtain ⟨⟨w1, ws⟩, h1, h2⟩ := bind_eq_ok h
  obtain ⟨⟨wm, wsm⟩, hpre, hlast⟩ := postSteps_snoc_ok h1
  refine ⟨wm, wsm, w1, ws, hpre, hlast, h2, ?_⟩
  intro sdm kidsm r hnm hnow i s hsi hd
  exact (closeDead_weights cfg path wm w1 wsm ws sdm kidsm r hnm hnow hlast).1 i s hsi hd

/-! ### non-vacuity: a name whose price drops to exactly zero while it is held -/

/-- `q`: –, 10, 0, 5 -/
def qE : SecData Rat := secE "q" [none, some 10, some 0, some 5]

def wDead : World Rat := ⟨.strat (stratE "root" false) [.sec qE, .sec yE], false⟩

/-- `[RunPeriod, WeighSpecified(q: 1/2, y: 1/2), CloseDead, Rebalance]` and the same stack without `CloseDead` -/
def progDead : ProgX Rat :=
  { gate := [false, true, true, true], ucols := [0, 1], sels := [], wgh := .specified [(0, 1/2), (1, 1/2)],
    post := [.closeDead] }
def progNoClose : ProgX Rat := { progDead with post := [] }

def gtreeDead : GTree Rat := embedX cfgE (.node progDead [none, none])
def gtreeNoClose : GTree Rat := embedX cfgE (.node progNoClose [none, none])

/-- position and value of the first child of the root -/
def firstPos (w : World Rat) : Option (Rat × Rat) :=
  match w.root with
  | .strat _ (.sec s :: _) => some (s.position, s.value)
  | _ => none

/-- without `CloseDead` the backtest raises on row 2 (`Rebalance` allocates to `q` at a price of 0); with it the backtest
    goes through -/
example : btRun cfgE (treeRunG gtreeNoClose []) 1000 [0, 1, 2] wDead = .error .allocateBadPrice ∧
    (btRun cfgE (treeRunG gtreeDead []) 1000 [0, 1, 2, 3] wDead).toOption.isSome = true :=
  ⟨raisedE_sound (by decide +kernel), by decide +kernel⟩

/-- **what "closed" means at a price of exactly zero**: after row 1 the strategy holds 50 `q` (worth 500); on row 2 the price
    is 0, `CloseDead` calls `close('q')`, whose test `value != 0` fails — the 50 units stay on the books at value 0 (and are
    worth 250 again on row 3, where the stack rebalances as usual) -/
theorem witness_zero_price_position_kept :
    (btRun cfgE (treeRunG gtreeDead []) 1000 [0, 1] wDead).toOption.bind firstPos = some (50, 500) ∧
    (btRun cfgE (treeRunG gtreeDead []) 1000 [0, 1, 2] wDead).toOption.bind firstPos = some (50, 0) := by
  refine ⟨by decide +kernel, by decide +kernel⟩

/-- a tree on row 2 holding 50 `q` (price 0) and nothing else -/
def wHeld : World Rat :=
  ⟨.strat { stratE "root" false with now := some 2, capital := 500, value := 500 }
    [.sec { qE with position := 50, now := some 2, price := some 0, needupdate := false }, .sec yE], false⟩

/-- the hypotheses of `closeDead_weights` / `closeDead_closes` hold on it: `q` leaves the weights and `y` stays; the tree is
    changed by `close('q')` alone -/
example : ∃ w' ws', postStep cfgE [] .closeDead (wHeld, [(0, 1/2), (1, 1/2)]) = .ok (w', ws') ∧
    dictGet ws' 0 = none ∧ ((1 : Nat), (1/2 : Rat)) ∈ ws' ∧ closeList cfgE [] [0] wHeld = .ok w' := by
  have hp : (postStep cfgE [] .closeDead (wHeld, [(0, 1/2), (1, 1/2)])).toOption.map (·.2) = some [(1, (1/2 : Rat))] := by
    decide +kernel
  obtain ⟨⟨w', ws'⟩, h, hws⟩ := P16.exists_of_toOption_map hp
  have hn : wHeld.root.get? [] = some (.strat { stratE "root" false with now := some 2, capital := 500, value := 500 }
      [.sec { qE with position := 50, now := some 2, price := some 0, needupdate := false }, .sec yE]) := rfl
  obtain ⟨h1, _, h3⟩ := closeDead_weights cfgE [] wHeld w' _ ws' _ _ 2 hn rfl h
  refine ⟨w', ws', h, (h1 0 _ rfl (by decide +kernel)).1, h3 (1, 1/2) (by simp) yE rfl (by decide +kernel), ?_⟩
  have hc := closeDead_closes cfgE [] wHeld w' _ ws' _ _ 2 hn rfl (by simp [Node.isSec]) h
  have hf : (List.range 2).filter (deadSec wHeld [] 2) = [0] := by decide +kernel
  exact hf ▸ hc

end Bt.C06F
