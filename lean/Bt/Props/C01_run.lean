import Bt.Proofs.BalancedRun
import Bt.Proofs.BalancedRunEx
import Bt.Props.C01
import Bt.Props.C08
/-! C01 at the run level — **the balance sheet at the end of every date of `Backtest.run`**, for arbitrary algos
    that act through the public API, and for whole program trees (no hypothesis on the algos left).

    C01 proves the balance-sheet identity per `update` and for every list of operations followed by an `update`.
    Here it is carried through `btDay` (`update(d); if not bankrupt: run(); update(d)`), `btLoop` and `btRun`
    (property theorems only; helper lemmas: `Bt.Proofs.BalancedRun`, namespace `Bt.P01R`; fixtures:
    `Bt.Proofs.BalancedRunEx`).

    The statements.
    * `P01R.BalancedWorld cfg d w` — the world at the end of date `d`: the root is a strategy, nothing is pending
      (`stale = false`), every strategy stands on `d`, **every strategy at every depth has
      `value = cash + Σ children's values`, `notional = Σ |children's notionals|` and every child that is not skipped
      has weight `childWeight`** (`P01R.BalancedExact`; market value: `value / parent value`, 0 when the parent's
      value is `isZero`), **every security has `value = position × price × multiplier`** (`SecMarkedPos`), and a
      skipped security is flat and worth nothing (`Quiet`).
    * `P01R.RowsEnd d n` — **the rows of `d` equal the state**: at every strategy `now = d`, `rValue[d] = value`,
      `rCash[d] = capital`, `rNotl[d] = notl`; at every security its rows at its own date hold its marked state, and
      if it is live (`needupdate`) it stands on `d` with `rPosition[d] = position`, `rValue[d] = value`,
      `rNotl[d] = notl`.  `P01R.RowsEndBelow d n`: the same at every node EXCEPT the root's value and notional.
    * `P01R.RowsKept d n n'` — the rows at index `d` of the later tree `n'` hold the state of `n`, node by node.
    * `P01R.C01Inv t w` — what is carried from one close to the next (proved re-established every day):
      `P02.CloseInv t w` (root a strategy, every strategy on `t`, all clocks `≤ t`, `Quiet`, `SecMarked`,
      `value = total`) and `AllSecs SecRowsInv`.
    * `P01R.OpenAlive cfg d w0` — the opening `root.update(d)` on `w0` does not take the bankruptcy step.

    The hypotheses, and what they exclude.
    * `P04.RunPublic cfg run` — every effect of `Strategy.run()` at row `d` on a world whose clocks stand at `d` is a
      sequence of public calls (explicit `root.update`s at `d` only).  This is the notion of `Bt.Proofs.Causal` /
      `Bt.Props.C04` (the one `P02.btDay_attribution` uses); it is *proved* for every program tree
      (`PProg.treeRun_public`) and for every tree of public node functions (`PProgX.treeRunG_public04`), which
      gives the instances.  It excludes algos that write fields of the tree directly.
    * `DustFree cfg` (`∀ x, isZero TOL x → x = 0`, i.e. `TOL ≤ 0`), for the BALANCE statements only — as in C01's
      `reachable_balanced`: with a positive `TOL` a position of size below `TOL` is skipped by the update loop
      although it has value, and a same-date update skips the write when no total moved by `TOL`, so the
      identities hold only up to `TOL` per strategy (`C01.visited_child_weight_counterexample`).  Side effect in the
      model: with `TOL ≤ 0` a security without a price on some row makes `update` raise even when flat, so the
      hypothesis `btDay … = .ok w2` then excludes data with missing prices.  The ROWS statements (section 2′) need
      no such hypothesis: they hold for any `TOL`, missing prices included.
    * `t < d`, `Increasing` — the dates of the loop increase and are later than every clock of the starting world.
    * `RowsLen d w0.root` — the recorded series were allocated over the date `d` (`setup` allocates them over the
      whole index): otherwise there is no row `d` to speak of.
    * `OpenAlive cfg d w0` in the rows statement — the ONLY exception: when the OPENING update of a new date takes
      the bankruptcy step, the update is redone on the liquidated tree on the same date and may skip the write of
      the root's value / notional (C01 `updRoot_bankrupt_rows_counterexample`).  Then the rows statement still
      holds at every node but the root's value and notional (`RowsEndBelow`).  A bankruptcy step at the CLOSING
      update, or in an explicit `root.update` of the algos, is no exception (`P01R.updRoot_rowsEnd_same`: the root's
      value row was right at `d` before, and the redone update writes both totals or neither).  `OpenAlive` follows
      from "alive at the end of `d`, or bankrupt before `d`" (`openAlive_of_alive`).  See section (4). -/
set_option linter.unusedSectionVars false
namespace Bt.C01
open Bt Bt.P02 Bt.P01R

variable {K : Type} [Field K] [LinearOrder K] [IsStrictOrderedRing K] [HasFloor K]

/-! ### (1) one date -/

/-- the condition of the rows statement in terms of the flag before and after the date: the strategy is alive
    at the end of `d`, or was bankrupt before -/
theorem openAlive_of_alive (cfg : Cfg K) (run : RunFn K) (d : Nat) (w0 w2 : World K)
    (h : btDay cfg run d w0 = .ok w2) (ha : w2.bankrupt = false ∨ w0.bankrupt = true) : OpenAlive cfg d w0 :=
  P01R.openAlive_of_alive h ha

/-- the opening update of date 2 on `DEx.w0` leaves the strategy alive -/
example : OpenAlive DEx.cfg0 2 DEx.w0 ∧ ∃ w2, btDay DEx.cfg0 DEx.run 2 DEx.w0 = .ok w2 ∧ w2.bankrupt = false := by
  obtain ⟨w2, h, hp⟩ := Ex.check_ok (x := btDay DEx.cfg0 DEx.run 2 DEx.w0) (p := fun w2 => !w2.bankrupt)
    (by decide +kernel)
  have hb : w2.bankrupt = false := by simpa using hp
  exact ⟨openAlive_of_alive _ _ _ _ _ h (Or.inl hb), w2, h, hb⟩

/-- **`btDay_balanced`.**  One pass `update(d); if not bankrupt: run(); update(d)` of the loop of `Backtest.run`
    from the world at the close of an earlier date `t < d`, with public algos in a dust-free configuration: at
    the end of the date the world is balanced (`BalancedWorld`: every strategy, every depth, every security);
    unless the opening update took the bankruptcy step the rows at `d` of every node equal the end-of-date state
    (`RowsEnd`), and in any case they do at every node but the root's value and notional (`RowsEndBelow`); the
    invariant is re-established; and no series changed its length. -/
theorem btDay_balanced (cfg : Cfg K) (hdf : DustFree cfg) (run : RunFn K) (hpub : P04.RunPublic cfg run)
    (t d : Nat) (w0 w2 : World K) (htd : t < d) (hinv : C01Inv t w0) (hlen : RowsLen d w0.root)
    (h : btDay cfg run d w0 = .ok w2) :
    BalancedWorld cfg d w2 ∧ (OpenAlive cfg d w0 → RowsEnd d w2.root) ∧ RowsEndBelow d w2.root ∧
      C01Inv d w2 ∧ ∀ e, RowsLen e w0.root → RowsLen e w2.root := by
  obtain ⟨a, b, c, e⟩ := btDay_close hdf hpub htd hinv hlen h
  exact ⟨a, c, e, b, fun e he => btDay_rowsLen hpub htd h he⟩

/-- date 2 on the two-level tree `DEx.w0` (root ─ a, sub ─ b) with the algo "buy 2 units of `a`, add 25 of capital" -/
example : ∃ w2, DustFree DEx.cfg0 ∧ P04.RunPublic DEx.cfg0 DEx.run ∧ C01Inv 1 DEx.w0 ∧ RowsLen 2 DEx.w0.root ∧
    btDay DEx.cfg0 DEx.run 2 DEx.w0 = .ok w2 ∧ BalancedWorld DEx.cfg0 2 w2 ∧ RowsEnd 2 w2.root ∧
    w2.root.value = 257349/250 := by
  obtain ⟨w2, h, hp⟩ := Ex.check_ok (x := btDay DEx.cfg0 DEx.run 2 DEx.w0)
    (p := fun w2 => !w2.bankrupt && w2.root.value == 257349/250) (by decide +kernel)
  simp only [Bool.and_eq_true, Bool.not_eq_true', beq_iff_eq] at hp
  obtain ⟨a, b, _⟩ := btDay_balanced DEx.cfg0 DEx.cfg0_dustFree DEx.run DEx.run_public 1 2 _ w2 (by decide)
    REx.w0_inv REx.w0_len h
  exact ⟨w2, DEx.cfg0_dustFree, DEx.run_public, REx.w0_inv, REx.w0_len, h, a,
    b (openAlive_of_alive _ _ _ _ _ h (Or.inl hp.1)), hp.2⟩

/-- **`btDay_balanced_tol`** — for ANY `TOL` and ANY algo function (no publicness): the pass for a date ends with a
    `root.update(d)`, so C01's per-update statement holds of the returned world as it stands: nothing is pending,
    and with `n0` the tree that last update worked on (the tree before it, or the liquidated tree of its
    bankruptcy step) the world is `Balanced cfg d n0` — every strategy `value = cash + Σ visited children's values`
    exactly or within `TOL`, weights `childWeight` — and, if `n0` is quiet and dust-free, balanced over all
    children (`BalancedAll`).  `btDay_balanced` is the form in which `Quiet` need not be assumed of an
    intermediate tree: under `DustFree` it is carried by the run. -/
theorem btDay_balanced_tol (cfg : Cfg K) (run : RunFn K) (d : Nat) (w0 w2 : World K)
    (h : btDay cfg run d w0 = .ok w2) :
    w2.stale = false ∧ ∃ wl n0, updRoot cfg d wl = .ok w2 ∧ (n0 = wl.root ∨ BankruptTree cfg d wl n0) ∧
      updNode cfg d n0 = .ok w2.root ∧ Balanced cfg d n0 w2.root ∧
      (Quiet n0 → NoDust cfg n0 → BalancedAll cfg w2.root ∧ Quiet w2.root ∧ NoDust cfg w2.root) := by
  obtain ⟨wl, hl⟩ := btDay_last_update h
  obtain ⟨hs, n0, h0, hn, hb, hall, _⟩ := updRoot_balanced cfg d wl w2 hl
  exact ⟨hs, wl, n0, hl, h0, hn, hb, hall⟩

/-- date 2 on `DEx.w0` with `TOL = 10⁻⁶` -/
example : ∃ w2, btDay LEx.cfg REx.runL 2 DEx.w0 = .ok w2 ∧ w2.stale = false :=
  let ⟨w2, h, _⟩ := Ex.check_ok (x := btDay LEx.cfg REx.runL 2 DEx.w0) (p := fun _ => true) (by decide +kernel)
  ⟨w2, h, (btDay_balanced_tol LEx.cfg REx.runL 2 _ w2 h).1⟩

/-! #### the content of `BalancedWorld` and `RowsEnd`, node by node -/

/-- every strategy, at every depth (addressed by its path): value = cash + Σ children's values, notional =
    Σ |children's notionals|, and every child that is not skipped has weight `childWeight` of the strategy's own
    totals -/
theorem balanced_strategy_at (cfg : Cfg K) (d : Nat) (w : World K) (hb : BalancedWorld cfg d w) (path : List Nat)
    (sd : StratData K) (kids : List (Node K)) (hp : w.root.get? path = some (.strat sd kids)) :
    sd.value = sd.capital + sumOf Node.value kids ∧ sd.notl = sumOf (fun k => |k.notl|) kids ∧
    (∀ k ∈ kids, k.skipped = false → k.weight = childWeight cfg sd.fixedIncome sd.value sd.notl k) ∧
    (sd.fixedIncome = false → ∀ k ∈ kids, k.skipped = false →
      k.weight = if isZero cfg.tol sd.value then 0 else k.value / sd.value) := by
  have hl := hb.exact.at path hp
  refine ⟨hl.value, hl.notl, hl.weights, fun hmv k hk hs => ?_⟩
  rw [hl.weights k hk hs, hmv]
  cases hz : isZero cfg.tol sd.value <;> simp [childWeight, hz]

/-- the sub-strategy at path `[1]` of the world at the end of date 2 -/
example : ∃ w2, btDay DEx.cfg0 DEx.run 2 DEx.w0 = .ok w2 ∧
    (match w2.root.get? [1] with
     | some (.strat sd kids) => sd.value == sd.capital + sumOf Node.value kids && sd.value == 100
     | _ => false) = true :=
  Ex.check_ok (by decide +kernel)

/-- every security (addressed by its path): value = position × price × multiplier (0 without a price); if it is
    skipped by the update loop it is flat and carries neither value nor notional -/
theorem balanced_security_at (cfg : Cfg K) (d : Nat) (w : World K) (hb : BalancedWorld cfg d w) (path : List Nat)
    (s : SecData K) (hp : w.root.get? path = some (.sec s)) :
    (∀ p, s.price = some p → s.value = s.position * p * s.mult) ∧ (s.price = none → s.value = 0) ∧
    (s.needupdate = false → s.position = 0 ∧ s.value = 0 ∧ s.notl = 0) := by
  have h1 := TreeAll.get? path hb.marks hp
  have h2 := TreeAll.get? path hb.quiet hp
  simp only [TreeAll] at h1 h2
  exact ⟨h1.1, h1.2, h2⟩

/-- security `a` at path `[0]`: 5 units at 51, multiplier 2 -/
example : ∃ w2, btDay DEx.cfg0 DEx.run 2 DEx.w0 = .ok w2 ∧
    (match w2.root.get? [0] with
     | some (.sec s) => s.value == 510 && s.position == 5 && s.price == some 51 && s.mult == 2
     | _ => false) = true :=
  Ex.check_ok (by decide +kernel)

/-- **weights sum to one** at every market-value strategy whose value is not zero: the weights of the children
    that are not skipped, plus the cash fraction.  (Under `DustFree`, `value ≠ 0` is exactly "not `isZero`".) -/
theorem weights_sum_one_at (cfg : Cfg K) (hdf : DustFree cfg) (d : Nat) (w : World K) (hb : BalancedWorld cfg d w)
    (path : List Nat) (sd : StratData K) (kids : List (Node K)) (hp : w.root.get? path = some (.strat sd kids))
    (hmv : sd.fixedIncome = false) (hv : sd.value ≠ 0) :
    sumOf (fun k => if k.skipped then 0 else k.weight) kids + sd.capital / sd.value = 1 := by
  have hq := TreeAll.get? path hb.quiet hp
  simp only [TreeAll] at hq
  exact (hb.exact.at path hp).weights_sum_one hdf hq.2 hmv hv

/-- the theorem applied to the root of the world at the end of date 2 -/
example : ∃ w2 sd kids, btDay DEx.cfg0 DEx.run 2 DEx.w0 = .ok w2 ∧ w2.root = .strat sd kids ∧
    sumOf (fun k => if k.skipped then 0 else k.weight) kids + sd.capital / sd.value = 1 := by
  obtain ⟨w2, h, hp⟩ := Ex.check_ok (x := btDay DEx.cfg0 DEx.run 2 DEx.w0)
    (p := fun w2 => match w2.root with
      | .strat sd _ => !sd.fixedIncome && sd.value != 0
      | _ => false) (by decide +kernel)
  obtain ⟨hb, _⟩ := btDay_balanced DEx.cfg0 DEx.cfg0_dustFree DEx.run DEx.run_public 1 2 _ w2 (by decide)
    REx.w0_inv REx.w0_len h
  obtain ⟨r, st⟩ := w2
  match r, h, hp, hb with
  | .strat sd kids, h, hp, hb =>
    simp only [Bool.and_eq_true, Bool.not_eq_true', bne_iff_ne, ne_eq] at hp
    exact ⟨_, sd, kids, h, rfl, weights_sum_one_at DEx.cfg0 DEx.cfg0_dustFree 2 _ hb [] sd kids rfl hp.1 hp.2⟩
  | .sec _, _, hp, _ => cases hp

/-- … over all children, when the skipped ones carry weight zero (a skipped security keeps the weight — below
    `TOL` in size — it had when it went quiet: `C01.visited_child_weight_counterexample`) -/
theorem weights_sum_one_all_at (cfg : Cfg K) (hdf : DustFree cfg) (d : Nat) (w : World K)
    (hb : BalancedWorld cfg d w) (path : List Nat) (sd : StratData K) (kids : List (Node K))
    (hp : w.root.get? path = some (.strat sd kids)) (hmv : sd.fixedIncome = false) (hv : sd.value ≠ 0)
    (hz : ∀ k ∈ kids, k.skipped = true → k.weight = 0) :
    sumOf Node.weight kids + sd.capital / sd.value = 1 := by
  have hq := TreeAll.get? path hb.quiet hp
  simp only [TreeAll] at hq
  exact (hb.exact.at path hp).weights_sum_one_all hdf hq.2 hmv hv hz

/-- … at the root of the same world (its children `a` and the sub-strategy are not skipped) -/
example : ∃ w2 sd kids, btDay DEx.cfg0 DEx.run 2 DEx.w0 = .ok w2 ∧ w2.root = .strat sd kids ∧
    sumOf Node.weight kids + sd.capital / sd.value = 1 := by
  obtain ⟨w2, h, hp⟩ := Ex.check_ok (x := btDay DEx.cfg0 DEx.run 2 DEx.w0)
    (p := fun w2 => match w2.root with
      | .strat sd kids => !sd.fixedIncome && sd.value != 0 && kids.all (fun k => !k.skipped || k.weight == 0)
      | _ => false) (by decide +kernel)
  obtain ⟨hb, _⟩ := btDay_balanced DEx.cfg0 DEx.cfg0_dustFree DEx.run DEx.run_public 1 2 _ w2 (by decide)
    REx.w0_inv REx.w0_len h
  obtain ⟨r, st⟩ := w2
  match r, h, hp, hb with
  | .strat sd kids, h, hp, hb =>
    simp only [Bool.and_eq_true, Bool.not_eq_true', bne_iff_ne, ne_eq, List.all_eq_true, Bool.or_eq_true,
      beq_iff_eq] at hp
    refine ⟨_, sd, kids, h, rfl, weights_sum_one_all_at DEx.cfg0 DEx.cfg0_dustFree 2 _ hb [] sd kids rfl
      hp.1.1 hp.1.2 (fun k hk hs => ?_)⟩
    rcases hp.2 k hk with h1 | h1
    · rw [hs] at h1; cases h1
    · exact h1
  | .sec _, _, hp, _ => cases hp

/-- … and are zero otherwise -/
theorem weights_zero_at (cfg : Cfg K) (d : Nat) (w : World K) (hb : BalancedWorld cfg d w)
    (path : List Nat) (sd : StratData K) (kids : List (Node K)) (hp : w.root.get? path = some (.strat sd kids))
    (hmv : sd.fixedIncome = false) (hz : isZero cfg.tol sd.value = true ∨ sd.value = 0) :
    ∀ k ∈ kids, k.skipped = false → k.weight = 0 :=
  (hb.exact.at path hp).weights_zero hmv hz

/-- the root at the end of date 2: weights 510 / V and 100 / V, cash fraction, sum 1 -/
example : ∃ w2, btDay DEx.cfg0 DEx.run 2 DEx.w0 = .ok w2 ∧
    (match w2.root with
     | .strat sd kids => sumOf Node.weight kids + sd.capital / sd.value == 1 && !sd.fixedIncome && sd.value != 0
     | _ => false) = true :=
  Ex.check_ok (by decide +kernel)

/-- **the rows of `d` equal the state**, at the strategy at any path: value, cash, notional -/
theorem rows_eq_state_strategy_at (d : Nat) (n : Node K) (hr : RowsEnd d n) (path : List Nat)
    (sd : StratData K) (kids : List (Node K)) (hp : n.get? path = some (.strat sd kids)) :
    sd.now = some d ∧ sd.rValue[d]? = some sd.value ∧ sd.rCash[d]? = some sd.capital ∧
      sd.rNotl[d]? = some sd.notl := by
  have := TreeAll.get? path hr hp
  simp only [TreeAll] at this
  exact this.1

/-- the sub-strategy at path `[1]` at the end of date 2: value 100 and cash 100 recorded at index 2 -/
example : ∃ w2, btDay DEx.cfg0 DEx.run 2 DEx.w0 = .ok w2 ∧
    (match w2.root.get? [1] with
     | some (.strat sd _) => sd.now == some 2 && sd.rValue[2]? == some sd.value && sd.rCash[2]? == some sd.capital &&
         sd.rNotl[2]? == some sd.notl && sd.value == 100
     | _ => false) = true :=
  Ex.check_ok (by decide +kernel)

/-- … at the security at any path: the rows at its own date hold its marked state, and a live security stands
    on `d` with position, value and notional recorded at `d` -/
theorem rows_eq_state_security_at (d : Nat) (n : Node K) (hr : RowsEnd d n) (path : List Nat)
    (s : SecData K) (hp : n.get? path = some (.sec s)) :
    (∀ e, s.now = some e → s.rPosition[e]? = some s.lastPos ∧ s.rValue[e]? = some s.value ∧
      s.rNotl[e]? = some s.notl) ∧
    (s.needupdate = true → s.now = some d ∧ s.rPosition[d]? = some s.position ∧ s.rValue[d]? = some s.value ∧
      s.rNotl[d]? = some s.notl) := by
  have := TreeAll.get? path hr hp
  simp only [TreeAll] at this
  exact this

/-- the rows at index 2 of the root, of `a` and of the sub-strategy at the end of date 2 -/
example : ∃ w2, btDay DEx.cfg0 DEx.run 2 DEx.w0 = .ok w2 ∧
    (match w2.root with
     | .strat sd [.sec a, .strat sub _] =>
       sd.rValue[2]? == some sd.value && sd.rCash[2]? == some sd.capital && sd.rNotl[2]? == some sd.notl &&
       a.rPosition[2]? == some 5 && a.rValue[2]? == some 510 && sub.rValue[2]? == some 100 &&
       sub.rCash[2]? == some 100
     | _ => false) = true :=
  Ex.check_ok (by decide +kernel)

/-! ### (2) the loop and the whole run -/

/-- **`btLoop_balanced`.**  The loop over increasing dates `t < d₁ < d₂ < …` from a world that satisfies `C01Inv t`,
    series allocated over all the dates, hedge notional rows all zero (any freshly set-up tree; maintained by the
    engine).  For EVERY date `d` of the loop (`ds = ds1 ++ d :: ds2`), with `wp` the world before and `wm` the
    world after the pass for `d` (`wm` is the state of the run over the prefix `ds1 ++ [d]`): `wm` is balanced;
    its rows of `d` equal its state at every node but the root's value / notional (`RowsEndBelow`); and unless
    the opening update of `d` took the bankruptcy step, the rows of `d` equal the state of `wm` at every node —
    in `wm` (`RowsEnd`) and still in the FINAL world `wN` (`RowsKept`: later dates never rewrite row `d`, C08
    `past_rows_frozen`).  The invariant holds at the end. -/
theorem btLoop_balanced (cfg : Cfg K) (hdf : DustFree cfg) (run : RunFn K) (hpub : P04.RunPublic cfg run)
    (ds : List Nat) (t : Nat) (w0 wN : World K) (hinc : Increasing t ds) (hinv : C01Inv t w0)
    (hlen : ∀ d ∈ ds, RowsLen d w0.root) (hz : P08.HedgeZero w0.root) (h : btLoop cfg run ds w0 = .ok wN) :
    C01Inv (lastDate t ds) wN ∧
    ∀ ds1 d ds2, ds = ds1 ++ d :: ds2 → ∃ wp wm, btLoop cfg run ds1 w0 = .ok wp ∧
      btDay cfg run d wp = .ok wm ∧ btLoop cfg run ds2 wm = .ok wN ∧ BalancedWorld cfg d wm ∧
      RowsEndBelow d wm.root ∧ (OpenAlive cfg d wp → RowsEnd d wm.root ∧ RowsKept d wm.root wN.root) :=
  btLoop_full hdf hpub ds t w0 wN hinc hinv hlen hz h

example : ∃ wN, Increasing 1 [2] ∧ C01Inv 1 DEx.w0 ∧ (∀ d ∈ [2], RowsLen d DEx.w0.root) ∧
    P08.HedgeZero DEx.w0.root ∧ btLoop DEx.cfg0 DEx.run [2] DEx.w0 = .ok wN ∧ C01Inv 2 wN :=
  let ⟨wN, h, _⟩ := Ex.check_ok (x := btLoop DEx.cfg0 DEx.run [2] DEx.w0) (p := fun _ => true) (by decide +kernel)
  ⟨wN, ⟨by decide, trivial⟩, REx.w0_inv, fun d hd => by simp at hd; subst hd; exact REx.w0_len, REx.w0_hedgeZero, h,
    (btLoop_balanced DEx.cfg0 DEx.cfg0_dustFree DEx.run DEx.run_public [2] 1 _ wN ⟨by decide, trivial⟩ REx.w0_inv
      (fun d hd => by simp at hd; subst hd; exact REx.w0_len) REx.w0_hedgeZero h).1⟩

/-- what `RowsKept` says at the strategy / security at any path: the FINAL world's rows at `d` hold the value, cash,
    notional (position, value, notional) the node had at the end of `d` -/
theorem rows_kept_at (d : Nat) (n n' : Node K) (hk : RowsKept d n n') :
    (∀ sd kids sd' kids', n = .strat sd kids → n' = .strat sd' kids' →
      sd'.rValue[d]? = some sd.value ∧ sd'.rCash[d]? = some sd.capital ∧ sd'.rNotl[d]? = some sd.notl ∧
      P04.LiftL (SecKept d) (StratKept d) kids kids') ∧
    (∀ s s', n = .sec s → n' = .sec s' → s.needupdate = true →
      s'.rPosition[d]? = some s.position ∧ s'.rValue[d]? = some s.value ∧ s'.rNotl[d]? = some s.notl) := by
  refine ⟨?_, ?_⟩
  · rintro sd kids sd' kids' rfl rfl
    simp only [RowsKept, P04.lift_strat] at hk
    exact ⟨hk.1.1, hk.1.2.1, hk.1.2.2, hk.2⟩
  · rintro s s' rfl rfl hn
    simp only [RowsKept, P04.lift_sec] at hk
    exact hk hn

example : RowsKept 0 (Node.sec LEx.sec2 : Node Rat) (.sec LEx.sec2) := by
  simp only [RowsKept, P04.lift_sec, SecKept]
  intro h; cases h

/-- **`btRun_balanced`.**  `Backtest.run` (`adjust(capital)`, `update(dates[0])`, the loop) on a template that was
    never run (no clock set), quiet and marked, with public algos: the world `wB` after the first date and the
    world `wm` after EVERY later date `d` (the result of the run over the prefix of the dates up to `d`) is
    balanced, and — an opening update that takes the bankruptcy step excepted — the rows of that date equal the
    state at its end, both then and in the final world `wN`. -/
theorem btRun_balanced (cfg : Cfg K) (hdf : DustFree cfg) (run : RunFn K) (hpub : P04.RunPublic cfg run)
    (capital : K) (d0 : Nat) (ds : List Nat) (w0 wN : World K) (hs : IsStrat w0.root)
    (hcl : ClocksIn (fun _ => False) w0.root) (hq : Quiet w0.root) (hm : AllSecs SecMarked w0.root)
    (hinc : Increasing d0 ds) (hlen : ∀ d ∈ d0 :: ds, RowsLen d w0.root) (hz : P08.HedgeZero w0.root)
    (h : btRun cfg run capital (d0 :: ds) w0 = .ok wN) :
    (∃ wA wB, opAdjust w0 [] capital true true = .ok wA ∧ updRoot cfg d0 wA = .ok wB ∧
      btLoop cfg run ds wB = .ok wN ∧ BalancedWorld cfg d0 wB ∧ RowsEndBelow d0 wB.root ∧
      ((wB.bankrupt = false ∨ wA.bankrupt = true) → RowsEnd d0 wB.root ∧ RowsKept d0 wB.root wN.root)) ∧
    (∀ ds1 d ds2, ds = ds1 ++ d :: ds2 → ∃ wp wm, btRun cfg run capital (d0 :: ds1) w0 = .ok wp ∧
      btDay cfg run d wp = .ok wm ∧ btLoop cfg run ds2 wm = .ok wN ∧ BalancedWorld cfg d wm ∧
      RowsEndBelow d wm.root ∧ (OpenAlive cfg d wp → RowsEnd d wm.root ∧ RowsKept d wm.root wN.root)) ∧
    C01Inv (lastDate d0 ds) wN :=
  btRun_full hdf hpub hs hcl hq hm hinc hlen hz h

/-- the tree of plain functions `REx.gtreeR` over four dates: after the first date the world is balanced with its
    rows right -/
example : ∃ wN wB, btRun REx.cfg0 (Prog.treeRunG REx.gtreeR []) 1000 [0, 1, 2, 3] REx.wPar = .ok wN ∧
    BalancedWorld REx.cfg0 0 wB ∧ RowsEndBelow 0 wB.root ∧ btLoop REx.cfg0 (Prog.treeRunG REx.gtreeR []) [1, 2, 3] wB = .ok wN := by
  obtain ⟨wN, h, _⟩ := Ex.check_ok (x := btRun REx.cfg0 (Prog.treeRunG REx.gtreeR []) 1000 [0, 1, 2, 3] REx.wPar)
    (p := fun _ => true) (by decide +kernel)
  obtain ⟨⟨wA, wB, _, _, hL, hb, hr, _⟩, _⟩ := btRun_balanced REx.cfg0 REx.cfg0_dustFree _
    (PProgX.treeRunG_public04 _ [] REx.gtreeR_public) 1000 0 [1, 2, 3] _ wN
    REx.wPar_strat REx.wPar_noClocks REx.wPar_quiet REx.wPar_marked ⟨by decide, by decide, by decide, trivial⟩
    REx.wPar_len REx.wPar_hedgeZero h
  exact ⟨wN, wB, h, hb, hr, hL⟩

/-! ### (2′) the rows alone — for ANY `TOL`

The rows statement needs neither `DustFree` nor `Quiet` / `SecMarked` / balance: only that the dates are new
(no strategy stands on `d` yet), that every security's rows at its own date hold its marked state
(`AllSecs SecRowsInv`, vacuous on a template that was never run, and re-established every day), that the series
are long enough, and publicness.  In particular it holds with the real `TOL = 10⁻¹⁶`, missing prices included. -/

/-- **`btDay_rows_eq_state`.**  One pass for a date `d` no strategy of `w0` stands on: unless the opening update
    takes the bankruptcy step, the rows at `d` of every node of `w2` equal its end-of-date state — and in any
    case at every node but the root's value / notional; every clock of `w2` stands at `d` and the securities'
    invariant is kept. -/
theorem btDay_rows_eq_state (cfg : Cfg K) (run : RunFn K) (hpub : P04.RunPublic cfg run) (d : Nat)
    (w0 w2 : World K) (hn : P08.NowsIn (· ≠ d) w0.root) (hi : AllSecs SecRowsInv w0.root)
    (hlen : RowsLen d w0.root) (h : btDay cfg run d w0 = .ok w2) :
    (OpenAlive cfg d w0 → RowsEnd d w2.root) ∧ RowsEndBelow d w2.root ∧
      P04.WOK (· = d) w2 ∧ AllSecs SecRowsInv w2.root ∧ RowsLen d w2.root :=
  let ⟨a, b, c, e, f⟩ := btDay_rows hpub hn hi hlen h
  ⟨e, f, a, b, c⟩

/-- date 2 on `DEx.w0` with `TOL = 10⁻⁶` -/
example : ∃ w2, btDay LEx.cfg REx.runL 2 DEx.w0 = .ok w2 ∧ RowsEnd 2 w2.root := by
  obtain ⟨w2, h, hp⟩ := Ex.check_ok (x := btDay LEx.cfg REx.runL 2 DEx.w0) (p := fun w2 => !w2.bankrupt)
    (by decide +kernel)
  exact ⟨w2, h, (btDay_rows_eq_state LEx.cfg REx.runL REx.runL_public 2 _ w2 REx.w0_nows REx.w0_inv.secRows
    REx.w0_len h).1 (openAlive_of_alive _ _ _ _ _ h (Or.inl (by simpa using hp)))⟩

/-- **`btLoop_rows_eq_state`.**  The loop over increasing dates later than every strategy's clock: for every date
    `d` of the loop that is not the date of the bankruptcy, the rows of `d` equal the state at the end of `d` —
    in the world `wm` after `d`, and still in the final world `wN`. -/
theorem btLoop_rows_eq_state (cfg : Cfg K) (run : RunFn K) (hpub : P04.RunPublic cfg run) (ds : List Nat) (t : Nat)
    (w0 wN : World K) (hinc : Increasing t ds) (hn : P08.NowsIn (· ≤ t) w0.root) (hi : AllSecs SecRowsInv w0.root)
    (hlen : ∀ d ∈ ds, RowsLen d w0.root) (hz : P08.HedgeZero w0.root) (h : btLoop cfg run ds w0 = .ok wN) :
    ∀ ds1 d ds2, ds = ds1 ++ d :: ds2 → ∃ wp wm, btLoop cfg run ds1 w0 = .ok wp ∧
      btDay cfg run d wp = .ok wm ∧ btLoop cfg run ds2 wm = .ok wN ∧ RowsEndBelow d wm.root ∧
      (OpenAlive cfg d wp → RowsEnd d wm.root ∧ RowsKept d wm.root wN.root) :=
  btLoop_rows hpub ds t w0 wN hinc hn hi hlen hz h

example : ∃ wN, btLoop LEx.cfg REx.runL [2] DEx.w0 = .ok wN ∧ RowsEnd 2 wN.root := by
  obtain ⟨wN, h, hp⟩ := Ex.check_ok (x := btLoop LEx.cfg REx.runL [2] DEx.w0) (p := fun w => !w.bankrupt)
    (by decide +kernel)
  obtain ⟨wp, wm, h1, h2, h3, _, hr⟩ := btLoop_rows_eq_state LEx.cfg REx.runL REx.runL_public [2] 1 _ wN
    ⟨by decide, trivial⟩ (P04.nowsIn_mono (fun x hx => by omega) _ (P02.clocks_nowsIn _ DEx.w0_close.clocks))
    REx.w0_inv.secRows (fun d hd => by simp at hd; subst hd; exact REx.w0_len) REx.w0_hedgeZero h [] 2 [] rfl
  cases h3
  cases h1
  exact ⟨wN, h, (hr (openAlive_of_alive _ _ _ _ _ h2 (Or.inl (by simpa using hp)))).1⟩

/-- **`btRun_rows_eq_state`.**  `Backtest.run` on a template whose strategies' clocks (if any) are before the
    first date: the first date and every later date, as above. -/
theorem btRun_rows_eq_state (cfg : Cfg K) (run : RunFn K) (hpub : P04.RunPublic cfg run) (capital : K) (d0 : Nat)
    (ds : List Nat) (w0 wN : World K) (hs : IsStrat w0.root) (hn : P08.NowsIn (· < d0) w0.root)
    (hi : AllSecs SecRowsInv w0.root) (hinc : Increasing d0 ds) (hlen : ∀ d ∈ d0 :: ds, RowsLen d w0.root)
    (hz : P08.HedgeZero w0.root) (h : btRun cfg run capital (d0 :: ds) w0 = .ok wN) :
    (∃ wA wB, opAdjust w0 [] capital true true = .ok wA ∧ updRoot cfg d0 wA = .ok wB ∧
      btLoop cfg run ds wB = .ok wN ∧ RowsEndBelow d0 wB.root ∧
      ((wB.bankrupt = false ∨ wA.bankrupt = true) → RowsEnd d0 wB.root ∧ RowsKept d0 wB.root wN.root)) ∧
    (∀ ds1 d ds2, ds = ds1 ++ d :: ds2 → ∃ wp wm, btRun cfg run capital (d0 :: ds1) w0 = .ok wp ∧
      btDay cfg run d wp = .ok wm ∧ btLoop cfg run ds2 wm = .ok wN ∧ RowsEndBelow d wm.root ∧
      (OpenAlive cfg d wp → RowsEnd d wm.root ∧ RowsKept d wm.root wN.root)) :=
  btRun_rows hpub hs hn hi hinc hlen hz h

/-- the tree of plain functions on the fresh template `REx.wPar`: the rows of the first date -/
example : ∃ wN wB, btRun REx.cfg0 (Prog.treeRunG REx.gtreeR []) 1000 [0, 1, 2, 3] REx.wPar = .ok wN ∧
    RowsEndBelow 0 wB.root ∧ btLoop REx.cfg0 (Prog.treeRunG REx.gtreeR []) [1, 2, 3] wB = .ok wN := by
  obtain ⟨wN, h, _⟩ := Ex.check_ok (x := btRun REx.cfg0 (Prog.treeRunG REx.gtreeR []) 1000 [0, 1, 2, 3] REx.wPar)
    (p := fun _ => true) (by decide +kernel)
  obtain ⟨⟨wA, wB, _, _, hL, hr, _⟩, _⟩ := btRun_rows_eq_state REx.cfg0 _
    (PProgX.treeRunG_public04 _ [] REx.gtreeR_public) 1000 0 [1, 2, 3] _ wN REx.wPar_strat
    (P04.nowsIn_mono (fun _ hx => hx.elim) _ (P02.clocks_nowsIn _ REx.wPar_noClocks))
    (secRowsInv_of_noClocks _ REx.wPar_noClocks) ⟨by decide, by decide, by decide, trivial⟩ REx.wPar_len
    REx.wPar_hedgeZero h
  exact ⟨wN, wB, h, hr, hL⟩

/-- … for every program tree -/
theorem prog_backtest_rows_eq_state (cfg : Cfg K) (tr : Prog.ProgTree K) (capital : K) (d0 : Nat)
    (ds : List Nat) (w0 wN : World K) (hs : IsStrat w0.root) (hn : P08.NowsIn (· < d0) w0.root)
    (hi : AllSecs SecRowsInv w0.root) (hinc : Increasing d0 ds) (hlen : ∀ d ∈ d0 :: ds, RowsLen d w0.root)
    (hz : P08.HedgeZero w0.root) (h : Prog.backtest cfg tr capital (d0 :: ds) w0 = .ok wN) :
    (∃ wA wB, opAdjust w0 [] capital true true = .ok wA ∧ updRoot cfg d0 wA = .ok wB ∧
      btLoop cfg (Prog.treeRun cfg tr []) ds wB = .ok wN ∧ RowsEndBelow d0 wB.root ∧
      ((wB.bankrupt = false ∨ wA.bankrupt = true) → RowsEnd d0 wB.root ∧ RowsKept d0 wB.root wN.root)) ∧
    (∀ ds1 d ds2, ds = ds1 ++ d :: ds2 → ∃ wp wm, Prog.backtest cfg tr capital (d0 :: ds1) w0 = .ok wp ∧
      btDay cfg (Prog.treeRun cfg tr []) d wp = .ok wm ∧ btLoop cfg (Prog.treeRun cfg tr []) ds2 wm = .ok wN ∧
      RowsEndBelow d wm.root ∧ (OpenAlive cfg d wp → RowsEnd d wm.root ∧ RowsKept d wm.root wN.root)) :=
  btRun_rows (PProg.treeRun_public tr []) hs hn hi hinc hlen hz h

/-- the nested program of C04/C09/C16 on its own fixture (`TOL = 1/1000`, row 0 without prices): the rows of
    date 2 in the world after date 2 equal its state and are still there at the end -/
example : ∃ wm wN, Prog.backtest PProg.cfgE PProg.treeParE 1000 [0, 1, 2, 3] PProg.wParE = .ok wN ∧
    Prog.backtest PProg.cfgE PProg.treeParE 1000 [0, 1, 2] PProg.wParE = .ok wm ∧
    RowsEnd 2 wm.root ∧ RowsKept 2 wm.root wN.root := by
  obtain ⟨wN, h, _⟩ := Ex.check_ok (x := Prog.backtest PProg.cfgE PProg.treeParE 1000 [0, 1, 2, 3] PProg.wParE)
    (p := fun _ => true) (by decide +kernel)
  obtain ⟨_, hsplit⟩ := prog_backtest_rows_eq_state PProg.cfgE PProg.treeParE 1000 0 [1, 2, 3] _ wN
    REx.wParE_strat (REx.wParE_nows 0) REx.wParE_secRows ⟨by decide, by decide, by decide, trivial⟩ REx.wParE_len
    REx.wParE_hedgeZero h
  obtain ⟨wp, wm, h1, h2, _, _, hr⟩ := hsplit [1] 2 [3] rfl
  have hm : Prog.backtest PProg.cfgE PProg.treeParE 1000 [0, 1, 2] PProg.wParE = .ok wm := by
    have := P09.btRun_prefix PProg.cfgE (Prog.treeRun PProg.cfgE PProg.treeParE []) 1000 0 [1] [2] PProg.wParE
    simp only [List.cons_append, List.nil_append] at this
    unfold Prog.backtest at h1 ⊢
    rw [this, h1, P08.bind_ok, btLoop, h2]; rfl
  obtain ⟨wm', hm', hq⟩ := Ex.check_ok (x := Prog.backtest PProg.cfgE PProg.treeParE 1000 [0, 1, 2] PProg.wParE)
    (p := fun wm => !wm.bankrupt) (by decide +kernel)
  rw [hm] at hm'
  cases hm'
  obtain ⟨r1, r2⟩ := hr (openAlive_of_alive _ _ _ _ _ h2 (Or.inl (by simpa using hq)))
  exact ⟨wm, wN, h, hm, r1, r2⟩

/-! ### (3) instances: no hypothesis on the algos -/

/-- **`prog_backtest_balanced`.**  `Prog.backtest` of ANY program tree (any gates, selectors, weighers, any
    nesting): `btRun_balanced` with `run := treeRun cfg tr []`, whose publicness is a theorem. -/
theorem prog_backtest_balanced (cfg : Cfg K) (hdf : DustFree cfg) (tr : Prog.ProgTree K) (capital : K) (d0 : Nat)
    (ds : List Nat) (w0 wN : World K) (hs : IsStrat w0.root) (hcl : ClocksIn (fun _ => False) w0.root)
    (hq : Quiet w0.root) (hm : AllSecs SecMarked w0.root) (hinc : Increasing d0 ds)
    (hlen : ∀ d ∈ d0 :: ds, RowsLen d w0.root) (hz : P08.HedgeZero w0.root)
    (h : Prog.backtest cfg tr capital (d0 :: ds) w0 = .ok wN) :
    (∃ wA wB, opAdjust w0 [] capital true true = .ok wA ∧ updRoot cfg d0 wA = .ok wB ∧
      btLoop cfg (Prog.treeRun cfg tr []) ds wB = .ok wN ∧ BalancedWorld cfg d0 wB ∧ RowsEndBelow d0 wB.root ∧
      ((wB.bankrupt = false ∨ wA.bankrupt = true) → RowsEnd d0 wB.root ∧ RowsKept d0 wB.root wN.root)) ∧
    (∀ ds1 d ds2, ds = ds1 ++ d :: ds2 → ∃ wp wm, Prog.backtest cfg tr capital (d0 :: ds1) w0 = .ok wp ∧
      btDay cfg (Prog.treeRun cfg tr []) d wp = .ok wm ∧ btLoop cfg (Prog.treeRun cfg tr []) ds2 wm = .ok wN ∧
      BalancedWorld cfg d wm ∧ RowsEndBelow d wm.root ∧
      (OpenAlive cfg d wp → RowsEnd d wm.root ∧ RowsKept d wm.root wN.root)) ∧
    C01Inv (lastDate d0 ds) wN :=
  btRun_full hdf (PProg.treeRun_public tr []) hs hcl hq hm hinc hlen hz h

/-- the nested program `PProg.treeParE` (root: `SelectAll`, `WeighEqually` over the sub-strategy and `z`; the
    sub-strategy: `SelectThese [y, x]`, `WeighSpecified`; both on rows 1 and 3) over four dates -/
example : ∃ wN, Prog.backtest REx.cfg0 PProg.treeParE 1000 [0, 1, 2, 3] REx.wPar = .ok wN ∧
    C01Inv 3 wN ∧ wN.bankrupt = false ∧ wN.root.value = 4375/4 := by
  obtain ⟨wN, h, hp⟩ := Ex.check_ok (x := Prog.backtest REx.cfg0 PProg.treeParE 1000 [0, 1, 2, 3] REx.wPar)
    (p := fun wN => !wN.bankrupt && wN.root.value == 4375/4) (by decide +kernel)
  simp only [Bool.and_eq_true, Bool.not_eq_true', beq_iff_eq] at hp
  exact ⟨wN, h, (prog_backtest_balanced REx.cfg0 REx.cfg0_dustFree _ 1000 0 [1, 2, 3] _ wN REx.wPar_strat
    REx.wPar_noClocks REx.wPar_quiet REx.wPar_marked ⟨by decide, by decide, by decide, trivial⟩ REx.wPar_len
    REx.wPar_hedgeZero h).2.2, hp.1, hp.2⟩

/-- **`gtree_backtest_balanced`.**  `Backtest.run` of ANY tree of node functions that are public at their paths
    (`PProgX.AllNodes (P04.RunPublic cfg) tr []`): the tree's `Strategy.run()` is then public
    (`PProgX.treeRunG_public04`). -/
theorem gtree_backtest_balanced (cfg : Cfg K) (hdf : DustFree cfg) (tr : Prog.GTree K)
    (hp : PProgX.AllNodes (P04.RunPublic cfg) tr []) (capital : K) (d0 : Nat) (ds : List Nat) (w0 wN : World K)
    (hs : IsStrat w0.root) (hcl : ClocksIn (fun _ => False) w0.root) (hq : Quiet w0.root)
    (hm : AllSecs SecMarked w0.root) (hinc : Increasing d0 ds) (hlen : ∀ d ∈ d0 :: ds, RowsLen d w0.root)
    (hz : P08.HedgeZero w0.root) (h : btRun cfg (Prog.treeRunG tr []) capital (d0 :: ds) w0 = .ok wN) :
    (∃ wA wB, opAdjust w0 [] capital true true = .ok wA ∧ updRoot cfg d0 wA = .ok wB ∧
      btLoop cfg (Prog.treeRunG tr []) ds wB = .ok wN ∧ BalancedWorld cfg d0 wB ∧ RowsEndBelow d0 wB.root ∧
      ((wB.bankrupt = false ∨ wA.bankrupt = true) → RowsEnd d0 wB.root ∧ RowsKept d0 wB.root wN.root)) ∧
    (∀ ds1 d ds2, ds = ds1 ++ d :: ds2 → ∃ wp wm, btRun cfg (Prog.treeRunG tr []) capital (d0 :: ds1) w0 = .ok wp ∧
      btDay cfg (Prog.treeRunG tr []) d wp = .ok wm ∧ btLoop cfg (Prog.treeRunG tr []) ds2 wm = .ok wN ∧
      BalancedWorld cfg d wm ∧ RowsEndBelow d wm.root ∧
      (OpenAlive cfg d wp → RowsEnd d wm.root ∧ RowsKept d wm.root wN.root)) ∧
    C01Inv (lastDate d0 ds) wN :=
  btRun_full hdf (PProgX.treeRunG_public04 tr [] hp) hs hcl hq hm hinc hlen hz h

/-- a tree of plain functions (the root rebalances the sub-strategy and `z` on row 1, the sub-strategy rebalances
    `x` on row 2): the world after date 2 (prefix `[0, 1, 2]`) is balanced, its rows at 2 equal its state, and the
    final world still holds them — e.g. the root's value 1000 at index 2 -/
example : ∃ wm wN, btRun REx.cfg0 (Prog.treeRunG REx.gtreeR []) 1000 [0, 1, 2, 3] REx.wPar = .ok wN ∧
    btRun REx.cfg0 (Prog.treeRunG REx.gtreeR []) 1000 [0, 1, 2] REx.wPar = .ok wm ∧
    BalancedWorld REx.cfg0 2 wm ∧ RowsEnd 2 wm.root ∧ RowsKept 2 wm.root wN.root ∧
    wm.root.value = 1000 ∧ (P08.rowsAt 2 wN.root)[1]? = some (some (1000)) := by
  obtain ⟨wN, h, hp⟩ := Ex.check_ok (x := btRun REx.cfg0 (Prog.treeRunG REx.gtreeR []) 1000 [0, 1, 2, 3] REx.wPar)
    (p := fun wN => (P08.rowsAt 2 wN.root)[1]? == some (some (1000))) (by decide +kernel)
  obtain ⟨_, hsplit, _⟩ := gtree_backtest_balanced REx.cfg0 REx.cfg0_dustFree _ REx.gtreeR_public 1000 0 [1, 2, 3] _ wN
    REx.wPar_strat REx.wPar_noClocks REx.wPar_quiet REx.wPar_marked ⟨by decide, by decide, by decide, trivial⟩
    REx.wPar_len REx.wPar_hedgeZero h
  obtain ⟨wp, wm, h1, h2, _, hb, _, hr⟩ := hsplit [1] 2 [3] rfl
  have hm : btRun REx.cfg0 (Prog.treeRunG REx.gtreeR []) 1000 [0, 1, 2] REx.wPar = .ok wm := by
    have := P09.btRun_prefix REx.cfg0 (Prog.treeRunG REx.gtreeR []) 1000 0 [1] [2] REx.wPar
    simp only [List.cons_append, List.nil_append] at this
    rw [this, h1, P08.bind_ok, btLoop, h2]; rfl
  obtain ⟨wm', hm', hq⟩ := Ex.check_ok (x := btRun REx.cfg0 (Prog.treeRunG REx.gtreeR []) 1000 [0, 1, 2] REx.wPar)
    (p := fun wm => !wm.bankrupt && wm.root.value == 1000) (by decide +kernel)
  rw [hm] at hm'
  cases hm'
  simp only [Bool.and_eq_true, Bool.not_eq_true', beq_iff_eq] at hq
  obtain ⟨r1, r2⟩ := hr (openAlive_of_alive _ _ _ _ _ h2 (Or.inl hq.1))
  exact ⟨wm, wN, h, hm, hb, r1, r2, hq.2, by simpa using hp⟩

/-! ### (4) the date of the bankruptcy -/

/-- **`btDay_bankruptcy_date`.**  On the date on which the strategy goes bankrupt (alive before, flagged after) —
    some `root.update(d)` of the pass took the bankruptcy step: flag set, whole tree liquidated, update redone on
    the liquidated tree *on the same date* — everything of `btDay_balanced` holds: the world is balanced at every
    strategy and security, nothing is pending, the invariant is re-established, the final update was `update(d)`
    of a tree `wF` that carried the flag already — and the rows of `d` equal the state at every node EXCEPT the
    root's value and notional (`RowsEndBelow`: the root stands on `d` with its cash recorded, every node below
    satisfies `RowsEnd`).  If the step was taken by the CLOSING update or by the algos (`OpenAlive`: not by the
    opening update) there is no exception at all.  The root's value / notional rows are excepted when the
    OPENING update takes the step, because the redone update is then no longer on a new date and skips the write
    when the liquidated totals did not move (by `TOL`) from the values stored on the previous date: C01's
    `updRoot_bankrupt_rows_counterexample` (`TOL = 1/2`: `value = −2/5`, `rValue[1] = 0`).  On every later date
    the rows statement holds again (`OpenAlive` from `w0.bankrupt = true`). -/
theorem btDay_bankruptcy_date (cfg : Cfg K) (hdf : DustFree cfg) (run : RunFn K) (hpub : P04.RunPublic cfg run)
    (t d : Nat) (w0 w2 : World K) (htd : t < d) (hinv : C01Inv t w0) (hlen : RowsLen d w0.root)
    (h : btDay cfg run d w0 = .ok w2) (hb0 : w0.bankrupt = false) (hb2 : w2.bankrupt = true) :
    BalancedWorld cfg d w2 ∧ C01Inv d w2 ∧ RowsLen d w2.root ∧ RowsEndBelow d w2.root ∧
    (OpenAlive cfg d w0 → RowsEnd d w2.root) ∧
    ∃ wF, P08.RootBk wF ∧ updNode cfg d wF.root = .ok w2.root :=
  let ⟨a, b, c, e, f⟩ := btDay_balanced cfg hdf run hpub t d w0 w2 htd hinv hlen h
  ⟨a, e, f d hlen, c, b, btDay_bankrupt_step h hb0 hb2⟩

/-- `DEx.wBroke` (cash −500 against 400 of holdings): bankrupt at the OPENING update of date 2 -/
example : ∃ w2, btDay DEx.cfg0 DEx.run 2 DEx.wBroke = .ok w2 ∧ DEx.wBroke.bankrupt = false ∧ w2.bankrupt = true ∧
    BalancedWorld DEx.cfg0 2 w2 ∧ C01Inv 2 w2 ∧ RowsEndBelow 2 w2.root := by
  obtain ⟨w2, h, hp⟩ := Ex.check_ok (x := btDay DEx.cfg0 DEx.run 2 DEx.wBroke) (p := fun w2 => w2.bankrupt)
    (by decide +kernel)
  obtain ⟨a, c, _, e, _⟩ := btDay_bankruptcy_date DEx.cfg0 DEx.cfg0_dustFree DEx.run DEx.run_public 1 2 _ w2
    (by decide) REx.wBroke_inv REx.wBroke_len h rfl hp
  exact ⟨w2, h, rfl, hp, a, c, e⟩

/-- the algo `REx.runRuin` withdraws 2000 during date 2: the CLOSING update takes the bankruptcy step, and the
    rows of date 2 equal the state at every node, the root included -/
example : ∃ w2, btDay DEx.cfg0 REx.runRuin 2 DEx.w0 = .ok w2 ∧ w2.bankrupt = true ∧ RowsEnd 2 w2.root := by
  obtain ⟨w2, h, hp⟩ := Ex.check_ok (x := btDay DEx.cfg0 REx.runRuin 2 DEx.w0) (p := fun w2 => w2.bankrupt)
    (by decide +kernel)
  obtain ⟨_, _, _, _, e, _⟩ := btDay_bankruptcy_date DEx.cfg0 DEx.cfg0_dustFree REx.runRuin REx.runRuin_public 1 2 _ w2
    (by decide) REx.w0_inv REx.w0_len h rfl hp
  exact ⟨w2, h, hp, e REx.w0_openAlive⟩

/-- what `RowsEndBelow` says at the root: it stands on `d` with its cash recorded, and every child subtree has
    the rows of `d` equal to its state -/
theorem rows_below_root (d : Nat) (n : Node K) (hr : RowsEndBelow d n) (sd : StratData K) (kids : List (Node K))
    (hn : n = .strat sd kids) :
    sd.now = some d ∧ sd.rCash[d]? = some sd.capital ∧ ∀ (i : Nat) (k : Node K), kids[i]? = some k → RowsEnd d k := by
  subst hn
  simp only [RowsEndBelow] at hr
  exact ⟨hr.1.1, hr.1.2, fun i k hk => TreeAllKids.getElem? hr.2 hk⟩

example : ∃ w2, btDay DEx.cfg0 DEx.run 2 DEx.wBroke = .ok w2 ∧
    (match w2.root with
     | .strat sd [.sec a, .strat sub _] =>
       sd.rCash[2]? == some sd.capital && a.rPosition[2]? == some a.position && a.position == 0 &&
       sub.rValue[2]? == some sub.value && sub.rCash[2]? == some sub.capital
     | _ => false) = true :=
  Ex.check_ok (by decide +kernel)

/-- the exception is real (C01): with `TOL = 1/2` the recorded value row of the bankruptcy date is stale -/
theorem bankruptcy_rows_exception :
    ∃ w w' sd' s', updRoot Ex.cfg 0 Ex.tinyWorld = .ok w ∧ updRoot Ex.cfg 1 w = .ok w' ∧
      w'.root = .strat sd' [.sec s'] ∧ sd'.bankrupt = true ∧ sd'.now = some 1 ∧ s'.position = 0 ∧
      sd'.capital = -3/5 ∧ sd'.value = -2/5 ∧ sd'.rValue[1]? = some 0 :=
  updRoot_bankrupt_rows_counterexample

example : (Ex.cfg : Cfg Rat).tol = 1/2 := by decide +kernel

end Bt.C01
