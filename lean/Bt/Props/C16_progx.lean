import Bt.Proofs.ProgramX
import Bt.Proofs.ProgramXEx
import Bt.Props.C16_flags
import Bt.Props.C16_terminal
import Bt.Props.C16_prog
/-! C16 (bankruptcy flags) for extended programs and for trees of arbitrary run functions — the flag theorems of
    `Bt.Props.C16_flags` / `Bt.Props.C16_terminal` with `run := treeRunG t []` (`Bt/Algos/ProgramX.lean`).

    GENERIC: the only hypothesis of those theorems, `P16.RunPublic cfg run`
    (`∀ d w w', run d w = .ok w' → P08.Run cfg w w'`), holds of `treeRunG t path` as soon as it holds of every node
    function of `t` at its path (`treeRunG_public16`); the theorems are stated under that hypothesis
    (`gtree_sub_flags`, `gtree_flag_iff`, …).  INSTANCE: every `progRunX cfg p path` is public (its only effects are
    those of its `Rebalance`), hence for trees every node of which is a `progRunX` **no hypothesis is left**
    (`progx_sub_flags`, `progx_flag_iff`, `progx_bankrupt_irrelevant`).  Helper lemmas: `Bt.Proofs.ProgramX`. -/
set_option linter.unusedSectionVars false
namespace Bt.C16
open Bt Bt.Prog Bt.PProg Bt.PProgX Bt.Select

variable {K : Type} [Field K] [LinearOrder K] [IsStrictOrderedRing K] [HasFloor K] [Select.HasNatFloor K]

/-! ### public node functions make a public tree -/

/-- **GENERIC: if every node function of a `GTree` only issues public calls** (C16's notion, at its path)
    **then so does `Strategy.run()` of the tree** -/
theorem treeRunG_public16 (cfg : Cfg K) (t : GTree K) (path : List Nat) (h : AllNodes (P16.RunPublic cfg) t path) :
    P16.RunPublic cfg (treeRunG t path) :=
  PProgX.treeRunG_public16 t path h

theorem kidsRunG_public16 (cfg : Cfg K) (ks : List (Option (GTree K))) (path : List Nat) (i : Nat)
    (h : AllNodesL (P16.RunPublic cfg) ks path i) : P16.RunPublic cfg (kidsRunG ks path i) :=
  PProgX.kidsRunG_public16 ks path i h

/-- the same for "a sequence of public calls on every world whose clocks lie in `C`, explicit `root.update`s at dates
    in `C`, for every `C`" (`RunCAll`), which gives both C04's and C16's notion of the tree -/
theorem treeRunG_runC (cfg : Cfg K) (t : GTree K) (path : List Nat) (h : AllNodes (RunCAll cfg) t path)
    (C : Nat → Prop) (d : Nat) (w w' : World K) (hw : P04.WOK C w) (hr : treeRunG t path d w = .ok w') :
    P04.RunC cfg C w w' :=
  treeRunG_runCAll t path h C d w w' hw hr

/-- one extended stack is public: on every world, for every clock predicate … -/
theorem progRunX_runC (cfg : Cfg K) (C : Nat → Prop) (p : ProgX K) (path : List Nat) (d : Nat) (w w' : World K)
    (hw : P04.WOK C w) (h : progRunX cfg p path d w = .ok w') : P04.RunC cfg C w w' :=
  PProgX.progRunX_runC hw h

/-- … in particular in the sense of C16 -/
theorem progRunX_public16 (cfg : Cfg K) (p : ProgX K) (path : List Nat) : P16.RunPublic cfg (progRunX cfg p path) :=
  (progRunX_runCAll p path).public16

/-- a tree every node of which is some `progRunX cfg p` (`EveryNode (IsProgX cfg) t`, e.g. `embedX cfg x`) -/
theorem progx_public16 (cfg : Cfg K) (t : GTree K) (h : EveryNode (IsProgX cfg) t) (path : List Nat) :
    P16.RunPublic cfg (treeRunG t path) :=
  (progx_runCAll t h path).public16

/-- the nested momentum program on row 2 (after `adjust(1000)`, `update(0)`, the day of row 1, `update(2)`): its
    stacks run, publicly -/
example : P16.RunPublic cfgE (treeRunG gtreePar []) ∧ P04.RunPublic cfgE (treeRunG gtreePar []) ∧
    ∃ w1 w', (btRun cfgE (treeRunG gtreePar []) 1000 [0, 1] wParE).bind (updRoot cfgE 2) = .ok w1 ∧
      treeRunG gtreePar [] 2 w1 = .ok w' ∧ P08.Run cfgE w1 w' ∧ w'.root.value = 1000 := by
  refine ⟨progx_public16 cfgE gtreePar (everyNode_embedX xtreePar) [],
    (progx_runCAll gtreePar (everyNode_embedX xtreePar) []).public04, ?_⟩
  have h1 : (((btRun cfgE (treeRunG gtreePar []) 1000 [0, 1] wParE).bind (updRoot cfgE 2)).bind fun w1 =>
      (treeRunG gtreePar [] 2 w1).map fun w' => (w1, w')).toOption.map (fun p => p.2.root.value) =
      some 1000 := by decide +kernel
  obtain ⟨⟨w1, w'⟩, hp, hv⟩ := P16.exists_of_toOption_map h1
  obtain ⟨w1', hw1, hp⟩ := P08.bind_eq_ok hp
  obtain ⟨w2, hw2, hp⟩ := P08.map_eq_ok hp
  cases hp
  exact ⟨w1, w', hw1, hw2, progx_public16 cfgE gtreePar (everyNode_embedX xtreePar) [] 2 w1 w' hw2, hv⟩

/-- a tree of node functions that are no programs: a root reading a getter over a child closing its position -/
example : P16.RunPublic cfgE (treeRunG (.node (fun path _ w => opRead cfgE w path .stratRefreshing)
    [some (.node (fun path _ w => opClose cfgE w path 0 true) [])]) []) := by
  refine treeRunG_public16 cfgE _ [] ?_
  rw [allNodes_node, allNodesL_some, allNodes_node, allNodesL_nil, allNodesL_nil]
  exact ⟨fun _ w w' h => .cons (.read _ _ h) (.nil _), ⟨fun _ w w' h => .cons (.close _ _ _ h) (.nil _), trivial⟩,
    trivial⟩

/-! ### (1) sub-strategy flags, `fixedIncome`, monotonicity -/

/-- GENERIC (public node functions): after a complete backtest every sub-strategy flag is what it was, every
    `fixedIncome` and the shape of the tree likewise; a fixed-income root is never flagged; a flagged root stays
    flagged. -/
theorem gtree_sub_flags (cfg : Cfg K) (t : GTree K) (hpub : AllNodes (P16.RunPublic cfg) t []) (capital : K)
    (dates : List Nat) (w w' : World K) (h : btRun cfg (treeRunG t []) capital dates w = .ok w') :
    w'.root.subFlags = w.root.subFlags ∧ w'.root.fis = w.root.fis ∧ w'.root.shape = w.root.shape ∧
    (w.rootFI = true → w'.bankrupt = w.bankrupt) ∧ (w.bankrupt = true → w'.bankrupt = true) :=
  btRun_sub_flags cfg (treeRunG t []) (treeRunG_public16 cfg t [] hpub) capital dates w w' h

/-- **trees of extended programs: no hypothesis left** -/
theorem progx_sub_flags (cfg : Cfg K) (t : GTree K) (ht : EveryNode (IsProgX cfg) t) (capital : K)
    (dates : List Nat) (w w' : World K) (h : btRun cfg (treeRunG t []) capital dates w = .ok w') :
    w'.root.subFlags = w.root.subFlags ∧ w'.root.fis = w.root.fis ∧ w'.root.shape = w.root.shape ∧
    (w.rootFI = true → w'.bankrupt = w.bankrupt) ∧ (w.bankrupt = true → w'.bankrupt = true) :=
  btRun_sub_flags cfg (treeRunG t []) (progx_public16 cfg t ht []) capital dates w w' h

/-- … and the same for the loop alone (from any intermediate state) -/
theorem progx_loop_sub_flags (cfg : Cfg K) (t : GTree K) (ht : EveryNode (IsProgX cfg) t) (ds : List Nat)
    (w w' : World K) (h : btLoop cfg (treeRunG t []) ds w = .ok w') :
    w'.root.subFlags = w.root.subFlags ∧ w'.root.fis = w.root.fis ∧ w'.root.shape = w.root.shape ∧
    (w.rootFI = true → w'.bankrupt = w.bankrupt) ∧ (w.bankrupt = true → w'.bankrupt = true) :=
  btLoop_sub_flags cfg (treeRunG t []) (progx_public16 cfg t ht []) ds w w' h

/-- the nested momentum program: the sub-strategy trades on rows 2 and 3 and is not flagged -/
example : ∃ w', btRun cfgE (treeRunG gtreePar []) 1000 [0, 1, 2, 3] wParE = .ok w' ∧ wParE.root.subFlags = [false] ∧
    w'.root.subFlags = [false] ∧ w'.root.fis = [false, false, false, false, false] ∧
    w'.root.shape = [some 2, some 2, none, none, none] ∧ w'.bankrupt = false := by
  have h1 : (btRun cfgE (treeRunG gtreePar []) 1000 [0, 1, 2, 3] wParE).toOption.map
      (fun w => (w.bankrupt, true)) = some (false, true) := by decide +kernel
  obtain ⟨w', hw', hb⟩ := P16.exists_of_toOption_map h1
  simp only [Prod.mk.injEq] at hb
  obtain ⟨g1, g2, g3, -, -⟩ := progx_sub_flags cfgE gtreePar (everyNode_embedX xtreePar) 1000 [0, 1, 2, 3] wParE w' hw'
  have e1 : wParE.root.subFlags = [false] := by decide +kernel
  have e2 : wParE.root.fis = [false, false, false, false, false] := by decide +kernel
  have e3 : wParE.root.shape = [some 2, some 2, none, none, none] := by decide +kernel
  exact ⟨w', hw', e1, g1.trans e1, g2.trans e2, g3.trans e3, hb.1⟩

/-! ### (2) flagged iff some executed `root.update` computed a triggering total -/

/-- GENERIC (public node functions): the root is flagged after a complete backtest iff it was flagged before or one
    of the `root.update` executions of the backtest (`P16.Trace`) computed a triggering total: negative, not
    `is_zero`, root not fixed-income. -/
theorem gtree_flag_iff (cfg : Cfg K) (t : GTree K) (hpub : AllNodes (P16.RunPublic cfg) t []) (capital : K)
    (dates : List Nat) (w w' : World K) (h : btRun cfg (treeRunG t []) capital dates w = .ok w') :
    ∃ us, P16.Trace cfg w us w' ∧
      (w'.bankrupt = true ↔ w.bankrupt = true ∨ ∃ u ∈ us, u.trigger cfg = true) :=
  btRun_flag_iff cfg (treeRunG t []) (treeRunG_public16 cfg t [] hpub) capital dates w w' h

/-- **trees of extended programs: no hypothesis left** -/
theorem progx_flag_iff (cfg : Cfg K) (t : GTree K) (ht : EveryNode (IsProgX cfg) t) (capital : K)
    (dates : List Nat) (w w' : World K) (h : btRun cfg (treeRunG t []) capital dates w = .ok w') :
    ∃ us, P16.Trace cfg w us w' ∧
      (w'.bankrupt = true ↔ w.bankrupt = true ∨ ∃ u ∈ us, u.trigger cfg = true) :=
  btRun_flag_iff cfg (treeRunG t []) (progx_public16 cfg t ht []) capital dates w w' h

/-- contrapositive: a program whose totals stay non-negative is never flagged -/
theorem progx_nonneg_never_flags (cfg : Cfg K) (t : GTree K) (ht : EveryNode (IsProgX cfg) t) (capital : K)
    (dates : List Nat) (w w' : World K) (h : btRun cfg (treeRunG t []) capital dates w = .ok w') :
    ∃ us, P16.Trace cfg w us w' ∧ ((∀ u ∈ us, 0 ≤ u.total) → w'.bankrupt = w.bankrupt) :=
  btRun_nonneg_never_flags cfg (treeRunG t []) (progx_public16 cfg t ht []) capital dates w w' h

theorem gtree_nonneg_never_flags (cfg : Cfg K) (t : GTree K) (hpub : AllNodes (P16.RunPublic cfg) t [])
    (capital : K) (dates : List Nat) (w w' : World K) (h : btRun cfg (treeRunG t []) capital dates w = .ok w') :
    ∃ us, P16.Trace cfg w us w' ∧ ((∀ u ∈ us, 0 ≤ u.total) → w'.bankrupt = w.bankrupt) :=
  btRun_nonneg_never_flags cfg (treeRunG t []) (treeRunG_public16 cfg t [] hpub) capital dates w w' h

/-- `gtreeLev` (`SelectThese [x]`, `WeighSpecified {x: 3}`): 300 % of the portfolio in `x` on row 1; on row 2 `x` is
    at 2: the first `update(2)` of the loop computes −1400 and flags the root; the theorem gives the trace -/
example : ∃ w1 w2, btRun cfgE (treeRunG gtreeLev []) 1000 [0, 1] wLevE = .ok w1 ∧ w1.bankrupt = false ∧
    P16.rootTotal cfgE 2 w1 = .ok (-1400) ∧ P16.trigger cfgE w1.rootFI (-1400 : Rat) = true ∧
    btRun cfgE (treeRunG gtreeLev []) 1000 [0, 1, 2] wLevE = .ok w2 ∧ w2.bankrupt = true ∧ w2.root.value = -1400 ∧
    ∃ us, P16.Trace cfgE wLevE us w2 ∧ ∃ u ∈ us, u.trigger cfgE = true := by
  have h1 : (btRun cfgE (treeRunG gtreeLev []) 1000 [0, 1] wLevE).toOption.map
      (fun w => (w.bankrupt, (P16.rootTotalE cfgE 2 3 w).toOption, P16.trigger cfgE w.rootFI (-1400 : Rat))) =
      some (false, some (-1400), true) := by decide +kernel
  have h2 : (btRun cfgE (treeRunG gtreeLev []) 1000 [0, 1, 2] wLevE).toOption.map
      (fun w => (w.bankrupt, w.root.value)) = some (true, -1400) := by decide +kernel
  obtain ⟨w1, hw1, hb1⟩ := P16.exists_of_toOption_map h1
  obtain ⟨w2, hw2, hb2⟩ := P16.exists_of_toOption_map h2
  simp only [Prod.mk.injEq] at hb1 hb2
  obtain ⟨us, htr, hiff⟩ := progx_flag_iff cfgE gtreeLev (everyNode_embedX _) 1000 [0, 1, 2] wLevE w2 hw2
  have htrig : ∃ u ∈ us, u.trigger cfgE = true := by
    rcases hiff.1 hb2.1 with h0 | h0
    · exact absurd h0 (by decide +kernel)
    · exact h0
  cases ht : P16.rootTotalE cfgE 2 3 w1 with
  | error e => rw [ht] at hb1; cases hb1.2.1
  | ok v =>
    rw [ht] at hb1
    have hv : v = -1400 := by simpa [Except.toOption] using hb1.2.1
    subst hv
    exact ⟨w1, w2, hw1, hb1.1, P16.rootTotalE_sound ht, hb1.2.2, hw2, hb2.1, hb2.2, us, htr, htrig⟩

/-! ### (3) once flagged, the run functions are irrelevant -/

/-- From a flagged root the rest of the loop of `Backtest.run` is the same for any two trees of run functions
    (no hypothesis on them at all), and is the loop with `root.update` only (`P16.updLoop`): no node function is
    called, no gate consulted, no selector evaluated. -/
theorem progx_loop_bankrupt_irrelevant (cfg : Cfg K) (t t' : GTree K) (ds : List Nat) (w : World K)
    (hb : w.bankrupt = true) :
    btLoop cfg (treeRunG t []) ds w = btLoop cfg (treeRunG t' []) ds w ∧
    btLoop cfg (treeRunG t []) ds w = P16.updLoop cfg ds w :=
  bankrupt_run_irrelevant cfg (treeRunG t []) (treeRunG t' []) ds w hb

/-- **Once flagged, the rest of the backtest does not depend on the run functions at all.**  If the backtest over the
    dates `d0 :: ds1` ends flagged in `wm`, the backtest over `d0 :: (ds1 ++ ds2)` is `root.update` over `ds2` from
    `wm` — which is also how the loop of any other tree `t'` (programs or not) continues from `wm`. -/
theorem progx_bankrupt_irrelevant (cfg : Cfg K) (t t' : GTree K) (capital : K) (d0 : Nat) (ds1 ds2 : List Nat)
    (w0 wm : World K) (h : btRun cfg (treeRunG t []) capital (d0 :: ds1) w0 = .ok wm) (hb : wm.bankrupt = true) :
    btRun cfg (treeRunG t []) capital (d0 :: (ds1 ++ ds2)) w0 = P16.updLoop cfg ds2 wm ∧
    btRun cfg (treeRunG t []) capital (d0 :: (ds1 ++ ds2)) w0 = btLoop cfg (treeRunG t' []) ds2 wm := by
  have e := btRun_bankrupt_rest (treeRunG t []) capital d0 ds1 ds2 w0 wm h hb
  exact ⟨e, by rw [e, P16.btLoop_bankrupt _ ds2 hb]⟩

/-- `gtreeLev` is flagged after rows `[0, 1, 2]`; row 3 (where its gate is open again) is one `root.update`, and
    `gtreeBad` — whose root function raises whenever it is called — continues in exactly the same way -/
example : ∃ wm w', btRun cfgE (treeRunG gtreeLev []) 1000 (0 :: [1, 2]) wLevE = .ok wm ∧ wm.bankrupt = true ∧
    btRun cfgE (treeRunG gtreeLev []) 1000 (0 :: ([1, 2] ++ [3])) wLevE = .ok w' ∧
    btLoop cfgE (treeRunG gtreeBad []) [3] wm = .ok w' ∧ P16.updLoop cfgE [3] wm = .ok w' ∧
    w'.root.value = -1400 ∧ treeRunG gtreeBad [] 3 wLevE = .error .badPath := by
  have h1 : (btRun cfgE (treeRunG gtreeLev []) 1000 [0, 1, 2] wLevE).toOption.map (·.bankrupt) = some true := by
    decide +kernel
  have h2 : (btRun cfgE (treeRunG gtreeLev []) 1000 [0, 1, 2, 3] wLevE).toOption.map (·.root.value) =
      some (-1400) := by decide +kernel
  obtain ⟨wm, hwm, hb⟩ := P16.exists_of_toOption_map h1
  obtain ⟨w', hw', hv⟩ := P16.exists_of_toOption_map h2
  obtain ⟨e1, e2⟩ := progx_bankrupt_irrelevant cfgE gtreeLev gtreeBad 1000 0 [1, 2] [3] wLevE wm hwm hb
  exact ⟨wm, w', hwm, hb, hw', e2.symm.trans hw', e1.symm.trans hw', hv, raisedE_sound (by decide +kernel)⟩

/-! ### the fixed-shape programs of `C16_prog` are an instance -/

/-- `C16.treeRun_public16` re-proved by the generic theorem: every node of `embed cfg tr` is a `progRun cfg p` -/
theorem treeRun_public16_via_generic (cfg : Cfg K) (tr : ProgTree K) (path : List Nat) :
    P16.RunPublic cfg (treeRun cfg tr path) := by
  rw [treeRun_eq_treeRunG_fn]
  exact treeRunG_public16 cfg _ path
    (EveryNode.allNodes (fun _ hf p => (isProg_runCAll hf p).public16) _ (everyNode_embed tr) path)

/-- `C16.prog_flag_iff` as a corollary of `gtree_flag_iff` -/
theorem prog_flag_iff_via_generic (cfg : Cfg K) (tr : ProgTree K) (capital : K) (dates : List Nat) (w w' : World K)
    (h : Prog.backtest cfg tr capital dates w = .ok w') :
    ∃ us, P16.Trace cfg w us w' ∧
      (w'.bankrupt = true ↔ w.bankrupt = true ∨ ∃ u ∈ us, u.trigger cfg = true) := by
  rw [backtest_eq_btRunG] at h
  exact gtree_flag_iff cfg (embed cfg tr)
    (EveryNode.allNodes (fun _ hf p => (isProg_runCAll hf p).public16) _ (everyNode_embed tr) []) capital dates w w' h

example : P16.RunPublic cfgE (treeRun cfgE treeParE []) := treeRun_public16_via_generic cfgE treeParE []

end Bt.C16
