import Bt.Proofs.Wiring
/-!
  C19 — tree wiring and universe scoping are consistent; lazy children are transparent.

  Property theorems only (helper lemmas and vocabulary: `Bt.Proofs.Wiring`; model: `Bt.Algos.Wiring`).
  A *script* is a construction (`Spec`: strings, the five security classes with or without `lazy_add`, strategies with
  children as list or dict, nested to any depth) followed by any list of operations (`Op`: children attached later with
  `parent=`, `use_integer_positions` / `set_commissions` anywhere in the tree, `setup`, `update`, first use of a child,
  `setup_from_parent`).  `runScript s ops = .ok t` means that nothing raised.  Statements quantify over all scripts /
  all trees; proofs are structural inductions, no bound on depth, width or length appears.

    `members t`            the code's `members` traversal: path, `full_name`, pointers, flags, charged commission
    `EveryStrategy P t`    every realised strategy of `t` satisfies `P data (names and kinds of its children)`
    `sigNames sg`, `sigStrats sg`   the children's names / the names of the children that are strategies
-/
namespace Bt.C19
open Bt.Wiring

/-! ### sibling names -/

/-- `siblings_unique`: whatever the script, in the tree it produces the names of the realised children of every
    strategy are pairwise distinct. -/
theorem siblings_unique (s : Spec) (ops : List Op) (t : Tree) (h : runScript s ops = .ok t) : SibUnique t :=
  (runScript_good s ops t h).sibUnique

/-- `siblings_unique`, the error: a constructed node (not `lazy_add`) is refused exactly when a realised child already
    has its name -/
theorem duplicate_node_refused (d : StratW) (ks : List Tree) (c : Tree) (hl : ∀ s, c = .sec s → s.lazy = false) :
    addNode d ks c = .error .childExists ↔ c.name ∈ names ks := by
  cases c with
  | sec s =>
    have := hl s rfl
    simp only [addNode, this, Bool.false_eq_true, if_false, Tree.name]
    split <;> simp [*]
  | strat cd cks cp =>
    simp only [addNode, Tree.name]
    split <;> simp [*]

/-- a string is refused exactly when a non-strategy child of that name was declared before -/
theorem duplicate_string_refused (d : StratW) (ks : List Tree) (n : String) :
    addStr d ks n = .error .childExists ↔ n ∈ d.tickers := by
  simp only [addStr]
  split <;> simp [*]

/-- a child attached later with `parent=` under a name that is taken raises -/
theorem late_duplicate_refused (name : String) (kids : List Spec) (d : StratW) (ks : List Tree) (p : Option Tree)
    (items : List Item) (hb : buildItems kids = .ok items) (hdup : name ∈ names ks) :
    attachNode name kids d ks p = .error .childExists := by
  simp [attachNode, hb, hdup]

def exTree : Spec :=
  .strat false "top" [.str "aa", .sec .coupon "bb" false,
    .strat false "s1" (dictKids [("cc", .sec .plain "tmpl" false), ("dd", .str ""), ("s2", .strat false "x" [.str "aa", .sec .hedge "ee" true])])]

example : ∃ t, runScript exTree [.attach ["s1"] "t1" [.str "aa"], .setup ["bb", "aa", "zz"], .update 0, .touch ["s1", "s2"] "aa"] = .ok t :=
  (errOf_none _).mp (by decide +kernel)
example : errOf (runScript (.strat false "p" [.sec .plain "aa" false, .sec .fi "aa" false]) []) = some (0, .childExists) := by decide +kernel
example : errOf (runScript (.strat false "p" [.str "aa", .str "aa"]) []) = some (0, .childExists) := by decide +kernel
example : errOf (runScript (.strat false "p" [.strat false "q" []]) [.attach [] "q" [.str "aa"]]) = some (1, .childExists) := by decide +kernel
example : ∀ s, Tree.sec (mkSec .plain "aa" false) = .sec s → s.lazy = false := by
  intro s h; cases h; rfl
/-- witness of an asymmetry of the code: a name first given as a string (or `lazy_add`) and then as a constructed node
    is accepted ("providing an implementation"); the realised names stay distinct, the lazy entry is shadowed -/
example : (match runScript (.strat false "p" [.str "aa", .sec .plain "aa" false]) [] with
    | .ok (.strat d ks _) => (names ks, d.pool.map (·.name))
    | _ => ([], [])) = (["aa"], ["aa"]) := by decide +kernel

/-! ### parent, root, members, full name -/

/-- `parent_root_members`: whatever the script, for every node the code lists in `members`: `full_name` (computed
    through the parent pointers) is the `>`-joined structural path, the parent pointer designates the structural
    parent (the node itself at the top), the root pointer designates the top; and `members` lists the realised
    nodes in structural pre-order, each exactly once. -/
theorem parent_root_members (s : Spec) (ops : List Op) (t : Tree) (h : runScript s ops = .ok t) :
    (∀ i ∈ members t, i.fullName = joinPath i.path ∧
        i.parentPath = (if i.path.length = 1 then i.path else i.path.dropLast) ∧ i.rootPath = some [t.name]) ∧
      (members t).map (·.path) = preorder [] t ∧ (preorder [] t).Nodup := by
  have hg := runScript_good s ops t h
  refine ⟨?_, members_paths t, preorder_nodup t 0 [] hg⟩
  intro i hi
  have hok := members_ok t hg i hi
  obtain ⟨rest, hp⟩ := members_head t i hi
  obtain ⟨h1, h2⟩ := hok.pointers t.name rest hp
  refine ⟨hok.1, ?_, h2⟩
  rw [h1, hp]
  cases rest <;> simp

example : (match runScript exTree [.attach ["s1"] "t1" [.str "aa"], .setup ["bb", "aa"], .touch ["s1", "s2"] "aa"] with
    | .ok t => (members t).map (·.fullName)
    | .error _ => []) = ["top", "top>bb", "top>s1", "top>s1>cc", "top>s1>s2", "top>s1>s2>aa", "top>s1>t1"] := by decide +kernel
example : joinPath ["top", "s1", "s2", "aa"] = "top>s1>s2>aa" := by decide +kernel

/-! ### settings pushed from the top -/

/-- `settings_reach_all` (integer positions): after `use_integer_positions(b)` on any node — before or after setup —
    every node of its `members` has the flag `b`, and so has every node of every shadow copy (`_paper`) below it, at
    any nesting (`flags` lists the flags of all of them). -/
theorem settings_reach_all_integer (t : Tree) (b : Bool) :
    (∀ i ∈ members (useInt b t), i.integer = b) ∧ ∀ x ∈ flags (useInt b t), x = b :=
  ⟨infos_int b (useInt b t) 0 [] "" none (IntAll_useInt b 0 t), flags_useInt b t⟩

/-- `settings_reach_all` (commissions): after `set_commissions(c)` on a strategy every strategy below it has `c`, every
    security below it is charged by a parent that has `c` (securities have no commission function of their own: the
    code pushes the function to strategies only), and every strategy of every shadow copy below it has `c` as well. -/
theorem settings_reach_all_commission (d : StratW) (ks : List Tree) (p : Option Tree) (c : Nat) :
    (∀ i ∈ members (setComm c (.strat d ks p)), i.comm = some c) ∧
      ∀ x ∈ stratComms (setComm c (.strat d ks p)), x = some c := by
  refine ⟨?_, stratComms_setComm c _⟩
  intro i hi
  simp only [members, setComm, infos, List.mem_cons] at hi
  rcases hi with hi | hi
  · subst hi; rfl
  · exact infosL_setComm c ks _ _ i hi

/-- `settings_reach_all` (later descendants): in any script that pushes `use_integer_positions` from the top only, the
    flag is the same on every node of the final tree — children attached later, children created on first use, children
    of children, and all shadow copies (made at setup from flagged nodes, reached by later pushes) included. -/
theorem settings_reach_later_descendants (s : Spec) (ops : List Op) (t : Tree) (h : runScript s ops = .ok t)
    (htop : ∀ op ∈ ops, op.intAtTopOnly = true) : ∃ b, (∀ i ∈ members t, i.integer = b) ∧ ∀ x ∈ flags t, x = b := by
  unfold runScript at h
  cases hb : build s with
  | error e => simp [hb] at h
  | ok t0 =>
    simp only [hb] at h
    obtain ⟨b, hb'⟩ := runOps_intP ops t0 t 1 htop true (build_intP s t0 hb) h
    exact ⟨b, fun i hi => hb' _ (infos_flags t [] "" none i hi), hb'⟩

def exOps : List Op :=
  backtestOps false (some 2) ++ [.setup ["bb", "aa"], .update 0, .touch ["s1", "s2"] "aa", .attach ["s1"] "t1" [.sec .plain "zz" false],
    .setupFromParent ["s1"] "t1"]

example : ∀ op ∈ exOps, op.intAtTopOnly = true := by decide +kernel
example : (match runScript exTree exOps with
    | .ok t => (members t).map (fun i => (i.fullName, i.integer, i.comm))
    | .error _ => []) =
    [("top", false, some 2), ("top>bb", false, some 2), ("top>s1", false, some 2), ("top>s1>cc", false, some 2),
     ("top>s1>s2", false, some 2), ("top>s1>s2>aa", false, some 2), ("top>s1>t1", false, none), ("top>s1>t1>zz", false, none)] := by
  decide +kernel
/-- every flag of that tree (8 members + 7 nodes in the shadow copies of s1, s2 and t1) -/
example : (match runScript exTree exOps with | .ok t => (flags t).all (· == false) && decide ((flags t).length = 15) | .error _ => false) = true := by
  decide +kernel
/-- witness (known finding, a design decision of the library): a strategy attached after `set_commissions` keeps its
    own default function (`none`) although it inherits the integer flag — last two rows of the table above. -/
example : (match runScript (.strat false "top" [.str "aa"]) [.setComm [] 1, .attach [] "t1" [.str "aa"]] with
    | .ok t => (members t).map (fun i => (i.fullName, i.comm))
    | .error _ => []) = [("top", some 1), ("top>t1", none)] := by decide +kernel
/-- settings pushed AFTER setup reach the shadow copy of a sub-strategy (repaired in the code: 75f3a49, 11b9598) -/
example : (match runScript (.strat false "top" [.strat false "s1" [.str "aa"]]) [.setup ["aa"], .useInt [] false, .setComm [] 3] with
    | .ok (.strat _ [.strat d _ (some (.strat pd _ _))] _) => (d.integer, pd.integer, d.comm, pd.comm)
    | _ => (true, true, none, none)) = (false, false, some 3, some 3) := by decide +kernel

/-! ### universe columns -/

/-- the columns the property text asks for, given what the strategy knows of its children: declared tickers in the
    data, in the data's order (all data columns when constructed without children), then one column per sub-strategy
    in child order (a sub-strategy named like one of those columns overwrites it instead) -/
def univSpec (cols : List String) (d : StratW) (sg : List (String × Bool)) : List String :=
  addCols (if d.origPresent then cols.filter (fun c => c ∈ d.tickers) else cols) (sigStrats sg)

/-- `universe_cols`: whatever the script that built the tree, `setup(data)` gives every realised strategy exactly the
    columns of `univSpec` — in particular every sub-strategy, also one attached with `parent=` to a parent constructed
    without children, has its column right after setup. -/
theorem universe_cols (s : Spec) (ops : List Op) (t t' : Tree) (cols : List String) (h : runScript s ops = .ok t)
    (hs : setupTop cols t = .ok t') :
    EveryStrategy (fun d sg => d.univ = some (univSpec cols d sg) ∧ d.dataCols = some cols ∧
      ∀ c ∈ sigStrats sg, c ∈ univSpec cols d sg) t' := by
  have hg := runScript_good s ops t h
  simp only [setupTop] at hs
  split at hs
  · simp only [Except.ok.injEq] at hs
    subst hs
    have h1 := Good_setupNode cols 0 t hg
    have h2 := setupNode_univ cols 0 t
    refine All_mono (fun _ _ _ => trivial) ?_ 0 _ (All_and 0 _ h1 h2)
    intro n d sg hh
    obtain ⟨⟨_, _, _, hk⟩, hu, hd⟩ := hh
    refine ⟨?_, hd, ?_⟩
    · rw [hu, univSpec, universeCols, hk]
    · intro c hc
      unfold univSpec
      exact (mem_addCols c _ _).mpr (Or.inr hc)
  · cases hs

/-- `universe_cols`, well-formed case in closed form: distinct data columns, sub-strategy names that are not data
    columns: ticker part ++ sub-strategies, without repetition. -/
theorem universe_cols_explicit (cols : List String) (d : StratW) (sg : List (String × Bool)) (hc : cols.Nodup)
    (hn : (sigNames sg).Nodup) (hdis : ∀ c ∈ sigStrats sg, c ∉ cols) :
    univSpec cols d sg = (if d.origPresent then cols.filter (fun c => c ∈ d.tickers) else cols) ++ sigStrats sg ∧
      (univSpec cols d sg).Nodup := by
  have hs : (sigStrats sg).Nodup := by
    unfold sigStrats sigNames at *
    induction sg with
    | nil => simp
    | cons a rest ih =>
      simp only [List.map_cons, List.nodup_cons] at hn
      simp only [List.filter_cons]
      split
      · simp only [List.map_cons, List.nodup_cons]
        refine ⟨?_, ih hn.2 (fun c hc => hdis c (by simp [List.filter_cons, *]))⟩
        intro hm
        obtain ⟨x, hx, he⟩ := List.mem_map.mp hm
        exact hn.1 (List.mem_map.mpr ⟨x, (List.mem_filter.mp hx).1, he⟩)
      · exact ih hn.2 (fun c hc => hdis c (by simp [List.filter_cons, *]))
  unfold univSpec
  refine ⟨addCols_eq_append (sigStrats sg) _ hs ?_, addCols_nodup _ _ ?_⟩
  · intro c hc hm
    apply hdis c hc
    split at hm
    · exact (List.mem_filter.mp hm).1
    · exact hm
  · split
    · exact hc.filter _
    · exact hc

/-- `universe_cols`, after an update: the update writes every sub-strategy's price into its column; a sub-strategy
    attached after setup whose `setup_from_parent` was not called gets its column here at the latest; nothing else
    changes and no column is repeated. -/
theorem substrategy_column_after_update (i : Nat) (d : StratW) (ks : List Tree) (p : Option Tree) (u : List String)
    (hu : d.univ = some u) :
    ∃ d' ks' p' u', updateNode i (.strat d ks p) = .strat d' ks' p' ∧ d'.univ = some u' ∧
      (∀ c ∈ d.stratKids, c ∈ u') ∧ (∀ c ∈ u, c ∈ u') ∧ (u.Nodup → u'.Nodup) ∧
      ((∀ c ∈ d.stratKids, c ∈ u) → u' = u) := by
  obtain ⟨u', h1, h2, h3, h4⟩ := stratCols_covers d u hu
  refine ⟨_, _, _, u', rfl, h1, h2, h3, h4, ?_⟩
  intro hall
  have : stratCols d = some (addCols u d.stratKids) := by simp [stratCols, hu]
  rw [this] at h1
  rw [← Option.some.inj h1]
  exact addCols_present _ _ hall

example : (match runScript exTree [.setup ["zz", "bb", "dd", "cc", "aa"]] with
    | .ok (.strat d [_, .strat d1 [_, .strat d2 _ _] _] _) => (d.univ, d1.univ, d2.univ)
    | _ => (none, none, none)) =
    (some ["bb", "aa", "s1"], some ["dd", "cc", "s2"], some ["aa"]) := by decide +kernel
example : univSpec ["zz", "bb", "aa"] { mkStrat false "p" true with tickers := ["aa", "bb", "qq"] } [("aa", false), ("s1", true)]
    = ["bb", "aa", "s1"] := by decide +kernel
example : ["zz", "bb", "aa"].Nodup ∧ (sigNames [("aa", false), ("s1", true)]).Nodup ∧ ∀ c ∈ sigStrats [("aa", false), ("s1", true)], c ∉ ["zz", "bb", "aa"] := by
  decide +kernel
/-- nothing declared: all data columns -/
example : (match runScript (.strat false "p" []) [.setup ["zz", "bb"]] with
    | .ok (.strat d _ _) => d.univ | _ => none) = some ["zz", "bb"] := by decide +kernel
/-- a parent constructed without children and a sub-strategy attached with `parent=`: all data columns and the
    sub-strategy's column right after setup (repaired in the code: eeb6870; before, the column only appeared with the
    first update); the update changes nothing -/
example : (match runScript (.strat false "p" []) [.attach [] "t1" [.str "aa"], .setup ["aa", "bb"]] with
    | .ok (.strat d _ _) => d.univ | _ => none) = some ["aa", "bb", "t1"] := by decide +kernel
example : (match runScript (.strat false "p" []) [.attach [] "t1" [.str "aa"], .setup ["aa", "bb"], .update 0] with
    | .ok (.strat d _ _) => d.univ | _ => none) = some ["aa", "bb", "t1"] := by decide +kernel

/-! ### children attached after setup -/

/-- `dynamic_child_setup`: a strategy attached with `parent=` to a parent that is already set up inherits the parent's
    integer flag (all of its subtree does), is refused under a taken name, and `setup_from_parent` sets it up with the
    parent's ORIGINAL data (not the parent's filtered universe), gives it a shadow copy, and adds exactly one column,
    its name, to the parent's universe (none if the name already has one). -/
theorem dynamic_child_setup (nm : String) (kids : List Spec) (d : StratW) (ks : List Tree) (p : Option Tree)
    (cols u : List String) (t1 : Tree) (hd : d.dataCols = some cols) (hu : d.univ = some u)
    (h : attachNode nm kids d ks p = .ok t1) :
    nm ∉ names ks ∧
    ∃ d1 c, t1 = .strat d1 (ks ++ [c]) p ∧ c.name = nm ∧ IntAll d.integer 0 c ∧ d1.stratKids = d.stratKids ++ [nm] ∧
      (fiOk d.fi c = true →
        ∃ c', setupFromParentNode nm d1 (ks ++ [c]) p
            = .ok (.strat { d1 with univ := some (if nm ∈ u then u else u ++ [nm]) } (ks ++ [c']) p) ∧
          c' = setupNode cols c ∧ UnivSet cols 0 c' ∧ c'.paper ≠ none) := by
  obtain ⟨hnm, cd, cks, rfl, h1, h2, h3, h4, h5, h6, h7, h8⟩ := attachNode_shape nm kids d ks p t1 h
  refine ⟨hnm, _, _, rfl, by simp [Tree.name, h1], ⟨h2, h3⟩, rfl, ?_⟩
  intro hfi
  refine ⟨setupNode cols (.strat cd cks none), ?_, rfl, setupNode_univ cols 0 _, by simp [setupNode, Tree.paper, h4]⟩
  have hf := findNamed_snoc nm (.strat cd cks none) (by simp [Tree.name, h1]) ks hnm
  have hsn := setupNamed_snoc cols nm (.strat cd cks none) (by simp [Tree.name, h1]) ks hnm
  simp only [setupFromParentNode, hd, hu, hf, hfi, if_true, hsn, addCols]

example : (match runScript exTree [.setup ["bb", "aa", "cc"], .update 0, .attach ["s1"] "t1" [.str "bb", .strat false "t2" []],
      .setupFromParent ["s1"] "t1"] with
    | .ok (.strat _ [_, .strat d1 [_, _, .strat c _ (some _)] _] _) => (d1.univ, c.univ, c.dataCols, c.integer)
    | _ => (none, none, none, false)) =
    (some ["cc", "s2", "t1"], some ["bb", "t2"], some ["bb", "aa", "cc"], true) := by decide +kernel

/-! ### lazy = eager -/

/-- `lazy_eq_eager`: take any strategy `d` (at any depth, with any other children `A ++ B`, any shadow copy) whose
    lazy pool holds the never-updated security `s` under a declared name that no other child carries, and the same
    strategy with `s` constructed up front between `A` and `B`.  Set both up with the same data, update both any
    number of times, then use the child for the first time.  Both calls succeed; afterwards the two strategies have
    the SAME own data (pool, ticker list, universe, date, flags, ...), the same other children, and the SAME child
    `x` — name, class, `lazy_add` off, integer flag of the parent, parent pointer, root pointer, `_prices_set`, `now`,
    `_needupdate` — which sits last in the lazy tree and between `A'` and `B'` in the eager one.  Only the position of
    the child among its siblings (and the shadow copies made at setup time) can differ. -/
theorem lazy_eq_eager (s : SecW) (cols : List String) (is : List Nat) (d : StratW) (A B : List Tree) (pL pE : Option Tree)
    (hfind : poolFind s.name d.pool = some s) (hfresh : s.now = none ∧ s.needupdate = true)
    (hdecl : s.name ∈ d.tickers) (hstrat : s.name ∉ d.stratKids) (hA : s.name ∉ names A) (hB : s.name ∉ names B)
    (hnow : d.now = none) :
    ∃ d' A' B' x pL' pE',
      modifyAt (touchNode s.name) [] (updates is (setupNode cols (.strat d (A ++ B) pL)))
        = .ok (.strat d' (A' ++ B' ++ [.sec x]) pL') ∧
      modifyAt (touchNode s.name) []
          (updates is (setupNode cols (.strat { d with pool := poolErase s.name d.pool }
            (A ++ adopt d (.sec { s with lazy := false }) :: B) pE)))
        = .ok (.strat d' (A' ++ .sec x :: B') pE') ∧
      x.name = s.name ∧ x.kind = s.kind ∧ x.lazy = false ∧ x.integer = d.integer ∧ x.isTop = false ∧
      x.rootUp = d.rootUp + 1 ∧ x.pricesSet = some (decide (s.name ∈ cols)) ∧ x.now = d'.now := by
  obtain ⟨xs, pL0, pE0, e1, e2, h0⟩ := LE_setup s cols d A B pL pE hfind hfresh hdecl hstrat hA hB hnow
  obtain ⟨dl, A', B', xs', pL', pE', g1, g2, h1, g4, g5⟩ := LE_updates s cols is _ _ _ xs pL0 pE0 h0
  obtain ⟨d', x, t1, t2, f1, f2, f3, f4, f5, f6, f7, f8⟩ := LE_touch s cols dl A' B' xs' pL' pE' h1
  refine ⟨d', A', B', x, pL', pE', ?_, ?_, f1, f2, f3, ?_, f5, ?_, f7, ?_⟩
  · have : setupNode cols (.strat d (A ++ B) pL) = lazyT (setupD cols d) (setupL cols A) (setupL cols B) pL0 := e1
    rw [this, g1]
    simpa [lazyT, modifyAt] using t1
  · rw [e2, g2]
    simpa [eagerT, modifyAt] using t2
  · rw [f4, g4]; rfl
  · rw [f6, g5]; rfl
  · rw [f8]
    simp only [touchNode] at t1
    obtain ⟨u, hu, _⟩ := h1.univ
    have hn : s.name ∉ names (A' ++ B') := by
      rw [names_append, List.mem_append, not_or]; exact ⟨h1.nA, h1.nB⟩
    simp only [hu, hn, if_false, Except.ok.injEq, Tree.strat.injEq] at t1
    rw [← t1.1]

def exLazy : StratW :=
  { mkStrat false "p" true with
    tickers := ["aa", "bb"], pool := [mkSec .plain "aa" true, mkSec .coupon "bb" true], integer := false, isTop := false, rootUp := 2 }

example : poolFind (mkSec .coupon "bb" true).name exLazy.pool = some (mkSec .coupon "bb" true) ∧
    ((mkSec .coupon "bb" true).now = none ∧ (mkSec .coupon "bb" true).needupdate = true) ∧
    (mkSec .coupon "bb" true).name ∈ exLazy.tickers ∧ (mkSec .coupon "bb" true).name ∉ exLazy.stratKids ∧
    (mkSec .coupon "bb" true).name ∉ names [.sec (mkSec .plain "cc" false)] ∧ (mkSec .coupon "bb" true).name ∉ names [] ∧
    exLazy.now = none := by decide +kernel
/-- the lazily created child after setup, two updates and first use: -/
example : (match modifyAt (touchNode "bb") [] (updates [0, 1] (setupNode ["bb", "cc"] (.strat exLazy [.sec (mkSec .plain "cc" false)] none))) with
    | .ok (.strat _ [_, .sec x] _) => some x
    | _ => none) =
    some { name := "bb", kind := .coupon, lazy := false, integer := false, isTop := false, rootUp := 3, pricesSet := some true,
           now := some 1, needupdate := false } := by decide +kernel
/-- whole scripts: string vs constructed security, same operations: equal member lists up to the order of siblings -/
example : (match runScript (.strat false "p" [.str "aa", .sec .plain "cc" false]) [.useInt [] false, .setup ["cc", "aa"], .update 0, .update 1, .touch [] "aa"],
                 runScript (.strat false "p" [.sec .plain "aa" false, .sec .plain "cc" false]) [.useInt [] false, .setup ["cc", "aa"], .update 0, .update 1, .touch [] "aa"] with
    | .ok (.strat dl [.sec c, .sec x] _), .ok (.strat de [.sec x', .sec c'] _) => decide (x = x' ∧ c = c' ∧ dl = de)
    | _, _ => false) = true := by decide +kernel

end Bt.C19
