import Bt.Proofs.Rebalance
import Bt.Proofs.RebalanceInt
import Bt.Proofs.RebalancePath
import Bt.Proofs.RebalanceEx
import Mathlib.Tactic.NormNum
/-! C06 — Rebalance brings every child to its target weight (property theorems only; helper lemmas live in
    `Bt.Proofs.Rebalance`). -/
set_option linter.unusedSectionVars false
namespace Bt.C06
open Bt Bt.Rebal Bt.RebalEx Bt.Alloc

variable {K : Type} [Field K] [LinearOrder K] [IsStrictOrderedRing K] [HasFloor K]

/-! ### (1) `rebalance` is one `allocate` of `(weight − current weight) × base` -/

/-- `strategy.rebalance(weight, child, base, update)` on a world that is not stale, for an existing child
    and a given base: a negligible weight is `close(child)`; otherwise a market-value strategy allocates
    `(weight − child.weight) · base` to the child, a fixed-income strategy moves
    `weight · base − child.weight · notional` by `transact` (fixed-income child) or `allocate`. -/
theorem rebalance_child_amount (cfg : Cfg K) (w : World K) (path : List Nat) (weight : K) (child : Nat)
    (b : K) (update : Bool) (sd : StratData K) (ks : List (Node K)) (c : Node K)
    (hst : w.stale = false)
    (hp : w.root.get? path = some (.strat sd ks)) (hc : w.root.get? (path ++ [child]) = some c) :
    (isZero cfg.tol weight = true →
      opRebalance cfg w path weight child (some b) update = opClose cfg w path child update) ∧
    (isZero cfg.tol weight = false → sd.fixedIncome = false →
      opRebalance cfg w path weight child (some b) update =
        opAllocate cfg w (path ++ [child]) ((weight - c.weight) * b) update) ∧
    (isZero cfg.tol weight = false → sd.fixedIncome = true → c.fixedIncome = true →
      opRebalance cfg w path weight child (some b) update =
        opTransact cfg w (path ++ [child]) (weight * b - c.weight * sd.notl) update none) ∧
    (isZero cfg.tol weight = false → sd.fixedIncome = true → c.fixedIncome = false →
      opRebalance cfg w path weight child (some b) update =
        opAllocate cfg w (path ++ [child]) (weight * b - c.weight * sd.notl) update) := by
  refine ⟨fun hz => opRebalance_zero cfg w path weight child _ update hz, ?_, ?_, ?_⟩
  · intro hz hfi
    rw [opRebalance_unfold cfg w path weight child b update sd ks c hst hz hp hc]
    simp [hfi]
  · intro hz hfi hcf
    rw [opRebalance_unfold cfg w path weight child b update sd ks c hst hz hp hc]
    simp [hfi, hcf]
  · intro hz hfi hcf
    rw [opRebalance_unfold cfg w path weight child b update sd ks c hst hz hp hc]
    simp [hfi, hcf]

example : (flatW strat secs).stale = false ∧
    (flatW strat secs).root.get? [] = some (.strat strat (secs.map Node.sec)) ∧
    (flatW strat secs).root.get? ([] ++ [0]) = some (.sec (mkS "a" 1 (some 10) 30 (3/10) true)) ∧
    isZero cfgQ.tol (2/5 : Rat) = false ∧ strat.fixedIncome = false :=
  ⟨rfl, rfl, rfl, by decide +kernel, rfl⟩


/-! ### (2) a fractional security without costs is sized exactly -/

/-- What the refresh at the head of `allocate` needs to be the identity: a plain security that stands on
    its parent's date and whose position did not move since its last update (`NiceSec` also records
    fractional units, a present non-negligible price, zero spread, `value = position·price·mult`). -/
theorem sec_refresh_uptodate (cfg : Cfg K) (d : Nat) (s : SecData K) (h : NiceSec cfg d s) :
    secRefresh cfg (some d) s = .ok s := secRefresh_nice cfg d s h

example : NiceSec cfgQ 1 (mkS "a" 1 (some 10) 30 (3/10) true) :=
  ⟨rfl, rfl, rfl, rfl, rfl, by decide +kernel, by decide +kernel, rfl, rfl, by decide⟩

/-- Fractional positions, no commission, zero spread, a present non-negligible price: `allocate(a)` (with
    `a`, the close-out test `a + value` and the quantity `a/(price·mult)` all above `TOL`) trades exactly
    `q = a / (price·mult)` — the sizing loop exits at its head because the full outlay of `q` is `a` — so
    the position's worth moves by exactly `a`, which is also the cash taken from the parent; no fee. -/
theorem sec_allocate_fractional_nocost_exact (cfg : Cfg K) (pn : Option Nat) (comm : K → K → K)
    (s s1 : SecData K) (a p : K) (hr : secRefresh cfg pn s = .ok s1)
    (hatol : 0 ≤ cfg.atol) (htol : 0 < cfg.tol)
    (hint : s1.integer = false) (hp : s1.price = some p) (hpz : isZero cfg.tol p = false)
    (hb : s1.bidoffer = some 0) (hcomm : ∀ q x, comm q x = 0) (hm : p * s1.mult ≠ 0)
    (hz : isZero cfg.tol a = false) (hc : isZero cfg.tol (a + s1.value) = false)
    (hq : isZero cfg.tol (a / (p * s1.mult)) = false) :
    ∃ s' adj, secAllocate cfg pn comm s a = .ok (s', some adj) ∧
      s'.position = s1.position + a / (p * s1.mult) ∧
      s'.position * p * s'.mult = s1.position * p * s1.mult + a ∧
      s'.price = s1.price ∧ s'.mult = s1.mult ∧
      adj.amount = -a ∧ adj.fee = 0 ∧ adj.flow = false := by
  rw [secAllocate_nocost cfg pn comm s s1 a p hr hatol htol hint hp hpz hb hcomm hm]
  have hn : niceQ cfg s1 p a = some (a / (p * s1.mult)) := by
    unfold niceQ; simp only [hz, hc, hq, Bool.false_eq_true, ↓reduceIte]
  rw [hn]
  refine ⟨_, _, rfl, rfl, ?_, rfl, rfl, ?_, rfl, rfl⟩
  · show (s1.position + a / (p * s1.mult)) * p * s1.mult = _
    rw [add_mul, add_mul, mul_assoc (a / (p * s1.mult)), div_mul_cancel₀ _ hm]
  · rw [tradeAdj_amount, mul_assoc, div_mul_cancel₀ _ hm]

example : secRefresh cfgQ (some 1) (mkS "a" 1 (some 10) 30 (3/10) true) = .ok (mkS "a" 1 (some 10) 30 (3/10) true) ∧
    isZero cfgQ.tol (10 : Rat) = false ∧ (10 : Rat) * (mkS "a" 1 (some 10) 30 (3/10) true).mult ≠ 0 ∧
    isZero cfgQ.tol (100 : Rat) = false ∧
    isZero cfgQ.tol ((100 : Rat) + (mkS "a" 1 (some 10) 30 (3/10) true).value) = false ∧
    isZero cfgQ.tol ((100 : Rat) / (10 * (mkS "a" 1 (some 10) 30 (3/10) true).mult)) = false ∧
    tradeView (secAllocate cfgQ (some 1) commZero (mkS "a" 1 (some 10) 30 (3/10) true) 100)
      = .ok (40, some (-100, 0)) :=
  ⟨secRefresh_nice _ _ _ ⟨rfl, rfl, rfl, rfl, rfl, by decide +kernel, by decide +kernel, rfl, rfl, by decide⟩,
    by decide +kernel⟩

/-! ### (3) one `rebalance` brings a security child to `weight × base` -/

/-- A market-value strategy whose children are all securities (fractional units, no costs, up to date),
    `rebalance(wt, child i, base = V, update=False)` followed by `root.update(now)`, where the child's cached
    weight is its value share of `V` (`weight·V = value`, true for `V` = the strategy's value on a balanced
    tree) and the trade is not swallowed by `TOL` (`TargetExact`): afterwards the child's value is exactly
    `wt · V = position·price·mult`, the other children keep position and worth, the cash paid is the change
    of the child's value, `cash + Σ worth` is unchanged, so the strategy's new value `V'` is the old total, and
    the child's weight is `wt · V / V'` (`= wt` when `V` was the total).

    Partial: this version, which adds `V' = V`, the cash paid and the untouched siblings, is stated for the root
    strategy with security children only (one level); the value/weight claim alone holds at any depth with any
    siblings, see `rebalance_security_reaches_target`. -/
theorem rebalance_security_reaches_target_partial (cfg : Cfg K) (d : Nat) (sd : StratData K)
    (ss : List (SecData K)) (i : Nat) (s : SecData K) (wt V : K) (w1 w2 : World K)
    (hatol : 0 ≤ cfg.atol) (htol : 0 < cfg.tol)
    (hnow : sd.now = some d) (hfi : sd.fixedIncome = false) (hcomm : ∀ q x, sd.comm q x = 0)
    (hnice : ∀ x ∈ ss, NiceSec cfg d x) (hs : ss[i]? = some s)
    (hpos : 0 ≤ sd.capital + worthSum ss) (hbal : sd.value = sd.capital + worthSum ss)
    (hw : s.weight * V = s.value) (hx : TargetExact cfg V s wt)
    (h1 : opRebalance cfg (flatW sd ss) [] wt i (some V) false = .ok w1)
    (h2 : updRoot cfg d w1 = .ok w2) :
    ∃ (sdF : StratData K) (ssF : List (SecData K)) (t : SecData K),
      w2 = flatW sdF ssF ∧ ssF.length = ss.length ∧ ssF[i]? = some t ∧
      t.value = wt * V ∧ t.value = t.position * px t * t.mult ∧ px t = px s ∧ t.mult = s.mult ∧
      sdF.capital = sd.capital - (wt * V - s.value) ∧
      sdF.value = sd.value ∧ sdF.capital + worthSum ssF = sd.value ∧
      (t.needupdate = true → isZero cfg.tol sd.value = false → t.weight = wt * V / sd.value) ∧
      (∀ (j : Nat) (x : SecData K), j ≠ i → ss[j]? = some x →
        ∃ u, ssF[j]? = some u ∧ u.position = x.position ∧ u.value = x.value) := by
  have hns : NiceSec cfg d s := hnice s (List.mem_of_getElem? hs)
  obtain ⟨sdF, ssF, r1, r2, r3, r4, r5, ⟨t, ht, hm, hwt⟩, r7⟩ :=
    opRebalance_updRoot_flat cfg d sd ss i s wt V w1 w2 hatol htol hnow hfi hcomm hnice hs hpos h1 h2
  have htw := target_worth cfg d V s wt hns htol hw hx
  have hv : t.value = wt * V := by
    have := hm.2.2.2
    rw [this]; exact htw
  have hcash : doCash cfg s (planAmt cfg V s (some wt)) = wt * V - s.value := by
    have := worth_doSec cfg s (planAmt cfg V s (some wt))
    rw [htw] at this
    have hws : worth s = s.value := by unfold worth; rw [hns.val]
    rw [hws] at this
    linear_combination -this
  have hpx : px (doSec cfg s (planAmt cfg V s (some wt))) = px s ∧
      (doSec cfg s (planAmt cfg V s (some wt))).mult = s.mult := by
    cases planAmt cfg V s (some wt) with
    | none => exact ⟨rfl, rfl⟩
    | some a =>
      simp only [doSec, stepSec]
      cases niceQ cfg s (px s) a <;> exact ⟨rfl, rfl⟩
  refine ⟨sdF, ssF, t, r1, r2, ht, hv, hm.value_eq, hm.2.1.trans hpx.1, hm.2.2.1.trans hpx.2, ?_, ?_, ?_, ?_, ?_⟩
  · rw [r3, hcash]
  · rcases r5 with h | ⟨h, _⟩
    · rw [h, hbal]
    · exact h
  · rw [r4, hbal]
  · intro hnu hz
    rw [hwt hnu, ← hbal, hz, hv]; simp
  · intro j x hj hx'
    obtain ⟨u, hu, hmu, _⟩ := r7 j x hj hx'
    refine ⟨u, hu, hmu.1, ?_⟩
    rw [hmu.2.2.2, (hnice x (List.mem_of_getElem? hx')).val]


example : (∀ x ∈ secs, NiceSec cfgQ 1 x) ∧ secs[0]? = some (mkS "a" 1 (some 10) 30 (3/10) true) ∧
    0 ≤ strat.capital + worthSum secs ∧ strat.value = strat.capital + worthSum secs ∧
    (mkS "a" 1 (some 10) 30 (3/10) true).weight * 1000 = (mkS "a" 1 (some 10) 30 (3/10) true).value ∧
    TargetExact cfgQ 1000 (mkS "a" 1 (some 10) 30 (3/10) true) (2/5) ∧
    ((opRebalance cfgQ (flatW strat secs) [] (2/5) 0 (some 1000) false).bind (updRoot cfgQ 1)).map view
      = .ok (400, 1000, [(40, 400, 2/5), (10, 200, 1/5), (0, 0, 0)]) :=
  ⟨secs_nice, rfl, by decide +kernel, by decide +kernel, by decide +kernel,
    by unfold TargetExact; decide +kernel, by decide +kernel⟩


/-- The same at any depth and with any siblings: the market-value strategy found at path `p` of any tree
    rebalances its security child `i` (fractional units, no costs, up to date; cached weight = value share of
    `V`; trade not swallowed by `TOL`), then the tree is updated (`update(d)` without the root-only
    bankruptcy step — see `rebalance_security_reaches_target_root`). Afterwards that child's value is exactly
    `wt · V = position·price·mult`, and — unless it was parked as negligible — its weight is `wt · V / V'`
    with `V'` the total the parent's children loop added up, which is the parent's recorded value up to the
    `TOL` write guard. -/
theorem rebalance_security_reaches_target (cfg : Cfg K) (d : Nat) (w w1 : World K) (p : List Nat)
    (sd : StratData K) (ks : List (Node K)) (i : Nat) (s : SecData K) (wt V : K) (r2 : Node K)
    (hatol : 0 ≤ cfg.atol) (htol : 0 < cfg.tol)
    (hst : w.stale = false) (hp : w.root.get? p = some (.strat sd ks)) (hk : ks[i]? = some (.sec s))
    (hn : NiceSec cfg d s) (hnow : sd.now = some d) (hfi : sd.fixedIncome = false)
    (hcomm : ∀ q x, sd.comm q x = 0) (hw : s.weight * V = s.value) (hx : TargetExact cfg V s wt)
    (h1 : opRebalance cfg w p wt i (some V) false = .ok w1)
    (h2 : updNode cfg d w1.root = .ok r2) :
    ∃ sdp' ksp' t, r2.get? p = some (.strat sdp' ksp') ∧ ksp'[i]? = some (.sec t) ∧
      t.value = wt * V ∧ t.value = t.position * px t * t.mult ∧ px t = px s ∧ t.mult = s.mult ∧
      ∃ V', (sdp'.value = V' ∨ isZero cfg.tol (sdp'.value - V') = true) ∧
        (sdp'.fixedIncome = false → t.needupdate = true →
          t.weight = if isZero cfg.tol V' then 0 else wt * V / V') := by
  obtain ⟨_, g⟩ := opRebalance_at_path cfg d w w1 p sd ks i s wt V hatol htol hst hp hk hn hnow hfi hcomm hx.1 h1
  have hplan : planAmt cfg V s (some wt) = some ((wt - s.weight) * V) := by
    simp only [planAmt, hx.1, Bool.false_eq_true, ↓reduceIte]
  have hdo : stepSec cfg s ((wt - s.weight) * V) = doSec cfg s (planAmt cfg V s (some wt)) := by
    rw [hplan]; rfl
  rw [hdo] at g
  have hki : (ks.set i (Node.sec (doSec cfg s (planAmt cfg V s (some wt)))))[i]? =
      some (.sec (doSec cfg s (planAmt cfg V s (some wt)))) := getElem?_set_same _ _ _ _ hk
  obtain ⟨sdp', ksp', t, g1, g2, hm, V', g4, g5⟩ :=
    updNode_get_sec cfg d p _ r2 _ _ i _ h2 g hki (doSec_ready hn _)
  have htw := target_worth cfg d V s wt hn htol hw hx
  have hv : t.value = wt * V := by rw [hm.2.2.2]; exact htw
  have hpx : px (doSec cfg s (planAmt cfg V s (some wt))) = px s ∧
      (doSec cfg s (planAmt cfg V s (some wt))).mult = s.mult := by
    cases planAmt cfg V s (some wt) with
    | none => exact ⟨rfl, rfl⟩
    | some a =>
      simp only [doSec, stepSec]
      cases niceQ cfg s (px s) a <;> exact ⟨rfl, rfl⟩
  refine ⟨sdp', ksp', t, g1, g2, hv, hm.value_eq, hm.2.1.trans hpx.1, hm.2.2.1.trans hpx.2, V', g4, ?_⟩
  intro hf hnu
  rw [g5 hf hnu, hv]

example : nested.stale = false ∧ nested.root.get? [0] = some (.strat strat (secs.map Node.sec)) ∧
    (secs.map Node.sec)[0]? = some (.sec (mkS "a" 1 (some 10) 30 (3/10) true)) ∧
    NiceSec cfgQ 1 (mkS "a" 1 (some 10) 30 (3/10) true) ∧
    TargetExact cfgQ 1000 (mkS "a" 1 (some 10) 30 (3/10) true) (2/5) ∧
    ((opRebalance cfgQ nested [0] (2/5) 0 (some 1000) false).bind (updRoot cfgQ 1)).map (valAt · [0, 0])
      = .ok (some (40, 400, 2/5)) :=
  ⟨rfl, rfl, rfl, secs_nice _ (by simp [secs]), by unfold TargetExact; decide +kernel, by decide +kernel⟩

/-- With the root's own `update` (which adds the bankruptcy step): the same conclusion, unless the step fired
    — the root was not bankrupt yet, is a market-value strategy and the total it added up is negative — in
    which case the whole tree was liquidated instead. -/
theorem rebalance_security_reaches_target_root (cfg : Cfg K) (d : Nat) (w w1 w2 : World K) (p : List Nat)
    (sd : StratData K) (ks : List (Node K)) (i : Nat) (s : SecData K) (wt V : K)
    (hatol : 0 ≤ cfg.atol) (htol : 0 < cfg.tol)
    (hst : w.stale = false) (hp : w.root.get? p = some (.strat sd ks)) (hk : ks[i]? = some (.sec s))
    (hn : NiceSec cfg d s) (hnow : sd.now = some d) (hfi : sd.fixedIncome = false)
    (hcomm : ∀ q x, sd.comm q x = 0) (hw : s.weight * V = s.value) (hx : TargetExact cfg V s wt)
    (h1 : opRebalance cfg w p wt i (some V) false = .ok w1)
    (h2 : updRoot cfg d w1 = .ok w2) :
    (∃ sdp' ksp' t, w2.root.get? p = some (.strat sdp' ksp') ∧ ksp'[i]? = some (.sec t) ∧
      t.value = wt * V ∧ t.value = t.position * px t * t.mult ∧ px t = px s ∧ t.mult = s.mult ∧
      ∃ V', (sdp'.value = V' ∨ isZero cfg.tol (sdp'.value - V') = true) ∧
        (sdp'.fixedIncome = false → t.needupdate = true →
          t.weight = if isZero cfg.tol V' then 0 else wt * V / V')) ∨
    (∃ sdr kidsr, w1.root = .strat sdr kidsr ∧ sdr.bankrupt = false ∧ sdr.fixedIncome = false ∧
      ∃ kids1 acc, updKids cfg d (stratDateChange d sdr).2 (stratDateChange d sdr).1.bidofferSet kidsr
        ⟨(stratDateChange d sdr).1.capital, 0, 0, 0⟩ = .ok (kids1, acc) ∧ acc.val + acc.coupons < 0) := by
  obtain ⟨_, g⟩ := opRebalance_at_path cfg d w w1 p sd ks i s wt V hatol htol hst hp hk hn hnow hfi hcomm hx.1 h1
  obtain ⟨sdr, kidsr, hr⟩ := strat_of_get? p w1.root _ _ g
  rcases updRoot_cases hr h2 with ⟨hu, _⟩ | ⟨hb, hf, kids1, acc, hkids, hneg⟩
  · left
    exact rebalance_security_reaches_target cfg d w w1 p sd ks i s wt V w2.root hatol htol hst hp hk hn hnow
      hfi hcomm hw hx h1 hu
  · right
    exact ⟨sdr, kidsr, hr, hb, hf, kids1, acc, hkids, hneg⟩

example : ((opRebalance cfgQ nested [0] (2/5) 0 (some 1000) false).bind (updRoot cfgQ 1)).map
      (fun w => (valAt w [0, 0], valAt w [0])) = .ok (some (40, 400, 2/5), some (400, 1000, 1)) := by
  decide +kernel

/-! ### (4) the `Rebalance` algo on a flat strategy -/

/-- `Rebalance()` with targets `T` (child index, weight — distinct indices) and an optional cash fraction
    `κ` (`cashScale = 1 − κ`) on a market-value strategy whose children are all securities with fractional
    units and no costs, up to date (`NiceSec`), on a balanced prior world (`value = cash + Σ position·price·mult`,
    every cached weight is the child's value share) of non-negative value `V` — whatever the prior positions:
    * every targeted child whose trade is not swallowed by `TOL` (`TargetExact`) ends with value exactly
      `(1−κ)·w·V = position·price·mult`, and weight exactly `(1−κ)·w` (if it is not parked as negligible);
    * every child that is not a target (or whose scaled target weight is negligible) is closed: position and
      value exactly 0 when its value and position were above `TOL`, untouched otherwise;
    * the strategy's value is still `V` and its cash is the remainder `V − Σ child values`.

    Full statement wanted (NOT proved): the same for a strategy at any path of any tree, with sub-strategy
    children and targets, from any (possibly stale) prior world. Missing / partial: (a) one level only — the
    strategy is the root and its children are securities (sub-strategy targets: see
    `substrategy_target_receives` / `substrategy_target_spread`); (b) fractional units, zero commission, zero
    spread (whole units: `integer_target_bound_partial`); (c) the prior world is fresh and balanced, prices
    present and not negligible, `V ≥ 0` (no bankruptcy step); (d) exactness needs `TargetExact` — without it the
    statement is false of the model (`witness_tiny_quantity_target_missed`), and "every other open child is
    closed" is false for children worth exactly 0 (`witness_zero_value_nontarget_stays_open`). -/
theorem Rebalance_exact_partial (cfg : Cfg K) (d : Nat) (sd : StratData K) (ss : List (SecData K))
    (T : List (Nat × K)) (cash notional : Option K) (w' : World K)
    (hatol : 0 ≤ cfg.atol) (htol : 0 < cfg.tol)
    (hnow : sd.now = some d) (hfi : sd.fixedIncome = false) (hcomm : ∀ q x, sd.comm q x = 0)
    (hnice : ∀ s ∈ ss, NiceSec cfg d s) (hnd : (T.map (·.1)).Nodup)
    (hin : ∀ i ∈ T.map (·.1), i < ss.length)
    (hbal : sd.value = sd.capital + worthSum ss) (hwts : ∀ s ∈ ss, s.weight * sd.value = s.value)
    (hV : 0 ≤ sd.value)
    (h : algoRebalance cfg (flatW sd ss) [] T cash notional = .ok w') :
    ∃ (sdF : StratData K) (ssF : List (SecData K)), w' = flatW sdF ssF ∧ ssF.length = ss.length ∧
      sdF.value = sd.value ∧ sdF.capital + (ssF.map (·.value)).sum = sd.value ∧
      (∀ (i : Nat) (wt : K) (s : SecData K), (i, wt) ∈ T → ss[i]? = some s →
        TargetExact cfg sd.value s (wt * cashScale cash) →
        ∃ t, ssF[i]? = some t ∧ t.value = wt * cashScale cash * sd.value ∧
          t.value = t.position * px t * t.mult ∧ px t = px s ∧ t.mult = s.mult ∧
          (t.needupdate = true → isZero cfg.tol sd.value = false → t.weight = wt * cashScale cash)) ∧
      (∀ (i : Nat) (s : SecData K), ss[i]? = some s →
        (i ∉ T.map (·.1) ∨ ∃ wt, (i, wt) ∈ T ∧ isZero cfg.tol (wt * cashScale cash) = true) →
        ∃ t, ssF[i]? = some t ∧
          (isZero cfg.tol s.value = false → isZero cfg.tol s.position = false →
            t.position = 0 ∧ t.value = 0) ∧
          (isZero cfg.tol s.value = true ∨ isZero cfg.tol s.position = true →
            t.position = s.position ∧ t.value = s.value)) := by
  rw [hbal] at hV
  obtain ⟨sdF, ssF, r1, r2, r3, r4, r5, r6⟩ := algoRebalance_flat cfg d sd ss T cash notional w' hatol htol
    hnow hfi hcomm hnice hnd hin hV h
  rw [← hbal] at r3 r4 r5 r6
  have hclosed : ∀ (s : SecData K) (t : SecData K), NiceSec cfg d s → Marked (doSec cfg s (closeAmt s)) t →
      (isZero cfg.tol s.value = false → isZero cfg.tol s.position = false →
        t.position = 0 ∧ t.value = 0) ∧
      (isZero cfg.tol s.value = true ∨ isZero cfg.tol s.position = true →
        t.position = s.position ∧ t.value = s.value) := by
    intro s t hns hm
    obtain ⟨c1, c2⟩ := close_spec cfg s htol
    constructor
    · intro h1 h2
      have := c1 h1 h2
      refine ⟨by rw [hm.1, this], ?_⟩
      rw [hm.2.2.2, this]; ring
    · intro h1
      have := c2 h1
      rw [this] at hm
      exact ⟨hm.1, by rw [hm.2.2.2, hns.val]⟩
  have hvalworth : ∀ t ∈ ssF, t.value = worth t := by
    intro t ht
    obtain ⟨i, hi⟩ := List.mem_iff_getElem?.1 ht
    have hlt : i < ss.length := by
      rcases Nat.lt_or_ge i ssF.length with hl | hl
      · rw [r2] at hl; exact hl
      · rw [List.getElem?_eq_none hl] at hi; cases hi
    have hs : ss[i]? = some ss[i] := List.getElem?_eq_getElem hlt
    by_cases him : i ∈ T.map (·.1)
    · obtain ⟨⟨i', wt⟩, hmem', rfl⟩ := List.mem_map.1 him
      obtain ⟨t', ht', hm, _⟩ := r5 _ wt _ hmem' hs
      rw [ht'] at hi; cases hi
      exact hm.value_eq
    · obtain ⟨t', ht', hm, _⟩ := r6 i _ him hs
      rw [ht'] at hi; cases hi
      exact hm.value_eq
  refine ⟨sdF, ssF, r1, r2, ?_, ?_, ?_, ?_⟩
  · rcases r4 with h | ⟨h, _⟩
    · exact h
    · exact h
  · rw [← r3]
    congr 1
    exact congrArg List.sum (List.map_congr_left hvalworth)
  · intro i wt s hi hs hx
    have hns : NiceSec cfg d s := hnice s (List.mem_of_getElem? hs)
    obtain ⟨t, ht, hm, hwt⟩ := r5 i wt s hi hs
    have htw := target_worth cfg d sd.value s (wt * cashScale cash) hns htol
      (hwts s (List.mem_of_getElem? hs)) hx
    have hv : t.value = wt * cashScale cash * sd.value := by rw [hm.2.2.2]; exact htw
    have hpx : px (doSec cfg s (planAmt cfg sd.value s (some (wt * cashScale cash)))) = px s ∧
        (doSec cfg s (planAmt cfg sd.value s (some (wt * cashScale cash)))).mult = s.mult := by
      cases planAmt cfg sd.value s (some (wt * cashScale cash)) with
      | none => exact ⟨rfl, rfl⟩
      | some a =>
        simp only [doSec, stepSec]
        cases niceQ cfg s (px s) a <;> exact ⟨rfl, rfl⟩
    refine ⟨t, ht, hv, hm.value_eq, hm.2.1.trans hpx.1, hm.2.2.1.trans hpx.2, ?_⟩
    intro hnu hz
    have hne : sd.value ≠ 0 := by
      intro h0; rw [h0, isZero_zero cfg htol] at hz; cases hz
    rw [hwt hnu, hz, hv]
    simp only [Bool.false_eq_true, ↓reduceIte]
    rw [mul_div_cancel_right₀ _ hne]
  · intro i s hs hcase
    have hns : NiceSec cfg d s := hnice s (List.mem_of_getElem? hs)
    rcases hcase with him | ⟨wt, hi, hz⟩
    · obtain ⟨t, ht, hm, _⟩ := r6 i s him hs
      exact ⟨t, ht, hclosed s t hns hm⟩
    · obtain ⟨t, ht, hm, _⟩ := r5 i wt s hi hs
      simp only [planAmt, hz, ↓reduceIte] at hm
      exact ⟨t, ht, hclosed s t hns hm⟩

example : (0 : Rat) ≤ cfgQ.atol ∧ (0 : Rat) < cfgQ.tol ∧ strat.now = some 1 ∧ strat.fixedIncome = false ∧
    (∀ q x, strat.comm q x = 0) ∧ (∀ s ∈ secs, NiceSec cfgQ 1 s) ∧
    (([(0, 1/2), (2, 1/4)] : List (Nat × Rat)).map (·.1)).Nodup ∧
    (∀ i ∈ ([(0, 1/2), (2, 1/4)] : List (Nat × Rat)).map (·.1), i < secs.length) ∧
    strat.value = strat.capital + worthSum secs ∧ (∀ s ∈ secs, s.weight * strat.value = s.value) ∧
    0 ≤ strat.value ∧
    TargetExact cfgQ strat.value (mkS "a" 1 (some 10) 30 (3/10) true) (1/2 * cashScale (some (1/5))) ∧
    TargetExact cfgQ strat.value (mkS "c" 2 (some 5) 0 0 false) (1/4 * cashScale (some (1/5))) ∧
    (algoRebalance cfgQ (flatW strat secs) [] [(0, 1/2), (2, 1/4)] (some (1/5)) none).map view
      = .ok (400, 1000, [(40, 400, 2/5), (0, 0, 0), (20, 200, 1/5)]) := by
  refine ⟨by decide +kernel, by decide +kernel, rfl, rfl, fun _ _ => rfl, secs_nice, by decide, by decide,
    by decide +kernel, ?_, by decide +kernel, by unfold TargetExact; decide +kernel,
    by unfold TargetExact; decide +kernel, by decide +kernel⟩
  intro s hs
  simp only [secs, List.mem_cons, List.not_mem_nil, or_false] at hs
  rcases hs with rfl | rfl | rfl <;> decide +kernel


/-- "The remainder stays in cash": under the hypotheses of `Rebalance_exact_partial`, when every target trade
    is exact (`TargetExact`) and every child that is not a target is flat or closable (value and position
    above `TOL`), the strategy's cash after `Rebalance` is `V − Σ_targets (1−κ)·w·V` and its value is still
    `V`. Partial for the same reasons as `Rebalance_exact_partial`. -/
theorem Rebalance_cash_remainder_partial (cfg : Cfg K) (d : Nat) (sd : StratData K) (ss : List (SecData K))
    (T : List (Nat × K)) (cash notional : Option K) (w' : World K)
    (hatol : 0 ≤ cfg.atol) (htol : 0 < cfg.tol)
    (hnow : sd.now = some d) (hfi : sd.fixedIncome = false) (hcomm : ∀ q x, sd.comm q x = 0)
    (hnice : ∀ s ∈ ss, NiceSec cfg d s) (hnd : (T.map (·.1)).Nodup)
    (hin : ∀ i ∈ T.map (·.1), i < ss.length)
    (hbal : sd.value = sd.capital + worthSum ss) (hwts : ∀ s ∈ ss, s.weight * sd.value = s.value)
    (hV : 0 ≤ sd.value)
    (hex : ∀ (i : Nat) (wt : K) (s : SecData K), (i, wt) ∈ T → ss[i]? = some s →
      TargetExact cfg sd.value s (wt * cashScale cash))
    (hcl : ∀ (i : Nat) (s : SecData K), i ∉ T.map (·.1) → ss[i]? = some s →
      s.value = 0 ∨ (isZero cfg.tol s.value = false ∧ isZero cfg.tol s.position = false))
    (h : algoRebalance cfg (flatW sd ss) [] T cash notional = .ok w') :
    ∃ (sdF : StratData K) (ssF : List (SecData K)), w' = flatW sdF ssF ∧ sdF.value = sd.value ∧
      sdF.capital = sd.value - (T.map fun t => t.2 * cashScale cash * sd.value).sum := by
  obtain ⟨sdF, ssF, r1, r2, r3, r4, r5, r6⟩ := Rebalance_exact_partial cfg d sd ss T cash notional w' hatol htol
    hnow hfi hcomm hnice hnd hin hbal hwts hV h
  refine ⟨sdF, ssF, r1, r3, ?_⟩
  have hsum : (ssF.map (·.value)).sum = (T.map fun t => (fun wt => wt * cashScale cash * sd.value) t.2).sum := by
    refine sum_by_targets (fun wt => wt * cashScale cash * sd.value) T (ssF.map (·.value)) hnd ?_ ?_
    · intro i wt hi
      have hlt : i < ss.length := hin i (List.mem_map.2 ⟨(i, wt), hi, rfl⟩)
      have hs : ss[i]? = some ss[i] := List.getElem?_eq_getElem hlt
      obtain ⟨t, ht, hv, _⟩ := r5 i wt _ hi hs (hex i wt _ hi hs)
      rw [List.getElem?_map, ht]; simp [hv]
    · intro i hlt hni
      rw [List.length_map, r2] at hlt
      have hs : ss[i]? = some ss[i] := List.getElem?_eq_getElem hlt
      obtain ⟨t, ht, c1, c2⟩ := r6 i _ hs (Or.inl hni)
      rw [List.getElem?_map, ht]
      simp only [Option.map_some, Option.some.injEq]
      rcases hcl i _ hni hs with h0 | ⟨h1, h2⟩
      · rw [(c2 (Or.inl (by rw [h0]; exact isZero_zero cfg htol))).2, h0]
      · exact (c1 h1 h2).2
  rw [hsum] at r4
  linear_combination r4

example : (∀ (i : Nat) (s : SecData Rat), i ∉ ([(0, 1/2), (2, 1/4)] : List (Nat × Rat)).map (·.1) →
      secs[i]? = some s →
      s.value = 0 ∨ (isZero cfgQ.tol s.value = false ∧ isZero cfgQ.tol s.position = false)) ∧
    strat.value - (([(0, 1/2), (2, 1/4)] : List (Nat × Rat)).map
      fun t => t.2 * cashScale (some (1/5)) * strat.value).sum = 400 := by
  refine ⟨?_, by decide +kernel⟩
  intro i s hi hs
  have h1 : i = 1 := by
    have hlt : i < secs.length := by
      rcases Nat.lt_or_ge i secs.length with hl | hl
      · exact hl
      · rw [List.getElem?_eq_none hl] at hs; cases hs
    simp only [List.map_cons, List.map_nil, List.mem_cons, List.not_mem_nil, or_false, not_or] at hi
    have : secs.length = 3 := rfl
    omega
  subst h1
  cases hs
  right; decide +kernel

/-! ### (5) a sub-strategy used as a target spreads the capital over its own children -/

/-- `allocate(A)` pushed into a sub-strategy (any children, any depth below): the single adjustment returned
    to the parent is the non-flow debit `−A`; the sub-strategy books `+A` as a flow; and every child `k`
    receives `allocate(A × k.weight)` — its current cached weight — with the sub-strategy's date and
    commission function; the sub-strategy's cash ends at `capital + A +` the (non-flow) amounts its
    children sent back. -/
theorem substrategy_target_spread (cfg : Cfg K) (pn : Option Nat) (comm : K → K → K) (A : K)
    (sd : StratData K) (kids : List (Node K)) (n' : Node K) (adjs : List (Adj K))
    (h : allocNode cfg pn comm A (.strat sd kids) = .ok (n', adjs)) :
    adjs = [{ amount := -A, fee := 0, flow := false }] ∧
    ∃ sd2 kids2, n' = .strat sd2 kids2 ∧ kids2.length = kids.length ∧
      (∀ (i : Nat) (k : Node K), kids[i]? = some k → ∃ k' a, kids2[i]? = some k' ∧
        allocNode cfg sd.now sd.comm (A * k.weight) k = .ok (k', a)) ∧
      sd2.netFlows = sd.netFlows + A ∧
      ∃ L : List (Adj K), (∀ a ∈ L, a.flow = false) ∧ sd2.capital = sd.capital + A + adjAmounts L := by
  rw [allocNode] at h
  obtain ⟨⟨sd2, kids2⟩, h1, h2⟩ := Except.map_ok h
  simp only [Prod.mk.injEq] at h2
  obtain ⟨rfl, rfl⟩ := h2
  obtain ⟨hl, hp⟩ := allocKids_pushes cfg A kids _ sd2 kids2 h1
  obtain ⟨L, _, hnf, hsd, _⟩ := allocKids_trace kids h1
  rw [foldl_adjust_nonflow L _ hnf] at hsd
  refine ⟨rfl, sd2, kids2, rfl, hl, hp, ?_, L, hnf, ?_⟩
  · rw [hsd]; simp [StratData.adjust]
  · rw [hsd]; simp [StratData.adjust]

example : ∃ n' adjs, allocNode cfgQ (some 1) commZero 100
    (.strat { mkD 50 350 (7/20) with name := "sub" } (secs.map Node.sec)) = .ok (n', adjs) := by
  have h := allocKids_flat_nice cfgQ 1 100 (by decide +kernel) (by decide +kernel) secs
    (({ mkD 50 350 (7/20) with name := "sub" } : StratData Rat).adjust { amount := 100, fee := 0, flow := true })
    rfl (fun _ _ => rfl) secs_nice
  rw [allocNode, h]
  exact ⟨_, _, rfl⟩

/-- A sub-strategy used as a target "receives capital like a security": `rebalance(wt, child i, base V)` of the
    market-value strategy found at any path `p`, when child `i` is a sub-strategy, allocates
    `A = (wt − child.weight)·V` to it exactly as it would to a security: the parent's cash is debited `A`
    (a non-flow), the sub-strategy is credited `A` as a flow and runs its children loop `allocKids` with `A`
    (`substrategy_target_spread`: child `k` gets `A × k.weight`); nothing else in the tree changes at `p`. -/
theorem substrategy_target_receives (cfg : Cfg K) (w w1 : World K) (p : List Nat) (sd sdc : StratData K)
    (ks kc : List (Node K)) (i : Nat) (wt V : K) (update : Bool)
    (hst : w.stale = false) (hp : w.root.get? p = some (.strat sd ks))
    (hk : ks[i]? = some (.strat sdc kc)) (hfi : sd.fixedIncome = false) (hz : isZero cfg.tol wt = false)
    (h1 : opRebalance cfg w p wt i (some V) update = .ok w1) :
    ∃ sd2 kids2,
      allocKids cfg ((wt - sdc.weight) * V) kc
        (sdc.adjust { amount := (wt - sdc.weight) * V, fee := 0, flow := true }) = .ok (sd2, kids2) ∧
      w1.root.get? p = some (.strat (sd.adjust { amount := -((wt - sdc.weight) * V), fee := 0, flow := false })
        (ks.set i (.strat sd2 kids2))) ∧
      w1.stale = update := by
  have hc : w.root.get? (p ++ [i]) = some (.strat sdc kc) := by rw [get?_child p _ sd ks i hp]; exact hk
  rw [opRebalance_unfold cfg w p wt i V update sd ks _ hst hz hp hc] at h1
  simp only [hfi, Bool.false_eq_true, ↓reduceIte, Node.weight] at h1
  unfold opAllocate World.modify at h1
  obtain ⟨⟨r, adjs, st⟩, h2, h3⟩ := Except.map_ok h1
  subst h3
  obtain ⟨sdp, ksp, c, c', adjs', g1, g2, g3, g4⟩ := modAt_child _ i p none w.root _ h2
  rw [hp] at g1
  simp only [Option.some.injEq, Node.strat.injEq] at g1
  obtain ⟨rfl, rfl⟩ := g1
  rw [hk] at g2
  cases g2
  simp only at g3 g4
  obtain ⟨⟨n', adjs2⟩, e1, e2⟩ := Except.map_ok g3
  simp only [Prod.mk.injEq] at e2
  obtain ⟨rfl, rfl, rfl⟩ := e2
  rw [allocNode] at e1
  obtain ⟨⟨sd2, kids2⟩, e3, e4⟩ := Except.map_ok e1
  simp only [Prod.mk.injEq] at e4
  obtain ⟨rfl, rfl⟩ := e4
  refine ⟨sd2, kids2, e3, ?_, by simp [hst]⟩
  rw [g4]; rfl

example : ∃ w1, opRebalance cfgQ nested [] (1/2) 0 (some 1000) false = .ok w1 ∧
    valAt w1 [] = some (500, 1000, 1) ∧ valAt w1 [0] = some (250, 1000, 1) ∧
    valAt w1 [0, 0] = some (15, 300, 3/10) := by
  have h : ((opRebalance cfgQ nested [] (1/2) 0 (some 1000) false).map
      fun w => (valAt w [], valAt w [0], valAt w [0, 0])) =
      .ok (some (500, 1000, 1), some (250, 1000, 1), some (15, 300, 3/10)) := by decide +kernel
  obtain ⟨w1, h1, h2⟩ := Except.map_ok h
  simp only [Prod.mk.injEq] at h2
  exact ⟨w1, h1, h2.1, h2.2.1, h2.2.2⟩

/-- With security children (fractional units, no costs, up to date) the spread is explicit: child `k` goes
    through `allocate(A × weight_k)` (`stepSec`), the sub-strategy's cash moves by `A − Σ` cash paid and its
    net flows by `A`. When no child allocation is swallowed by `TOL` (`AllocExact`), each child's worth
    `position·price·mult` moves by exactly `A × weight_k` and the cash by `A − Σ A × weight_k`. -/
theorem substrategy_target_spread_securities (cfg : Cfg K) (d : Nat) (pn : Option Nat) (comm : K → K → K)
    (A : K) (sd : StratData K) (ss : List (SecData K))
    (hatol : 0 ≤ cfg.atol) (htol : 0 < cfg.tol)
    (hnow : sd.now = some d) (hcomm : ∀ q x, sd.comm q x = 0) (hnice : ∀ s ∈ ss, NiceSec cfg d s) :
    ∃ sd2, allocNode cfg pn comm A (.strat sd (ss.map Node.sec)) =
        .ok (.strat sd2 ((ss.map fun s => stepSec cfg s (A * s.weight)).map Node.sec),
             [{ amount := -A, fee := 0, flow := false }]) ∧
      sd2.capital = sd.capital + A - (ss.map fun s => stepCash cfg s (A * s.weight)).sum ∧
      sd2.netFlows = sd.netFlows + A ∧
      (∀ s ∈ ss, worth (stepSec cfg s (A * s.weight)) = worth s + stepCash cfg s (A * s.weight)) ∧
      ((∀ s ∈ ss, AllocExact cfg s (A * s.weight)) →
        (∀ s ∈ ss, worth (stepSec cfg s (A * s.weight)) = worth s + A * s.weight) ∧
        sd2.capital = sd.capital + A - (ss.map fun s => A * s.weight).sum) := by
  have h := allocKids_flat_nice cfg d A hatol htol ss
    (sd.adjust { amount := A, fee := 0, flow := true }) hnow hcomm hnice
  refine ⟨_, by rw [allocNode, h]; rfl, rfl, by simp [StratData.adjust, withCap],
    fun s _ => worth_stepSec cfg s _, ?_⟩
  intro hex
  have hc : ∀ s ∈ ss, stepCash cfg s (A * s.weight) = A * s.weight :=
    fun s hs => stepCash_of_exact cfg s _ htol (hnice s hs).mnz (hex s hs)
  refine ⟨fun s hs => by rw [worth_stepSec, hc s hs], ?_⟩
  show sd.capital + A - _ = _
  rw [List.map_congr_left hc]

example : (∀ s ∈ secs, NiceSec cfgQ 1 s) ∧ (∀ s ∈ secs, AllocExact cfgQ s (100 * s.weight)) := by
  refine ⟨secs_nice, ?_⟩
  intro s hs
  simp only [secs, List.mem_cons, List.not_mem_nil, or_false] at hs
  rcases hs with rfl | rfl | rfl <;> unfold AllocExact <;> decide +kernel

/-! ### (6) whole-unit positions: within one unit of the target -/

/-- Whole-unit positions, no commission, zero spread (`IntSec`: plain, up to date, priced, holding a whole
    number of units, `value = position·price·mult`; `floorA`/`ceilA` the real floor and ceiling, `TOL ≤ 1`):
    `rebalance(wt, child i, base = V, update=False)` + `root.update(now)` on a market-value strategy with
    security children, where the child's cached weight is its value share of `V`. The call never raises in
    the sizing; the child moves by a whole quantity `q` and ends with value `position·price·mult` whose
    distance to the target `wt·V` is below one unit's value `price·mult` — or within `np.isclose`'s tolerance
    `atol + TOL·|amount|`, or below `TOL` (amount not traded / close-out shortcut); hence below one unit's
    value whenever those tolerances are smaller than a unit. Cash pays exactly `q·price·mult`.

    Partial: zero costs and one level (root strategy, security children). With costs the full statement
    "within one unit plus the costs paid" does not follow from the model: the search may raise
    (`C05.witness_raise_*`) and the `q == −position` skip is not budget-checked
    (`C05.witness_skip_overspends`). -/
theorem integer_target_bound_partial [FloorRing K] (hfloor : ∀ x : K, floorA x = (⌊x⌋ : K))
    (hceil : ∀ x : K, ceilA x = (⌈x⌉ : K)) (cfg : Cfg K) (d : Nat) (sd : StratData K)
    (ss : List (SecData K)) (i : Nat) (s : SecData K) (wt V : K) (w1 w2 : World K)
    (hatol : 0 ≤ cfg.atol) (htol : 0 < cfg.tol) (htol1 : cfg.tol ≤ 1) (hcap : 1 ≤ cfg.iterCap)
    (hnow : sd.now = some d) (hfi : sd.fixedIncome = false) (hcomm : ∀ q x, sd.comm q x = 0)
    (hready : ∀ x ∈ ss, UpdReady d x) (hs : ss[i]? = some s) (hi : IntSec cfg d s)
    (hwt : isZero cfg.tol wt = false) (hw : s.weight * V = s.value)
    (hpos : 0 ≤ sd.capital + worthSum ss)
    (h1 : opRebalance cfg (flatW sd ss) [] wt i (some V) false = .ok w1)
    (h2 : updRoot cfg d w1 = .ok w2) :
    ∃ (sdF : StratData K) (ssF : List (SecData K)) (t : SecData K) (q : K),
      w2 = flatW sdF ssF ∧ ssF[i]? = some t ∧ t.position = s.position + q ∧
      t.value = t.position * px s * s.mult ∧
      (|t.value - wt * V| < px s * s.mult ∨
        |t.value - wt * V| ≤ cfg.atol + cfg.tol * |wt * V - s.value| ∨
        |t.value - wt * V| < cfg.tol) ∧
      (cfg.atol + cfg.tol * |wt * V - s.value| < px s * s.mult → cfg.tol ≤ px s * s.mult →
        |t.value - wt * V| < px s * s.mult) ∧
      sdF.capital = sd.capital - q * px s * s.mult ∧
      sdF.capital + worthSum ssF = sd.capital + worthSum ss := by
  obtain ⟨sdF, ssF, t, q, r1, _, r3, hb, hp, hpx, hm, hv, hc, hcons, _⟩ :=
    opRebalance_updRoot_flat_int hfloor hceil cfg d sd ss i s wt V w1 w2 hatol htol htol1 hcap hnow hfi hcomm
      hready hs hi hwt hpos h1 h2
  have hamt : (wt - s.weight) * V = wt * V - s.value := by rw [sub_mul, hw]
  rw [hamt] at hb
  have hv' : t.value = t.position * px s * s.mult := by rw [hv, hpx, hm]
  have hdiff : t.value - wt * V = q * (px s * s.mult) - (wt * V - s.value) := by
    rw [hv', hp, hi.val]; ring
  have hb' : |t.value - wt * V| < px s * s.mult ∨
      |t.value - wt * V| ≤ cfg.atol + cfg.tol * |wt * V - s.value| ∨ |t.value - wt * V| < cfg.tol := by
    rw [hdiff]; exact hb
  refine ⟨sdF, ssF, t, q, r1, r3, hp, hv', hb', ?_, hc, hcons⟩
  intro h1' h2'
  rcases hb' with h | h | h
  · exact h
  · exact lt_of_le_of_lt h h1'
  · exact lt_of_lt_of_le h h2'

example : (∀ x : Rat, floorA x = ((⌊x⌋ : ℤ) : Rat)) ∧ (∀ x : Rat, ceilA x = ((⌈x⌉ : ℤ) : Rat)) ∧
    (cfgQ.tol ≤ 1) ∧ 1 ≤ cfgQ.iterCap ∧ (∀ x ∈ secsI, UpdReady 1 x) ∧
    secsI[0]? = some (mkI "i" 1 (some 30) 3 (9/100) true) ∧
    IntSec cfgQ 1 (mkI "i" 1 (some 30) ((3 : ℤ) : Rat) (9/100) true) ∧
    isZero cfgQ.tol (1/4 : Rat) = false ∧
    (mkI "i" 1 (some 30) 3 (9/100) true).weight * 1000 = (mkI "i" 1 (some 30) 3 (9/100) true).value ∧
    0 ≤ stratI.capital + worthSum secsI ∧
    ((opRebalance cfgQ (flatW stratI secsI) [] (1/4) 0 (some 1000) false).bind (updRoot cfgQ 1)).map view
      = .ok (560, 1000, [(8, 240, 6/25), (10, 200, 1/5)]) :=
  ⟨rat_hfloor, rat_hceil, by decide +kernel, by decide, secsI_ready, rfl,
    mkI_int _ _ _ _ _ _ (by decide +kernel) (by decide +kernel), by decide +kernel, by decide +kernel,
    by decide +kernel, by decide +kernel⟩

/-! ### (7) `RebalanceOverTime`: n equal steps -/

/-- `RebalanceOverTime(n)` hands `Rebalance` the target `c + (w − c)/(days left)`; `rotSeq w c₀ n i` is the weight
    after `i` calls when every call reaches its target exactly (which `Rebalance_exact_partial` gives at
    constant prices without costs). The schedule is linear — after `i ≤ n` calls the weight is `c₀ + (i/n)·(w − c₀)`: each call moves the
    weight by the same `(w − c₀)/n`, i.e. by `1/n, 1/(n−1), …, 1` of the remaining gap — and after `n` calls
    the weight is exactly the target `w`, whatever the starting weight. -/
theorem rebalance_over_time_reaches (w c0 : K) (n : Nat) (hn : 1 ≤ n) :
    (∀ i, i ≤ n → rotSeq w c0 n i = c0 + (i : K) / (n : K) * (w - c0)) ∧ rotSeq w c0 n n = w := by
  have hn0 : (n : K) ≠ 0 := by
    have : (0 : K) < (n : K) := by exact_mod_cast hn
    exact ne_of_gt this
  have key : ∀ i, i ≤ n → rotSeq w c0 n i = c0 + (i : K) / (n : K) * (w - c0) := by
    intro i
    induction i with
    | zero => intro _; simp [rotSeq]
    | succ i ih =>
      intro hi
      have hlt : (i : K) < (n : K) := by exact_mod_cast hi
      have hd : (n : K) - (i : K) ≠ 0 := ne_of_gt (sub_pos.2 hlt)
      rw [rotSeq, ih (Nat.le_of_succ_le hi)]
      push_cast
      field_simp
      ring
  refine ⟨key, ?_⟩
  rw [key n (le_refl n), div_self hn0]; ring

example : rotSeq (1/4 : Rat) (3/10) 5 5 = 1/4 ∧ rotSeq (1/4 : Rat) (3/10) 5 2 = 3/10 + 2/5 * (1/4 - 3/10) := by
  norm_num [rotSeq]

/-! ### (8) a child worth exactly 0 is not closed -/

/-- Counter-witness to "every other child with an open position is closed": `Rebalance` skips children whose
    value is exactly 0 (`if c.value != 0` in `close` and in the algo), so a security priced at 0 that still
    holds 5 units keeps them when it is not a target. -/
theorem witness_zero_value_nontarget_stays_open :
    (algoRebalance cfgQ (flatW (mkD 100 100 1) [zeroPriced]) [] [] none none).map view
      = .ok (100, 100, [(5, 0, 0)]) ∧
    (algoRebalance cfgQ (flatW (mkD 100 100 1) [zeroPriced]) [] [] none none).map (posAt · [0])
      = .ok (some 5) := by
  decide +kernel

/-- The same with a sub-strategy whose cash (+50) offsets a short position (−5 units worth −50): its value
    is exactly 0, it is not a target, and its short stays open. -/
theorem witness_zero_value_substrategy_stays_open :
    (algoRebalance cfgQ { root := .strat (mkD 100 100 1) [zeroSub], stale := false } [] [] none none).map view
      = .ok (100, 100, [(50, 0, 0)]) ∧
    (algoRebalance cfgQ { root := .strat (mkD 100 100 1) [zeroSub], stale := false } [] [] none none).map
        (posAt · [0, 0]) = .ok (some (-5)) := by
  decide +kernel


/-- Why `TargetExact` is a hypothesis of the exactness theorems: `allocate` drops a trade whose *quantity* is
    below `TOL` even when its *amount* is not. A fractional, cost-free security priced at `10^20` that should
    receive half of a strategy worth 1000 needs `5·10⁻¹⁸` units; nothing is traded and the child stays at
    weight 0 instead of 1/2. -/
theorem witness_tiny_quantity_target_missed :
    (algoRebalance cfgQ (flatW (mkD 1000 1000 1) [mkS "h" 1 (some (10^20)) 0 0 false]) [] [(0, 1/2)] none
        none).map view = .ok (1000, 1000, [(0, 0, 0)]) ∧
    ¬ TargetExact cfgQ 1000 (mkS "h" 1 (some (10^20)) 0 0 false) (1/2) := by
  refine ⟨by decide +kernel, ?_⟩
  unfold TargetExact
  decide +kernel

end Bt.C06
