import Bt.Proofs.BalancedRun
import Bt.Proofs.BalancedRunEx
import Bt.Props.C08
import Bt.Props.C04
/-! C08 at the run level — **history is append-only along `Backtest.run`; after the run, updates are idempotent and
    reads are fresh**, for arbitrary algos that act through the public API and for whole program trees.

    C08 proves these per operation (`past_rows_frozen` for `update`, `rows_length` for sequences of public calls,
    `updRoot_idem`, `read_fresh*`).  Here (property theorems only; helpers in `Bt.Proofs.BalancedRun`):

    (5) `btLoop_append_only`, `btRun_append_only` and the program instances: the part of a run over dates all
        later than `t` changes no recorded row of any node at any index `≤ t`, and no series changes its length.
        These instantiate `P04.btLoop_frozen` (`C04.post_rows_frozen`), i.e. `C04.public_rows_frozen` day by day,
        and carry ITS exception exactly: the notional row of the two hedge kinds is zero-filled entirely by
        `HedgeSecurity.update` (`P08.RowOK … true`: "unchanged or 0"), so the statement in terms of entries needs
        the invariant `P08.HedgeZero` (hedge notional rows all zero — true of every freshly set-up tree and kept by
        the engine), while `P08.Frozen` states it without.
    (6) `btDay_update_idem` / `btRun_update_idem`: the pass for a date (the whole run) ends with `root.update(d)`,
        and any number of further `root.update(d)` is the identity — under `0 < TOL` and `P08.NoDust` of the
        RESULTING tree only (no position strictly between 0 and `TOL`; C08's `updNode_idem_false_with_dust` shows it
        is needed).  `btDay_reads_fresh` / `btRun_reads_fresh`: the returned world has nothing pending
        (`stale = false`), so a refreshing read is the identity and ANY getter read leaves every strategy of the
        tree unchanged and nothing pending (`P01R.SameStrats`; a security getter may run that security's own
        local refresh).

    Publicness is `P04.RunPublic` (C04's notion); it is needed for (5) only — (6) holds for any algo function. -/
set_option linter.unusedSectionVars false
namespace Bt.C08
open Bt Bt.P02 Bt.P01R

variable {K : Type} [Field K] [LinearOrder K] [IsStrictOrderedRing K] [HasFloor K]

/-! ### (5) append-only along the run -/

/-- **`btLoop_append_only`.**  The loop over dates all later than `t` (in particular: increasing dates all later
    than the clocks of `w`, `t` the last of those) with public algos: same tree shape, every recorded row list of
    every node keeps its length and its entries at every index `≤ t` (`Frozen`; hedge notional rows may be
    zero-filled); `rowLens` is unchanged (no series grows); and with `HedgeZero` every recorded entry of every
    node at every index `≤ t` is unchanged. -/
theorem btLoop_append_only (cfg : Cfg K) (run : RunFn K) (hpub : P04.RunPublic cfg run) (t : Nat) (ds : List Nat)
    (hds : ∀ d ∈ ds, t < d) (w w' : World K) (h : btLoop cfg run ds w = .ok w') :
    P08.Frozen (t < ·) w.root w'.root ∧ P08.rowLens w'.root = P08.rowLens w.root ∧
    (P08.HedgeZero w.root → ∀ j, j ≤ t → P08.rowsAt j w'.root = P08.rowsAt j w.root) := by
  have hf := P04.btLoop_frozen hpub ds hds w w' h
  exact ⟨hf, hf.rowLens_eq, fun hz j hj => hf.rowsAt_eq hz (Nat.not_lt.2 hj)⟩

example : ∃ w', btLoop DEx.cfg0 DEx.run [2] DEx.w0 = .ok w' ∧ P08.rowsAt 1 w'.root = P08.rowsAt 1 DEx.w0.root ∧
    P08.rowsAt 0 w'.root = P08.rowsAt 0 DEx.w0.root ∧ P08.rowLens w'.root = P08.rowLens DEx.w0.root :=
  let ⟨w', h, _⟩ := Ex.check_ok (x := btLoop DEx.cfg0 DEx.run [2] DEx.w0) (p := fun _ => true) (by decide +kernel)
  let t := btLoop_append_only DEx.cfg0 DEx.run DEx.run_public 1 [2] (by decide) _ w' h
  ⟨w', h, t.2.2 REx.w0_hedgeZero 1 (le_refl 1), t.2.2 REx.w0_hedgeZero 0 (by decide), t.2.1⟩

/-- … in the form "every index before the first date of the loop", for increasing dates -/
theorem btLoop_append_only_first (cfg : Cfg K) (run : RunFn K) (hpub : P04.RunPublic cfg run) (d1 : Nat)
    (ds : List Nat) (hinc : Increasing d1 ds) (w w' : World K) (hz : P08.HedgeZero w.root)
    (h : btLoop cfg run (d1 :: ds) w = .ok w') :
    (∀ j, j < d1 → P08.rowsAt j w'.root = P08.rowsAt j w.root) ∧ P08.rowLens w'.root = P08.rowLens w.root := by
  refine ⟨fun j hj => ?_, (btLoop_sameRows hpub _ _ _ h).rowLens_eq⟩
  have hds : ∀ d ∈ d1 :: ds, j < d := by
    intro d hd
    rcases List.mem_cons.1 hd with rfl | hd
    · exact hj
    · exact lt_trans hj (increasing_lt ds d1 hinc d hd)
  exact (btLoop_append_only cfg run hpub j (d1 :: ds) hds w w' h).2.2 hz j (le_refl j)

example : ∃ w', btLoop DEx.cfg0 DEx.run [2] DEx.w0 = .ok w' ∧
    (∀ j, j < 2 → P08.rowsAt j w'.root = P08.rowsAt j DEx.w0.root) :=
  let ⟨w', h, _⟩ := Ex.check_ok (x := btLoop DEx.cfg0 DEx.run [2] DEx.w0) (p := fun _ => true) (by decide +kernel)
  ⟨w', h, (btLoop_append_only_first DEx.cfg0 DEx.run DEx.run_public 2 [] trivial _ w' REx.w0_hedgeZero h).1⟩

/-- **`btRun_append_only`.**  `Backtest.run` over `d0 :: (pre ++ post)` with `post` all later than `t`: with `wm`
    the result of the run over the prefix `d0 :: pre`, the rest of the run changes no recorded row at any index
    `≤ t`; and over the whole run no series changes its length. -/
theorem btRun_append_only (cfg : Cfg K) (run : RunFn K) (hpub : P04.RunPublic cfg run) (capital : K) (t d0 : Nat)
    (pre post : List Nat) (hpost : ∀ d ∈ post, t < d) (w0 wN : World K)
    (h : btRun cfg run capital (d0 :: (pre ++ post)) w0 = .ok wN) :
    ∃ wm, btRun cfg run capital (d0 :: pre) w0 = .ok wm ∧ btLoop cfg run post wm = .ok wN ∧
      P08.Frozen (t < ·) wm.root wN.root ∧ P08.rowLens wN.root = P08.rowLens w0.root ∧
      (P08.HedgeZero w0.root → ∀ j, j ≤ t → P08.rowsAt j wN.root = P08.rowsAt j wm.root) := by
  have hl := (btRun_sameRows hpub h).rowLens_eq
  rw [P09.btRun_prefix] at h
  obtain ⟨wm, hm, h2⟩ := P08.bind_eq_ok h
  obtain ⟨a, _, c⟩ := btLoop_append_only cfg run hpub t post hpost wm wN h2
  exact ⟨wm, hm, h2, a, hl, fun hz => c (btRun_hedgeZero hpub hm hz)⟩

/-- the tree of plain functions: what the run over `[0, 1]` recorded at index 1 is untouched by rows 2 and 3 -/
example : ∃ wm wN, btRun REx.cfg0 (Prog.treeRunG REx.gtreeR []) 1000 [0, 1, 2, 3] REx.wPar = .ok wN ∧
    btRun REx.cfg0 (Prog.treeRunG REx.gtreeR []) 1000 [0, 1] REx.wPar = .ok wm ∧
    P08.rowsAt 1 wN.root = P08.rowsAt 1 wm.root ∧ P08.rowLens wN.root = P08.rowLens REx.wPar.root := by
  obtain ⟨wN, h, _⟩ := Ex.check_ok (x := btRun REx.cfg0 (Prog.treeRunG REx.gtreeR []) 1000 [0, 1, 2, 3] REx.wPar)
    (p := fun _ => true) (by decide +kernel)
  obtain ⟨wm, hm, _, _, hl, hr⟩ := btRun_append_only REx.cfg0 _ (PProgX.treeRunG_public04 _ [] REx.gtreeR_public)
    1000 1 0 [1] [2, 3] (by decide) REx.wPar wN h
  exact ⟨wm, wN, h, hm, hr REx.wPar_hedgeZero 1 (le_refl 1), hl⟩

/-- **program instances**: no hypothesis on the algos -/
theorem prog_backtest_append_only (cfg : Cfg K) (tr : Prog.ProgTree K) (capital : K) (t d0 : Nat)
    (pre post : List Nat) (hpost : ∀ d ∈ post, t < d) (w0 wN : World K)
    (h : Prog.backtest cfg tr capital (d0 :: (pre ++ post)) w0 = .ok wN) :
    ∃ wm, Prog.backtest cfg tr capital (d0 :: pre) w0 = .ok wm ∧
      btLoop cfg (Prog.treeRun cfg tr []) post wm = .ok wN ∧
      P08.Frozen (t < ·) wm.root wN.root ∧ P08.rowLens wN.root = P08.rowLens w0.root ∧
      (P08.HedgeZero w0.root → ∀ j, j ≤ t → P08.rowsAt j wN.root = P08.rowsAt j wm.root) :=
  btRun_append_only cfg _ (PProg.treeRun_public tr []) capital t d0 pre post hpost w0 wN h

/-- the nested program: what the run over `[0, 1]` recorded at indices 0 and 1 is still there after rows 2 and 3 -/
example : ∃ wm wN, Prog.backtest REx.cfg0 PProg.treeParE 1000 [0, 1, 2, 3] REx.wPar = .ok wN ∧
    Prog.backtest REx.cfg0 PProg.treeParE 1000 [0, 1] REx.wPar = .ok wm ∧
    P08.rowsAt 1 wN.root = P08.rowsAt 1 wm.root ∧ P08.rowsAt 0 wN.root = P08.rowsAt 0 wm.root ∧
    P08.rowLens wN.root = P08.rowLens REx.wPar.root := by
  obtain ⟨wN, h, _⟩ := Ex.check_ok (x := Prog.backtest REx.cfg0 PProg.treeParE 1000 [0, 1, 2, 3] REx.wPar)
    (p := fun _ => true) (by decide +kernel)
  obtain ⟨wm, hm, _, _, hl, hr⟩ := prog_backtest_append_only REx.cfg0 PProg.treeParE 1000 1 0 [1] [2, 3]
    (by decide) REx.wPar wN h
  exact ⟨wm, wN, h, hm, hr REx.wPar_hedgeZero 1 (le_refl 1), hr REx.wPar_hedgeZero 0 (by decide), hl⟩

theorem gtree_backtest_append_only (cfg : Cfg K) (tr : Prog.GTree K)
    (hp : PProgX.AllNodes (P04.RunPublic cfg) tr []) (capital : K) (t d0 : Nat)
    (pre post : List Nat) (hpost : ∀ d ∈ post, t < d) (w0 wN : World K)
    (h : btRun cfg (Prog.treeRunG tr []) capital (d0 :: (pre ++ post)) w0 = .ok wN) :
    ∃ wm, btRun cfg (Prog.treeRunG tr []) capital (d0 :: pre) w0 = .ok wm ∧
      btLoop cfg (Prog.treeRunG tr []) post wm = .ok wN ∧
      P08.Frozen (t < ·) wm.root wN.root ∧ P08.rowLens wN.root = P08.rowLens w0.root ∧
      (P08.HedgeZero w0.root → ∀ j, j ≤ t → P08.rowsAt j wN.root = P08.rowsAt j wm.root) :=
  btRun_append_only cfg _ (PProgX.treeRunG_public04 tr [] hp) capital t d0 pre post hpost w0 wN h

example : ∃ wm wN, btRun REx.cfg0 (Prog.treeRunG REx.gtreeR []) 1000 [0, 1, 2, 3] REx.wPar = .ok wN ∧
    btRun REx.cfg0 (Prog.treeRunG REx.gtreeR []) 1000 [0, 1, 2] REx.wPar = .ok wm ∧
    P08.rowsAt 2 wN.root = P08.rowsAt 2 wm.root := by
  obtain ⟨wN, h, _⟩ := Ex.check_ok (x := btRun REx.cfg0 (Prog.treeRunG REx.gtreeR []) 1000 [0, 1, 2, 3] REx.wPar)
    (p := fun _ => true) (by decide +kernel)
  obtain ⟨wm, hm, _, _, _, hr⟩ := gtree_backtest_append_only REx.cfg0 REx.gtreeR REx.gtreeR_public 1000 2 0 [1, 2] [3]
    (by decide) REx.wPar wN h
  exact ⟨wm, wN, h, hm, hr REx.wPar_hedgeZero 2 (le_refl 2)⟩

/-! ### (6) after the run: updates are idempotent, reads are fresh -/

/-- **`btDay_update_idem`.**  The pass for date `d` ends with a `root.update(d)`; `k` further ones in a row change
    nothing — "reading after the run" returns "the state as it is".  Any algo function. -/
theorem btDay_update_idem (cfg : Cfg K) (htol : 0 < cfg.tol) (run : RunFn K) (d : Nat) (w0 w2 : World K)
    (hnd : P08.NoDust cfg w2.root) (h : btDay cfg run d w0 = .ok w2) (k : Nat) :
    updRoot cfg d w2 = .ok w2 ∧ P08.updRootN cfg d k w2 = .ok w2 := by
  obtain ⟨wl, hl⟩ := btDay_last_update h
  have := updRoot_idem_out htol hnd hl
  exact ⟨this, P08.updRootN_fixed this k⟩

/-- date 2 on `DEx.w0` with `TOL = 10⁻⁶`: three more updates change nothing -/
example : ∃ w2, btDay LEx.cfg REx.runL 2 DEx.w0 = .ok w2 ∧ P08.updRootN LEx.cfg 2 3 w2 = .ok w2 := by
  obtain ⟨w2, h, hp⟩ := Ex.check_ok (x := btDay LEx.cfg REx.runL 2 DEx.w0)
    (p := fun w2 => REx.noDustB LEx.cfg w2.root) (by decide +kernel)
  exact ⟨w2, h, (btDay_update_idem LEx.cfg (by decide +kernel) REx.runL 2 _ w2
    (REx.noDustB_sound _ _ hp) h 3).2⟩

/-- … for the whole run: `Backtest.run` ends with `root.update(last date)` -/
theorem btRun_update_idem (cfg : Cfg K) (htol : 0 < cfg.tol) (run : RunFn K) (capital : K) (d0 : Nat)
    (ds : List Nat) (w0 wN : World K) (hnd : P08.NoDust cfg wN.root)
    (h : btRun cfg run capital (d0 :: ds) w0 = .ok wN) (k : Nat) :
    P08.updRootN cfg (lastDate d0 ds) k wN = .ok wN := by
  obtain ⟨wl, hl⟩ := btRun_last_update h
  exact P08.updRootN_fixed (updRoot_idem_out htol hnd hl) k

example : ∃ wN, Prog.backtest PProg.cfgE PProg.treeParE 1000 [0, 1, 2, 3] PProg.wParE = .ok wN ∧
    P08.updRootN PProg.cfgE 3 2 wN = .ok wN := by
  obtain ⟨wN, h, hp⟩ := Ex.check_ok (x := Prog.backtest PProg.cfgE PProg.treeParE 1000 [0, 1, 2, 3] PProg.wParE)
    (p := fun wN => REx.noDustB PProg.cfgE wN.root) (by decide +kernel)
  exact ⟨wN, h, btRun_update_idem PProg.cfgE (by decide +kernel) _ 1000 0 [1, 2, 3] _ wN
    (REx.noDustB_sound _ _ hp) h 2⟩

/-- **`btDay_reads_fresh`.**  The world returned by the pass for a date has nothing pending; hence a refreshing
    read (`value`, `weight`, `notional_value`, `price`, `prices`, …) of any node is the identity, and ANY getter
    read of any node leaves every strategy of the tree exactly as it is and nothing pending. -/
theorem btDay_reads_fresh (cfg : Cfg K) (run : RunFn K) (d : Nat) (w0 w2 : World K)
    (h : btDay cfg run d w0 = .ok w2) :
    w2.stale = false ∧ (∀ path, opRead cfg w2 path .stratRefreshing = .ok w2) ∧
    (∀ path g w3, opRead cfg w2 path g = .ok w3 → SameStrats w2.root w3.root ∧ w3.stale = false) := by
  obtain ⟨wl, hl⟩ := btDay_last_update h
  have hs := P08.updRoot_stale hl
  exact ⟨hs, fun path => read_fresh_id cfg w2 path hs, fun path g w3 hr => opRead_sameStrats hs hr⟩

/-- reading the series of security `a` (path `[0]`) after date 2: the root is what it was -/
example : ∃ w2 w3, btDay DEx.cfg0 DEx.run 2 DEx.w0 = .ok w2 ∧ opRead DEx.cfg0 w2 [0] .secSeries = .ok w3 ∧
    SameStrats w2.root w3.root ∧ w3.stale = false ∧ w2.stale = false := by
  obtain ⟨⟨w2, w3⟩, h, _⟩ := Ex.check_ok
    (x := (btDay DEx.cfg0 DEx.run 2 DEx.w0).bind fun w2 => (opRead DEx.cfg0 w2 [0] .secSeries).map fun w3 => (w2, w3))
    (p := fun _ => true) (by decide +kernel)
  obtain ⟨w2', h2, h⟩ := P08.bind_eq_ok h
  obtain ⟨w3', h3, he⟩ := P08.map_eq_ok h
  cases he
  obtain ⟨a, _, c⟩ := btDay_reads_fresh DEx.cfg0 DEx.run 2 _ w2 h2
  exact ⟨w2, w3, h2, h3, (c [0] .secSeries w3 h3).1, (c [0] .secSeries w3 h3).2, a⟩

/-- … for the whole run -/
theorem btRun_reads_fresh (cfg : Cfg K) (run : RunFn K) (capital : K) (d0 : Nat) (ds : List Nat) (w0 wN : World K)
    (h : btRun cfg run capital (d0 :: ds) w0 = .ok wN) :
    wN.stale = false ∧ (∀ path, opRead cfg wN path .stratRefreshing = .ok wN) ∧
    (∀ path g w3, opRead cfg wN path g = .ok w3 → SameStrats wN.root w3.root ∧ w3.stale = false) := by
  obtain ⟨wl, hl⟩ := btRun_last_update h
  have hs := P08.updRoot_stale hl
  exact ⟨hs, fun path => read_fresh_id cfg wN path hs, fun path g w3 hr => opRead_sameStrats hs hr⟩

example : ∃ wN, btRun REx.cfg0 (Prog.treeRunG REx.gtreeR []) 1000 [0, 1, 2, 3] REx.wPar = .ok wN ∧
    wN.stale = false ∧ opRead REx.cfg0 wN [0] .stratRefreshing = .ok wN :=
  let ⟨wN, h, _⟩ := Ex.check_ok (x := btRun REx.cfg0 (Prog.treeRunG REx.gtreeR []) 1000 [0, 1, 2, 3] REx.wPar)
    (p := fun _ => true) (by decide +kernel)
  let t := btRun_reads_fresh REx.cfg0 _ 1000 0 [1, 2, 3] _ wN h
  ⟨wN, h, t.1, t.2.1 [0]⟩

/-- what `SameStrats` says at the root: the strategy's data are equal -/
theorem sameStrats_root (n n' : Node K) (h : SameStrats n n') (sd : StratData K) (kids : List (Node K))
    (hn : n = .strat sd kids) : ∃ kids', n' = .strat sd kids' := by
  subst hn
  cases n' with
  | sec s => simp [SameStrats] at h
  | strat sd' kids' =>
    simp only [SameStrats, P04.lift_strat] at h
    exact ⟨kids', by rw [h.1]⟩

example : ∃ kids', (Node.strat DEx.root [] : Node Rat) = .strat DEx.root kids' :=
  sameStrats_root _ _ (sameStrats_refl _) _ _ rfl

end Bt.C08
