import Bt.Proofs.Program
import Bt.Proofs.ProgramEx
import Bt.Props.C09
import Bt.Driver.Program
/-! C09 for whole programs — **the shadow copy of a program is the stand-alone backtest of that program, for EVERY
    program** (calendar schedulers, counting schedulers `RunOnce` / `RunEveryNPeriods` / `RunAfterDays`, gates open on
    any row: there is no hypothesis on the gates).

    `Bt.Prog.Sim` (`Bt/Algos/Program.lean`) is a running backtest: the tree, its programs, and for every
    sub-strategy (by path) the shadow copy `setup` made of it — itself a `Sim` (a backtest of the same definition on
    the same data, already funded with the code's 1 000 000; it carries its own shadow copies: papers inside
    papers).  On the first date of the data nobody's algos run: `Backtest.run` only updates its tree, and
    `StrategyBase.update` only updates a shadow copy when `inow == 0` (`simDay0`, recursively through the copies of the
    copies).  On every later date `simDay` steps every shadow copy with the full loop body, writes its price into the
    child's `paperPx`, then runs the loop body on the tree itself.  `simShadow (d0 :: ds)` = `simDay0 d0` then `simLoop ds`
    is what happens to a shadow copy during its owner's run; `simRun` is `Backtest.run()`; the model is executed end to
    end against the real code on nested programs (protocol `whole-run`).

    The chain: (1) [facts about closed gates, no longer needed as hypotheses]; (2) funding a definition and stepping
    it as a shadow copy is its stand-alone `simRun` — at any nesting, by the shape of the two drivers alone;
    (3) inside a parent's backtest every shadow copy evolves by its own stepping only, hence ends as the stand-alone
    backtest of its definition; (4) the price the parent reads, shows and records for the child is that copy's
    price.  Helper lemmas: `Bt.Proofs.Program` (namespace `Bt.PProg`).

    (Before the repair of `StrategyBase.update` a shadow copy was run on the first date too; (2)–(4) then carried the
    hypotheses `gateClosed d0 t`, `NoDust`, `0 < TOL`, and were false for a sub-strategy headed by `RunOnce`.) -/
set_option linter.unusedSectionVars false
namespace Bt.C09
open Bt Bt.Prog Bt.PProg

variable {K : Type} [Field K] [LinearOrder K] [IsStrictOrderedRing K] [HasFloor K]

/-! ### (1) closed gates (facts about `Strategy.run()`; since the repair not a hypothesis of (2)–(4)) -/

/-- a stack whose scheduler answers False at row `d` leaves the tree as it is -/
theorem progRun_gate_closed (cfg : Cfg K) (p : Prog K) (path : List Nat) (d : Nat) (w : World K)
    (h : p.gate.getD d false = false) : progRun cfg p path d w = .ok w :=
  PProg.progRun_gate_closed p path d w h

example (w : World Rat) : progRun cfgE progE [] 0 w = .ok w ∧ progRun cfgE progE [] 2 w = .ok w ∧
    progE.gate.getD 1 false = true :=
  ⟨progRun_gate_closed cfgE progE [] 0 w rfl, progRun_gate_closed cfgE progE [] 2 w rfl, rfl⟩

/-- `gateClosed d t`: every program of the tree `t` (own stack and all descendants') has its gate closed at `d` -/
theorem gateClosed_iff (d : Nat) (p : Prog K) (kids : List (Option (ProgTree K))) :
    gateClosed d (.node p kids) = true ↔ p.gate.getD d false = false ∧ gateClosedL d kids = true := by
  rw [gateClosed_node, Bool.and_eq_true]; simp

example : gateClosed 0 treeParE = true ∧ gateClosed 2 treeParE = true ∧ gateClosed 1 treeParE = false := by
  decide +kernel

/-- with every gate of the tree closed at `d`, `Strategy.run()` of the whole tree is the identity -/
theorem treeRun_gate_closed (cfg : Cfg K) (tr : ProgTree K) (path : List Nat) (d : Nat) (w : World K)
    (h : gateClosed d tr = true) : treeRun cfg tr path d w = .ok w :=
  PProg.treeRun_gate_closed tr path w h

example (w : World Rat) : treeRun cfgE treeParE [] 0 w = .ok w :=
  treeRun_gate_closed cfgE treeParE [] 0 w (by decide +kernel)

open Bt.Sched Bt.Cal in
/-- **what the calendar schedulers guarantee on the synthetic row** (`Bt.C12.index0_false`): the gate column the
    whole-run driver computes from `RunDaily … RunYearly` (any flags) over a strictly increasing index is closed at
    row 0 … -/
theorem calendar_gate_closed_row0 (k : PeriodKind) (f : Flags) (s0 : Stamp) (rest : List Stamp)
    (hs : StrictInc (s0 :: rest)) : (Bt.Driver.gateOf k f (s0 :: rest)).getD 0 false = false := by
  simp [Bt.Driver.gateOf, C12.index0_false k f s0 rest hs]

open Bt.Sched Bt.Cal in
/-- … hence a tree all of whose stacks are headed by a calendar scheduler has every gate closed on the first date
    of the data -/
theorem calendar_gates_closed (s0 : Stamp) (rest : List Stamp) (hs : StrictInc (s0 :: rest)) (tr : ProgTree K)
    (h : AllProgs (fun p => ∃ k f, p.gate = Bt.Driver.gateOf k f (s0 :: rest)) tr) : gateClosed 0 tr = true := by
  refine gateClosed_of_allProgs tr ?_
  have key : ∀ p : Prog K, (∃ k f, p.gate = Bt.Driver.gateOf k f (s0 :: rest)) → p.gate.getD 0 false = false := by
    rintro p ⟨k, f, hp⟩; rw [hp]; exact calendar_gate_closed_row0 k f s0 rest hs
  exact allProgs_mono key tr h

/-- RunMonthly over `C12.sampleIdx`: silent on the synthetic row (27 Dec 2012) -/
example : (Bt.Driver.gateOf .monthly C12.startMode C12.sampleIdx).getD 0 false = false := by
  have h := C12.sampleIdx_strictInc
  unfold C12.sampleIdx at h ⊢
  exact calendar_gate_closed_row0 .monthly C12.startMode _ _ h

/-! ### (2) funding a definition and stepping it as a shadow copy is its stand-alone backtest -/

/-- a leaf definition (no sub-strategies) as a `Sim` is `Prog.backtest` -/
theorem simRun_leaf_eq_backtest (cfg : Cfg K) (c : K) (t : ProgTree K) (dates : List Nat) (w0 : World K) :
    simRun cfg c dates (.mk w0 t []) = (Prog.backtest cfg t c dates w0).map fun w => Sim.mk w t [] :=
  simRun_leaf c t dates w0

example : simRun cfgE 1000000 [0, 1, 2, 3] simSubE =
    (Prog.backtest cfgE treeSubE 1000000 [0, 1, 2, 3] wSubE).map fun w => Sim.mk w treeSubE [] :=
  simRun_leaf_eq_backtest cfgE 1000000 treeSubE [0, 1, 2, 3] wSubE

/-! #### programs that act on their first call: a `RunOnce` sub-strategy under a parent, and a gate open on row 0 -/

/-- `[RunOnce, SelectThese [y, x], WeighSpecified, Rebalance]`: the gate the driver computes for `RunOnce` - silent on
    the dummy row 0 (nobody calls it there), True on the first real date, False ever after -/
def progOnceE : Prog Rat := { progSubE with gate := [false, true, false, false] }
def treeOnceE : ProgTree Rat := .node progOnceE [none, none]
def simOnceE : Sim Rat := .mk wSubE treeOnceE []
/-- the parent of `ProgramEx` with the `RunOnce` sub-strategy in place of `sub` -/
def treeParOnceE : ProgTree Rat := .node progParE [some treeOnceE, none]
def simParOnceE : Sim Rat := .mk wParE treeParOnceE [([0], .mk wSubF treeOnceE [])]
/-- a definition whose gate is open on EVERY row, the dummy row 0 included -/
def treeOpenE : ProgTree Rat := .node { progSubE with gate := [true, true, true, true] } [none, none]

example : gateClosed 1 treeOnceE = false ∧ gateClosed 0 treeOpenE = false := by decide +kernel

/-- **Leaf case — every program.**  `w0`, `t`: a definition without sub-strategies after `setup` (tree and programs).
    Funding it with `c` and stepping it as a shadow copy over the dates `d0 :: ds` — updated on `d0`, the full loop body
    on every later date — is the stand-alone `Backtest.run` of the same definition: the same final `Sim` or the same
    error.  No hypothesis on the gates (`RunOnce`, `RunEveryNPeriods`, `RunAfterDays`, a gate open on `d0`: all covered),
    none on the tree, none on `TOL`. -/
theorem sim_paper_eq_standalone (cfg : Cfg K) (c : K) (d0 : Nat) (ds : List Nat)
    (w0 : World K) (t : ProgTree K) :
    (opAdjust w0 [] c true true).bind (fun w1 => simShadow cfg (d0 :: ds) (.mk w1 t [])) =
      simRun cfg c (d0 :: ds) (.mk w0 t []) :=
  simShadow_funded_eq_simRun c d0 ds w0 t []

theorem wSubE_noDust : P08.NoDust cfgE wSubE.root := by
  simp only [wSubE, P08.noDust_strat, P08.noDust_sec, P08.NoDustL]
  decide +kernel

/-- the sub-strategy's definition: shadow copy and stand-alone backtest end in the same state; the index is
    100, 100, 98.75, 108.75 -/
example : ∃ S', simShadow cfgE [0, 1, 2, 3] (.mk wSubF treeSubE []) = .ok S' ∧
    simRun cfgE 1000000 [0, 1, 2, 3] simSubE = .ok S' ∧ S'.world.price = 435 / 4 ∧
    rPriceAt S'.world [] = [100, 100, 395 / 4, 435 / 4] := by
  have h1 : (simRun cfgE 1000000 [0, 1, 2, 3] simSubE).toOption.map
      (fun S => (S.world.price, rPriceAt S.world [])) = some (435 / 4, [100, 100, 395 / 4, 435 / 4]) := by
    decide +kernel
  obtain ⟨S', hS, hv⟩ := P16.exists_of_toOption_map h1
  simp only [Prod.mk.injEq] at hv
  refine ⟨S', ?_, hS, hv.1, hv.2⟩
  have e := sim_paper_eq_standalone cfgE 1000000 0 [1, 2, 3] wSubE treeSubE
  rw [wSubF_funded, P08.bind_ok] at e
  exact e.trans hS

/-- **a `RunOnce` definition** (gate open on the first real date, closed afterwards): its shadow copy and its
    stand-alone backtest end in the same state - it trades once, on row 1, in both; index 100, 100, 98.75, 108.75 -/
example : ∃ S', simShadow cfgE [0, 1, 2, 3] (.mk wSubF treeOnceE []) = .ok S' ∧
    simRun cfgE 1000000 [0, 1, 2, 3] simOnceE = .ok S' ∧
    rPriceAt S'.world [] = [100, 100, 395 / 4, 435 / 4] := by
  have h1 : (simRun cfgE 1000000 [0, 1, 2, 3] simOnceE).toOption.map
      (fun S => rPriceAt S.world []) = some [100, 100, 395 / 4, 435 / 4] := by
    decide +kernel
  obtain ⟨S', hS, hv⟩ := P16.exists_of_toOption_map h1
  refine ⟨S', ?_, hS, hv⟩
  have e := sim_paper_eq_standalone cfgE 1000000 0 [1, 2, 3] wSubE treeOnceE
  rw [wSubF_funded, P08.bind_ok] at e
  exact e.trans hS

/-- **a gate open on the dummy row itself**: still the same `Except` value on both sides - nobody runs on row 0,
    neither in the shadow copy nor in the stand-alone backtest (the statement needs no evaluation at all) -/
example : (opAdjust wSubE [] 1000000 true true).bind (fun w1 => simShadow cfgE [0, 1, 2, 3] (.mk w1 treeOpenE [])) =
    simRun cfgE 1000000 [0, 1, 2, 3] (.mk wSubE treeOpenE []) :=
  sim_paper_eq_standalone cfgE 1000000 0 [1, 2, 3] wSubE treeOpenE

/-- **Any nesting** (papers inside papers), **every program**.  The same with the definition carrying its own shadow
    copies `papers` (arbitrary `Sim`s at arbitrary paths, themselves nested to any depth): they are stepped identically
    on both sides, so no hypothesis on them is needed - and none on the definition's own tree either.  Each of the
    inner copies is in turn covered by this theorem (and `sim_shadow_is_standalone`) one level down. -/
theorem sim_paper_eq_standalone_nested (cfg : Cfg K) (c : K) (d0 : Nat) (ds : List Nat)
    (w0 : World K) (t : ProgTree K) (papers : List (List Nat × Sim K)) :
    (opAdjust w0 [] c true true).bind (fun w1 => simShadow cfg (d0 :: ds) (.mk w1 t papers)) =
      simRun cfg c (d0 :: ds) (.mk w0 t papers) :=
  simShadow_funded_eq_simRun c d0 ds w0 t papers

/-- what `simShadow` is: an update of the tree and of all its shadow copies on the first date, the loop after -/
theorem simShadow_unfold (cfg : Cfg K) (d0 : Nat) (ds : List Nat) (s : Sim K) :
    simShadow cfg (d0 :: ds) s = (simDay0 cfg d0 s).bind (simLoop cfg ds) := rfl

theorem wParE_noDust : P08.NoDust cfgE wParE.root := by
  simp only [wParE, P08.noDust_strat, P08.noDust_sec, P08.NoDustL]
  decide +kernel

/-- the parent definition (with the shadow copy of `sub` inside) used itself as somebody's shadow copy -/
example : (opAdjust wParE [] 1000 true true).bind
      (fun w1 => simShadow cfgE [0, 1, 2, 3] (.mk w1 treeParE [([0], .mk wSubF treeSubE [])])) =
    simRun cfgE 1000 [0, 1, 2, 3] simParE ∧
    (simRun cfgE 1000 [0, 1, 2, 3] simParE).toOption.map (·.world.price) = some (875 / 8) :=
  ⟨sim_paper_eq_standalone_nested cfgE 1000 0 [1, 2, 3] wParE treeParE _, by decide +kernel⟩

/-- **`simShadow` is the run-level stepping of `Bt.Props.C09`.**  `simRun` / `simShadow` take "the first date" structurally
    (the head of the date list), the code and `paperDay` test the row index (`inow == 0`).  For dates `0 :: ds` with row 0
    never again the two coincide: the shadow copy of a leaf definition is `paperLoop` (= `paperUpdates` over any call
    sequence with these clock dates, `C09.paperUpdates_eq_clock`) of its program's `Strategy.run()`. -/
theorem simShadow_leaf_eq_paperLoop (cfg : Cfg K) (t : ProgTree K) (ds : List Nat) (w : World K)
    (hpos : ∀ d ∈ ds, d ≠ 0) :
    simShadow cfg (0 :: ds) (.mk w t []) =
      (paperLoop cfg (treeRun cfg t []) (0 :: ds) w).map fun w2 => Sim.mk w2 t [] :=
  simShadow_leaf t ds w hpos

example : simShadow cfgE [0, 1, 2, 3] (.mk wSubF treeOnceE []) =
    (paperLoop cfgE (treeRun cfgE treeOnceE []) [0, 1, 2, 3] wSubF).map fun w2 => Sim.mk w2 treeOnceE [] :=
  simShadow_leaf_eq_paperLoop cfgE treeOnceE [1, 2, 3] wSubF (by decide)

/-- the stand-alone run over a prefix of the dates is the state the whole run passes through (date for date) -/
theorem simRun_prefix (cfg : Cfg K) (c : K) (d0 : Nat) (ds1 ds2 : List Nat) (s : Sim K) :
    simRun cfg c (d0 :: (ds1 ++ ds2)) s = (simRun cfg c (d0 :: ds1) s).bind (simLoop cfg ds2) :=
  PProg.simRun_prefix c d0 ds1 ds2 s

example : simRun cfgE 1000 [0, 1, 2, 3] simParE = (simRun cfgE 1000 [0, 1, 2] simParE).bind (simLoop cfgE [3]) :=
  simRun_prefix cfgE 1000 0 [1, 2] [3] simParE

/-! ### (3) inside a parent's backtest every shadow copy is the stand-alone backtest of its definition -/

/-- whatever the parent's tree, programs, capital and trades are, each of its shadow copies is stepped by its own
    `simShadow` over all the dates (updated on the first, the loop body on the others), and keeps its path -/
theorem sim_papers_independent (cfg : Cfg K) (C : K) (d0 : Nat) (ds : List Nat) (W : World K) (T : ProgTree K)
    (ps : List (List Nat × Sim K)) (S' : Sim K) (h : simRun cfg C (d0 :: ds) (.mk W T ps) = .ok S') :
    ∃ W' ps', S' = .mk W' T ps' ∧
      List.Forall₂ (fun a b => a.1 = b.1 ∧ simShadow cfg (d0 :: ds) a.2 = .ok b.2) ps ps' :=
  simRun_papers h

/-- **Main theorem — every program.**  A parent's complete backtest (`simRun`, any capital `C`) over the dates
    `d0 :: ds` succeeds with final state `S'`.  Take any of its shadow copies `(q, .mk w1 t qs)` that is the funded copy
    (`opAdjust w0 [] c true true = .ok w1`; the code uses `c = 1 000 000`) of a definition `w0`, `t`, `qs`.
    Then the final state of that shadow copy inside `S'` is exactly the result of the stand-alone `Backtest.run` of the
    definition over the same dates.  Nothing is assumed about the definition (any gates: `RunOnce`, `RunEveryNPeriods`,
    `RunAfterDays` included; any tree), about the parent or about the inner copies `qs`. -/
theorem sim_shadow_is_standalone (cfg : Cfg K) (C c : K) (d0 : Nat) (ds : List Nat)
    (W : World K) (T : ProgTree K) (ps : List (List Nat × Sim K)) (S' : Sim K)
    (h : simRun cfg C (d0 :: ds) (.mk W T ps) = .ok S')
    (q : List Nat) (w0 w1 : World K) (t : ProgTree K) (qs : List (List Nat × Sim K))
    (hmem : (q, Sim.mk w1 t qs) ∈ ps) (hfund : opAdjust w0 [] c true true = .ok w1) :
    ∃ W' ps' s', S' = .mk W' T ps' ∧ (q, s') ∈ ps' ∧ simRun cfg c (d0 :: ds) (.mk w0 t qs) = .ok s' := by
  obtain ⟨W', ps', rfl, f⟩ := simRun_papers h
  obtain ⟨⟨q', s'⟩, hb, hq, hl⟩ := forall₂_mem_left f _ hmem
  cases hq
  refine ⟨W', ps', s', rfl, hb, ?_⟩
  rw [← simShadow_funded_eq_simRun c d0 ds w0 t qs, hfund, P08.bind_ok]
  exact hl

/-- the parent `simParE` (1000 of capital) and its shadow copy of `sub` (funded with 1 000 000): after the parent's
    backtest the copy is the stand-alone backtest of `sub`'s definition — index 108.75 -/
example : ∃ W' ps' s', simRun cfgE 1000 [0, 1, 2, 3] simParE = .ok (.mk W' treeParE ps') ∧ ([0], s') ∈ ps' ∧
    simRun cfgE 1000000 [0, 1, 2, 3] simSubE = .ok s' ∧ s'.world.price = 435 / 4 := by
  have h1 : (simRun cfgE 1000 [0, 1, 2, 3] simParE).toOption.map (fun _ => true) = some true := by
    decide +kernel
  have h2 : (simRun cfgE 1000000 [0, 1, 2, 3] simSubE).toOption.map (·.world.price) = some (435 / 4) := by
    decide +kernel
  obtain ⟨S', hS, -⟩ := P16.exists_of_toOption_map h1
  obtain ⟨W', ps', s', rfl, hm, hs⟩ := sim_shadow_is_standalone cfgE 1000 1000000 0 [1, 2, 3]
    wParE treeParE _ S' hS [0] wSubE wSubF treeSubE [] (List.mem_singleton.2 rfl) wSubF_funded
  obtain ⟨s2, hs2, hv⟩ := P16.exists_of_toOption_map h2
  have hs' : simRun cfgE 1000000 [0, 1, 2, 3] simSubE = .ok s' := hs
  rw [hs'] at hs2
  cases hs2
  exact ⟨W', ps', s', hS, hm, hs', hv⟩

/-! ### (4) the child's price is the shadow copy's price -/

/-- `C09.child_price_is_paper_price` at any depth: `update(d)` of any tree leaves every paper-traded strategy of the
    tree (at any path `p`) with the price its shadow copy reports (`paperPx`) as its own price, recorded at row `d` -/
theorem update_shows_paper_price (cfg : Cfg K) (d : Nat) (n n' : Node K) (p : List Nat) (sd : StratData K)
    (kk : List (Node K)) (h : updNode cfg d n = .ok n') (hg : n.get? p = some (.strat sd kk))
    (hp : sd.paperTrade = true) :
    ∃ sd' kk', n'.get? p = some (.strat sd' kk') ∧ sd'.price = sd.paperPx ∧
      (d < sd'.rPrice.length → sd'.rPrice[d]? = some sd.paperPx) := by
  obtain ⟨sd', kk', g1, -, -, g4, g5⟩ := updNode_paperAt (px := sd.paperPx) p n n' h ⟨sd, kk, hg, hp, rfl⟩
  exact ⟨sd', kk', g1, g4, g5⟩

example : ∃ n', updNode cfgE 1 wParE.root = .ok n' ∧
    ((n'.get? [0]).map fun k => match k with | .strat sd _ => (sd.price, sd.rPrice) | _ => (0, [])) =
      some (100, [0, 100, 0, 0]) := by
  have h1 : (updNode cfgE 1 wParE.root).toOption.map (fun n' =>
      (n'.get? [0]).map fun k => match k with | .strat sd _ => (sd.price, sd.rPrice) | _ => (0, [])) =
      some (some (100, [0, 100, 0, 0])) := by decide +kernel
  obtain ⟨n', hn, hv⟩ := P16.exists_of_toOption_map h1
  exact ⟨n', hn, hv⟩

/-- **One date.**  In `simDay` (the paths of the shadow copies being distinct) every shadow copy `(q, s)` is stepped
    to `s'` by its own `simDay`, `s'`'s price is written into the child's `paperPx` before the root's update, and at
    the end of the day — whatever the parent's algos did, liquidation of the parent included — the paper-traded
    strategy at `q` shows `s'.world.price` as its price and has it recorded at row `d`. -/
theorem sim_child_price (cfg : Cfg K) (d : Nat) (w : World K) (t : ProgTree K) (papers : List (List Nat × Sim K))
    (S' : Sim K) (h : simDay cfg d (.mk w t papers) = .ok S') (hnd : (papers.map (·.1)).Nodup) :
    ∃ w' papers', S' = .mk w' t papers' ∧
      List.Forall₂ (fun a b => a.1 = b.1 ∧ simDay cfg d a.2 = .ok b.2) papers papers' ∧
      ∀ q s', (q, s') ∈ papers' → ∀ sd kk, w.root.get? q = some (.strat sd kk) → sd.paperTrade = true →
        ∃ sd' kk', w'.root.get? q = some (.strat sd' kk') ∧ sd'.price = s'.world.price ∧
          sd'.paperPx = s'.world.price ∧ (d < sd'.rPrice.length → sd'.rPrice[d]? = some s'.world.price) := by
  obtain ⟨w', papers', rfl, f, hp⟩ := simDay_child_price h hnd
  refine ⟨w', papers', rfl, f, fun q s' hm sd kk hg hpt => ?_⟩
  obtain ⟨sd', kk', g1, -, g3, g4, g5⟩ := hp q s' hm (paperT_iff.2 ⟨sd, kk, hg, hpt⟩)
  exact ⟨sd', kk', g1, g4, g3, g5⟩

/-- **Whole backtest: the sub-strategy's index is the stand-alone index — every program.**  Setting of
    `sim_shadow_is_standalone`, the paths of the parent's shadow copies distinct, the strategy at `q` in the parent's tree
    paper-traded.  After the parent's backtest over `d0 :: ds` the strategy at `q` shows as its price, and has recorded at
    the last date, the final price of the stand-alone backtest of its definition over the same dates.  (For the other
    dates apply the theorem to the prefixes of `d0 :: ds`: `simRun_prefix`.)  No hypothesis on the gates of the
    sub-strategy's definition. -/
theorem sim_child_index_eq_standalone (cfg : Cfg K) (C c : K) (d0 : Nat) (ds : List Nat)
    (W : World K) (T : ProgTree K) (ps : List (List Nat × Sim K)) (S' : Sim K)
    (h : simRun cfg C (d0 :: ds) (.mk W T ps) = .ok S') (hnodup : (ps.map (·.1)).Nodup)
    (q : List Nat) (w0 w1 : World K) (t : ProgTree K) (qs : List (List Nat × Sim K))
    (hmem : (q, Sim.mk w1 t qs) ∈ ps) (hfund : opAdjust w0 [] c true true = .ok w1)
    (sd : StratData K) (kk : List (Node K)) (hq : W.root.get? q = some (.strat sd kk))
    (hpt : sd.paperTrade = true) :
    ∃ W' ps' s', S' = .mk W' T ps' ∧ simRun cfg c (d0 :: ds) (.mk w0 t qs) = .ok s' ∧
      ∃ sd' kk', W'.root.get? q = some (.strat sd' kk') ∧ sd'.price = s'.world.price ∧
        (ds.getLastD d0 < sd'.rPrice.length → sd'.rPrice[ds.getLastD d0]? = some s'.world.price) := by
  obtain ⟨W', ps', s', rfl, hm, hs⟩ :=
    sim_shadow_is_standalone cfg C c d0 ds W T ps S' h q w0 w1 t qs hmem hfund
  obtain ⟨W2, ps2, e, hp⟩ := simRun_child_price h hnodup
  cases e
  obtain ⟨sd', kk', g1, -, -, g4, g5⟩ := hp q s' hm (paperT_iff.2 ⟨sd, kk, hq, hpt⟩)
  exact ⟨W', ps', s', rfl, hs, sd', kk', g1, g4, g5⟩

/-- **a `RunOnce` sub-strategy under a parent**: the theorem applies (no gate hypothesis), and evaluated: the price
    series the parent records for the child is the stand-alone index of the `RunOnce` definition, date for date -
    the child did trade (on row 1), its index moves: 100, 100, 98.75, 108.75 -/
example (S' : Sim Rat) (h : simRun cfgE 1000 (0 :: [1, 2, 3]) simParOnceE = .ok S') :
    ∃ W' ps' s', S' = .mk W' treeParOnceE ps' ∧ simRun cfgE 1000000 (0 :: [1, 2, 3]) simOnceE = .ok s' ∧
      ∃ sd' kk', W'.root.get? [0] = some (.strat sd' kk') ∧ sd'.price = s'.world.price ∧
        (3 < sd'.rPrice.length → sd'.rPrice[3]? = some s'.world.price) :=
  sim_child_index_eq_standalone cfgE 1000 1000000 0 [1, 2, 3] wParE treeParOnceE _ S' h (by decide) [0] wSubE wSubF
    treeOnceE [] (List.mem_singleton.2 rfl) wSubF_funded (stratE "sub" true) [.sec xE, .sec yE] rfl rfl

example : (simRun cfgE 1000 [0, 1, 2, 3] simParOnceE).toOption.map (fun S => rPriceAt S.world [0]) =
      (simRun cfgE 1000000 [0, 1, 2, 3] simOnceE).toOption.map (fun S => rPriceAt S.world []) ∧
    (simRun cfgE 1000000 [0, 1, 2, 3] simOnceE).toOption.map (fun S => rPriceAt S.world []) =
      some [100, 100, 395 / 4, 435 / 4] := by
  decide +kernel

/-- the parent `simParE` over the prefixes `[0,1,2]` and `[0,1,2,3]` of the dates: the price series recorded for the
    child `sub` is 100, 100, 98.75, 108.75 — the stand-alone index of `sub`'s definition, date for date — while the
    parent's own index is 100, 100, 99.375, 109.375 -/
example : (simRun cfgE 1000 [0, 1, 2] simParE).toOption.map (fun S => (rPriceAt S.world [0]).take 3) =
      (simRun cfgE 1000000 [0, 1, 2] simSubE).toOption.map (fun S => (rPriceAt S.world []).take 3) ∧
    (simRun cfgE 1000 [0, 1, 2, 3] simParE).toOption.map (fun S => rPriceAt S.world [0]) =
      (simRun cfgE 1000000 [0, 1, 2, 3] simSubE).toOption.map (fun S => rPriceAt S.world []) ∧
    (simRun cfgE 1000 [0, 1, 2, 3] simParE).toOption.map (fun S => (rPriceAt S.world [0], rPriceAt S.world [])) =
      some ([100, 100, 395 / 4, 435 / 4], [100, 100, 795 / 8, 875 / 8]) := by
  decide +kernel

end Bt.C09
