import Bt.Proofs.Raises
/-! C10 — well-formed runs complete, ill-formed states raise (property theorems only; helper lemmas,
    the certificates `RaisesAt` / `WF` / `WFS` and the concrete data live in `Bt.Proofs.Raises`).

    The model returns `Except Err`.  Part 1: one theorem per ill-formed class, each giving the exact
    error.  Part 2/3: the well-formed side — `update`, `transact`, `allocate` return `ok`.  Numbers of the
    model are elements of an ordered field, so "finite" is "no error" (`finite_by_construction`). -/
set_option linter.unusedSectionVars false
namespace Bt.C10
open Bt Bt.Alloc Bt.Raises

variable {K : Type} [Field K] [LinearOrder K] [IsStrictOrderedRing K] [HasFloor K]

/-! ## 1. ill-formed states raise -/

/-- `SecurityBase.update(d)` that is not the early return (`now == d` and position unchanged), reads a
    missing price (the cell of the new date, or the stored price on a same-date refresh) and holds a
    non-negligible position raises "position is open and price is NaN" — not ok, not another error. -/
theorem nan_price_open_raises (cfg : Cfg K) (d : Nat) (s : SecData K)
    (he : secEarly d s = false) (hp : (secDateChange d s).price = none)
    (hz : isZero cfg.tol s.position = false) :
    secUpdate cfg d s = .error Err.nanPriceOpenPosition :=
  secUpdate_nan_open cfg d s he hp hz

example : secEarly 1 nanSec = false ∧ (secDateChange 1 nanSec).price = none ∧
    isZero cfgQ.tol nanSec.position = false := by decide +kernel

/-- The usual case: the date changes and the price cell of the new date is NaN. -/
theorem nan_price_open_raises_new_date (cfg : Cfg K) (d : Nat) (s : SecData K)
    (hn : s.now ≠ some d) (hp : cell s.prices d = none) (hz : isZero cfg.tol s.position = false) :
    secUpdate cfg d s = .error Err.nanPriceOpenPosition := by
  apply secUpdate_nan_open cfg d s _ _ hz
  · unfold secEarly; simp [hn]
  · rw [secDateChange_price, if_neg hn]; exact hp

example : nanSec.now ≠ some 1 ∧ cell nanSec.prices 1 = none ∧
    isZero cfgQ.tol nanSec.position = false := by decide +kernel

/-- Error propagation through the children loop of `StrategyBase.update`: if the children before `k`
    update normally and `k` raises `e` at its turn (`kidStep`), the loop raises `e`. -/
theorem updKids_error_of_child_error (cfg : Cfg K) (d : Nat) (newpt bo : Bool)
    (pre post : List (Node K)) (k : Node K) (acc : Acc K) (r : List (Node K) × Acc K) (e : Err)
    (hpre : updKids cfg d newpt bo pre acc = .ok r)
    (hk : kidStep cfg d newpt bo k r.2 = .error e) :
    updKids cfg d newpt bo (pre ++ k :: post) acc = .error e :=
  Raises.updKids_error_of_child_error cfg d newpt bo pre post k acc r e hpre hk

example : (updKids cfgQ 1 true false [.sec goodSec] ⟨100, 0, 0, 0⟩).toBool = true ∧
    (kidStep cfgQ 1 true false (.sec nanSec) ⟨320, 220, 0, 0⟩).toBool = false := by decide +kernel

/-- A strategy one of whose visited (`needupdate`) securities has a NaN price on an open position,
    the children before it updating normally, raises that error from its children loop — whatever
    follows, whatever the accumulators. -/
theorem nan_price_open_raises_kids (cfg : Cfg K) (d : Nat) (newpt bo : Bool)
    (pre post : List (Node K)) (s : SecData K) (acc : Acc K) (r : List (Node K) × Acc K)
    (hpre : updKids cfg d newpt bo pre acc = .ok r) (hv : s.needupdate = true)
    (he : secEarly d s = false) (hp : (secDateChange d s).price = none)
    (hz : isZero cfg.tol s.position = false) :
    updKids cfg d newpt bo (pre ++ .sec s :: post) acc = .error Err.nanPriceOpenPosition :=
  Raises.updKids_error_of_child_error cfg d newpt bo pre post _ acc r _ hpre
    (kidStep_sec_error cfg d newpt bo s r.2 _ hv (secUpdate_nan_open cfg d s he hp hz))

example : (updKids cfgQ 1 true false [.sec goodSec] ⟨100, 0, 0, 0⟩).toBool = true ∧
    nanSec.needupdate = true ∧ secEarly 1 nanSec = false ∧ (secDateChange 1 nanSec).price = none ∧
    isZero cfgQ.tol nanSec.position = false := by decide +kernel

/-- Lift to trees of any shape and depth: a raise certificate (`RaisesAt`: a path down to a visited
    security whose own update raises `e`, or to a strategy whose index write raises, the children before
    the path updating normally at every level) makes `update` of the whole node raise `e`. -/
theorem update_error_propagates (cfg : Cfg K) (d : Nat) (e : Err) (n : Node K)
    (h : RaisesAt cfg d e n) : updNode cfg d n = .error e :=
  updNode_error_of_raisesAt cfg d e n h

example : RaisesAt cfgQ 1 Err.nanPriceOpenPosition
    (.strat (stratQ false 100 300 300 0)
      ([.sec goodSec] ++ .strat (stratQ false 50 50 50 0) ([] ++ .sec nanSec :: []) :: [.sec goodSec])) := by
  refine RaisesAt.child_of_WF cfgQ 1 _ _ _ _ _ ?_ rfl
    (RaisesAt.child_of_WF cfgQ 1 _ _ _ _ _ (fun _ h => by cases h) (by decide +kernel)
      (RaisesAt.sec _ (secUpdate_nan_open cfgQ 1 nanSec (by decide +kernel) (by decide +kernel)
        (by decide +kernel))))
  intro k hk _
  rw [List.mem_singleton] at hk; subst hk
  exact WF.sec _ ⟨Or.inr (Or.inl ⟨11, by decide +kernel⟩), (fun h => by cases h)⟩

/-- The certificate for the NaN-price class: anywhere below strategies whose earlier children are
    well-formed (`WF`), a visited security with an open position and a missing price. Two levels here;
    `RaisesAt.child_of_WF` adds as many as wanted. -/
theorem nan_price_open_raises_tree (cfg : Cfg K) (d : Nat) (sd sd' : StratData K)
    (pre post pre' post' : List (Node K)) (s : SecData K)
    (hpre : ∀ k ∈ pre, k.skipped = false → WF cfg d k)
    (hpre' : ∀ k ∈ pre', k.skipped = false → WF cfg d k)
    (hv : s.needupdate = true) (he : secEarly d s = false) (hp : (secDateChange d s).price = none)
    (hz : isZero cfg.tol s.position = false) :
    updNode cfg d (.strat sd (pre ++ .strat sd' (pre' ++ .sec s :: post') :: post)) =
      .error Err.nanPriceOpenPosition := by
  apply updNode_error_of_raisesAt
  apply RaisesAt.child_of_WF cfg d _ sd pre post _ hpre rfl
  apply RaisesAt.child_of_WF cfg d _ sd' pre' post' _ hpre' (by simp [Node.skipped, hv])
  exact RaisesAt.sec s (secUpdate_nan_open cfg d s he hp hz)

example : (∀ k ∈ [Node.sec goodSec], k.skipped = false → WF cfgQ 1 k) ∧
    nanSec.needupdate = true ∧ secEarly 1 nanSec = false ∧ (secDateChange 1 nanSec).price = none ∧
    isZero cfgQ.tol nanSec.position = false := by
  refine ⟨?_, by decide +kernel⟩
  intro k hk _
  rw [List.mem_singleton] at hk; subst hk
  exact WF.sec _ ⟨Or.inr (Or.inl ⟨11, by decide +kernel⟩), fun h => by cases h⟩

/-- `root.update` raises the error of its first failing child too (the failure precedes the
    bankruptcy test). -/
theorem update_error_propagates_root (cfg : Cfg K) (d : Nat) (e : Err) (sd : StratData K)
    (pre post : List (Node K)) (k : Node K) (st : Bool)
    (hpre : ∀ k' ∈ pre, k'.skipped = false → WF cfg d k')
    (hsk : k.skipped = false) (hk : RaisesAt cfg d e k) :
    updRoot cfg d { root := .strat sd (pre ++ k :: post), stale := st } = .error e := by
  apply updRoot_error_of_kids_error
  obtain ⟨r, hr⟩ := updKids_ok_of_WF cfg d (stratDateChange d sd).2 (stratDateChange d sd).1.bidofferSet
    pre hpre ⟨(stratDateChange d sd).1.capital, 0, 0, 0⟩
  apply Raises.updKids_error_of_child_error _ _ _ _ _ _ _ _ _ _ hr
  have hn := updNode_error_of_raisesAt cfg d e k hk
  cases k with
  | sec s =>
    rw [updNode_sec] at hn
    have hs : secUpdate cfg d s = .error e := by
      cases h : secUpdate cfg d s with
      | ok s' => rw [h] at hn; cases hn
      | error e' => rw [h] at hn; cases hn; rfl
    exact kidStep_sec_error cfg d _ _ s _ e (by simpa [Node.skipped] using hsk) hs
  | strat sd' ks' => exact kidStep_strat_error cfg d _ _ sd' ks' _ e hn

example : (∀ k' ∈ ([] : List (Node Rat)), k'.skipped = false → WF cfgQ 1 k') ∧
    (Node.sec nanSec).skipped = false ∧ RaisesAt cfgQ 1 Err.nanPriceOpenPosition (.sec nanSec) :=
  ⟨(fun _ h => by cases h), by decide +kernel,
    RaisesAt.sec _ (secUpdate_nan_open cfgQ 1 nanSec (by decide +kernel) (by decide +kernel)
      (by decide +kernel))⟩

/-- `SecurityBase.allocate` of a non-negligible amount on a security whose (refreshed) price is NaN or
    negligible raises "cannot allocate capital to a security with zero / NaN price". The refresh at the
    head of `allocate` comes first: `s1` is the refreshed security. -/
theorem alloc_nan_or_zero_price_raises (cfg : Cfg K) (pn : Option Nat) (comm : K → K → K)
    (s s1 : SecData K) (amount : K) (hr : secRefresh cfg pn s = .ok s1)
    (ha : isZero cfg.tol amount = false)
    (hp : s1.price = none ∨ ∃ p, s1.price = some p ∧ isZero cfg.tol p = true) :
    secAllocate cfg pn comm s amount = .error Err.allocateBadPrice :=
  secAllocate_bad_price cfg pn comm s s1 amount hr ha hp

example : (secRefresh cfgQ (some 1) flatNanSec).toBool = true ∧ isZero cfgQ.tol (1000 : Rat) = false ∧
    ((secRefresh cfgQ (some 1) flatNanSec).map fun s1 => s1.price) = .ok none := by decide +kernel

/-- The same on an up-to-date security (no refresh happens). -/
theorem alloc_nan_or_zero_price_raises_fresh (cfg : Cfg K) (pn : Option Nat) (comm : K → K → K)
    (s : SecData K) (amount : K) (hn : s.needupdate = false) (hnow : s.now = pn)
    (ha : isZero cfg.tol amount = false)
    (hp : s.price = none ∨ ∃ p, s.price = some p ∧ isZero cfg.tol p = true) :
    secAllocate cfg pn comm s amount = .error Err.allocateBadPrice :=
  secAllocate_bad_price cfg pn comm s s amount (secRefresh_noop cfg pn s hn hnow) ha hp

example : (mkSec true 1 (some 0) 0 0 0).needupdate = false ∧ (mkSec true 1 (some 0) 0 0 0).now = some 1 ∧
    isZero cfgQ.tol (1000 : Rat) = false ∧
    ((mkSec true 1 (some 0) 0 0 0).price = none ∨
      ∃ p, (mkSec true 1 (some 0) 0 0 0).price = some p ∧ isZero cfgQ.tol p = true) :=
  ⟨rfl, rfl, by decide +kernel, Or.inr ⟨0, rfl, by decide +kernel⟩⟩

/-- Remark on the order of the checks: when `allocate` has to refresh a security that holds a position
    and whose price is NaN, it is the refresh that raises (`nanPriceOpenPosition`), before the price
    test of `allocate` is reached. -/
theorem alloc_nan_price_open_raises_in_refresh (cfg : Cfg K) (d : Nat) (comm : K → K → K)
    (s : SecData K) (amount : K) (hn : s.needupdate = true ∨ s.now ≠ some d)
    (he : secEarly d s = false) (hp : (secDateChange d s).price = none)
    (hz : isZero cfg.tol s.position = false) :
    secAllocate cfg (some d) comm s amount = .error Err.nanPriceOpenPosition := by
  apply secAllocate_refresh_error
  unfold secRefresh
  have : (s.needupdate || s.now != some d) = true := by
    rcases hn with h | h
    · simp [h]
    · simp [h]
  simp only [this, ↓reduceIte]
  exact secUpdate_nan_open cfg d s he hp hz

example : (nanSec.needupdate = true ∨ nanSec.now ≠ some 1) ∧ secEarly 1 nanSec = false ∧
    (secDateChange 1 nanSec).price = none ∧ isZero cfgQ.tol nanSec.position = false := by
  decide +kernel

/-- `CouponPayingSecurity.update`: the price part went through (`hb`) but the coupon cell of the date is
    NaN while a position is held: raises "position is open and coupon is NaN". -/
theorem nan_coupon_open_raises (cfg : Cfg K) (d : Nat) (s s1 : SecData K)
    (hb : secBaseUpdate cfg d s = .ok s1) (hk : s.kind.isCoupon = true)
    (hc : cell s.coupons d = none) (hz : isZero cfg.tol s.position = false) :
    secUpdate cfg d s = .error Err.nanCouponOpenPosition :=
  secUpdate_nan_coupon cfg d s s1 hb hk hc hz

example : (secBaseUpdate cfgQ 1 nanCpnSec).toBool = true ∧ nanCpnSec.kind.isCoupon = true ∧
    cell nanCpnSec.coupons 1 = none ∧ isZero cfgQ.tol nanCpnSec.position = false := by decide +kernel

/-- The same with the price hypothesis spelled out: the price read is present. -/
theorem nan_coupon_open_raises_priced (cfg : Cfg K) (d : Nat) (s : SecData K) (p : K)
    (hp : (secDateChange d s).price = some p) (hk : s.kind.isCoupon = true)
    (hc : cell s.coupons d = none) (hz : isZero cfg.tol s.position = false) :
    secUpdate cfg d s = .error Err.nanCouponOpenPosition := by
  obtain ⟨s1, hb, _⟩ := secBaseUpdate_ok_of cfg d s (Or.inr (Or.inl ⟨p, hp⟩))
  exact secUpdate_nan_coupon cfg d s s1 hb hk hc hz

example : (secDateChange 1 nanCpnSec).price = some 100 ∧ nanCpnSec.kind.isCoupon = true ∧
    cell nanCpnSec.coupons 1 = none ∧ isZero cfgQ.tol nanCpnSec.position = false := by decide +kernel

/-- Multiplicative index (market-value strategy): base `last_value + net_flows` negligible while the
    value is not: `ZeroDivisionError`. -/
theorem zero_base_nonzero_value_raises (cfg : Cfg K) (sd : StratData K)
    (hb : isZero cfg.tol (sd.lastValue + sd.netFlows) = true) (hv : isZero cfg.tol sd.value = false) :
    mvReturn cfg sd = .error Err.zeroBaseReturn :=
  mvReturn_zero_base cfg sd hb hv

example : isZero cfgQ.tol ((stratQ false 100 100 0 0).lastValue + (stratQ false 100 100 0 0).netFlows) = true ∧
    isZero cfgQ.tol (stratQ false 100 100 0 0).value = false := by decide +kernel

/-- Additive index (fixed-income strategy): last notional and notional both negligible while the P&L is
    not: `ZeroDivisionError`. -/
theorem zero_base_nonzero_value_raises_fi (cfg : Cfg K) (sd : StratData K)
    (hl : isZero cfg.tol sd.lastNotl = true) (hn : isZero cfg.tol sd.notl = true)
    (hv : isZero cfg.tol (sd.value - (sd.lastValue + sd.netFlows)) = false) :
    fiReturn cfg sd = .error Err.zeroBaseReturn :=
  fiReturn_zero_base cfg sd hl hn hv

example : isZero cfgQ.tol (stratQ true 100 100 0 0).lastNotl = true ∧
    isZero cfgQ.tol (stratQ true 100 100 0 0).notl = true ∧
    isZero cfgQ.tol ((stratQ true 100 100 0 0).value -
      ((stratQ true 100 100 0 0).lastValue + (stratQ true 100 100 0 0).netFlows)) = false := by
  decide +kernel

/-- The write step of `StrategyBase.update` raises exactly when `WriteOK` fails — i.e. something is to be
    written and the formula of the strategy's kind has a negligible base with a non-negligible
    numerator — and then the error is `zeroBaseReturn`. -/
theorem zero_base_nonzero_value_raises_write (cfg : Cfg K) (d : Nat) (newpt : Bool) (sd : StratData K)
    (val notl bo : K) :
    stratWrite cfg d newpt sd val notl bo = .error Err.zeroBaseReturn ↔ ¬ WriteOK cfg newpt sd val notl :=
  stratWrite_raises_iff cfg d newpt sd val notl bo

example : ¬ WriteOK cfgQ true (stratQ false 0 0 0 0) 250 0 := by
  intro h
  have := (h (by decide +kernel)).1 rfl
  revert this; decide +kernel

/-- Market-value case of the write step with its hypotheses spelled out. -/
theorem zero_base_nonzero_value_raises_write_mv (cfg : Cfg K) (d : Nat) (sd : StratData K)
    (val notl bo : K) (hf : sd.fixedIncome = false)
    (hb : isZero cfg.tol (sd.lastValue + sd.netFlows) = true) (hv : isZero cfg.tol val = false) :
    stratWrite cfg d true sd val notl bo = .error Err.zeroBaseReturn := by
  rw [stratWrite_raises_iff]
  intro h
  have := (h (by simp [stratChanged])).1 hf
  rw [hb, hv] at this
  rcases this with h | h <;> cases h

example : (stratQ false 0 0 0 0).fixedIncome = false ∧
    isZero cfgQ.tol ((stratQ false 0 0 0 0).lastValue + (stratQ false 0 0 0 0).netFlows) = true ∧
    isZero cfgQ.tol (250 : Rat) = false := by decide +kernel

/-- Lift to `update` of a strategy all of whose children are skipped (flat securities with
    `needupdate = false`): its value is its cash plus the swept coupon cash (`cashValue`), and `update`
    raises `zeroBaseReturn` exactly when the write condition fails for that value. -/
theorem zero_base_nonzero_value_raises_update (cfg : Cfg K) (d : Nat) (sd : StratData K)
    (kids : List (Node K)) (hs : ∀ k ∈ kids, k.skipped = true) :
    updNode cfg d (.strat sd kids) = .error Err.zeroBaseReturn ↔
      ¬ WriteOK cfg (stratDateChange d sd).2 (stratDateChange d sd).1 (cashValue d sd kids) 0 :=
  (updNode_all_skipped_iff cfg d sd kids hs).2

example : (∀ k ∈ [Node.sec { flatNanSec with needupdate := false, capital := 7 }], k.skipped = true) ∧
    cashValue 1 (stratQ false 1000 0 0 1000)
      [Node.sec { flatNanSec with needupdate := false, capital := 7 }] = 1007 := by
  refine ⟨?_, by decide +kernel⟩
  intro k hk
  rw [List.mem_singleton] at hk; subst hk; rfl

/-- The concrete scenario: a market-value strategy whose recorded value is negligible receives cash that
    is never consolidated (no update on that date), then the date changes: the new date starts from base
    `value + 0` and finds `capital` → `ZeroDivisionError`. -/
theorem zero_base_nonzero_value_raises_update_cash (cfg : Cfg K) (d n : Nat) (sd : StratData K)
    (hnow : sd.now = some n) (hd : n ≠ d) (hf : sd.fixedIncome = false)
    (hv : isZero cfg.tol sd.value = true) (hc : isZero cfg.tol sd.capital = false) :
    updNode cfg d (.strat sd []) = .error Err.zeroBaseReturn := by
  rw [(updNode_all_skipped_iff cfg d sd [] (fun _ h => by cases h)).2]
  intro h
  have hcv : cashValue d sd [] = sd.capital := by simp [cashValue, sweptCoupons]
  rw [hcv, stratDateChange_new d n sd hnow hd] at h
  have := (h (by simp [stratChanged])).1 hf
  simp only [add_zero] at this
  rw [hv, hc] at this
  rcases this with h | h <;> cases h

example : (stratQ false 1000 0 0 1000).now = some 0 ∧ (0 : Nat) ≠ 1 ∧
    (stratQ false 1000 0 0 1000).fixedIncome = false ∧
    isZero cfgQ.tol (stratQ false 1000 0 0 1000).value = true ∧
    isZero cfgQ.tol (stratQ false 1000 0 0 1000).capital = false := by decide +kernel

/-- … and the certificates are complete: `update` of a tree raises `e` exactly when there is a
    `RaisesAt` path for `e`. -/
theorem update_raises_iff_certificate (cfg : Cfg K) (d : Nat) (n : Node K) (e : Err) :
    updNode cfg d n = .error e ↔ RaisesAt cfg d e n :=
  updNode_error_iff_raisesAt cfg d n e

example : RaisesAt cfgQ 1 Err.nanCouponOpenPosition
    (.strat (stratQ false 100 300 300 0) [.sec goodSec, .strat (stratQ false 50 50 50 0) [.sec nanCpnSec]]) := by
  rw [← updNode_error_iff_raisesAt]
  have : errOf (updNode cfgQ 1 (.strat (stratQ false 100 300 300 0)
      [.sec goodSec, .strat (stratQ false 50 50 50 0) [.sec nanCpnSec]])) = some Err.nanCouponOpenPosition := by
    decide +kernel
  revert this
  cases updNode cfgQ 1 (.strat (stratQ false 100 300 300 0)
      [.sec goodSec, .strat (stratQ false 50 50 50 0) [.sec nanCpnSec]]) with
  | ok n' => intro h; cases h
  | error e => intro h; cases h; rfl

/-- The zero-base class at any depth: a cash-only market-value sub-strategy in the state of
    `zero_base_nonzero_value_raises_update_cash`, below a strategy whose earlier children are
    well-formed, makes the parent's `update` raise `zeroBaseReturn` (and so on upwards with
    `RaisesAt.child_of_WF`). -/
theorem zero_base_nonzero_value_raises_tree (cfg : Cfg K) (d n : Nat) (sd sd' : StratData K)
    (pre post : List (Node K)) (hpre : ∀ k ∈ pre, k.skipped = false → WF cfg d k)
    (hnow : sd'.now = some n) (hd : n ≠ d) (hf : sd'.fixedIncome = false)
    (hv : isZero cfg.tol sd'.value = true) (hc : isZero cfg.tol sd'.capital = false) :
    updNode cfg d (.strat sd (pre ++ .strat sd' [] :: post)) = .error Err.zeroBaseReturn := by
  apply updNode_error_of_raisesAt
  apply RaisesAt.child_of_WF cfg d _ sd pre post _ hpre rfl
  apply raisesAt_of_updNode_error
  exact zero_base_nonzero_value_raises_update_cash cfg d n sd' hnow hd hf hv hc

example : (∀ k ∈ [Node.sec goodSec], k.skipped = false → WF cfgQ 1 k) ∧
    (stratQ false 1000 0 0 1000).now = some 0 ∧ (0 : Nat) ≠ 1 ∧
    (stratQ false 1000 0 0 1000).fixedIncome = false ∧
    isZero cfgQ.tol (stratQ false 1000 0 0 1000).value = true ∧
    isZero cfgQ.tol (stratQ false 1000 0 0 1000).capital = false := by
  refine ⟨?_, by decide +kernel⟩
  intro k hk _
  rw [List.mem_singleton] at hk; subst hk
  exact WF.sec _ ⟨Or.inr (Or.inl ⟨11, by decide +kernel⟩), (fun h => by cases h)⟩

/-- `transact(q, price=p)` on a security without bid/offer data raises; being an error, no new state
    (position, outlay, parent adjustment) is returned. -/
theorem custom_price_without_bidoffer_raises (cfg : Cfg K) (comm : K → K → K) (s : SecData K) (q p : K)
    (hq : isZero cfg.tol q = false) (hb : s.bidofferSet = false) :
    secTransactCore cfg comm s q (some p) = .error Err.customPriceNoBidOffer :=
  secTransactCore_custom_no_bidoffer cfg comm s q p hq hb

example : isZero cfgQ.tol (3 : Rat) = false ∧ goodSec.bidofferSet = false := by decide +kernel

/-- The same through the public entry point (which refreshes the security first): the refresh does not
    change `bidofferSet`. -/
theorem custom_price_without_bidoffer_raises_transact (cfg : Cfg K) (pn : Option Nat) (comm : K → K → K)
    (s s1 : SecData K) (q p : K) (hr : secRefresh cfg pn s = .ok s1)
    (hq : isZero cfg.tol q = false) (hb : s.bidofferSet = false) :
    secTransact cfg pn comm s q true (some p) = .error Err.customPriceNoBidOffer := by
  rw [secTransact_of_refresh cfg pn comm s s1 q _ hr]
  exact secTransactCore_custom_no_bidoffer cfg comm s1 q p hq
    (by rw [(secRefresh_same cfg pn s s1 hr).bidofferSet]; exact hb)

example : (secRefresh cfgQ (some 1) goodSec).toBool = true ∧ isZero cfgQ.tol (3 : Rat) = false ∧
    goodSec.bidofferSet = false := by decide +kernel

/-- A trade at a NaN price is not silent in the model: `secTransactCore` returns `Err.nanData`, never a
    state.  NOTE: the real code does NOT raise here — `outlay` computes `q * NaN` and `transact` books
    the NaN into the parent's cash (the books are poisoned, later `is_zero` tests are all false).  The
    model has no NaN; its error stands for "NaN entered the books", and the correspondence check
    compares it with "a NaN appeared in the real state". -/
theorem transact_nan_price_is_not_silent (cfg : Cfg K) (comm : K → K → K) (s : SecData K) (q : K)
    (custom : Option K) (hq : isZero cfg.tol q = false)
    (hc : custom.isSome = true → s.bidofferSet = true) (hp : s.price = none) :
    secTransactCore cfg comm s q custom = .error Err.nanData :=
  secTransactCore_price_none cfg comm s q custom hq hc hp

example : isZero cfgQ.tol (3 : Rat) = false ∧
    ((none : Option Rat).isSome = true → (mkSec true 1 none 0 0 0).bidofferSet = true) ∧
    (mkSec true 1 none 0 0 0).price = none := ⟨by decide +kernel, (fun h => by cases h), rfl⟩

/-- Likewise a NaN bid/offer cell (no custom price). -/
theorem transact_nan_bidoffer_is_not_silent (cfg : Cfg K) (comm : K → K → K) (s : SecData K) (q : K)
    (hq : isZero cfg.tol q = false) (hb : s.bidoffer = none) :
    secTransactCore cfg comm s q none = .error Err.nanData :=
  secTransactCore_bidoffer_none cfg comm s q hq hb

example : isZero cfgQ.tol (3 : Rat) = false ∧
    ({ goodSec with bidoffer := none } : SecData Rat).bidoffer = none := ⟨by decide +kernel, rfl⟩

/-- A missing holding-cost cell on a held coupon-paying position is an error as well (`nanData`; the
    real code would book NaN into the security's capital). -/
theorem nan_holding_cost_is_not_silent (cfg : Cfg K) (d : Nat) (s : SecData K) (col : List (Option K))
    (hc : CouponCellOK cfg d s) (hpos : 0 < s.position) (hl : s.costLong = some col)
    (hcell : cell col d = none) :
    secCouponTail cfg d s = .error Err.nanData :=
  secCouponTail_cost_missing_long cfg d s col hc hpos hl hcell

example : CouponCellOK cfgQ 1 { goodCpnSec with costLong := some [some 1, none] } ∧
    (0 : Rat) < ({ goodCpnSec with costLong := some [some 1, none] } : SecData Rat).position ∧
    cell [some (1 : Rat), none] 1 = none :=
  ⟨Or.inl ⟨1, by decide +kernel⟩, by decide +kernel, by decide +kernel⟩

/-- Closure: for every tree, `update` either completes or raises one of the four enumerated errors
    (NaN price / NaN coupon on an open position, NaN holding cost, zero return base) — there is no other
    failure mode, and in particular never a wrong number recorded instead. -/
theorem update_raises_only_enumerated (cfg : Cfg K) (d : Nat) (n : Node K) (e : Err)
    (h : updNode cfg d n = .error e) : UpdateErr e :=
  updNode_error cfg d n e h

example : (updNode cfgQ 1 (.strat (stratQ false 100 300 300 0) [.sec goodSec, .sec nanSec])).toBool = false := by
  decide +kernel

/-! ## 2. well-formed updates complete -/

/-- `update(d)` of a security returns normally when (`SecOK`) it is the early return, or the price it
    reads is present, or the position is flat; and, for coupon-paying kinds, the coupon cell is present
    (or the position flat) and the holding-cost cell of the side held is present. -/
theorem wellformed_sec_update_ok (cfg : Cfg K) (d : Nat) (s : SecData K) (h : SecOK cfg d s) :
    ∃ s', secUpdate cfg d s = .ok s' ∧ s'.position = s.position :=
  let ⟨s', h1, h2⟩ := secUpdate_ok_of cfg d s h
  ⟨s', h1, h2.position⟩

example : SecOK cfgQ 1 goodCpnSec :=
  ⟨Or.inr (Or.inl ⟨100, by decide +kernel⟩), fun _ =>
    ⟨Or.inl ⟨1, by decide +kernel⟩,
     fun _ col hcol => by
       have : col = [some (1/10), some (1/10), some (1/10)] := by
         have h : goodCpnSec.costLong = some [some (1/10), some (1/10), some (1/10)] := rfl
         rw [h] at hcol; cases hcol; rfl
       subst this; exact ⟨1/10, by decide +kernel⟩,
     fun hneg => absurd hneg (by decide +kernel)⟩⟩

/-- … and only then: `SecOK` is exactly the set of securities on which `update(d)` completes (so every
    security outside it raises one of the errors of part 1). -/
theorem sec_update_ok_iff_wellformed (cfg : Cfg K) (d : Nat) (s : SecData K) :
    (∃ s', secUpdate cfg d s = .ok s') ↔ SecOK cfg d s :=
  secUpdate_ok_iff cfg d s

example : ¬ SecOK cfgQ 1 nanSec ∧ SecOK cfgQ 1 goodSec := by
  constructor
  · rw [← secUpdate_ok_iff, ← isOk_iff]; decide +kernel
  · rw [← secUpdate_ok_iff, ← isOk_iff]; decide +kernel

/-- Well-formed trees update without error, for every shape and depth: every visited security is
    `SecOK`, and at every strategy the write finds a usable base for the totals its children produce
    (`WF`; the guard is about the value the write will see). -/
theorem wellformed_updNode_ok (cfg : Cfg K) (d : Nat) (n : Node K) (h : WF cfg d n) :
    ∃ n', updNode cfg d n = .ok n' :=
  updNode_ok_of_WF cfg d n h

/-- A freshly set-up strategy (`now = none`, everything zero) has no usable base, yet is well-formed:
    the value its write sees is negligible. -/
example : WF cfgQ 1 (.strat { stratQ false 0 0 0 0 with now := none } []) := by
  refine WF.strat _ _ (fun _ h => by cases h) ?_
  intro r hr
  rw [updKids_nil] at hr; cases hr
  intro _
  exact ⟨fun _ => Or.inr (by decide +kernel), (fun h => by cases h)⟩

/-- … and only those: `WF` is exactly the set of trees on which `update(d)` completes. -/
theorem updNode_ok_iff_wellformed (cfg : Cfg K) (d : Nat) (n : Node K) :
    (∃ n', updNode cfg d n = .ok n') ↔ WF cfg d n :=
  updNode_ok_iff_WF cfg d n

example : WF cfgQ 1 (.strat (stratQ false 100 300 300 0) [.sec goodSec, .sec flatNanSec]) ∧
    ¬ WF cfgQ 1 (.strat (stratQ false 100 300 300 0) [.sec goodSec, .sec nanSec]) := by
  constructor
  · rw [← updNode_ok_iff_WF, ← isOk_iff]; decide +kernel
  · rw [← updNode_ok_iff_WF, ← isOk_iff]; decide +kernel

/-- The same with a purely static guard at the strategies (`WFS`): the return base
    (`last_value + net_flows` after the date-change resets, resp. the last notional of a fixed-income
    strategy) is not negligible. -/
theorem wellformed_updNode_ok_static (cfg : Cfg K) (d : Nat) (n : Node K) (h : WFS cfg d n) :
    ∃ n', updNode cfg d n = .ok n' :=
  updNode_ok_of_WF cfg d n (WF_of_WFS cfg d n h)

example : WFS cfgQ 1 (.strat (stratQ false 100 300 300 0)
    [.sec goodSec, .strat (stratQ false 50 50 50 0) [], .sec flatNanSec]) := by
  refine WFS.strat _ _ ?_ ⟨fun _ => by decide +kernel, fun h => by cases h⟩
  intro k hk _
  simp only [List.mem_cons, List.not_mem_nil, or_false] at hk
  rcases hk with rfl | rfl | rfl
  · exact WFS.sec _ ⟨Or.inr (Or.inl ⟨11, by decide +kernel⟩), fun h => by cases h⟩
  · exact WFS.strat _ _ (fun _ h => by cases h) ⟨fun _ => by decide +kernel, fun h => by cases h⟩
  · exact WFS.sec _ ⟨Or.inr (Or.inr (by decide +kernel)), fun h => by cases h⟩

/-- Cash-only strategy (all children skipped; `val = capital` + swept coupons): `update` completes iff
    the write condition holds for that value. -/
theorem wellformed_cash_only_ok_iff (cfg : Cfg K) (d : Nat) (sd : StratData K) (kids : List (Node K))
    (hs : ∀ k ∈ kids, k.skipped = true) :
    (∃ n', updNode cfg d (.strat sd kids) = .ok n') ↔
      WriteOK cfg (stratDateChange d sd).2 (stratDateChange d sd).1 (cashValue d sd kids) 0 :=
  (updNode_all_skipped_iff cfg d sd kids hs).1

example : (∀ k ∈ [Node.sec { flatNanSec with needupdate := false }], k.skipped = true) ∧
    WriteOK cfgQ (stratDateChange 1 (stratQ false 1000 1000 1000 0)).2
      (stratDateChange 1 (stratQ false 1000 1000 1000 0)).1
      (cashValue 1 (stratQ false 1000 1000 1000 0) [Node.sec { flatNanSec with needupdate := false }]) 0 := by
  refine ⟨?_, fun _ => ⟨fun _ => Or.inl (by decide +kernel), (fun h => by cases h)⟩⟩
  intro k hk
  rw [List.mem_singleton] at hk; subst hk; rfl

/-- Simple corollary: a market-value strategy holding cash only, whose recorded value is not
    negligible, moves to a new date without error. -/
theorem wellformed_cash_only_ok (cfg : Cfg K) (d n : Nat) (sd : StratData K)
    (hnow : sd.now = some n) (hd : n ≠ d) (hf : sd.fixedIncome = false)
    (hv : isZero cfg.tol sd.value = false) :
    ∃ n', updNode cfg d (.strat sd []) = .ok n' := by
  rw [(updNode_all_skipped_iff cfg d sd [] (fun _ h => by cases h)).1]
  intro _
  rw [stratDateChange_new d n sd hnow hd]
  refine ⟨fun _ => Or.inl ?_, fun h => ?_⟩
  · simp only [add_zero]; exact hv
  · rw [hf] at h; cases h

example : (stratQ false 1000 1000 1000 0).now = some 0 ∧ (0 : Nat) ≠ 1 ∧
    (stratQ false 1000 1000 1000 0).fixedIncome = false ∧
    isZero cfgQ.tol (stratQ false 1000 1000 1000 0).value = false := by decide +kernel

/-- `root.update` on a well-formed tree whose total is not negative (so the bankruptcy step does not
    trigger) completes, and leaves the tree fresh. -/
theorem wellformed_updRoot_ok (cfg : Cfg K) (d : Nat) (sd : StratData K) (kids : List (Node K))
    (st : Bool) (h : WF cfg d (.strat sd kids))
    (hsolv : ∀ r, updKids cfg d (stratDateChange d sd).2 (stratDateChange d sd).1.bidofferSet kids
        ⟨(stratDateChange d sd).1.capital, 0, 0, 0⟩ = .ok r → 0 ≤ r.2.val + r.2.coupons) :
    ∃ w', updRoot cfg d { root := .strat sd kids, stale := st } = .ok w' ∧ w'.stale = false := by
  obtain ⟨n', hn⟩ := updNode_ok_of_WF cfg d _ h
  cases hk : updKids cfg d (stratDateChange d sd).2 (stratDateChange d sd).1.bidofferSet kids
      ⟨(stratDateChange d sd).1.capital, 0, 0, 0⟩ with
  | error e => rw [updNode_error_of_kids_error cfg d sd kids e hk] at hn; cases hn
  | ok r =>
    have h0 := hsolv r hk
    rw [updRoot_eq_updNode_of_solvent cfg d sd kids st r hk
      (by simp [not_lt.2 h0]), hn]
    exact ⟨_, rfl, rfl⟩

example : WF cfgQ 1 (.strat (stratQ false 100 300 300 0) [.sec goodSec]) ∧
    ((updKids cfgQ 1 true false [.sec goodSec] ⟨100, 0, 0, 0⟩).map fun r =>
      decide (0 ≤ r.2.val + r.2.coupons)) = .ok true := by
  refine ⟨WF_of_WFS _ _ _ (WFS.strat _ _ ?_ ⟨fun _ => by decide +kernel, fun h => by cases h⟩),
    by decide +kernel⟩
  intro k hk _
  rw [List.mem_singleton] at hk; subst hk
  exact WFS.sec _ ⟨Or.inr (Or.inl ⟨11, by decide +kernel⟩), fun h => by cases h⟩

/-! ## 3. well-formed trades complete -/

/-- `transact` (after its refresh) succeeds whenever the price is present, the bid/offer is present
    unless a custom price is given, and a custom price is only used with bid/offer data; a negligible
    quantity is a no-op, otherwise the position moves by exactly `q` and the parent is charged. -/
theorem wellformed_transact_ok (cfg : Cfg K) (comm : K → K → K) (s : SecData K) (q price : K)
    (custom : Option K) (hp : s.price = some price)
    (hb : custom = none → ∃ bo, s.bidoffer = some bo)
    (hc : custom.isSome = true → s.bidofferSet = true) :
    ∃ r, secTransactCore cfg comm s q custom = .ok r ∧
      (isZero cfg.tol q = true → r = (s, none)) ∧
      (isZero cfg.tol q = false → r.1.position = s.position + q ∧ r.2.isSome = true) :=
  secTransactCore_ok_of cfg comm s q price custom hp hb hc

example : goodSec.price = some 10 ∧ (∃ bo, goodSec.bidoffer = some bo) :=
  ⟨rfl, 0, rfl⟩

/-- `allocate` completes for every amount and every position when there is no commission (more
    generally a flat fee `c`), no spread, whole units, a present non-negligible price with
    `price·mult > 0`.
    Partial: the full statement (any "sane" commission function, any spread, fractional units) is FALSE
    of the model and of the code — the sizing search raises for per-unit / proportional / minimum-fee
    commissions and for spreads on whole-unit positions (witnesses `Bt.C05.witness_raise_*`). -/
theorem wellformed_allocate_ok_partial [FloorRing K] (hfloor : ∀ x : K, floorA x = (⌊x⌋ : K))
    (cfg : Cfg K) (pn : Option Nat) (comm : K → K → K) (s s1 : SecData K) (amount p c : K)
    (hr : secRefresh cfg pn s = .ok s1)
    (hatol : 0 ≤ cfg.atol) (htol : 0 < cfg.tol) (hcap : 1 ≤ cfg.iterCap)
    (hint : s1.integer = true) (hp : s1.price = some p) (hpz : isZero cfg.tol p = false)
    (hb : s1.bidoffer = some 0) (hcomm : ∀ q x, comm q x = c) (hP : 0 < p * s1.mult) :
    ∃ r, secAllocate cfg pn comm s amount = .ok r := by
  have hq : ∃ oq, allocQuantity cfg comm s1 amount = .ok oq := by
    rcases allocQuantity_flat_fee hfloor cfg comm s1 amount p c hatol htol hcap hint hp hpz hb hcomm hP
      with h | h | ⟨q', h, _⟩ | ⟨h, _⟩
    · exact ⟨_, h⟩
    · exact ⟨_, h⟩
    · exact ⟨_, h⟩
    · exact ⟨_, h⟩
  obtain ⟨oq, hq⟩ := hq
  exact secAllocate_ok_of cfg pn comm s s1 amount p 0 oq hr hq hp hb

example : (∀ x : Rat, floorA x = ((⌊x⌋ : ℤ) : Rat)) ∧
    (secRefresh cfgQ (some 1) goodSec).toBool = true ∧
    ((secRefresh cfgQ (some 1) goodSec).map fun s1 =>
      (s1.integer, s1.price, s1.bidoffer, decide (0 < 11 * s1.mult))) = .ok (true, some 11, some 0, true) ∧
    (0 : Rat) ≤ cfgQ.atol ∧ (0 : Rat) < cfgQ.tol ∧ 1 ≤ cfgQ.iterCap ∧ isZero cfgQ.tol (11 : Rat) = false :=
  ⟨rat_hfloor, by decide +kernel, by decide +kernel, by decide +kernel, by decide +kernel,
    by decide +kernel, by decide +kernel⟩

/-- Fractional units: `allocate` completes for every amount and position under per-unit costs —
    commission `k·|q|` (per-share `k`, or proportional `r·price·mult`) plus half the spread, together
    `κ` per unit with `0 ≤ κ < price·mult` and `(κ/(price·mult))^(iterCap+1) ≤ TOL` (with the live
    constants: any `κ` up to 99.6 % of the price; `κ = 0` is "no costs").
    Partial for the same reason as above: minimum-fee commissions are not covered, and for whole units
    the statement is false. -/
theorem wellformed_allocate_fractional_ok_partial (cfg : Cfg K) (pn : Option Nat) (comm : K → K → K)
    (s s1 : SecData K) (amount p bo k : K) (hr : secRefresh cfg pn s = .ok s1)
    (hatol : 0 ≤ cfg.atol) (htol : 0 < cfg.tol)
    (hint : s1.integer = false) (hp : s1.price = some p) (hpz : isZero cfg.tol p = false)
    (hb : s1.bidoffer = some bo) (hcomm : ∀ q, comm q (p * s1.mult) = k * |q|)
    (hP : 0 < p * s1.mult) (hκ0 : 0 ≤ k + cfg.half * bo * s1.mult)
    (hκ : k + cfg.half * bo * s1.mult < p * s1.mult)
    (hrate : ((k + cfg.half * bo * s1.mult) / (p * s1.mult)) ^ (cfg.iterCap + 1) ≤ cfg.tol) :
    ∃ r, secAllocate cfg pn comm s amount = .ok r := by
  obtain ⟨oq, hq⟩ := allocQuantity_frac_ok cfg comm s1 amount p bo k hatol htol hint hp hpz hb hcomm hP
    hκ0 hκ hrate
  exact secAllocate_ok_of cfg pn comm s s1 amount p bo oq hr hq hp hb

example : (secRefresh cfgQ (some 1) (mkSec false 1 (some 100) 300 3 1)).toBool = true ∧
    (∀ q : Rat, commPerShare 1 q (100 * (mkSec false 1 (some 100) 300 3 1).mult) = 1 * |q|) ∧
    ((1 + cfgQ.half * 1 * (mkSec false 1 (some 100) 300 3 1).mult)
      / (100 * (mkSec false 1 (some 100) 300 3 1).mult)) ^ (cfgQ.iterCap + 1) ≤ cfgQ.tol := by
  refine ⟨by decide +kernel, ?_, ?_⟩
  · intro q; simp [commPerShare, absA_eq_abs]
  · have h : (1 + cfgQ.half * 1 * (mkSec false 1 (some 100) 300 3 1).mult)
        / (100 * (mkSec false 1 (some 100) 300 3 1).mult) = 3/200 := by norm_num [cfgQ, mkSec]
    have hc : cfgQ.iterCap + 1 = 10 + 9991 := rfl
    have ht : cfgQ.tol = 1/10^16 := rfl
    rw [h, hc, ht, pow_add]
    have h1 : ((3 : Rat)/200) ^ 10 ≤ 1/10^16 := by norm_num
    have h2 : ((3 : Rat)/200) ^ 9991 ≤ 1 := pow_le_one₀ (by norm_num) (by norm_num)
    calc ((3 : Rat)/200) ^ 10 * (3/200) ^ 9991 ≤ (1/10^16) * 1 :=
          mul_le_mul h1 h2 (by positivity) (by positivity)
      _ = 1/10^16 := mul_one _

/-- `allocate` on a security that has no parent strategy raises. -/
theorem parentless_security_raises (cfg : Cfg K) (s : SecData K) (st : Bool) (amount : K) (update : Bool) :
    opAllocate cfg { root := .sec s, stale := st } [] amount update = .error Err.parentlessSecurity := rfl

example : (opAllocate cfgQ { root := .sec goodSec, stale := false } [] 100 true).toBool = false := by
  decide +kernel

/-! ## 4. finiteness -/

/-- Finite by construction: every number the model records is an element of the ordered field `K`, which
    has no NaN and no infinity (each division in the model sits behind the `is_zero` guard of the code
    or raises).  So "records only finite numbers" reduces to "returns `ok`": a result is either a state
    made of field elements, or one of the enumerated errors. -/
theorem finite_by_construction (cfg : Cfg K) (d : Nat) (n : Node K) :
    (∃ n', updNode cfg d n = .ok n') ∨ (∃ e, updNode cfg d n = .error e ∧ UpdateErr e) := by
  cases h : updNode cfg d n with
  | ok n' => exact Or.inl ⟨n', rfl⟩
  | error e => exact Or.inr ⟨e, rfl, updNode_error cfg d n e h⟩

example : (updNode cfgQ 1 (.strat (stratQ false 100 300 300 0) [.sec goodSec])).toBool = true ∧
    (updNode cfgQ 1 (.strat (stratQ false 100 300 300 0) [.sec nanCpnSec])).toBool = false := by
  decide +kernel

/-! ## 5. witnesses: why the hypotheses above are stated the way they are

    (all on the model at `ℚ` with the live constants `cfgQ`) -/

/-- The tree raises the error of the FIRST failing visited child: a bond with a NaN coupon placed before
    the security with the NaN price wins. So "a tree containing a NaN-priced open position raises
    `nanPriceOpenPosition`" needs the premise that the earlier children update normally. -/
theorem witness_first_failing_child_wins :
    errOf (updNode cfgQ 1 (.strat (stratQ false 100 300 300 0) [.sec nanCpnSec, .sec nanSec]))
      = some Err.nanCouponOpenPosition ∧
    errOf (updNode cfgQ 1 (.strat (stratQ false 100 300 300 0) [.sec goodSec, .sec nanSec]))
      = some Err.nanPriceOpenPosition := by
  decide +kernel

/-- The price test of `allocate` is made on the REFRESHED security: a stale NaN price on a security that
    is due for its update to a date with a good price does not raise — the refresh reads 11 and the
    allocation goes through (9 units for 100). Hence `hr` / `s1` in `alloc_nan_or_zero_price_raises`. -/
theorem witness_alloc_stale_nan_price_refreshed :
    ({ goodSec with price := none } : SecData Rat).price = none ∧
    tradeView (secAllocate cfgQ (some 1) commZero { goodSec with price := none } 100)
      = .ok (29, some (-99, 0)) := by
  decide +kernel

/-- On a same-date refresh (`now == d`, position changed) `update` does not re-read the price cell: it
    marks with the stored price. A NaN cell at `d` alone therefore does not make it raise; the
    hypothesis of `nan_price_open_raises` is about the price `update` actually reads
    (`(secDateChange d s).price`). -/
theorem witness_same_date_uses_stored_price :
    cell ({ nanSec with now := some 1, lastPos := 4 } : SecData Rat).prices 1 = none ∧
    secEarly 1 ({ nanSec with now := some 1, lastPos := 4 } : SecData Rat) = false ∧
    ((secUpdate cfgQ 1 { nanSec with now := some 1, lastPos := 4 }).map fun s => s.value) = .ok 50 := by
  decide +kernel

end Bt.C10
