import Bt.Proofs.LedgerTrade
import Bt.Proofs.LedgerNodeEx
import Bt.Props.C07
import Mathlib.Tactic.NormNum
/-! C07 — cash ledger, **per node and per date over whole days and runs** (property theorems only; helper
    lemmas live in `Bt.Proofs.LedgerNode` / `LedgerRun` / `LedgerDay` / `LedgerTrade`, fixtures in `LedgerDayEx`).

    Ledger quantities of the strategy at a path, read from the state (`sd`, `ks` = its data and children):
    * cash `sd.capital`, fees of the date `sd.lastFee`, flows of the date `sd.netFlows`;
    * `outlayKids d ks` = `Σ` over its OWN security children of `outlays[d] + pending accumulator`
      (`secOutlayTot`: `update` flushes the accumulator into `outlays[d]`, so the sum is what stays put);
    * `P07.passedDown ks` = `Σ` over its sub-strategy children of their flows of the date
      (an allocation is booked on the child as a flow and on the parent as a non-flow);
    * `parkedKids ks` = coupons less holding costs parked on its own securities at the earlier date.
    `adjust` calls of a run are listed in `T`; `P07.nonflowIn T q` are the non-flow amounts adjusted directly
    on the node at `q`, `P07.flowIn T q` the flow amounts, `P07.flowInKids T q` flow amounts adjusted directly
    on the sub-strategy children of `q` (flows those children book that the parent did not pay for).

    Non-flow adjustments are **not recorded in any row** (`adjust(flow=False)` only moves `capital`), and
    neither is a flow adjusted directly on a sub-strategy from the parent's point of view; the ledgers below
    therefore carry the explicit terms `nonflowIn` / `flowInKids` (both zero for a run whose `adjust` calls are
    flows on the root, such as the initial capital of `Backtest.run`). -/
namespace Bt.C07
open Bt
set_option linter.unusedSectionVars false

variable {K : Type} [Field K] [LinearOrder K] [IsStrictOrderedRing K] [HasFloor K]

/-! ### (1) the ledger law of one public step and of a run, at a fixed clock -/

/-- `P07.LStep cfg d w T w'` is exactly one call of the public API whose explicit `root.update`, if it is
    one, is at the clock date `d` (`P04.StepC cfg (· = d)`; in particular a `P08.PublicStep`), together with
    the `adjust` call it makes: `T = [⟨path, amount, flow⟩]` for `adjust`, `T = []` for `update`, `allocate`,
    `transact`, `flatten`, `close`, `rebalance` and every refreshing read.  Likewise `P07.LRun` / `P04.RunC`. -/
theorem step_annotated (cfg : Cfg K) (d : Nat) (w w' : World K) :
    (P04.StepC cfg (· = d) w w' ↔ ∃ T, P07.LStep cfg d w T w') ∧
    (P04.RunC cfg (· = d) w w' ↔ ∃ T, P07.LRun cfg d w T w') ∧
    (∀ T, P07.LStep cfg d w T w' → P08.PublicStep cfg w w') ∧
    (∀ T, P07.LRun cfg d w T w' → P08.Run cfg w w') :=
  ⟨⟨P07.LStep.ofC, fun ⟨_, h⟩ => h.toC⟩, ⟨P07.LRun.ofC, fun ⟨_, h⟩ => h.toC⟩,
    fun _ h => h.toC.toPublic, fun _ h => h.toPublic⟩

example : ∃ w', P07.LStep LDx.cfgN 0 LDx.wN [⟨[0], 30, true⟩] w' :=
  ⟨_, .adjust [0] 30 false true rfl⟩

/-- **Ledger law of one public step.**  The world stands on date `d` (`P07.GoodR`: the root is a strategy,
    every strategy's clock is `d`, every security has an `outlays` row `d`).  For EVERY public step — same-date
    `update` (moves nothing), `adjust`, `allocate` / `transact` at any node including into sub-strategies at
    any depth, `flatten`, `close`, `rebalance`, reads — and EVERY strategy node:
    `Δcash = Δflows + receipts − Δ(outlays of own securities) − Δfees − Δ(passed to sub-strategies)`,
    where `Δflows` is what the node received as flows (external flows, allocations from its parent) and
    `receipts` are the amounts of `adjust` calls only: non-flow amounts adjusted on the node itself, and flow
    amounts adjusted directly on one of its children (which raise the child's flows without a debit here).
    The world still stands on `d` afterwards. -/
theorem ledger_step (cfg : Cfg K) (d : Nat) (w w' : World K) (T : List (P07.AdjCall K))
    (hg : P07.GoodR d w.root) (h : P07.LStep cfg d w T w') :
    P07.GoodR d w'.root ∧
    ∀ q sd ks, w.root.get? q = some (.strat sd ks) →
      ∃ sd' ks', w'.root.get? q = some (.strat sd' ks') ∧ sd'.now = sd.now ∧
        sd'.capital - sd.capital =
          (sd'.netFlows - sd.netFlows) + (P07.nonflowIn T q + P07.flowInKids T q)
            - (outlayKids d ks' - outlayKids d ks) - (sd'.lastFee - sd.lastFee)
            - (P07.passedDown ks' - P07.passedDown ks) := by
  obtain ⟨hl, hg', _⟩ := h.ledger hg
  refine ⟨hg', fun q sd ks hq => ?_⟩
  obtain ⟨sd', ks', g, hn, hb⟩ := hl.1 q sd ks hq
  refine ⟨sd', ks', g, hn, ?_⟩
  rw [P07.injSum_eq, P07.bal, P07.bal] at hb
  linear_combination hb

example : P07.GoodR 0 LDx.wN.root ∧ ∃ w', P07.LStep LDx.cfgN 0 LDx.wN [] w' := by
  obtain ⟨w', h⟩ := LDx.alloc0_ok
  exact ⟨LDx.wN_goodR, w', .allocate _ _ _ h⟩

/-- **Ledger law of a run** (`P07.LRun`: any finite sequence of public steps at clock `d`; `T` = its `adjust`
    calls in order), by induction on the run; in addition the root books as flows exactly the flow amounts
    adjusted directly on it. -/
theorem ledger_run (cfg : Cfg K) (d : Nat) (w w' : World K) (T : List (P07.AdjCall K))
    (hg : P07.GoodR d w.root) (h : P07.LRun cfg d w T w') :
    P07.GoodR d w'.root ∧
    (∀ q sd ks, w.root.get? q = some (.strat sd ks) →
      ∃ sd' ks', w'.root.get? q = some (.strat sd' ks') ∧ sd'.now = sd.now ∧
        sd'.capital - sd.capital =
          (sd'.netFlows - sd.netFlows) + (P07.nonflowIn T q + P07.flowInKids T q)
            - (outlayKids d ks' - outlayKids d ks) - (sd'.lastFee - sd.lastFee)
            - (P07.passedDown ks' - P07.passedDown ks)) ∧
    P07.ownFlows w'.root = P07.ownFlows w.root + P07.flowIn T [] := by
  obtain ⟨hl, hg', _⟩ := h.ledger hg
  refine ⟨hg', fun q sd ks hq => ?_, ?_⟩
  · obtain ⟨sd', ks', g, hn, hb⟩ := hl.1 q sd ks hq
    refine ⟨sd', ks', g, hn, ?_⟩
    rw [P07.injSum_eq, P07.bal, P07.bal] at hb
    linear_combination hb
  · rw [← P07.rootFlowIn_eq]; exact (h.flows hg).1

example : P07.GoodR 0 LDx.wN.root ∧ ∃ w', P07.LRun LDx.cfgN 0 LDx.wN LDx.traceN w' ∧
    P07.nonflowIn LDx.traceN [] = 50 ∧ P07.flowInKids LDx.traceN [] = 30 ∧ P07.flowIn LDx.traceN [] = 0 := by
  obtain ⟨w', h⟩ := LDx.run0_ok
  refine ⟨LDx.wN_goodR, w', LDx.runN_lrun h, ?_, ?_, ?_⟩ <;>
    simp [P07.nonflowIn, P07.flowInKids, P07.flowIn, LDx.traceN, P07.childOf]

/-! ### (2) the first `update` of a new date -/

/-- **Opening update.**  The tree stands on earlier dates (`P07.Prev d`: every strategy has a clock, none
    at `d`; every security has an `outlays` row `d`) and `root.update(d)` does not liquidate (bankruptcy flag
    unchanged).  Then for every strategy: its clock is `d`, its cash has grown by exactly the coupons (less
    holding costs) parked on its own security children, its fee and flow accumulators are zero, the outlay
    totals of its own securities for `d` are unchanged and its sub-strategies have no flows yet; every
    security keeps its position and its outlay total.  Nothing else of the ledger moves. -/
theorem opening_update_ledger (cfg : Cfg K) (d : Nat) (w w' : World K) (hp : P07.Prev d w.root)
    (h : updRoot cfg d w = .ok w') (hb : w'.bankrupt = w.bankrupt) :
    (∀ q sd ks, w.root.get? q = some (.strat sd ks) →
      ∃ sd' ks', w'.root.get? q = some (.strat sd' ks') ∧ sd'.now = some d ∧
        sd'.capital = sd.capital + parkedKids ks ∧ sd'.lastFee = 0 ∧ sd'.netFlows = 0 ∧
        outlayKids d ks' = outlayKids d ks ∧ P07.passedDown ks' = 0) ∧
    (∀ q s, w.root.get? q = some (.sec s) →
      ∃ s', w'.root.get? q = some (.sec s') ∧ s'.position = s.position ∧
        secOutlayTot d s' = secOutlayTot d s) := by
  have ho : P07.OpenRel d w.root w'.root := by
    rcases P07.updRoot_open hp h with ho | ⟨h1, h2, _⟩
    · exact ho
    · rw [h1, h2] at hb; cases hb
  refine ⟨fun q sd ks hq => ?_, fun q s hq => ?_⟩
  · obtain ⟨k', hk', hr⟩ := P07.openRel_get? q _ _ _ ho hq
    cases k' with
    | sec s' => simp at hr
    | strat sd' ks' =>
      simp only [P07.openRel_strat] at hr
      obtain ⟨a, b⟩ := P07.openRelL_kids _ _ hr.2.2.2.2
      exact ⟨sd', ks', hk', hr.1, hr.2.1, hr.2.2.1, hr.2.2.2.1, a, b⟩
  · obtain ⟨k', hk', hr⟩ := P07.openRel_get? q _ _ _ ho hq
    cases k' with
    | strat sd' ks' => simp at hr
    | sec s' =>
      simp only [P07.openRel_sec] at hr
      exact ⟨s', hk', hr.2.2, hr.2.1⟩

example : P07.Prev 1 LDx.wN.root ∧ ∃ w', updRoot LDx.cfgN 1 LDx.wN = .ok w' ∧ w'.bankrupt = LDx.wN.bankrupt :=
  ⟨LDx.wN_prev 1 (by decide) (by decide), LDx.open1_ok⟩

/-! ### (3) one day of `Backtest.run`, and the loop -/

/-- **Day ledger (main theorem).**  `run` is public in the sense of `P04.RunPublic`: called at clock `d` it
    is a finite sequence of public API calls whose explicit `root.update`s are at `d`
    (the plain `run d w = .ok w' → P08.Run cfg w w'` would allow an `update` of another date inside `run`,
    which resets the accumulators and breaks the per-date ledger).  The tree stands on earlier dates.
    Over `btDay` (= `update(d); if not bankrupt: run(); update(d)`), for every strategy node at every depth,
    with `T` the `adjust` calls of `run` (`P07.DayTrace` says how the day ran; `T = []` on a bankrupt day):

    `cash(end of d) − cash(end of the earlier date) = swept coupons + flows of d + non-flow adjustments
       (+ flows adjusted directly on its children) − Δ(outlays of own securities for d) − fees of d
       − flows of d of its sub-strategies`,

    all read from the state after the closing update; for the root the flows of `d` are exactly the flow
    amounts adjusted on it (the external flows), for a sub-strategy they are the allocations from its parent
    plus flows adjusted directly on it.  The liquidation of a bankrupt day is included. -/
theorem btDay_ledger (cfg : Cfg K) (run : RunFn K) (hrun : P04.RunPublic cfg run) (d : Nat) (w w' : World K)
    (hp : P07.Prev d w.root) (h : btDay cfg run d w = .ok w') :
    ∃ T, P07.DayTrace cfg run d w T w' ∧ P07.GoodR d w'.root ∧
      ∀ q sd ks, w.root.get? q = some (.strat sd ks) →
        ∃ sd' ks', w'.root.get? q = some (.strat sd' ks') ∧ sd'.now = some d ∧
          sd'.capital - sd.capital =
            parkedKids ks + sd'.netFlows + (P07.nonflowIn T q + P07.flowInKids T q)
              - (outlayKids d ks' - outlayKids d ks) - sd'.lastFee - P07.passedDown ks' ∧
          (q = [] → sd'.netFlows = P07.flowIn T []) :=
  P07.btDay_state hrun hp h

/-- on `wN`: root `735.58 − 1000 = 7 + 0 + (50 + 30) − 120.3 − 1.12 − 230`,
    sub-strategy `30 − 0 = 0 + 230 + 0 − 199 − 1 − 0` -/
example : P04.RunPublic LDx.cfgN LDx.runN ∧ P07.Prev 1 LDx.wN.root ∧
    ∃ w', btDay LDx.cfgN LDx.runN 1 LDx.wN = .ok w' ∧
      LDx.ledgerAt w' [] = some (36779/50, 28/25, 0) ∧ LDx.ledgerAt w' [0] = some (30, 1, 230) ∧
      (36779/50 - 1000 : Rat) = 7 + 0 + (50 + 30) - 1203/10 - 28/25 - 230 ∧
      (30 - 0 : Rat) = 0 + 230 + 0 - 199 - 1 - 0 := by
  obtain ⟨w', h, e1, e2⟩ := LDx.day1_ok
  exact ⟨LDx.runN_public, LDx.wN_prev 1 (by decide) (by decide), w', h, e1, e2, by norm_num, by norm_num⟩

/-- **Day ledger in recorded rows.**  If moreover the securities are tidy (`P07.TidyT`: the pending outlay
    accumulator is consistent with the early-return test of `SecurityBase.update` — true of a fresh tree and
    kept by every operation), all rows have an entry `d` (`P07.RowsLong`) and nothing is recorded or pending
    for `d` yet (`P07.Fresh`), then after the closing update the rows of date `d` hold everything:
    `cash[d] = capital`, `fees[d]`, `flows[d]` are the accumulators, the outlays of the day are entirely in the
    `outlays[d]` rows of the own securities (`P07.rowOutlays`), the flows of the sub-strategies in their
    `flows[d]` (`P07.rowFlows`), the cash rows of other dates are untouched, and

    `cash[d] − cash(end of the earlier date) = swept coupons + flows[d] + non-flow adjustments
        (+ flows adjusted directly on children) − Σ own securities' outlays[d] − fees[d] − Σ sub-strategies' flows[d]`.

    Non-flow adjustments are in no row, hence the explicit term. -/
theorem btDay_ledger_rows (cfg : Cfg K) (run : RunFn K) (hrun : P04.RunPublic cfg run) (d : Nat)
    (w w' : World K) (hp : P07.Prev d w.root) (hrows : P07.RowsLong d w.root) (ht : P07.TidyT w.root)
    (hf : P07.Fresh d w.root) (h : btDay cfg run d w = .ok w') :
    ∃ T, P07.DayTrace cfg run d w T w' ∧
      ∀ q sd ks, w.root.get? q = some (.strat sd ks) →
        ∃ sd' ks', w'.root.get? q = some (.strat sd' ks') ∧
          sd'.rCash[d]? = some sd'.capital ∧ sd'.rFees[d]? = some sd'.lastFee ∧
          sd'.rFlows[d]? = some sd'.netFlows ∧
          outlayKids d ks' = P07.rowOutlays d ks' ∧ P07.passedDown ks' = P07.rowFlows d ks' ∧
          (∀ m, m ≠ d → sd'.rCash[m]? = sd.rCash[m]?) ∧
          sd'.rCash.getD d 0 - sd.capital =
            parkedKids ks + sd'.rFlows.getD d 0 + (P07.nonflowIn T q + P07.flowInKids T q)
              - P07.rowOutlays d ks' - sd'.rFees.getD d 0 - P07.rowFlows d ks' :=
  P07.btDay_rows hrun hp hrows ht hf h

/-- … and with the cash of the earlier date `m` read from its row as well (the tree was closed by an
    update at `m`): `cash[d] − cash[m]` on the recorded series after the day. -/
theorem btDay_ledger_rows_prev (cfg : Cfg K) (run : RunFn K) (hrun : P04.RunPublic cfg run) (m d : Nat)
    (hmd : m ≠ d) (w w' : World K) (hp : P07.Prev d w.root) (hrows : P07.RowsLong d w.root)
    (hrowsm : P07.RowsLong m w.root) (hcl : P07.Closed m w.root) (ht : P07.TidyT w.root)
    (hf : P07.Fresh d w.root) (h : btDay cfg run d w = .ok w') :
    ∃ T, P07.DayTrace cfg run d w T w' ∧
      ∀ q sd ks, w.root.get? q = some (.strat sd ks) →
        ∃ sd' ks', w'.root.get? q = some (.strat sd' ks') ∧
          sd'.rCash.getD d 0 - sd'.rCash.getD m 0 =
            parkedKids ks + sd'.rFlows.getD d 0 + (P07.nonflowIn T q + P07.flowInKids T q)
              - P07.rowOutlays d ks' - sd'.rFees.getD d 0 - P07.rowFlows d ks' := by
  obtain ⟨T, htr, hall⟩ := P07.btDay_rows hrun hp hrows ht hf h
  refine ⟨T, htr, fun q sd ks hq => ?_⟩
  obtain ⟨sd', ks', g, _, _, _, _, _, hm, he⟩ := hall q sd ks hq
  refine ⟨sd', ks', g, ?_⟩
  have hc := P07.closed_get? m q _ _ hcl hq
  have hr := P07.rowsLong_get? m q _ _ hrowsm hq
  simp only [P07.closed_strat, P07.rowsLong_strat] at hc hr
  have : sd'.rCash.getD m 0 = sd.capital := by
    rw [List.getD_eq_getElem?_getD, hm m hmd, hc.1 hr.1]; rfl
  rw [this]; exact he

example : P07.RowsLong 1 LDx.wN.root ∧ P07.TidyT LDx.wN.root ∧ P07.Fresh 1 LDx.wN.root ∧
    (P04.btDayF LDx.cfgN LDx.runN 3 1 LDx.wN).toOption.map (fun w => (LDx.rowsAtN w [], LDx.rowsAtN w [0])) =
      some (some (36779/50, 28/25, 0), some (30, 1, 230)) ∧
    (P04.btDayF LDx.cfgN LDx.runN 3 1 LDx.wN).toOption.map (fun w => (LDx.outlaysAt w [1], LDx.outlaysAt w [0, 0])) =
      some (some (1203/10, 0), some (199, 0)) :=
  ⟨LDx.wN_rows 1 (by decide), LDx.wN_tidy, LDx.wN_fresh 1, LDx.day1_rows, LDx.day1_outlays⟩

/-- **Loop ledger.**  The tree stands on date `m`, the dates `m :: ds` are pairwise distinct and every row
    has an entry for each of them.  Then every date `d` of the loop `for dt in dates[1:]` is a `btDay` from a
    world `wa` (the loop over the dates before `d`) to a world `wb` (from which the loop continues), and that
    day satisfies the day ledger. -/
theorem btLoop_ledger (cfg : Cfg K) (run : RunFn K) (hrun : P04.RunPublic cfg run) (m : Nat) (ds : List Nat)
    (w w' : World K) (hc : P07.Clocked m w.root) (hnd : (m :: ds).Nodup)
    (hrows : ∀ x ∈ ds, P07.RowsLong x w.root) (h : btLoop cfg run ds w = .ok w')
    (pre : List Nat) (d : Nat) (post : List Nat) (hsplit : ds = pre ++ d :: post) :
    ∃ wa wb T, btLoop cfg run pre w = .ok wa ∧ btDay cfg run d wa = .ok wb ∧
      btLoop cfg run post wb = .ok w' ∧ P07.DayTrace cfg run d wa T wb ∧
      ∀ q sd ks, wa.root.get? q = some (.strat sd ks) →
        ∃ sd' ks', wb.root.get? q = some (.strat sd' ks') ∧ sd'.now = some d ∧
          sd'.capital - sd.capital =
            parkedKids ks + sd'.netFlows + (P07.nonflowIn T q + P07.flowInKids T q)
              - (outlayKids d ks' - outlayKids d ks) - sd'.lastFee - P07.passedDown ks' ∧
          (q = [] → sd'.netFlows = P07.flowIn T []) := by
  obtain ⟨wa, wb, e1, e2, e3, e4, _, _, _⟩ := P07.btLoop_days hrun ds m w w' hc hnd hrows h pre d post hsplit
  obtain ⟨T, htr, _, hall⟩ := P07.btDay_state hrun e4 e2
  exact ⟨wa, wb, T, e1, e2, e3, htr, hall⟩

/-- **Loop ledger in recorded rows**: if the initial tree is tidy and has nothing recorded or pending for
    any date of the loop, every day of the loop satisfies the recorded-rows ledger. -/
theorem btLoop_ledger_rows (cfg : Cfg K) (run : RunFn K) (hrun : P04.RunPublic cfg run) (m : Nat)
    (ds : List Nat) (w w' : World K) (hc : P07.Clocked m w.root) (hnd : (m :: ds).Nodup)
    (hrows : ∀ x ∈ ds, P07.RowsLong x w.root) (ht : P07.TidyT w.root) (hf : ∀ x ∈ ds, P07.Fresh x w.root)
    (h : btLoop cfg run ds w = .ok w')
    (pre : List Nat) (d : Nat) (post : List Nat) (hsplit : ds = pre ++ d :: post) :
    ∃ wa wb T, btLoop cfg run pre w = .ok wa ∧ btDay cfg run d wa = .ok wb ∧
      btLoop cfg run post wb = .ok w' ∧ P07.DayTrace cfg run d wa T wb ∧
      ∀ q sd ks, wa.root.get? q = some (.strat sd ks) →
        ∃ sd' ks', wb.root.get? q = some (.strat sd' ks') ∧
          sd'.rCash[d]? = some sd'.capital ∧ sd'.rFees[d]? = some sd'.lastFee ∧
          sd'.rFlows[d]? = some sd'.netFlows ∧
          outlayKids d ks' = P07.rowOutlays d ks' ∧ P07.passedDown ks' = P07.rowFlows d ks' ∧
          (∀ m, m ≠ d → sd'.rCash[m]? = sd.rCash[m]?) ∧
          sd'.rCash.getD d 0 - sd.capital =
            parkedKids ks + sd'.rFlows.getD d 0 + (P07.nonflowIn T q + P07.flowInKids T q)
              - P07.rowOutlays d ks' - sd'.rFees.getD d 0 - P07.rowFlows d ks' := by
  obtain ⟨wa, wb, e1, e2, e3, e4, e5, e6, e7⟩ :=
    P07.btLoop_days hrun ds m w w' hc hnd hrows h pre d post hsplit
  obtain ⟨T, htr, hall⟩ := P07.btDay_rows hrun e4 e5 (e6 ht) (e7 ht hf) e2
  exact ⟨wa, wb, T, e1, e2, e3, htr, hall⟩

example : P07.Clocked 0 LDx.wN.root ∧ ([0, 1, 2] : List Nat).Nodup ∧
    (∀ x ∈ [1, 2], P07.RowsLong x LDx.wN.root) ∧ P07.TidyT LDx.wN.root ∧
    (∀ x ∈ [1, 2], P07.Fresh x LDx.wN.root) ∧ ∃ w', btLoop LDx.cfgN LDx.runN [1, 2] LDx.wN = .ok w' := by
  refine ⟨LDx.wN_clocked, by decide, fun x hx => LDx.wN_rows x ?_, LDx.wN_tidy, fun x _ => LDx.wN_fresh x,
    LDx.loop12_ok⟩
  simp only [List.mem_cons, List.not_mem_nil, or_false] at hx
  omega

/-- **Whole backtest.**  `Backtest.run` = `adjust(initial_capital)`, `update(dates[0])`, then the loop: with
    pairwise distinct dates and rows long enough, every date `d` of `dates[1:]` is a `btDay` satisfying the day
    ledger — no assumption on the clocks of the initial tree (`update(dates[0])` puts every strategy on
    `dates[0]`).  (The initial capital is a flow adjusted on the root before the first update; it is in
    `flows[dates[0]]`.) -/
theorem btRun_ledger (cfg : Cfg K) (run : RunFn K) (hrun : P04.RunPublic cfg run) (c : K) (d0 : Nat)
    (ds : List Nat) (w0 w' : World K) (hnd : (d0 :: ds).Nodup) (hrows : ∀ x ∈ ds, P07.RowsLong x w0.root)
    (h : btRun cfg run c (d0 :: ds) w0 = .ok w')
    (pre : List Nat) (d : Nat) (post : List Nat) (hsplit : ds = pre ++ d :: post) :
    ∃ wa wb T, btDay cfg run d wa = .ok wb ∧ btLoop cfg run post wb = .ok w' ∧
      P07.DayTrace cfg run d wa T wb ∧
      ∀ q sd ks, wa.root.get? q = some (.strat sd ks) →
        ∃ sd' ks', wb.root.get? q = some (.strat sd' ks') ∧ sd'.now = some d ∧
          sd'.capital - sd.capital =
            parkedKids ks + sd'.netFlows + (P07.nonflowIn T q + P07.flowInKids T q)
              - (outlayKids d ks' - outlayKids d ks) - sd'.lastFee - P07.passedDown ks' ∧
          (q = [] → sd'.netFlows = P07.flowIn T []) := by
  obtain ⟨w2, hl, hc, hr⟩ := P07.btRun_loop hrows h
  obtain ⟨wa, wb, T, _, e2, e3, htr, hall⟩ :=
    btLoop_ledger cfg run hrun d0 ds w2 w' hc hnd hr hl pre d post hsplit
  exact ⟨wa, wb, T, e2, e3, htr, hall⟩

example : P04.RunPublic LDx.cfgN LDx.runN ∧ ([0, 1, 2] : List Nat).Nodup ∧
    (∀ x ∈ [1, 2], P07.RowsLong x LDx.wN.root) ∧
    ∃ w', btRun LDx.cfgN LDx.runN 100 [0, 1, 2] LDx.wN = .ok w' := by
  refine ⟨LDx.runN_public, by decide, fun x hx => LDx.wN_rows x ?_, ?_⟩
  · simp only [List.mem_cons, List.not_mem_nil, or_false] at hx
    omega
  · have h0 : (P16.btRunE LDx.cfgN LDx.runN 3 100 [0, 1, 2] LDx.wN).toOption.isSome = true := by
      decide +kernel
    cases h : P16.btRunE LDx.cfgN LDx.runN 3 100 [0, 1, 2] LDx.wN with
    | error e => rw [h] at h0; cases h0
    | ok w' => exact ⟨w', P16.btRunE_sound h⟩

/-! ### (4) a trade is charged once, to the security's own parent, and is never a flow -/

/-- **A `transact(q[, price])` on the security `i` of the strategy at `p`** (any depth): the security is
    refreshed and `SecurityBase.transact` proper runs ONCE, with the parent's commission function
    (`C07.transact_books` / `transact_books_custom` give its outlay `q·p·mult + spread` and fee
    `comm q (p·mult)`).  `P07.ChargedOnce`: the (at most one) adjustment is a non-flow; the security's own
    parent books the amount on cash and the fee on its fee accumulator and nothing else; every other strategy
    keeps all its data; every other security is untouched; no strategy's flows move; and the outlay the
    security records for the date is exactly what the parent paid net of the fee. -/
theorem trade_charged_once (cfg : Cfg K) (w w' : World K) (p : List Nat) (i : Nat) (q : K) (u : Bool)
    (custom : Option K) (sd : StratData K) (ks : List (Node K)) (s : SecData K)
    (hp : w.root.get? p = some (.strat sd ks)) (hk : ks[i]? = some (.sec s))
    (h : opTransact cfg w (p ++ [i]) q u custom = .ok w') :
    ∃ s1 s' oa, secRefresh cfg sd.now s = .ok s1 ∧ secTransactCore cfg sd.comm s1 q custom = .ok (s', oa) ∧
      P07.ChargedOnce w w' p i sd s s' oa :=
  P07.opTransact_sec_once hp hk h

example : ∃ sd ks s w', LDx.wN.root.get? [] = some (.strat sd ks) ∧ ks[1]? = some (.sec s) ∧
    opTransact LDx.cfgN LDx.wN ([] ++ [1]) 3 false none = .ok w' := by
  obtain ⟨w', h⟩ := LDx.trans1_ok
  exact ⟨_, _, _, w', rfl, rfl, h⟩

/-- The same for `allocate(amount)` on a security: the sizing search returns a quantity, at most one trade
    is executed and charged as above. -/
theorem allocate_charged_once (cfg : Cfg K) (w w' : World K) (p : List Nat) (i : Nat) (amount : K) (u : Bool)
    (sd : StratData K) (ks : List (Node K)) (s : SecData K)
    (hp : w.root.get? p = some (.strat sd ks)) (hk : ks[i]? = some (.sec s))
    (h : opAllocate cfg w (p ++ [i]) amount u = .ok w') :
    ∃ s' oa, secAllocate cfg sd.now sd.comm s amount = .ok (s', oa) ∧ P07.ChargedOnce w w' p i sd s s' oa :=
  P07.opAllocate_sec_once hp hk h

example : ∃ sd ks s w', LDx.wN.root.get? [0] = some (.strat sd ks) ∧ ks[0]? = some (.sec s) ∧
    opAllocate LDx.cfgN LDx.wN ([0] ++ [0]) 100 false = .ok w' := by
  have h0 : (opAllocate LDx.cfgN LDx.wN [0, 0] 100 false).toOption.isSome = true := by decide +kernel
  cases h : opAllocate LDx.cfgN LDx.wN [0, 0] 100 false with
  | error e => rw [h] at h0; cases h0
  | ok w' => exact ⟨_, _, _, w', rfl, rfl, h⟩

/-- **Flows are never created by trades.**  In any run at clock `d` the root books as flows exactly the flow
    amounts adjusted directly on it, so all the flows created in the tree (`P07.totalFlows = Σ net_flows` over
    all strategies) are those plus the change of what the strategies passed to their sub-strategies
    (`P07.sumPassed = Σ passedDown`: each internal transfer appears once, as a flow on the child — and, by the
    step law, as a non-flow debit on its parent — together with flows adjusted directly on sub-strategies). -/
theorem flows_created (cfg : Cfg K) (d : Nat) (w w' : World K) (T : List (P07.AdjCall K))
    (hg : P07.GoodR d w.root) (h : P07.LRun cfg d w T w') :
    P07.ownFlows w'.root = P07.ownFlows w.root + P07.flowIn T [] ∧
    P07.totalFlows w'.root - P07.totalFlows w.root =
      P07.flowIn T [] + (P07.sumPassed w'.root - P07.sumPassed w.root) := by
  rw [← P07.rootFlowIn_eq]; exact h.flows hg

example : P07.GoodR 0 LDx.wN.root ∧ ∃ w', P07.LRun LDx.cfgN 0 LDx.wN LDx.traceN w' := by
  obtain ⟨w', h⟩ := LDx.run0_ok
  exact ⟨LDx.wN_goodR, w', LDx.runN_lrun h⟩

/-! ### (5) the bankruptcy day -/

/-- **The liquidation obeys the same law.**  If the opening update of date `d` leaves the root bankrupt, the
    day is that update alone (`run` is not called, no closing update), and — the liquidation being a `flatten`
    of the whole tree followed by a same-date update — every strategy node satisfies the day ledger without
    adjustment terms: the proceeds of the liquidation are minus the outlays its own securities record, the fees
    are the liquidation's commissions, sub-strategies hand nothing up (a `flatten` moves no capital between
    strategies). -/
theorem bankruptcy_day_ledger (cfg : Cfg K) (run : RunFn K) (d : Nat) (w w1 : World K)
    (hp : P07.Prev d w.root) (h1 : updRoot cfg d w = .ok w1) (hb : w1.bankrupt = true) :
    btDay cfg run d w = .ok w1 ∧
    ∀ q sd ks, w.root.get? q = some (.strat sd ks) →
      ∃ sd' ks', w1.root.get? q = some (.strat sd' ks') ∧ sd'.now = some d ∧
        sd'.capital - sd.capital =
          parkedKids ks + sd'.netFlows - (outlayKids d ks' - outlayKids d ks) - sd'.lastFee
            - P07.passedDown ks' := by
  refine ⟨P07.btDay_bankrupt h1 hb, fun q sd ks hq => ?_⟩
  obtain ⟨sd', ks', g, hn, hbal⟩ := (P07.updRoot_dayRel hp h1).path q sd ks hq
  refine ⟨sd', ks', g, hn, ?_⟩
  rw [P07.injSum_nil, P07.bal] at hbal
  linear_combination hbal

/-- `wBk`: root `−1489.505 − (−2000) = 7 + 0 − (−505) − 1.505 − 0` -/
example : P07.Prev 1 LDx.wBk.root ∧ ∃ w', btDay LDx.cfgN LDx.runN 1 LDx.wBk = .ok w' ∧ w'.bankrupt = true ∧
    LDx.ledgerAt w' [] = some (-297901/200, 301/200, 0) ∧
    (-297901/200 - (-2000) : Rat) = 7 + 0 - (-505) - 301/200 - 0 := by
  obtain ⟨w', h, hb, e⟩ := LDx.bk_ok
  exact ⟨LDx.wBk_prev, w', h, hb, e, by norm_num⟩

end Bt.C07
