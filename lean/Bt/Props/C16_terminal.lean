import Bt.Proofs.TerminalRun
import Bt.Proofs.Examples
/-! C16 (terminal part) — "… and from then on the backtest no longer runs the strategy's algos, positions
    stay at zero and value and cash stay constant."  Property theorems only; the proofs live in
    `Bt.Proofs.Terminal` / `Bt.Proofs.TerminalRun` (namespace `Bt.P16`).

    Vocabulary (`Bt.P16`):
    * `allFlat n`      every security of the tree has `position = 0`;
    * `Unparked n`     no security carries parked cash (`capital = 0`: coupon less holding cost waiting for the
                       next date's sweep);
    * `Settled n`      every strategy's `value` = its cash + the values of its sub-strategies, and every security
                       the update loop still visits (`needupdate`) is worth `0`;
    * `DeadSettled n`  = `allFlat n ∧ Unparked n ∧ Settled n` (`deadSettled_iff`);
    * `capitals n`     the cash of every strategy of the tree (pre-order);  `cashBelow n` all the cash of the tree,
                       parked amounts included;  `Fresh d n` no node's clock stands at `d`;
    * `rootCash w`, `rootKids w`, `rootRCash w`, `rootRValue w`  cash, children, cash series, value series of the
                       root;  `FreshDates now ds`  every date of `ds` differs from the one before it (the first
                       from `now`);  `PosRowsZero I n`  flat, and no position-series entry at an index in `I` is
                       non-zero. -/
set_option linter.unusedSectionVars false
set_option linter.unusedVariables false
namespace Bt.C16
open Bt Bt.P16

variable {K : Type} [Field K] [LinearOrder K] [IsStrictOrderedRing K] [HasFloor K]

/-! ### concrete instances for the `example`s (`Ex.cfg`: `TOL = 1/2`) -/

/-- a flat security (three dates; the last price is NaN), traded on date 0 (`lastPos = 3`) -/
def deadSec (nm : String) (kind : SecKind) (nu : Bool) : SecData Rat :=
  { Ex.sec nm kind 0 with
    now := some 0, lastPos := 3, needupdate := nu, prices := [some 5, some 6, none],
    rPosition := [3, 0, 0], rValue := [30, 0, 0], rNotl := [30, 0, 0] }

def deadRoot : StratData Rat :=
  { Ex.strat "root" false (-70) with
    bankrupt := true, now := some 0, value := -66, lastValue := -66, netFlows := 0,
    rCash := [-70, 0, 0], rValue := [-66, 0, 0] }

def deadSub : StratData Rat :=
  { Ex.strat "sub" false 4 with
    now := some 0, value := 4, lastValue := 4, netFlows := 0,
    rCash := [4, 0, 0], rValue := [4, 0, 0] }

/-- flagged root (cash −70, value −66) ─ a (plain, still visited), b (coupon bond, quiet),
    sub (cash 4, value 4) ─ c (coupon bond, still visited); every position 0 -/
def deadTree : Node Rat :=
  .strat deadRoot [ .sec (deadSec "a" .plain true), .sec (deadSec "b" .coupon false),
                    .strat deadSub [ .sec (deadSec "c" .coupon true) ] ]

def deadWorld : World Rat := ⟨deadTree, false⟩

/-- algos that raise whenever they are run -/
def raising : RunFn Rat := fun _ _ => .error .badPath

theorem deadTree_deadSettled : DeadSettled deadTree := by
  simp only [deadTree, deadSettled_strat, DeadSettledKids, treeAllKids_nil, treeAllKids_cons, treeAll_sec,
    treeAll_strat, StratSettled, SecDead, subVal]
  decide +kernel

/-- the same tree with 2 of cash parked on `b`, 1 on `c`, and stale values everywhere -/
def flatTree : Node Rat :=
  .strat { deadRoot with value := 17 }
    [ .sec (deadSec "a" .plain true), .sec { deadSec "b" .coupon false with capital := 2 },
      .strat { deadSub with value := 9 } [ .sec { deadSec "c" .coupon true with capital := 1 } ] ]

/-! ### (1) after the bankruptcy the algos are never run again -/

/-- If the first `update` of a day of `Backtest.run` returns a flagged root, `strategy.run()` is not called
    and there is no second `update`: the day's result is that tree, whatever the algos are. -/
theorem bankrupt_no_run (cfg : Cfg K) (run : RunFn K) (d : Nat) (w w1 : World K)
    (h : updRoot cfg d w = .ok w1) (hb1 : w1.bankrupt = true) : btDay cfg run d w = .ok w1 :=
  btDay_of_flagged run h hb1

/-- the day on which the bankruptcy happens: root −100 cash against 30 of securities; the algos would raise -/
example : ∃ w1, updRoot Ex.cfg 0 Ex.brokeWorld = .ok w1 ∧ w1.bankrupt = true ∧
    btDay Ex.cfg raising 0 Ex.brokeWorld = .ok w1 := by
  obtain ⟨w1, h, hb⟩ := Ex.check_ok (x := updRoot Ex.cfg 0 Ex.brokeWorld) (p := fun w => w.bankrupt)
    (by decide +kernel)
  exact ⟨w1, h, hb, bankrupt_no_run Ex.cfg raising 0 _ w1 h hb⟩

/-- The flag is absorbing: `root.update` never clears it. -/
theorem flag_absorbing (cfg : Cfg K) (d : Nat) (w w' : World K) (hb : w.bankrupt = true)
    (h : updRoot cfg d w = .ok w') : w'.bankrupt = true :=
  updRoot_bankrupt_mono hb h

example : deadWorld.bankrupt = true ∧ ∃ w', updRoot Ex.cfg 1 deadWorld = .ok w' ∧ w'.bankrupt = true := by
  obtain ⟨w', h, _⟩ := Ex.check_ok (x := updRoot Ex.cfg 1 deadWorld) (p := fun _ => true) (by decide +kernel)
  exact ⟨rfl, w', h, flag_absorbing Ex.cfg 1 _ w' rfl h⟩

/-- Hence on a flagged root a whole day of `Backtest.run` is one `root.update` … -/
theorem bankrupt_day_is_update (cfg : Cfg K) (run : RunFn K) (d : Nat) (w : World K) (hb : w.bankrupt = true) :
    btDay cfg run d w = updRoot cfg d w :=
  btDay_bankrupt run d hb

example : btDay Ex.cfg raising 1 deadWorld = updRoot Ex.cfg 1 deadWorld :=
  bankrupt_day_is_update Ex.cfg raising 1 deadWorld rfl

/-- … and the rest of the backtest does not depend on the strategy's algos at all
    (`P16.updLoop`: the loop of `Backtest.run` with `root.update` only). -/
theorem bankrupt_run_irrelevant (cfg : Cfg K) (run run' : RunFn K) (ds : List Nat) (w : World K)
    (hb : w.bankrupt = true) :
    btLoop cfg run ds w = btLoop cfg run' ds w ∧ btLoop cfg run ds w = updLoop cfg ds w :=
  ⟨btLoop_run_irrelevant run run' ds hb, btLoop_bankrupt run ds hb⟩

/-- raising algos and do-nothing algos give the same (successful) rest of the run -/
example : btLoop Ex.cfg raising [1, 2] deadWorld = btLoop Ex.cfg (fun _ w => .ok w) [1, 2] deadWorld ∧
    (btLoop Ex.cfg raising [1, 2] deadWorld).toOption.isSome = true :=
  ⟨(bankrupt_run_irrelevant Ex.cfg raising _ [1, 2] deadWorld rfl).1, by decide +kernel⟩

/-! ### (2) `update` on a liquidated, settled tree changes nothing -/

/-- `DeadSettled` spelled out. -/
theorem deadSettled_iff (n : Node K) : DeadSettled n ↔ allFlat n ∧ Unparked n ∧ Settled n :=
  P16.deadSettled_iff.1 n

example : allFlat deadTree ∧ Unparked deadTree ∧ Settled deadTree :=
  (deadSettled_iff deadTree).1 deadTree_deadSettled

/-- `update(d')` of ANY node of a liquidated, settled tree, for ANY date `d'` (new or the same again): the
    subtree stays liquidated and settled — every position `0`, nothing parked — and no strategy's cash changes.
    (Securities still flagged `needupdate` are re-marked: with position `0` their value is `0 × price`, or `0`
    for a NaN price, which `is_zero(position)` lets through; coupon and holding cost are `0 × …`, so the coupon
    classes park `0`; the outlay accumulated by the liquidation is flushed into its row without touching cash.) -/
theorem dead_update_node (cfg : Cfg K) (d' : Nat) (n n' : Node K) (hd : DeadSettled n)
    (h : updNode cfg d' n = .ok n') : DeadSettled n' ∧ capitals n' = capitals n :=
  updNode_deadSettled hd h

/-- … and the strategy's value stays what it is (`= cashBelow`, the sum of the cash of the strategies below). -/
theorem dead_update_node_value (cfg : Cfg K) (d' : Nat) (sd : StratData K) (kids : List (Node K)) (n' : Node K)
    (hd : DeadSettled (.strat sd kids)) (h : updNode cfg d' (.strat sd kids) = .ok n') :
    n'.value = sd.value ∧ sd.value = cashBelow (.strat sd kids) :=
  ⟨updNode_deadSettled_value hd h, hd.value_eq⟩

/-- new date 1, and the old date 0 once more -/
example : DeadSettled deadTree ∧
    Ex.check (updNode Ex.cfg 1 deadTree) (fun n' => n'.value == -66 && capitals n' == [-70, 4]) = true ∧
    Ex.check (updNode Ex.cfg 0 deadTree) (fun n' => n'.value == -66 && capitals n' == [-70, 4]) = true :=
  ⟨deadTree_deadSettled, by decide +kernel, by decide +kernel⟩

/-- Flatness and cash need no hypothesis on the recorded values: `Dead` (= `allFlat` and `Unparked`) alone is
    preserved by `update` on any date, with every strategy's cash unchanged. -/
theorem dead_update_cash (cfg : Cfg K) (d' : Nat) (n n' : Node K) (hd : Dead n)
    (h : updNode cfg d' n = .ok n') : Dead n' ∧ capitals n' = capitals n :=
  updNode_dead hd h

/-- `deadTree` with a stale root value: not settled, cash still fixed -/
example : Dead (.strat { deadRoot with value := 17 } [ .sec (deadSec "a" .plain true) ]) ∧
    Ex.check (updNode Ex.cfg 1 (.strat { deadRoot with value := 17 } [ .sec (deadSec "a" .plain true) ]))
      (fun n' => n'.value == -70 && capitals n' == [-70]) = true :=
  ⟨by simp [Dead, deadSec, Ex.sec], by decide +kernel⟩

/-- The same for `root.update` on a flagged world (where it is `update` of the root node). -/
theorem dead_update (cfg : Cfg K) (d' : Nat) (w w' : World K) (hb : w.bankrupt = true)
    (hd : DeadSettled w.root) (h : updRoot cfg d' w = .ok w') :
    w'.bankrupt = true ∧ DeadSettled w'.root ∧ capitals w'.root = capitals w.root ∧
      rootCash w' = rootCash w ∧ w'.root.value = w.root.value :=
  updRoot_dead hb hd h

example : ∃ w', updRoot Ex.cfg 2 deadWorld = .ok w' ∧ DeadSettled w'.root ∧ rootCash w' = -70 ∧
    w'.root.value = -66 := by
  obtain ⟨w', h, _⟩ := Ex.check_ok (x := updRoot Ex.cfg 2 deadWorld) (p := fun _ => true) (by decide +kernel)
  obtain ⟨-, h2, -, h4, h5⟩ := dead_update Ex.cfg 2 deadWorld w' rfl deadTree_deadSettled h
  exact ⟨w', h, h2, h4, h5⟩

/-! ### (3) the rest of the backtest -/

/-- **Terminal state.**  From a flagged, liquidated, settled tree the rest of `Backtest.run` — whatever the
    algos, whatever the dates — keeps the flag, keeps every position at `0` with nothing parked
    (`DeadSettled`), and changes neither any strategy's cash nor the root's value; and for every date `d` the
    loop visits, the root's recorded cash at `d` is that constant cash, and its recorded value at `d` is that
    constant value (the latter when each date is new as the loop reaches it — the code does not rewrite the
    value row on a repeated date). -/
theorem bankrupt_terminal (cfg : Cfg K) (run : RunFn K) (ds : List Nat) (w w' : World K)
    (hb : w.bankrupt = true) (hd : DeadSettled w.root) (h : btLoop cfg run ds w = .ok w') :
    w'.bankrupt = true ∧ DeadSettled w'.root ∧ allFlat w'.root ∧ capitals w'.root = capitals w.root ∧
      rootCash w' = rootCash w ∧ w'.root.value = w.root.value ∧
      ∀ d ∈ ds, (d < (rootRCash w).length → (rootRCash w')[d]? = some (rootCash w)) ∧
        (FreshDates w.root.now ds → d < (rootRValue w).length → (rootRValue w')[d]? = some w.root.value) := by
  rw [btLoop_bankrupt run ds hb] at h
  obtain ⟨h1, h2, h3, h4, h5⟩ := updLoop_dead ds hb hd h
  exact ⟨h1, h2, h2.allFlat, h3, h4, h5, updLoop_dead_rows ds hb hd h⟩

example : FreshDates deadWorld.root.now [1, 2] ∧
    Ex.check (btLoop Ex.cfg raising [1, 2] deadWorld) (fun w' => w'.root.value == -66 && rootCash w' == -70 &&
      rootRCash w' == [-70, -70, -70] && rootRValue w' == [-66, -66, -66]) = true :=
  ⟨by decide, by decide +kernel⟩

/-- **… and no non-zero position is ever recorded again:** every security's position series keeps only zeros
    at the indices `I` where it had only zeros (e.g. all later dates: the series are zero-initialised).
    A quiet security (`needupdate = False`) is not visited any more, so its later rows are the initial zeros;
    a visited one gets `position = 0` written. -/
theorem bankrupt_terminal_positions (cfg : Cfg K) (run : RunFn K) (ds : List Nat) (I : Nat → Prop)
    (w w' : World K) (hb : w.bankrupt = true) (hz : PosRowsZero I w.root)
    (h : btLoop cfg run ds w = .ok w') : PosRowsZero I w'.root := by
  rw [btLoop_bankrupt run ds hb] at h
  exact updLoop_posRowsZero ds hb hz h

example : PosRowsZero (fun i => 0 < i) deadTree ∧
    Ex.check (btLoop Ex.cfg raising [1, 2] deadWorld) (fun w' =>
      match w'.root with
      | .strat _ [.sec a, .sec b, .strat _ [.sec c]] =>
        a.rPosition == [3, 0, 0] && b.rPosition == [3, 0, 0] && c.rPosition == [3, 0, 0] && !a.needupdate
      | _ => false) = true := by
  refine ⟨?_, by decide +kernel⟩
  simp only [PosRowsZero, deadTree, AllSecs_strat, AllSecsKids_cons, AllSecs_sec, AllSecsKids_nil, deadSec, Ex.sec]
  refine ⟨⟨trivial, ?_⟩, ⟨trivial, ?_⟩, ⟨⟨trivial, ?_⟩, trivial⟩, trivial⟩ <;>
  · intro i hi x hx
    match i, hi with
    | 1, _ => exact (Option.some.inj hx).symm
    | 2, _ => exact (Option.some.inj hx).symm
    | (n + 3), _ => cases hx

/-! ### (4) from the liquidation to the terminal state -/

/-- **Glue, hypothesis form.**  The tree the bankruptcy branch of `root.update` returns is `DeadSettled` — so
    that `bankrupt_terminal` applies from it — as soon as it is flat, carries no parked cash and is settled.

    * `allFlat` is what the liquidation is for (proved separately).
    * `Unparked` holds in every reachable liquidated state: the redone `update` recomputes
      `capital := 0 × coupon − 0 = 0` on every coupon security it visits, a quiet one (`needupdate = False`)
      parked `position × coupon − cost` for its current position `0` at its last update, and the other classes
      never park anything.  It is not derivable from `update` alone (an arbitrary tree may carry anything), and
      without it the parked amount reaches the parent's cash once more, on the next date
      (`terminal_after_liquidation_next`).
    * `Settled` can FAIL on the bankruptcy date itself: the redone `update` runs on the same date, so the
      value write is guarded by `is_zero(value − total)`; if the liquidated total is within `TOL` of the value
      recorded before (possible with hedge-class securities, whose notional is always `0`) the stale value
      stays, and the next date writes the exact one (`value_stale_at_bankruptcy_date`). -/
theorem terminal_after_liquidation (cfg : Cfg K) (d : Nat) (w w1 : World K) (h : updRoot cfg d w = .ok w1)
    (hb : w.bankrupt = false) (hb1 : w1.bankrupt = true) (hflat : allFlat w1.root)
    (hpark : Unparked w1.root) (hset : Settled w1.root) :
    DeadSettled w1.root ∧
      ∀ (run : RunFn K) (ds : List Nat) (w' : World K), btLoop cfg run ds w1 = .ok w' →
        w'.bankrupt = true ∧ allFlat w'.root ∧ rootCash w' = rootCash w1 ∧ w'.root.value = w1.root.value := by
  have hd : DeadSettled w1.root := (deadSettled_iff _).2 ⟨hflat, hpark, hset⟩
  refine ⟨hd, fun run ds w' h' => ?_⟩
  obtain ⟨a1, -, a3, -, a5, a6, -⟩ := bankrupt_terminal cfg run ds w1 w' hb1 hd h'
  exact ⟨a1, a3, a5, a6⟩

/-- cash −100 against 30 of securities: liquidated on date 0 (cash = value = −70), unchanged on date 1 -/
example : ∃ w1 w', updRoot Ex.cfg 0 Ex.brokeWorld = .ok w1 ∧ Ex.brokeWorld.bankrupt = false ∧
    w1.bankrupt = true ∧ allFlat w1.root ∧ Unparked w1.root ∧ Settled w1.root ∧
    btLoop Ex.cfg raising [1] w1 = .ok w' ∧ rootCash w' = -70 ∧ w'.root.value = -70 := by
  have hc : Ex.check ((updRoot Ex.cfg 0 Ex.brokeWorld).bind fun w1 =>
        (btLoop Ex.cfg raising [1] w1).map fun w' => (w1, w'))
      (fun p => match p.1.root with
        | .strat sd [.sec s] => sd.bankrupt && s.position == 0 && s.capital == 0 && s.value == 0 &&
            sd.value == sd.capital && sd.capital == -70
        | _ => false) = true := by decide +kernel
  obtain ⟨⟨w1, w'⟩, hr, hp⟩ := Ex.check_ok hc
  obtain ⟨w1', h1, hr⟩ := Except.bind_eq_ok hr
  obtain ⟨w2, h2, hr⟩ := Except.map_eq_ok hr
  cases hr
  clear hc
  obtain ⟨r, st⟩ := w1
  simp only at hp
  split at hp
  · rename_i sd s _
    simp only [Bool.and_eq_true, beq_iff_eq] at hp
    obtain ⟨⟨⟨⟨⟨p1, p2⟩, p3⟩, p4⟩, p5⟩, p6⟩ := hp
    have hfl : allFlat (Node.strat sd [.sec s]) := by simp [allFlat, p2]
    have hun : Unparked (Node.strat sd [.sec s]) := by simp [Unparked, p3]
    have hse : Settled (Node.strat sd [.sec s]) := by
      simp [Settled, treeAll_strat, treeAllKids_cons, treeAll_sec, StratSettled, subVal, p4, p5]
    obtain ⟨-, hall⟩ := terminal_after_liquidation Ex.cfg 0 _ _ h1 rfl p1 hfl hun hse
    obtain ⟨-, -, c1, c2⟩ := hall raising [1] w' h2
    refine ⟨_, w', h1, rfl, p1, hfl, hun, hse, h2, ?_, ?_⟩
    · rw [c1]; exact p6
    · rw [c2]; exact p5.trans p6
  · cases hp

/-- **The first later date settles everything.**  `root.update` on a date that is new for every node of a
    flagged flat tree sweeps the cash parked on the securities into their parents — the only cash movement
    still possible — rewrites every value, and leaves a `DeadSettled` tree: the root's value is all the cash of
    the old tree, its cash the old cash plus what was parked on its own securities. -/
theorem settle_on_next_date (cfg : Cfg K) (d1 : Nat) (w w' : World K) (hb : w.bankrupt = true)
    (hflat : allFlat w.root) (hfresh : Fresh d1 w.root) (h : updRoot cfg d1 w = .ok w') :
    w'.bankrupt = true ∧ DeadSettled w'.root ∧ w'.root.value = cashBelow w.root ∧
      rootCash w' = rootCash w + parkedCash (rootKids w) :=
  updRoot_settle hb hflat hfresh h

/-- 2 parked on `b` (swept into the root: −70 → −68), 1 on `c` (into `sub`: 4 → 5), stale values 17 and 9:
    all cash = −70 + 2 + 4 + 1 = −63 -/
example : allFlat flatTree ∧ Fresh 1 flatTree ∧ ¬ DeadSettled flatTree ∧ cashBelow flatTree = -63 ∧
    Ex.check (updRoot Ex.cfg 1 ⟨flatTree, false⟩)
      (fun w' => w'.root.value == -63 && rootCash w' == -68 && capitals w'.root == [-68, 5]) = true := by
  refine ⟨by simp [flatTree, allFlat, deadSec, Ex.sec], ?_, ?_, by decide +kernel, by decide +kernel⟩
  · simp [flatTree, Fresh, treeAll_strat, treeAllKids_cons, treeAll_sec, deadSec, deadRoot, deadSub]
  · simp only [flatTree, deadSettled_strat, DeadSettledKids, treeAllKids_nil, treeAllKids_cons, treeAll_sec,
      treeAll_strat, StratSettled, SecDead, subVal]
    decide +kernel

/-- **Glue, unconditional form.**  From a flagged flat tree — nothing assumed about parked cash or recorded
    values — and a first later date `d1` that is new for every node: after the rest of the run (any algos, any
    further dates) the flag is set, the tree is `DeadSettled` (all positions `0`), the root's cash is the cash
    at the bankruptcy date plus what was parked on its securities then (`= ` that cash when `Unparked`), its value
    is all the cash of the tree at the bankruptcy date, and the cash / value rows of `d1` and of every later
    date hold exactly these two constants: cash changes at most once more, by the coupons parked on the
    bankruptcy date, and nothing changes after `d1`. -/
theorem terminal_after_liquidation_next (cfg : Cfg K) (run : RunFn K) (d1 : Nat) (ds : List Nat)
    (w1 w' : World K) (hb1 : w1.bankrupt = true) (hflat : allFlat w1.root) (hfresh : Fresh d1 w1.root)
    (h : btLoop cfg run (d1 :: ds) w1 = .ok w') :
    w'.bankrupt = true ∧ DeadSettled w'.root ∧ allFlat w'.root ∧
      rootCash w' = rootCash w1 + parkedCash (rootKids w1) ∧ w'.root.value = cashBelow w1.root ∧
      ∀ d ∈ d1 :: ds,
        (d < (rootRCash w1).length → (rootRCash w')[d]? = some (rootCash w1 + parkedCash (rootKids w1))) ∧
        (FreshDates (some d1) ds → d < (rootRValue w1).length →
          (rootRValue w')[d]? = some (cashBelow w1.root)) := by
  rw [btLoop_bankrupt run _ hb1] at h
  obtain ⟨h1, h2, h3, h4, h5⟩ := updLoop_settle hb1 hflat hfresh h
  exact ⟨h1, h2, h2.allFlat, h3, h4, h5⟩

example : Ex.check (btLoop Ex.cfg raising [1, 2] ⟨flatTree, false⟩) (fun w' => w'.root.value == -63 &&
    rootCash w' == -68 && rootRCash w' == [-70, -68, -68] && rootRValue w' == [-66, -63, -63]) = true := by
  decide +kernel

/-- with nothing parked the cash is that of the bankruptcy date -/
theorem terminal_cash_of_unparked (w1 : World K) (hb1 : w1.bankrupt = true) (hpark : Unparked w1.root) :
    parkedCash (rootKids w1) = 0 ∧ cashBelow w1.root = (capitals w1.root).sum := by
  obtain ⟨sd, kids, st, rfl, -⟩ := bankrupt_root hb1
  exact unparked_cash hpark

/-- `Ex.tinyWorld` (a root holding one unit of a hedge-class security, notional always `0`) whose broker pays a
    rebate of 3/10 on every sale (a negative commission) -/
def rebateWorld : World Rat :=
  { root := .strat { Ex.strat "root" false (-104/10) with comm := fun q _ => if q < 0 then -3/10 else 0 }
      [ .sec { Ex.sec "h" .hedge 1 with prices := [some 5, some (49/10)] } ], stale := true }

/-- **`Settled` cannot be dropped from the hypothesis form: the value recorded on the bankruptcy date can be
    stale.**  `rebateWorld` (`TOL = 1/2`): worth −2/5 on date 0 (no bankruptcy: `is_zero`), −3/5 on date 1 →
    bankrupt and liquidated (cash −3/10 after the rebate); the redone `update` of date 1 finds −3/10 within
    `TOL` of the recorded −2/5 and notional `0 = 0`, so it writes nothing; date 2 is new and records −3/10.
    Flag set, positions `0`, nothing parked, cash −3/10 throughout — but the value moves once more. -/
theorem value_stale_at_bankruptcy_date :
    ∃ w0 w1 w2 : World Rat, updRoot Ex.cfg 0 rebateWorld = .ok w0 ∧ updRoot Ex.cfg 1 w0 = .ok w1 ∧
      w0.bankrupt = false ∧ w1.bankrupt = true ∧ allFlat w1.root ∧ Unparked w1.root ∧
      btLoop Ex.cfg raising [2] w1 = .ok w2 ∧
      rootCash w1 = -3/10 ∧ rootCash w2 = -3/10 ∧ w1.root.value = -2/5 ∧ w2.root.value = -3/10 := by
  have hc : Ex.check ((updRoot Ex.cfg 0 rebateWorld).bind fun w0 => (updRoot Ex.cfg 1 w0).bind fun w1 =>
        (btLoop Ex.cfg raising [2] w1).map fun w2 => (w0, w1, w2))
      (fun p => !p.1.bankrupt && rootCash p.2.2 == -3/10 && p.2.2.root.value == -3/10 &&
        match p.2.1.root with
        | .strat sd [.sec s] => sd.bankrupt && s.position == 0 && s.capital == 0 && sd.capital == -3/10 &&
            sd.value == -2/5
        | _ => false) = true := by decide +kernel
  obtain ⟨⟨w0, w1, w2⟩, hr, hp⟩ := Ex.check_ok hc
  obtain ⟨w0', h0, hr⟩ := Except.bind_eq_ok hr
  obtain ⟨w1', h1, hr⟩ := Except.bind_eq_ok hr
  obtain ⟨w2', h2, hr⟩ := Except.map_eq_ok hr
  cases hr
  clear hc
  obtain ⟨r, st⟩ := w1
  simp only [Bool.and_eq_true, Bool.not_eq_true', beq_iff_eq] at hp
  obtain ⟨⟨⟨q1, q2⟩, q3⟩, hp⟩ := hp
  split at hp
  · simp only [Bool.and_eq_true, beq_iff_eq] at hp
    obtain ⟨⟨⟨⟨p1, p2⟩, p3⟩, p4⟩, p5⟩ := hp
    exact ⟨w0, _, w2, h0, h1, q1, p1, by simp [allFlat, p2], by simp [Unparked, p3], h2, p4, q2, p5, q3⟩
  · cases hp

/-- Without the rebate (`Ex.tinyWorld`, commissions `0`) the same corner is reached — cash −3/5, recorded value
    still −2/5 — and the NEXT date's `update` raises: the return's base `last_value + net_flows = −2/5` is
    `is_zero` while the value −3/5 is not (`ZeroDivisionError` in the code).  So `btLoop … = .ok _`, the
    hypothesis of the terminal theorems, is not automatic after a bankruptcy. -/
theorem stale_value_then_zero_division :
    ∃ w0 w1 : World Rat, updRoot Ex.cfg 0 Ex.tinyWorld = .ok w0 ∧ updRoot Ex.cfg 1 w0 = .ok w1 ∧
      w1.bankrupt = true ∧ rootCash w1 = -3/5 ∧ w1.root.value = -2/5 ∧
      btLoop Ex.cfg raising [2] w1 = .error Err.zeroBaseReturn := by
  have hc : Ex.check ((updRoot Ex.cfg 0 Ex.tinyWorld).bind fun w0 => (updRoot Ex.cfg 1 w0).map fun w1 => (w0, w1))
      (fun p => p.2.bankrupt && rootCash p.2 == -3/5 && p.2.root.value == -2/5 &&
        (match btLoop Ex.cfg raising [2] p.2 with
         | .error e => e == Err.zeroBaseReturn
         | .ok _ => false)) = true := by decide +kernel
  obtain ⟨⟨w0, w1⟩, hr, hp⟩ := Ex.check_ok hc
  obtain ⟨w0', h0, hr⟩ := Except.bind_eq_ok hr
  obtain ⟨w1', h1, hr⟩ := Except.map_eq_ok hr
  cases hr
  clear hc
  simp only [Bool.and_eq_true, beq_iff_eq] at hp
  obtain ⟨⟨⟨q1, q2⟩, q3⟩, q4⟩ := hp
  refine ⟨w0, w1, h0, h1, q1, q2, q3, ?_⟩
  split at q4
  · rename_i e he
    rw [he, eq_of_beq q4]
  · cases q4

end Bt.C16
